/-
  The timer invariant (C15): time is read off the trace (`.tick` marks), and the state's timer
  fields (`_start_time`, `_poll_start`, `_last_pong`) are shown to be what the trace says they
  should be, through every function of the model up to a whole connection (`runAll`).
-/
import Lomond.Proofs.Timers
set_option linter.unusedSimpArgs false
set_option linter.unusedVariables false
namespace Lomond.Core.Timers
open Lomond Lomond.Core Lomond.Core.Lift Lomond.Core.Pong

/-! ### reading time off the trace

  The trace (newest first) carries a `.tick now` mark whenever the clock advanced inside
  `selector.wait`.  Everything the property says about *when* something happened is therefore a
  statement about the trace alone: the clock at an entry is the newest tick mark below it, the
  session time is the clock minus the clock at the (newest) Ready event. -/

def _root_.Lomond.Core.Obs.tmTickVal : Obs → Option Nat
  | .tick n => some n
  | _ => none

def _root_.Lomond.Core.Obs.tmIsReady : Obs → Bool
  | .ev (.ready _ _) => true
  | _ => false

def _root_.Lomond.Core.Obs.tmIsPoll : Obs → Bool
  | .ev .poll => true
  | _ => false

def _root_.Lomond.Core.Obs.tmIsPong : Obs → Bool
  | .ev (.pong _) => true
  | _ => false

def _root_.Lomond.Core.Obs.tmIsUnresp : Obs → Bool
  | .ev .unresponsive => true
  | _ => false

/-- neither a clock mark nor a Ready, Poll, Pong or Unresponsive event -/
def _root_.Lomond.Core.Obs.tmNeutral (o : Obs) : Bool :=
  o.tmTickVal.isNone && !o.tmIsReady && !o.tmIsPoll && !o.tmIsPong && !o.tmIsUnresp

/-- the clock after the entries of `tr`: the newest tick mark (0 before any) -/
def clockOf : List Obs → Nat
  | [] => 0
  | o :: t => match o.tmTickVal with
    | some n => n
    | none => clockOf t

/-- the clock at which the newest Ready event was yielded -/
def readyAt : List Obs → Option Nat
  | [] => none
  | o :: t => if o.tmIsReady then some (clockOf t) else readyAt t

/-- time since Ready after the entries of `tr` -/
def sessOf (tr : List Obs) : Nat :=
  match readyAt tr with
  | none => 0
  | some t0 => clockOf tr - t0

/-- session time of the newest Poll event since the newest Ready -/
def lastPoll : List Obs → Option Nat
  | [] => none
  | o :: t => if o.tmIsReady then none else if o.tmIsPoll then some (sessOf t) else lastPoll t

/-- **the Poll spacing rule on a trace**: every Poll event that has a predecessor (since Ready)
    at session time `p0` happens at a session time `t` with `p0 + p ≤ t`, and — when `hi` —
    `t < p0 + 2·p` -/
def PollGaps (p : Nat) (hi : Bool) : List Obs → Prop
  | [] => True
  | o :: t =>
    (o.tmIsPoll = true → ∀ p0, lastPoll t = some p0 →
        p0 + p ≤ sessOf t ∧ (hi = true → sessOf t < p0 + 2 * p)) ∧ PollGaps p hi t

/-- session time of the newest sign of life: the newest Pong event since the newest Ready, or 0
    (the Ready itself) -/
def lastAlive : List Obs → Nat
  | [] => 0
  | o :: t => if o.tmIsReady then 0 else if o.tmIsPong then sessOf t else lastAlive t

/-- **the Unresponsive rule on a trace**: every Unresponsive event happens with the ping timeout
    enabled and more than `pt` after the newest sign of life -/
def UnrespOK (pt : Nat) : List Obs → Prop
  | [] => True
  | o :: t => (o.tmIsUnresp = true → pt ≠ 0 ∧ sessOf t - lastAlive t > pt) ∧ UnrespOK pt t

theorem neutral_iff (o : Obs) :
    o.tmNeutral = true ↔ o.tmTickVal = none ∧ o.tmIsReady = false ∧ o.tmIsPoll = false ∧
      o.tmIsPong = false ∧ o.tmIsUnresp = false := by
  unfold Obs.tmNeutral
  cases o.tmTickVal <;> cases o.tmIsReady <;> cases o.tmIsPoll <;> cases o.tmIsPong <;> cases o.tmIsUnresp <;> simp

theorem clockOf_neutral {o : Obs} (t : List Obs) (h : o.tmNeutral = true) : clockOf (o :: t) = clockOf t := by
  obtain ⟨h1, h2, h3, h4, h5⟩ := (neutral_iff o).mp h
  simp [clockOf, h1]

theorem readyAt_neutral {o : Obs} (t : List Obs) (h : o.tmNeutral = true) : readyAt (o :: t) = readyAt t := by
  obtain ⟨h1, h2, h3, h4, h5⟩ := (neutral_iff o).mp h
  simp [readyAt, h2]

theorem sessOf_neutral {o : Obs} (t : List Obs) (h : o.tmNeutral = true) : sessOf (o :: t) = sessOf t := by
  unfold sessOf; rw [readyAt_neutral t h, clockOf_neutral t h]

theorem lastPoll_neutral {o : Obs} (t : List Obs) (h : o.tmNeutral = true) : lastPoll (o :: t) = lastPoll t := by
  obtain ⟨h1, h2, h3, h4, h5⟩ := (neutral_iff o).mp h
  simp [lastPoll, h2, h3]

theorem pollGaps_neutral {o : Obs} (p : Nat) (hi : Bool) (t : List Obs) (h : o.tmNeutral = true) :
    PollGaps p hi (o :: t) ↔ PollGaps p hi t := by
  obtain ⟨h1, h2, h3, h4, h5⟩ := (neutral_iff o).mp h
  simp [PollGaps, h3]

theorem lastAlive_neutral {o : Obs} (t : List Obs) (h : o.tmNeutral = true) : lastAlive (o :: t) = lastAlive t := by
  obtain ⟨h1, h2, h3, h4, h5⟩ := (neutral_iff o).mp h
  simp [lastAlive, h2, h4]

theorem unrespOK_neutral {o : Obs} (pt : Nat) (t : List Obs) (h : o.tmNeutral = true) :
    UnrespOK pt (o :: t) ↔ UnrespOK pt t := by
  obtain ⟨h1, h2, h3, h4, h5⟩ := (neutral_iff o).mp h
  simp [UnrespOK, h5]

/-! ### library steps that neither advance the clock nor yield Ready / Poll / Pong / Unresponsive -/

/-- `s'` was reached from `s` without touching the clock, the Ready time or the Poll timer, and
    what was appended to the trace is neither a tick mark nor a Ready nor a Poll event -/
structure QuietP (s s' : Sys) : Prop where
  cfg : s'.cfg = s.cfg
  env : s'.env = s.env
  ready : s'.ready = s.ready
  pollStart : s'.pollStart = s.pollStart
  lastPong : s'.lastPong = s.lastPong
  startTime : s'.startTime = s.startTime
  now : s'.now = s.now
  trace : ∃ l, s'.trace = l ++ s.trace ∧ ∀ o ∈ l, Obs.tmNeutral o = true

theorem quietP_po : PO QuietP where
  refl s := ⟨rfl, rfl, rfl, rfl, rfl, rfl, rfl, ⟨[], rfl, by simp⟩⟩
  trans := by
    intro a b c h1 h2
    refine ⟨h2.cfg.trans h1.cfg, h2.env.trans h1.env, h2.ready.trans h1.ready, h2.pollStart.trans h1.pollStart,
      h2.lastPong.trans h1.lastPong,      h2.startTime.trans h1.startTime, h2.now.trans h1.now, ?_⟩
    obtain ⟨l1, e1, n1⟩ := h1.trace
    obtain ⟨l2, e2, n2⟩ := h2.trace
    refine ⟨l2 ++ l1, by rw [e2, e1, List.append_assoc], ?_⟩
    intro o ho
    rcases List.mem_append.mp ho with h | h
    · exact n2 o h
    · exact n1 o h

/-- leaf tactic: `QuietP s s'` for an explicit `s'` with at most one neutral entry appended -/
macro "quiet_leaf" : tactic =>
  `(tactic| ((try simp only [Res.state_ok, Res.state_err])
             first
              | exact quietP_po.refl _
              | (refine ⟨rfl, rfl, rfl, rfl, rfl, rfl, rfl, ?_⟩
                 first
                  | exact ⟨[], rfl, by simp⟩
                  | exact ⟨[_], rfl, by simp [Obs.tmNeutral, Obs.tmTickVal, Obs.tmIsReady, Obs.tmIsPoll, Obs.tmIsPong, Obs.tmIsUnresp]⟩)))

theorem quietP_closeSocket : Spec QuietP closeSocket := by
  intro s; unfold closeSocket; splits <;> quiet_leaf

theorem quietP_write (d : Bytes) (z : Option (Nat × Bytes)) : Spec QuietP (write d z) := by
  intro s; unfold write; splits <;> quiet_leaf

theorem quietP_sendFrame (op : Nat) (pl : Bytes) (c : Option Bytes) : Spec QuietP (sendFrame op pl c) := by
  intro s; unfold sendFrame
  simp only
  splits
  all_goals first
    | quiet_leaf
    | exact quietP_po.trans (by quiet_leaf) (quietP_write _ _ _)

theorem quietP_wsClose (c : Option Nat) (r : Arg) : Spec QuietP (wsClose c r) := by
  intro s; unfold wsClose
  splits
  all_goals first
    | quiet_leaf
    | (rename_i h; have := (quietP_sendFrame _ _ _).ok h; exact quietP_po.trans this (by quiet_leaf))
    | (rename_i h; have := (quietP_sendFrame _ _ _).err h; exact this)

theorem quietP_sendData (op : Nat) (pl : Bytes) (c : Bool) : Spec QuietP (sendData op pl c) := by
  intro s; unfold sendData; split <;> exact quietP_sendFrame _ _ _ s

theorem quietP_log_res (r : ActRes) : Spec QuietP (log (.res r)) := by
  intro s; unfold log modS; quiet_leaf

theorem quietP_logRes {m : M ActRes} (h : Spec QuietP m) : Spec QuietP (logRes m) := by
  unfold logRes
  exact spec_bind quietP_po h (fun r => quietP_log_res r)

theorem quietP_doAct (a : Act) : Spec QuietP (doAct a) := by
  unfold doAct
  split
  all_goals first
    | (apply quietP_logRes
       first
        | exact spec_pure quietP_po _
        | exact quietP_sendData _ _ _
        | exact quietP_wsClose _ _
        | exact spec_bind quietP_po quietP_closeSocket (fun _ => spec_pure quietP_po _)
        | exact spec_ite _ (spec_pure quietP_po _) (quietP_sendData _ _ _)
        | exact spec_ite _ (spec_pure quietP_po _) (quietP_sendFrame _ _ _))
    | (intro s; quiet_leaf)

theorem quietP_doActs (as : List Act) : Spec QuietP (doActs as) := by
  induction as with
  | nil => exact spec_pure quietP_po ()
  | cons a r ih => unfold doActs; exact spec_bind quietP_po (quietP_doAct a) (fun _ => ih)

theorem quietP_pushEv (e : Event) (s : Sys) (h : (Obs.ev e).tmNeutral = true) : QuietP s (pushEv e s) :=
  ⟨rfl, rfl, rfl, rfl, rfl, rfl, rfl, ⟨[.ev e], rfl, by simpa using h⟩⟩

theorem quietP_yieldEv (e : Event) (h : (Obs.ev e).tmNeutral = true) : Spec QuietP (yieldEv e) := by
  intro s
  rw [yieldEv_eq]
  exact quietP_po.trans (quietP_pushEv e s h) (quietP_doActs _ _)

theorem quietP_onDisconnect : Spec QuietP onDisconnect := by
  unfold onDisconnect
  apply spec_bind quietP_po quietP_closeSocket
  intro _; apply spec_modS; intro s; quiet_leaf

theorem quietP_checkAutoPing : Spec QuietP checkAutoPing := by
  unfold checkAutoPing
  refine spec_getS_bind quietP_po (fun s => ?_)
  simp only []
  split
  · refine spec_bind quietP_po (spec_modS ?_) (fun _ =>
      spec_bind quietP_po (quietP_sendFrame _ _ _) (fun _ => spec_pure quietP_po _))
    intro s; quiet_leaf
  · exact spec_pure quietP_po _

theorem quietP_checkCloseTimeout : Spec QuietP checkCloseTimeout := by
  unfold checkCloseTimeout
  refine spec_getS_bind quietP_po (fun s => ?_)
  simp only []
  splits
  all_goals first | exact spec_pure quietP_po _ | exact spec_throwE quietP_po _

/-- `_on_event` for anything but Ready and Pong -/
theorem quietP_onEvent (e : Event) (h : (Obs.ev e).tmIsReady = false) (hp : (Obs.ev e).tmIsPong = false) :
    Spec QuietP (onEvent e) := by
  intro s
  cases e with
  | ready a b => simp [Obs.tmIsReady] at h
  | pong d => simp [Obs.tmIsPong] at hp
  | ping d =>
    simp only [onEvent]
    splits
    all_goals first
      | quiet_leaf
      | (rename_i h; exact (quietP_sendFrame _ _ _).ok h)
      | (rename_i h; exact (quietP_sendFrame _ _ _).err h)
  | _ => simp only [onEvent]; quiet_leaf

/-! ### the timer invariant -/

theorem clockOf_tick (n : Nat) (t : List Obs) : clockOf (.tick n :: t) = n := rfl
theorem readyAt_tick (n : Nat) (t : List Obs) : readyAt (.tick n :: t) = readyAt t := rfl
theorem lastPoll_tick (n : Nat) (t : List Obs) : lastPoll (.tick n :: t) = lastPoll t := rfl
theorem lastAlive_tick (n : Nat) (t : List Obs) : lastAlive (.tick n :: t) = lastAlive t := rfl
theorem pollGaps_tick (p : Nat) (hi : Bool) (n : Nat) (t : List Obs) :
    PollGaps p hi (.tick n :: t) ↔ PollGaps p hi t := by
  simp [PollGaps, Obs.tmIsPoll]
theorem unrespOK_tick (pt : Nat) (n : Nat) (t : List Obs) :
    UnrespOK pt (.tick n :: t) ↔ UnrespOK pt t := by
  simp [UnrespOK, Obs.tmIsUnresp]

theorem clockOf_poll (t : List Obs) : clockOf (.ev .poll :: t) = clockOf t := rfl
theorem readyAt_poll (t : List Obs) : readyAt (.ev .poll :: t) = readyAt t := rfl
theorem sessOf_poll (t : List Obs) : sessOf (.ev .poll :: t) = sessOf t := rfl
theorem lastPoll_poll (t : List Obs) : lastPoll (.ev .poll :: t) = some (sessOf t) := rfl
theorem lastAlive_poll (t : List Obs) : lastAlive (.ev .poll :: t) = lastAlive t := rfl
theorem pollGaps_poll (p : Nat) (hi : Bool) (t : List Obs) :
    PollGaps p hi (.ev .poll :: t) ↔
      (∀ p0, lastPoll t = some p0 → p0 + p ≤ sessOf t ∧ (hi = true → sessOf t < p0 + 2 * p)) ∧
      PollGaps p hi t := by
  simp [PollGaps, Obs.tmIsPoll]
theorem unrespOK_poll (pt : Nat) (t : List Obs) : UnrespOK pt (.ev .poll :: t) ↔ UnrespOK pt t := by
  simp [UnrespOK, Obs.tmIsUnresp]

theorem clockOf_ready (a : Option Http.Str) (b : Bool) (t : List Obs) :
    clockOf (.ev (.ready a b) :: t) = clockOf t := rfl
theorem readyAt_ready (a : Option Http.Str) (b : Bool) (t : List Obs) :
    readyAt (.ev (.ready a b) :: t) = some (clockOf t) := rfl
theorem sessOf_ready (a : Option Http.Str) (b : Bool) (t : List Obs) :
    sessOf (.ev (.ready a b) :: t) = 0 := by
  simp [sessOf, readyAt_ready, clockOf_ready]
theorem lastPoll_ready (a : Option Http.Str) (b : Bool) (t : List Obs) :
    lastPoll (.ev (.ready a b) :: t) = none := rfl
theorem lastAlive_ready (a : Option Http.Str) (b : Bool) (t : List Obs) :
    lastAlive (.ev (.ready a b) :: t) = 0 := rfl
theorem pollGaps_ready (p : Nat) (hi : Bool) (a : Option Http.Str) (b : Bool) (t : List Obs) :
    PollGaps p hi (.ev (.ready a b) :: t) ↔ PollGaps p hi t := by
  simp [PollGaps, Obs.tmIsPoll]
theorem unrespOK_ready (pt : Nat) (a : Option Http.Str) (b : Bool) (t : List Obs) :
    UnrespOK pt (.ev (.ready a b) :: t) ↔ UnrespOK pt t := by
  simp [UnrespOK, Obs.tmIsUnresp]

theorem clockOf_pong (d : Bytes) (t : List Obs) : clockOf (.ev (.pong d) :: t) = clockOf t := rfl
theorem readyAt_pong (d : Bytes) (t : List Obs) : readyAt (.ev (.pong d) :: t) = readyAt t := rfl
theorem sessOf_pong (d : Bytes) (t : List Obs) : sessOf (.ev (.pong d) :: t) = sessOf t := rfl
theorem lastPoll_pong (d : Bytes) (t : List Obs) : lastPoll (.ev (.pong d) :: t) = lastPoll t := rfl
theorem lastAlive_pong (d : Bytes) (t : List Obs) : lastAlive (.ev (.pong d) :: t) = sessOf t := rfl
theorem pollGaps_pong (p : Nat) (hi : Bool) (d : Bytes) (t : List Obs) :
    PollGaps p hi (.ev (.pong d) :: t) ↔ PollGaps p hi t := by
  simp [PollGaps, Obs.tmIsPoll]
theorem unrespOK_pong (pt : Nat) (d : Bytes) (t : List Obs) :
    UnrespOK pt (.ev (.pong d) :: t) ↔ UnrespOK pt t := by
  simp [UnrespOK, Obs.tmIsUnresp]

theorem clockOf_unresp (t : List Obs) : clockOf (.ev .unresponsive :: t) = clockOf t := rfl
theorem readyAt_unresp (t : List Obs) : readyAt (.ev .unresponsive :: t) = readyAt t := rfl
theorem sessOf_unresp (t : List Obs) : sessOf (.ev .unresponsive :: t) = sessOf t := rfl
theorem lastPoll_unresp (t : List Obs) : lastPoll (.ev .unresponsive :: t) = lastPoll t := rfl
theorem lastAlive_unresp (t : List Obs) : lastAlive (.ev .unresponsive :: t) = lastAlive t := rfl
theorem pollGaps_unresp (p : Nat) (hi : Bool) (t : List Obs) :
    PollGaps p hi (.ev .unresponsive :: t) ↔ PollGaps p hi t := by
  simp [PollGaps, Obs.tmIsPoll]
theorem unrespOK_unresp (pt : Nat) (t : List Obs) :
    UnrespOK pt (.ev .unresponsive :: t) ↔
      (pt ≠ 0 ∧ sessOf t - lastAlive t > pt) ∧ UnrespOK pt t := by
  simp [UnrespOK, Obs.tmIsUnresp]

theorem clockOf_append_neutral (l t : List Obs) (h : ∀ o ∈ l, Obs.tmNeutral o = true) :
    clockOf (l ++ t) = clockOf t := by
  induction l with
  | nil => rfl
  | cons o r ih =>
    rw [List.cons_append, clockOf_neutral _ (h o (List.mem_cons_self))]
    exact ih (fun o ho => h o (List.mem_cons_of_mem _ ho))

theorem readyAt_append_neutral (l t : List Obs) (h : ∀ o ∈ l, Obs.tmNeutral o = true) :
    readyAt (l ++ t) = readyAt t := by
  induction l with
  | nil => rfl
  | cons o r ih =>
    rw [List.cons_append, readyAt_neutral _ (h o (List.mem_cons_self))]
    exact ih (fun o ho => h o (List.mem_cons_of_mem _ ho))

theorem sessOf_append_neutral (l t : List Obs) (h : ∀ o ∈ l, Obs.tmNeutral o = true) :
    sessOf (l ++ t) = sessOf t := by
  unfold sessOf; rw [readyAt_append_neutral l t h, clockOf_append_neutral l t h]

theorem lastPoll_append_neutral (l t : List Obs) (h : ∀ o ∈ l, Obs.tmNeutral o = true) :
    lastPoll (l ++ t) = lastPoll t := by
  induction l with
  | nil => rfl
  | cons o r ih =>
    rw [List.cons_append, lastPoll_neutral _ (h o (List.mem_cons_self))]
    exact ih (fun o ho => h o (List.mem_cons_of_mem _ ho))

theorem lastAlive_append_neutral (l t : List Obs) (h : ∀ o ∈ l, Obs.tmNeutral o = true) :
    lastAlive (l ++ t) = lastAlive t := by
  induction l with
  | nil => rfl
  | cons o r ih =>
    rw [List.cons_append, lastAlive_neutral _ (h o (List.mem_cons_self))]
    exact ih (fun o ho => h o (List.mem_cons_of_mem _ ho))

theorem pollGaps_append_neutral (p : Nat) (hi : Bool) (l t : List Obs)
    (h : ∀ o ∈ l, Obs.tmNeutral o = true) : PollGaps p hi (l ++ t) ↔ PollGaps p hi t := by
  induction l with
  | nil => exact Iff.rfl
  | cons o r ih =>
    rw [List.cons_append, pollGaps_neutral _ _ _ (h o (List.mem_cons_self))]
    exact ih (fun o ho => h o (List.mem_cons_of_mem _ ho))

theorem unrespOK_append_neutral (pt : Nat) (l t : List Obs)
    (h : ∀ o ∈ l, Obs.tmNeutral o = true) : UnrespOK pt (l ++ t) ↔ UnrespOK pt t := by
  induction l with
  | nil => exact Iff.rfl
  | cons o r ih =>
    rw [List.cons_append, unrespOK_neutral _ _ (h o (List.mem_cons_self))]
    exact ih (fun o ho => h o (List.mem_cons_of_mem _ ho))

/-- **The timer invariant** of a state: the trace's clock is the session's clock, the trace's
    Ready time is `_start_time`, `_poll_start` is the session time of the newest Poll on the trace
    (and not in the future), `_last_pong` is the session time of the newest Pong since Ready (0 if
    none), every Poll on the trace obeys the spacing rule, every Unresponsive on the trace was due,
    and — for the upper bound (`hi`), with `poll > 0` — once ready, less than `k·poll` has passed
    since the last Poll (`k = 1` after every `_regular()`, `k = 2` right after a
    `selector.wait`). -/
structure TimerInv (hi : Bool) (k : Nat) (D : Nat) (s : Sys) : Prop where
  now : s.now = clockOf s.trace
  start : s.startTime = readyAt s.trace
  last : ∀ p0, lastPoll s.trace = some p0 → s.pollStart = some p0 ∧ p0 ≤ sessOf s.trace
  alive : s.lastPong = lastAlive s.trace
  gaps : PollGaps s.cfg.poll hi s.trace
  unresp : UnrespOK s.cfg.pingTimeout s.trace
  fresh : hi = true → 0 < s.cfg.poll ∧
    (s.ready = true → ∀ p0, s.pollStart = some p0 → sessOf s.trace < p0 + k * s.cfg.poll)
  /-- `D` is the configured poll interval -/
  pollEq : s.cfg.poll = D

theorem TimerInv.sessionTime_eq {hi : Bool} {k D : Nat} {s : Sys} (h : TimerInv hi k D s) :
    sessionTime s = sessOf s.trace := by
  unfold sessionTime sessOf; rw [h.start, h.now]
  cases readyAt s.trace <;> rfl

theorem timerInv_quiet {hi : Bool} {k D : Nat} {s s' : Sys} (q : QuietP s s') (h : TimerInv hi k D s) :
    TimerInv hi k D s' := by
  obtain ⟨l, e, n⟩ := q.trace
  refine ⟨?_, ?_, ?_, ?_, ?_, ?_, ?_, by rw [q.cfg]; exact h.pollEq⟩
  · rw [q.now, e, clockOf_append_neutral l _ n]; exact h.now
  · rw [q.startTime, e, readyAt_append_neutral l _ n]; exact h.start
  · rw [q.pollStart, e, lastPoll_append_neutral l _ n, sessOf_append_neutral l _ n]; exact h.last
  · rw [q.lastPong, e, lastAlive_append_neutral l _ n]; exact h.alive
  · rw [q.cfg, e, pollGaps_append_neutral _ _ l _ n]; exact h.gaps
  · rw [q.cfg, e, unrespOK_append_neutral _ l _ n]; exact h.unresp
  · rw [q.cfg, q.ready, q.pollStart, e, sessOf_append_neutral l _ n]; exact h.fresh

theorem timerInv_weaken {hi : Bool} {D : Nat} {s : Sys} (h : TimerInv hi 1 D s) : TimerInv hi 2 D s := by
  refine ⟨h.now, h.start, h.last, h.alive, h.gaps, h.unresp, ?_, h.pollEq⟩
  intro hhi
  obtain ⟨hp, hf⟩ := h.fresh hhi
  refine ⟨hp, fun hr p0 hp0 => ?_⟩
  have := hf hr p0 hp0
  omega

/-- the clock advances by `dt` (at most `poll` when the upper bound is wanted) -/
theorem timerInv_tick {hi : Bool} {D : Nat} {s : Sys} (dt : Nat) (h : TimerInv hi 1 D s)
    (hdt : hi = true → dt ≤ D) : TimerInv hi 2 D (tick s dt) := by
  by_cases h0 : dt = 0
  · subst h0
    have e : tick s 0 = { s with now := s.now + 0 } := by simp [tick]
    rw [e]
    have h2 := timerInv_weaken h
    exact ⟨h2.now, h2.start, h2.last, h2.alive, h2.gaps, h2.unresp, h2.fresh, h2.pollEq⟩
  · have e : tick s dt = { s with now := s.now + dt, trace := .tick (s.now + dt) :: s.trace } := by
      simp [tick, h0]
    rw [e]
    have hsess : sessOf s.trace ≤ sessOf (.tick (s.now + dt) :: s.trace) ∧
        sessOf (.tick (s.now + dt) :: s.trace) ≤ sessOf s.trace + dt := by
      unfold sessOf
      rw [readyAt_tick, clockOf_tick, ← h.now]
      cases readyAt s.trace with
      | none => simp
      | some t0 => simp only; omega
    refine ⟨rfl, ?_, ?_, ?_, ?_, ?_, ?_, h.pollEq⟩
    · exact h.start
    · intro p0 hp0
      have := h.last p0 hp0
      refine ⟨this.1, ?_⟩
      show p0 ≤ sessOf (.tick (s.now + dt) :: s.trace)
      omega
    · exact h.alive
    · exact (pollGaps_tick _ _ _ _).mpr h.gaps
    · exact (unrespOK_tick _ _ _).mpr h.unresp
    · intro hhi
      obtain ⟨hp, hf⟩ := h.fresh hhi
      have hd := hdt hhi
      have hb := h.pollEq
      refine ⟨hp, fun hr p0 hp0 => ?_⟩
      have := hf hr p0 hp0
      show sessOf (.tick (s.now + dt) :: s.trace) < p0 + 2 * s.cfg.poll
      omega

theorem timerInv_checkPoll {hi : Bool} {D : Nat} {s : Sys} (h : TimerInv hi 2 D s) (hr : s.ready = true) :
    TimerInv hi 1 D (checkPoll s).state := by
  have hs := h.sessionTime_eq
  by_cases hd : pollDue s
  · rw [checkPoll_fires s hd, yieldEv_eq]
    refine timerInv_quiet (quietP_doActs _ _) ?_
    show TimerInv hi 1 D { (pollMark s) with trace := .ev .poll :: s.trace, hist := .poll :: s.hist }
    refine ⟨h.now, h.start, ?_, h.alive, ?_, (unrespOK_poll _ _).mpr h.unresp, ?_, h.pollEq⟩
    · intro p0 hp0
      show some (sessionTime s) = some p0 ∧ p0 ≤ sessOf (.ev .poll :: s.trace)
      rw [lastPoll_poll] at hp0
      rw [sessOf_poll, hs]
      simp only [Option.some.injEq] at hp0
      exact ⟨congrArg some hp0, by omega⟩
    · show PollGaps s.cfg.poll hi (.ev .poll :: s.trace)
      rw [pollGaps_poll]
      refine ⟨?_, h.gaps⟩
      intro p0 hp0
      obtain ⟨hps, hle⟩ := h.last p0 hp0
      rcases hd with hn | ⟨p1, hp1, hge⟩
      · rw [hn] at hps; cases hps
      · rw [hp1] at hps
        simp only [Option.some.injEq] at hps
        subst hps
        refine ⟨by omega, fun hhi => ?_⟩
        have := (h.fresh hhi).2 hr p1 hp1
        exact this
    · intro hhi
      obtain ⟨hp, _⟩ := h.fresh hhi
      refine ⟨hp, fun _ p0 hp0 => ?_⟩
      change some (sessionTime s) = some p0 at hp0
      simp only [Option.some.injEq] at hp0
      show sessOf (.ev .poll :: s.trace) < p0 + 1 * s.cfg.poll
      rw [sessOf_poll]
      omega
  · cases hps : s.pollStart with
    | none => exact absurd (Or.inl hps) hd
    | some p0 =>
      have hlt : sessionTime s - p0 < s.cfg.poll := by
        apply Nat.lt_of_not_le
        intro hc
        exact hd (Or.inr ⟨p0, hps, hc⟩)
      rw [checkPoll_quiet s p0 hps hlt]
      refine ⟨h.now, h.start, h.last, h.alive, h.gaps, h.unresp, ?_, h.pollEq⟩
      intro hhi
      obtain ⟨hp, _⟩ := h.fresh hhi
      refine ⟨hp, fun _ p1 hp1 => ?_⟩
      simp only [Res.state_ok] at hp1 ⊢
      rw [hps] at hp1
      simp only [Option.some.injEq] at hp1
      omega

/-- the invariant as a relation between start and final state of a library step -/
def RTimer (hi : Bool) (D : Nat) (s s' : Sys) : Prop := TimerInv hi 1 D s → TimerInv hi 1 D s'

theorem rtimer_po (hi : Bool) (D : Nat) : PO (RTimer hi D) where
  refl s := id
  trans h1 h2 := fun h => h2 (h1 h)

theorem rtimer_of_quiet {hi : Bool} {D : Nat} {m : M α} (h : Spec QuietP m) : Spec (RTimer hi D) m :=
  fun s hinv => timerInv_quiet (h s) hinv

/-- `_check_ping_timeout`: an Unresponsive event is yielded only when it is due -/
theorem rtimer_checkPingTimeout (hi : Bool) (D : Nat) : Spec (RTimer hi D) checkPingTimeout := by
  intro s h
  by_cases hd : pingTimeoutDue s
  · rw [checkPingTimeout_fires s hd]
    refine bind_state_rel (rtimer_po hi D) (fun _ => spec_throwE (rtimer_po hi D) _) s ?_
    rw [yieldEv_eq]
    refine timerInv_quiet (quietP_doActs _ _) ?_
    show TimerInv hi 1 D { s with trace := .ev .unresponsive :: s.trace, hist := .unresponsive :: s.hist }
    refine ⟨h.now, h.start, h.last, h.alive, (pollGaps_unresp _ _ _).mpr h.gaps, ?_, h.fresh, h.pollEq⟩
    show UnrespOK s.cfg.pingTimeout (.ev .unresponsive :: s.trace)
    rw [unrespOK_unresp]
    refine ⟨?_, h.unresp⟩
    rw [← h.sessionTime_eq, ← h.alive]
    exact hd
  · rw [checkPingTimeout_quiet s hd]; exact h

/-- `_regular()` right after a `selector.wait`: re-establishes the strong form of the invariant -/
theorem timerInv_regular {hi : Bool} {D : Nat} {s : Sys} (h : TimerInv hi 2 D s) :
    TimerInv hi 1 D (regular s).state := by
  unfold regular
  rw [bind_ok (show getS s = .ok s s from rfl)]
  by_cases hr : s.ready = true
  · simp only [hr, if_true]
    have h1 := timerInv_checkPoll h hr
    exact bind_state_rel (rtimer_po hi D) (fun _ => spec_bind (rtimer_po hi D) (rtimer_of_quiet quietP_checkAutoPing)
      (fun _ => spec_bind (rtimer_po hi D) (rtimer_checkPingTimeout hi D)
        (fun _ => rtimer_of_quiet quietP_checkCloseTimeout))) s h1
  · simp only [hr]
    refine ⟨h.now, h.start, h.last, h.alive, h.gaps, h.unresp, ?_, h.pollEq⟩
    intro hhi
    exact ⟨(h.fresh hhi).1, fun hr' => absurd hr' hr⟩

theorem rtimer_regular (hi : Bool) (D : Nat) : Spec (RTimer hi D) regular :=
  fun s h => timerInv_regular (timerInv_weaken h)

theorem neutral_of_isFeed (e : Event) (hf : isFeedEvent e = true) (hr : (Obs.ev e).tmIsReady = false)
    (hp : (Obs.ev e).tmIsPong = false) : (Obs.ev e).tmNeutral = true := by
  cases e <;> simp_all [isFeedEvent, Obs.tmNeutral, Obs.tmTickVal, Obs.tmIsReady, Obs.tmIsPoll, Obs.tmIsPong, Obs.tmIsUnresp]

/-- `_on_event` and handing the event over keep the invariant; Ready starts the session clock and
    counts as a sign of life, a Pong is a sign of life -/
theorem timerInv_onEvent_push {hi : Bool} {D : Nat} {e : Event} {s s1 : Sys} (hf : isFeedEvent e = true)
    (hE : onEvent e s = .ok () s1) (h : TimerInv hi 1 D s) : TimerInv hi 1 D (pushEv e s1) := by
  cases e with
  | ready a b =>
    simp only [onEvent] at hE
    cases hE
    refine ⟨h.now, ?_, ?_, rfl, ?_, ?_, ?_, h.pollEq⟩
    · show some s.now = readyAt (.ev (.ready a b) :: s.trace)
      rw [readyAt_ready, h.now]
    · intro p0 hp0
      change lastPoll (.ev (.ready a b) :: s.trace) = some p0 at hp0
      rw [lastPoll_ready] at hp0; cases hp0
    · exact (pollGaps_ready _ _ _ _ _).mpr h.gaps
    · exact (unrespOK_ready _ _ _ _).mpr h.unresp
    · intro hhi
      refine ⟨(h.fresh hhi).1, fun _ p0 _ => ?_⟩
      show sessOf (.ev (.ready a b) :: s.trace) < p0 + 1 * s.cfg.poll
      rw [sessOf_ready]
      have := (h.fresh hhi).1
      omega
  | pong d =>
    simp only [onEvent] at hE
    cases hE
    refine ⟨h.now, h.start, h.last, ?_, (pollGaps_pong _ _ _ _).mpr h.gaps,
      (unrespOK_pong _ _ _).mpr h.unresp, h.fresh, h.pollEq⟩
    show sessionTime s = lastAlive (.ev (.pong d) :: s.trace)
    rw [lastAlive_pong, h.sessionTime_eq]
  | _ =>
    have q1 : QuietP s s1 := (quietP_onEvent _ rfl rfl).ok hE
    exact timerInv_quiet (quietP_po.trans q1 (quietP_pushEv _ s1 (neutral_of_isFeed _ hf rfl rfl))) h

theorem rtimer_feedYield (hi : Bool) (D : Nat) (inTry : Bool) (e : Event) (hf : isFeedEvent e = true) :
    Spec (RTimer hi D) (feedYield inTry e) := by
  intro s h
  cases hE : onEvent e s with
  | ok u s1 =>
    exact feedYield_from_push (rtimer_po hi D) (fun as => rtimer_of_quiet (quietP_doActs as))
      (rtimer_regular hi D) (rtimer_of_quiet quietP_onDisconnect) inTry e s s1 hE
      (timerInv_onEvent_push hf hE h)
  | err x s1 =>
    refine feedYield_from_err (rtimer_po hi D) (rtimer_of_quiet quietP_onDisconnect) inTry e s s1 x hE ?_
    rw [onEvent_err_trace hE]; exact h

theorem quietP_of_inert {s s' : Sys} (h : Inert s s') : QuietP s s' :=
  ⟨h.cfg, h.env, h.ready, h.pollStart, h.lastPong, h.startTime, h.now, ⟨[], h.trace, by simp⟩⟩

theorem rtimer_leaves (hi : Bool) (D : Nat) : Leaves (RTimer hi D) where
  po := rtimer_po hi D
  inert := fun s s' h hinv => timerInv_quiet (quietP_of_inert h) hinv
  closeSocket := rtimer_of_quiet quietP_closeSocket
  wsClose := fun c r => rtimer_of_quiet (quietP_wsClose c r)
  feedYield := rtimer_feedYield hi D

/-- one loop cycle's `selector.wait` + `_regular()` -/
theorem rtimer_tick_regular (hi : Bool) (D : Nat) (dt : Nat) (hdt : hi = true → dt ≤ D) (s : Sys) :
    RTimer hi D s (regular (tick s dt)).state :=
  fun h => timerInv_regular (timerInv_tick dt h hdt)

/-! ### the timer invariant through a whole connection -/

/-- every `selector.wait` of the script lasts at most `D` ticks -/
def EnvBound (D : Nat) (env : List EnvStep) : Prop := ∀ dt rd, EnvStep.wait dt rd ∈ env → dt ≤ D

theorem rtimer_loop (hi : Bool) (D : Nat) (env : List EnvStep) (h : hi = true → EnvBound D env) :
    Spec (RTimer hi D) (loop env) :=
  lift_loop (rtimer_leaves hi D) (fun st => hi = true → ∀ dt rd, st = .wait dt rd → dt ≤ D)
    (fun dt rd s hP => rtimer_tick_regular hi D dt (fun hhi => hP hhi dt rd rfl) s) env
    (fun st hst hhi dt rd e => h hhi dt rd (e ▸ hst))

theorem quietP_selClose : Spec QuietP selClose := by
  intro s; unfold selClose; split <;> quiet_leaf

theorem quietP_closeThenYield (e : Event) (h : (Obs.ev e).tmNeutral = true) :
    Spec QuietP (do closeSocket; yieldEv e : M Unit) :=
  spec_bind quietP_po quietP_closeSocket (fun _ => quietP_yieldEv e h)

theorem quietP_onLoopEnd (r : Option Exn) : Spec QuietP (onLoopEnd r) := by
  unfold onLoopEnd
  split
  all_goals first
    | exact quietP_closeThenYield _ rfl
    | exact spec_throwE quietP_po _

theorem rtimer_runBody (hi : Bool) (D : Nat) (env : List EnvStep) (h : hi = true → EnvBound D env) :
    Spec (RTimer hi D) (runBody env) := by
  unfold runBody
  refine spec_bind (rtimer_po hi D) ?_ (fun r => rtimer_of_quiet (quietP_onLoopEnd r))
  refine spec_tryC (rtimer_po hi D) ?_ (fun x => spec_pure (rtimer_po hi D) _)
  exact spec_bind (rtimer_po hi D) (rtimer_loop hi D env h) (fun _ => spec_pure (rtimer_po hi D) _)

theorem quietP_runFinally (x : Exn) : Spec QuietP (runFinally x) := by
  unfold runFinally
  refine spec_getS_bind quietP_po (fun s => ?_)
  refine spec_bind quietP_po ?_ (fun _ => spec_bind quietP_po quietP_selClose (fun _ => spec_throwE quietP_po _))
  split
  · exact quietP_closeSocket
  · exact spec_pure quietP_po _

theorem rtimer_runLoop (hi : Bool) (D : Nat) (s : Sys) (h : hi = true → EnvBound D s.env) :
    RTimer hi D s (runLoop s).state := by
  unfold runLoop
  rw [bind_ok (show getS s = .ok s s from rfl)]
  exact spec_tryC (rtimer_po hi D)
    (spec_bind (rtimer_po hi D) (rtimer_runBody hi D s.env h) (fun _ => rtimer_of_quiet quietP_selClose))
    (fun x => rtimer_of_quiet (quietP_runFinally x)) s

/-- a quiet step followed by a continuation that keeps the invariant from every state the quiet
    step can reach -/
theorem bind_quiet_then {hi : Bool} {D : Nat} {m : M α} {k : α → M β} {s : Sys} (hm : Spec QuietP m)
    (hk : ∀ a s1, QuietP s s1 → RTimer hi D s1 (k a s1).state) : RTimer hi D s ((m >>= k) s).state := by
  intro hinv
  cases hms : m s with
  | ok a s1 =>
    rw [bind_ok hms]
    exact hk a s1 (hm.ok hms) (timerInv_quiet (hm.ok hms) hinv)
  | err x s1 =>
    rw [bind_err hms]
    exact timerInv_quiet (hm.err hms) hinv

theorem quietP_yieldConnected (proxy : Bool) : Spec QuietP (yieldConnected proxy) := by
  unfold yieldConnected
  refine spec_getS_bind quietP_po (fun s => ?_)
  split
  · exact spec_tryC quietP_po (quietP_yieldEv _ rfl)
      (fun x => spec_bind quietP_po quietP_closeSocket (fun _ => spec_throwE quietP_po _))
  · exact quietP_yieldEv _ rfl

theorem rtimer_afterConnect (hi : Bool) (D : Nat) (proxy : Bool) (s : Sys)
    (h : hi = true → EnvBound D s.env) : RTimer hi D s (afterConnect proxy s).state := by
  unfold afterConnect
  refine bind_quiet_then (spec_modS (fun s => by quiet_leaf)) (fun _ s1 q1 => ?_)
  rw [bind_ok (show getS s1 = .ok s1 s1 from rfl)]
  refine bind_quiet_then (quietP_write _ _) (fun r s2 q2 => ?_)
  split
  · exact rtimer_of_quiet (quietP_closeThenYield _ rfl) s2
  · refine bind_quiet_then (quietP_yieldConnected proxy) (fun _ s3 q3 => ?_)
    refine bind_quiet_then (spec_modS (fun s => by quiet_leaf)) (fun _ s4 q4 => ?_)
    refine rtimer_runLoop hi D s4 ?_
    rw [q4.env, q3.env, q2.env, q1.env]; exact h

/-- the selector's constructor raised: no loop, no clock, nothing a timer looks at changes -/
theorem quietP_afterConnectNoSel (proxy : Bool) : Spec QuietP (afterConnectNoSel proxy) := by
  unfold afterConnectNoSel
  refine spec_bind quietP_po (spec_modS (fun s => by quiet_leaf)) (fun _ => spec_getS_bind quietP_po (fun s => ?_))
  refine spec_bind quietP_po (quietP_write _ _) (fun r => ?_)
  split
  · exact quietP_closeThenYield _ rfl
  · refine spec_bind quietP_po (quietP_yieldConnected proxy) (fun _ =>
      spec_bind quietP_po (spec_modS (fun s => by quiet_leaf)) (fun _ => ?_))
    unfold runLoopNoSel
    exact spec_tryC quietP_po (spec_bind quietP_po (quietP_onLoopEnd _) (fun _ => quietP_selClose))
      (fun x => quietP_runFinally x)

theorem rtimer_run (hi : Bool) (D : Nat) (s : Sys) (h : hi = true → EnvBound D s.env) :
    RTimer hi D s (run s).state := by
  unfold run
  refine bind_quiet_then (quietP_yieldEv _ rfl) (fun _ s1 q1 => ?_)
  rw [bind_ok (show getS s1 = .ok s1 s1 from rfl)]
  cases hcn : s1.cfg.connect with
  | socketFail => exact rtimer_of_quiet (quietP_yieldEv _ rfl) s1
  | otherFail => exact rtimer_of_quiet (quietP_yieldEv _ rfl) s1
  | ok proxy => exact rtimer_afterConnect hi D _ s1 (by rw [q1.env]; exact h)
  | selFail proxy => exact rtimer_of_quiet (quietP_afterConnectNoSel _) s1

theorem timerInv_init (hi : Bool) (cfg : Cfg) (react : React) (env : List EnvStep)
    (h : hi = true → 0 < cfg.poll) :
    TimerInv hi 1 cfg.poll { cfg := cfg, react := react, env := env } :=
  ⟨rfl, rfl, fun p0 hp0 => (by cases hp0), rfl, trivial, trivial,
    fun hhi => ⟨h hhi, fun hr => (by cases hr)⟩, rfl⟩

/-- the invariant holds at the end of every connection -/
theorem timerInv_runAll (hi : Bool) (cfg : Cfg) (react : React) (env : List EnvStep)
    (h : hi = true → 0 < cfg.poll ∧ EnvBound cfg.poll env) :
    TimerInv hi 1 cfg.poll (runAll cfg react env) := by
  have h0 := timerInv_init hi cfg react env (fun hhi => (h hhi).1)
  have h1 := rtimer_run hi cfg.poll { cfg := cfg, react := react, env := env } (fun hhi => (h hhi).2) h0
  unfold runAll
  simp only []
  generalize run { cfg := cfg, react := react, env := env } = r at h1
  have hinc : ∀ s : Sys, TimerInv hi 1 cfg.poll s →
      TimerInv hi 1 cfg.poll { s with trace := .incomplete :: s.trace } :=
    fun s hs => timerInv_quiet (by quiet_leaf) hs
  have hcs : ∀ s : Sys, TimerInv hi 1 cfg.poll s →
      TimerInv hi 1 cfg.poll (match closeSocket s with | .ok _ s' => s' | .err _ s' => s') := by
    intro s hs
    have q := quietP_closeSocket s
    cases hc : closeSocket s with
    | ok a s' => rw [hc] at q; exact timerInv_quiet q hs
    | err x s' => rw [hc] at q; exact timerInv_quiet q hs
  cases r with
  | ok a s => exact h1
  | err x s =>
    simp only [Res.state_err] at h1
    cases x with
    | genExit => simp only []; split; exact hcs s h1; exact h1
    | outer y =>
      cases y with
      | genExit => simp only []; split; exact hcs s h1; exact h1
      | _ => exact hinc s h1
    | _ => exact hinc s h1

/-! ### the first Poll -/

/-- `_on_ready`: all three timers reset, the session clock starts -/
def readyState (s : Sys) : Sys :=
  { s with lastPong := 0, nextPing := 0, startTime := some s.now, ready := true }

theorem onEvent_ready (a : Option Http.Str) (b : Bool) (s : Sys) :
    onEvent (.ready a b) s = .ok () (readyState s) := rfl

theorem regular_ready (s : Sys) (hr : s.ready = true) :
    regular s = (checkPoll >>= fun _ => (checkAutoPing >>= fun _ =>
      (checkPingTimeout >>= fun _ => checkCloseTimeout))) s := by
  unfold regular
  rw [bind_ok (show getS s = .ok s s from rfl)]
  simp only [hr, if_true]

theorem regular_not_ready (s : Sys) (hr : s.ready = false) : regular s = .ok () s := by
  unfold regular
  rw [bind_ok (show getS s = .ok s s from rfl)]
  simp [hr]; rfl

/-- Ready with no Poll yet (`_poll_start = None`), the application not abandoning at Ready: the
    `_regular()` that follows the hand-over yields Poll at once, at session time 0 -/
theorem feedYield_ready_poll (inTry : Bool) (a : Option Http.Str) (b : Bool) (s s2 : Sys)
    (hp : s.pollStart = none) (hy : yieldEv (.ready a b) (readyState s) = .ok () s2) :
    sessionTime s2 = 0 ∧ s2.ready = true ∧
    ∃ l, (feedYield inTry (.ready a b) s).state.trace = l ++ .ev .poll :: s2.trace := by
  have q : QuietP (pushEv (.ready a b) (readyState s)) s2 := by
    rw [yieldEv_eq] at hy; exact (quietP_doActs _).ok hy
  have hr2 : s2.ready = true := q.ready
  have hp2 : s2.pollStart = none := q.pollStart.trans hp
  have hst : s2.startTime = some s.now := q.startTime
  have hnow : s2.now = s.now := q.now
  have ht0 : sessionTime s2 = 0 := by unfold sessionTime; rw [hst, hnow]; simp
  refine ⟨ht0, hr2, ?_⟩
  have hb : (do onEvent (.ready a b); yieldEv (.ready a b); regular : M Unit) s = regular s2 := by
    rw [bind_ok (onEvent_ready a b s), bind_ok hy]
  have s1 := yieldEv_step_from_push .poll (pollMark s2)
  rw [← checkPoll_fires s2 (Or.inl hp2)] at s1
  have s2' := bind_state_step (m := checkPoll) (k := fun _ => (checkAutoPing >>= fun _ =>
      (checkPingTimeout >>= fun _ => checkCloseTimeout)))
    (fun _ => spec_bind step_po step_checkAutoPing (fun _ =>
      spec_bind step_po step_checkPingTimeout (fun _ => step_checkCloseTimeout))) s2
  rw [← regular_ready s2 hr2, ← hb] at s2'
  have s3 := tryC_state_step (m := (do onEvent (.ready a b); yieldEv (.ready a b); regular : M Unit))
    (step_feedYield_handler inTry) s
  exact (step_po.trans s1 (step_po.trans s2' s3)).traceExt

/-! ### what the trace predicates say about any position of the trace -/

theorem pollGaps_suffix (p : Nat) (hi : Bool) (l t : List Obs) (h : PollGaps p hi (l ++ t)) :
    PollGaps p hi t := by
  induction l with
  | nil => exact h
  | cons o r ih => exact ih h.2

/-- at every Poll event of a trace satisfying the rule, `t` being the entries before it -/
theorem PollGaps.at {p : Nat} {hi : Bool} {l t : List Obs} (h : PollGaps p hi (l ++ .ev .poll :: t)) :
    ∀ p0, lastPoll t = some p0 → p0 + p ≤ sessOf t ∧ (hi = true → sessOf t < p0 + 2 * p) :=
  ((pollGaps_poll p hi t).mp (pollGaps_suffix p hi l _ h)).1

theorem unrespOK_suffix (pt : Nat) (l t : List Obs) (h : UnrespOK pt (l ++ t)) : UnrespOK pt t := by
  induction l with
  | nil => exact h
  | cons o r ih => exact ih h.2

/-- at every Unresponsive event of a trace satisfying the rule -/
theorem UnrespOK.at {pt : Nat} {l t : List Obs} (h : UnrespOK pt (l ++ .ev .unresponsive :: t)) :
    pt ≠ 0 ∧ sessOf t - lastAlive t > pt :=
  ((unrespOK_unresp pt t).mp (unrespOK_suffix pt l _ h)).1

end Lomond.Core.Timers
