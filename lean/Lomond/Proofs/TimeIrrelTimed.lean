/-
  Glue between `TI.freeze` (Proofs/TimeIrrel.lean) and the timed scripts of Proofs/DeliveryTimed.lean:
  a frozen timed script is a burst of reads at a standing clock followed by the end of the stream —
  the shape of C02's segmentation theorems.
-/
import Lomond.Proofs.TimeIrrel
import Lomond.Proofs.DeliveryTimed
set_option linter.unusedSimpArgs false
set_option linter.unusedVariables false
namespace Lomond.Core.TI
open Lomond Lomond.Core Lomond.Core.DG

/-- the chunks read by a timed script, in order -/
def chunks (l : List TStep) : List Bytes := l.filterMap (·.2)

theorem chunks_flatten (l : List TStep) : (chunks l).flatten = tbytes l := by
  induction l with
  | nil => rfl
  | cons x r ih =>
    obtain ⟨dt, o⟩ := x
    cases o with
    | none => simpa [chunks, tbytes] using ih
    | some c =>
      have : chunks ((dt, some c) :: r) = c :: chunks r := rfl
      rw [this, List.flatten_cons, ih]
      rfl

theorem chunks_ne (l : List TStep) (h : TNonEmpty l) : ∀ c ∈ chunks l, c ≠ [] := by
  intro c hc
  unfold chunks at hc
  obtain ⟨x, hx, he⟩ := List.mem_filterMap.mp hc
  obtain ⟨dt, o⟩ := x
  simp only at he
  subst he
  exact h dt c hx

theorem freeze_append (a b : List EnvStep) : freeze (a ++ b) = freeze a ++ freeze b := by
  induction a with
  | nil => rfl
  | cons x r ih =>
    cases x with
    | selErr => simp [freeze, ih]
    | wait dt o => cases o <;> simp [freeze, ih]

theorem freeze_tscript (l : List TStep) : freeze (tscript l) = SegLoop.readsAt 0 (chunks l) := by
  rw [SegLoop.readsAt_zero]
  induction l with
  | nil => rfl
  | cons x r ih =>
    obtain ⟨dt, o⟩ := x
    cases o with
    | none => simpa [tscript, tstep, freeze, chunks] using ih
    | some c =>
      have e1 : tscript ((dt, some c) :: r) = .wait dt (some (.data c)) :: tscript r := rfl
      have e2 : chunks ((dt, some c) :: r) = c :: chunks r := rfl
      rw [e1, e2]
      simp only [freeze, ih, SegLoop.reads, List.map_cons]

theorem freeze_idles (ws : List Nat) : freeze (idles ws) = [] := by
  induction ws with
  | nil => rfl
  | cons w r ih => simpa [idles, freeze] using ih

end Lomond.Core.TI
