/-
  C02 at the level of the session loop (`Core.loop`, `runBody`): two reads `a`, `b` arriving
  without the clock moving in between are the same as one read `a ++ b`.

  `Segmentation.lean` proves that `WebSocket.feed` is a function of the concatenated bytes.  The
  session loop does more between two reads than between two bites of one read:
    * `selector.wait` returns (`tick s 0`, the identity when no time passes),
    * `_regular()` runs at the top of the second cycle (`regularTop`),
    * the loop tests `websocket.is_closed`,
    * `_recv` tests whether the socket still exists (`sockOpen`).
  This file shows that none of these is observable:
    * `Settled s` — the four `_check_*` of `_regular()` have nothing to do — is established by every
      normally returning `_regular()` (poll > 0) and kept by everything `WebSocket.feed` does after
      its last `yield` (`wsFeed_settled`), and `_regular()` from a settled state is the identity
      (`regular_settled`);
    * a closed websocket ignores what is fed and ends the loop either way;
    * the socket can only be gone while the websocket is still open if the application called
      `session.close()` (`wsFeed_sockOK`).
-/
import Lomond.Proofs.Segmentation
import Lomond.Proofs.PingGrid
set_option linter.unusedSimpArgs false
set_option linter.unusedVariables false
namespace Lomond.Core.SegLoop
open Lomond Lomond.Core Lomond.Core.Lift Lomond.Core.Pong Lomond.Core.Timers

/-! ### results that are never normal -/

/-- `m` never returns normally -/
def NeverOk (m : M α) : Prop := ∀ s, ∃ y s', m s = .err y s'

theorem neverOk_throwE (x : Exn) : NeverOk (throwE x : M α) := fun s => ⟨x, s, rfl⟩

theorem neverOk_bind_right {m : M α} {k : α → M β} (hk : ∀ a, NeverOk (k a)) : NeverOk (m >>= k) := by
  intro s
  cases hm : m s with
  | ok a s1 => rw [bind_ok hm]; exact hk a s1
  | err x s1 => exact ⟨x, s1, bind_err hm⟩

theorem neverOk_feedYield_handler (inTry : Bool) (x : Exn) :
    NeverOk (do (if inTry then onDisconnect else pure ()); throwE (.outer x) : M Unit) :=
  neverOk_bind_right (fun _ => neverOk_throwE _)

theorem tryC_ok_inv {m : M α} {h : Exn → M α} (hh : ∀ x, NeverOk (h x)) {s s' : Sys} {a : α}
    (e : tryC m h s = .ok a s') : m s = .ok a s' := by
  cases hm : m s with
  | ok b s1 => rw [tryC_ok hm] at e; exact e
  | err x s1 =>
    rw [tryC_err hm] at e
    obtain ⟨y, s2, h2⟩ := hh x s1
    rw [h2] at e; cases e

/-- a normal return of `feedYield`: `_on_event`, the hand-over and `_regular()` all returned -/
theorem feedYield_ok_inv {inTry : Bool} {e : Event} {s s' : Sys} (h : feedYield inTry e s = .ok () s') :
    ∃ s1 s2, onEvent e s = .ok () s1 ∧ yieldEv e s1 = .ok () s2 ∧ regular s2 = .ok () s' := by
  unfold feedYield at h
  have hb := tryC_ok_inv (neverOk_feedYield_handler inTry) h
  obtain ⟨_, s1, h1, hb⟩ := bind_ok_inv hb
  obtain ⟨_, s2, h2, hb⟩ := bind_ok_inv hb
  exact ⟨s1, s2, h1, h2, hb⟩

/-! ### the timer fields: what `session.send` and `_close_socket` leave alone -/

/-- every field `_regular()` looks at is unchanged -/
structure TK (s s' : Sys) : Prop where
  cfg : s'.cfg = s.cfg
  ready : s'.ready = s.ready
  pollStart : s'.pollStart = s.pollStart
  nextPing : s'.nextPing = s.nextPing
  lastPong : s'.lastPong = s.lastPong
  startTime : s'.startTime = s.startTime
  now : s'.now = s.now
  sentCloseTime : s'.sentCloseTime = s.sentCloseTime

theorem tk_po : PO TK where
  refl s := ⟨rfl, rfl, rfl, rfl, rfl, rfl, rfl, rfl⟩
  trans h1 h2 := ⟨h2.cfg.trans h1.cfg, h2.ready.trans h1.ready, h2.pollStart.trans h1.pollStart,
    h2.nextPing.trans h1.nextPing, h2.lastPong.trans h1.lastPong, h2.startTime.trans h1.startTime,
    h2.now.trans h1.now, h2.sentCloseTime.trans h1.sentCloseTime⟩

theorem tk_of_inert {s s' : Sys} (h : Inert s s') : TK s s' :=
  ⟨h.cfg, h.ready, h.pollStart, h.nextPing, h.lastPong, h.startTime, h.now, h.sentCloseTime⟩

theorem TK.sessionTime {s s' : Sys} (h : TK s s') : sessionTime s' = sessionTime s := by
  unfold Core.sessionTime; rw [h.startTime, h.now]

theorem tk_closeSocket : Spec TK closeSocket := by
  intro s; unfold closeSocket; split <;> exact ⟨rfl, rfl, rfl, rfl, rfl, rfl, rfl, rfl⟩

theorem tk_write (d : Bytes) (z : Option (Nat × Bytes)) : Spec TK (write d z) := by
  intro s; unfold write; splits <;> exact ⟨rfl, rfl, rfl, rfl, rfl, rfl, rfl, rfl⟩

theorem tk_sendFrame (op : Nat) (pl : Bytes) (c : Option Bytes) : Spec TK (sendFrame op pl c) := by
  intro s; unfold sendFrame
  simp only
  splits
  all_goals first
    | exact ⟨rfl, rfl, rfl, rfl, rfl, rfl, rfl, rfl⟩
    | exact tk_po.trans (by exact ⟨rfl, rfl, rfl, rfl, rfl, rfl, rfl, rfl⟩) (tk_write _ _ _)

theorem tk_onDisconnect : Spec TK onDisconnect := by
  unfold onDisconnect
  apply spec_bind tk_po tk_closeSocket
  intro _; apply spec_modS; intro s; exact ⟨rfl, rfl, rfl, rfl, rfl, rfl, rfl, rfl⟩

/-! ### `Settled`: `_regular()` has nothing to do -/

/-- the Poll event is not due, no automatic Ping is due, neither timeout has expired (all of it
    only once the websocket is ready: before that `_regular()` is not run at all); `poll > 0`,
    because with `poll = 0` a Poll event is due at every evaluation -/
structure Settled (s : Sys) : Prop where
  poll : 0 < s.cfg.poll
  quiet : s.ready = true →
    (∃ p, s.pollStart = some p ∧ sessionTime s - p < s.cfg.poll) ∧
    ¬ pingDue s ∧ ¬ pingTimeoutDue s ∧ ¬ closeTimeoutDue s

/-- **`_regular()` from a settled state yields nothing and changes nothing.** -/
theorem regular_settled (s : Sys) (h : Settled s) : regular s = .ok () s := by
  by_cases hr : s.ready = true
  · obtain ⟨⟨p, hp, hlt⟩, h2, h3, h4⟩ := h.quiet hr
    rw [regular_ready s hr, bind_ok (checkPoll_quiet s p hp hlt), bind_ok (checkAutoPing_quiet s h2),
      bind_ok (checkPingTimeout_quiet s h3)]
    exact checkCloseTimeout_quiet s h4
  · exact regular_not_ready s (by simpa using hr)

theorem settled_of_tk {s s' : Sys} (k : TK s s') (h : Settled s) : Settled s' := by
  refine ⟨by rw [k.cfg]; exact h.poll, fun hr => ?_⟩
  obtain ⟨⟨p, hp, hlt⟩, h2, h3, h4⟩ := h.quiet (k.ready ▸ hr)
  have ht := k.sessionTime
  refine ⟨⟨p, by rw [k.pollStart]; exact hp, by rw [ht, k.cfg]; exact hlt⟩, ?_, ?_, ?_⟩
  · unfold pingDue at *; rw [ht, k.cfg, k.nextPing]; exact h2
  · unfold pingTimeoutDue at *; rw [ht, k.cfg, k.lastPong]; exact h3
  · unfold closeTimeoutDue at *; rw [ht, k.cfg, k.sentCloseTime]; exact h4

/-- after `_check_poll` returned normally the Poll timer is not due -/
theorem checkPoll_post {s sa : Sys} (hp : 0 < s.cfg.poll) (h : checkPoll s = .ok () sa) :
    (∃ p, sa.pollStart = some p ∧ sessionTime sa - p < sa.cfg.poll) ∧ sa.cfg = s.cfg ∧
      sa.ready = s.ready := by
  by_cases hd : pollDue s
  · rw [checkPoll_fires s hd, yieldEv_eq] at h
    have q : QuietP (pushEv .poll (pollMark s)) sa := (quietP_doActs _).ok h
    have hps : sa.pollStart = some (sessionTime s) := q.pollStart
    have hst : sa.startTime = s.startTime := q.startTime
    have hnow : sa.now = s.now := q.now
    have hcfg : sa.cfg = s.cfg := q.cfg
    have ht : sessionTime sa = sessionTime s := by unfold Core.sessionTime; rw [hst, hnow]
    exact ⟨⟨_, hps, by rw [ht, hcfg]; omega⟩, hcfg, q.ready⟩
  · cases hps : s.pollStart with
    | none => exact absurd (Or.inl hps) hd
    | some p0 =>
      have hlt : sessionTime s - p0 < s.cfg.poll := by
        apply Nat.lt_of_not_le
        intro hc
        exact hd (Or.inr ⟨p0, hps, hc⟩)
      rw [checkPoll_quiet s p0 hps hlt] at h
      cases h
      exact ⟨⟨p0, hps, hlt⟩, rfl, rfl⟩

/-- after `_check_auto_ping` no Ping is due; the other timer fields are untouched -/
theorem checkAutoPing_post {s sb : Sys} (h : checkAutoPing s = .ok () sb) :
    ¬ pingDue sb ∧ sb.cfg = s.cfg ∧ sb.ready = s.ready ∧ sb.pollStart = s.pollStart ∧
      sessionTime sb = sessionTime s := by
  by_cases hd : pingDue s
  · rw [checkAutoPing_fires s hd] at h
    obtain ⟨_, s1, h1, h2⟩ := bind_ok_inv h
    have e : s1 = sb := by cases h2; rfl
    subst e
    have k : TK (pingMark s) s1 := (tk_sendFrame _ _ _).ok h1
    have ht : sessionTime s1 = sessionTime s := k.sessionTime
    have hc : s1.cfg = s.cfg := k.cfg
    refine ⟨?_, hc, k.ready, k.pollStart, ht⟩
    intro hd1
    obtain ⟨hr, hgt⟩ := hd1
    have hn : s1.nextPing = ceilDiv (sessionTime s) s.cfg.pingRate * s.cfg.pingRate := k.nextPing
    have := le_ceilDiv_mul (sessionTime s) s.cfg.pingRate (Nat.pos_of_ne_zero hd.1)
    rw [ht, hn] at hgt
    omega
  · rw [checkAutoPing_quiet s hd] at h
    cases h
    exact ⟨hd, rfl, rfl, rfl, rfl⟩

theorem checkPingTimeout_post {s sc : Sys} (h : checkPingTimeout s = .ok () sc) :
    ¬ pingTimeoutDue s ∧ sc = s := by
  by_cases hd : pingTimeoutDue s
  · obtain ⟨_, _, x, s1, he⟩ := checkPingTimeout_due s hd
    rw [he] at h; cases h
  · rw [checkPingTimeout_quiet s hd] at h
    cases h; exact ⟨hd, rfl⟩

theorem checkCloseTimeout_post {s sd : Sys} (h : checkCloseTimeout s = .ok () sd) :
    ¬ closeTimeoutDue s ∧ sd = s := by
  by_cases hd : closeTimeoutDue s
  · rw [checkCloseTimeout_fires s hd] at h; cases h
  · rw [checkCloseTimeout_quiet s hd] at h
    cases h; exact ⟨hd, rfl⟩

/-- **every normally returning `_regular()` ends settled** (`poll > 0`): it has just yielded the
    Poll that was due, sent the Ping that was due, and found no timeout expired -/
theorem regular_establishes {s s' : Sys} (hp : 0 < s.cfg.poll) (h : regular s = .ok () s') :
    Settled s' := by
  by_cases hr : s.ready = true
  · rw [regular_ready s hr] at h
    obtain ⟨_, sa, ha, h1⟩ := bind_ok_inv h
    obtain ⟨_, sb, hb, h2⟩ := bind_ok_inv h1
    obtain ⟨_, sc, hc, h3⟩ := bind_ok_inv h2
    obtain ⟨⟨p, hps, hlt⟩, hcfga, hra⟩ := checkPoll_post hp ha
    obtain ⟨hnd, hcfgb, hrb, hpsb, htb⟩ := checkAutoPing_post hb
    obtain ⟨hnt, e1⟩ := checkPingTimeout_post hc
    subst e1
    obtain ⟨hnc, e2⟩ := checkCloseTimeout_post h3
    subst e2
    refine ⟨by rw [hcfgb, hcfga]; exact hp, fun _ => ⟨⟨p, by rw [hpsb]; exact hps, ?_⟩, hnd, hnt, hnc⟩⟩
    rw [htb, hcfgb]; exact hlt
  · have hr' : s.ready = false := by simpa using hr
    rw [regular_not_ready s hr'] at h
    cases h
    exact ⟨hp, fun h1 => absurd h1 hr⟩

/-! ### relations along normal returns, lifted through the receive pipeline

  `Proofs/Lift.lean` lifts a relation that holds for *every* final state.  `Settled` (and "the
  socket exists unless the websocket is closed") only hold when the step *returns*: an exception
  may leave `_regular()` half-way.  Between two reads only normal returns matter, so here the
  relation is required along `.ok` results only; exception handlers of the pipeline
  (`feedHandler`, `unwrapOuter`, the finaliser of `feedYield`) always re-raise. -/

/-- `R` relates the start state to the final state whenever `m` returns normally -/
def OkSpec (R : Sys → Sys → Prop) (m : M α) : Prop := ∀ s a s', m s = .ok a s' → R s s'

section lift
variable {R : Sys → Sys → Prop}

theorem ok_of_spec {m : M α} (h : Spec R m) : OkSpec R m := fun s a s' e => h.ok e

theorem ok_pure (po : PO R) (a : α) : OkSpec R (pure a : M α) := by
  intro s b s' e; rw [pure_apply] at e; cases e; exact po.refl _

theorem ok_bind (po : PO R) {m : M α} {f : α → M β} (hm : OkSpec R m) (hf : ∀ a, OkSpec R (f a)) :
    OkSpec R (m >>= f) := by
  intro s b s' e
  obtain ⟨a, s1, h1, h2⟩ := bind_ok_inv e
  exact po.trans (hm _ _ _ h1) (hf a _ _ _ h2)

theorem ok_getS_bind (po : PO R) {f : Sys → M α} (h : ∀ s, OkSpec R (f s)) : OkSpec R (getS >>= f) := by
  intro s b s' e
  rw [bind_ok (show getS s = .ok s s from rfl)] at e
  exact h s s b s' e

theorem ok_modS {f : Sys → Sys} (h : ∀ s, R s (f s)) : OkSpec R (modS f) := by
  intro s a s' e; unfold modS at e; cases e; exact h s

theorem ok_throwE (x : Exn) : OkSpec R (throwE x : M α) := by
  intro s a s' e; unfold throwE at e; cases e

theorem ok_liftE (po : PO R) (r : Except Exn α) : OkSpec R (liftE r) := by
  intro s a s' e; unfold liftE at e
  cases r with
  | ok b => cases e; exact po.refl _
  | error x => cases e

theorem ok_tryC {m : M α} {h : Exn → M α} (hm : OkSpec R m) (hh : ∀ x, NeverOk (h x)) :
    OkSpec R (tryC m h) := fun s a s' e => hm s a s' (tryC_ok_inv hh e)

/-- what has to be known about the leaves of the pipeline (normal returns only).  `inert`: the
    bookkeeping updates of `Lift.Inert` that moreover never re-open a closed websocket. -/
structure OkLeaves (R : Sys → Sys → Prop) : Prop where
  po : PO R
  inert : ∀ s s', Inert s s' → (s.closed = true → s'.closed = true) → R s s'
  onDisconnect : OkSpec R onDisconnect
  wsClose : ∀ c r, OkSpec R (wsClose c r)
  feedYield : ∀ b e, OkSpec R (feedYield b e)

theorem ok_inert_modS (T : OkLeaves R) {f : Sys → Sys} (h : ∀ s, Inert s (f s))
    (hc : ∀ s, s.closed = true → (f s).closed = true) : OkSpec R (modS f) :=
  ok_modS (fun s => T.inert _ _ (h s) (hc s))

theorem ok_inflateMessage (T : OkLeaves R) (j : Bytes) : OkSpec R (inflateMessage j) := by
  intro s a s' e
  unfold inflateMessage at e
  simp only [] at e
  repeat' split at e
  all_goals first
    | (cases e <;> done)
    | (cases e; exact T.inert _ _ (by constructor <;> rfl) (fun h => h))

theorem ok_buildMessage (T : OkLeaves R) (fs : List Frame) : OkSpec R (buildMessage fs) := by
  unfold buildMessage
  split
  · exact ok_throwE _
  · simp only []
    refine ok_getS_bind T.po (fun s => ?_)
    refine ok_bind T.po ?_ (fun _ => ok_liftE T.po _)
    split
    · exact ok_inflateMessage T _
    · exact ok_pure T.po _

theorem ok_checkCloseCode (T : OkLeaves R) (c : Option Nat) : OkSpec R (checkCloseCode c) := by
  unfold checkCloseCode
  splits <;> first | exact ok_pure T.po _ | exact ok_throwE _

theorem ok_raiseIfArgError (T : OkLeaves R) (r : ActRes) : OkSpec R (raiseIfArgError r) := by
  unfold raiseIfArgError
  split <;> first | exact ok_pure T.po _ | exact ok_throwE _

theorem ok_onClose (T : OkLeaves R) (c : Option Nat) (r : List Nat) : OkSpec R (onClose c r) := by
  unfold onClose
  refine ok_bind T.po (ok_checkCloseCode T c) (fun _ => ?_)
  refine ok_getS_bind T.po (fun s => ?_)
  split
  · exact ok_pure T.po _
  · split
    · refine ok_bind T.po (T.feedYield _ _) (fun _ => ok_inert_modS T ?_ ?_)
      · intro s; constructor <;> rfl
      · intro s _; rfl
    · refine ok_bind T.po (T.feedYield _ _) (fun _ => ok_bind T.po (T.wsClose _ _) (fun r =>
        ok_bind T.po (ok_raiseIfArgError T r) (fun _ => ok_inert_modS T ?_ ?_)))
      · intro s; constructor <;> rfl
      · intro s h; exact h

theorem ok_onMessage (T : OkLeaves R) (m : Msg) : OkSpec R (onMessage m) := by
  unfold onMessage
  split <;> first | exact ok_onClose T _ _ | exact T.feedYield _ _ | exact ok_pure T.po _

theorem ok_onDataFrame (T : OkLeaves R) (f : Frame) : OkSpec R (onDataFrame f) := by
  unfold onDataFrame
  refine ok_getS_bind T.po (fun s => ?_)
  split
  · exact ok_throwE _
  · split
    · exact ok_throwE _
    · refine ok_bind T.po (ok_inert_modS T ?_ ?_) (fun _ => ?_)
      · intro s; constructor <;> rfl
      · intro s h; exact h
      · split
        · refine ok_getS_bind T.po (fun s => ok_bind T.po (ok_buildMessage T _) (fun m =>
            ok_bind T.po (ok_onMessage T m) (fun _ => ok_inert_modS T ?_ ?_)))
          · intro s; constructor <;> rfl
          · intro s h; exact h
        · exact ok_pure T.po _

theorem ok_notClosed (T : OkLeaves R) : OkSpec R notClosed := by
  intro s a s' e; unfold notClosed at e; cases e; exact T.po.refl s

theorem ok_onFrame (T : OkLeaves R) (f : Frame) : OkSpec R (onFrame f) := by
  unfold onFrame
  split
  · exact ok_bind T.po (ok_buildMessage T _) (fun m => ok_onMessage T m)
  · exact ok_onDataFrame T _

theorem ok_onOut (T : OkLeaves R) (o : Out) : OkSpec R (onOut o) := by
  unfold onOut
  split
  · refine ok_getS_bind T.po (fun s => ?_)
    split
    · refine ok_bind T.po (ok_inert_modS T ?_ ?_) (fun _ => ok_bind T.po T.onDisconnect (fun _ =>
        ok_bind T.po (T.feedYield _ _) (fun _ => ok_pure T.po _)))
      · intro s; constructor <;> rfl
      · intro s h; exact h
    · refine ok_bind T.po (ok_inert_modS T ?_ ?_) (fun _ => ok_bind T.po (T.feedYield _ _) (fun _ =>
        ok_bind T.po (ok_inert_modS T ?_ ?_) (fun _ => ok_notClosed T)))
      · intro s; constructor <;> rfl
      · intro s h; exact h
      · intro s; constructor <;> rfl
      · intro s h; exact h
  · exact ok_bind T.po (ok_onFrame T _) (fun _ => ok_notClosed T)

theorem ok_feedLoop (T : OkLeaves R) (data : Bytes) : OkSpec R (feedLoop data) := by
  induction h : data.length using Nat.strongRecOn generalizing data with
  | _ n ih =>
    intro s a s' e
    rw [feedLoop] at e
    by_cases hd : data = []
    · simp only [hd, dite_true] at e; cases e; exact T.po.refl s
    · simp only [hd, dite_false] at e
      have hlt : (data.drop (s.p.remPred + 1)).length < n := by
        have : data.length ≠ 0 := fun hl => hd (List.eq_nil_of_length_eq_zero hl)
        simp only [List.length_drop]; omega
      cases hb : biteBytes s.cfg.v s.p (data.take (s.p.remPred + 1)) with
      | error x => rw [hb] at e; cases e
      | ok r =>
        obtain ⟨p', out⟩ := r
        rw [hb] at e
        simp only at e
        have hs1 : R s { s with p := p' } := T.inert _ _ (inert_setP s p') (fun h => h)
        cases out with
        | none => simp only at e; exact T.po.trans hs1 (ih _ hlt _ rfl _ _ _ e)
        | some o =>
          simp only at e
          cases ho : onOut o { s with p := p' } with
          | err x s2 => rw [ho] at e; cases e
          | ok go s2 =>
            rw [ho] at e
            have h2 := ok_onOut T o _ _ _ ho
            cases go with
            | true => exact T.po.trans hs1 (T.po.trans h2 (ih _ hlt _ rfl _ _ _ e))
            | false => cases e; exact T.po.trans hs1 h2

theorem ok_afterHeader (T : OkLeaves R) (rest : Bytes) (out : Option Out) :
    OkSpec R (afterHeader rest out) := by
  unfold afterHeader
  split
  · refine ok_bind T.po (ok_onOut T _) (fun go => ?_)
    split
    · exact ok_bind T.po (ok_feedLoop T _) (fun _ => ok_pure T.po _)
    · exact ok_pure T.po _
  · exact ok_bind T.po (ok_feedLoop T _) (fun _ => ok_pure T.po _)

theorem ok_feedHeader (T : OkLeaves R) (data : Bytes) : OkSpec R (feedHeader data) := by
  intro s a s' e
  unfold feedHeader at e
  simp only [] at e
  split at e
  · split at e
    · cases e
    · cases e; exact T.inert _ _ (inert_setP s _) (fun h => h)
  · split at e
    · cases e
    · split at e
      · cases e
      · rename_i p' out hr
        exact T.po.trans (T.inert _ _ (inert_setP s p') (fun h => h)) (ok_afterHeader T _ _ _ _ _ e)

theorem ok_feedBody (T : OkLeaves R) (data : Bytes) : OkSpec R (feedBody data) := by
  intro s a s' e
  unfold feedBody at e
  split at e
  · exact ok_feedHeader T data _ _ _ e
  · split at e
    · rename_i h; cases e; exact ok_feedLoop T data _ _ _ h
    · cases e

/-- **any relation kept by the leaves along normal returns is kept by `WebSocket.feed`** -/
theorem ok_wsFeed (T : OkLeaves R) (data : Bytes) : OkSpec R (wsFeed data) := by
  intro s a s' e
  unfold wsFeed at e
  split at e
  · cases e; exact T.po.refl s
  · exact ok_tryC (ok_tryC (ok_feedBody T data) (fun x => feedHandler_never_ok x))
      (fun x => unwrapOuter_never_ok x) s a s' e

end lift

/-! ### `WebSocket.feed` returns settled -/

def RS (s s' : Sys) : Prop := Settled s → Settled s'

theorem rs_po : PO RS where
  refl s := id
  trans h1 h2 := fun h => h2 (h1 h)

/-- the state in which `WebSocket.close()` leaves the websocket after its Close frame went out -/
def markClose (s : Sys) : Sys := { s with closing := true, sentCloseTime := some (sessionTime s) }

/-- sending our Close now does not make the close timeout due now (`close_timeout` is 0 =
    disabled, or at least one tick) -/
theorem settled_markClose (s : Sys) (h : Settled s) : Settled (markClose s) := by
  refine ⟨h.poll, fun hr => ?_⟩
  obtain ⟨⟨p, hp, hlt⟩, h2, h3, h4⟩ := h.quiet hr
  refine ⟨⟨p, hp, hlt⟩, h2, h3, ?_⟩
  rintro ⟨h0, ct, hct, hge⟩
  have e1 : some (sessionTime s) = some ct := hct
  have e2 : sessionTime (markClose s) = sessionTime s := rfl
  have e3 : (markClose s).cfg.closeTimeout = s.cfg.closeTimeout := rfl
  simp only [Option.some.injEq] at e1
  rw [e2, e3] at hge
  rw [e3] at h0
  omega

theorem rs_wsClose (c : Option Nat) (r : Arg) : Spec RS (wsClose c r) := by
  intro s; unfold wsClose
  splits
  all_goals first
    | exact fun h => h
    | (rename_i heq
       intro hs
       exact settled_markClose _ (settled_of_tk ((tk_sendFrame _ _ _).ok heq) hs))
    | (rename_i heq; exact (sendFrame_no_err heq).elim)

theorem rs_feedYield (inTry : Bool) (e : Event) : OkSpec RS (feedYield inTry e) := by
  intro s a s' h hs
  obtain ⟨s1, s2, h1, h2, h3⟩ := feedYield_ok_inv h
  have c1 : s1.cfg = s.cfg := ((step_onEvent e).ok h1).cfg
  have c2 : s2.cfg = s1.cfg := ((step_yieldEv e).ok h2).cfg
  exact regular_establishes (by rw [c2, c1]; exact hs.poll) h3

theorem rs_leaves : OkLeaves RS where
  po := rs_po
  inert := fun s s' h _ hs => settled_of_tk (tk_of_inert h) hs
  onDisconnect := ok_of_spec (fun s hs => settled_of_tk (tk_onDisconnect s) hs)
  wsClose := fun c r => ok_of_spec (rs_wsClose c r)
  feedYield := rs_feedYield

/-- **`WebSocket.feed` returns settled.**  Whatever `feed` does after the last `_regular()` of a
    read — parser and stream bookkeeping, the Close it answers a Close with, the state flags —
    leaves `_regular()` with nothing to do at the same clock value. -/
theorem wsFeed_settled {d : Bytes} {s s' : Sys} (hs : Settled s) (h : wsFeed d s = .ok () s') :
    Settled s' := ok_wsFeed rs_leaves d s () s' h hs

/-! ### what the application and `_regular()` cannot touch

  Neither the application's calls (`send_*`, `close`, `session.close`, abandoning) nor
  `_regular()` touch the parser or the `closed` flag; and the socket is only given up by them
  through `session.close()`. -/

/-- the application never calls `session.close()` -/
def NoSessionClose (r : React) : Prop := ∀ h, Act.sessionClose ∉ r h

/-- parser, `closed`, application and configuration unchanged; with `b`: the socket flag too -/
structure K (b : Bool) (s s' : Sys) : Prop where
  p : s'.p = s.p
  closed : s'.closed = s.closed
  react : s'.react = s.react
  cfg : s'.cfg = s.cfg
  sock : b = true → s'.sockOpen = s.sockOpen

theorem k_po (b : Bool) : PO (K b) where
  refl s := ⟨rfl, rfl, rfl, rfl, fun _ => rfl⟩
  trans h1 h2 := ⟨h2.p.trans h1.p, h2.closed.trans h1.closed, h2.react.trans h1.react,
    h2.cfg.trans h1.cfg, fun hb => (h2.sock hb).trans (h1.sock hb)⟩

macro "k_leaf" : tactic => `(tactic| exact ⟨rfl, rfl, rfl, rfl, fun _ => rfl⟩)

theorem k_closeSocket : Spec (K false) closeSocket := by
  intro s; unfold closeSocket
  split
  · exact ⟨rfl, rfl, rfl, rfl, fun h => by cases h⟩
  · k_leaf

theorem k_write (b : Bool) (d : Bytes) (z : Option (Nat × Bytes)) : Spec (K b) (write d z) := by
  intro s; unfold write; splits <;> k_leaf

theorem k_sendFrame (b : Bool) (op : Nat) (pl : Bytes) (c : Option Bytes) :
    Spec (K b) (sendFrame op pl c) := by
  intro s; unfold sendFrame
  simp only
  splits
  all_goals first
    | k_leaf
    | exact (k_po b).trans (by k_leaf) (k_write b _ _ _)

theorem k_wsClose (b : Bool) (c : Option Nat) (r : Arg) : Spec (K b) (wsClose c r) := by
  intro s; unfold wsClose
  splits
  all_goals first
    | k_leaf
    | (rename_i h; have := (k_sendFrame b _ _ _).ok h; exact (k_po b).trans this (by k_leaf))
    | (rename_i h; exact (k_sendFrame b _ _ _).err h)

theorem k_sendData (b : Bool) (op : Nat) (pl : Bytes) (c : Bool) : Spec (K b) (sendData op pl c) := by
  intro s; unfold sendData; split <;> exact k_sendFrame b _ _ _ s

theorem k_log (b : Bool) (o : Obs) : Spec (K b) (log o) := by
  intro s; unfold log modS; k_leaf

theorem k_logRes {b : Bool} {m : M ActRes} (h : Spec (K b) m) : Spec (K b) (logRes m) := by
  unfold logRes
  exact spec_bind (k_po b) h (fun r => k_log b _)

theorem k_doAct (b : Bool) (a : Act) (h : b = true → a ≠ .sessionClose) : Spec (K b) (doAct a) := by
  cases b with
  | true =>
    have ha := h rfl
    unfold doAct
    split
    all_goals first
      | exact absurd rfl ha
      | (apply k_logRes
         first
          | exact spec_pure (k_po _) _
          | exact k_sendData _ _ _ _
          | exact k_wsClose _ _ _
          | exact spec_ite _ (spec_pure (k_po _) _) (k_sendData _ _ _ _)
          | exact spec_ite _ (spec_pure (k_po _) _) (k_sendFrame _ _ _ _))
      | (intro s; k_leaf)
  | false =>
    unfold doAct
    split
    all_goals first
      | (apply k_logRes
         first
          | exact spec_pure (k_po _) _
          | exact k_sendData _ _ _ _
          | exact k_wsClose _ _ _
          | exact spec_bind (k_po _) k_closeSocket (fun _ => spec_pure (k_po _) _)
          | exact spec_ite _ (spec_pure (k_po _) _) (k_sendData _ _ _ _)
          | exact spec_ite _ (spec_pure (k_po _) _) (k_sendFrame _ _ _ _))
      | (intro s; k_leaf)

theorem k_doActs (b : Bool) (as : List Act) (h : b = true → ∀ a ∈ as, a ≠ .sessionClose) :
    Spec (K b) (doActs as) := by
  induction as with
  | nil => exact spec_pure (k_po b) ()
  | cons a r ih =>
    unfold doActs
    exact spec_bind (k_po b) (k_doAct b a (fun hb => h hb a List.mem_cons_self))
      (fun _ => ih (fun hb a' ha' => h hb a' (List.mem_cons_of_mem _ ha')))

/-- `K b`, for `b = true` under the assumption that the application never calls `session.close()` -/
def KR (b : Bool) (s s' : Sys) : Prop := (b = true → NoSessionClose s.react) → K b s s'

theorem kr_po (b : Bool) : PO (KR b) where
  refl s := fun _ => (k_po b).refl s
  trans := by
    intro x y z h1 h2 hn
    have k1 := h1 hn
    exact (k_po b).trans k1 (h2 (fun hb => by rw [k1.react]; exact hn hb))

theorem kr_of_k {b : Bool} {m : M α} (h : Spec (K b) m) : Spec (KR b) m := fun s _ => h s

theorem kr_yieldEv (b : Bool) (e : Event) : Spec (KR b) (yieldEv e) := by
  intro s hn
  rw [yieldEv_eq]
  have h1 : K b s (pushEv e s) := by unfold pushEv; k_leaf
  refine (k_po b).trans h1 (k_doActs b _ (fun hb a ha => ?_) _)
  intro e1
  subst e1
  exact hn hb _ ha

theorem kr_checkPoll (b : Bool) : Spec (KR b) checkPoll := by
  unfold checkPoll
  refine spec_getS_bind (kr_po b) (fun s => ?_)
  simp only []
  splits
  all_goals first
    | exact spec_pure (kr_po b) _
    | (refine spec_bind (kr_po b) (spec_modS ?_) (fun _ => kr_yieldEv b _); intro s _; k_leaf)

theorem kr_checkAutoPing (b : Bool) : Spec (KR b) checkAutoPing := by
  unfold checkAutoPing
  refine spec_getS_bind (kr_po b) (fun s => ?_)
  simp only []
  split
  · refine spec_bind (kr_po b) (spec_modS ?_) (fun _ =>
      spec_bind (kr_po b) (kr_of_k (k_sendFrame b _ _ _)) (fun _ => spec_pure (kr_po b) _))
    intro s _; k_leaf
  · exact spec_pure (kr_po b) _

theorem kr_checkPingTimeout (b : Bool) : Spec (KR b) checkPingTimeout := by
  unfold checkPingTimeout
  refine spec_getS_bind (kr_po b) (fun s => ?_)
  simp only []
  split
  · exact spec_bind (kr_po b) (kr_yieldEv b _) (fun _ => spec_throwE (kr_po b) _)
  · exact spec_pure (kr_po b) _

theorem kr_checkCloseTimeout (b : Bool) : Spec (KR b) checkCloseTimeout := by
  unfold checkCloseTimeout
  refine spec_getS_bind (kr_po b) (fun s => ?_)
  simp only []
  splits
  all_goals first | exact spec_pure (kr_po b) _ | exact spec_throwE (kr_po b) _

/-- `_regular()` touches neither the parser nor the `closed` flag, and gives up the socket only if
    the application calls `session.close()` at the Poll or Unresponsive event -/
theorem kr_regular (b : Bool) : Spec (KR b) regular := by
  unfold regular
  apply spec_bind (kr_po b) (spec_getS (kr_po b)); intro s
  split
  · exact spec_bind (kr_po b) (kr_checkPoll b) (fun _ => spec_bind (kr_po b) (kr_checkAutoPing b)
      (fun _ => spec_bind (kr_po b) (kr_checkPingTimeout b) (fun _ => kr_checkCloseTimeout b)))
  · exact spec_pure (kr_po b) _

theorem k_onEvent (b : Bool) (e : Event) : Spec (K b) (onEvent e) := by
  intro s; unfold onEvent
  splits
  all_goals first
    | k_leaf
    | (rename_i h; exact (k_sendFrame b _ _ _).ok h)
    | (rename_i h; exact (k_sendFrame b _ _ _).err h)

theorem k_tick (b : Bool) (s : Sys) (dt : Nat) : K b s (tick s dt) := by unfold tick; k_leaf

/-- the header invariant only looks at the parser -/
theorem hdrInv_of_p {s s' : Sys} (h : s'.p = s.p) (hi : HdrInv s) : HdrInv s' := by
  unfold HdrInv at *; rw [h]; exact hi

/-! ### the socket exists unless the websocket is closed -/

/-- `_recv` can still read: the socket exists, or the websocket is closed (and the loop ends) -/
def SockOK (s : Sys) : Prop := s.sockOpen = true ∨ s.closed = true

def Good (s : Sys) : Prop := NoSessionClose s.react ∧ SockOK s

def RG (s s' : Sys) : Prop := Good s → Good s'

theorem rg_po : PO RG where
  refl s := id
  trans h1 h2 := fun h => h2 (h1 h)

theorem good_of_k {s s' : Sys} (k : K true s s') (h : Good s) : Good s' := by
  refine ⟨by rw [k.react]; exact h.1, ?_⟩
  unfold SockOK; rw [k.sock rfl, k.closed]; exact h.2

theorem good_of_kr {s s' : Sys} (k : KR true s s') (h : Good s) : Good s' :=
  good_of_k (k (fun _ => h.1)) h

theorem onDisconnect_closed {s s' : Sys} (h : onDisconnect s = .ok () s') : s'.closed = true := by
  unfold onDisconnect at h
  obtain ⟨s0, h0⟩ := closeSocket_ok s
  rw [bind_ok h0] at h
  cases h; rfl

theorem rg_feedYield (inTry : Bool) (e : Event) : OkSpec RG (feedYield inTry e) := by
  intro s a s' h hg
  obtain ⟨s1, s2, h1, h2, h3⟩ := feedYield_ok_inv h
  have k1 : KR true s s1 := kr_of_k (k_onEvent true e) |>.ok h1
  have k2 : KR true s1 s2 := (kr_yieldEv true e).ok h2
  have k3 : KR true s2 s' := (kr_regular true).ok h3
  exact good_of_kr ((kr_po true).trans k1 ((kr_po true).trans k2 k3)) hg

theorem rg_leaves : OkLeaves RG where
  po := rg_po
  inert := by
    intro s s' h hc hg
    refine ⟨by rw [h.react]; exact hg.1, ?_⟩
    rcases hg.2 with h1 | h1
    · exact Or.inl (by rw [h.sockOpen]; exact h1)
    · exact Or.inr (hc h1)
  onDisconnect := by
    intro s a s' h hg
    exact ⟨by rw [((step_onDisconnect).ok h).react]; exact hg.1, Or.inr (onDisconnect_closed h)⟩
  wsClose := fun c r => ok_of_spec (fun s hg => good_of_k (k_wsClose true c r s) hg)
  feedYield := rg_feedYield

/-- **the socket outlives the read unless the websocket got closed**, for an application that
    never calls `session.close()`: within `WebSocket.feed` the library gives the socket up only in
    `on_disconnect()`, which also marks the websocket closed -/
theorem wsFeed_good {d : Bytes} {s s' : Sys} (hg : Good s) (h : wsFeed d s = .ok () s') : Good s' :=
  ok_wsFeed rg_leaves d s () s' h hg

/-! ### the session loop, one cycle at a time -/

/-- `selector.wait` returning at once: nothing happened -/
theorem tick_zero (s : Sys) : tick s 0 = s := by
  cases s; simp [tick]

theorem loop_closed (env : List EnvStep) (s : Sys) (h : s.closed = true) : loop env s = .ok () s := by
  cases env with
  | nil => unfold loop; simp only [h, if_true]
  | cons st rest => unfold loop; simp only [h, if_true]

theorem loop_selErr (rest : List EnvStep) (s : Sys) (hc : s.closed = false) :
    loop (.selErr :: rest) s = .err (.other "error") s := by
  unfold loop
  simp only [hc, Bool.false_eq_true, if_false]

/-- one cycle of `run()`'s loop: `selector.wait`, `_regular()`, `_recv` + `feed` -/
theorem loop_wait (dt : Nat) (rd : Option RecvOutcome) (rest : List EnvStep) (s : Sys)
    (hc : s.closed = false) :
    loop (.wait dt rd :: rest) s =
      match regular (tick s dt) with
      | .err x s2 => .err x s2
      | .ok _ s2 =>
        match rd with
        | none => loop rest s2
        | some o =>
          match recvStep o s2 with
          | .err x s3 => .err x s3
          | .ok true s3 => loop rest s3
          | .ok false s3 => .ok () s3 := by
  rw [loop]
  simp only [hc, Bool.false_eq_true, if_false, regularTop]
  rfl

theorem recvStep_data (bs : Bytes) (s : Sys) (ho : s.sockOpen = true) (hne : bs ≠ []) :
    recvStep (.data bs) s =
      match wsFeed bs s with
      | .ok _ s' => .ok true s'
      | .err x s' => .err x s' := by
  unfold recvStep
  simp only [ho, not_true_eq_false, if_false, hne]
  rfl

theorem recvStep_noSock (o : RecvOutcome) (s : Sys) (ho : s.sockOpen = false) :
    recvStep o s = onEof s := by
  unfold recvStep
  simp only [ho, Bool.false_eq_true, not_false_eq_true, if_true]

/-- the loop goes on after a read only when `WebSocket.feed` returned -/
theorem recvStep_true_inv {o : RecvOutcome} {s s' : Sys} (h : recvStep o s = .ok true s') :
    ∃ bs, wsFeed bs s = .ok () s' := by
  unfold recvStep onEof at h
  repeat' split at h
  all_goals first
    | (cases h <;> done)
    | (rename_i heq; cases h; exact ⟨_, heq⟩)

theorem wsFeed_closed (d : Bytes) (s : Sys) (h : s.closed = true) : wsFeed d s = .ok () s := by
  unfold wsFeed; simp only [h, if_true]

/-- **Two reads without the clock moving in between are one read** (general form).

    `dt` (the time the *first* `selector.wait` took) is arbitrary; the second wait returns at once.
    Hypotheses: the header invariant (`HdrInv`, true from the start of a connection on), `poll > 0`,
    non-empty reads (`recv` returning `b''` means end of stream), and `hsock`: if the first read's
    `feed` returns with the websocket still open, the socket still exists — i.e. the application
    did not call `session.close()` while handling the events of `a` (after which `_recv` reads
    nothing more: the bytes of `b` could not be received at all). -/
theorem loop_two_reads (dt : Nat) (a b : Bytes) (rest : List EnvStep) (s : Sys)
    (hi : HdrInv s) (hp : 0 < s.cfg.poll) (ha : a ≠ []) (hb : b ≠ [])
    (hsock : ∀ s2 s3, regular (tick s dt) = .ok () s2 → wsFeed a s2 = .ok () s3 →
      s3.closed = false → s3.sockOpen = true) :
    loop (.wait dt (some (.data a)) :: .wait 0 (some (.data b)) :: rest) s =
      loop (.wait dt (some (.data (a ++ b))) :: rest) s := by
  by_cases hc : s.closed = true
  · rw [loop_closed _ _ hc, loop_closed _ _ hc]
  · have hc' : s.closed = false := by simpa using hc
    rw [loop_wait _ _ _ _ hc', loop_wait _ _ _ _ hc']
    cases hr : regular (tick s dt) with
    | err x s2 => rfl
    | ok u s2 =>
      simp only
      have kr : K false (tick s dt) s2 := (kr_regular false).ok hr (fun h => by cases h)
      have hi2 : HdrInv s2 := hdrInv_of_p kr.p hi
      have hs2 : Settled s2 := regular_establishes (s := tick s dt) hp hr
      by_cases ho : s2.sockOpen = true
      · have hab : a ++ b ≠ [] := by simp [ha]
        rw [recvStep_data a s2 ho ha, recvStep_data (a ++ b) s2 ho hab, wsFeed_append a b s2 hi2]
        cases hf : wsFeed a s2 with
        | err x s3 => rfl
        | ok u3 s3 =>
          simp only
          by_cases hc3 : s3.closed = true
          · rw [loop_closed _ _ hc3, wsFeed_closed b s3 hc3]
            simp only
            rw [loop_closed _ _ hc3]
          · have hc3' : s3.closed = false := by simpa using hc3
            have ho3 : s3.sockOpen = true := hsock s2 s3 hr hf hc3'
            have hs3 : Settled s3 := wsFeed_settled hs2 hf
            rw [loop_wait 0 _ rest s3 hc3', tick_zero, regular_settled s3 hs3]
            simp only
            rw [recvStep_data b s3 ho3 hb]
      · have ho' : s2.sockOpen = false := by simpa using ho
        rw [recvStep_noSock _ s2 ho', recvStep_noSock _ s2 ho']
        cases he : onEof s2 with
        | err x s3 => rfl
        | ok go s3 =>
          cases go with
          | false => rfl
          | true => exfalso; unfold onEof at he; split at he <;> cases he

/-! ### applications that never call `session.close()`; chunk lists -/

/-- what the chunk-list form carries from read to read -/
structure Inv (s : Sys) : Prop where
  hdr : HdrInv s
  poll : 0 < s.cfg.poll
  good : Good s

theorem inv_regular_tick {s s2 : Sys} {dt : Nat} (h : Inv s) (hr : regular (tick s dt) = .ok () s2) :
    Inv s2 := by
  have k : K true s s2 :=
    (k_po true).trans (k_tick true s dt)
      ((kr_regular true).ok hr (fun _ => h.good.1))
  exact ⟨hdrInv_of_p k.p h.hdr, by rw [k.cfg]; exact h.poll, good_of_k k h.good⟩

theorem inv_wsFeed {s s' : Sys} {d : Bytes} (h : Inv s) (hf : wsFeed d s = .ok () s') : Inv s' :=
  ⟨wsFeed_hdrInv d s s' h.hdr hf, by rw [((step_wsFeed d).ok hf).cfg]; exact h.poll, wsFeed_good h.good hf⟩

/-- two reads are one read, for an application that never calls `session.close()` -/
theorem loop_two_reads_inv (dt : Nat) (a b : Bytes) (rest : List EnvStep) (s : Sys)
    (h : Inv s) (ha : a ≠ []) (hb : b ≠ []) :
    loop (.wait dt (some (.data a)) :: .wait 0 (some (.data b)) :: rest) s =
      loop (.wait dt (some (.data (a ++ b))) :: rest) s := by
  refine loop_two_reads dt a b rest s h.hdr h.poll ha hb (fun s2 s3 hr hf hc3 => ?_)
  have g3 := (inv_wsFeed (inv_regular_tick h hr) hf).good
  rcases g3.2 with h1 | h1
  · exact h1
  · rw [hc3] at h1; cases h1

/-- what follows a loop cycle may be replaced by anything that behaves the same from every state
    satisfying the invariant -/
theorem loop_cons_congr (st : EnvStep) (e1 e2 : List EnvStep) (s : Sys) (hI : Inv s)
    (h : ∀ s', Inv s' → loop e1 s' = loop e2 s') : loop (st :: e1) s = loop (st :: e2) s := by
  by_cases hc : s.closed = true
  · rw [loop_closed _ _ hc, loop_closed _ _ hc]
  · have hc' : s.closed = false := by simpa using hc
    cases st with
    | selErr => rw [loop_selErr _ _ hc', loop_selErr _ _ hc']
    | wait dt rd =>
      rw [loop_wait _ _ _ _ hc', loop_wait _ _ _ _ hc']
      cases hr : regular (tick s dt) with
      | err x s2 => rfl
      | ok u s2 =>
        simp only
        have I2 : Inv s2 := inv_regular_tick hI hr
        cases rd with
        | none => exact h s2 I2
        | some o =>
          simp only
          cases hrs : recvStep o s2 with
          | err x s3 => rfl
          | ok go s3 =>
            cases go with
            | false => rfl
            | true =>
              simp only
              obtain ⟨bs, hf⟩ := recvStep_true_inv hrs
              exact h s3 (inv_wsFeed I2 hf)

theorem loop_prefix_congr (pre e1 e2 : List EnvStep) (s : Sys) (hI : Inv s)
    (h : ∀ s', Inv s' → loop e1 s' = loop e2 s') : loop (pre ++ e1) s = loop (pre ++ e2) s := by
  induction pre generalizing s with
  | nil => exact h s hI
  | cons st pre ih =>
    exact loop_cons_congr st _ _ s hI (fun s' hI' => ih s' hI')

/-- consecutive reads with no time passing between them -/
def reads (cs : List Bytes) : List EnvStep := cs.map (fun c => EnvStep.wait 0 (some (.data c)))

/-- the first wait of a burst may take any time `dt`; the following ones return at once -/
def readsAt (dt : Nat) : List Bytes → List EnvStep
  | [] => []
  | c :: cs => .wait dt (some (.data c)) :: reads cs

theorem readsAt_zero (cs : List Bytes) : readsAt 0 cs = reads cs := by
  cases cs <;> rfl

theorem flatten_ne_nil_of_head {c : Bytes} {cs : List Bytes} (h : c ≠ []) : (c :: cs).flatten ≠ [] := by
  intro e
  rw [List.flatten_cons] at e
  exact h (List.append_eq_nil_iff.mp e).1

/-- a burst of reads is one read of the concatenation -/
theorem loop_reads_flatten (dt : Nat) (c : Bytes) (cs : List Bytes) (rest : List EnvStep) (s : Sys)
    (hI : Inv s) (hne : ∀ x ∈ c :: cs, x ≠ []) :
    loop (.wait dt (some (.data c)) :: (reads cs ++ rest)) s =
      loop (.wait dt (some (.data (c :: cs).flatten)) :: rest) s := by
  induction cs generalizing dt c s with
  | nil => simp [reads]
  | cons c' cs' ih =>
    have hne' : ∀ x ∈ c' :: cs', x ≠ [] := fun x hx => hne x (List.mem_cons_of_mem _ hx)
    have h1 : loop (.wait dt (some (.data c)) :: (reads (c' :: cs') ++ rest)) s =
        loop (.wait dt (some (.data c)) :: .wait 0 (some (.data (c' :: cs').flatten)) :: rest) s :=
      loop_cons_congr _ _ _ s hI (fun s' hI' => ih 0 c' s' hI' hne')
    rw [h1, loop_two_reads_inv dt c _ rest s hI (hne c List.mem_cons_self)
      (flatten_ne_nil_of_head (hne' c' List.mem_cons_self))]
    rfl

theorem loop_readsAt_flatten (dt : Nat) (c : Bytes) (cs : List Bytes) (rest : List EnvStep) (s : Sys)
    (hI : Inv s) (hne : ∀ x ∈ c :: cs, x ≠ []) :
    loop (readsAt dt (c :: cs) ++ rest) s =
      loop (.wait dt (some (.data (c :: cs).flatten)) :: rest) s :=
  loop_reads_flatten dt c cs rest s hI hne

/-- **Segmentation independence of the session loop.**  Two bursts of non-empty reads carrying the
    same bytes drive `run()`'s loop to the same result from every state satisfying `Inv`. -/
theorem loop_segmentation (dt : Nat) (cs₁ cs₂ : List Bytes) (rest : List EnvStep) (s : Sys) (hI : Inv s)
    (hne₁ : ∀ x ∈ cs₁, x ≠ []) (hne₂ : ∀ x ∈ cs₂, x ≠ []) (h : cs₁.flatten = cs₂.flatten) :
    loop (readsAt dt cs₁ ++ rest) s = loop (readsAt dt cs₂ ++ rest) s := by
  cases cs₁ with
  | nil =>
    cases cs₂ with
    | nil => rfl
    | cons c₂ t₂ => exact absurd h.symm (flatten_ne_nil_of_head (hne₂ c₂ List.mem_cons_self))
  | cons c₁ t₁ =>
    cases cs₂ with
    | nil => exact absurd h (flatten_ne_nil_of_head (hne₁ c₁ List.mem_cons_self))
    | cons c₂ t₂ =>
      rw [loop_readsAt_flatten dt c₁ t₁ rest s hI hne₁, loop_readsAt_flatten dt c₂ t₂ rest s hI hne₂, h]

/-! ### `run()`'s `try` body -/

theorem bind_congr_at {m1 m2 : M α} {f : α → M β} {s : Sys} (h : m1 s = m2 s) :
    (m1 >>= f) s = (m2 >>= f) s := by
  show M.bind m1 f s = M.bind m2 f s
  unfold M.bind; rw [h]

theorem tryC_congr_at {m1 m2 : M α} {hd : Exn → M α} {s : Sys} (h : m1 s = m2 s) :
    tryC m1 hd s = tryC m2 hd s := by
  unfold tryC; rw [h]

/-- the loop with its `except` / `else` clauses depends on the script only through `loop` -/
theorem runBody_congr {e1 e2 : List EnvStep} {s : Sys} (h : loop e1 s = loop e2 s) :
    runBody e1 s = runBody e2 s := by
  unfold runBody
  exact bind_congr_at (tryC_congr_at (bind_congr_at h))

end Lomond.Core.SegLoop
