/-
  Correctness of the bit-level inflater of Model/Inflate.lean on everything the reference encoder
  of Model/DeflEnc.lean writes:

    block      `blocks_blk`      one stored, fixed- or dynamic-Huffman block, BFINAL or not, at any bit offset;
    message    `blocks_all` / `blocks_first`   any sequence of blocks (one continuous window), with the
               restart after BFINAL=1 (`inflateAllSafe`) or stopping there (`inflateAll`, zlib's object);
    history    `agreesSafe_enc` / `agrees_enc`   any sequence of messages, each ending with the
               sync-flush tail: `inflateAllSafe` / `inflateAll` on the bytes = the token model.
-/
import Lomond.Proofs.InflateSym
import Lomond.Proofs.InflateStored
import Lomond.Proofs.InflateDyn
import Lomond.Proofs.InflateRle
import Lomond.Proofs.DeflateTie
set_option linter.unusedSimpArgs false
set_option linter.unusedVariables false
namespace Lomond.Inflate
open Lomond Lomond.DeflEnc Lomond.Deflate

/-! ### the block header -/

theorem header_bits (f b1 b2 : Bool) : bitsLE 3 (f.toNat + 2 * b1.toNat + 4 * b2.toNat) = [f, b1, b2] := by
  cases f <;> cases b1 <;> cases b2 <;> rfl

theorem bits_header {inp : Array Nat} (hwf : ∀ x ∈ inp.toList, x < 256) {pos : Nat} (f b1 b2 : Bool) {r : List Bool}
    (h : Rest inp pos = [f, b1, b2] ++ r) :
    bits inp pos 3 = .ok (f.toNat + 2 * b1.toNat + 4 * b2.toNat) (pos + 3) := by
  have hb := rest_bound h (by simp)
  apply bits_spec hwf (by decide) _ (by simp at hb; omega) (r := r)
  · rw [header_bits]; exact h
  · cases f <;> cases b1 <;> cases b2 <;> decide

theorem bits_eoi {inp : Array Nat} {pos : Nat} (h : Rest inp pos = []) : bits inp pos 3 = .eoi := by
  have := (rest_nil_iff inp pos).mp h
  simp only [bits]
  rw [if_neg (by omega)]

/-! ### literals only -/

theorem inflTokens_lits (wsize : Nat) (win data : Bytes) (hw : win.length ≤ wsize) :
    inflTokens wsize win (data.map Token.lit) = some ((data.reverse ++ win).take wsize, data.reverse) := by
  induction data generalizing win with
  | nil => simp [inflTokens, List.take_of_length_le hw]
  | cons b data ih =>
    simp only [List.map_cons, inflTokens, tokOut]
    rw [ih _ (by simp; omega)]
    simp only [List.reverse_cons, List.append_assoc, Option.some.injEq, Prod.mk.injEq, and_true]
    rw [take_append_take]

theorem lits_of_isLit (toks : List Token) (h : toks.all isLit = true) : (toks.map litVal).map Token.lit = toks := by
  induction toks with
  | nil => rfl
  | cons t ts ih =>
    simp only [List.all_cons, Bool.and_eq_true] at h
    cases t with
    | lit b => simp [litVal, ih h.2]
    | copy d n => simp [isLit] at h

/-! ### one block -/

/-- the continuation after a block body of `L` bits (the padding after a BFINAL=1 block not
    counted), as `blocks` computes it -/
def afterBody (cont : Bool) (inp : Array Nat) (wsize fuel : Nat) (final : Bool) (pos L : Nat) (out : Array Nat) :
    Option (Array Nat) :=
  if final then (if cont then blocks cont inp wsize fuel ((pos + L + 7) / 8 * 8) out else some out)
  else blocks cont inp wsize fuel (pos + L) out

/-- the continuation after a whole block (padding included), as `blocks` computes it -/
def afterBlk (cont : Bool) (inp : Array Nat) (wsize fuel : Nat) (final : Bool) (pos : Nat) (out : Array Nat) :
    Option (Array Nat) :=
  if final then (if cont then blocks cont inp wsize fuel pos out else some out)
  else blocks cont inp wsize fuel pos out

/-- a stored block, header included -/
theorem stored_body (cont : Bool) {inp : Array Nat} (hwf : ∀ x ∈ inp.toList, x < 256) (wsize fuel pos off : Nat)
    (out : Array Nat) (final : Bool) (data : Bytes) (rr : List Bool) (hdata : ∀ x ∈ data, x < 256)
    (hlen : data.length ≤ 65535) (hp : pos % 8 = off % 8)
    (hr : Rest inp pos = storedBits off final data ++ rr) :
    blocks cont inp wsize (fuel + 1) pos out =
      afterBody cont inp wsize fuel final pos (storedBits off final data).length (out ++ data.toArray) := by
  simp only [storedBits, List.append_assoc, List.cons_append, List.nil_append] at hr
  have hh := bits_header hwf final false false (r := _) hr
  have hr3 := rest_append (a := [final, false, false]) hr
  have hst := stored_spec hwf out hdata hlen (p0 := pos + 3) (off := off + 3) (by omega) hr3
  rw [blocks, hh]
  simp only [Bool.toNat_false, Nat.mul_zero, Nat.add_zero]
  have e1 : final.toNat / 2 = 0 := by cases final <;> rfl
  have e2 : final.toNat % 2 = final.toNat := by cases final <;> rfl
  simp only [e1, e2, if_true, hst]
  have hL : (storedBits off final data).length = 3 + (pad (off + 3)).length + 32 + 8 * data.length := by
    simp only [storedBits, List.length_append, List.length_cons, List.length_nil, bitsLE_length, bitsOf_length]
  have hpos : pos + 3 + (pad (off + 3)).length + 32 + 8 * data.length = pos + (storedBits off final data).length := by
    rw [hL]; omega
  rw [hpos]
  cases final <;> simp [afterBody]

/-- a fixed-Huffman block, header included -/
theorem fixed_body (cont : Bool) {inp : Array Nat} (hwf : ∀ x ∈ inp.toList, x < 256) (wsize fuel pos : Nat)
    (out : Array Nat) (final : Bool) (toks : List Token) (rr : List Bool) (hok : ∀ t ∈ toks, tokOk t)
    (hr : Rest inp pos = fixedBits final toks ++ rr) :
    blocks cont inp wsize (fuel + 1) pos out =
      match inflTokens wsize (winOf wsize out) toks with
      | none => none
      | some (_, e) => afterBody cont inp wsize fuel final pos (fixedBits final toks).length (out ++ e.reverse.toArray) := by
  simp only [fixedBits, List.append_assoc, List.cons_append, List.nil_append] at hr
  have hh := bits_header hwf final true false (r := _) hr
  have hr3 : Rest inp (pos + 3) = toks.flatMap tokBits ++ (litCode 256 ++ rr) :=
    rest_append (a := [final, true, false]) hr
  have hfu : toks.length < 8 * inp.size + 1 := by
    have := rest_length inp (pos + 3)
    rw [hr3] at this
    simp only [List.length_append] at this
    have := toksBits_length toks hok
    omega
  have hsym := symLoop_toks hwf wsize toks hok (8 * inp.size + 1) (pos + 3) out rr hfu hr3
  rw [blocks, hh]
  simp only [Bool.toNat_true, Bool.toNat_false, Nat.mul_zero, Nat.add_zero, Nat.mul_one]
  have e1 : (final.toNat + 2) / 2 = 1 := by cases final <;> rfl
  have e2 : (final.toNat + 2) % 2 = final.toNat := by cases final <;> rfl
  simp only [e1, e2, if_true, hsym, Nat.one_ne_zero, if_false]
  have hL : (fixedBits final toks).length = 3 + (toks.flatMap tokBits).length + 7 := by
    simp only [fixedBits, List.length_append, List.length_cons, List.length_nil]
    have : (litCode 256).length = 7 := rfl
    omega
  cases inflTokens wsize (winOf wsize out) toks with
  | none => rfl
  | some we =>
    simp only []
    rw [show pos + 3 + (toks.flatMap tokBits).length + 7 = pos + (fixedBits final toks).length by rw [hL]; omega]
    cases final <;> simp [afterBody]

theorem all_and {α : Type} (p q : α → Bool) (l : List α) (h : (l.all fun x => p x && q x) = true) :
    l.all p = true ∧ l.all q = true := by
  simp only [List.all_eq_true, Bool.and_eq_true] at h ⊢
  exact ⟨fun x hx => (h x hx).1, fun x hx => (h x hx).2⟩

/-- what `dynOk` says -/
theorem dynOk_spec (ll dl : List Nat) (toks : List Token) (h : dynOk ll dl toks = true) :
    257 ≤ ll.length ∧ ll.length ≤ 286 ∧ 1 ≤ dl.length ∧ dl.length ≤ 30 ∧ (∀ l ∈ ll ++ dl, l ≤ 15) ∧
    kraft ll = 2 ^ 15 ∧ kraft dl = 2 ^ 15 ∧ 1 ≤ ll.getD 256 0 ∧
    (∀ t ∈ toks, tokIn (fun s => 1 ≤ ll.getD s 0) (fun s => 1 ≤ dl.getD s 0) t) := by
  simp only [dynOk, Bool.and_eq_true, decide_eq_true_eq, List.all_eq_true, beq_iff_eq] at h
  obtain ⟨⟨⟨⟨⟨⟨⟨⟨h1, h2⟩, h3⟩, h4⟩, h5⟩, h6⟩, h7⟩, h8⟩, h9⟩ := h
  refine ⟨h1, h2, h3, h4, h5, h6, h7, h8, ?_⟩
  intro t ht
  have := h9 t ht
  cases t with
  | lit b => simpa [usesOk, tokIn] using this
  | copy d n => simpa [usesOk, tokIn] using this

/-- a dynamic-Huffman block, header included -/
theorem dyn_body (cont : Bool) {inp : Array Nat} (hwf : ∀ x ∈ inp.toList, x < 256) (wsize fuel pos : Nat)
    (out : Array Nat) (final : Bool) (ll dl : List Nat) (toks : List Token) (rr : List Bool)
    (hok : ∀ t ∈ toks, tokOk t) (hdyn : dynOk ll dl toks = true)
    (hr : Rest inp pos = dynBits final ll dl toks ++ rr) :
    blocks cont inp wsize (fuel + 1) pos out =
      match inflTokens wsize (winOf wsize out) toks with
      | none => none
      | some (_, e) => afterBody cont inp wsize fuel final pos (dynBits final ll dl toks).length (out ++ e.reverse.toArray) := by
  obtain ⟨hl1, hl2, hd1, hd2, h15, hkl, hkd, heob, hin⟩ := dynOk_spec ll dl toks hdyn
  obtain ⟨lit, hlit, hlsh⟩ := mkHuff_complete ll false hkl
  obtain ⟨dist, hdist, hdsh⟩ := mkHuff_complete dl false hkd
  have cl := code_canon ll false lit hlit hlsh (by omega) (fun l hl => h15 l (by simp [hl]))
  have cd := code_canon dl false dist hdist hdsh (by omega) (fun l hl => h15 l (by simp [hl]))
  simp only [dynBits, List.append_assoc, List.cons_append, List.nil_append] at hr
  have hh := bits_header hwf final false true (r := _) hr
  have hr3 : Rest inp (pos + 3) = dynHeader ll dl ++
      (toks.flatMap (tokBitsG (canonCode ll) (canonCode dl)) ++ (canonCode ll 256 ++ rr)) :=
    rest_append (a := [final, false, true]) hr
  have htab := dynamicTables_spec hwf ll dl (pos + 3) _ hl1 hl2 hd1 hd2 h15 heob lit dist hlit hdist hr3
  have hr4 := rest_append hr3
  have hfu : toks.length < 8 * inp.size + 1 := by
    have := rest_length inp (pos + 3 + (dynHeader ll dl).length)
    rw [hr4] at this
    simp only [List.length_append] at this
    have := toksBitsG_length (dc := canonCode dl) cl toks hin
    omega
  have hsym := symLoopG_toks cl cd hwf wsize toks hok hin heob (8 * inp.size + 1) _ out rr hfu hr4
  rw [blocks, hh]
  simp only [Bool.toNat_true, Bool.toNat_false, Nat.mul_zero, Nat.add_zero, Nat.mul_one]
  have e1 : (final.toNat + 4) / 2 = 2 := by cases final <;> rfl
  have e2 : (final.toNat + 4) % 2 = final.toNat := by cases final <;> rfl
  simp only [e1, e2, if_true, htab, hsym, if_false, Nat.reduceEqDiff]
  have hL : (dynBits final ll dl toks).length = 3 + (dynHeader ll dl).length +
      (toks.flatMap (tokBitsG (canonCode ll) (canonCode dl))).length + (canonCode ll 256).length := by
    simp only [dynBits, List.length_append, List.length_cons, List.length_nil]
  cases inflTokens wsize (winOf wsize out) toks with
  | none => rfl
  | some we =>
    simp only []
    rw [show pos + 3 + (dynHeader ll dl).length + (toks.flatMap (tokBitsG (canonCode ll) (canonCode dl))).length +
        (canonCode ll 256).length = pos + (dynBits final ll dl toks).length by rw [hL]; omega]
    cases final <;> simp [afterBody]

/-- what `rleOk` says: the items expand to literal/length lengths `ll` (there are `nl` of them)
    followed by distance lengths `dl`, and these are `dynOk` -/
theorem rleOk_spec (cll : List Nat) (nc nl : Nat) (items : List Item) (toks : List Token)
    (h : rleOk cll nc nl items toks = true) :
    ∃ ll dl, expand items = some (ll ++ dl) ∧ ll.length = nl ∧ clOk cll nc = true ∧
      (∀ it ∈ items, it.ok = true ∧ 1 ≤ cll.getD it.sym 0) ∧ dynOk ll dl toks = true := by
  unfold rleOk at h
  cases hex : expand items with
  | none => rw [hex] at h; simp at h
  | some lens =>
    rw [hex] at h
    simp only [Bool.and_eq_true, List.all_eq_true, decide_eq_true_eq] at h
    obtain ⟨⟨h1, h2⟩, h3⟩ := h
    have hd := dynOk_spec _ _ _ h3
    have hlen : (lens.take nl).length = nl := by
      have := hd.2.2.1
      simp only [List.length_drop] at this
      simp only [List.length_take]
      omega
    exact ⟨lens.take nl, lens.drop nl, by rw [List.take_append_drop], hlen, h1, h2, h3⟩

/-- the bits of a block with a run-length coded header, in terms of the two length lists -/
theorem dynBitsR_eq (final : Bool) (cll : List Nat) (nc : Nat) (items : List Item) (ll dl : List Nat)
    (toks : List Token) :
    dynBitsR final cll nc ll.length items (ll ++ dl) toks =
      [final, false, true] ++ dynHeaderR cll nc ll.length dl.length items ++
        toks.flatMap (tokBitsG (canonCode ll) (canonCode dl)) ++ canonCode ll 256 := by
  simp only [dynBitsR, List.take_left', List.drop_left', List.length_append, Nat.add_sub_cancel_left]

/-- a dynamic-Huffman block whose header uses the repeat codes, header included -/
theorem dynR_body (cont : Bool) {inp : Array Nat} (hwf : ∀ x ∈ inp.toList, x < 256) (wsize fuel pos : Nat)
    (out : Array Nat) (final : Bool) (cll : List Nat) (nc : Nat) (items : List Item) (ll dl : List Nat)
    (toks : List Token) (rr : List Bool) (hok : ∀ t ∈ toks, tokOk t)
    (hcl : clOk cll nc = true) (hit : ∀ it ∈ items, it.ok = true ∧ 1 ≤ cll.getD it.sym 0)
    (hex : expand items = some (ll ++ dl)) (hdyn : dynOk ll dl toks = true)
    (hr : Rest inp pos = dynBitsR final cll nc ll.length items (ll ++ dl) toks ++ rr) :
    blocks cont inp wsize (fuel + 1) pos out =
      match inflTokens wsize (winOf wsize out) toks with
      | none => none
      | some (_, e) => afterBody cont inp wsize fuel final pos
          (dynBitsR final cll nc ll.length items (ll ++ dl) toks).length (out ++ e.reverse.toArray) := by
  obtain ⟨hl1, hl2, hd1, hd2, h15, hkl, hkd, heob, hin⟩ := dynOk_spec ll dl toks hdyn
  obtain ⟨lit, hlit, hlsh⟩ := mkHuff_complete ll false hkl
  obtain ⟨dist, hdist, hdsh⟩ := mkHuff_complete dl false hkd
  have cl := code_canon ll false lit hlit hlsh (by omega) (fun l hl => h15 l (by simp [hl]))
  have cd := code_canon dl false dist hdist hdsh (by omega) (fun l hl => h15 l (by simp [hl]))
  rw [dynBitsR_eq] at hr ⊢
  simp only [List.append_assoc, List.cons_append, List.nil_append] at hr
  have hh := bits_header hwf final false true (r := _) hr
  have hr3 : Rest inp (pos + 3) = dynHeaderR cll nc ll.length dl.length items ++
      (toks.flatMap (tokBitsG (canonCode ll) (canonCode dl)) ++ (canonCode ll 256 ++ rr)) :=
    rest_append (a := [final, false, true]) hr
  have htab := dynamicTables_rle hwf cll nc items ll dl (pos + 3) _ hcl hit hex hl1 hl2 hd1 hd2 heob lit dist
    hlit hdist hr3
  have hr4 := rest_append hr3
  have hfu : toks.length < 8 * inp.size + 1 := by
    have := rest_length inp (pos + 3 + (dynHeaderR cll nc ll.length dl.length items).length)
    rw [hr4] at this
    simp only [List.length_append] at this
    have := toksBitsG_length (dc := canonCode dl) cl toks hin
    omega
  have hsym := symLoopG_toks cl cd hwf wsize toks hok hin heob (8 * inp.size + 1) _ out rr hfu hr4
  rw [blocks, hh]
  simp only [Bool.toNat_true, Bool.toNat_false, Nat.mul_zero, Nat.add_zero, Nat.mul_one]
  have e1 : (final.toNat + 4) / 2 = 2 := by cases final <;> rfl
  have e2 : (final.toNat + 4) % 2 = final.toNat := by cases final <;> rfl
  simp only [e1, e2, if_true, htab, hsym, if_false, Nat.reduceEqDiff]
  have hL : ([final, false, true] ++ dynHeaderR cll nc ll.length dl.length items ++
        toks.flatMap (tokBitsG (canonCode ll) (canonCode dl)) ++ canonCode ll 256).length =
      3 + (dynHeaderR cll nc ll.length dl.length items).length +
      (toks.flatMap (tokBitsG (canonCode ll) (canonCode dl))).length + (canonCode ll 256).length := by
    simp only [List.length_append, List.length_cons, List.length_nil]
  cases inflTokens wsize (winOf wsize out) toks with
  | none => rfl
  | some we =>
    simp only []
    rw [show pos + 3 + (dynHeaderR cll nc ll.length dl.length items).length +
        (toks.flatMap (tokBitsG (canonCode ll) (canonCode dl))).length + (canonCode ll 256).length =
        pos + ([final, false, true] ++ dynHeaderR cll nc ll.length dl.length items ++
          toks.flatMap (tokBitsG (canonCode ll) (canonCode dl)) ++ canonCode ll 256).length by rw [hL]; omega]
    cases final <;> simp [afterBody]

theorem bodyBits_length_pos (off : Nat) (k : Kind) (b : Blk) : 3 ≤ (bodyBits off k b).length := by
  unfold bodyBits
  split
  · split <;> simp [storedBits, fixedBits] <;> (try omega)
  · simp [fixedBits]; (try omega)
  · split <;> simp [dynBits, fixedBits] <;> (try omega)
  · split <;> simp [dynBitsR, fixedBits] <;> (try omega)

theorem blkBits_length_pos (off : Nat) (sb : Kind × Blk) : 3 ≤ (blkBits off sb).length := by
  have := bodyBits_length_pos off sb.1 sb.2
  unfold blkBits
  split <;> simp <;> omega

/-- whatever the kind: one round of `blocks` on a block body is the token model's step -/
theorem any_body (cont : Bool) {inp : Array Nat} (hwf : ∀ x ∈ inp.toList, x < 256) (wsize fuel pos off : Nat)
    (out : Array Nat) (k : Kind) (b : Blk) (rr : List Bool) (hok : ∀ t ∈ b.toks, tokOk t)
    (hp : pos % 8 = off % 8) (hr : Rest inp pos = bodyBits off k b ++ rr) :
    blocks cont inp wsize (fuel + 1) pos out =
      match inflTokens wsize (winOf wsize out) b.toks with
      | none => none
      | some (_, e) =>
        afterBody cont inp wsize fuel b.final pos (bodyBits off k b).length (out ++ e.reverse.toArray) := by
  obtain ⟨final, toks⟩ := b
  simp only at hok ⊢
  have hstored : ∀ (hc : canStore ⟨final, toks⟩ = true) rr',
      Rest inp pos = storedBits off final (toks.map litVal) ++ rr' →
      blocks cont inp wsize (fuel + 1) pos out =
        match inflTokens wsize (winOf wsize out) toks with
        | none => none
        | some (_, e) => afterBody cont inp wsize fuel final pos (storedBits off final (toks.map litVal)).length
            (out ++ e.reverse.toArray) := by
    intro hc rr' hr'
    simp only [Bool.and_eq_true, canStore, decide_eq_true_eq] at hc
    obtain ⟨hall, hlen⟩ := hc
    have hlen' : (toks.map litVal).length ≤ 65535 := by simpa using hlen
    have hdata : ∀ x ∈ toks.map litVal, x < 256 := by
      intro x hx
      simp only [List.mem_map] at hx
      obtain ⟨t, ht, rfl⟩ := hx
      have := hok t ht
      cases t with
      | lit b => simpa [tokOk, DeflEnc.Token.ok, litVal] using this
      | copy d n => simp [litVal]
    have hinf := inflTokens_lits wsize (winOf wsize out) (toks.map litVal) (by rw [winOf_length]; omega)
    rw [lits_of_isLit toks hall] at hinf
    rw [hinf, stored_body cont hwf wsize fuel pos off out final _ rr' hdata hlen' hp hr']
    simp
  unfold bodyBits at hr ⊢
  cases k with
  | stored =>
    simp only at hr ⊢
    by_cases hc : canStore ⟨final, toks⟩ = true
    · simp only [hc, if_true] at hr ⊢
      exact hstored hc rr hr
    · simp only [hc, if_false, Bool.false_eq_true] at hr ⊢
      exact fixed_body cont hwf wsize fuel pos out final toks rr hok hr
  | fixed =>
    simp only at hr ⊢
    exact fixed_body cont hwf wsize fuel pos out final toks rr hok hr
  | dyn ll dl =>
    simp only at hr ⊢
    by_cases hc : dynOk ll dl toks = true
    · simp only [hc, if_true] at hr ⊢
      exact dyn_body cont hwf wsize fuel pos out final ll dl toks rr hok hc hr
    · simp only [hc, if_false, Bool.false_eq_true] at hr ⊢
      exact fixed_body cont hwf wsize fuel pos out final toks rr hok hr
  | dynRle cll nc nl items =>
    simp only at hr ⊢
    by_cases hc : rleOk cll nc nl items toks = true
    · simp only [hc, if_true] at hr ⊢
      obtain ⟨ll, dl, hex, hnl, hcl, hit, hdyn⟩ := rleOk_spec cll nc nl items toks hc
      subst hnl
      rw [hex] at hr ⊢
      simp only [Option.getD_some] at hr ⊢
      exact dynR_body cont hwf wsize fuel pos out final cll nc items ll dl toks rr hok hcl hit hex hdyn hr
    · simp only [hc, if_false, Bool.false_eq_true] at hr ⊢
      exact fixed_body cont hwf wsize fuel pos out final toks rr hok hr

/-- **one block of the encoder** (stored, fixed- or dynamic-Huffman, final or not, at any bit
    offset), whatever follows it: one round of `blocks` is the token model's step -/
theorem blocks_blk (cont : Bool) {inp : Array Nat} (hwf : ∀ x ∈ inp.toList, x < 256) (wsize fuel pos off : Nat)
    (out : Array Nat) (sb : Kind × Blk) (r : List Bool) (hok : ∀ t ∈ sb.2.toks, tokOk t)
    (hp : pos % 8 = off % 8) (h : Rest inp pos = blkBits off sb ++ r) :
    blocks cont inp wsize (fuel + 1) pos out =
      match inflTokens wsize (winOf wsize out) sb.2.toks with
      | none => none
      | some (_, e) =>
        afterBlk cont inp wsize fuel sb.2.final (pos + (blkBits off sb).length) (out ++ e.reverse.toArray) := by
  obtain ⟨k, b⟩ := sb
  simp only at hok ⊢
  unfold blkBits at h ⊢
  simp only at h ⊢
  cases hfin : b.final with
  | false =>
    simp only [hfin, Bool.false_eq_true, if_false] at h ⊢
    rw [any_body cont hwf wsize fuel pos off out k b r hok hp h]
    cases inflTokens wsize (winOf wsize out) b.toks with
    | none => rfl
    | some we => simp [afterBody, afterBlk, hfin]
  | true =>
    simp only [hfin, if_true] at h ⊢
    rw [List.append_assoc] at h
    rw [any_body cont hwf wsize fuel pos off out k b _ hok hp h]
    cases inflTokens wsize (winOf wsize out) b.toks with
    | none => rfl
    | some we =>
      simp only [afterBody, afterBlk, hfin, if_true, List.length_append, pad_length]
      have : (pos + (bodyBits off k b).length + 7) / 8 * 8
          = pos + ((bodyBits off k b).length + (8 - (off + (bodyBits off k b).length) % 8) % 8) := by omega
      rw [this]

/-! ### sequences of blocks -/

theorem blkBits_off_congr (a b : Nat) (h : a % 8 = b % 8) (sb : Kind × Blk) : blkBits a sb = blkBits b sb := by
  have hs : ∀ f d, storedBits a f d = storedBits b f d := by
    intro f d
    simp only [storedBits]
    rw [pad_congr (a + 3) (b + 3) (by omega)]
  have hb : bodyBits a sb.1 sb.2 = bodyBits b sb.1 sb.2 := by
    unfold bodyBits
    simp only [hs]
  unfold blkBits
  rw [hb]
  split
  · congr 1
    apply pad_congr
    omega
  · rfl

theorem blocksBits_off_congr (l : List (Kind × Blk)) (a b : Nat) (h : a % 8 = b % 8) :
    blocksBits a l = blocksBits b l := by
  induction l generalizing a b with
  | nil => rfl
  | cons sb l ih =>
    simp only [blocksBits]
    rw [blkBits_off_congr a b h sb, ih (a + (blkBits b sb).length) (b + (blkBits b sb).length) (by omega)]

theorem blocksBits_append (off : Nat) (a b : List (Kind × Blk)) :
    blocksBits off (a ++ b) = blocksBits off a ++ blocksBits (off + (blocksBits off a).length) b := by
  induction a generalizing off with
  | nil => simp [blocksBits]
  | cons sb a ih =>
    simp only [List.cons_append, blocksBits, ih, List.append_assoc, List.length_append, Nat.add_assoc]

theorem blocksBits_length (off : Nat) (l : List (Kind × Blk)) : 3 * l.length ≤ (blocksBits off l).length := by
  induction l generalizing off with
  | nil => simp [blocksBits]
  | cons sb l ih =>
    have := blkBits_length_pos off sb
    have := ih (off + (blkBits off sb).length)
    simp only [blocksBits, List.length_append, List.length_cons]
    omega

/-- **every block in turn, the window carried across BFINAL=1 blocks** (the repaired code's
    inflater): on a sequence of encoder blocks up to the end of the input, `blocks true` is the
    token model's `inflBlocksAll` -/
theorem blocks_all {inp : Array Nat} (hwf : ∀ x ∈ inp.toList, x < 256) (wsize : Nat) (kbs : List (Kind × Blk))
    (hok : ∀ sb ∈ kbs, ∀ t ∈ sb.2.toks, tokOk t) (fuel pos off : Nat) (out : Array Nat)
    (hf : kbs.length < fuel) (hp : pos % 8 = off % 8) (h : Rest inp pos = blocksBits off kbs) :
    blocks true inp wsize fuel pos out =
      (inflBlocksAll wsize (winOf wsize out) (kbs.map (·.2))).map (fun we => out ++ we.2.reverse.toArray) := by
  induction kbs generalizing fuel pos off out with
  | nil =>
    obtain ⟨fuel, rfl⟩ : ∃ f, fuel = f + 1 := ⟨fuel - 1, by simp at hf; omega⟩
    simp only [blocksBits] at h
    rw [blocks, bits_eoi h]
    simp [inflBlocksAll]
  | cons sb kbs ih =>
    obtain ⟨fuel, rfl⟩ : ∃ f, fuel = f + 1 := ⟨fuel - 1, by simp at hf; omega⟩
    simp only [blocksBits] at h
    rw [blocks_blk true hwf wsize fuel pos off out sb _ (hok sb (by simp)) hp h]
    simp only [List.map_cons, inflBlocksAll]
    cases hinf : inflTokens wsize (winOf wsize out) sb.2.toks with
    | none => rfl
    | some we =>
      obtain ⟨w', e⟩ := we
      have hw := inflTokens_win wsize _ out w' e hinf
      have hafter : ∀ p o, afterBlk true inp wsize fuel sb.2.final p o = blocks true inp wsize fuel p o := by
        intro p o; simp [afterBlk]
      simp only [hafter]
      rw [ih (fun sb' h' => hok sb' (by simp [h'])) fuel _ (off + (blkBits off sb).length) _
        (by simp at hf; omega) (by omega) (rest_append h), ← hw]
      cases inflBlocksAll wsize w' (kbs.map (·.2)) with
      | none => rfl
      | some we' =>
        simp only [Option.map_some, Option.some.injEq]
        apply Array.toList_inj.mp; simp

/-- **zlib's object** (stops at the first BFINAL=1 block): `blocks false` is `inflBlocks` -/
theorem blocks_first {inp : Array Nat} (hwf : ∀ x ∈ inp.toList, x < 256) (wsize : Nat) (kbs : List (Kind × Blk))
    (hok : ∀ sb ∈ kbs, ∀ t ∈ sb.2.toks, tokOk t) (fuel pos off : Nat) (out : Array Nat)
    (hf : kbs.length < fuel) (hp : pos % 8 = off % 8) (h : Rest inp pos = blocksBits off kbs) :
    blocks false inp wsize fuel pos out =
      (inflBlocks wsize (winOf wsize out) (kbs.map (·.2))).map (fun r => out ++ r.2.1.reverse.toArray) := by
  induction kbs generalizing fuel pos off out with
  | nil =>
    obtain ⟨fuel, rfl⟩ : ∃ f, fuel = f + 1 := ⟨fuel - 1, by simp at hf; omega⟩
    simp only [blocksBits] at h
    rw [blocks, bits_eoi h]
    simp [inflBlocks]
  | cons sb kbs ih =>
    obtain ⟨fuel, rfl⟩ : ∃ f, fuel = f + 1 := ⟨fuel - 1, by simp at hf; omega⟩
    simp only [blocksBits] at h
    rw [blocks_blk false hwf wsize fuel pos off out sb _ (hok sb (by simp)) hp h]
    simp only [List.map_cons, inflBlocks]
    cases hinf : inflTokens wsize (winOf wsize out) sb.2.toks with
    | none => rfl
    | some we =>
      obtain ⟨w', e⟩ := we
      have hw := inflTokens_win wsize _ out w' e hinf
      simp only []
      cases hfin : sb.2.final with
      | true => simp [afterBlk]
      | false =>
        simp only [afterBlk, Bool.false_eq_true, if_false]
        rw [ih (fun sb' h' => hok sb' (by simp [h'])) fuel _ (off + (blkBits off sb).length) _
          (by simp at hf; omega) (by omega) (rest_append h), ← hw]
        cases inflBlocks wsize w' (kbs.map (·.2)) with
        | none => rfl
        | some we' =>
          simp only [Option.map_some, Option.some.injEq]
          apply Array.toList_inj.mp; simp

/-! ### messages and histories -/

/-- the blocks of a message with the way each is written, followed by the sync-flush block
    (always a stored block) -/
def annot (kind : Blk → Kind) (m : List Blk) : List (Kind × Blk) :=
  m.map (fun b => (kind b, b)) ++ [(.stored, tailBlk)]

theorem annot_blocks (kind : Blk → Kind) (m : List Blk) : (annot kind m).map (·.2) = unstrip m := by
  simp [annot, unstrip, List.map_map, Function.comp_def]

theorem tail_bits (off : Nat) : blkBits off (.stored, tailBlk) = tailHead off ++ bitsOf Core.TAIL := by
  have : bitsOf Core.TAIL = bitsLE 16 0 ++ bitsLE 16 65535 := by decide
  rw [this]
  simp [blkBits, bodyBits, tailBlk, canStore, storedBits, tailHead, isLit]

theorem msgBits_length (kind : Blk → Kind) (m : List Blk) : (msgBits kind m).length % 8 = 0 := by
  simp only [msgBits, msgBitsK, tailHead, List.length_append, List.length_cons, List.length_nil, pad_length]
  omega

/-- what the receiver hands to its inflater for one message — payload and tail — is, bit for
    bit, the message's blocks and the sync-flush block -/
theorem msg_bits (kind : Blk → Kind) (m : List Blk) :
    bitsOf (encMsg kind m ++ Core.TAIL) = blocksBits 0 (annot kind m) := by
  rw [bitsOf_append, encMsg, bitsOf_pack _ (msgBits_length kind m), annot, blocksBits_append]
  simp only [blocksBits, List.append_nil, Nat.zero_add, tail_bits, msgBits, msgBitsK, List.append_assoc]

theorem msg_bits_length (kind : Blk → Kind) (m : List Blk) : (blocksBits 0 (annot kind m)).length % 8 = 0 := by
  rw [← msg_bits]
  simp

/-- … and so is a whole history -/
theorem hist_bits (kind : Blk → Kind) (ms : List (List Blk)) :
    bitsOf (Core.encHist (encMsg kind) ms) = blocksBits 0 (ms.flatMap (annot kind)) := by
  induction ms with
  | nil => rfl
  | cons m ms ih =>
    simp only [Core.encHist, List.flatMap_cons] at ih ⊢
    rw [bitsOf_append, msg_bits, ih, blocksBits_append]
    congr 1
    apply blocksBits_off_congr
    have := msg_bits_length kind m
    omega

theorem hist_wf (kind : Blk → Kind) (ms : List (List Blk)) : ∀ x ∈ Core.encHist (encMsg kind) ms, x < 256 := by
  intro x hx
  simp only [Core.encHist, List.mem_flatMap, List.mem_append] at hx
  obtain ⟨m, _, h | h⟩ := hx
  · exact pack_wf _ x h
  · simp [Core.TAIL] at h
    omega

theorem hist_blocks (kind : Blk → Kind) (ms : List (List Blk)) :
    (ms.flatMap (annot kind)).map (·.2) = ms.flatMap unstrip := by
  induction ms with
  | nil => rfl
  | cons m ms ih => simp only [List.flatMap_cons, List.map_append, annot_blocks, ih]

/-- every token of every block can be written by the encoder -/
def HistOk (ms : List (List Blk)) : Prop := ∀ m ∈ ms, ∀ b ∈ m, DeflEnc.Blk.ok b = true

instance (ms : List (List Blk)) : Decidable (HistOk ms) := by unfold HistOk; infer_instance

theorem hist_ok (kind : Blk → Kind) (ms : List (List Blk)) (hok : HistOk ms) :
    ∀ sb ∈ ms.flatMap (annot kind), ∀ t ∈ sb.2.toks, tokOk t := by
  intro sb hsb t ht
  simp only [List.mem_flatMap, annot, List.mem_append, List.mem_map, List.mem_singleton] at hsb
  obtain ⟨m, hm, ⟨b, hb, rfl⟩ | rfl⟩ := hsb
  · have := hok m hm b hb
    simp only [DeflEnc.Blk.ok, List.all_eq_true] at this
    exact this t ht
  · simp [tailBlk] at ht

/-- the set-up shared by both inflaters: the input's bits are the history's blocks, there is
    fuel for all of them -/
theorem hist_setup (kind : Blk → Kind) (ms : List (List Blk)) :
    Rest (Core.encHist (encMsg kind) ms).toArray 0 = blocksBits 0 (ms.flatMap (annot kind)) ∧
    (ms.flatMap (annot kind)).length < 8 * (Core.encHist (encMsg kind) ms).toArray.size + 1 := by
  have h1 : Rest (Core.encHist (encMsg kind) ms).toArray 0 = blocksBits 0 (ms.flatMap (annot kind)) := by
    simp [Rest, hist_bits]
  refine ⟨h1, ?_⟩
  have := rest_length (Core.encHist (encMsg kind) ms).toArray 0
  rw [h1] at this
  have := blocksBits_length 0 (ms.flatMap (annot kind))
  omega

/-- **`inflateAllSafe` is correct on every history written by the encoder**: any messages, any
    blocks (stored / fixed / dynamic Huffman as `kind` chooses, BFINAL anywhere), valid or invalid
    distances — the bytes `enc m₁ ++ tail ++ enc m₂ ++ tail …` inflate to what the token model
    says (`none` exactly when it says so). -/
theorem agreesSafe_enc (kind : Blk → Kind) (wbits : Nat) (ms : List (List Blk)) (hok : HistOk ms) :
    Core.AgreesSafe inflateAllSafe wbits (encMsg kind) ms := by
  obtain ⟨h1, h2⟩ := hist_setup kind ms
  have := blocks_all (inp := (Core.encHist (encMsg kind) ms).toArray) (by simpa using hist_wf kind ms) (2 ^ wbits)
    _ (hist_ok kind ms hok) _ 0 0 #[] h2 rfl h1
  simp only [Core.AgreesSafe, inflateAllSafe, Core.tokenOutSafe]
  rw [this, hist_blocks]
  have hw : winOf (2 ^ wbits) #[] = [] := by simp [winOf]
  rw [hw]
  cases inflBlocksAll (2 ^ wbits) [] (ms.flatMap unstrip) with
  | none => rfl
  | some we => simp

/-- **`inflateAll` (zlib's object) is correct on every history written by the encoder**, in the
    sense of the pinned code: it stops at the first BFINAL=1 block, as `inflBlocks` does. -/
theorem agrees_enc (kind : Blk → Kind) (wbits : Nat) (ms : List (List Blk)) (hok : HistOk ms) :
    Core.Agrees inflateAll wbits (encMsg kind) ms := by
  obtain ⟨h1, h2⟩ := hist_setup kind ms
  have := blocks_first (inp := (Core.encHist (encMsg kind) ms).toArray) (by simpa using hist_wf kind ms) (2 ^ wbits)
    _ (hist_ok kind ms hok) _ 0 0 #[] h2 rfl h1
  simp only [Core.Agrees, inflateAll, Core.tokenOut]
  rw [this, hist_blocks]
  have hw : winOf (2 ^ wbits) #[] = [] := by simp [winOf]
  rw [hw]
  cases inflBlocks (2 ^ wbits) [] (ms.flatMap unstrip) with
  | none => rfl
  | some we => simp

/-! ### block structure is transparent in the token model -/

theorem inflTokens_append (w : Nat) (win : Bytes) (a b : List Token) :
    inflTokens w win (a ++ b) =
      match inflTokens w win a with
      | none => none
      | some (w', e) =>
        match inflTokens w w' b with
        | none => none
        | some (w'', e') => some (w'', e' ++ e) := by
  induction a generalizing win with
  | nil =>
    simp only [List.nil_append, inflTokens]
    cases inflTokens w win b with
    | none => rfl
    | some r => obtain ⟨w'', e'⟩ := r; simp
  | cons t ts ih =>
    simp only [List.cons_append, inflTokens]
    cases tokOut w win t with
    | none => rfl
    | some e1 =>
      simp only
      rw [ih]
      cases inflTokens w ((e1 ++ win).take w) ts with
      | none => rfl
      | some r1 =>
        obtain ⟨w2, e2⟩ := r1
        simp only
        cases inflTokens w w2 b with
        | none => rfl
        | some r2 => obtain ⟨w3, e3⟩ := r2; simp [List.append_assoc]

/-- all blocks of a message in turn = its tokens in one go -/
theorem inflBlocksAll_flat (w : Nat) (win : Bytes) (bs : List Blk) :
    inflBlocksAll w win bs = inflTokens w win (bs.flatMap (·.toks)) := by
  induction bs generalizing win with
  | nil => rfl
  | cons b bs ih =>
    simp only [inflBlocksAll, List.flatMap_cons, inflTokens_append]
    cases inflTokens w win b.toks with
    | none => rfl
    | some r =>
      obtain ⟨w1, e1⟩ := r
      simp only [ih]
      cases inflTokens w w1 (bs.flatMap (·.toks)) with
      | none => rfl
      | some r2 => rfl

theorem rfc_flat (w : Nat) (reset : Bool) (win : Bytes) (bs : List (List Blk)) :
    rfcOutputs w reset win bs = receiverOutputs w reset win (bs.map fun m => m.flatMap (·.toks)) := by
  induction bs generalizing win with
  | nil => rfl
  | cons m bs ih =>
    simp only [List.map_cons, rfcOutputs, receiverOutputs, inflBlocksAll_flat]
    have : (unstrip m).flatMap (·.toks) = m.flatMap (·.toks) := by simp [unstrip, tailBlk]
    rw [this]
    cases inflTokens w win (m.flatMap (·.toks)) with
    | none => rfl
    | some r =>
      obtain ⟨w1, e1⟩ := r
      simp only
      cases reset <;> simp [ih]

theorem histOk_take (ms : List (List Blk)) (h : HistOk ms) (k : Nat) : HistOk (ms.take k) :=
  fun m hm => h m (List.mem_of_mem_take hm)

theorem histOk_single (ms : List (List Blk)) (h : HistOk ms) (m : List Blk) (hm : m ∈ ms) : HistOk [m] := by
  intro m' hm'
  simp only [List.mem_singleton] at hm'
  subst hm'
  exact h m' hm

end Lomond.Inflate
