/-
  Helper lemmas for the second round of end-to-end theorems of C04 / C05
  (Properties/C04_E2E2.lean, Properties/C05_E2E2.lean).

  * the handshake read for a reply that negotiates permessage-deflate or not (`GoodReplyG`,
    `AtReadyG`, `feed_reply_g`, `run_start_g`, `bridge_g`; at the end of the file `run_violation_g`):
    Proofs/EndToEnd.lean has it for `deflate = none` only; `IdleG`, `feed_items_G`: a conforming
    (uncompressed) prefix with the extension switched on or off;
  * header-only promptness of the parser (`HdrTail`, `header_prompt`, `parserMsg_iff_spec`);
  * the text-message machinery of Proofs/EndToEndText.lean without the hypothesis "no extension
    negotiated" (`ValMode`, `OpenG`, `CutStateG`, `feed_cut_g`, `cut_bad_g`, `cut_partial_bad_g`,
    `cut_build_bad_g`, `feed_open_g`): with the repaired per-message choice (`perMsgValidate`,
    finding D9) an RSV1 = 0 text message is validated incrementally also when permessage-deflate is
    negotiated;
  * an arbitrary application after a violation (namespace `AnyApp`): `ReactSeg` (what the application's
    calls and the timer events add to the trace), `PingOK` / `pingOK_feedBody` (no automatic Ping is due
    inside `WebSocket.feed`), `feedHandler_any_app`, `TailV`, and the whole-run theorem `runAll_trace2`
    (same structure as `runAll_trace` in Proofs/Violation.lean);
  * one frame through the lazy loop (`feedLoop_one_frame`); a stream consumed normally and then the
    end of the stream (`run_ok_eof`), used for "text message FOLLOWED by further items";
  * one compressed text message in any fragmentation (`ZMsg`, `zframe_step`, `onOut_zfin`,
    `zcont_feed`, `feed_zmsg`, outcome `ZOutcome`).
-/
import Lomond.Proofs.EndToEndText
import Lomond.Proofs.Quiet
import Lomond.Proofs.SegmentationLoop
import Lomond.Proofs.LiftX
import Lomond.Proofs.DeflateCore
set_option linter.unusedSimpArgs false
set_option linter.unusedVariables false
namespace Lomond.Core.E2E
open Lomond Lomond.Core

/-! ### the handshake read, extension negotiated or not -/

/-- an upgrade reply that `on_response` accepts, negotiating permessage-deflate with the
    configuration `dz` (`none`: no extension): the block ends with its first CRLF CRLF and fits the
    16 KiB limit -/
structure GoodReplyG (cfg : Cfg) (reply : Bytes) (proto : Option Http.Str) (dz : Option Http.DeflateCfg) : Prop where
  sep : ∃ i, findSep Gen.headerSep reply = some i ∧ i + 4 = reply.length
  len : reply.length ≤ Gen.headerMax
  ok : Http.onResponse cfg.v.strictAccept cfg.challenge (Http.parseResponse reply)
        = .ok { protocol := proto, deflate := dz }

theorem GoodReply.toG {cfg : Cfg} {reply : Bytes} {proto : Option Http.Str} (h : GoodReply cfg reply proto) :
    GoodReplyG cfg reply proto none := ⟨h.sep, h.len, h.ok⟩

/-- the state after the handshake: Ready and the first Poll yielded, parser at the first frame
    boundary, the extension switched on exactly when negotiated, inflate context empty -/
structure AtReadyG (cfg : Cfg) (react : React) (proxy : Bool) (proto : Option Http.Str)
    (dz : Option Http.DeflateCfg) (s : Sys) : Prop where
  i : I s
  cfg : s.cfg = cfg
  react : s.react = react
  ready : s.ready = true
  closed : s.closed = false
  closing : s.closing = false
  sock : s.sockOpen = true
  sel : s.selOpen = true
  frames : s.frames = []
  between : Between s.p
  comp : s.p.compression = dz.isSome
  pic : s.p.isCompressed = false
  zcfg : s.compression = dz
  zdec : s.decompress = dz.isSome
  zhist : s.inflHist = []
  zout : s.inflOut = 0
  hist : hist s.trace = [.poll, .ready proto dz.isSome, .connected proxy, .connecting]

/-- **the handshake read**, extension negotiated or not -/
theorem feed_reply_g {cfg : Cfg} {react : React} {env : List EnvStep} {proxy : Bool} {sA : Sys}
    (hA : AtLoop cfg react env proxy sA) {reply : Bytes} {proto : Option Http.Str} {dz : Option Http.DeflateCfg}
    (hg : GoodReplyG cfg reply proto dz) (hfresh : sA.inflHist = [] ∧ sA.inflOut = 0) :
    ∃ s4, AtReadyG cfg react proxy proto dz s4 ∧ ∀ stream, wsFeed (reply ++ stream) sA = wsFeed stream s4 := by
  obtain ⟨i, hsep, hil⟩ := hg.sep
  have hc : sA.p.cont = .header := by rw [hA.p]
  have hbuf : sA.p.buf = [] := by rw [hA.p]
  -- the state in which Ready is yielded
  let pz : PState := if dz.isSome then { (headerDone sA).p with compression := true } else (headerDone sA).p
  let s1 : Sys := { headerDone sA with compression := dz, decompress := dz.isSome, p := pz }
  have i1 : I s1 := ⟨hA.i.app, hA.i.poll, hA.i.sock, hA.i.nr, hA.i.rd⟩
  obtain ⟨s3, h3, i3, r3, hh3, c3, re3, so3, se3, cl3, cg3, p3, f3⟩ :=
    feedYield_ready true proto dz.isSome s1 i1 hA.ready
  have q3 : Quiet s1 s3 := (quiet_feedYield true (.ready proto dz.isSome)).ok h3
  let s4 : Sys := { s3 with parsedResponse := true }
  have hok : Http.onResponse (headerDone sA).cfg.v.strictAccept (headerDone sA).cfg.challenge (Http.parseResponse reply)
      = .ok { protocol := proto, deflate := dz } := by
    show Http.onResponse sA.cfg.v.strictAccept sA.cfg.challenge _ = _
    rw [hA.cfg]; exact hg.ok
  have hout : onOut (.header reply) (headerDone sA) = .ok true s4 := by
    unfold onOut
    simp only [bind, M.bind, getS, hok, modS]
    have e1 : feedYield true (.ready proto dz.isSome) s1 = .ok () s3 := h3
    rw [e1]
    simp only [notClosed]
    have hb : (!s3.closed) = true := by rw [cl3.trans hA.closed]; rfl
    exact congrArg (fun b => Res.ok b s4) hb
  have hp1 : s1.p = { cont := .hdr2, remPred := 1, utf8 := false, buf := [], compression := dz.isSome } := by
    show (if dz.isSome then { (headerDone sA).p with compression := true } else (headerDone sA).p) = _
    have e0 : (headerDone sA).p = { cont := .hdr2, remPred := 1, utf8 := false, buf := [] } := by
      show ({ sA.p with cont := .hdr2, remPred := 1, utf8 := false, buf := [] } : PState) = _
      rw [hA.p]
    rw [e0]
    cases dz <;> rfl
  have hp4 : s4.p = { cont := .hdr2, remPred := 1, utf8 := false, buf := [], compression := dz.isSome } := by
    show s3.p = _
    rw [p3, hp1]
  refine ⟨s4, ⟨⟨i3.app, i3.poll, i3.sock, i3.nr, i3.rd⟩, c3.trans hA.cfg, re3.trans hA.react, r3, cl3.trans hA.closed,
    cg3.trans hA.closing, so3.trans hA.sock, se3.trans hA.sel, f3.trans hA.frames, ?_, ?_, ?_, ?_, ?_, ?_, ?_, ?_⟩, ?_⟩
  · rw [hp4]; exact ⟨⟨rfl, rfl, rfl, rfl⟩, rfl, rfl⟩
  · rw [hp4]
  · rw [hp4]
  · show s3.compression = dz
    rw [q3.comp]
  · show s3.decompress = dz.isSome
    rw [q3.dec]
  · show s3.inflHist = []
    rw [q3.hist]; exact hfresh.1
  · show s3.inflOut = 0
    rw [q3.out]; exact hfresh.2
  · show hist s3.trace = _
    rw [hh3]
    show _ :: _ :: hist sA.trace = _
    rw [hA.hist]
  · intro stream
    have hsome : findSep Gen.headerSep (sA.p.buf ++ (reply ++ stream)) = some i := by
      rw [hbuf, List.nil_append]
      exact Proxy.findSep_append _ _ _ _ hsep
    have hlen : i + 4 ≤ Gen.headerMax := by rw [hil]; exact hg.len
    have hfb := feedBody_terminated_ok sA (reply ++ stream) i hc hsome hlen
    have et : (sA.p.buf ++ (reply ++ stream)).take (i + 4) = reply := by
      rw [hbuf, List.nil_append, hil]; exact List.take_left' rfl
    have ed : (sA.p.buf ++ (reply ++ stream)).drop (i + 4) = stream := by
      rw [hbuf, List.nil_append, hil]; exact List.drop_left' rfl
    rw [et, ed, bind_ok hout] at hfb
    simp only [if_true] at hfb
    rw [feedLoop_unit] at hfb
    have hnh : s4.p.cont ≠ .header := by rw [hp4]; simp
    have hcl4 : s4.closed = false := cl3.trans hA.closed
    rw [wsFeed_eq, wsFeed_eq stream s4]
    simp only [hA.closed, hcl4, Bool.false_eq_true, if_false]
    rw [hfb, feedBody_frames _ _ hnh]
    cases feedLoop stream s4 <;> rfl

/-- `run()` before the loop (as `run_start`), with the inflate context still empty -/
theorem run_start_g (cfg : Cfg) (react : React) (env : List EnvStep) (proxy : Bool)
    (hc : cfg.connect = .ok proxy) (hw : cfg.writeFails 0 = false) (hp : 0 < cfg.poll) (ha : SendOnly react) :
    ∃ sA, AtLoop cfg react env proxy sA ∧ (sA.inflHist = [] ∧ sA.inflOut = 0) ∧
      run { cfg := cfg, react := react, env := env } = tryC (do runBody env; selClose) runFinally sA := by
  let s0 : Sys := { cfg := cfg, react := react, env := env }
  obtain ⟨s1, h1, k1⟩ := yieldEv_send .connecting s0 ha
  have q1 : Quiet s0 s1 := (quiet_yieldEv .connecting).ok h1
  have hcc : s1.cfg.connect = .ok proxy := by rw [k1.cfg]; exact hc
  have hso1 : s1.sockOpen = false := k1.sockOpen
  let s2 : Sys := { s1 with sockOpen := true }
  have hwc : s2.cfg.writeFails s2.writeCtr = false := by
    show s1.cfg.writeFails s1.writeCtr = false
    rw [k1.cfg, k1.wctr rfl]; exact hw
  have hwr := write_ok_open s2.cfg.request s2 rfl k1.closed k1.closing hwc
  let s3 : Sys := { s2 with writeCtr := s2.writeCtr + 1, trace := .wr s2.cfg.request :: s2.trace }
  have ha3 : SendOnly s3.react := by show SendOnly s1.react; rw [k1.react]; exact ha
  obtain ⟨s4, h4, k4⟩ := yieldEv_send (.connected proxy) s3 ha3
  have q4 : Quiet s3 s4 := (quiet_yieldEv (.connected proxy)).ok h4
  have hyc : yieldConnected proxy s3 = .ok () s4 := by
    unfold yieldConnected
    rw [bind_ok (show getS s3 = .ok s3 s3 from rfl)]
    split
    · exact tryC_ok h4
    · exact h4
  let sA : Sys := { s4 with selOpen := true }
  have henv : sA.env = env := by show s4.env = env; rw [k4.env]; show s1.env = env; rw [k1.env]; rfl
  refine ⟨sA, ?_, ?_, ?_⟩
  · have hr : sA.ready = false := by show s4.ready = false; rw [k4.ready]; show s1.ready = false; rw [k1.ready]; rfl
    have hst : sA.startTime = none := by show s4.startTime = none; rw [k4.startTime]; show s1.startTime = none; rw [k1.startTime]; rfl
    have hps : sA.pollStart = none := by show s4.pollStart = none; rw [k4.pollStart]; show s1.pollStart = none; rw [k1.pollStart]; rfl
    have hre : sA.react = react := by show s4.react = react; rw [k4.react]; show s1.react = react; rw [k1.react]; rfl
    have hcf : sA.cfg = cfg := by show s4.cfg = cfg; rw [k4.cfg]; show s1.cfg = cfg; rw [k1.cfg]; rfl
    have hsk : sA.sockOpen = true := by show s4.sockOpen = true; rw [k4.sockOpen]; rfl
    refine ⟨⟨by rw [hre]; exact ha, by rw [hcf]; exact hp, Or.inl hsk, fun _ => ⟨hst, hps⟩,
      fun h => by rw [hr] at h; cases h⟩, hcf, hre, henv, hr, ?_, ?_, hsk, rfl, ?_, ?_, ?_⟩
    · show s4.closed = false; rw [k4.closed]; show s1.closed = false; rw [k1.closed]; rfl
    · show s4.closing = false; rw [k4.closing]; show s1.closing = false; rw [k1.closing]; rfl
    · show s4.p = {}; rw [k4.p]; show s1.p = {}; rw [k1.p]; rfl
    · show s4.frames = []; rw [k4.frames]; show s1.frames = []; rw [k1.frames]; rfl
    · show hist s4.trace = _
      rw [hist_keep k4]
      show hist (.ev (.connected proxy) :: .wr s2.cfg.request :: s1.trace) = _
      rw [hist_cons_ev, hist_cons_nonEv _ _ rfl, hist_keep k1]
      rfl
  · constructor
    · show s4.inflHist = []; rw [q4.hist]; show s1.inflHist = []; rw [q1.hist]
    · show s4.inflOut = 0; rw [q4.out]; show s1.inflOut = 0; rw [q1.out]
  · show run s0 = _
    unfold run
    rw [bind_ok h1, bind_ok (show getS s1 = .ok s1 s1 from rfl)]
    simp only [hcc]
    unfold afterConnect
    rw [bind_ok (show modS (fun s => { s with sockOpen := true }) s1 = .ok () s2 from rfl),
      bind_ok (show getS s2 = .ok s2 s2 from rfl), bind_ok hwr]
    have hwe : wsError ActRes.ok = false := by decide
    simp only [hwe, Bool.false_eq_true, if_false]
    rw [bind_ok hyc, bind_ok (show modS (fun s => { s with selOpen := true }) s4 = .ok () sA from rfl)]
    unfold runLoop
    rw [bind_ok (show getS sA = .ok sA sA from rfl), henv]

/-- **Bridge**, extension negotiated or not (cf. `bridge`) -/
theorem bridge_g {cfg : Cfg} {react : React} {proxy : Bool} (hs : Setup cfg react proxy)
    {reply : Bytes} {proto : Option Http.Str} {dz : Option Http.DeflateCfg} (hg : GoodReplyG cfg reply proto dz)
    (chunks : List Bytes) (stream : Bytes) (rest : List EnvStep)
    (hne : ∀ c ∈ chunks, c ≠ []) (hflat : chunks.flatten = reply ++ stream) :
    ∃ sA s4, AtReadyG cfg react proxy proto dz s4 ∧
      run { cfg := cfg, react := react, env := reads chunks ++ rest }
        = tryC (do runBody (reads chunks ++ rest); selClose) runFinally sA ∧
      loop (reads chunks ++ rest) sA =
        match wsFeed stream s4 with
        | .ok _ s' => loop rest s'
        | .err y s' => .err y s' := by
  obtain ⟨sA, hA, hfresh, hrun⟩ := run_start_g cfg react (reads chunks ++ rest) proxy hs.conn hs.req hs.poll hs.app
  obtain ⟨s4, h4, hfeed⟩ := feed_reply_g hA hg hfresh
  refine ⟨sA, s4, h4, hrun, ?_⟩
  rw [loop_reads_flat chunks hne rest sA hA.i (hdrInv_fresh sA hA.p), hflat, hfeed stream]
  cases wsFeed stream s4 <;> rfl

/-! ### a conforming prefix after the handshake, extension negotiated or not -/

/-- an open, not-closing websocket between two messages in an `I` state; `c` = the parser's
    `_compression` switch -/
structure IdleG (cfg : Cfg) (react : React) (c : Bool) (s : Sys) : Prop where
  i : I s
  ready : s.ready = true
  hcfg : s.cfg = cfg
  hreact : s.react = react
  closed : s.closed = false
  closing : s.closing = false
  frames : s.frames = []
  between : Between s.p
  comp : s.p.compression = c

theorem AtReadyG.idle {cfg : Cfg} {react : React} {proxy : Bool} {proto : Option Http.Str}
    {dz : Option Http.DeflateCfg} {s : Sys}
    (h : AtReadyG cfg react proxy proto dz s) : IdleG cfg react dz.isSome s :=
  ⟨h.i, h.ready, h.cfg, h.react, h.closed, h.closing, h.frames, h.between, h.comp⟩

theorem IdleG.toIdle {cfg : Cfg} {react : React} {s : Sys} (h : IdleG cfg react false s) : Idle cfg react s :=
  ⟨h.i, h.ready, h.hcfg, h.hreact, h.closed, h.closing, h.frames, h.between, h.comp⟩

theorem Idle.toG {cfg : Cfg} {react : React} {s : Sys} (h : Idle cfg react s) : IdleG cfg react false s :=
  ⟨h.i, h.ready, h.hcfg, h.hreact, h.closed, h.closing, h.frames, h.between, h.comp⟩

/-- the state after a conforming prefix: idle again, all events accounted for, the inflate context
    untouched (the prefix is sent uncompressed) -/
structure AfterItemsG (cfg : Cfg) (react : React) (c : Bool) (s4 sp : Sys) (evs : List Event) : Prop where
  idle : IdleG cfg react c sp
  hist : hist sp.trace = evs.reverse ++ hist s4.trace

/-- C01's `feed_items` from an idle state (cf. `feed_items_I`), extension negotiated or not: the
    items are uncompressed (RSV1 = 0) messages and control frames -/
theorem feed_items_G {cfg : Cfg} {react : React} {c : Bool} {s4 : Sys}
    (h4 : IdleG cfg react c s4) (items : List Item) (hok : ∀ it ∈ items, it.Ok) :
    ∃ sp, feedLoop (wireBytes (items.flatMap Item.wire)) s4 = .ok true sp ∧
      AfterItemsG cfg react c s4 sp (items.flatMap Item.events) := by
  obtain ⟨sp, hfl, r, hf, hb⟩ := feed_items items hok s4 h4.i.good h4.closed h4.frames h4.between
  have hnh : s4.p.cont ≠ .header := by rw [h4.between.b.cont]; simp
  obtain ⟨ip, hz⟩ := z_feedLoop _ s4 true sp hfl h4.i
  obtain ⟨rp, l, el, nl⟩ := hz h4.ready
  exact ⟨sp, hfl, ⟨ip, rp, r.cfg.trans h4.hcfg, r.react.trans h4.hreact, r.closed.trans h4.closed,
    r.closing.trans h4.closing, hf, hb, (feedLoop_comp _ s4 true sp hnh hfl).trans h4.comp⟩,
    hist_of_delivered el nl r.evs⟩

end Lomond.Core.E2E

namespace Lomond.Core
open Lomond

/-! ### header-only promptness -/

/-- what follows the two header bytes `b0 b1` before the payload: the extended length (0, 2 or 8
    bytes) and the masking key (0 or 4 bytes); `len` is the announced payload length -/
structure HdrTail (b1 : Nat) (ext key : Bytes) (len : Nat) : Prop where
  short : b1 % 128 < 126 → ext = [] ∧ len = b1 % 128
  ext16 : b1 % 128 = 126 → ext.length = 2 ∧ beVal ext = len
  ext64 : b1 % 128 = 127 → ext.length = 8 ∧ beVal ext = len
  key : key.length = if b1 ≥ 128 then 4 else 0
  /-- the extended forms carry a length that needs them at least as far as the 125 limit goes -/
  real : b1 % 128 ≥ 126 → len > 125
  small : len < 2 ^ 63

/-- the parser waits for the payload of the frame whose header it accepted -/
structure AwaitPayload (p : PState) (f : Frame) (len : Nat) : Prop where
  cont : p.cont = .payload f
  rem : p.remPred = len - 1
  buf : p.buf = []

theorem gotMask_hdr (v : Variant) (hv : v.ctrlLen = true) (pc : PState) (b0 b1 len : Nat) (key : Option Bytes)
    (hlen : b1 % 128 > 125 ↔ len > 125) :
    match parserMsg pc.compression b0 b1 with
    | some msg => gotMask v pc b0 len key = .error (.protocol msg)
    | none => len ≠ 0 → ∃ pP, gotMask v pc b0 len key = .ok (pP, none) ∧ AwaitPayload pP (hdrFrameV b0 key) len := by
  have hvf := validateFrame_spec v hv pc.compression b0 b1 len key hlen
  cases hpm : parserMsg pc.compression b0 b1 with
  | some msg =>
    rw [hpm] at hvf
    simp only [verdictRes] at hvf
    unfold hdrFrameV at hvf
    unfold gotMask
    simp only [hvf]
  | none =>
    rw [hpm] at hvf
    simp only [verdictRes] at hvf
    intro hne
    obtain ⟨pP, e, hc, hr, hb, _, _⟩ := (gotMask_ok v pc b0 len key hvf).1 hne
    exact ⟨pP, e, hc, hr, hb⟩

theorem hdr_gotLength (s : Sys) (hv : s.cfg.v.ctrlLen = true) (pc : PState) (b0 b1 len : Nat) (m : Bool)
    (key rest : Bytes) (hk : key.length = if m then 4 else 0) (hlen : b1 % 128 > 125 ↔ len > 125)
    (hsmall : len < 2 ^ 63) :
    match parserMsg pc.compression b0 b1 with
    | some msg => ∃ p'', afterBite s (gotLength s.cfg.v pc b0 m len) (key ++ rest)
                    = .err (.protocol msg) { s with p := p'' }
    | none => len ≠ 0 → ∃ pP, afterBite s (gotLength s.cfg.v pc b0 m len) (key ++ rest)
                    = feedLoop rest { s with p := pP } ∧
                  AwaitPayload pP (hdrFrameV b0 (if m then some key else none)) len := by
  unfold gotLength
  have : ¬ len > 0x7fffffffffffffff := by omega
  simp only [this, if_false]
  cases m with
  | false =>
    simp only [Bool.false_eq_true, if_false] at hk ⊢
    have hk' : key = [] := List.eq_nil_of_length_eq_zero hk
    subst hk'
    have h := gotMask_hdr s.cfg.v hv pc b0 b1 len none hlen
    cases hpm : parserMsg pc.compression b0 b1 with
    | some msg =>
      rw [hpm] at h
      simp only [] at h ⊢
      rw [h]
      exact ⟨_, rfl⟩
    | none =>
      rw [hpm] at h
      simp only [] at h ⊢
      intro hne
      obtain ⟨pP, e, ha⟩ := h hne
      rw [e]
      exact ⟨pP, rfl, ha⟩
  | true =>
    simp only [if_true] at hk ⊢
    simp only [afterBite]
    generalize hpM : ({ pc with cont := .maskKey b0 len, remPred := 3, utf8 := false, buf := [] } : PState) = pM
    have c1 : pM.cont = .maskKey b0 len := by rw [← hpM]
    have c2 : pM.remPred = 3 := by rw [← hpM]
    have c3 : pM.utf8 = false := by rw [← hpM]
    have c4 : pM.buf = [] := by rw [← hpM]
    have c6 : (clean pM).compression = pc.compression := by rw [← hpM]; rfl
    rw [feedLoop_bite key rest _ (by simp only [hk, c2])]
    rw [biteBytes_plain _ _ _ c3 c4 (by simp only [hk, c2])]
    rw [resume_maskKey _ _ b0 len _ c1]
    have h := gotMask_hdr s.cfg.v hv (clean pM) b0 b1 len (some key) hlen
    rw [c6] at h
    cases hpm : parserMsg pc.compression b0 b1 with
    | some msg =>
      rw [hpm] at h
      simp only [] at h ⊢
      have h' : gotMask ({ s with p := pM } : Sys).cfg.v (clean pM) b0 len (some key) = .error (.protocol msg) := h
      rw [h']
      exact ⟨_, rfl⟩
    | none =>
      rw [hpm] at h
      simp only [] at h ⊢
      intro hne
      obtain ⟨pP, e, ha⟩ := h hne
      have e' : gotMask ({ s with p := pM } : Sys).cfg.v (clean pM) b0 len (some key) = .ok (pP, none) := e
      rw [e']
      exact ⟨pP, rfl, ha⟩

/-- **the parser on a complete frame header and nothing else.**  From a frame boundary, the two
    header bytes, the extended length and the masking key: if the header fields are a violation the
    parser decides alone (`parserMsg`: reserved bits, reserved opcode, fragmented control frame,
    control frame longer than 125 bytes), the error is raised *here* — before any payload byte, whatever
    follows (`rest`) —; otherwise, when a payload is announced, the loop returns normally with the
    parser waiting for the payload: nothing has been raised and nothing yielded. -/
theorem header_prompt (s : Sys) (hv : s.cfg.v.ctrlLen = true) (hs : AwaitHeader s.p) (b0 b1 : Nat)
    (ext key : Bytes) (len : Nat) (ht : HdrTail b1 ext key len) :
    match parserMsg s.p.compression b0 b1 with
    | some msg => ∀ rest, ∃ p'', feedLoop ([b0, b1] ++ (ext ++ (key ++ rest))) s
                    = .err (.protocol msg) { s with p := p'' }
    | none => len ≠ 0 → ∃ pP, feedLoop ([b0, b1] ++ (ext ++ key)) s = .ok true { s with p := pP } ∧
                AwaitPayload pP (hdrFrameV b0 (if decide (b1 ≥ 128) then some key else none)) len := by
  have hk : key.length = if decide (b1 ≥ 128) = true then 4 else 0 := by
    rw [ht.key]; simp only [decide_eq_true_eq]
  -- the walk up to `gotLength`, for any bytes after the key
  have walk : ∀ rest : Bytes, ∃ s' : Sys, ∃ pc : PState, s'.cfg = s.cfg ∧ pc.compression = s.p.compression ∧
      (∀ q, ({ s' with p := q } : Sys) = { s with p := q }) ∧
      feedLoop ([b0, b1] ++ (ext ++ (key ++ rest))) s
        = afterBite s' (gotLength s'.cfg.v pc b0 (decide (b1 ≥ 128)) len) (key ++ rest) := by
    intro rest
    rw [feedLoop_bite [b0, b1] _ s (by simp [hs.rem])]
    rw [biteBytes_plain _ _ _ hs.utf8 hs.buf (by simp [hs.rem])]
    rw [resume_hdr2 _ _ _ _ hs.cont]
    by_cases h126 : b1 % 128 = 126
    · obtain ⟨he, hbe⟩ := ht.ext16 h126
      rw [if_pos h126]
      simp only [afterBite]
      rw [feedLoop_bite ext _ _ (by rw [he]; rfl)]
      rw [biteBytes_plain _ _ _ rfl rfl (by rw [he]; rfl)]
      rw [resume_len16V _ _ b0 _ _ rfl, hbe]
      exact ⟨{ s with p := waitState s.p (.len16 b0 (decide (b1 ≥ 128))) 1 },
        clean (waitState s.p (.len16 b0 (decide (b1 ≥ 128))) 1), rfl, rfl, fun _ => rfl, rfl⟩
    · by_cases h127 : b1 % 128 = 127
      · obtain ⟨he, hbe⟩ := ht.ext64 h127
        rw [if_neg h126, if_pos h127]
        simp only [afterBite]
        rw [feedLoop_bite ext _ _ (by rw [he]; rfl)]
        rw [biteBytes_plain _ _ _ rfl rfl (by rw [he]; rfl)]
        rw [resume_len64V _ _ b0 _ _ rfl, hbe]
        exact ⟨{ s with p := waitState s.p (.len64 b0 (decide (b1 ≥ 128))) 7 },
          clean (waitState s.p (.len64 b0 (decide (b1 ≥ 128))) 7), rfl, rfl, fun _ => rfl, rfl⟩
      · obtain ⟨he, hpl⟩ := ht.short (by omega)
        subst he
        rw [if_neg h126, if_neg h127]
        simp only [List.nil_append]
        rw [← hpl]
        exact ⟨s, clean s.p, rfl, rfl, fun _ => rfl, rfl⟩
  have hlen : b1 % 128 > 125 ↔ len > 125 := by
    constructor
    · intro h; exact ht.real (by omega)
    · intro h
      by_cases h2 : b1 % 128 < 126
      · have := (ht.short h2).2; omega
      · omega
  cases hpm : parserMsg s.p.compression b0 b1 with
  | some msg =>
    simp only []
    intro rest
    obtain ⟨s', pc, hcfg, hcomp, hset, e⟩ := walk rest
    have h := hdr_gotLength s' (by rw [hcfg]; exact hv) pc b0 b1 len (decide (b1 ≥ 128)) key rest hk hlen ht.small
    rw [hcomp, hpm] at h
    obtain ⟨p'', e2⟩ := h
    exact ⟨p'', by rw [e, e2, hset]⟩
  | none =>
    simp only []
    intro hne
    obtain ⟨s', pc, hcfg, hcomp, hset, e⟩ := walk []
    have h := hdr_gotLength s' (by rw [hcfg]; exact hv) pc b0 b1 len (decide (b1 ≥ 128)) key [] hk hlen ht.small
    rw [hcomp, hpm] at h
    obtain ⟨pP, e2, ha⟩ := h hne
    refine ⟨pP, ?_, ha⟩
    rw [List.append_nil] at e e2
    rw [e, e2, feedLoop_nil, hset]

/-- the parser-level classes are exactly the headers that RFC 6455's classification calls a
    violation *whatever the fragmentation state, and not because of the MASK bit* -/
theorem parserMsg_iff_spec (d : Bool) (b0 b1 : Nat) (h0 : b0 < 256) :
    parserMsg d b0 b1 ≠ none ↔ ∀ mid, Spec.headerVerdict d mid b0 (b1 % 128) = .violation := by
  have hlt : b1 % 128 < 256 := by omega
  have hm : parserMsg d b0 (b1 % 128) = parserMsg d b0 b1 := by
    unfold parserMsg; rw [Nat.mod_mod]
  have hpv : parserViol d b0 (b1 % 128) ↔ parserMsg d b0 b1 ≠ none := by
    rw [parserViol_iff, hm]
    constructor
    · rintro (h | h)
      · exact h
      · omega
    · intro h; exact Or.inl h
  constructor
  · intro h mid
    exact (headerVerdict_iff d mid b0 _ h0 hlt).mpr (Or.inl (hpv.mpr h))
  · intro h
    rcases (headerVerdict_iff d false b0 _ h0 hlt).mp (h false) with h1 | h1
    · exact hpv.mp h1
    · rcases (headerVerdict_iff d true b0 _ h0 hlt).mp (h true) with h2 | h2
      · exact hpv.mp h2
      · exfalso
        unfold fragViol at h1 h2
        rcases h1 with ⟨a, _⟩ | ⟨_, a⟩
        · rcases h2 with ⟨_, b⟩ | ⟨b, _⟩
          · cases b
          · omega
        · cases a

end Lomond.Core

namespace Lomond.Core.E2E
open Lomond Lomond.Core

/-! ### an RSV1 = 0 text message, extension negotiated or not (cf. Proofs/EndToEndText.lean) -/

/-- uncompressed text is validated incrementally in this parser mode: no extension negotiated, or
    the repaired per-message choice (finding D9) -/
def ValMode (v : Variant) (p : PState) : Prop := v.perMsgValidate = true ∨ p.compression = false

/-- inside an RSV1 = 0 text message that is validated incrementally -/
structure OpenG (v : Variant) (p : PState) : Prop where
  isText : p.isText = true
  ic : p.isCompressed = false
  mode : ValMode v p

theorem nv_mode (v : Variant) (p : PState) (hic : p.isCompressed = false) (hm : ValMode v p) : ¬ noValidate v p := by
  unfold noValidate
  rcases hm with h | h
  · simp [h, hic]
  · cases v.perMsgValidate <;> simp [h]

theorem OpenG.nv {v : Variant} {p : PState} (h : OpenG v p) : ¬ noValidate v p := nv_mode v p h.ic h.mode

theorem next_ic_nontext (v : Variant) (p : PState) (w : WFrame) (d : Nat) (h : w.opcode ≠ 1) :
    (w.next v p d).isCompressed = p.isCompressed := by
  unfold WFrame.next doneState
  rw [afterHdr_nontext _ _ (by show w.hdr.opcode ≠ 1; exact h)]
  rfl

theorem next_openG_ctrl (v : Variant) (hk : v.keepIsText = true) (p : PState) (c : CtrlF) (d : Nat) (ho : OpenG v p) :
    OpenG v (c.wire.next v p d) := by
  have hop : c.wire.opcode ≠ 1 := by rcases c.wire_op with h | h <;> omega
  refine ⟨?_, (next_ic_nontext v p _ d hop).trans ho.ic, ?_⟩
  · have hctl : c.wire.frame.isControl = true := by
      rcases c.wire_op with h | h <;> simp [Frame.isControl, WFrame.frame, h]
    unfold WFrame.next doneState
    rw [afterHdr_nontext _ _ hop]
    have : p.resumed.isText = true := ho.isText
    simp [hk, hctl, this]
  · rcases ho.mode with h | h
    · exact Or.inl h
    · exact Or.inr ((next_comp v p _ d).trans h)

theorem next_openG_cont (v : Variant) (p : PState) (g : Frag) (d : Nat) (ho : OpenG v p) :
    OpenG v ((contF g false).next v p d) := by
  have hop : (contF g false).opcode ≠ 1 := by simp [contF]
  refine ⟨?_, (next_ic_nontext v p _ d hop).trans ho.ic, ?_⟩
  · unfold WFrame.next doneState
    rw [afterHdr_nontext _ _ (by simp [contF, WFrame.hdr])]
    have : p.resumed.isText = true := ho.isText
    simp [WFrame.frame, contF, this]
  · rcases ho.mode with h | h
    · exact Or.inl h
    · exact Or.inr ((next_comp v p _ d).trans h)

theorem next_openG_first (v : Variant) (p : PState) (m : DataMsg) (ht : m.text = true) (d : Nat)
    (hm : ValMode v p) : OpenG v ((m.firstW false).next v p d) := by
  have hop : (m.firstW false).opcode = 1 := by simp [DataMsg.firstW, ht]
  refine ⟨?_, ?_, ?_⟩
  · unfold WFrame.next doneState
    rw [afterHdr_text _ _ hop]
    simp [WFrame.frame, DataMsg.firstW]
  · unfold WFrame.next doneState
    rw [afterHdr_text _ _ hop]
  · rcases hm with h | h
    · exact Or.inl h
    · exact Or.inr ((next_comp v p _ d).trans h)

theorem parses_ctrls_openG (v : Variant) (hk : v.keepIsText = true) (cs : List CtrlF) (p : PState) (done : Bytes)
    (hp : InText v p done) (ho : OpenG v p) (hok : ∀ c ∈ cs, c.Ok) :
    ∃ p', ParsesTo v p (cs.map CtrlF.wire) p' ∧ InText v p' done ∧ OpenG v p' ∧ p'.compression = p.compression := by
  induction cs generalizing p with
  | nil => exact ⟨p, parsesTo_nil v p, hp, ho, rfl⟩
  | cons c r ih =>
    have hc := hok c (by simp)
    have hop : c.wire.opcode ≥ 8 := by rcases c.wire_op with h | h <;> omega
    obtain ⟨hd, hb⟩ := intext_ctrl v p c.wire done hp hop
    obtain ⟨p', h2, hb', ho', hc'⟩ := ih _ hb (next_openG_ctrl v hk p c p.dfa ho) (fun x hx => hok x (by simp [hx]))
    exact ⟨p', parsesTo_append (a := [c.wire]) (parsesTo_one hp.b (CtrlF.wire_ok hc) hd) h2, hb', ho',
      hc'.trans (next_comp v p _ _)⟩

theorem parses_midG (v : Variant) (hk : v.keepIsText = true) (r : List (List CtrlF × Frag)) (p : PState) (done : Bytes)
    (hp : InText v p done) (ho : OpenG v p) (hok : contOk r) (d0 : Nat)
    (hval : Utf8.validate 0 (done ++ contPayload r) = some d0) :
    ∃ p', ParsesTo v p (midWire r) p' ∧ InText v p' (done ++ contPayload r) ∧ OpenG v p' ∧
      p'.compression = p.compression := by
  induction r generalizing p done with
  | nil => exact ⟨p, parsesTo_nil v p, by simpa [contPayload] using hp, ho, rfl⟩
  | cons x r ih =>
    obtain ⟨cs, g⟩ := x
    have hx := hok (cs, g) (by simp)
    obtain ⟨p1, h1, hb1, ho1, hc1⟩ := parses_ctrls_openG v hk cs p done hp ho hx.1
    have hval' : Utf8.validate 0 ((done ++ g.payload) ++ contPayload r) = some d0 := by
      simpa [contPayload] using hval
    obtain ⟨dg, hdg⟩ := validate_prefix 0 _ _ _ hval'
    obtain ⟨d, hd, hnext⟩ := intext_cont v p1 (contF g false) done hb1 rfl dg hdg
    simp only [contF, Bool.false_eq_true, if_false] at hnext
    have h2 := parsesTo_one (v := v) hb1.b (contF_ok g false hx.2) hd
    obtain ⟨p3, h3, hb3, ho3, hc3⟩ := ih _ _ hnext (next_openG_cont v p1 g d ho1) (fun z hz => hok z (by simp [hz])) hval'
    refine ⟨p3, ?_, by simpa [contPayload] using hb3, ho3, ?_⟩
    · rw [midWire_cons]
      exact parsesTo_append h1 (parsesTo_append h2 h3)
    · exact hc3.trans ((next_comp v p1 _ d).trans hc1)

/-- the parser in front of the fragment `w` (cf. `CutState`); `c` = the `_compression` switch -/
structure CutStateG (v : Variant) (c : Bool) (p : PState) (w : WFrame) (done : Bytes) : Prop where
  b : Boundary p
  flag : ∀ pl : Bytes, pl ≠ [] → ({ w with payload := pl } : WFrame).flag v p = true
  dfa : Utf8.validate 0 done = some p.dfa
  comp : p.compression = c

theorem cutStateG_first (v : Variant) (p : PState) (m : DataMsg) (ht : m.text = true) (fin : Bool)
    (hp : Between p) (hm : ValMode v p) : CutStateG v p.compression p (m.firstW fin) [] := by
  refine ⟨hp.b, ?_, by rw [hp.dfa]; rfl, rfl⟩
  intro pl hpl
  have hop : ({ m.firstW fin with payload := pl } : WFrame).opcode = 1 := by simp [DataMsg.firstW, ht]
  have h1 := afterHdr_text p.resumed _ hop
  have hnv : ¬ noValidate v ({ p.resumed with isText := true, isCompressed := false } : PState) :=
    nv_mode v _ rfl hm
  unfold WFrame.flag valFlag
  rw [h1]
  simp [hpl, hnv, Frame.isText, WFrame.hdr, DataMsg.firstW, ht, Gen.opText]

theorem cutStateG_cont (v : Variant) (p : PState) (g : Frag) (fin : Bool) (done : Bytes)
    (hp : InText v p done) (ho : OpenG v p) : CutStateG v p.compression p (contF g fin) done := by
  have hnv : ¬ noValidate v p := ho.nv
  refine ⟨hp.b, ?_, hp.val hnv ho.isText, rfl⟩
  intro pl hpl
  have h1 : afterHdr p.resumed ({ contF g fin with payload := pl } : WFrame).hdr = p.resumed :=
    afterHdr_nontext _ _ (by simp [contF, WFrame.hdr])
  unfold WFrame.flag valFlag
  rw [h1]
  have h2 : ¬ noValidate v p.resumed := hnv
  have h3 : p.resumed.isText = true := ho.isText
  simp [hpl, h2, h3, Frame.isContinuation, Frame.isText, WFrame.hdr, contF, Gen.opContinuation, Gen.opText]

/-- **parser half of `before`**, extension negotiated or not -/
theorem parses_beforeG (v : Variant) (hk : v.keepIsText = true) (m : DataMsg) (ht : m.text = true)
    (hfirst : m.first.Ok) (hrest : contOk m.rest)
    {before after : List WFrame} {w : WFrame} {done : Bytes} {evs : List Event}
    (hcut : CutAt m before w after done evs) (d : Nat) (hval : Utf8.validate 0 done = some d)
    (p : PState) (hp : Between p) (hm : ValMode v p) :
    ∃ p', ParsesTo v p before p' ∧ CutStateG v p.compression p' w done := by
  cases hcut with
  | first => exact ⟨p, parsesTo_nil v p, cutStateG_first v p m ht _ hp hm⟩
  | later r1 cs g r2 hr =>
    have hok1 : contOk r1 := fun x hx => hrest x (by rw [hr]; simp [hx])
    have hokc : ∀ c ∈ cs, c.Ok := (hrest (cs, g) (by rw [hr]; simp)).1
    obtain ⟨d1, hd1⟩ := validate_prefix 0 _ _ _ hval
    have hwok : (m.firstW false).Ok := by
      refine ⟨hfirst, Or.inl (Or.inr (Or.inl ?_))⟩
      simp [DataMsg.firstW, ht]
    obtain ⟨dd, hd, hnext⟩ := between_text v p (m.firstW false) hp (by simp [DataMsg.firstW, ht]) d1 hd1
    simp only [DataMsg.firstW, Bool.false_eq_true, if_false] at hnext
    have h1 := parsesTo_one (v := v) hp.b hwok hd
    have ho1 := next_openG_first v p m ht dd hm
    obtain ⟨p2, h2, hb2, ho2, hc2⟩ := parses_midG v hk r1 _ _ hnext ho1 hok1 d hval
    obtain ⟨p3, h3, hb3, ho3, hc3⟩ := parses_ctrls_openG v hk cs p2 _ hb2 ho2 hokc
    have hcomp : p3.compression = p.compression := hc3.trans (hc2.trans (next_comp v p _ dd))
    refine ⟨p3, ?_, hcomp ▸ cutStateG_cont v p3 g _ _ hb3 ho3⟩
    have e : m.firstW false :: (midWire r1 ++ cs.map CtrlF.wire) = [m.firstW false] ++ (midWire r1 ++ cs.map CtrlF.wire) := rfl
    rw [e]
    exact parsesTo_append h1 (parsesTo_append h2 h3)

/-- the state in front of the fragment `w` (cf. `AtCut`) -/
structure AtCutG (cfg : Cfg) (react : React) (c : Bool) (s4 sp : Sys) (w : WFrame) (done : Bytes) (evs : List Event) : Prop where
  i : I sp
  hcfg : sp.cfg = cfg
  hreact : sp.react = react
  ready : sp.ready = true
  closed : sp.closed = false
  closing : sp.closing = false
  cut : CutStateG cfg.v c sp.p w done
  frames : CutFrames w done sp.frames
  hist : hist sp.trace = evs.reverse ++ hist s4.trace

/-- **feeding `before`** (cf. `feed_cut`), extension negotiated or not -/
theorem feed_cut_g {cfg : Cfg} {react : React} {c : Bool} {s4 : Sys}
    (h4 : IdleG cfg react c s4) (hk : cfg.v.keepIsText = true) (hm : cfg.v.perMsgValidate = true ∨ c = false)
    (m : DataMsg) (ht : m.text = true) (hfirst : m.first.Ok) (hrest : contOk m.rest)
    {before after : List WFrame} {w : WFrame} {done : Bytes} {evs : List Event}
    (hcut : CutAt m before w after done evs) (d : Nat) (hval : Utf8.validate 0 done = some d) :
    ∃ sp, feedLoop (wireBytes before) s4 = .ok true sp ∧ AtCutG cfg react c s4 sp w done evs := by
  have hnh : s4.p.cont ≠ .header := by rw [h4.between.b.cont]; simp
  have hmode : ValMode s4.cfg.v s4.p := by
    rw [h4.hcfg]
    rcases hm with h | h
    · exact Or.inl h
    · exact Or.inr (h4.comp.trans h)
  obtain ⟨p', hpar, hcs⟩ := parses_beforeG s4.cfg.v (by rw [h4.hcfg]; exact hk) m ht hfirst hrest hcut d hval
    s4.p h4.between hmode
  obtain ⟨pouts, hmm, e⟩ := feedLoop_of_parses before s4 p' hnh hpar
  have hm' : pouts.map (·.2) = (before.map WFrame.frame).map Out.frame := by
    rw [hmm, List.map_map]; rfl
  obtain ⟨fr, heat, hfr⟩ := eats_before m ht hrest hcut
  obtain ⟨s1, e1, r1, f1⟩ := heat pouts hm' (finOk p') [] s4 h4.i.good h4.closed h4.frames
  rw [List.append_nil] at e1
  have hfl : feedLoop (wireBytes before) s4 = .ok true { s1 with p := p' } := by rw [e, e1]; rfl
  obtain ⟨ip, hz⟩ := z_feedLoop _ s4 true _ hfl h4.i
  obtain ⟨rp, l, el, nl⟩ := hz h4.ready
  refine ⟨{ s1 with p := p' }, hfl, ip, r1.cfg.trans h4.hcfg, r1.react.trans h4.hreact, rp, r1.closed.trans h4.closed,
    r1.closing.trans h4.closing, ?_, by rw [← f1] at hfr; exact hfr, hist_of_delivered el nl r1.evs⟩
  rw [← h4.hcfg, ← h4.comp]; exact hcs

/-- the same after a conforming prefix of complete items -/
theorem feed_items_cut_g {cfg : Cfg} {react : React} {c : Bool} {s4 : Sys}
    (h4 : IdleG cfg react c s4) (hk : cfg.v.keepIsText = true) (hm : cfg.v.perMsgValidate = true ∨ c = false)
    (items : List Item) (hok : ∀ it ∈ items, it.Ok)
    (m : DataMsg) (ht : m.text = true) (hfirst : m.first.Ok) (hrest : contOk m.rest)
    {before after : List WFrame} {w : WFrame} {done : Bytes} {evs : List Event}
    (hcut : CutAt m before w after done evs) (d : Nat) (hval : Utf8.validate 0 done = some d) :
    ∃ sp, feedLoop (wireBytes (items.flatMap Item.wire) ++ wireBytes before) s4 = .ok true sp ∧
      AtCutG cfg react c s4 sp w done (items.flatMap Item.events ++ evs) := by
  obtain ⟨sp0, hfl0, a0⟩ := feed_items_G h4 items hok
  obtain ⟨sp, hfl, a⟩ := feed_cut_g a0.idle hk hm m ht hfirst hrest hcut d hval
  refine ⟨sp, by rw [feedLoop_append, hfl0]; exact hfl, a.i, a.hcfg, a.hreact, a.ready, a.closed, a.closing, a.cut,
    a.frames, ?_⟩
  rw [a.hist, a0.hist]
  simp

/-! the three ways the fragment `w` ends the message with an error -/

theorem cutG_flag {v : Variant} {c : Bool} {p : PState} {w : WFrame} {done : Bytes} (hc : CutStateG v c p w done)
    (hne : w.payload ≠ []) : w.flag v p = true := by
  exact hc.flag w.payload hne

theorem cutG_vres {v : Variant} {c : Bool} {p : PState} {w : WFrame} {done : Bytes} (hc : CutStateG v c p w done)
    (hne : w.payload ≠ []) : vres (w.flag v p) p.dfa w.payload = Utf8.validate 0 (done ++ w.payload) := by
  rw [cutG_flag hc hne]
  show Utf8.validate p.dfa w.payload = _
  exact validate_after_prefix done w.payload p.dfa hc.dfa

/-- (a) the whole fragment arrives: its bytes make the text so far unsalvageable -/
theorem cut_bad_g {cfg : Cfg} {react : React} {c : Bool} {s4 sp : Sys} {w : WFrame} {done : Bytes} {evs : List Event}
    (a : AtCutG cfg react c s4 sp w done evs) (hw : w.Ok) (hbad : Utf8.validate 0 (done ++ w.payload) = none)
    (tail : Bytes) :
    ∃ q, feedLoop (w.bytes ++ tail) sp = .err (.parse "invalid utf8") { sp with p := q } := by
  have hc : CutStateG sp.cfg.v c sp.p w done := by rw [a.hcfg]; exact a.cut
  have hne : w.payload ≠ [] := by
    intro h; rw [h, List.append_nil, hc.dfa] at hbad; cases hbad
  have hd : vres (w.flag sp.cfg.v sp.p) sp.p.dfa w.payload = none := by rw [cutG_vres hc hne]; exact hbad
  obtain ⟨q, hq⟩ := pRun_wire_bad sp.cfg.v sp.p hc.b w hw hd tail
  exact ⟨q, feedLoop_parse_err _ sp (by rw [hc.b.cont]; simp) q _ hq⟩

/-- (a') fail-fast: the header of the fragment and its payload up to and including the first
    offending byte suffice -/
theorem cut_partial_bad_g {cfg : Cfg} {react : React} {c : Bool} {s4 sp : Sys} {w : WFrame} {done : Bytes}
    {evs : List Event}
    (a : AtCutG cfg react c s4 sp w done evs) (hw : w.Ok) (n : Nat) (hn : n ≤ w.payload.length) (hn0 : n ≠ 0)
    (hbad : Utf8.validate 0 (done ++ w.payload.take n) = none) :
    ∃ q, feedLoop (partialBytes w n) sp = .err (.parse "invalid utf8") { sp with p := q } := by
  have hc : CutStateG sp.cfg.v c sp.p w done := by rw [a.hcfg]; exact a.cut
  have hne : w.payload ≠ [] := by
    intro h; rw [h] at hn; simp at hn; exact hn0 hn
  have hlen : w.payload.length ≠ 0 := fun h => hne (List.eq_nil_of_length_eq_zero h)
  have hflag : valFlag sp.cfg.v (afterHdr sp.p.resumed w.hdr) w.hdr = true := by
    have := cutG_flag hc hne
    unfold WFrame.flag at this
    simpa [hne] using this
  obtain ⟨q0, _, hh⟩ := pRun_header sp.cfg.v sp.p hc.b w.b0 w.payload.length w.form hw.1 (w.payload.take n)
  have hv := validate_ok sp.cfg.v sp.p.resumed.compression w hw
  rw [gotMask_eq, hdrFrame_b0 w hw.lt16, hv] at hh
  simp only [hlen, ne_eq, not_false_eq_true, if_true, PRun.push] at hh
  let ps := payloadState sp.cfg.v (afterHdr sp.p.resumed w.hdr) w.hdr w.payload.length
  have hne2 : w.payload.take n ≠ [] := by
    intro h
    have : (w.payload.take n).length = 0 := by rw [h]; rfl
    rw [List.length_take] at this
    omega
  have htake : (w.payload.take n).take (ps.remPred + 1) = w.payload.take n := by
    apply List.take_of_length_le
    show _ ≤ w.payload.length - 1 + 1
    rw [List.length_take]
    omega
  have hvr : vres ps.utf8 ps.dfa (w.payload.take n) = none := by
    have e1 : ps.utf8 = true := hflag
    have e2 : ps.dfa = sp.p.dfa := afterHdr_dfa _ _
    rw [e1, e2]
    show Utf8.validate sp.p.dfa (w.payload.take n) = none
    rw [validate_after_prefix done _ sp.p.dfa hc.dfa]
    exact hbad
  have hp2 : pRun sp.cfg.v ps (w.payload.take n) = { p := deadParser ps, err := some (.parse "invalid utf8") } := by
    rw [pRun]
    simp only [hne2, dite_false, htake]
    rw [biteBytes_eq, hvr]
  refine ⟨deadParser ps, feedLoop_parse_err _ sp (by rw [hc.b.cont]; simp) _ _ ?_⟩
  unfold partialBytes
  rw [hh]
  exact hp2

/-- (b) the last fragment arrives and the text is truncated -/
theorem cut_build_bad_g {cfg : Cfg} {react : React} {c : Bool} {s4 sp : Sys} {w : WFrame} {done : Bytes}
    {evs : List Event}
    (a : AtCutG cfg react c s4 sp w done evs) (hw : w.Ok) (hfin : w.fin = true) (d : Nat)
    (hval : Utf8.validate 0 (done ++ w.payload) = some d) (hwf : Utf8.wf (done ++ w.payload) = false)
    (tail : Bytes) :
    ∃ q, feedLoop (w.bytes ++ tail) sp =
      .err (.critical "payload contains invalid utf-8") { sp with p := q, frames := sp.frames ++ [w.frame] } := by
  have hc : CutStateG sp.cfg.v c sp.p w done := by rw [a.hcfg]; exact a.cut
  have hnh : sp.p.cont ≠ .header := by rw [hc.b.cont]; simp
  have hd : ∃ d', vres (w.flag sp.cfg.v sp.p) sp.p.dfa w.payload = some d' := by
    by_cases hne : w.payload = []
    · refine ⟨sp.p.dfa, ?_⟩
      have : w.flag sp.cfg.v sp.p = false := by unfold WFrame.flag; simp [hne]
      rw [this]; rfl
    · exact ⟨d, by rw [cutG_vres hc hne]; exact hval⟩
  obtain ⟨d', hd'⟩ := hd
  have hp := pRun_wire_ok sp.cfg.v sp.p hc.b w hw d' hd' tail
  obtain ⟨first, tl, hfr, hr1, hop, hpl⟩ := a.frames.whole
  have hm : msgOfPayload first.opcode ((first :: tl).map (·.payload)).flatten
      = .error (.critical "payload contains invalid utf-8") := by
    rw [hop, hpl]
    exact (msgOfPayload_text _).2.mpr hwf
  have hfin' : w.frame.fin ≠ 0 := by simp [WFrame.frame, hfin]
  have ho := onOut_data_fin_bad w.frame { sp with p := w.next sp.cfg.v sp.p d' } hfin' a.frames.ctl a.frames.cont
    first tl hfr hr1 _ hm
  refine ⟨w.next sp.cfg.v sp.p d', ?_⟩
  rw [feedLoop_eq_fold _ sp hnh, hp]
  show consume _ ((w.next sp.cfg.v sp.p d', Out.frame w.frame) :: _) sp = _
  simp only [consume]
  rw [ho]

/-- the state inside an open message (cf. `InOpen`) -/
structure InOpenG (cfg : Cfg) (react : React) (c : Bool) (s4 sp : Sys) (evs : List Event) : Prop where
  i : I sp
  hcfg : sp.cfg = cfg
  hreact : sp.react = react
  closed : sp.closed = false
  await : AwaitHeader sp.p
  comp : sp.p.compression = c
  frames : sp.frames ≠ []
  hist : hist sp.trace = evs.reverse ++ hist s4.trace

/-- **feeding an open message** (cf. `feed_open`), extension negotiated or not -/
theorem feed_open_g {cfg : Cfg} {react : React} {c : Bool} {s4 : Sys} (h4 : IdleG cfg react c s4)
    (text : Bool) (first : Frag) (r1 : List (List CtrlF × Frag)) (cs : List CtrlF)
    (hfirst : first.Ok) (hr1 : contOk r1) (hcs : ∀ c ∈ cs, c.Ok)
    (htext : text = true → cfg.v.keepIsText = true ∧ (cfg.v.perMsgValidate = true ∨ c = false) ∧
      ∃ d, Utf8.validate 0 (first.payload ++ contPayload r1) = some d) :
    ∃ sp, feedLoop (wireBytes (openWire text first r1 cs)) s4 = .ok true sp ∧
      InOpenG cfg react c s4 sp ((contCtrls r1 ++ cs).map CtrlF.event) := by
  have hnh : s4.p.cont ≠ .header := by rw [h4.between.b.cont]; simp
  cases text with
  | true =>
    obtain ⟨hk, hm, d, hd⟩ := htext rfl
    let g : Frag := { payload := [], form := .short }
    let m : DataMsg := { text := true, first := first, rest := r1 ++ (cs, g) :: [] }
    have hrest : contOk m.rest := by
      intro x hx
      rcases List.mem_append.mp hx with h | h
      · exact hr1 x h
      · simp at h; subst h; exact ⟨hcs, (by decide : (0 : Nat) < 126)⟩
    have hcut : CutAt m (m.firstW false :: (midWire r1 ++ cs.map CtrlF.wire)) (contF g true) (contWire [])
        (m.first.payload ++ contPayload r1) ((contCtrls r1 ++ cs).map CtrlF.event) := .later r1 cs g [] rfl
    obtain ⟨sp, hfl, a⟩ := feed_cut_g h4 hk hm m rfl hfirst hrest hcut d hd
    refine ⟨sp, hfl, a.i, a.hcfg, a.hreact, a.closed,
      ⟨a.cut.b.cont, a.cut.b.rem, a.cut.b.utf8, a.cut.b.buf⟩, a.cut.comp, ?_, a.hist⟩
    exact a.frames.cont.mp (contF_frame_facts g true).2.1
  | false =>
    let m : DataMsg := { text := false, first := first, rest := [] }
    have hws : ∀ w ∈ openWire false first r1 cs, w.Ok ∧ w.opcode ≠ 1 := by
      intro w hw
      simp only [openWire, List.mem_cons, List.mem_append, List.mem_map] at hw
      rcases hw with rfl | hw | ⟨c, hc, rfl⟩
      · exact ⟨⟨hfirst, Or.inl (Or.inr (Or.inr rfl))⟩, by simp [DataMsg.firstW]⟩
      · exact midWire_ok r1 hr1 w hw
      · refine ⟨CtrlF.wire_ok (hcs c hc), ?_⟩
        rcases c.wire_op with h | h <;> omega
    obtain ⟨p', hpar, hb'⟩ := parses_nontext s4.cfg.v _ s4.p h4.between hws
    obtain ⟨pouts, hm, e⟩ := feedLoop_of_parses _ s4 p' hnh hpar
    have hm' : pouts.map (·.2) = ((openWire false first r1 cs).map WFrame.frame).map Out.frame := by
      rw [hm, List.map_map]; rfl
    have h1 := eats_first_open' m
    have h2 := eats_mid r1 hr1 (m.firstW false).frame []
    have h3 := eats_ctrls cs hcs ((m.firstW false).frame :: ([] ++ midFrames r1))
    have h := eats_append h1 (eats_append h2 h3)
    have heat : Eats ((openWire false first r1 cs).map WFrame.frame) ((contCtrls r1 ++ cs).map CtrlF.event).reverse []
        ((m.firstW false).frame :: midFrames r1) := by
      simpa [openWire, List.map_append, List.map_map] using h
    obtain ⟨s1, e1, r, f1⟩ := heat pouts hm' (finOk p') [] s4 h4.i.good h4.closed h4.frames
    rw [List.append_nil] at e1
    have hfl : feedLoop (wireBytes (openWire false first r1 cs)) s4 = .ok true { s1 with p := p' } := by
      rw [e, e1]; rfl
    obtain ⟨ip, hz⟩ := z_feedLoop _ s4 true _ hfl h4.i
    obtain ⟨_, l, el, nl⟩ := hz h4.ready
    refine ⟨{ s1 with p := p' }, hfl, ip, r.cfg.trans h4.hcfg, r.react.trans h4.hreact, r.closed.trans h4.closed,
      ⟨hb'.b.cont, hb'.b.rem, hb'.b.utf8, hb'.b.buf⟩, (feedLoop_comp _ s4 true _ hnh hfl).trans h4.comp, ?_,
      hist_of_delivered el nl r.evs⟩
    show s1.frames ≠ []
    rw [f1]; simp

end Lomond.Core.E2E

/-! ### an arbitrary application after a protocol violation -/

namespace Lomond.Core.AnyApp
open Lomond Lomond.Core Lomond.Core.Timers

/-- a frame handed to `sendall` (whether it went out, went out compressed, or `sendall` raised) -/
def isWrite : Obs → Bool
  | .wr _ | .wrz _ _ | .wrFail _ => true
  | _ => false

/-- what one application call can do to the wire: a frame, or giving up the socket -/
def isEffect : Obs → Bool
  | .wr _ | .wrz _ _ | .wrFail _ | .sockClose => true
  | _ => false

/-- **the application's reaction** (newest first): a sequence of application calls — each is its
    result token `res r`, preceded in time by at most one wire effect *of that call* — and of the two
    timer events `Poll` / `Unresponsive`.  A frame written by the library itself (automatic Pong,
    automatic Ping, Close echo, the 1002 Close) is never followed by a result token, so no such frame
    fits in a `ReactSeg`. -/
inductive ReactSeg : List Obs → Prop
  | nil : ReactSeg []
  | call (r : ActRes) {l : List Obs} : ReactSeg l → ReactSeg (.res r :: l)
  | callW (r : ActRes) (o : Obs) {l : List Obs} (ho : isEffect o = true) : ReactSeg l → ReactSeg (.res r :: o :: l)
  | timer (e : Event) {l : List Obs} (he : e = .poll ∨ e = .unresponsive) : ReactSeg l → ReactSeg (.ev e :: l)

theorem ReactSeg.append {a b : List Obs} (ha : ReactSeg a) (hb : ReactSeg b) : ReactSeg (a ++ b) := by
  induction ha with
  | nil => exact hb
  | call r _ ih => exact .call r ih
  | callW r o ho _ ih => exact .callW r o ho ih
  | timer e he _ ih => exact .timer e he ih

theorem ReactSeg.calm {l : List Obs} (h : ReactSeg l) : ∀ o ∈ l, CalmV o := by
  induction h with
  | nil => intro o ho; cases ho
  | call r _ ih =>
    intro o ho
    rcases List.mem_cons.mp ho with rfl | ho
    · trivial
    · exact ih o ho
  | callW r o' ho' _ ih =>
    intro o ho
    rcases List.mem_cons.mp ho with rfl | ho
    · trivial
    · rcases List.mem_cons.mp ho with rfl | ho
      · cases o <;> first | trivial | cases ho'
      · exact ih o ho
  | timer e he _ ih =>
    intro o ho
    rcases List.mem_cons.mp ho with rfl | ho
    · rcases he with rfl | rfl <;> trivial
    · exact ih o ho

/-- the clock, the Ready time, the automatic-Ping schedule, the application and the configuration -/
structure KF (s s' : Sys) : Prop where
  cfg : s'.cfg = s.cfg
  react : s'.react = s.react
  ready : s'.ready = s.ready
  startTime : s'.startTime = s.startTime
  now : s'.now = s.now
  nextPing : s'.nextPing = s.nextPing

theorem KF.refl (s : Sys) : KF s s := ⟨rfl, rfl, rfl, rfl, rfl, rfl⟩
theorem KF.trans {a b c : Sys} (h1 : KF a b) (h2 : KF b c) : KF a c :=
  ⟨h2.cfg.trans h1.cfg, h2.react.trans h1.react, h2.ready.trans h1.ready, h2.startTime.trans h1.startTime,
   h2.now.trans h1.now, h2.nextPing.trans h1.nextPing⟩

theorem KF.sessionTime {s s' : Sys} (h : KF s s') : sessionTime s' = sessionTime s := by
  unfold Core.sessionTime; rw [h.startTime, h.now]

/-- no automatic Ping is due (`_regular()` is only run once the websocket is ready) -/
def PingOK (s : Sys) : Prop := s.ready = true → ¬ pingDue s

theorem PingOK.of_kf {s s' : Sys} (k : KF s s') (h : PingOK s) : PingOK s' := by
  intro hr hd
  apply h (k.ready ▸ hr)
  unfold pingDue at *
  rw [k.sessionTime, k.cfg, k.nextPing] at hd
  exact hd

/-- a step made of application calls and timer events only -/
structure AK (s s' : Sys) : Prop where
  kf : KF s s'
  dead : s.sockOpen = false → s'.sockOpen = false
  trace : ∃ l, s'.trace = l ++ s.trace ∧ ReactSeg l ∧ (s.sockOpen = false → ∀ o ∈ l, isWrite o = false)

theorem ak_po : PO AK where
  refl s := ⟨KF.refl s, id, [], rfl, .nil, fun _ o ho => by cases ho⟩
  trans := by
    intro a b c h1 h2
    obtain ⟨l1, e1, r1, d1⟩ := h1.trace
    obtain ⟨l2, e2, r2, d2⟩ := h2.trace
    refine ⟨h1.kf.trans h2.kf, fun h => h2.dead (h1.dead h), l2 ++ l1, by rw [e2, e1, List.append_assoc],
      r2.append r1, fun h o ho => ?_⟩
    rcases List.mem_append.mp ho with ho | ho
    · exact d2 (h1.dead h) o ho
    · exact d1 h o ho

/-- an application-level call: returns normally, keeps `KF`, appends at most one wire effect, and
    with the socket gone appends nothing and leaves the socket gone -/
def Call (m : M ActRes) : Prop :=
  ∀ s, ∃ r s', m s = .ok r s' ∧ KF s s' ∧ (s.sockOpen = false → s'.sockOpen = false ∧ s'.trace = s.trace) ∧
    (s'.trace = s.trace ∨ ∃ o, s'.trace = o :: s.trace ∧ isEffect o = true)

theorem call_pure (r : ActRes) : Call (pure r) :=
  fun s => ⟨r, s, rfl, KF.refl s, fun h => ⟨h, rfl⟩, Or.inl rfl⟩

theorem call_ok {m : M ActRes} (hm : Call m) {s s' : Sys} {a : ActRes} (h : m s = .ok a s') :
    KF s s' ∧ (s.sockOpen = false → s'.sockOpen = false ∧ s'.trace = s.trace) ∧
    (s'.trace = s.trace ∨ ∃ o, s'.trace = o :: s.trace ∧ isEffect o = true) := by
  obtain ⟨r, s'', e, k, d, t⟩ := hm s
  rw [e] at h; cases h
  exact ⟨k, d, t⟩

theorem call_not_err {m : M ActRes} (hm : Call m) {s s' : Sys} {x : Exn} (h : m s = .err x s') : False := by
  obtain ⟨r, s'', e, _⟩ := hm s
  rw [e] at h; cases h

theorem call_write (d : Bytes) (z : Option (Nat × Bytes)) : Call (write d z) := by
  intro s
  unfold write
  simp only []
  split
  · exact ⟨_, _, rfl, KF.refl s, fun h => ⟨h, rfl⟩, Or.inl rfl⟩
  · rename_i hso
    have hn : ¬ s.sockOpen = false := by intro h0; rw [h0] at hso; simp at hso
    split
    · exact ⟨_, _, rfl, KF.refl s, fun h => (hn h).elim, Or.inl rfl⟩
    · split
      · exact ⟨_, _, rfl, KF.refl s, fun h => (hn h).elim, Or.inl rfl⟩
      · split
        · exact ⟨_, _, rfl, ⟨rfl, rfl, rfl, rfl, rfl, rfl⟩, fun h => (hn h).elim, Or.inr ⟨_, rfl, rfl⟩⟩
        · split <;> exact ⟨_, _, rfl, ⟨rfl, rfl, rfl, rfl, rfl, rfl⟩, fun h => (hn h).elim, Or.inr ⟨_, rfl, rfl⟩⟩

/-- a call whose state update in front keeps everything a `Call` talks about -/
theorem call_after {m : M ActRes} (hm : Call m) (f : Sys → Sys) (hf : ∀ s, KF s (f s) ∧ (f s).sockOpen = s.sockOpen ∧
    (f s).trace = s.trace) : Call (fun s => m (f s)) := by
  intro s
  obtain ⟨r, s', e, k, d, t⟩ := hm (f s)
  obtain ⟨k0, so0, t0⟩ := hf s
  refine ⟨r, s', e, k0.trans k, fun h => ?_, ?_⟩
  · have := d (so0.trans h); exact ⟨this.1, this.2.trans t0⟩
  · rw [t0] at t; exact t

theorem call_sendFrame (op : Nat) (pl : Bytes) (c : Option Bytes) : Call (sendFrame op pl c) := by
  intro s
  unfold sendFrame
  simp only []
  cases c with
  | some plain =>
    exact call_after (call_write [] (some (op, plain))) (fun s => { s with keyCtr := s.keyCtr + 1 })
      (fun s => ⟨⟨rfl, rfl, rfl, rfl, rfl, rfl⟩, rfl, rfl⟩) s
  | none =>
    simp only []
    cases hb : Frame.build op pl (s.cfg.maskKey s.keyCtr) with
    | none => exact ⟨_, _, rfl, ⟨rfl, rfl, rfl, rfl, rfl, rfl⟩, fun h => ⟨h, rfl⟩, Or.inl rfl⟩
    | some bytes =>
      exact call_after (call_write bytes none) (fun s => { s with keyCtr := s.keyCtr + 1 })
        (fun s => ⟨⟨rfl, rfl, rfl, rfl, rfl, rfl⟩, rfl, rfl⟩) s

theorem call_sendData (op : Nat) (pl : Bytes) (c : Bool) : Call (sendData op pl c) := by
  intro s; unfold sendData; split <;> exact call_sendFrame _ _ _ s

theorem call_wsClose (code : Option Nat) (reason : Arg) : Call (wsClose code reason) := by
  intro s
  unfold wsClose
  simp only []
  repeat' split
  all_goals first
    | exact ⟨_, _, rfl, KF.refl s, fun h => ⟨h, rfl⟩, Or.inl rfl⟩
    | (rename_i heq
       obtain ⟨k, d, t⟩ := call_ok (call_sendFrame _ _ _) heq
       exact ⟨_, _, rfl, ⟨k.cfg, k.react, k.ready, k.startTime, k.now, k.nextPing⟩, d, t⟩)
    | (rename_i heq
       exact (call_not_err (call_sendFrame _ _ _) heq).elim)

theorem call_sessionClose : Call (do closeSocket; pure ActRes.ok) := by
  intro s
  unfold closeSocket
  by_cases hso : s.sockOpen = true
  · refine ⟨.ok, { s with sockOpen := false, trace := .sockClose :: s.trace }, ?_, ⟨rfl, rfl, rfl, rfl, rfl, rfl⟩,
      (fun h => by rw [hso] at h; cases h), Or.inr ⟨_, rfl, rfl⟩⟩
    show M.bind _ _ s = _
    unfold M.bind
    simp only [hso, if_true]
    rfl
  · refine ⟨.ok, s, ?_, KF.refl s, fun h => ⟨h, rfl⟩, Or.inl rfl⟩
    show M.bind _ _ s = _
    unfold M.bind
    simp only [hso, if_false]
    rfl

theorem call_ite (c : Prop) [Decidable c] {m k : M ActRes} (hm : Call m) (hk : Call k) :
    Call (if c then m else k) := by split <;> assumption

theorem ak_logRes {m : M ActRes} (hm : Call m) : Spec AK (logRes m) := by
  intro s
  obtain ⟨r, s', e, k, d, t⟩ := hm s
  have e2 : logRes m s = .ok () { s' with trace := .res r :: s'.trace } := by
    unfold logRes
    rw [bind_ok e]
    rfl
  rw [e2]
  simp only [Res.state_ok]
  refine ⟨⟨k.cfg, k.react, k.ready, k.startTime, k.now, k.nextPing⟩, fun h => (d h).1, ?_⟩
  rcases t with t | ⟨o, t, ho⟩
  · refine ⟨[.res r], ?_, .call r .nil, fun _ o ho => ?_⟩
    · show Obs.res r :: s'.trace = _
      rw [t]; rfl
    · simp at ho; subst ho; rfl
  · refine ⟨[.res r, o], ?_, .callW r o ho .nil, fun h => ?_⟩
    · show Obs.res r :: s'.trace = _
      rw [t]; rfl
    · have := (d h).2
      rw [t] at this
      exact absurd this (by simp)

theorem ak_doAct (a : Act) : Spec AK (doAct a) := by
  unfold doAct
  split
  all_goals first
    | (apply ak_logRes
       first
        | exact call_pure _
        | exact call_sendData _ _ _
        | exact call_wsClose _ _
        | exact call_sessionClose
        | exact call_ite _ (call_pure _) (call_sendData _ _ _)
        | exact call_ite _ (call_pure _) (call_sendFrame _ _ _))
    | (intro s
       exact ⟨⟨rfl, rfl, rfl, rfl, rfl, rfl⟩, id, [], rfl, .nil, fun _ o ho => by cases ho⟩)

theorem ak_doActs (as : List Act) : Spec AK (doActs as) := by
  induction as with
  | nil => exact spec_pure ak_po ()
  | cons a r ih =>
    unfold doActs
    exact spec_bind ak_po (ak_doAct a) (fun _ => ih)

theorem kf_pushEv (e : Event) (s : Sys) : KF s (pushEv e s) := ⟨rfl, rfl, rfl, rfl, rfl, rfl⟩

/-- `yield e`: from the state in which the event is recorded, only application calls follow -/
theorem ak_yield_from_push (e : Event) (s : Sys) : AK (pushEv e s) (yieldEv e s).state := by
  have e0 : yieldEv e s = doActs (s.react (e :: s.hist)) (pushEv e s) := rfl
  rw [e0]
  exact ak_doActs _ _

/-- a timer event and the application's reaction to it -/
theorem ak_yield_timer (e : Event) (he : e = .poll ∨ e = .unresponsive) : Spec AK (yieldEv e) := by
  intro s
  have h := ak_yield_from_push e s
  obtain ⟨l, el, rl, dl⟩ := h.trace
  refine ⟨(kf_pushEv e s).trans h.kf, h.dead, l ++ [.ev e], ?_, rl.append (.timer e he .nil), fun hd o ho => ?_⟩
  · rw [el]; show l ++ (Obs.ev e :: s.trace) = _; simp
  · rcases List.mem_append.mp ho with ho | ho
    · exact dl hd o ho
    · simp at ho; subst ho; rfl

theorem ak_checkPoll : Spec AK checkPoll := by
  intro s
  by_cases hd : pollDue s
  · rw [checkPoll_fires s hd]
    have h := ak_yield_timer .poll (Or.inl rfl) (pollMark s)
    exact ⟨(show KF s (pollMark s) from ⟨rfl, rfl, rfl, rfl, rfl, rfl⟩).trans h.kf, h.dead, h.trace⟩
  · cases hps : s.pollStart with
    | none => exact absurd (Or.inl hps) hd
    | some p0 =>
      have hlt : sessionTime s - p0 < s.cfg.poll := by
        apply Nat.lt_of_not_le
        intro hc
        exact hd (Or.inr ⟨p0, hps, hc⟩)
      rw [checkPoll_quiet s p0 hps hlt]
      exact ak_po.refl s

/-- **`_regular()` with no automatic Ping due**: a Poll and an Unresponsive event at most, each with
    the application's reaction; the library writes nothing -/
theorem ak_regular (s : Sys) (hp : PingOK s) : AK s (regular s).state := by
  by_cases hr : s.ready = true
  · rw [Timers.regular_ready s hr]
    have h1 := ak_checkPoll s
    cases hc : checkPoll s with
    | err x s1 => rw [hc] at h1; rw [bind_err hc]; exact h1
    | ok u s1 =>
      rw [hc] at h1
      simp only [Res.state_ok] at h1
      rw [bind_ok hc]
      have hp1 : PingOK s1 := hp.of_kf h1.kf
      have hr1 : s1.ready = true := h1.kf.ready.trans hr
      rw [bind_ok (checkAutoPing_quiet s1 (hp1 hr1))]
      by_cases hd : pingTimeoutDue s1
      · have ef := checkPingTimeout_fires s1 hd
        have h2 := ak_yield_timer .unresponsive (Or.inr rfl) s1
        cases hy : yieldEv .unresponsive s1 with
        | err x s2 =>
          rw [hy] at h2
          have : checkPingTimeout s1 = .err x s2 := by rw [ef]; exact bind_err hy
          rw [bind_err this]
          exact ak_po.trans h1 h2
        | ok u2 s2 =>
          rw [hy] at h2
          have : checkPingTimeout s1 = .err (.forceDisconnect "ping-timeout") s2 := by
            rw [ef, bind_ok hy]; rfl
          rw [bind_err this]
          exact ak_po.trans h1 h2
      · rw [bind_ok (checkPingTimeout_quiet s1 hd)]
        by_cases hd2 : closeTimeoutDue s1
        · rw [checkCloseTimeout_fires s1 hd2]; exact h1
        · rw [checkCloseTimeout_quiet s1 hd2]; exact h1
  · rw [Timers.regular_not_ready s (by simpa using hr)]
    exact ak_po.refl s

/-- **the `yield ProtocolError(...)` of the `except` clauses, any application**: what follows the
    event up to the point where the handler goes on (or an exception of `run()`'s frame ends it) is a
    `ReactSeg`: the application's calls and the timer events, no frame of the library's own -/
theorem feedYield_pe_seg (msg : String) (crit : Bool) (s : Sys) (hp : PingOK s) :
    AK (pushEv (.protocolError msg crit) s) (feedYield false (.protocolError msg crit) s).state := by
  rw [feedYield_pe]
  have h1 := ak_yield_from_push (.protocolError msg crit) s
  have hra : reactAndTimers (pushEv (.protocolError msg crit) s) =
      (yieldEv (.protocolError msg crit) >>= fun _ => regular) s := rfl
  have key : AK (pushEv (.protocolError msg crit) s) (reactAndTimers (pushEv (.protocolError msg crit) s)).state := by
    rw [hra]
    cases hy : yieldEv (.protocolError msg crit) s with
    | err x s1 => rw [hy] at h1; rw [bind_err hy]; exact h1
    | ok u s1 =>
      rw [hy] at h1
      simp only [Res.state_ok] at h1
      rw [bind_ok hy]
      have hp1 : PingOK s1 := (hp.of_kf (kf_pushEv _ s)).of_kf h1.kf
      exact ak_po.trans h1 (ak_regular s1 hp1)
  cases hr : reactAndTimers (pushEv (.protocolError msg crit) s) with
  | ok a s2 => rw [hr] at key; exact key
  | err x s2 => rw [hr] at key; exact key

/-- **the `except` clauses of `WebSocket.feed`, any application** (cf. `feedHandler_spec`): exactly
    one ProtocolError event, then the application's reaction `l` (a `ReactSeg`), then at most one
    Close frame written by the library (`CloseWrite`), then the exception -/
theorem feedHandler_any_app (x : Exn) (msg : String) (crit : Bool) (hx : violationOf x = some (msg, crit))
    (s1 : Sys) (hp : PingOK s1) :
    ∃ y s2 l cw,
      feedHandler x s1 = .err y s2 ∧
      s2.trace = cw ++ l ++ .ev (.protocolError msg crit) :: s1.trace ∧
      ReactSeg l ∧ CloseWrite msg crit cw := by
  have hak := feedYield_pe_seg msg crit s1 hp
  obtain ⟨l, hl, hseg, _⟩ := hak.trace
  have hl' : (feedYield false (.protocolError msg crit) s1).state.trace
      = l ++ .ev (.protocolError msg crit) :: s1.trace := hl
  cases hfy : feedYield false (.protocolError msg crit) s1 with
  | err y s2 =>
    rw [hfy] at hl'
    refine ⟨y, s2, l, [], ?_, by simpa using hl', hseg, Or.inl rfl⟩
    cases x with
    | parse m => cases hx; unfold feedHandler; exact bind_err hfy
    | critical m => cases hx; unfold feedHandler; exact bind_err hfy
    | protocol m => cases hx; unfold feedHandler; exact bind_err hfy
    | _ => cases hx
  | ok u s2 =>
    rw [hfy] at hl'
    simp only [Res.state_ok] at hl'
    cases x with
    | parse m =>
      cases hx
      refine ⟨.forceDisconnect "forced", s2, l, [], ?_, by simpa using hl', hseg, Or.inl rfl⟩
      unfold feedHandler; simp only []; rw [bind_ok hfy]; rfl
    | critical m =>
      cases hx
      refine ⟨.forceDisconnect "forced", s2, l, [], ?_, by simpa using hl', hseg, Or.inl rfl⟩
      unfold feedHandler; simp only []; rw [bind_ok hfy]; rfl
    | protocol m =>
      cases hx
      obtain ⟨res, s3, hw, ht⟩ := wsClose_traceV Gen.statusProtocolError (Http.ofString msg) s2
      have hcw : ∃ cw, s3.trace = cw ++ s2.trace ∧ CloseWrite msg false cw := by
        rcases ht with h | ⟨key, bytes, hb, h | h⟩
        · exact ⟨[], h, Or.inl rfl⟩
        · exact ⟨[.wr bytes], h, Or.inr ⟨rfl, key, bytes, hb, Or.inl rfl⟩⟩
        · exact ⟨[.wrFail bytes], h, Or.inr ⟨rfl, key, bytes, hb, Or.inr rfl⟩⟩
      obtain ⟨cw, hcw1, hcw2⟩ := hcw
      have htr : s3.trace = cw ++ l ++ .ev (.protocolError msg false) :: s1.trace := by
        rw [hcw1, hl', List.append_assoc]
      by_cases ha : res = .valueError ∨ res = .structError ∨ res = .typeError
      · refine ⟨.other "error", s3, l, cw, ?_, htr, hseg, hcw2⟩
        unfold feedHandler; simp only []
        rw [bind_ok hfy, bind_ok hw]
        unfold raiseIfArgError
        rw [if_pos ha]; rfl
      · refine ⟨.forceDisconnect "forced", s3, l, cw, ?_, htr, hseg, hcw2⟩
        unfold feedHandler; simp only []
        rw [bind_ok hfy, bind_ok hw]
        unfold raiseIfArgError
        rw [if_neg ha]; rfl
    | _ => cases hx


/-! #### no automatic Ping is due inside `WebSocket.feed` -/

/-- `_regular()` returned normally: it has just sent the Ping that was due -/
theorem regular_ok_pingOK {s s' : Sys} (h : regular s = .ok () s') : PingOK s' := by
  by_cases hr : s.ready = true
  · rw [Timers.regular_ready s hr] at h
    obtain ⟨_, sa, _, h⟩ := bind_ok_inv h
    obtain ⟨_, sb, hb, h⟩ := bind_ok_inv h
    obtain ⟨_, sc, hc, h⟩ := bind_ok_inv h
    obtain ⟨hnd, _⟩ := SegLoop.checkAutoPing_post hb
    obtain ⟨_, e1⟩ := SegLoop.checkPingTimeout_post hc
    obtain ⟨_, e2⟩ := SegLoop.checkCloseTimeout_post h
    subst e2; subst e1
    exact fun _ => hnd
  · have hr' : s.ready = false := by simpa using hr
    rw [Timers.regular_not_ready s hr'] at h
    cases h
    intro hr2; rw [hr'] at hr2; cases hr2

/-- the invariant as a relation -/
def RP (s s' : Sys) : Prop := PingOK s → PingOK s'

theorem rp_po : PO RP where
  refl _ := id
  trans h1 h2 := fun h => h2 (h1 h)

theorem rp_of_kf {s s' : Sys} (k : KF s s') : RP s s' := fun h => h.of_kf k

theorem rp_closeSocket : Spec RP closeSocket := by
  intro s; unfold closeSocket
  split <;> exact rp_of_kf ⟨rfl, rfl, rfl, rfl, rfl, rfl⟩

theorem rp_call {m : M ActRes} (hm : Call m) : Spec RP m := by
  intro s
  obtain ⟨r, s', e, k, _, _⟩ := hm s
  rw [e]; exact rp_of_kf k

theorem rp_onDisconnect : Spec RP onDisconnect := by
  unfold onDisconnect
  exact spec_bind rp_po rp_closeSocket (fun _ => spec_modS (fun s => rp_of_kf ⟨rfl, rfl, rfl, rfl, rfl, rfl⟩))

theorem rp_onEvent (e : Event) : Spec RP (onEvent e) := by
  intro s
  unfold onEvent
  split
  · -- Ready: the session clock starts at 0, the first Ping is due after 0
    simp only [Res.state_ok]
    intro _ _ hd
    unfold pingDue Core.sessionTime at hd
    simp only [Nat.sub_self] at hd
    omega
  · split
    · split
      · exact rp_po.refl s
      · split
        · rename_i heq; exact rp_of_kf (call_ok (call_sendFrame _ _ _) heq).1
        · rename_i heq; exact (call_not_err (call_sendFrame _ _ _) heq).elim
    · exact rp_po.refl s
  · exact rp_of_kf ⟨rfl, rfl, rfl, rfl, rfl, rfl⟩
  · exact rp_po.refl s

theorem rp_yieldEv (e : Event) : Spec RP (yieldEv e) := by
  intro s
  exact rp_of_kf ((kf_pushEv e s).trans (ak_yield_from_push e s).kf)

theorem rp_regular : Spec RP regular := fun s hp => hp.of_kf (ak_regular s hp).kf

theorem rp_feedYield (b : Bool) (e : Event) : Spec RP (feedYield b e) := by
  unfold feedYield
  refine spec_tryC rp_po (spec_bind rp_po (rp_onEvent e) (fun _ => spec_bind rp_po (rp_yieldEv e) (fun _ => rp_regular)))
    (fun x => spec_bind rp_po ?_ (fun _ => spec_throwE rp_po _))
  split
  · exact rp_onDisconnect
  · exact spec_pure rp_po _

theorem rp_leaves : Lift.Leaves RP where
  po := rp_po
  inert := fun s s' h => rp_of_kf ⟨h.cfg, h.react, h.ready, h.startTime, h.now, h.nextPing⟩
  closeSocket := rp_closeSocket
  wsClose := fun c r => rp_call (call_wsClose c r)
  feedYield := fun b e _ => rp_feedYield b e

/-- **inside `WebSocket.feed` no automatic Ping is ever due** once `_regular()` has run at the top of
    the loop cycle: the model's clock only moves in `selector.wait` -/
theorem pingOK_feedBody (data : Bytes) (s : Sys) (hp : PingOK s) : PingOK (feedBody data s).state :=
  Lift.lift_feedBody rp_leaves data s hp

/-! #### the tail: nothing is written once the socket is closed -/

/-- what may follow the library's reaction to a violation: `CalmV` observations that are not writes -/
def TailV (o : Obs) : Prop := CalmV o ∧ isWrite o = false

theorem tail_closeSocket : Spec (Ext TailV) closeSocket := by
  intro s; unfold closeSocket
  split
  · exact ext_one (o := .sockClose) ⟨trivial, rfl⟩ rfl
  · exact ext_same rfl

theorem tail_selClose : Spec (Ext TailV) selClose := by
  intro s; unfold selClose
  split
  · exact ext_one (o := .selClose) ⟨trivial, rfl⟩ rfl
  · exact ext_same rfl

/-- `_close_socket()` then `yield Disconnected(...)`: whatever the application calls in reaction,
    nothing reaches the wire -/
theorem tail_closeThenYield (e : Event) (he : CalmV (.ev e)) :
    Spec (Ext TailV) (do closeSocket; yieldEv e : M Unit) := by
  intro s
  obtain ⟨s2, l2, h2, so2, _, _, t2, n2⟩ := E2E.closeSocket_trace s
  rw [bind_ok h2]
  have hak := ak_yield_from_push e s2
  obtain ⟨l, el, rl, dl⟩ := hak.trace
  have hdead := dl (show (pushEv e s2).sockOpen = false from so2)
  refine ⟨l ++ .ev e :: l2, ?_, fun o ho => ?_⟩
  · rw [el]; show l ++ (Obs.ev e :: s2.trace) = _; rw [t2]; simp
  · rcases List.mem_append.mp ho with ho | ho
    · exact ⟨rl.calm o ho, hdead o ho⟩
    · rcases List.mem_cons.mp ho with rfl | ho
      · exact ⟨he, rfl⟩
      · rw [n2 o ho]; exact ⟨trivial, rfl⟩

theorem tail_onLoopEnd_some (y : Exn) : Spec (Ext TailV) (onLoopEnd (some y)) := by
  unfold onLoopEnd
  split
  all_goals first
    | exact tail_closeThenYield _ trivial
    | exact spec_throwE (ext_po _) _
    | skip
  rename_i h; cases h

theorem tail_runFinally (x : Exn) : Spec (Ext TailV) (runFinally x) := by
  unfold runFinally
  refine spec_getS_bind (ext_po _) (fun s => spec_bind (ext_po _) ?_ (fun _ =>
    spec_bind (ext_po _) tail_selClose (fun _ => spec_throwE (ext_po _) _)))
  split
  · exact tail_closeSocket
  · exact spec_pure (ext_po _) _

theorem TailV.calm {o : Obs} (h : TailV o) : CalmV o := h.1

/-! #### exactly one ProtocolError, and the structure of what follows it -/

/-- exactly one ProtocolError event was added; before it only non-ProtocolError observations;
    after it the application's reaction, at most one Close written by the library, then a tail
    without any write -/
def OnePE2 (s s' : Sys) : Prop :=
  ∃ post cw l m c pre, s'.trace = post ++ cw ++ l ++ .ev (.protocolError m c) :: pre ++ s.trace ∧
    (∀ o ∈ post, TailV o) ∧ CloseWrite m c cw ∧ ReactSeg l ∧ (∀ o ∈ pre, NotPE o)

theorem OnePE2.after {a b c : Sys} (h : OnePE2 a b) (h2 : Ext TailV b c) : OnePE2 a c := by
  obtain ⟨post, cw, l, m, cr, pre, e, hp, hcw, hl, hq⟩ := h
  obtain ⟨l2, e2, hl2⟩ := h2
  refine ⟨l2 ++ post, cw, l, m, cr, pre, by rw [e2, e]; simp, ?_, hcw, hl, hq⟩
  intro o ho
  rcases List.mem_append.mp ho with h | h
  · exact hl2 o h
  · exact hp o h

theorem OnePE2.before {a b c : Sys} (h1 : Ext NotPE a b) (h : OnePE2 b c) : OnePE2 a c := by
  obtain ⟨post, cw, l, m, cr, pre, e, hp, hcw, hl, hq⟩ := h
  obtain ⟨l1, e1, hl1⟩ := h1
  refine ⟨post, cw, l, m, cr, pre ++ l1, by rw [e, e1]; simp, hp, hcw, hl, ?_⟩
  intro o ho
  rcases List.mem_append.mp ho with h | h
  · exact hq o h
  · exact hl1 o h

def Quiet2 (s s' : Sys) : Prop := Ext NotPE s s' ∨ OnePE2 s s'

theorem Quiet2.after {a b c : Sys} (h : Quiet2 a b) (h2 : Ext TailV b c) : Quiet2 a c := by
  rcases h with h | h
  · exact Or.inl ((ext_po _).trans h (h2.mono (fun o ho => ho.1.notPE)))
  · exact Or.inr (h.after h2)

theorem Quiet2.before {a b c : Sys} (h1 : Ext NotPE a b) (h : Quiet2 b c) : Quiet2 a c := by
  rcases h with h | h
  · exact Or.inl ((ext_po _).trans h1 h)
  · exact Or.inr (h.before h1)

/-- **`WebSocket.feed`, any application**, entered with no automatic Ping due -/
theorem wsFeed_trace2 (data : Bytes) (s : Sys) (hp : PingOK s) :
    match wsFeed data s with
    | .ok _ s' => Ext NotPE s s'
    | .err _ s' => Quiet2 s s' := by
  by_cases hc : s.closed = true
  · unfold wsFeed; simp only [hc, if_true]; exact ext_same rfl
  · have hc' : s.closed = false := by simpa using hc
    have hq := quiet_feedBody data s
    have hp1 := pingOK_feedBody data s hp
    cases hb : feedBody data s with
    | ok u s1 =>
      rw [hb] at hq
      rw [wsFeed_of_feedBody_ok data s s1 hc' hb]
      exact hq
    | err x s1 =>
      rw [hb] at hq hp1
      simp only [Res.state_err] at hq hp1
      cases hx : violationOf x with
      | some mc =>
        obtain ⟨msg, crit⟩ := mc
        obtain ⟨y, s2, l, cw, e, htr, hseg, hcw⟩ := feedHandler_any_app x msg crit hx s1 hp1
        rw [wsFeed_of_feedBody_err data s s1 x hc' hb, tryC_err e]
        have : ∃ y', unwrapOuter y s2 = .err y' s2 := by
          unfold unwrapOuter; cases y <;> exact ⟨_, rfl⟩
        obtain ⟨y', hy'⟩ := this
        rw [hy']
        exact Or.inr (OnePE2.before hq ⟨[], cw, l, msg, crit, [], by rw [htr]; simp, by simp, hcw, hseg, by simp⟩)
      | none =>
        rw [wsFeed_of_feedBody_err data s s1 x hc' hb]
        have : feedHandler x s1 = .err x s1 := by
          unfold feedHandler
          cases x <;> first | (cases hx; done) | rfl
        rw [tryC_err this]
        have : ∃ y, unwrapOuter x s1 = .err y s1 := by
          unfold unwrapOuter; cases x <;> exact ⟨_, rfl⟩
        obtain ⟨y, hy⟩ := this
        rw [hy]
        exact Or.inl hq

def ResQ2 (s : Sys) (r : Res α) : Prop :=
  match r with
  | .ok _ s' => Ext NotPE s s'
  | .err _ s' => Quiet2 s s'

theorem onEof_same2 (s : Sys) : ResQ2 s (onEof s) := by
  unfold onEof; split
  · exact Or.inl (ext_same rfl)
  · exact ext_same rfl

theorem recvStep_trace2 (o : RecvOutcome) (s : Sys) (hp : PingOK s) : ResQ2 s (recvStep o s) := by
  unfold recvStep
  split
  · exact onEof_same2 s
  · split
    · exact Or.inl (ext_same rfl)
    · exact Or.inl (ext_same rfl)
    · exact onEof_same2 s
    · rename_i bs
      split
      · exact onEof_same2 s
      · have := wsFeed_trace2 bs s hp
        split <;> (rename_i h; rw [h] at this; exact this)

theorem loop_trace2 (env : List EnvStep) (s : Sys) : ResQ2 s (loop env s) := by
  induction env generalizing s with
  | nil => unfold loop; split; exact ext_same rfl; exact Or.inl (ext_same rfl)
  | cons st rest ih =>
    unfold loop
    split
    · exact ext_same rfl
    · split
      · exact Or.inl (ext_same rfl)
      · rename_i dt readable
        have h0 := tick_quiet s dt
        have h1 := ext_regular timers_notPE (tick s dt)
        unfold regularTop
        split
        · rename_i x s2 hr; rw [hr] at h1
          exact Or.inl ((ext_po _).trans h0 h1)
        · rename_i u s2 hr; rw [hr] at h1
          simp only [Res.state_ok] at h1
          have hp2 : PingOK s2 := regular_ok_pingOK hr
          have h01 := (ext_po _).trans h0 h1
          split
          · have := ih s2
            cases hl : loop rest s2 with
            | ok a s' => rw [hl] at this; exact (ext_po _).trans h01 this
            | err x s' => rw [hl] at this; exact Quiet2.before h01 this
          · rename_i o
            have h2 := recvStep_trace2 o s2 hp2
            split
            · rename_i x s3 hr2; rw [hr2] at h2; exact Quiet2.before h01 h2
            · rename_i s3 hr2; rw [hr2] at h2
              have h012 : Ext NotPE s s3 := (ext_po _).trans h01 h2
              have := ih s3
              cases hl : loop rest s3 with
              | ok a s' => rw [hl] at this; exact (ext_po _).trans h012 this
              | err x s' => rw [hl] at this; exact Quiet2.before h012 this
            · rename_i s3 hr2; rw [hr2] at h2; exact (ext_po _).trans h01 h2

theorem runBody_trace2 (env : List EnvStep) (s : Sys) : Quiet2 s (runBody env s).state := by
  have hl := loop_trace2 env s
  cases h : loop env s with
  | ok u s1 =>
    rw [h] at hl
    rw [runBody_of_loop_okV env s s1 h]
    exact Or.inl ((ext_po _).trans hl (quiet_onLoopEnd_none s1))
  | err y s1 =>
    rw [h] at hl
    rw [runBody_of_loop_err env s s1 y h]
    exact Quiet2.after hl (tail_onLoopEnd_some y s1)

theorem runLoop_trace2 (s : Sys) : Quiet2 s (runLoop s).state := by
  unfold runLoop
  rw [bind_ok (show getS s = .ok s s from rfl)]
  have hb := runBody_trace2 s.env s
  cases h : runBody s.env s with
  | ok u s1 =>
    rw [h] at hb
    have : (do runBody s.env; selClose : M Unit) s = selClose s1 := bind_ok h
    unfold tryC
    rw [this]
    have hs := tail_selClose s1
    cases h2 : selClose s1 with
    | ok a s2 => rw [h2] at hs; exact Quiet2.after hb hs
    | err x s2 =>
      rw [h2] at hs
      simp only [Res.state_err] at hs
      exact Quiet2.after (Quiet2.after hb hs) (tail_runFinally x s2)
  | err x s1 =>
    rw [h] at hb
    have : (do runBody s.env; selClose : M Unit) s = .err x s1 := bind_err h
    rw [tryC_err this]
    exact Quiet2.after hb (tail_runFinally x s1)

theorem quiet2_bind {m : M α} {f : α → M β} (hm : Spec (Ext NotPE) m) (hf : ∀ a s, Quiet2 s (f a s).state)
    (s : Sys) : Quiet2 s ((m >>= f) s).state := by
  have h1 := hm s
  cases h : m s with
  | ok a s1 => rw [h] at h1; rw [bind_ok h]; exact Quiet2.before h1 (hf a s1)
  | err x s1 => rw [h] at h1; rw [bind_err h]; exact Or.inl h1

theorem afterConnect_trace2 (proxy : Bool) (s : Sys) : Quiet2 s (afterConnect proxy s).state := by
  unfold afterConnect
  refine quiet2_bind (spec_modS ?h1) (fun _ => quiet2_bind (spec_getS (ext_po _)) (fun s0 =>
    quiet2_bind (ext_write timers_notPE _ _) (fun r s1 => ?h2))) s
  case h1 => intro s; exact ext_same rfl
  split
  · exact Or.inl (spec_bind (ext_po _) (ext_closeSocket timers_notPE)
      (fun _ => ext_yieldEv timers_notPE _ (by npe)) s1)
  · refine quiet2_bind (quiet_yieldConnected proxy) (fun _ =>
      quiet2_bind (spec_modS ?h3) (fun _ => runLoop_trace2)) s1
    intro s; exact ext_same rfl

theorem run_trace2 (s : Sys) : Quiet2 s (run s).state := by
  unfold run
  refine quiet2_bind (ext_yieldEv timers_notPE _ (by npe)) (fun _ =>
    quiet2_bind (spec_getS (ext_po _)) (fun s0 s1 => ?_)) s
  cases s0.cfg.connect with
  | socketFail => exact Or.inl (ext_yieldEv timers_notPE _ (by npe) s1)
  | otherFail => exact Or.inl (ext_yieldEv timers_notPE _ (by npe) s1)
  | ok proxy => exact afterConnect_trace2 _ s1
  | selFail proxy => exact Or.inl (quiet_afterConnectNoSel _ s1)

/-- **whole connection, any application**: no ProtocolError event, or exactly one, followed by the
    application's reaction, at most one Close frame of the library's, and a tail without writes -/
theorem runAll_trace2 (cfg : Cfg) (react : React) (env : List EnvStep) :
    (∀ o ∈ (runAll cfg react env).trace, NotPE o) ∨
    ∃ post cw l m c pre, (runAll cfg react env).trace = post ++ cw ++ l ++ .ev (.protocolError m c) :: pre ∧
      (∀ o ∈ post, TailV o) ∧ CloseWrite m c cw ∧ ReactSeg l ∧ (∀ o ∈ pre, NotPE o) := by
  have h := run_trace2 { cfg := cfg, react := react, env := env }
  have fin : ∀ s' : Sys, Quiet2 { cfg := cfg, react := react, env := env } s' →
      (∀ o ∈ s'.trace, NotPE o) ∨
      ∃ post cw l m c pre, s'.trace = post ++ cw ++ l ++ .ev (.protocolError m c) :: pre ∧
        (∀ o ∈ post, TailV o) ∧ CloseWrite m c cw ∧ ReactSeg l ∧ (∀ o ∈ pre, NotPE o) := by
    intro s' hq
    rcases hq with ⟨l, e, hl⟩ | ⟨post, cw, l, m, c, pre, e, hp, hcw, hl, hq⟩
    · left; rw [e]; simpa using hl
    · right; exact ⟨post, cw, l, m, c, pre, by rw [e]; simp, hp, hcw, hl, hq⟩
  have cs : ∀ s : Sys, Ext TailV s (match closeSocket s with | .ok _ s' => s' | .err _ s' => s') := by
    intro s
    have := tail_closeSocket s
    cases hc : closeSocket s with
    | ok a s' => rw [hc] at this; exact this
    | err x s' => rw [hc] at this; exact this
  have inc : ∀ s : Sys, Ext TailV s { s with trace := .incomplete :: s.trace } :=
    fun s => ext_one (o := .incomplete) ⟨trivial, rfl⟩ rfl
  unfold runAll
  simp only []
  generalize run { cfg := cfg, react := react, env := env } = r at h
  cases r with
  | ok a s => exact fin _ h
  | err x s =>
    simp only [Res.state_err] at h
    cases x with
    | genExit => simp only []; split; exact fin _ (h.after (cs s)); exact fin _ h
    | outer y =>
      cases y with
      | genExit => simp only []; split; exact fin _ (h.after (cs s)); exact fin _ h
      | _ => exact fin _ (h.after (inc s))
    | _ => exact fin _ (h.after (inc s))

end Lomond.Core.AnyApp

/-! ### a violation end to end, send-only application, with the structure of what follows -/

namespace Lomond.Core.E2E
open Lomond Lomond.Core Lomond.Core.AnyApp

theorem pingOK_of_I {s : Sys} (h : I s) : PingOK s := by
  intro _ hd
  unfold Timers.pingDue at hd
  rw [h.time0] at hd
  omega

theorem tailV_of_tailObs {k : String} {o : Obs} (h : TailObs (.disconnected k false) o) : TailV o := by
  rcases h with rfl | rfl | rfl | h
  · exact ⟨trivial, rfl⟩
  · exact ⟨trivial, rfl⟩
  · exact ⟨trivial, rfl⟩
  · cases o <;> first | exact ⟨trivial, rfl⟩ | cases h

/-- `feedHandler_send` with the reaction identified as the application's own (`ReactSeg`) -/
theorem feedHandler_send2 (x : Exn) (msg : String) (crit : Bool) (hx : violationOf x = some (msg, crit))
    (s1 : Sys) (hi : I s1) :
    ∃ y s2 l cw, feedHandler x s1 = .err y s2 ∧
      s2.trace = cw ++ l ++ .ev (.protocolError msg crit) :: s1.trace ∧
      (∀ o ∈ l, Obs.isEv o = false) ∧ ReactSeg l ∧ CloseWrite msg crit cw ∧
      (y = .forceDisconnect "forced" ∨ (crit = false ∧ y = .other "error")) ∧ s2.react = s1.react := by
  obtain ⟨s', hfy, kk⟩ := feedYield_pe_send msg crit s1 hi
  obtain ⟨l, hl, nl, _⟩ := kk.trace
  have hl' : s'.trace = l ++ .ev (.protocolError msg crit) :: s1.trace := hl
  have hseg : ReactSeg l := by
    have hak := feedYield_pe_seg msg crit s1 (pingOK_of_I hi)
    rw [hfy] at hak
    obtain ⟨l2, hl2, r2, _⟩ := hak.trace
    have : l2 = l := List.append_cancel_right (hl2.symm.trans hl)
    rw [← this]; exact r2
  have hre : s'.react = s1.react := kk.react
  cases x with
  | parse m =>
    cases hx
    refine ⟨.forceDisconnect "forced", s', l, [], ?_, by simpa using hl', nl, hseg, Or.inl rfl, Or.inl rfl, hre⟩
    unfold feedHandler; simp only []; rw [bind_ok hfy]; rfl
  | critical m =>
    cases hx
    refine ⟨.forceDisconnect "forced", s', l, [], ?_, by simpa using hl', nl, hseg, Or.inl rfl, Or.inl rfl, hre⟩
    unfold feedHandler; simp only []; rw [bind_ok hfy]; rfl
  | protocol m =>
    cases hx
    obtain ⟨res, s3, hw, ht⟩ := wsClose_traceV Gen.statusProtocolError (Http.ofString msg) s'
    have hre3 : s3.react = s'.react := ((step_wsClose _ _).ok hw).react
    have hcw : ∃ cw, s3.trace = cw ++ s'.trace ∧ CloseWrite msg false cw := by
      rcases ht with h | ⟨key, bytes, hb, h | h⟩
      · exact ⟨[], h, Or.inl rfl⟩
      · exact ⟨[.wr bytes], h, Or.inr ⟨rfl, key, bytes, hb, Or.inl rfl⟩⟩
      · exact ⟨[.wrFail bytes], h, Or.inr ⟨rfl, key, bytes, hb, Or.inr rfl⟩⟩
    obtain ⟨cw, hcw1, hcw2⟩ := hcw
    have htr : s3.trace = cw ++ l ++ .ev (.protocolError msg false) :: s1.trace := by
      rw [hcw1, hl', List.append_assoc]
    by_cases ha : res = .valueError ∨ res = .structError ∨ res = .typeError
    · refine ⟨.other "error", s3, l, cw, ?_, htr, nl, hseg, hcw2, Or.inr ⟨rfl, rfl⟩, hre3.trans hre⟩
      unfold feedHandler; simp only []
      rw [bind_ok hfy, bind_ok hw]
      unfold raiseIfArgError
      rw [if_pos ha]; rfl
    · refine ⟨.forceDisconnect "forced", s3, l, cw, ?_, htr, nl, hseg, hcw2, Or.inl rfl, hre3.trans hre⟩
      unfold feedHandler; simp only []
      rw [bind_ok hfy, bind_ok hw]
      unfold raiseIfArgError
      rw [if_neg ha]; rfl
  | _ => cases hx

theorem wsFeed_violation_send2 (data : Bytes) (s s1 : Sys) (x : Exn) (msg : String) (crit : Bool)
    (hc : s.closed = false) (hp : s.p.cont ≠ .header) (hfl : feedLoop data s = .err x s1)
    (hx : violationOf x = some (msg, crit)) (hi : I s1) :
    ∃ y s2 l cw, wsFeed data s = .err y s2 ∧
      s2.trace = cw ++ l ++ .ev (.protocolError msg crit) :: s1.trace ∧
      (∀ o ∈ l, Obs.isEv o = false) ∧ ReactSeg l ∧ CloseWrite msg crit cw ∧
      (y = .forceDisconnect "forced" ∨ (crit = false ∧ y = .other "error")) ∧ s2.react = s1.react := by
  obtain ⟨y, s2, l, cw, hh, ht, nl, hseg, hcw, hy, hre⟩ := feedHandler_send2 x msg crit hx s1 hi
  refine ⟨y, s2, l, cw, ?_, ht, nl, hseg, hcw, hy, hre⟩
  have hb : feedBody data s = .err x s1 := by rw [feedBody_frames _ _ hp, hfl]
  rw [wsFeed_of_feedBody_err data s s1 x hc hb, tryC_err hh]
  rcases hy with rfl | ⟨_, rfl⟩ <;> rfl

/-- **A violation, end to end**, extension negotiated or not (cf. `run_violation`), with the
    structure of what follows the ProtocolError event: `l` is the application's own reaction
    (`ReactSeg`, no event in it), `cw` at most one Close of the library's, `post` writes nothing -/
theorem run_violation_g {cfg : Cfg} {react : React} {proxy : Bool} (hs : Setup cfg react proxy)
    {reply : Bytes} {proto : Option Http.Str} {dz : Option Http.DeflateCfg} (hg : GoodReplyG cfg reply proto dz)
    (chunks : List Bytes) (stream : Bytes) (rest : List EnvStep)
    (hne : ∀ c ∈ chunks, c ≠ []) (hflat : chunks.flatten = reply ++ stream)
    (X : List Event) (P : String → Bool → Prop)
    (hv : ∀ s4, AtReadyG cfg react proxy proto dz s4 → ∃ x s1 msg crit,
        feedLoop stream s4 = .err x s1 ∧ violationOf x = some (msg, crit) ∧ I s1 ∧
        hist s1.trace = X.reverse ++ hist s4.trace ∧ P msg crit) :
    ∃ msg crit k cw l post pre, P msg crit ∧
      (runAll cfg react (reads chunks ++ rest)).trace = post ++ cw ++ l ++ .ev (.protocolError msg crit) :: pre ∧
      hist pre = X.reverse ++ [.poll, .ready proto dz.isSome, .connected proxy, .connecting] ∧
      ((∀ o ∈ l, Obs.isEv o = false) ∧ ReactSeg l) ∧ CloseWrite msg crit cw ∧
      hist post = [.disconnected k false] ∧
      ((∀ o ∈ post, TailObs (.disconnected k false) o) ∧ ∀ o ∈ post, TailV o) ∧
      (k = "forced" ∨ (crit = false ∧ k = "error")) ∧
      Monitor.events (runAll cfg react (reads chunks ++ rest)).trace =
        [.connecting, .connected proxy, .ready proto dz.isSome, .poll] ++ X ++
          [.protocolError msg crit, .disconnected k false] := by
  obtain ⟨sA, s4, h4, hrun, hloop⟩ := bridge_g hs hg chunks stream rest hne hflat
  obtain ⟨x, s1, msg, crit, hfl, hx, i1, hh1, hP⟩ := hv s4 h4
  have hnh : s4.p.cont ≠ .header := by rw [h4.between.b.cont]; simp
  obtain ⟨y, s2, l, cw, hws, ht2, nl, hseg, hcw, hy, hre2⟩ :=
    wsFeed_violation_send2 stream s4 s1 x msg crit h4.closed hnh hfl hx i1
  rw [hws] at hloop
  simp only [] at hloop
  have hk : ∃ k, (y = .forceDisconnect k ∨ y = .socketFail k ∨ y = .other k) ∧
      (k = "forced" ∨ (crit = false ∧ k = "error")) := by
    rcases hy with rfl | ⟨hc, rfl⟩
    · exact ⟨"forced", Or.inl rfl, Or.inl rfl⟩
    · exact ⟨"error", Or.inr (Or.inr rfl), Or.inr ⟨hc, rfl⟩⟩
  obtain ⟨k, hyk, hkk⟩ := hk
  obtain ⟨sF, post, hF, tF, hhF, nF⟩ := finish_err _ sA s2 y k hloop hyk (by rw [hre2]; exact i1.app)
  have hall : (runAll cfg react (reads chunks ++ rest)).trace
      = post ++ cw ++ l ++ .ev (.protocolError msg crit) :: s1.trace := by
    rw [runAll_ok cfg react _ sF (hrun.trans hF), tF, ht2]; simp
  have hpre : hist s1.trace = X.reverse ++ [.poll, .ready proto dz.isSome, .connected proxy, .connecting] := by
    rw [hh1, h4.hist]
  refine ⟨msg, crit, k, cw, l, post, s1.trace, hP, hall, hpre, ⟨nl, hseg⟩, hcw, hhF,
    ⟨nF, fun o ho => tailV_of_tailObs (nF o ho)⟩, hkk, ?_⟩
  rw [events_eq_hist, hall, hist_append, hist_append, hist_append, hhF, closeWrite_hist hcw, hist_nonEv l nl,
    hist_cons_ev, hpre]
  simp

end Lomond.Core.E2E

/-! ### one frame through the lazy loop; a connection that goes on to the end of the stream -/

namespace Lomond.Core.E2E
open Lomond Lomond.Core

/-- one complete unmasked frame that the parser accepts: the frame goes through the consumer, then
    the loop goes on with the rest -/
theorem feedLoop_one_frame (s : Sys) (hb : Boundary s.p) (b0 : Nat) (form : LenForm) (payload : Bytes)
    (hf : form.ok payload.length) (tail : Bytes) (p' : PState) (f : Frame)
    (hstep : frameStep s.cfg.v s.p b0 payload = .ok (p', .frame f)) (hp' : p'.cont ≠ .header) :
    feedLoop (serialise b0 form payload ++ tail) s = contLoop (onOut (.frame f) { s with p := p' }) tail := by
  have hnh : s.p.cont ≠ .header := by rw [hb.cont]; simp
  obtain ⟨q, _, hp⟩ := pRun_frame s.cfg.v s.p hb b0 form payload hf tail
  rw [hstep] at hp
  simp only [] at hp
  rw [feedLoop_eq_fold _ s hnh, hp]
  simp only [PRun.push_fin, PRun.push_outs_some, consume]
  have hk := keep_onOut_frame f { s with p := p' }
  have hs := step_onOut (.frame f) { s with p := p' }
  cases hr : onOut (.frame f) { s with p := p' } with
  | err x s2 => rfl
  | ok go s2 =>
    rw [hr] at hk hs
    simp only [Res.state_ok] at hk hs
    cases go with
    | false => rfl
    | true =>
      simp only [contLoop]
      have e1 : s2.p = p' := hk
      have e2 : s2.cfg = s.cfg := hs.cfg
      have hc2 : s2.p.cont ≠ .header := by rw [e1]; exact hp'
      rw [feedLoop_eq_fold tail s2 hc2, e1, e2]

end Lomond.Core.E2E

namespace Lomond.Core.E2E
open Lomond Lomond.Core

/-- **the stream is consumed normally, then the server's end of stream**: the events are the
    handshake, what the stream yielded, a Poll iff the last wait reaches the poll interval, and
    `Disconnected('connection-lost')` -/
theorem run_ok_eof {cfg : Cfg} {react : React} {proxy : Bool} (hs : Setup cfg react proxy)
    {reply : Bytes} {proto : Option Http.Str} {dz : Option Http.DeflateCfg} (hg : GoodReplyG cfg reply proto dz)
    (chunks : List Bytes) (stream : Bytes) (hne : ∀ c ∈ chunks, c ≠ []) (hflat : chunks.flatten = reply ++ stream)
    (dt : Nat) (hpt : cfg.pingTimeout = 0 ∨ dt ≤ cfg.pingTimeout) (hct : cfg.closeTimeout = 0 ∨ dt < cfg.closeTimeout)
    (X : List Event)
    (hv : ∀ s4, AtReadyG cfg react proxy proto dz s4 → ∃ s5, feedLoop stream s4 = .ok true s5 ∧
        s5.closed = false ∧ s5.closing = false ∧ hist s5.trace = X.reverse ++ hist s4.trace) :
    Monitor.events (runAll cfg react (reads chunks ++ [.wait dt (some .eof)])).trace =
      [.connecting, .connected proxy, .ready proto dz.isSome, .poll] ++ X ++
        (if cfg.poll ≤ dt then [.poll] else []) ++ [.disconnected "connection-lost" false] := by
  obtain ⟨sA, s4, h4, hrun, hloop⟩ := bridge_g hs hg chunks stream [.wait dt (some .eof)] hne hflat
  obtain ⟨s5, hfl, hcl5, hcg5, hh5⟩ := hv s4 h4
  have hnh : s4.p.cont ≠ .header := by rw [h4.between.b.cont]; simp
  have hws : wsFeed stream s4 = .ok () s5 :=
    wsFeed_of_feedBody_ok _ s4 s5 h4.closed (by rw [feedBody_frames _ _ hnh, hfl])
  obtain ⟨i5, hz⟩ := z_wsFeed _ s4 () s5 hws h4.i
  obtain ⟨r5, _⟩ := hz h4.ready
  have hcf5 : s5.cfg = cfg := ((step_wsFeed _).ok hws).cfg.trans h4.cfg
  have hre5 : s5.react = react := ((step_wsFeed _).ok hws).react.trans h4.react
  obtain ⟨s6, hreg, hh6, hcl6, hcg6, hre6⟩ := regular_tick s5 dt i5 r5 (by rw [hcf5]; exact hpt) (by rw [hcf5]; exact hct)
  rw [hws] at hloop
  simp only [] at hloop
  rw [loop_eof dt [] s5 s6 hcl5 hreg] at hloop
  have ha6 : SendOnly s6.react := by rw [hre6, hre5]; exact hs.app
  have hc : ¬ s6.closing = true ∧ ¬ s6.closed = true := by
    rw [hcg6, hcg5, hcl6, hcl5]; simp
  rw [if_pos hc] at hloop
  obtain ⟨sF, post, hF, tF, hhF, _⟩ := finish_err _ sA s6 _ "connection-lost" hloop (Or.inr (Or.inl rfl)) ha6
  rw [runAll_ok cfg react _ sF (hrun.trans hF), events_eq_hist, tF, hist_append, hhF, hh6, hcf5, hh5, h4.hist]
  by_cases hd : cfg.poll ≤ dt <;> simp [hd]

/-! ### one compressed text message (RSV1 = 1 on its first frame), in any fragmentation -/

/-- a compressed message: the first fragment carries RSV1, continuation fragments follow (FIN on the
    last one); `joined` is the compressed payload -/
structure ZMsg where
  first : Frag
  rest : List Frag

def ZMsg.joined (m : ZMsg) : Bytes := m.first.payload ++ (m.rest.map (·.payload)).flatten
def ZMsg.Ok (m : ZMsg) : Prop := m.first.Ok ∧ ∀ g ∈ m.rest, g.Ok

instance (m : ZMsg) : Decidable m.Ok := by unfold ZMsg.Ok; exact inferInstance

/-- first header byte: FIN, RSV1 and opcode Text on the first fragment, opcode Continuation after -/
def zb0 (first fin : Bool) : Nat := (if fin then 128 else 0) + (if first then 65 else 0)

def zframe (first fin : Bool) (payload : Bytes) : Frame :=
  { opcode := if first then 1 else 0, payload := payload, fin := if fin then 1 else 0, rsv1 := if first then 1 else 0 }

def zbytes (first fin : Bool) (g : Frag) : Bytes := serialise (zb0 first fin) g.form g.payload

/-- continuation fragments on the wire, FIN on the last -/
def zcont : List Frag → Bytes
  | [] => []
  | [g] => zbytes false true g
  | g :: g' :: r => zbytes false false g ++ zcont (g' :: r)

def ZMsg.bytes (m : ZMsg) : Bytes := zbytes true m.rest.isEmpty m.first ++ zcont m.rest

theorem hdrFrame_zb0 (first fin : Bool) (payload : Bytes) :
    ({ hdrFrame (zb0 first fin) with payload := payload } : Frame) = zframe first fin payload := by
  cases first <;> cases fin <;> rfl

/-- inside a compressed message -/
structure ZIn (p : PState) : Prop where
  isText : p.isText = true
  ic : p.isCompressed = true

/-- **the parser on one frame of a compressed message**: no incremental validation, the frame is
    handed on as it is; the validator state is untouched -/
theorem zframe_step (v : Variant) (p : PState) (hc : p.compression = true) (first fin : Bool)
    (hin : first = false → ZIn p) (payload : Bytes) :
    ∃ p', frameStep v p (zb0 first fin) payload = .ok (p', .frame (zframe first fin payload)) ∧ Boundary p' ∧
      p'.compression = true ∧ p'.dfa = p.dfa ∧ (fin = false → ZIn p') ∧ (fin = true → p'.isText = false) := by
  have hval : validateFrame v p.compression (hdrFrame (zb0 first fin)) payload.length = .ok () := by
    rw [hc]
    cases first <;> cases fin <;>
      simp [validateFrame, hdrFrame, zb0, isReservedOp, Gen.reservedOpcodes, Frame.isControl]
  rw [frameStep_eq v p _ payload hval]
  have hnv : noValidate v (afterHdr p.resumed (hdrFrame (zb0 first fin))) := by
    cases first with
    | true =>
      have : afterHdr p.resumed (hdrFrame (zb0 true fin)) = { p.resumed with isText := true, isCompressed := true } := by
        cases fin <;> rfl
      rw [this]
      unfold noValidate
      have hc' : p.resumed.compression = true := hc
      cases v.perMsgValidate <;> simp [hc']
    | false =>
      have : afterHdr p.resumed (hdrFrame (zb0 false fin)) = p.resumed := by
        cases fin <;> rfl
      rw [this]
      unfold noValidate
      have hc' : p.resumed.compression = true := hc
      have hi : p.resumed.isCompressed = true := (hin rfl).ic
      cases v.perMsgValidate <;> simp [hc', hi]
  have hflag : valFlag v (afterHdr p.resumed (hdrFrame (zb0 first fin))) (hdrFrame (zb0 first fin)) = false := by
    unfold valFlag
    simp [hnv]
  rw [hflag]
  simp only [Bool.and_false, Bool.false_eq_true, and_false, decide_false, vres, if_false]
  rw [hdrFrame_zb0]
  refine ⟨_, rfl, ⟨rfl, rfl, rfl, rfl⟩, ?_, ?_, ?_, ?_⟩
  · show (afterHdr p.resumed (hdrFrame (zb0 first fin))).compression = true
    unfold afterHdr; split <;> exact hc
  · unfold doneState
    have hnv' : noValidate v ({ afterHdr p.resumed (hdrFrame (zb0 first fin)) with dfa := p.dfa } : PState) := hnv
    simp only [hnv', not_true_eq_false, false_and, if_false]
  · intro hfin
    subst hfin
    cases first with
    | true => exact ⟨rfl, rfl⟩
    | false =>
      obtain ⟨h1, h2⟩ := hin rfl
      exact ⟨h1, h2⟩
  · intro hfin
    subst hfin
    unfold doneState
    cases first <;> simp [zframe, Frame.isControl]

/-- what an uncompressed-state bookkeeping change is: parser, fragment list, inflate context -/
abbrev Book (s s' : Sys) : Prop := LiftX.InertF s s'

theorem I.of_book {s s' : Sys} (b : Book s s') (h : I s) : I s' :=
  ⟨by rw [b.inert.react]; exact h.app, by rw [b.inert.cfg]; exact h.poll,
   by rw [b.inert.sockOpen, b.closed]; exact h.sock,
   fun hr => by rw [b.inert.startTime, b.inert.pollStart]; exact h.nr (b.inert.ready ▸ hr),
   fun hr => by rw [b.inert.startTime, b.inert.pollStart, b.inert.now]; exact h.rd (b.inert.ready ▸ hr)⟩

/-- the fragment list while a compressed message is open: its first frame carries RSV1 and opcode
    Text, the payloads so far join to `acc` -/
structure ZOpen (s : Sys) (acc : Bytes) : Prop where
  frames : ∃ f0 tl, s.frames = f0 :: tl ∧ f0.rsv1 ≠ 0 ∧ f0.opcode = 1 ∧ ((f0 :: tl).map (·.payload)).flatten = acc
  zin : ZIn s.p
  b : Boundary s.p
  comp : s.p.compression = true
  dfa : s.p.dfa = 0

/-- how the final frame of a compressed text message ends, `joined` being the whole compressed
    payload and `s0` the state in front of the message (whose inflate context is used):
    `inflate` fails ⇒ critical error; the inflated bytes are not well-formed UTF-8 ⇒ critical error;
    otherwise one Text event with their exact decoding, and the connection is idle again -/
def ZOutcome (s0 : Sys) (joined : Bytes) (r : Res Bool) : Prop :=
  match s0.cfg.inflate ((s0.compression.map (·.decompressWbits)).getD 15)
      (s0.inflHist ++ joined ++ [0, 0, 0xff, 0xff]) with
  | none => ∃ s', r = .err (.critical "unable to decompress payload") s' ∧ Book s0 s'
  | some out =>
    match Utf8.decode (out.drop s0.inflOut) with
    | none => ∃ s', r = .err (.critical "payload contains invalid utf-8") s' ∧ Book s0 s'
    | some cps => ∃ s', r = .ok true s' ∧ Rel [.text cps] s0 s' ∧ s'.frames = [] ∧ Between s'.p ∧
        s'.p.compression = true

theorem book_refl (s : Sys) : Book s s := ⟨Lift.Inert.refl s, rfl, rfl⟩

theorem book_trans {a b c : Sys} (h1 : Book a b) (h2 : Book b c) : Book a c :=
  ⟨⟨h2.inert.cfg.trans h1.inert.cfg, h2.inert.react.trans h1.inert.react, h2.inert.env.trans h1.inert.env,
    h2.inert.sockOpen.trans h1.inert.sockOpen, h2.inert.selOpen.trans h1.inert.selOpen,
    h2.inert.ready.trans h1.inert.ready, h2.inert.pollStart.trans h1.inert.pollStart,
    h2.inert.nextPing.trans h1.inert.nextPing, h2.inert.lastPong.trans h1.inert.lastPong,
    h2.inert.startTime.trans h1.inert.startTime, h2.inert.now.trans h1.inert.now,
    h2.inert.sentCloseTime.trans h1.inert.sentCloseTime, h2.inert.keyCtr.trans h1.inert.keyCtr,
    h2.inert.writeCtr.trans h1.inert.writeCtr, h2.inert.hist.trans h1.inert.hist,
    h2.inert.abandonedWith.trans h1.inert.abandonedWith, h2.inert.trace.trans h1.inert.trace⟩,
   h2.closing.trans h1.closing, h2.closed.trans h1.closed⟩

/-- the final frame of a compressed text message through the consumer -/
theorem onOut_zfin (f : Frame) (s : Sys) (g : Good s) (hc : s.closed = false) (hfin : f.fin ≠ 0)
    (hctl : f.isControl = false) (hcont : f.isContinuation = true ↔ s.frames ≠ [])
    (first : Frame) (tl : List Frame) (hfr : s.frames ++ [f] = first :: tl) (h1 : first.rsv1 ≠ 0)
    (hop : first.opcode = 1) (hdec : s.decompress = true) (hbet : Between s.p) (hcomp : s.p.compression = true) :
    ZOutcome s ((first :: tl).map (·.payload)).flatten (onOut (.frame f) s) := by
  let sa : Sys := { s with frames := s.frames ++ [f] }
  have hfr' : sa.frames = first :: tl := hfr
  have hfe : onFrame f s =
      (buildMessage sa.frames >>= fun m => (onMessage m >>= fun _ => modS fun s => { s with frames := [] })) sa := by
    unfold onFrame
    simp only [hctl, Bool.false_eq_true, if_false]
    unfold onDataFrame
    rw [bind_ok (show getS s = .ok s s from rfl)]
    have c1 : ¬ (f.isContinuation = true ∧ s.frames = []) := by
      intro h; exact (hcont.mp h.1) h.2
    have c2 : ¬ (¬ f.isContinuation = true ∧ s.frames ≠ []) := by
      intro h; exact h.1 (hcont.mpr h.2)
    simp only [c1, c2, if_false]
    rw [bind_ok (show modS (fun s => { s with frames := s.frames ++ [f] }) s = .ok () sa from rfl)]
    simp only [hfin, ne_eq, not_false_eq_true, if_true]
    rw [bind_ok (show getS sa = .ok sa sa from rfl)]
  have hpre : onOut (.frame f) s =
      ((buildMessage (first :: tl) >>= fun m => (onMessage m >>= fun _ => modS fun s => { s with frames := [] }))
        >>= fun _ => notClosed) sa := by
    show (do onFrame f; notClosed : M Bool) s = _
    rw [← hfr']
    cases hq : (buildMessage sa.frames >>= fun m => (onMessage m >>= fun _ => modS fun s => { s with frames := [] })) sa with
    | ok u s' => rw [bind_ok (hfe.trans hq), bind_ok hq]
    | err x s' => rw [bind_err (hfe.trans hq), bind_err hq]
  have hb := buildMessage_compressed first tl sa h1 hdec
  simp only [] at hb
  unfold ZOutcome
  rw [hpre]
  have hsa1 : sa.cfg = s.cfg := rfl
  have hsa2 : sa.compression = s.compression := rfl
  have hsa3 : sa.inflHist = s.inflHist := rfl
  have hsa4 : sa.inflOut = s.inflOut := rfl
  rw [hsa1, hsa2, hsa3, hsa4] at hb
  cases hi : s.cfg.inflate ((s.compression.map (·.decompressWbits)).getD 15)
      (s.inflHist ++ ((first :: tl).map (·.payload)).flatten ++ [0, 0, 0xff, 0xff]) with
  | none =>
    rw [hi] at hb
    simp only [] at hb ⊢
    refine ⟨sa, ?_, ⟨by constructor <;> rfl, rfl, rfl⟩⟩
    exact bind_err (bind_err hb)
  | some out =>
    rw [hi] at hb
    simp only [] at hb ⊢
    generalize hsb : (if (s.compression.map (·.resetDecompress)).getD false = true
        then ({ sa with inflHist := [], inflOut := 0 } : Sys)
        else { sa with inflHist := s.inflHist ++ ((first :: tl).map (·.payload)).flatten ++ [0, 0, 0xff, 0xff],
                       inflOut := out.length }) = sb at hb
    have hbook : Book s sb := by
      rw [← hsb]
      split <;> exact ⟨by constructor <;> rfl, rfl, rfl⟩
    have hsbp : sb.p = s.p := by rw [← hsb]; split <;> rfl
    rw [hop] at hb
    cases hd : Utf8.decode (out.drop s.inflOut) with
    | none =>
      simp only []
      have hm : msgOfPayload 1 (out.drop s.inflOut) = .error (.critical "payload contains invalid utf-8") := by
        have := (msgOfPayload_text (out.drop s.inflOut)).2.mpr (by
          have h := Utf8.decode_isSome (out.drop s.inflOut)
          rw [hd] at h
          exact h.symm)
        exact this
      rw [hm] at hb
      exact ⟨sb, bind_err (bind_err hb), hbook⟩
    | some cps =>
      simp only []
      have hm : msgOfPayload 1 (out.drop s.inflOut) = .ok (.text cps) :=
        ((msgOfPayload_text (out.drop s.inflOut)).1 cps).mpr hd
      rw [hm] at hb
      have gb : Good sb := ⟨by rw [hbook.inert.react]; exact g.quiet, by
        have := g.nt
        unfold NoTimeout Core.sessionTime at *
        rw [hbook.inert.cfg, hbook.inert.startTime, hbook.inert.now, hbook.inert.lastPong, hbook.inert.sentCloseTime]
        exact this⟩
      obtain ⟨_, s1, h2, c⟩ := tot_feedYield true (.text cps) trivial sb gb
      have hs1c : s1.closed = false := by rw [c.closed, hbook.closed]; exact hc
      refine ⟨{ s1 with frames := [] }, ?_, ?_, rfl, ?_, ?_⟩
      · have hq : (buildMessage (first :: tl) >>= fun m => (onMessage m >>= fun _ => modS fun s => { s with frames := [] })) sa
            = .ok () { s1 with frames := [] } := by
          rw [bind_ok hb]
          have : onMessage (.text cps) sb = .ok () s1 := h2
          rw [bind_ok this]
          rfl
        rw [bind_ok hq]
        show Res.ok (!s1.closed) _ = _
        rw [hs1c]; rfl
      · refine ⟨c.cfg.trans hbook.inert.cfg, c.react.trans hbook.inert.react, c.closed.trans hbook.closed,
          c.closing.trans hbook.closing, ?_, ?_⟩
        · intro hnt
          apply c.nt
          unfold NoTimeout Core.sessionTime at *
          rw [hbook.inert.cfg, hbook.inert.startTime, hbook.inert.now, hbook.inert.lastPong, hbook.inert.sentCloseTime]
          exact hnt
        · show delivered s1.trace = _
          rw [c.evs, hbook.inert.trace]
      · show Between s1.p
        rw [c.p, hsbp]; exact hbet
      · show s1.p.compression = true
        rw [c.p, hsbp]; exact hcomp

end Lomond.Core.E2E

namespace Lomond.Core.E2E
open Lomond Lomond.Core

/-- the state `s0` with another parser state and fragment list -/
def setPF (s0 : Sys) (p : PState) (fr : List Frame) : Sys := { s0 with p := p, frames := fr }

theorem contLoop_nil (r : Res Bool) : contLoop r [] = r := by
  cases r with
  | err x s => rfl
  | ok b s => cases b <;> simp [contLoop, feedLoop_nil]

theorem book_setPF (s0 : Sys) (p : PState) (fr : List Frame) : Book s0 (setPF s0 p fr) :=
  ⟨by constructor <;> rfl, rfl, rfl⟩

theorem rel_setPF (s0 : Sys) (p : PState) (fr : List Frame) : Rel [] s0 (setPF s0 p fr) :=
  ⟨rfl, rfl, rfl, rfl, id, rfl⟩

/-- the outcome seen from the state in front of the message -/
theorem ZOutcome.rebase {s0 : Sys} {p : PState} {fr : List Frame} {j : Bytes} {r : Res Bool}
    (h : ZOutcome (setPF s0 p fr) j r) : ZOutcome s0 j r := by
  unfold ZOutcome at *
  have e1 : (setPF s0 p fr).cfg = s0.cfg := rfl
  have e2 : (setPF s0 p fr).compression = s0.compression := rfl
  have e3 : (setPF s0 p fr).inflHist = s0.inflHist := rfl
  have e4 : (setPF s0 p fr).inflOut = s0.inflOut := rfl
  rw [e1, e2, e3, e4] at h
  cases hi : s0.cfg.inflate ((s0.compression.map (·.decompressWbits)).getD 15) (s0.inflHist ++ j ++ [0, 0, 0xff, 0xff]) with
  | none =>
    rw [hi] at h
    simp only [] at h ⊢
    obtain ⟨s', e, b⟩ := h
    exact ⟨s', e, book_trans (book_setPF s0 p fr) b⟩
  | some out =>
    rw [hi] at h
    simp only [] at h ⊢
    cases hd : Utf8.decode (out.drop s0.inflOut) with
    | none =>
      rw [hd] at h
      simp only [] at h ⊢
      obtain ⟨s', e, b⟩ := h
      exact ⟨s', e, book_trans (book_setPF s0 p fr) b⟩
    | some cps =>
      rw [hd] at h
      simp only [] at h ⊢
      obtain ⟨s', e, rl, f, bt, c⟩ := h
      exact ⟨s', e, by simpa using (rel_setPF s0 p fr).trans rl, f, bt, c⟩

theorem zframe_facts (first fin : Bool) (payload : Bytes) :
    (zframe first fin payload).isControl = false ∧
    ((zframe first fin payload).isContinuation = true ↔ first = false) ∧
    (zframe first fin payload).payload = payload ∧
    ((zframe first fin payload).fin ≠ 0 ↔ fin = true) := by
  cases first <;> cases fin <;> simp [zframe, Frame.isControl, Frame.isContinuation, Gen.opContinuation]

theorem good_setPF {s0 : Sys} (g : Good s0) (p : PState) (fr : List Frame) : Good (setPF s0 p fr) := ⟨g.quiet, g.nt⟩

/-- the continuation fragments of a compressed text message (FIN on the last) -/
theorem zcont_feed (s0 : Sys) (g : Good s0) (hcl : s0.closed = false) (hdec : s0.decompress = true)
    (r : List Frag) (hr : r ≠ []) (hok : ∀ x ∈ r, x.Ok) (p : PState) (fr : List Frame) (acc : Bytes)
    (hz : ZOpen (setPF s0 p fr) acc) :
    ZOutcome s0 (acc ++ (r.map (·.payload)).flatten) (feedLoop (zcont r) (setPF s0 p fr)) := by
  induction r generalizing p fr acc with
  | nil => exact absurd rfl hr
  | cons x r ih =>
    obtain ⟨f0, tl, hfr, hr1, hop, hacc⟩ := hz.frames
    have hfr' : fr = f0 :: tl := hfr
    have hxok : x.Ok := hok x (by simp)
    cases r with
    | nil =>
      -- the final fragment
      obtain ⟨p', hstep, hb', hc', hd', _, hnt⟩ := zframe_step s0.cfg.v p hz.comp false true (fun _ => hz.zin) x.payload
      have e := feedLoop_one_frame (setPF s0 p fr) hz.b (zb0 false true) x.form x.payload hxok [] p'
        (zframe false true x.payload) hstep (by rw [hb'.cont]; simp)
      have e' : feedLoop (zcont [x]) (setPF s0 p fr) = onOut (.frame (zframe false true x.payload)) (setPF s0 p' fr) := by
        have : zcont [x] = serialise (zb0 false true) x.form x.payload ++ [] := by simp [zcont, zbytes]
        rw [this, e, contLoop_nil]; rfl
      rw [e']
      obtain ⟨hctl, hcont, hpl, hfin⟩ := zframe_facts false true x.payload
      have hbet : Between (setPF s0 p' fr).p := ⟨hb', hnt rfl, hd'.trans hz.dfa⟩
      have ho := onOut_zfin (zframe false true x.payload) (setPF s0 p' fr) (good_setPF g _ _) hcl (hfin.mpr rfl) hctl
        (by
          show _ ↔ fr ≠ []
          rw [hfr']; simp [hcont]) f0 (tl ++ [zframe false true x.payload])
        (by show fr ++ _ = _; rw [hfr']; rfl) hr1 hop hdec hbet hc'
      have hj : ((f0 :: (tl ++ [zframe false true x.payload])).map (·.payload)).flatten
          = acc ++ (([x].map (·.payload)).flatten) := by
        have : ((f0 :: (tl ++ [zframe false true x.payload])).map (·.payload)).flatten
            = ((f0 :: tl).map (·.payload)).flatten ++ x.payload := by
          simp [hpl]
        rw [this, hacc]; simp
      rw [hj] at ho
      exact ho.rebase
    | cons x' r' =>
      obtain ⟨p', hstep, hb', hc', hd', hzin, _⟩ := zframe_step s0.cfg.v p hz.comp false false (fun _ => hz.zin) x.payload
      have e := feedLoop_one_frame (setPF s0 p fr) hz.b (zb0 false false) x.form x.payload hxok (zcont (x' :: r')) p'
        (zframe false false x.payload) hstep (by rw [hb'.cont]; simp)
      obtain ⟨hctl, hcont, hpl, hfin⟩ := zframe_facts false false x.payload
      have hmore := onOut_data_more (zframe false false x.payload) (setPF s0 p' fr) hcl
        (by
          cases hf : (zframe false false x.payload).fin with
          | zero => rfl
          | succ n => exact absurd (hfin.mp (by rw [hf]; simp)) (by simp)) hctl
        (by
          show _ ↔ fr ≠ []
          rw [hfr']; simp [hcont])
      have e' : feedLoop (zcont (x :: x' :: r')) (setPF s0 p fr)
          = feedLoop (zcont (x' :: r')) (setPF s0 p' (fr ++ [zframe false false x.payload])) := by
        have : zcont (x :: x' :: r') = serialise (zb0 false false) x.form x.payload ++ zcont (x' :: r') := rfl
        rw [this, e]
        have h2 : onOut (.frame (zframe false false x.payload)) { setPF s0 p fr with p := p' }
            = .ok true (setPF s0 p' (fr ++ [zframe false false x.payload])) := hmore
        rw [h2]; rfl
      rw [e']
      have hz' : ZOpen (setPF s0 p' (fr ++ [zframe false false x.payload])) (acc ++ x.payload) := by
        refine ⟨⟨f0, tl ++ [zframe false false x.payload], by show fr ++ _ = _; rw [hfr']; rfl, hr1, hop, ?_⟩,
          hzin rfl, hb', hc', hd'.trans hz.dfa⟩
        have : ((f0 :: (tl ++ [zframe false false x.payload])).map (·.payload)).flatten
            = ((f0 :: tl).map (·.payload)).flatten ++ x.payload := by
          simp [hpl]
        rw [this, hacc]
      have := ih (by simp) (fun y hy => hok y (by simp [hy])) p' (fr ++ [zframe false false x.payload])
        (acc ++ x.payload) hz'
      have hj : acc ++ x.payload ++ ((x' :: r').map (·.payload)).flatten
          = acc ++ ((x :: x' :: r').map (·.payload)).flatten := by simp
      rw [hj] at this
      exact this

/-- **one compressed text message through the loop**, from a state between two messages on a
    connection with permessage-deflate negotiated -/
theorem feed_zmsg (m : ZMsg) (hm : m.Ok) (s0 : Sys) (g : Good s0) (hcl : s0.closed = false) (hfr : s0.frames = [])
    (hbet : Between s0.p) (hcomp : s0.p.compression = true) (hdec : s0.decompress = true) :
    ZOutcome s0 m.joined (feedLoop m.bytes s0) := by
  obtain ⟨first, rest⟩ := m
  have hsp : ∀ q : PState, ({ s0 with p := q } : Sys) = setPF s0 q [] := by
    intro q
    cases s0; simp only [setPF] at *; simp_all
  cases rest with
  | nil =>
    obtain ⟨hctl, hcont, hpl, hfin⟩ := zframe_facts true true first.payload
    obtain ⟨p', hstep, hb', hc', hd', _, hnt⟩ :=
      zframe_step s0.cfg.v s0.p hcomp true true (fun h => by cases h) first.payload
    have e := feedLoop_one_frame s0 hbet.b (zb0 true true) first.form first.payload hm.1 [] p'
      (zframe true true first.payload) hstep (by rw [hb'.cont]; simp)
    have eb : feedLoop (ZMsg.bytes ⟨first, []⟩) s0 = onOut (.frame (zframe true true first.payload)) (setPF s0 p' []) := by
      have : ZMsg.bytes ⟨first, []⟩ = serialise (zb0 true true) first.form first.payload ++ [] := by
        simp [ZMsg.bytes, zbytes, zcont]
      rw [this, e, contLoop_nil, hsp]
    rw [eb]
    have hbet' : Between (setPF s0 p' []).p := ⟨hb', hnt rfl, hd'.trans hbet.dfa⟩
    have ho := onOut_zfin (zframe true true first.payload) (setPF s0 p' []) (good_setPF g _ _) hcl (hfin.mpr rfl) hctl
      (by
        show _ ↔ ([] : List Frame) ≠ []
        simp [zframe, Frame.isContinuation, Gen.opContinuation]) (zframe true true first.payload) [] rfl
      (by simp [zframe]) rfl hdec hbet' hc'
    have hj : (([zframe true true first.payload]).map (·.payload)).flatten = ZMsg.joined ⟨first, []⟩ := by
      simp [ZMsg.joined, zframe]
    rw [hj] at ho
    exact ho.rebase
  | cons x r =>
    obtain ⟨hctl, hcont, hpl, hfin⟩ := zframe_facts true false first.payload
    obtain ⟨p', hstep, hb', hc', hd', hzin, _⟩ :=
      zframe_step s0.cfg.v s0.p hcomp true false (fun h => by cases h) first.payload
    have e := feedLoop_one_frame s0 hbet.b (zb0 true false) first.form first.payload hm.1 (zcont (x :: r)) p'
      (zframe true false first.payload) hstep (by rw [hb'.cont]; simp)
    have hmore := onOut_data_more (zframe true false first.payload) (setPF s0 p' []) hcl
      (by simp [zframe]) hctl
      (by
        show _ ↔ ([] : List Frame) ≠ []
        simp [zframe, Frame.isContinuation, Gen.opContinuation])
    have eb : feedLoop (ZMsg.bytes ⟨first, x :: r⟩) s0
        = feedLoop (zcont (x :: r)) (setPF s0 p' [zframe true false first.payload]) := by
      have : ZMsg.bytes ⟨first, x :: r⟩ = serialise (zb0 true false) first.form first.payload ++ zcont (x :: r) := rfl
      rw [this, e, hsp, hmore]
      rfl
    rw [eb]
    have hz : ZOpen (setPF s0 p' [zframe true false first.payload]) first.payload :=
      ⟨⟨zframe true false first.payload, [], rfl, by simp [zframe], rfl, by simp [zframe]⟩, hzin rfl, hb', hc',
        hd'.trans hbet.dfa⟩
    exact zcont_feed s0 g hcl hdec (x :: r) (by simp) hm.2 p' _ first.payload hz

end Lomond.Core.E2E
