/-
  The dead socket (`sockShut = true`): helper lemmas for `Properties/C11_Dead.lean`.

  Once the loop thread has executed `sockClose` (`shutdown(); close()` under the write lock) no schedule entry of either
  model (`Model/Threads.lean`, `Model/ThreadsN.lean`) changes the wire, and the socket stays shut; a write step executed
  on the shut socket is a `TransportFail` (`Err.transport`) that moves its thread on to the release.
-/
import Lomond.Proofs.ThreadsNW
import Lomond.Proofs.ThreadsZ
set_option linter.unusedSimpArgs false
set_option linter.unusedVariables false

namespace Lomond.Threads
open Lomond

/-! ### one entry on a shut socket -/

theorem step_shut (v : Variant) (cfg : Cfg) (s : State) (t : Tid) (hs : s.sh.sockShut = true) :
    (step v cfg s t).sh.wire = s.sh.wire ∧ (step v cfg s t).sh.sockShut = true := by
  rcases step_cases v cfg s t with e | ⟨c, st, r, hc, hr, hb, e⟩ <;> rw [e]
  · exact ⟨rfl, hs⟩
  · exact ⟨exec_wire_shut v t st r s.sh c hs, by rw [setTh_sh, exec_shut, hs]; rfl⟩

theorem stepN_shut (env : Env) (v : Variant) (cfg : Cfg) (s : State) (t : Tid) (hs : s.sh.sockShut = true) :
    (stepN env v cfg s t).sh.wire = s.sh.wire ∧ (stepN env v cfg s t).sh.sockShut = true := by
  rcases stepN_cases env v cfg s t with ⟨_, e⟩ | ⟨c, f, r, hc, hr, e⟩ | ⟨c, f, r, hc, hr, e⟩
  · rw [e]; exact step_shut v cfg s t hs
  · rw [e]; simp [execW1, failWrite, hs]
  · rw [e]; simp [execW2, failWrite, hs]

theorem run_shut (v : Variant) (cfg : Cfg) (s : State) (sched : List Tid) (hs : s.sh.sockShut = true) :
    (run v cfg s sched).sh.wire = s.sh.wire ∧ (run v cfg s sched).sh.sockShut = true := by
  induction sched generalizing s with
  | nil => exact ⟨rfl, hs⟩
  | cons t r ih =>
    obtain ⟨h1, h2⟩ := step_shut v cfg s t hs
    obtain ⟨h3, h4⟩ := ih (step v cfg s t) h2
    exact ⟨h3.trans h1, h4⟩

theorem runN_shut (env : Env) (v : Variant) (cfg : Cfg) (s : State) (sched : List Tid) (hs : s.sh.sockShut = true) :
    (runN env v cfg s sched).sh.wire = s.sh.wire ∧ (runN env v cfg s sched).sh.sockShut = true := by
  unfold runN
  induction sched generalizing s with
  | nil => exact ⟨rfl, hs⟩
  | cons t r ih =>
    obtain ⟨h1, h2⟩ := stepN_shut env v cfg s t hs
    obtain ⟨h3, h4⟩ := ih (stepN env v cfg s t) h2
    exact ⟨h3.trans h1, h4⟩

/-- a thread standing before a write is never waiting for the lock -/
theorem not_blocked_at_write {sh : Shared} {c : Cur} {st : Step} {r : List Step} (hr : c.rest = st :: r)
    (hw : isWrite st = true) : blockedOn sh c = false := by
  unfold blockedOn; rw [hr]
  cases st <;> first | rfl | cases hw

/-- **the write step on a shut socket**, two-chunk model: `TransportFail`, on to the release, nothing else changes -/
theorem step_dead_write (v : Variant) (cfg : Cfg) (s : State) (t : Tid) (c : Cur) (st : Step) (r : List Step)
    (hc : (s.th t).current v cfg = some c) (hr : c.rest = st :: r) (hw : isWrite st = true)
    (hs : s.sh.sockShut = true) :
    step v cfg s t = setTh s t (settle (s.th t) { c with rest := toRelease r, err := some .transport }) s.sh := by
  unfold step
  rw [hc]
  simp only [hr, not_blocked_at_write hr hw, Bool.false_eq_true, if_false, exec_write_shut v t st r s.sh c hw hs]

/-- the same for the general socket -/
theorem stepN_dead_write (env : Env) (v : Variant) (cfg : Cfg) (s : State) (t : Tid) (c : Cur) (st : Step) (r : List Step)
    (hc : (s.th t).current v cfg = some c) (hr : c.rest = st :: r) (hw : isWrite st = true)
    (hs : s.sh.sockShut = true) :
    stepN env v cfg s t = setTh s t (settle (s.th t) { c with rest := toRelease r, err := some .transport }) s.sh := by
  unfold stepN
  rw [hc]
  simp only [hr, not_blocked_at_write hr hw, Bool.false_eq_true, if_false]
  cases st <;> simp only [isWrite] at hw <;> (try cases hw) <;> simp [execN, execW1, execW2, failWrite, hs]

/-! ### a call that has not written when the socket is shut never writes, and fails if it is a send -/

/-- from the invariants `MsgInv` (which calls are on the wire) and `CallInv` (a send without an error wrote) -/
theorem not_written_stays (v : Variant) (cfg : Cfg) (s₀ s : State) (M₀ : MsgInv v cfg s₀) (M : MsgInv v cfg s)
    (C : CallInv v cfg s) (hwire : s.sh.wire = s₀.sh.wire) (t : Tid) (i : Nat) (r : Result)
    (h0 : ¬ wroteAt (s₀.th t) i) (hr : (s.th t).results[i]? = some r) :
    r.wrote = false ∧ ∀ call, (s.th t).prog[i]? = some call → call.isSend = true → r.err ≠ none := by
  have hw : r.wrote = false := by
    cases hx : r.wrote with
    | false => rfl
    | true =>
      have h1 : i ∈ idxs s.sh.wire t := (M.mem t i).mpr (Or.inl ⟨r, hr, hx⟩)
      rw [hwire] at h1
      exact absurd ((M₀.mem t i).mp h1) h0
  refine ⟨hw, ?_⟩
  intro call hcall hsend he
  obtain ⟨call2, hc2, _, h3⟩ := C.res t i r hr
  rw [hcall] at hc2; cases hc2
  rw [h3 hsend he] at hw; cases hw

/-- a call that has not started has not written -/
theorem not_started_not_written (v : Variant) (cfg : Cfg) (s : State) (M : MsgInv v cfg s) (t : Tid) (i : Nat)
    (hcur : (s.th t).cur = none) (hpc : (s.th t).pc ≤ i) : ¬ wroteAt (s.th t) i := by
  rintro (⟨r, hr, _⟩ | ⟨c, hc, _⟩)
  · have := M.len t
    rw [List.getElem?_eq_none (by omega)] at hr; cases hr
  · rw [hcur] at hc; cases hc

end Lomond.Threads
