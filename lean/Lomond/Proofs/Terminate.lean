/-
  Once the transport has ended (end-of-stream, a socket error or any other exception from `recv`,
  an exception from `selector.wait`) the session loop stops: the rest of the environment script is
  never consumed and the loop does not run out of script.
-/
import Lomond.Proofs.Raises
import Lomond.Proofs.EnvIrrel
set_option linter.unusedSimpArgs false
set_option linter.unusedVariables false
namespace Lomond.Core.Monitor
open Lomond Lomond.Core

/-- environment steps that end the transport -/
def EnvStep.isEnd : EnvStep → Bool
  | .selErr => true
  | .wait _ (some .eof) => true
  | .wait _ (some .sockErr) => true
  | .wait _ (some .otherErr) => true
  | _ => false

theorem modS_bind' (f : Sys → Sys) (k : Unit → M α) (s : Sys) : (modS f >>= k) s = k () (f s) := rfl

theorem bind_congr_at {m m' : M α} {f : α → M β} {s : Sys} (h : m s = m' s) : (m >>= f) s = (m' >>= f) s := by
  show M.bind m f s = M.bind m' f s
  unfold M.bind; rw [h]

theorem runFinally_err' (x : Exn) (s : Sys) : ∃ s', runFinally x s = .err x s' := by
  unfold runFinally
  rw [bind_ok (show getS s = .ok s s from rfl)]
  have key : ∀ s2, ∃ s', (do selClose; throwE x : M Unit) s2 = .err x s' := by
    intro s2
    obtain ⟨s3, h3⟩ := selClose_ok s2
    exact ⟨s3, by rw [bind_ok h3]; rfl⟩
  split
  · obtain ⟨s2, h2⟩ := closeSocket_ok s
    rw [bind_ok h2]; exact key s2
  · rw [bind_ok (show (pure () : M Unit) s = .ok () s from rfl)]; exact key s

theorem ok0_not_scriptEnd {s : Sys} : ¬ Ok0 .scriptEnd s := fun h => h

theorem onEof_not_true (s : Sys) (s' : Sys) : onEof s ≠ .ok true s' := by
  unfold onEof; split <;> (intro h; cases h)

/-- a failed or ended `recv` never lets the loop continue -/
theorem recvStep_end (o : RecvOutcome) (ho : o = .eof ∨ o = .sockErr ∨ o = .otherErr) (s s' : Sys) :
    recvStep o s ≠ .ok true s' := by
  unfold recvStep
  split
  · exact onEof_not_true s s'
  · rcases ho with rfl | rfl | rfl
    · exact onEof_not_true s s'
    · intro h; cases h
    · intro h; cases h

/-- at a transport-ending step the loop ends: what follows in the script is irrelevant, and the
    loop does not end by exhausting the script -/
theorem loop_end (X : EnvStep) (hX : EnvStep.isEnd X = true) (post : List EnvStep) (s : Sys) :
    loop (X :: post) s = loop [X] s ∧ ∀ s', loop [X] s ≠ .err .scriptEnd s' := by
  unfold loop
  split
  · exact ⟨rfl, fun s' h => by cases h⟩
  · cases X with
    | selErr => exact ⟨rfl, fun s' h => by cases h⟩
    | wait dt readable =>
      simp only []
      unfold regularTop
      cases hr : regular (tick s dt) with
      | err x s2 =>
        refine ⟨rfl, fun s' h => ?_⟩
        cases h
        exact ok0_not_scriptEnd (raises_regular _ _ _ hr)
      | ok u s2 =>
        simp only []
        cases readable with
        | none => cases hX
        | some o =>
          have ho : o = .eof ∨ o = .sockErr ∨ o = .otherErr := by
            cases o <;> first | (cases hX; done) | simp
          simp only []
          cases hr2 : recvStep o s2 with
          | err x s3 =>
            refine ⟨rfl, fun s' h => ?_⟩
            cases h
            exact ok0_not_scriptEnd (raises_recvStep _ _ _ _ hr2)
          | ok go s3 =>
            cases go with
            | true => exact absurd hr2 (recvStep_end o ho s2 s3)
            | false => exact ⟨rfl, fun s' h => by cases h⟩

/-- **the script after a transport-ending step is never consumed** -/
theorem loop_pre_end (pre : List EnvStep) (X : EnvStep) (hX : EnvStep.isEnd X = true) (post : List EnvStep) (s : Sys) :
    loop (pre ++ X :: post) s = loop (pre ++ [X]) s ∧ ∀ s', loop (pre ++ [X]) s ≠ .err .scriptEnd s' := by
  induction pre generalizing s with
  | nil => exact loop_end X hX post s
  | cons st pre ih =>
    simp only [List.cons_append]
    unfold loop
    split
    · exact ⟨rfl, fun s' h => by cases h⟩
    · cases st with
      | selErr => exact ⟨rfl, fun s' h => by cases h⟩
      | wait dt readable =>
        simp only []
        unfold regularTop
        cases hr : regular (tick s dt) with
        | err x s2 =>
          refine ⟨rfl, fun s' h => ?_⟩
          cases h
          exact ok0_not_scriptEnd (raises_regular _ _ _ hr)
        | ok u s2 =>
          simp only []
          cases readable with
          | none => exact ih s2
          | some o =>
            simp only []
            cases hr2 : recvStep o s2 with
            | err x s3 =>
              refine ⟨rfl, fun s' h => ?_⟩
              cases h
              exact ok0_not_scriptEnd (raises_recvStep _ _ _ _ hr2)
            | ok go s3 =>
              cases go with
              | true => exact ih s3
              | false => exact ⟨rfl, fun s' h => by cases h⟩

theorem loop_pre_end_eq (pre : List EnvStep) (X : EnvStep) (hX : EnvStep.isEnd X = true) (post : List EnvStep) :
    loop (pre ++ X :: post) = loop (pre ++ [X]) :=
  funext (fun s => (loop_pre_end pre X hX post s).1)

/-- a script that ends with a transport-ending step is never exhausted -/
theorem raises_loop_end (pre : List EnvStep) (X : EnvStep) (hX : EnvStep.isEnd X = true) :
    Raises (OkLoop False) (loop (pre ++ [X])) := by
  intro s x s' h
  rcases raises_loop _ s x s' h with h0 | ⟨rfl, _⟩
  · exact Or.inl h0
  · exact absurd h ((loop_pre_end pre X hX [] s).2 s')

/-- `run` over a script that continues after a transport-ending step is `run` over the script cut
    there, up to the stored script itself -/
theorem run_pre_end (pre : List EnvStep) (X : EnvStep) (hX : EnvStep.isEnd X = true) (post : List EnvStep) (s : Sys) :
    run (setEnv (pre ++ X :: post) s) = Res.mapS (setEnv (pre ++ X :: post)) (run (setEnv (pre ++ [X]) s)) := by
  rw [run_eq_runL, run_eq_runL]
  show runL (loop (pre ++ X :: post)) (setEnv (pre ++ X :: post) (setEnv (pre ++ [X]) s)) = _
  rw [loop_pre_end_eq pre X hX post]
  exact ei_runL (ei_loop _) _ _

/-- over a script ending with a transport-ending step, `run()` returns normally unless the
    application abandons the iterator (the only other way out is `GeneratorExit`) -/
theorem run_end_cases (pre : List EnvStep) (X : EnvStep) (hX : EnvStep.isEnd X = true) (s : Sys) (he : s.env = pre ++ [X]) :
    (∃ s', run s = .ok () s') ∨ (∃ s', run s = .err .genExit s' ∧ Abandons s.react) := by
  cases hr : run s with
  | ok u s' => exact Or.inl ⟨s', rfl⟩
  | err x s' =>
    have h1 := hr
    rw [run_eq_runL, he] at h1
    rcases raises_runL _ (raises_loop_end pre X hX) s x s' h1 with ⟨rfl, ha⟩ | ⟨_, hf⟩
    · refine Or.inr ⟨s', rfl, ?_⟩
      have : s'.react = s.react := ((same_runL (same_of_step (step_loop _))).err h1).2
      rw [← this]; exact ha
    · exact hf.elim

/-! ### once the loop has ended — for whatever reason — the rest of the script is irrelevant -/

/-- if the loop over `pre` ends without exhausting `pre` (websocket closed, end-of-stream, any
    exception including the ping/close time-outs), appending more script changes nothing -/
theorem loop_prefix (pre post : List EnvStep) (s : Sys) (h : ∀ s', loop pre s ≠ .err .scriptEnd s') :
    loop (pre ++ post) s = loop pre s := by
  induction pre generalizing s with
  | nil =>
    unfold loop at h
    split at h
    · rename_i hc
      simp only [List.nil_append]
      cases post <;> (unfold loop; simp only [hc, if_true])
    · exact absurd rfl (h s)
  | cons st pre ih =>
    simp only [List.cons_append]
    unfold loop at h ⊢
    split
    · rfl
    · rename_i hc
      rw [if_neg hc] at h
      cases st with
      | selErr => rfl
      | wait dt readable =>
        simp only [] at h ⊢
        unfold regularTop at h ⊢
        cases hr : regular (tick s dt) with
        | err x s2 => rfl
        | ok u s2 =>
          rw [hr] at h
          simp only [] at h ⊢
          cases readable with
          | none => exact ih s2 h
          | some o =>
            simp only [] at h ⊢
            cases hr2 : recvStep o s2 with
            | err x s3 => rfl
            | ok go s3 =>
              rw [hr2] at h
              cases go with
              | true => exact ih s3 h
              | false => rfl

theorem runBodyL_eq (l : M Unit) (s : Sys) :
    runBodyL l s = match l s with
      | .ok _ s1 => onLoopEnd none s1
      | .err x s1 => onLoopEnd (some x) s1 := by
  unfold runBodyL
  rcases captured l s with ⟨s1, hl, hc⟩ | ⟨x, s1, hl, hc⟩
  · rw [bind_ok hc, hl]
  · rw [bind_ok hc, hl]

/-- two loop bodies that agree at the state where the loop is entered give the same `run()`; if
    they disagree there, the second one ran out of script and `run()` reports that -/
theorem runLoopL_agree (l l' : M Unit) (s : Sys) (h : l s = l' s ∨ ∃ s', l' s = .err .scriptEnd s') :
    runLoopL l s = runLoopL l' s ∨ ∃ s', runLoopL l' s = .err .scriptEnd s' := by
  rcases h with h | ⟨s', h⟩
  · left
    unfold runLoopL
    have : runBodyL l s = runBodyL l' s := by rw [runBodyL_eq, runBodyL_eq, h]
    unfold tryC
    rw [bind_congr_at this]
  · right
    have hb : runBodyL l' s = .err .scriptEnd s' := by rw [runBodyL_eq, h]; rfl
    unfold runLoopL
    have : (do runBodyL l'; selClose : M Unit) s = .err .scriptEnd s' := bind_err hb
    rw [tryC_err this]
    exact runFinally_err' _ _

theorem runL_agree (l l' : M Unit) (s : Sys) (h : ∀ s1, l s1 = l' s1 ∨ ∃ s', l' s1 = .err .scriptEnd s') :
    runL l s = runL l' s ∨ ∃ s', runL l' s = .err .scriptEnd s' := by
  unfold runL
  cases hy : yieldEv .connecting s with
  | err x s1 => left; rw [bind_err hy, bind_err hy]
  | ok u s1 =>
    rw [bind_ok hy, bind_ok hy, bind_ok (show getS s1 = .ok s1 s1 from rfl), bind_ok (show getS s1 = .ok s1 s1 from rfl)]
    cases hc : s1.cfg.connect with
    | socketFail => left; rfl
    | otherFail => left; rfl
    | ok proxy =>
      simp only []
      unfold afterConnectL
      rw [modS_bind', modS_bind', bind_ok (show getS { s1 with sockOpen := true } = .ok _ _ from rfl),
        bind_ok (show getS { s1 with sockOpen := true } = .ok _ _ from rfl)]
      obtain ⟨r, s2, hw⟩ := write_ok s1.cfg.request none { s1 with sockOpen := true }
      rw [bind_ok hw, bind_ok hw]
      split
      · left; rfl
      · cases hyc : yieldConnected proxy s2 with
        | err x s3 => left; rw [bind_err hyc, bind_err hyc]
        | ok u s3 =>
          rw [bind_ok hyc, bind_ok hyc, modS_bind', modS_bind']
          exact runLoopL_agree l l' _ (h _)
    | selFail proxy => left; rfl

end Lomond.Core.Monitor
