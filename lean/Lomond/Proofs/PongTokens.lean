/-
  C14, token placement — where the call-result tokens `.res` sit on the trace.

  The C14 theorems (and the oracle) tell a write made by an *application call* from a write made
  by the *library itself* by the result token `.res r` that the harness logs right after every
  application call.  This file proves that this classification is sound, for every function of
  the core model from ANY state (no hypothesis on the configuration):

    * an application call (`doAct a`) appends exactly one *call block*: at most one entry — a
      write (`.wr`/`.wrz`/`.wrFail`) or the `sockClose` of `session.close()` — then its token
      (`Calls`, relation `RC`);
    * handing an event to the application (`yieldEv e`) appends `.ev e` followed by call blocks
      only;
    * every library function up to `run` appends a segment that is `TokensWellPlaced` *on its
      own* (relation `RL`): every token in it is attached, through call blocks of that segment, to
      an event of that segment — so no token is ever put on top of what was on the trace before,
      in particular not on top of a write the library has just made (Pong reply, automatic Ping,
      Close echo, the upgrade request).
-/
import Lomond.Proofs.PongRun
set_option linter.unusedSimpArgs false
set_option linter.unusedVariables false
namespace Lomond.Core.PongTokens
open Lomond Lomond.Core Lomond.Core.Lift Lomond.Core.Pong

/-! ### the trace predicate -/

/-- what an application call may leave on the trace before its result token: one write, or the
    `sockClose` of `session.close()` -/
def appItem (o : Obs) : Bool := o.isWrite || o.sockCl

/-- the newest entry is an event or a result token: the position at which the application makes
    its (next) call -/
def atApp : List Obs → Bool
  | .ev _ :: _ => true
  | .res _ :: _ => true
  | _ => false

/-- `t` is the part of the trace older than a result token: the token is attached to an event
    (or to the previous call's token) directly, or through exactly one entry of the call -/
def resOK : List Obs → Bool
  | .ev _ :: _ => true
  | .res _ :: _ => true
  | o :: t => appItem o && atApp t
  | [] => false

/-- **every result token is well placed** (trace newest first): it directly follows an event, a
    previous token, or one write / `sockClose` that itself directly follows an event or a token -/
def TokensWellPlaced : List Obs → Bool
  | [] => true
  | .res _ :: t => resOK t && TokensWellPlaced t
  | _ :: t => TokensWellPlaced t

theorem resOK_of_atApp {t : List Obs} (h : atApp t = true) : resOK t = true := by
  cases t with
  | nil => cases h
  | cons o t => cases o <;> first | rfl | cases h

theorem resOK_item {o : Obs} {t : List Obs} (ho : appItem o = true) (h : atApp t = true) :
    resOK (o :: t) = true := by
  cases o <;> simp_all [resOK, appItem, Obs.isWrite, Obs.sockCl]

theorem twp_cons {o : Obs} {t : List Obs} (ho : o.resTok = false) :
    TokensWellPlaced (o :: t) = TokensWellPlaced t := by
  cases o <;> first | rfl | cases ho

theorem twp_res (r : ActRes) (t : List Obs) :
    TokensWellPlaced (.res r :: t) = (resOK t && TokensWellPlaced t) := rfl

theorem atApp_append {l : List Obs} (t : List Obs) (h : atApp l = true) : atApp (l ++ t) = true := by
  cases l with
  | nil => cases h
  | cons o l => cases o <;> first | rfl | cases h

theorem resOK_append {l : List Obs} (t : List Obs) (h : resOK l = true) : resOK (l ++ t) = true := by
  cases l with
  | nil => cases h
  | cons o l =>
    cases o
    case ev => rfl
    case res => rfl
    all_goals
      simp only [resOK, Bool.and_eq_true] at h
      simp only [List.cons_append, resOK, Bool.and_eq_true]
      exact ⟨h.1, atApp_append t h.2⟩

theorem twp_append {l2 l1 : List Obs} (h2 : TokensWellPlaced l2 = true) (h1 : TokensWellPlaced l1 = true) :
    TokensWellPlaced (l2 ++ l1) = true := by
  induction l2 with
  | nil => exact h1
  | cons o l ih =>
    cases ho : o.resTok with
    | false =>
      rw [twp_cons ho] at h2
      rw [List.cons_append, twp_cons ho]; exact ih h2
    | true =>
      cases o <;> first | cases ho | skip
      rw [twp_res, Bool.and_eq_true] at h2
      rw [List.cons_append, twp_res, Bool.and_eq_true]
      exact ⟨resOK_append l1 h2.1, ih h2.2⟩

theorem twp_of_nores {l : List Obs} (h : ∀ o ∈ l, o.resTok = false) : TokensWellPlaced l = true := by
  induction l with
  | nil => rfl
  | cons o l ih =>
    rw [twp_cons (h o List.mem_cons_self)]
    exact ih (fun o' ho' => h o' (List.mem_cons_of_mem _ ho'))

/-! ### call blocks -/

/-- a sequence of complete call blocks (newest first): each is a token on top of at most one
    entry, a write or a `sockClose` -/
inductive Calls : List Obs → Prop
  | nil : Calls []
  | bare {r : ActRes} {c : List Obs} : Calls c → Calls (.res r :: c)
  | item {r : ActRes} {o : Obs} {c : List Obs} : appItem o = true → Calls c → Calls (.res r :: o :: c)

theorem Calls.append {a b : List Obs} (ha : Calls a) (hb : Calls b) : Calls (a ++ b) := by
  induction ha with
  | nil => exact hb
  | bare _ ih => exact .bare ih
  | item ho _ ih => exact .item ho ih

theorem Calls.atApp {c : List Obs} (h : Calls c) (e : Event) (t : List Obs) :
    atApp (c ++ .ev e :: t) = true := by
  cases h <;> rfl

/-- an event followed by call blocks, on top of a well-placed trace, is well placed -/
theorem Calls.twp {c : List Obs} (h : Calls c) (e : Event) {t : List Obs} (ht : TokensWellPlaced t = true) :
    TokensWellPlaced (c ++ .ev e :: t) = true := by
  induction h with
  | nil => exact ht
  | @bare r c hc ih =>
    rw [List.cons_append, twp_res, Bool.and_eq_true]
    exact ⟨resOK_of_atApp (hc.atApp e t), ih⟩
  | @item r o c ho hc ih =>
    have hr : o.resTok = false := by
      cases o <;> first | rfl | (simp [appItem, Obs.isWrite, Obs.sockCl] at ho)
    rw [List.cons_append, List.cons_append, twp_res, Bool.and_eq_true, twp_cons hr]
    exact ⟨resOK_item ho (hc.atApp e t), ih⟩

/-! ### the relations -/

/-- at most one entry was appended: a write or a `sockClose` -/
def AM1 (s s' : Sys) : Prop := s'.trace = s.trace ∨ ∃ o, s'.trace = o :: s.trace ∧ appItem o = true

/-- complete call blocks were appended -/
def RC (s s' : Sys) : Prop := ∃ c, s'.trace = c ++ s.trace ∧ Calls c

/-- a segment was appended whose tokens are well placed within the segment itself -/
def RL (s s' : Sys) : Prop := ∃ l, s'.trace = l ++ s.trace ∧ TokensWellPlaced l = true

theorem rc_po : PO RC where
  refl _ := ⟨[], rfl, .nil⟩
  trans := by
    rintro a b c ⟨l1, e1, h1⟩ ⟨l2, e2, h2⟩
    exact ⟨l2 ++ l1, by rw [e2, e1, List.append_assoc], h2.append h1⟩

theorem rl_po : PO RL where
  refl _ := ⟨[], rfl, rfl⟩
  trans := by
    rintro a b c ⟨l1, e1, h1⟩ ⟨l2, e2, h2⟩
    exact ⟨l2 ++ l1, by rw [e2, e1, List.append_assoc], twp_append h2 h1⟩

theorem rl_same {s s' : Sys} (h : s'.trace = s.trace) : RL s s' := ⟨[], h, rfl⟩

theorem rl_one {s s' : Sys} (o : Obs) (h : s'.trace = o :: s.trace) (ho : o.resTok = false) : RL s s' :=
  ⟨[o], h, by rw [twp_cons ho]; rfl⟩

theorem appItem_resTok {o : Obs} (h : appItem o = true) : o.resTok = false := by
  cases o <;> first | rfl | (simp [appItem, Obs.isWrite, Obs.sockCl] at h)

theorem rl_of_am1 {s s' : Sys} (h : AM1 s s') : RL s s' := by
  rcases h with h | ⟨o, h, ho⟩
  · exact rl_same h
  · exact rl_one o h (appItem_resTok ho)

macro "rl_leaf" : tactic =>
  `(tactic| ((try simp only [Res.state_ok, Res.state_err])
             first
              | exact rl_same rfl
              | exact rl_one _ rfl rfl))

/-! ### the write path: never raises, at most one entry -/

/-- an API body: returns a value (never raises) and appends at most one entry -/
def Call1 (m : M ActRes) : Prop := ∀ s, ∃ r s', m s = .ok r s' ∧ AM1 s s'

theorem call1_write (d : Bytes) (z : Option (Nat × Bytes)) : Call1 (write d z) := by
  intro s; unfold write
  simp only []
  splits
  all_goals first
    | exact ⟨_, _, rfl, Or.inl rfl⟩
    | exact ⟨_, _, rfl, Or.inr ⟨_, rfl, rfl⟩⟩

theorem call1_sendFrame (op : Nat) (pl : Bytes) (c : Option Bytes) : Call1 (sendFrame op pl c) := by
  intro s; unfold sendFrame
  simp only []
  splits
  all_goals first
    | exact ⟨_, _, rfl, Or.inl rfl⟩
    | exact call1_write _ _ _

theorem call1_sendData (op : Nat) (pl : Bytes) (c : Bool) : Call1 (sendData op pl c) := by
  intro s; unfold sendData; split <;> exact call1_sendFrame _ _ _ _

theorem call1_wsClose (code : Option Nat) (reason : Arg) : Call1 (wsClose code reason) := by
  intro s; unfold wsClose
  splits
  all_goals first
    | exact ⟨_, _, rfl, Or.inl rfl⟩
    | (rename_i h
       obtain ⟨r, s2, e, a⟩ := call1_sendFrame _ _ _ _
       rw [h] at e; cases e
       exact ⟨_, _, rfl, a⟩)
    | (rename_i h
       obtain ⟨r, s2, e, a⟩ := call1_sendFrame _ _ _ _
       rw [h] at e; cases e)

theorem call1_pure (r : ActRes) : Call1 (pure r) := fun s => ⟨r, s, rfl, Or.inl rfl⟩

theorem call1_ite (c : Prop) [Decidable c] {m k : M ActRes} (hm : Call1 m) (hk : Call1 k) :
    Call1 (if c then m else k) := by
  split <;> assumption

theorem call1_sessionClose : Call1 (do closeSocket; pure ActRes.ok) := by
  intro s
  by_cases h : s.sockOpen = true
  · refine ⟨.ok, { s with sockOpen := false, trace := .sockClose :: s.trace }, ?_, Or.inr ⟨_, rfl, rfl⟩⟩
    show (closeSocket >>= fun _ => (pure ActRes.ok : M ActRes)) s = _
    rw [bind_ok (show closeSocket s = .ok () { s with sockOpen := false, trace := .sockClose :: s.trace } from by
      unfold closeSocket; rw [if_pos h])]
    rfl
  · refine ⟨.ok, s, ?_, Or.inl rfl⟩
    show (closeSocket >>= fun _ => (pure ActRes.ok : M ActRes)) s = _
    rw [bind_ok (show closeSocket s = .ok () s from by unfold closeSocket; rw [if_neg h])]
    rfl

/-! ### application calls -/

/-- what one logged API call appends: its (at most one) entry, then its result token -/
def Block (s s' : Sys) : Prop :=
  ∃ r, s'.trace = .res r :: s.trace ∨ ∃ o, s'.trace = .res r :: o :: s.trace ∧ appItem o = true

theorem block_logRes {m : M ActRes} (hm : Call1 m) (s : Sys) :
    ∃ s', logRes m s = .ok () s' ∧ Block s s' := by
  obtain ⟨r, s1, e, a⟩ := hm s
  refine ⟨{ s1 with trace := .res r :: s1.trace }, by unfold logRes; rw [bind_ok e]; rfl, r, ?_⟩
  rcases a with h | ⟨o, h, ho⟩
  · exact Or.inl (by show Obs.res r :: s1.trace = _; rw [h])
  · exact Or.inr ⟨o, by show Obs.res r :: s1.trace = _; rw [h], ho⟩

theorem Block.rc {s s' : Sys} (h : Block s s') : RC s s' := by
  obtain ⟨r, h | ⟨o, h, ho⟩⟩ := h
  · exact ⟨[.res r], h, .bare .nil⟩
  · exact ⟨[.res r, o], h, .item ho .nil⟩

/-- **one application call = one call block** (or, for an abandonment, nothing and `GeneratorExit`) -/
theorem doAct_cases (a : Act) (s : Sys) :
    (∃ s', doAct a s = .ok () s' ∧ Block s s') ∨
    (∃ w, a = .abandon w ∧ doAct a s = .err .genExit { s with abandonedWith := w }) := by
  unfold doAct
  split
  all_goals first
    | (left; apply block_logRes
       first
        | exact call1_pure _
        | exact call1_wsClose _ _
        | exact call1_sendData _ _ _
        | exact call1_sessionClose
        | exact call1_ite _ (call1_pure _) (call1_sendData _ _ _)
        | exact call1_ite _ (call1_pure _) (call1_sendFrame _ _ _))
    | (right; exact ⟨_, rfl, rfl⟩)

theorem rc_doAct (a : Act) : Spec RC (doAct a) := by
  intro s
  rcases doAct_cases a s with ⟨s', e, b⟩ | ⟨w, _, e⟩
  · rw [e]; exact b.rc
  · rw [e]; exact ⟨[], rfl, .nil⟩

theorem rc_doActs (as : List Act) : Spec RC (doActs as) := by
  induction as with
  | nil => exact spec_pure rc_po ()
  | cons a r ih => unfold doActs; exact spec_bind rc_po (rc_doAct a) (fun _ => ih)

/-- **handing an event to the application appends the event and then call blocks only** -/
theorem yieldEv_calls (e : Event) (s : Sys) :
    ∃ c, (yieldEv e s).state.trace = c ++ .ev e :: s.trace ∧ Calls c := by
  rw [yieldEv_eq]
  exact rc_doActs _ (pushEv e s)

theorem rl_yieldEv (e : Event) : Spec RL (yieldEv e) := by
  intro s
  obtain ⟨c, h, hc⟩ := yieldEv_calls e s
  refine ⟨c ++ [.ev e], by rw [h]; simp, ?_⟩
  exact hc.twp e (t := []) rfl

/-! ### the library: every function appends a self-contained segment -/

theorem rl_call1 {m : M ActRes} (h : Call1 m) : Spec RL m := by
  intro s
  obtain ⟨r, s', e, a⟩ := h s
  rw [e]; exact rl_of_am1 a

theorem rl_closeSocket : Spec RL closeSocket := by
  intro s; unfold closeSocket; splits <;> rl_leaf

theorem rl_selClose : Spec RL selClose := by
  intro s; unfold selClose; splits <;> rl_leaf

theorem rl_sendFrame (op : Nat) (pl : Bytes) (c : Option Bytes) : Spec RL (sendFrame op pl c) :=
  rl_call1 (call1_sendFrame op pl c)

theorem rl_wsClose (c : Option Nat) (r : Arg) : Spec RL (wsClose c r) := rl_call1 (call1_wsClose c r)

theorem rl_checkPoll : Spec RL checkPoll := by
  unfold checkPoll
  refine spec_getS_bind rl_po (fun s => ?_)
  simp only []
  splits
  all_goals first
    | exact spec_pure rl_po _
    | (refine spec_bind rl_po (spec_modS ?_) (fun _ => rl_yieldEv _); intro s; rl_leaf)

theorem rl_checkAutoPing : Spec RL checkAutoPing := by
  unfold checkAutoPing
  refine spec_getS_bind rl_po (fun s => ?_)
  simp only []
  split
  · refine spec_bind rl_po (spec_modS ?_) (fun _ => spec_bind rl_po (rl_sendFrame _ _ _) (fun _ => spec_pure rl_po _))
    intro s; rl_leaf
  · exact spec_pure rl_po _

theorem rl_checkPingTimeout : Spec RL checkPingTimeout := by
  unfold checkPingTimeout
  refine spec_getS_bind rl_po (fun s => ?_)
  simp only []
  split
  · exact spec_bind rl_po (rl_yieldEv _) (fun _ => spec_throwE rl_po _)
  · exact spec_pure rl_po _

theorem rl_checkCloseTimeout : Spec RL checkCloseTimeout := by
  unfold checkCloseTimeout
  refine spec_getS_bind rl_po (fun s => ?_)
  simp only []
  splits
  all_goals first | exact spec_pure rl_po _ | exact spec_throwE rl_po _

theorem rl_regular : Spec RL regular := by
  unfold regular
  refine spec_getS_bind rl_po (fun s => ?_)
  split
  · exact spec_bind rl_po rl_checkPoll (fun _ => spec_bind rl_po rl_checkAutoPing
      (fun _ => spec_bind rl_po rl_checkPingTimeout (fun _ => rl_checkCloseTimeout)))
  · exact spec_pure rl_po _

/-- `_on_event` (the automatic Pong is here): at most one entry, a write; no token -/
theorem am1_onEvent (e : Event) : Spec AM1 (onEvent e) := by
  intro s; unfold onEvent
  splits
  all_goals first
    | exact Or.inl rfl
    | (rename_i h
       obtain ⟨r, s2, e, a⟩ := call1_sendFrame _ _ _ _
       rw [h] at e; cases e
       exact a)
    | (rename_i h
       obtain ⟨r, s2, e, a⟩ := call1_sendFrame _ _ _ _
       rw [h] at e; cases e)

theorem rl_onEvent (e : Event) : Spec RL (onEvent e) := fun s => rl_of_am1 (am1_onEvent e s)

theorem rl_onDisconnect : Spec RL onDisconnect := by
  unfold onDisconnect
  refine spec_bind rl_po rl_closeSocket (fun _ => spec_modS ?_)
  intro s; rl_leaf

theorem rl_feedYield (b : Bool) (e : Event) : Spec RL (feedYield b e) := by
  unfold feedYield
  refine spec_tryC rl_po ?_ (fun x => ?_)
  · exact spec_bind rl_po (rl_onEvent e) (fun _ => spec_bind rl_po (rl_yieldEv e) (fun _ => rl_regular))
  · refine spec_bind rl_po ?_ (fun _ => spec_throwE rl_po _)
    split
    · exact rl_onDisconnect
    · exact spec_pure rl_po _

theorem rl_leaves : Leaves RL where
  po := rl_po
  inert := fun s s' h => rl_same h.trace
  closeSocket := rl_closeSocket
  wsClose := rl_wsClose
  feedYield := fun b e _ => rl_feedYield b e

theorem rl_tick (s : Sys) (dt : Nat) : RL s (tick s dt) := by
  unfold tick
  by_cases hd : dt ≠ 0
  · exact rl_one (.tick (s.now + dt)) (by simp [hd]) rfl
  · exact rl_same (by simp [hd])

theorem rl_loop (env : List EnvStep) : Spec RL (loop env) :=
  lift_loop rl_leaves (fun _ => True) (fun dt rd s _ => rl_po.trans (rl_tick s dt) (rl_regular _)) env
    (fun _ _ => trivial)

theorem rl_onLoopEnd (r : Option Exn) : Spec RL (onLoopEnd r) := by
  unfold onLoopEnd
  split
  all_goals first
    | exact spec_bind rl_po rl_closeSocket (fun _ => rl_yieldEv _)
    | exact spec_throwE rl_po _

theorem rl_runFinally (x : Exn) : Spec RL (runFinally x) := by
  unfold runFinally
  refine spec_getS_bind rl_po (fun s => spec_bind rl_po ?_ (fun _ =>
    spec_bind rl_po rl_selClose (fun _ => spec_throwE rl_po _)))
  split
  · exact rl_closeSocket
  · exact spec_pure rl_po _

theorem rl_runBody (env : List EnvStep) : Spec RL (runBody env) := by
  unfold runBody
  exact spec_bind rl_po (spec_tryC rl_po (spec_bind rl_po (rl_loop env) (fun _ => spec_pure rl_po _))
    (fun _ => spec_pure rl_po _)) (fun r => rl_onLoopEnd r)

theorem rl_runLoop : Spec RL runLoop := by
  unfold runLoop
  refine spec_getS_bind rl_po (fun s => ?_)
  exact spec_tryC rl_po (spec_bind rl_po (rl_runBody _) (fun _ => rl_selClose)) rl_runFinally

theorem rl_runLoopNoSel : Spec RL runLoopNoSel := by
  unfold runLoopNoSel
  exact spec_tryC rl_po (spec_bind rl_po (rl_onLoopEnd _) (fun _ => rl_selClose)) rl_runFinally

theorem rl_yieldConnected (proxy : Bool) : Spec RL (yieldConnected proxy) := by
  unfold yieldConnected
  refine spec_getS_bind rl_po (fun s => ?_)
  split
  · exact spec_tryC rl_po (rl_yieldEv _) (fun x =>
      spec_bind rl_po rl_closeSocket (fun _ => spec_throwE rl_po _))
  · exact rl_yieldEv _

theorem rl_afterConnect (proxy : Bool) : Spec RL (afterConnect proxy) := by
  unfold afterConnect
  refine spec_bind rl_po (spec_modS (fun s => by rl_leaf)) (fun _ => spec_getS_bind rl_po (fun s =>
    spec_bind rl_po (rl_call1 (call1_write _ _)) (fun r => ?_)))
  split
  · exact spec_bind rl_po rl_closeSocket (fun _ => rl_yieldEv _)
  · exact spec_bind rl_po (rl_yieldConnected proxy) (fun _ =>
      spec_bind rl_po (spec_modS (fun s => by rl_leaf)) (fun _ => rl_runLoop))

theorem rl_afterConnectNoSel (proxy : Bool) : Spec RL (afterConnectNoSel proxy) := by
  unfold afterConnectNoSel
  refine spec_bind rl_po (spec_modS (fun s => by rl_leaf)) (fun _ => spec_getS_bind rl_po (fun s =>
    spec_bind rl_po (rl_call1 (call1_write _ _)) (fun r => ?_)))
  split
  · exact spec_bind rl_po rl_closeSocket (fun _ => rl_yieldEv _)
  · exact spec_bind rl_po (rl_yieldConnected proxy) (fun _ =>
      spec_bind rl_po (spec_modS (fun s => by rl_leaf)) (fun _ => rl_runLoopNoSel))

theorem rl_run : Spec RL run := by
  unfold run
  refine spec_bind rl_po (rl_yieldEv _) (fun _ => spec_getS_bind rl_po (fun s => ?_))
  split
  · exact rl_yieldEv _
  · exact rl_yieldEv _
  · exact rl_afterConnect _
  · exact rl_afterConnectNoSel _

/-- **the trace of every connection has all its result tokens well placed** -/
theorem twp_runAll (cfg : Cfg) (react : React) (env : List EnvStep) :
    TokensWellPlaced (runAll cfg react env).trace = true := by
  have h := rl_run { cfg := cfg, react := react, env := env }
  have h0 : ∀ s : Sys, RL { cfg := cfg, react := react, env := env } s → TokensWellPlaced s.trace = true := by
    rintro s ⟨l, e, hl⟩
    rw [e]; exact twp_append hl rfl
  unfold runAll
  simp only []
  generalize run { cfg := cfg, react := react, env := env } = r at h
  have cs : ∀ s : Sys, TokensWellPlaced s.trace = true →
      TokensWellPlaced (match closeSocket s with | .ok _ s' => s' | .err _ s' => s').trace = true := by
    intro s hs
    obtain ⟨l, e, hl⟩ := rl_closeSocket s
    cases hc : closeSocket s with
    | ok u s' => rw [hc] at e; simp only [Res.state_ok] at e ⊢; rw [e]; exact twp_append hl hs
    | err x s' => rw [hc] at e; simp only [Res.state_err] at e ⊢; rw [e]; exact twp_append hl hs
  have inc : ∀ s : Sys, TokensWellPlaced s.trace = true →
      TokensWellPlaced ({ s with trace := Obs.incomplete :: s.trace } : Sys).trace = true := fun s hs => hs
  cases r with
  | ok a s => exact h0 s h
  | err x s =>
    have hs := h0 s h
    cases x with
    | genExit => simp only []; split; exact cs s hs; exact hs
    | outer y =>
      cases y with
      | genExit => simp only []; split; exact cs s hs; exact hs
      | _ => exact inc s hs
    | _ => exact inc s hs

/-! ### consequences used by the property file -/

theorem twp_suffix (pre : List Obs) {t : List Obs} (h : TokensWellPlaced (pre ++ t) = true) :
    TokensWellPlaced t = true := by
  induction pre with
  | nil => exact h
  | cons o pre ih =>
    cases ho : o.resTok with
    | false => rw [List.cons_append, twp_cons ho] at h; exact ih h
    | true =>
      cases o <;> first | cases ho | skip
      rw [List.cons_append, twp_res, Bool.and_eq_true] at h
      exact ih h.2

/-- a token inside a well-placed trace is attached to what is directly below it -/
theorem twp_at_token {pre : List Obs} {r : ActRes} {post : List Obs}
    (h : TokensWellPlaced (pre ++ .res r :: post) = true) : resOK post = true := by
  have := twp_suffix pre h
  rw [twp_res, Bool.and_eq_true] at this
  exact this.1

/-- **whatever satisfies `RL` never puts a token directly on top of the trace it started from** -/
theorem RL.no_token_on_top {s s' : Sys} (h : RL s s') (pre : List Obs) (r : ActRes)
    (e : s'.trace = pre ++ .res r :: s.trace) : False := by
  obtain ⟨l, el, hl⟩ := h
  have hl' : l = pre ++ [.res r] := by
    apply List.append_cancel_right (bs := s.trace)
    rw [← el, e]; simp
  subst hl'
  have := twp_suffix pre hl
  simp [TokensWellPlaced, resOK] at this

/-- `_on_event` returned: what `feedYield` appends is the event directly on top of what
    `_on_event` left (for a Ping: the Pong), then call blocks and library entries -/
theorem feedYield_shape (inTry : Bool) (e : Event) (s s1 : Sys) (h : onEvent e s = .ok () s1) :
    ∃ l, (feedYield inTry e s).state.trace = l ++ .ev e :: s1.trace ∧ TokensWellPlaced (l ++ [.ev e]) = true := by
  obtain ⟨c, hc, cc⟩ := yieldEv_calls e s1
  have h2 : RL (yieldEv e s1).state (feedYield inTry e s).state := by
    unfold feedYield
    refine rl_po.trans ?_ (tryC_state_rel rl_po (feedYield_handler_rel rl_po rl_onDisconnect inTry) s)
    rw [bind_ok h]
    exact bind_state_rel rl_po (fun _ => rl_regular) s1
  obtain ⟨l2, e2, t2⟩ := h2
  refine ⟨l2 ++ c, by rw [e2, hc, List.append_assoc], ?_⟩
  rw [List.append_assoc]
  exact twp_append t2 (cc.twp e (t := []) rfl)

/-! ### the upgrade request is the oldest write of the connection -/

open Lomond.Core.PongRun in
/-- nothing was ever handed to `sendall`, or the oldest write of the trace is the upgrade request
    (written or failed) and below it there are only `Connecting` and the tokens of the calls made
    there (no write, no Ping event, no `sockClose`) -/
def ReqFirst (req : Bytes) (tr : List Obs) : Prop :=
  (∀ o ∈ tr, o.isWrite = false ∧ o.pingEv = false) ∨
  ∃ newer o older, tr = newer ++ o :: older ∧ (o = .wr req ∨ o = .wrFail req) ∧
    ∀ x ∈ older, PongRun.calm x = true

theorem ReqFirst.cons {req : Bytes} {tr : List Obs} (o : Obs) (ho : o.isWrite = false) (hp : o.pingEv = false)
    (h : ReqFirst req tr) : ReqFirst req (o :: tr) := by
  rcases h with h | ⟨n, x, old, e, hx, hc⟩
  · left
    intro y hy
    rcases List.mem_cons.mp hy with rfl | hy
    · exact ⟨ho, hp⟩
    · exact h y hy
  · exact Or.inr ⟨o :: n, x, old, by rw [e]; rfl, hx, hc⟩

open Lomond.Core.PongRun in
theorem reqFirst_connect (B : M Unit) (hB : Spec RL B) (s1 : Sys) (pre : Pre s1)
    (hc : ∀ o ∈ s1.trace, calm o = true) :
    ReqFirst s1.cfg.request ((modS (fun s => { s with sockOpen := true }) >>= fun _ => getS >>= fun s =>
      write s.cfg.request >>= fun r =>
        if wsError r = true then (do closeSocket; yieldEv (.connectFail "request-failed") : M Unit) else B) s1).state.trace := by
  rw [bind_ok (show modS (fun s => { s with sockOpen := true }) s1 = .ok () { s1 with sockOpen := true } from rfl)]
  rw [bind_ok (show getS { s1 with sockOpen := true } = .ok _ _ from rfl)]
  rcases write_cases s1.cfg.request none { s1 with sockOpen := true } with ⟨hno, _⟩ | ⟨ho, r, o, e, hnf, ho'⟩
  · have hs : Shut { s1 with sockOpen := true } := by
      by_cases h2 : s1.closing = true
      · exact Or.inl h2
      · by_cases h3 : s1.closed = true
        · exact Or.inr h3
        · exact absurd ⟨rfl, by simpa using h2, by simpa using h3⟩ hno
    rw [bind_ok (write_refused _ _ _ hs), if_pos (refusal_wsError _)]
    show ReqFirst _ ((closeSocket >>= fun _ => yieldEv (.connectFail "request-failed")) _).state.trace
    rw [bind_ok (closeSocket_eq _)]
    have e3 : sockClosed { s1 with sockOpen := true } = { s1 with sockOpen := false, trace := .sockClose :: s1.trace } := by
      unfold sockClosed; simp
    rw [e3]
    obtain ⟨_, _, l, el, hl⟩ := rp_yieldEv (.connectFail "request-failed") rfl
      { s1 with sockOpen := false, trace := .sockClose :: s1.trace } ⟨rfl, pre.2⟩
    left
    intro o ho
    rw [el] at ho
    rcases List.mem_append.mp ho with h | h
    · obtain ⟨h1, h2, _⟩ := calm_facts (hl o h); exact ⟨h1, h2⟩
    · rcases List.mem_cons.mp h with rfl | h
      · exact ⟨rfl, rfl⟩
      · obtain ⟨h1, h2, _⟩ := calm_facts (hc o h); exact ⟨h1, h2⟩
  · rw [bind_ok e]
    have hoo : o = .wr s1.cfg.request ∨ o = .wrFail s1.cfg.request := by
      rcases ho' with rfl | ⟨_, rfl⟩ | ⟨op, pl, h, _⟩
      · exact Or.inr rfl
      · exact Or.inl rfl
      · cases h
    have hA : Spec RL (do closeSocket; yieldEv (.connectFail "request-failed") : M Unit) :=
      spec_bind rl_po rl_closeSocket (fun _ => rl_yieldEv _)
    right
    split
    · obtain ⟨l, el, _⟩ := hA { s1 with sockOpen := true, writeCtr := s1.writeCtr + 1, trace := o :: s1.trace }
      exact ⟨l, o, s1.trace, el, hoo, hc⟩
    · obtain ⟨l, el, _⟩ := hB { s1 with sockOpen := true, writeCtr := s1.writeCtr + 1, trace := o :: s1.trace }
      exact ⟨l, o, s1.trace, el, hoo, hc⟩

theorem rl_afterLoop (proxy : Bool) : Spec RL
    (do yieldConnected proxy; modS (fun s => { s with selOpen := true }); runLoop : M Unit) :=
  spec_bind rl_po (rl_yieldConnected proxy) (fun _ => spec_bind rl_po
    (spec_modS (fun s => by rl_leaf)) (fun _ => rl_runLoop))

theorem rl_afterNoSel (proxy : Bool) : Spec RL
    (do yieldConnected proxy; modS (fun s => { s with selOpen := false }); runLoopNoSel : M Unit) :=
  spec_bind rl_po (rl_yieldConnected proxy) (fun _ => spec_bind rl_po
    (spec_modS (fun s => by rl_leaf)) (fun _ => rl_runLoopNoSel))

open Lomond.Core.PongRun in
theorem reqFirst_run (cfg : Cfg) (react : React) (env : List EnvStep) (hv : cfg.v.closeArgs = true) :
    ReqFirst cfg.request (run { cfg := cfg, react := react, env := env }).state.trace := by
  have pre0 : Pre { cfg := cfg, react := react, env := env } := ⟨rfl, hv⟩
  have h1 := rp_yieldEv .connecting rfl { cfg := cfg, react := react, env := env } pre0
  have ofCalm : ∀ t : List Obs, (∀ o ∈ t, calm o = true) → ReqFirst cfg.request t := by
    intro t ht; left; intro o ho
    obtain ⟨a, b, _⟩ := calm_facts (ht o ho); exact ⟨a, b⟩
  unfold run
  cases hy : yieldEv .connecting { cfg := cfg, react := react, env := env } with
  | err x s1 =>
    rw [hy] at h1
    obtain ⟨_, _, l, el, hl⟩ := h1
    rw [bind_err hy]
    simp only [Res.state_err] at el ⊢
    exact ofCalm _ (by rw [el]; exact fun o ho => hl o (by simpa using ho))
  | ok u s1 =>
    rw [hy] at h1
    obtain ⟨pre1, hcfg, l, el, hl⟩ := h1
    simp only [Res.state_ok] at pre1 hcfg el
    have hc1 : ∀ o ∈ s1.trace, calm o = true := by
      rw [el]; intro o ho; exact hl o (by simpa using ho)
    rw [bind_ok hy, bind_ok (show getS s1 = .ok s1 s1 from rfl)]
    have hfail : ReqFirst cfg.request (yieldEv (.connectFail "connect-failed") s1).state.trace := by
      obtain ⟨_, _, l2, el2, hl2⟩ := rp_yieldEv (.connectFail "connect-failed") rfl s1 pre1
      refine ofCalm _ (fun o ho => ?_)
      rw [el2] at ho
      rcases List.mem_append.mp ho with h | h
      · exact hl2 o h
      · exact hc1 o h
    have hrq : s1.cfg.request = cfg.request := by rw [hcfg]
    cases hcn : s1.cfg.connect with
    | socketFail => exact hfail
    | otherFail => exact hfail
    | ok proxy => rw [← hrq]; exact reqFirst_connect _ (rl_afterLoop proxy) s1 pre1 hc1
    | selFail proxy => rw [← hrq]; exact reqFirst_connect _ (rl_afterNoSel proxy) s1 pre1 hc1

/-- **the upgrade request is the oldest write of every connection** -/
theorem reqFirst_runAll (cfg : Cfg) (react : React) (env : List EnvStep) (hv : cfg.v.closeArgs = true) :
    ReqFirst cfg.request (runAll cfg react env).trace := by
  have h := reqFirst_run cfg react env hv
  unfold runAll
  simp only []
  generalize run { cfg := cfg, react := react, env := env } = r at h
  have cs : ∀ s : Sys, ReqFirst cfg.request s.trace →
      ReqFirst cfg.request (match closeSocket s with | .ok _ s' => s' | .err _ s' => s').trace := by
    intro s hs
    rw [closeSocket_eq]
    simp only []
    unfold sockClosed
    split
    · exact hs.cons .sockClose rfl rfl
    · exact hs
  cases r with
  | ok a s => exact h
  | err x s =>
    simp only [Res.state_err] at h
    cases x with
    | genExit => simp only []; split; exact cs s h; exact h
    | outer y =>
      cases y with
      | genExit => simp only []; split; exact cs s h; exact h
      | _ => exact h.cons .incomplete rfl rfl
    | _ => exact h.cons .incomplete rfl rfl

/-- a Ping event of a connection lies above the upgrade request -/
theorem ReqFirst.ping_above {req : Bytes} {tr : List Obs} (h : ReqFirst req tr)
    {pre : List Obs} {d : Bytes} {post : List Obs} (e : tr = pre ++ .ev (.ping d) :: post) :
    ∃ mid o older, post = mid ++ o :: older ∧ (o = .wr req ∨ o = .wrFail req) ∧
      ∀ x ∈ older, PongRun.calm x = true := by
  rcases h with h | ⟨n, o, old, e2, ho, hc⟩
  · have := (h (.ev (.ping d)) (by rw [e]; simp)).2
    cases this
  · -- the Ping event is not in `o :: old`, hence in `n`
    have key : ∀ (n pre : List Obs), n ++ o :: old = pre ++ .ev (.ping d) :: post →
        ∃ mid, post = mid ++ o :: old := by
      intro n
      induction n with
      | nil =>
        intro pre e3
        exfalso
        have hm : Obs.ev (.ping d) ∈ o :: old := by rw [show o :: old = [] ++ o :: old from rfl, e3]; simp
        rcases List.mem_cons.mp hm with h1 | h1
        · rcases ho with rfl | rfl <;> cases h1
        · have := (PongRun.calm_facts (hc _ h1)).2.1; cases this
      | cons x n ih =>
        intro pre e3
        cases pre with
        | nil =>
          simp only [List.nil_append, List.cons_append, List.cons.injEq] at e3
          exact ⟨n, e3.2.symm⟩
        | cons y pre =>
          simp only [List.cons_append, List.cons.injEq] at e3
          exact ih pre e3.2
    obtain ⟨mid, hm⟩ := key n pre (by rw [← e2, e])
    exact ⟨mid, o, old, hm, ho, hc⟩

/-- a token on top of a write: the write sits in call position -/
theorem resOK_write {o : Obs} {t : List Obs} (ho : o.isWrite = true) (h : resOK (o :: t) = true) :
    atApp t = true := by
  cases o
  case wr => simp only [resOK, Bool.and_eq_true] at h; exact h.2
  case wrz => simp only [resOK, Bool.and_eq_true] at h; exact h.2
  case wrFail => simp only [resOK, Bool.and_eq_true] at h; exact h.2
  all_goals cases ho

theorem atApp_cut (l : List Obs) (e : Event) (t : List Obs) (h : atApp (l ++ .ev e :: t) = true) :
    atApp (l ++ [.ev e]) = true := by
  cases l with
  | nil => rfl
  | cons o l => cases o <;> first | rfl | cases h

theorem resOK_cut (l : List Obs) (e : Event) (t : List Obs) (h : resOK (l ++ .ev e :: t) = true) :
    resOK (l ++ [.ev e]) = true := by
  cases l with
  | nil => rfl
  | cons o l =>
    cases o
    case ev => rfl
    case res => rfl
    all_goals
      simp only [List.cons_append, resOK, Bool.and_eq_true] at h
      simp only [List.cons_append, resOK, Bool.and_eq_true]
      exact ⟨h.1, atApp_cut l e t h.2⟩

/-- the part of a well-placed trace from an event upwards is well placed on its own: every token
    above the event is attached to that event or to a later one -/
theorem twp_cut (l : List Obs) (e : Event) (t : List Obs) (h : TokensWellPlaced (l ++ .ev e :: t) = true) :
    TokensWellPlaced (l ++ [.ev e]) = true := by
  induction l with
  | nil => rfl
  | cons o l ih =>
    cases ho : o.resTok with
    | false =>
      rw [List.cons_append, twp_cons ho] at h
      rw [List.cons_append, twp_cons ho]; exact ih h
    | true =>
      cases o <;> first | cases ho | skip
      rw [List.cons_append, twp_res, Bool.and_eq_true] at h
      rw [List.cons_append, twp_res, Bool.and_eq_true]
      exact ⟨resOK_cut l e t h.1, ih h.2⟩

/-! ### the library's own write sites append at most one entry, a write -/

/-- nothing, or exactly one write, was appended -/
def W1 (s s' : Sys) : Prop := s'.trace = s.trace ∨ ∃ o, s'.trace = o :: s.trace ∧ o.isWrite = true

theorem w1_write (d : Bytes) (z : Option (Nat × Bytes)) (s : Sys) : ∃ r s', write d z s = .ok r s' ∧ W1 s s' := by
  unfold write
  simp only []
  splits
  all_goals first
    | exact ⟨_, _, rfl, Or.inl rfl⟩
    | exact ⟨_, _, rfl, Or.inr ⟨_, rfl, rfl⟩⟩

theorem w1_sendFrame (op : Nat) (pl : Bytes) (c : Option Bytes) (s : Sys) :
    ∃ r s', sendFrame op pl c s = .ok r s' ∧ W1 s s' := by
  unfold sendFrame
  simp only []
  splits
  all_goals first
    | exact ⟨_, _, rfl, Or.inl rfl⟩
    | exact w1_write _ _ _

theorem w1_onEvent (e : Event) : Spec W1 (onEvent e) := by
  intro s; unfold onEvent
  splits
  all_goals first
    | exact Or.inl rfl
    | (rename_i h
       obtain ⟨r, s2, e, a⟩ := w1_sendFrame _ _ _ _
       rw [h] at e; cases e
       exact a)
    | (rename_i h
       obtain ⟨r, s2, e, a⟩ := w1_sendFrame _ _ _ _
       rw [h] at e; cases e)

theorem w1_checkAutoPing : Spec W1 checkAutoPing := by
  intro s
  unfold checkAutoPing
  rw [bind_ok (show getS s = .ok s s from rfl)]
  split
  · rw [bind_ok (show modS _ s = .ok () _ from rfl)]
    obtain ⟨r, s2, e, a⟩ := w1_sendFrame Gen.opPing [] none
      { s with nextPing := ceilDiv (sessionTime s) s.cfg.pingRate * s.cfg.pingRate }
    rw [bind_ok e]
    exact a
  · exact Or.inl rfl

end Lomond.Core.PongTokens
