/-
  C01 / C02 generalised, consumer side: a *one-frame-at-a-time* version of the delivery argument.

  `Proofs/Delivery.lean` pushes the frames of a whole message through the consumer in one go
  (`Eats`), which is enough when the bytes of the stream arrive with the clock standing still.
  Here every frame is a step of its own (`Eat1`), from any state that satisfies the time-insensitive
  invariant `TG` (send-only application, ping timeout disabled, close timer not armed, socket open,
  websocket not closed): between two frames anything may happen that keeps `TG` and the consumer's
  view (`View`: fragment list and inflate context) — in particular the clock may advance and
  `_regular()` may yield Polls and write automatic Pings.

  The steps also cover permessage-deflate: a message whose first frame has RSV1 set is inflated
  (`buildPure` mirrors `Message.build` + `Deflate.decompress`); the inflate context is part of the
  view and is threaded through the message list (`ItemsAt`).
-/
import Lomond.Proofs.EndToEnd
import Lomond.Proofs.Quiet
import Lomond.Proofs.SegmentationLoop
import Lomond.Proofs.DeflateTie
import Lomond.Proofs.DeliveryGenParse
set_option linter.unusedSimpArgs false
set_option linter.unusedVariables false
namespace Lomond.Core.DG
open Lomond Lomond.Core Lomond.Core.E2E

/-! ### what neither a send call nor `_regular()` touches -/

structure Fix (s s' : Sys) : Prop where
  cfg : s'.cfg = s.cfg
  react : s'.react = s.react
  sockOpen : s'.sockOpen = s.sockOpen
  selOpen : s'.selOpen = s.selOpen
  closed : s'.closed = s.closed
  closing : s'.closing = s.closing
  sentCloseTime : s'.sentCloseTime = s.sentCloseTime
  ready : s'.ready = s.ready
  startTime : s'.startTime = s.startTime
  now : s'.now = s.now

theorem fix_po : PO Fix where
  refl s := ⟨rfl, rfl, rfl, rfl, rfl, rfl, rfl, rfl, rfl, rfl⟩
  trans h1 h2 := ⟨h2.cfg.trans h1.cfg, h2.react.trans h1.react, h2.sockOpen.trans h1.sockOpen,
    h2.selOpen.trans h1.selOpen, h2.closed.trans h1.closed, h2.closing.trans h1.closing,
    h2.sentCloseTime.trans h1.sentCloseTime, h2.ready.trans h1.ready, h2.startTime.trans h1.startTime,
    h2.now.trans h1.now⟩

macro "fix_leaf" : tactic =>
  `(tactic| ((try simp only [Res.state_ok, Res.state_err]); exact ⟨rfl, rfl, rfl, rfl, rfl, rfl, rfl, rfl, rfl, rfl⟩))

theorem Fix.of_keep {s s' : Sys} (k : Keep s s') : Fix s s' :=
  ⟨k.cfg, k.react, k.sockOpen, k.selOpen, k.closed, k.closing, k.sentCloseTime, k.ready, k.startTime, k.now⟩

theorem Fix.sessionTime {s s' : Sys} (f : Fix s s') : sessionTime s' = sessionTime s := by
  unfold Core.sessionTime; rw [f.startTime, f.now]

theorem fix_sendFrame (op : Nat) (pl : Bytes) (c : Option Bytes) : Spec Fix (sendFrame op pl c) :=
  fun s => Fix.of_keep (E2E.keep_sendFrame op pl c s)

/-- `Fix`, under the assumption that the application only sends -/
def FixR (s s' : Sys) : Prop := SendOnly s.react → Fix s s'

theorem fixr_po : PO FixR where
  refl s := fun _ => fix_po.refl s
  trans := by
    intro a b c h1 h2 hs
    have k1 := h1 hs
    exact fix_po.trans k1 (h2 (by rw [k1.react]; exact hs))

theorem fixr_of_fix {m : M α} (h : Spec Fix m) : Spec FixR m := fun s _ => h s

theorem fixr_yieldEv (e : Event) : Spec FixR (yieldEv e) := by
  intro s hs
  have e0 : yieldEv e s = doActs (s.react (e :: s.hist)) (pushEv e s) := rfl
  rw [e0]
  have h1 : Fix s (pushEv e s) := by unfold pushEv; fix_leaf
  exact fix_po.trans h1 (Fix.of_keep (E2E.keep_doActs _ (hs _) (pushEv e s)))

theorem fixr_checkPoll : Spec FixR checkPoll := by
  unfold checkPoll
  refine spec_getS_bind fixr_po (fun s => ?_)
  simp only []
  splits
  all_goals first
    | exact spec_pure fixr_po _
    | (refine spec_bind fixr_po (spec_modS ?_) (fun _ => fixr_yieldEv _); intro s _; fix_leaf)

theorem fixr_checkAutoPing : Spec FixR checkAutoPing := by
  unfold checkAutoPing
  refine spec_getS_bind fixr_po (fun s => ?_)
  simp only []
  split
  · refine spec_bind fixr_po (spec_modS ?_) (fun _ =>
      spec_bind fixr_po (fixr_of_fix (fix_sendFrame _ _ _)) (fun _ => spec_pure fixr_po _))
    intro s _; fix_leaf
  · exact spec_pure fixr_po _

theorem fixr_checkPingTimeout : Spec FixR checkPingTimeout := by
  unfold checkPingTimeout
  refine spec_getS_bind fixr_po (fun s => ?_)
  simp only []
  split
  · exact spec_bind fixr_po (fixr_yieldEv _) (fun _ => spec_throwE fixr_po _)
  · exact spec_pure fixr_po _

theorem fixr_checkCloseTimeout : Spec FixR checkCloseTimeout := by
  unfold checkCloseTimeout
  refine spec_getS_bind fixr_po (fun s => ?_)
  simp only []
  splits
  all_goals first | exact spec_pure fixr_po _ | exact spec_throwE fixr_po _

theorem fixr_regular : Spec FixR regular := by
  unfold regular
  apply spec_bind fixr_po (spec_getS fixr_po); intro s
  split
  · exact spec_bind fixr_po fixr_checkPoll (fun _ => spec_bind fixr_po fixr_checkAutoPing
      (fun _ => spec_bind fixr_po fixr_checkPingTimeout (fun _ => fixr_checkCloseTimeout)))
  · exact spec_pure fixr_po _

/-- `_on_event` for every event but Ready (which starts the session clock) -/
theorem fix_onEvent (e : Event) (he : ∀ a b, e ≠ .ready a b) : Spec Fix (onEvent e) := by
  intro s; unfold onEvent
  splits
  all_goals first
    | (exfalso; exact he _ _ rfl)
    | fix_leaf
    | (rename_i h; exact (fix_sendFrame _ _ _).ok h)
    | (rename_i h; exact (fix_sendFrame _ _ _).err h)

/-- a normal return of a `yield` inside `feed` (any event but Ready), send-only application -/
theorem fix_feedYield {b : Bool} {e : Event} (he : ∀ a c, e ≠ .ready a c) {s s' : Sys} (hs : SendOnly s.react)
    (h : feedYield b e s = .ok () s') : Fix s s' := by
  obtain ⟨s1, s2, h1, h2, h3⟩ := SegLoop.feedYield_ok_inv h
  have k1 : Fix s s1 := (fix_onEvent e he).ok h1
  have k2 : Fix s1 s2 := (fixr_yieldEv e).ok h2 (by rw [k1.react]; exact hs)
  have k3 : Fix s2 s' := (fixr_regular).ok h3 (by rw [k2.react, k1.react]; exact hs)
  exact fix_po.trans k1 (fix_po.trans k2 k3)

/-! ### the time-insensitive invariant -/

/-- send-only application, no ping timeout, close timer not armed (or disabled), socket open,
    websocket not closed -/
structure TG (s : Sys) : Prop where
  app : SendOnly s.react
  pt : s.cfg.pingTimeout = 0
  ct : s.cfg.closeTimeout = 0 ∨ s.sentCloseTime = none
  sock : s.sockOpen = true
  closed : s.closed = false

theorem TG.good {s : Sys} (h : TG s) : Good s := by
  refine ⟨h.app.quiet, Or.inl h.pt, ?_⟩
  rcases h.ct with h0 | h0
  · exact Or.inl h0
  · exact Or.inr (fun ct hc => by rw [h0] at hc; cases hc)

theorem TG.of_fix {s s' : Sys} (h : TG s) (f : Fix s s') : TG s' :=
  ⟨by rw [f.react]; exact h.app, by rw [f.cfg]; exact h.pt, by rw [f.cfg, f.sentCloseTime]; exact h.ct,
   by rw [f.sockOpen]; exact h.sock, by rw [f.closed]; exact h.closed⟩

theorem TG.tick {s : Sys} (h : TG s) (dt : Nat) : TG (tick s dt) :=
  ⟨h.app, h.pt, h.ct, h.sock, h.closed⟩

theorem TG.noSessionClose {s : Sys} (h : TG s) : SegLoop.NoSessionClose s.react := by
  intro hi hm
  have := h.app hi _ hm
  simp [isSendAct] at this

/-- **one `yield` inside `feed`**, from a `TG` state: `_on_event`, the hand-over, the application's
    sends and `_regular()` return normally; exactly this event is delivered; nothing that `TG`, the
    consumer or the inflate context depend on changes -/
theorem feedYield_T (b : Bool) (e : Event) (hd : Deliverable e) (s : Sys) (g : TG s) :
    ∃ s', feedYield b e s = .ok () s' ∧ Calm [e] s s' ∧ Fix s s' ∧ Quiet s s' := by
  obtain ⟨_, s', h, c⟩ := tot_feedYield b e hd s g.good
  have hne : ∀ a c, e ≠ .ready a c := by
    intro a c he; subst he; exact hd
  refine ⟨s', h, c, fix_feedYield hne g.app h, ?_⟩
  have := quiet_feedYield b e s
  rw [h] at this
  exact this

/-- **the clock advances and `_regular()` runs** (the top of a loop cycle), from a `TG` state -/
theorem regular_T (s : Sys) (dt : Nat) (g : TG s) :
    ∃ s', regular (tick s dt) = .ok () s' ∧ Calm [] (tick s dt) s' ∧ Fix (tick s dt) s' ∧ Quiet (tick s dt) s' := by
  obtain ⟨_, s', h, c⟩ := tot_regular (tick s dt) (g.tick dt).good
  refine ⟨s', h, c, (fixr_regular).ok h (g.tick dt).app, ?_⟩
  have := quiet_regular (tick s dt)
  rw [h] at this
  exact this

/-! ### the consumer's view, the negotiated extension -/

/-- the inflate context: the compressed history fed so far, the number of bytes delivered -/
structure ICtx where
  hist : Bytes
  out : Nat
  deriving DecidableEq, Repr

/-- what the stream / message layers keep between two frames -/
structure View where
  frames : List Frame
  ic : ICtx

def view (s : Sys) : View := ⟨s.frames, ⟨s.inflHist, s.inflOut⟩⟩

/-- the negotiated extension: the inflater and the configuration (`none`: nothing negotiated) -/
structure ZP where
  infl : Nat → Bytes → Option Bytes
  dc : Option Http.DeflateCfg

structure ZOk (z : ZP) (s : Sys) : Prop where
  infl : s.cfg.inflate = z.infl
  comp : s.compression = z.dc
  dec : s.decompress = z.dc.isSome

/-- `Deflate.decompress` on the joined payload of a message, as a function of the context -/
def inflPure (z : ZP) (c : ICtx) (joined : Bytes) : Option (Bytes × ICtx) :=
  match z.infl ((z.dc.map (·.decompressWbits)).getD 15) (c.hist ++ joined ++ [0, 0, 0xff, 0xff]) with
  | none => none
  | some out =>
    if (z.dc.map (·.resetDecompress)).getD false then some (out.drop c.out, ⟨[], 0⟩)
    else some (out.drop c.out, ⟨c.hist ++ joined ++ [0, 0, 0xff, 0xff], out.length⟩)

/-- the payload `Message.build` decodes: inflated iff the first frame has RSV1 and the extension is on -/
def buildPure (z : ZP) (c : ICtx) (first : Frame) (joined : Bytes) : Option (Bytes × ICtx) :=
  if first.rsv1 ≠ 0 ∧ z.dc.isSome = true then inflPure z c joined else some (joined, c)

theorem inflateMessage_pure (z : ZP) (s : Sys) (hz : ZOk z s) (j o : Bytes) (c' : ICtx)
    (h : inflPure z ⟨s.inflHist, s.inflOut⟩ j = some (o, c')) :
    inflateMessage j s = .ok o { s with inflHist := c'.hist, inflOut := c'.out } := by
  unfold inflPure at h
  rw [← hz.infl, ← hz.comp] at h
  unfold inflateMessage
  simp only [] at h ⊢
  split at h
  · cases h
  · rename_i out heq
    rw [heq]
    simp only []
    split at h
    · rename_i hr
      cases h
      rw [if_pos hr]
    · rename_i hr
      cases h
      rw [if_neg hr]

theorem buildMessage_pure (z : ZP) (first : Frame) (tl : List Frame) (s : Sys) (hz : ZOk z s)
    (pl : Bytes) (c' : ICtx)
    (h : buildPure z ⟨s.inflHist, s.inflOut⟩ first ((first :: tl).map (·.payload)).flatten = some (pl, c'))
    (m : Msg) (hm : msgOfPayload first.opcode pl = .ok m) :
    buildMessage (first :: tl) s = .ok m { s with inflHist := c'.hist, inflOut := c'.out } := by
  unfold buildMessage
  simp only []
  rw [bind_ok (show getS s = .ok s s from rfl)]
  unfold buildPure at h
  by_cases hc : first.rsv1 ≠ 0 ∧ z.dc.isSome = true
  · have hc' : first.rsv1 ≠ 0 ∧ s.decompress = true := ⟨hc.1, by rw [hz.dec]; exact hc.2⟩
    rw [if_pos hc] at h
    rw [if_pos hc', bind_ok (inflateMessage_pure z s hz _ _ _ h)]
    unfold liftE; rw [hm]
  · have hc' : ¬ (first.rsv1 ≠ 0 ∧ s.decompress = true) := by rw [hz.dec]; exact hc
    rw [if_neg hc] at h
    cases h
    rw [if_neg hc']
    rw [bind_ok (show (pure ((first :: tl).map (·.payload)).flatten : M Bytes) s = .ok _ s from rfl)]
    unfold liftE; rw [hm]

/-! ### one frame at a time -/

/-- what handling a frame guarantees, apart from the view: `es` are the events delivered -/
structure RelT (es : List Event) (s s' : Sys) : Prop where
  fix : Fix s s'
  comp : s'.compression = s.compression
  dec : s'.decompress = s.decompress
  evs : delivered s'.trace = es ++ delivered s.trace

theorem RelT.refl (s : Sys) : RelT [] s s := ⟨fix_po.refl s, rfl, rfl, rfl⟩

theorem RelT.trans {e1 e2 : List Event} {a b c : Sys} (h1 : RelT e1 a b) (h2 : RelT e2 b c) :
    RelT (e2 ++ e1) a c :=
  ⟨fix_po.trans h1.fix h2.fix, h2.comp.trans h1.comp, h2.dec.trans h1.dec,
   by rw [h2.evs, h1.evs, List.append_assoc]⟩

theorem ZOk.of_rel {z : ZP} {es : List Event} {s s' : Sys} (hz : ZOk z s) (r : RelT es s s') : ZOk z s' :=
  ⟨by rw [r.fix.cfg]; exact hz.infl, r.comp.trans hz.comp, r.dec.trans hz.dec⟩

/-- handling frame `f` from any `TG` state with view `c`: returns normally, `WebSocket.feed` goes
    on, exactly the events `es` (newest first) are delivered, the view becomes `c'`, the parser is
    not touched -/
def Eat1 (z : ZP) (f : Frame) (es : List Event) (c c' : View) : Prop :=
  ∀ s, TG s → ZOk z s → view s = c →
    ∃ s', onOut (.frame f) s = .ok true s' ∧ RelT es s s' ∧ view s' = c' ∧ s'.p = s.p

/-- a list of frames, one step each -/
def EatSeq (z : ZP) : List Frame → List Event → View → View → Prop
  | [], es, c, c' => es = [] ∧ c = c'
  | f :: fs, es, c, c' => ∃ e1 e2 c1, Eat1 z f e1 c c1 ∧ EatSeq z fs e2 c1 c' ∧ es = e2 ++ e1

theorem eatSeq_nil (z : ZP) (c : View) : EatSeq z [] [] c c := ⟨rfl, rfl⟩

theorem eatSeq_one {z : ZP} {f : Frame} {es : List Event} {c c' : View} (h : Eat1 z f es c c') :
    EatSeq z [f] es c c' := ⟨es, [], c', h, ⟨rfl, rfl⟩, rfl⟩

theorem eatSeq_append {z : ZP} {a b : List Frame} {e1 e2 : List Event} {c0 c1 c2 : View}
    (h1 : EatSeq z a e1 c0 c1) (h2 : EatSeq z b e2 c1 c2) : EatSeq z (a ++ b) (e2 ++ e1) c0 c2 := by
  induction a generalizing e1 c0 with
  | nil =>
    obtain ⟨rfl, rfl⟩ := h1
    simpa using h2
  | cons f r ih =>
    obtain ⟨x1, x2, cm, hf, hr, rfl⟩ := h1
    exact ⟨x1, e2 ++ x2, cm, hf, ih hr, by simp⟩

/-- the steps of `a ++ b` are the steps of `a`, then the steps of `b` -/
theorem eatSeq_split {z : ZP} {a b : List Frame} {es : List Event} {c0 c2 : View}
    (h : EatSeq z (a ++ b) es c0 c2) :
    ∃ e1 e2 c1, EatSeq z a e1 c0 c1 ∧ EatSeq z b e2 c1 c2 ∧ es = e2 ++ e1 := by
  induction a generalizing es c0 with
  | nil => exact ⟨[], es, c0, eatSeq_nil z c0, h, by simp⟩
  | cons f r ih =>
    obtain ⟨x1, x2, cm, hf, hr, rfl⟩ := h
    obtain ⟨y1, y2, cn, ha, hb, rfl⟩ := ih hr
    exact ⟨y1 ++ x1, y2, cn, ⟨x1, y1, cm, hf, ha, rfl⟩, hb, by simp⟩

theorem onOut_frame_of {f : Frame} {s s' : Sys} (h : onFrame f s = .ok () s') (hc : s'.closed = false) :
    onOut (.frame f) s = .ok true s' := by
  show (do onFrame f; notClosed : M Bool) s = _
  rw [bind_ok h, notClosed_eq, hc]
  rfl

/-- a Ping / Pong frame, at any time: its event, the view unchanged -/
theorem eat_ctrl (z : ZP) (c : CtrlF) (hc : c.Ok) (vw : View) : Eat1 z c.wire.frame [c.event] vw vw := by
  intro s g hz hv
  have hctl : c.wire.frame.isControl = true := by
    unfold Frame.isControl CtrlF.wire WFrame.frame
    cases c.pong <;> simp
  have hd : Deliverable c.event := by
    unfold CtrlF.event
    cases c.pong
    · simp only [Bool.false_eq_true, if_false]; exact hc.2
    · simp only [if_true]; trivial
  have hb : ∃ msg, buildMessage [c.wire.frame] s = .ok msg s ∧ onMessage msg = feedYield true c.event := by
    rw [buildMessage_plain c.wire.frame [] s rfl]
    unfold CtrlF.wire WFrame.frame CtrlF.event
    cases c.pong
    · exact ⟨.ping c.payload, by simp [msgOfPayload, liftE, Gen.opBinary, Gen.opText, Gen.opClose, Gen.opPing], rfl⟩
    · exact ⟨.pong c.payload,
        by simp [msgOfPayload, liftE, Gen.opBinary, Gen.opText, Gen.opClose, Gen.opPing, Gen.opPong], rfl⟩
  obtain ⟨msg, hb1, hb2⟩ := hb
  obtain ⟨s', h, cm, fx, q⟩ := feedYield_T true c.event hd s g
  have hf : onFrame c.wire.frame s = .ok () s' := by
    unfold onFrame
    simp only [hctl, if_true]
    rw [bind_ok hb1, hb2]
    exact h
  refine ⟨s', onOut_frame_of hf (by rw [fx.closed]; exact g.closed), ⟨fx, q.comp, q.dec, cm.evs⟩, ?_, cm.p⟩
  rw [← hv]
  unfold view
  rw [cm.frames, q.hist, q.out]

/-- a data frame without FIN: appended to the fragment list, nothing else -/
theorem eat_more (z : ZP) (f : Frame) (vw : View) (hfin : f.fin = 0) (hctl : f.isControl = false)
    (hcont : f.isContinuation = true ↔ vw.frames ≠ []) :
    Eat1 z f [] vw ⟨vw.frames ++ [f], vw.ic⟩ := by
  intro s g hz hv
  have hfr : s.frames = vw.frames := by rw [← hv]; rfl
  refine ⟨_, onOut_data_more f s g.closed hfin hctl (by rw [hfr]; exact hcont),
    ⟨by fix_leaf, rfl, rfl, rfl⟩, ?_, rfl⟩
  rw [← hv]
  rfl

/-- the FIN data frame: the message is built from all fragments (inflated if the first frame has
    RSV1 and the extension is on), handed over as one event; the fragment list is emptied and the
    inflate context advances -/
theorem eat_fin (z : ZP) (f : Frame) (vw : View) (hfin : f.fin ≠ 0) (hctl : f.isControl = false)
    (hcont : f.isContinuation = true ↔ vw.frames ≠ [])
    (first : Frame) (tl : List Frame) (hfr : vw.frames ++ [f] = first :: tl)
    (pl : Bytes) (ic' : ICtx)
    (hb : buildPure z vw.ic first ((first :: tl).map (·.payload)).flatten = some (pl, ic'))
    (m : Msg) (hm : msgOfPayload first.opcode pl = .ok m)
    (e : Event) (he : onMessage m = feedYield true e) (hd : Deliverable e) :
    Eat1 z f [e] vw ⟨[], ic'⟩ := by
  intro s g hz hv
  have hfs : s.frames = vw.frames := by rw [← hv]; rfl
  have hic : (⟨s.inflHist, s.inflOut⟩ : ICtx) = vw.ic := by rw [← hv]; rfl
  let s0 : Sys := { s with frames := s.frames ++ [f] }
  let s1 : Sys := { s0 with inflHist := ic'.hist, inflOut := ic'.out }
  have z0 : ZOk z s0 := ⟨hz.infl, hz.comp, hz.dec⟩
  have g1 : TG s1 := ⟨g.app, g.pt, g.ct, g.sock, g.closed⟩
  obtain ⟨s2, h2, cm, fx, q⟩ := feedYield_T true e hd s1 g1
  have hbm : buildMessage s0.frames s0 = .ok m s1 := by
    show buildMessage (s.frames ++ [f]) s0 = _
    rw [hfs, hfr]
    exact buildMessage_pure z first tl s0 z0 pl ic' (by rw [show (⟨s0.inflHist, s0.inflOut⟩ : ICtx) = vw.ic from hic]; exact hb) m hm
  have hf : onFrame f s = .ok () { s2 with frames := [] } := by
    unfold onFrame
    simp only [hctl, Bool.false_eq_true, if_false]
    unfold onDataFrame
    rw [bind_ok (show getS s = .ok s s from rfl)]
    have c1 : ¬ (f.isContinuation = true ∧ s.frames = []) := by
      intro h; rw [hfs] at h; exact (hcont.mp h.1) h.2
    have c2 : ¬ (¬ f.isContinuation = true ∧ s.frames ≠ []) := by
      intro h; rw [hfs] at h; exact h.1 (hcont.mpr h.2)
    simp only [c1, c2, if_false]
    rw [bind_ok (show modS (fun s => { s with frames := s.frames ++ [f] }) s = .ok () s0 from rfl)]
    simp only [hfin, ne_eq, not_false_eq_true, if_true]
    rw [bind_ok (show getS s0 = .ok s0 s0 from rfl), bind_ok hbm, he, bind_ok h2]
    rfl
  refine ⟨{ s2 with frames := [] }, onOut_frame_of hf (by show s2.closed = false; rw [fx.closed]; exact g.closed),
    ⟨?_, q.comp, q.dec, cm.evs⟩, ?_, cm.p⟩
  · exact fix_po.trans (b := s1) (by fix_leaf) (fix_po.trans fx (by fix_leaf))
  · show View.mk [] ⟨s2.inflHist, s2.inflOut⟩ = _
    rw [q.hist, q.out]

/-! ### messages -/

theorem eat_ctrls (z : ZP) (cs : List CtrlF) (hc : ∀ c ∈ cs, c.Ok) (vw : View) :
    EatSeq z (cs.map (WFrame.frame ∘ CtrlF.wire)) (cs.map CtrlF.event).reverse vw vw := by
  induction cs with
  | nil => exact eatSeq_nil z vw
  | cons c r ih =>
    have h1 := eatSeq_one (eat_ctrl z c (hc c (by simp)) vw)
    have h2 := ih (fun x hx => hc x (by simp [hx]))
    have := eatSeq_append h1 h2
    simpa using this

theorem firstFrame_plain (m : DataMsg) (b : Bool) : firstFrame false m.text m.first b = (m.firstW b).frame := rfl

theorem firstFrame_ctl (zf text : Bool) (g : Frag) (fin : Bool) : (firstFrame zf text g fin).isControl = false := by
  unfold firstFrame Frame.isControl; cases text <;> simp

theorem firstFrame_cont (zf text : Bool) (g : Frag) (fin : Bool) : (firstFrame zf text g fin).isContinuation = false := by
  unfold firstFrame Frame.isContinuation; cases text <;> simp [Gen.opContinuation]

theorem buildPure_congr (z : ZP) (ic : ICtx) (f f' : Frame) (j : Bytes) (h : f.rsv1 = f'.rsv1) :
    buildPure z ic f j = buildPure z ic f' j := by
  unfold buildPure; rw [h]

/-- a continuation frame -/
def contFrame (g : Frag) (fin : Bool) : Frame :=
  ({ fin := fin, opcode := 0, payload := g.payload, form := g.form } : WFrame).frame

/-- the continuation frames of a message whose earlier fragments are `first :: tl` -/
theorem eat_cont (z : ZP) (r : List (List CtrlF × Frag)) (hr : r ≠ []) (hok : contOk r)
    (first : Frame) (tl : List Frame) (ic ic' : ICtx) (pl : Bytes)
    (hb : buildPure z ic first (((first :: tl).map (·.payload)).flatten ++ contPayload r) = some (pl, ic'))
    (msg : Msg) (hm : msgOfPayload first.opcode pl = .ok msg)
    (e : Event) (he : onMessage msg = feedYield true e) (hd : Deliverable e) :
    EatSeq z ((contWire r).map WFrame.frame) (e :: ((contCtrls r).map CtrlF.event).reverse)
      ⟨first :: tl, ic⟩ ⟨[], ic'⟩ := by
  induction r generalizing tl with
  | nil => exact (hr rfl).elim
  | cons x r ih =>
    obtain ⟨cs, g⟩ := x
    have hx := hok (cs, g) (by simp)
    have hcs := eat_ctrls z cs hx.1 ⟨first :: tl, ic⟩
    cases r with
    | nil =>
      have hlast : EatSeq z [contFrame g true] [e] ⟨first :: tl, ic⟩ ⟨[], ic'⟩ := by
        apply eatSeq_one
        refine eat_fin z _ ⟨first :: tl, ic⟩ (by simp [contFrame, WFrame.frame]) rfl
          (by simp [contFrame, Frame.isContinuation, WFrame.frame, Gen.opContinuation])
          first (tl ++ [contFrame g true]) rfl pl ic' ?_ msg hm e he hd
        simpa [contPayload, contFrame, WFrame.frame] using hb
      have := eatSeq_append hcs hlast
      simpa [contWire, contCtrls, contFrame] using this
    | cons y r' =>
      have hmore : EatSeq z [contFrame g false] [] ⟨first :: tl, ic⟩ ⟨first :: (tl ++ [contFrame g false]), ic⟩ := by
        apply eatSeq_one
        exact eat_more z _ ⟨first :: tl, ic⟩ (by simp [contFrame, WFrame.frame]) rfl
          (by simp [contFrame, Frame.isContinuation, WFrame.frame, Gen.opContinuation])
      have hrest := ih (by simp) (fun w hw => hok w (by simp [hw])) (tl ++ [contFrame g false])
        (by simpa [contPayload, contFrame, WFrame.frame] using hb)
      have := eatSeq_append hcs (eatSeq_append hmore hrest)
      simpa [contWire, contCtrls, contFrame] using this

/-- a data message as the peer sends it: `zf` = compressed (RSV1 on the first frame; then
    `m.payload` is the compressed data), `plain` = the application data it stands for -/
structure GMsg where
  zf : Bool
  m : DataMsg
  plain : Bytes
  deriving Repr, DecidableEq

def GMsg.frames (g : GMsg) : List Frame :=
  firstFrame g.zf g.m.text g.m.first g.m.rest.isEmpty :: (contWire g.m.rest).map WFrame.frame

def GMsg.event (g : GMsg) : Event :=
  if g.m.text then .text ((Utf8.decode g.plain).getD []) else .binary g.plain

def GMsg.events (g : GMsg) : List Event := (contCtrls g.m.rest).map CtrlF.event ++ [g.event]

/-- the message is well-formed and, at inflate context `ic`, stands for `plain`, leaving `ic'` -/
def GMsg.OkAt (z : ZP) (g : GMsg) (ic ic' : ICtx) : Prop :=
  g.m.first.Ok ∧ contOk g.m.rest ∧
  buildPure z ic (firstFrame g.zf g.m.text g.m.first true) g.m.payload = some (g.plain, ic') ∧
  (g.m.text = true → Bytes.WF g.plain ∧ Utf8.wf g.plain = true)

theorem msg_of_plain (g : GMsg) (ht : g.m.text = true → Bytes.WF g.plain ∧ Utf8.wf g.plain = true) :
    ∃ msg, msgOfPayload (if g.m.text then 1 else 2) g.plain = .ok msg ∧
      onMessage msg = feedYield true g.event ∧ Deliverable g.event := by
  cases hx : g.m.text with
  | false =>
    refine ⟨.binary g.plain, ?_, ?_, ?_⟩
    · simp [msgOfPayload, Gen.opBinary]
    · simp [GMsg.event, hx, onMessage]
    · simp [GMsg.event, hx, Deliverable]
  | true =>
    obtain ⟨_, hutf⟩ := ht hx
    have hs : (Utf8.decode g.plain).isSome = true := by rw [Utf8.decode_isSome]; exact hutf
    obtain ⟨cps, hcps⟩ := Option.isSome_iff_exists.mp hs
    refine ⟨.text cps, ?_, ?_, ?_⟩
    · simp [msgOfPayload, Gen.opBinary, Gen.opText, hcps]
    · simp [GMsg.event, hx, onMessage, hcps]
    · simp [GMsg.event, hx, Deliverable]

/-- **one data message, frame by frame**: the interleaved control events in wire order, then one
    message event carrying the (inflated) payload; fragment list empty again, context advanced -/
theorem eat_msg (z : ZP) (g : GMsg) (ic ic' : ICtx) (h : g.OkAt z ic ic') :
    EatSeq z g.frames g.events.reverse ⟨[], ic⟩ ⟨[], ic'⟩ := by
  obtain ⟨hfirst, hrest, hb, ht⟩ := h
  obtain ⟨msg, hmsg, he, hd⟩ := msg_of_plain g ht
  have hop : ∀ b, (firstFrame g.zf g.m.text g.m.first b).opcode = if g.m.text then 1 else 2 := fun _ => rfl
  unfold GMsg.frames
  cases hr : g.m.rest with
  | nil =>
    have hp : g.m.payload = g.m.first.payload := by simp [DataMsg.payload, hr, contPayload]
    have : EatSeq z [firstFrame g.zf g.m.text g.m.first true] [g.event] ⟨[], ic⟩ ⟨[], ic'⟩ := by
      apply eatSeq_one
      refine eat_fin z _ ⟨[], ic⟩ (by simp [firstFrame]) (firstFrame_ctl _ _ _ _)
        (by rw [firstFrame_cont]; simp) _ [] rfl g.plain ic' ?_ msg (by rw [hop]; exact hmsg) g.event he hd
      rw [hp] at hb
      simpa [firstFrame] using hb
    simpa [GMsg.events, hr, contWire, contCtrls] using this
  | cons y r' =>
    have h1 : EatSeq z [firstFrame g.zf g.m.text g.m.first false] [] ⟨[], ic⟩
        ⟨[firstFrame g.zf g.m.text g.m.first false], ic⟩ := by
      apply eatSeq_one
      exact eat_more z _ ⟨[], ic⟩ (by simp [firstFrame]) (firstFrame_ctl _ _ _ _) (by rw [firstFrame_cont]; simp)
    have h2 := eat_cont z (y :: r') (by simp) (hr ▸ hrest) (firstFrame g.zf g.m.text g.m.first false) [] ic ic'
      g.plain (by
        rw [buildPure_congr z ic (firstFrame g.zf g.m.text g.m.first false)
          (firstFrame g.zf g.m.text g.m.first true) _ rfl]
        simpa [DataMsg.payload, hr, firstFrame] using hb)
      msg (by rw [hop]; exact hmsg) g.event he hd
    have := eatSeq_append h1 h2
    simpa [GMsg.events, hr] using this

/-! ### streams of items -/

inductive GItem
  | ctrl (c : CtrlF)
  | msg (g : GMsg)
  deriving Repr, DecidableEq

def GItem.frames : GItem → List Frame
  | .ctrl c => [c.wire.frame]
  | .msg g => g.frames

def GItem.events : GItem → List Event
  | .ctrl c => [c.event]
  | .msg g => g.events

/-- the items are well-formed and, starting at inflate context `ic`, each compressed message stands
    for its `plain`; `ic'` is the context after the last one -/
def ItemsAt (z : ZP) : ICtx → List GItem → ICtx → Prop
  | ic, [], ic' => ic = ic'
  | ic, .ctrl c :: r, ic' => c.Ok ∧ ItemsAt z ic r ic'
  | ic, .msg g :: r, ic' => ∃ ic1, g.OkAt z ic ic1 ∧ ItemsAt z ic1 r ic'

/-- **a whole stream of items, frame by frame** -/
theorem eat_items (z : ZP) (items : List GItem) (ic ic' : ICtx) (h : ItemsAt z ic items ic') :
    EatSeq z (items.flatMap GItem.frames) (items.flatMap GItem.events).reverse ⟨[], ic⟩ ⟨[], ic'⟩ := by
  induction items generalizing ic with
  | nil =>
    have : ic = ic' := h
    subst this
    exact eatSeq_nil z _
  | cons it r ih =>
    cases it with
    | ctrl c =>
      obtain ⟨hc, hr⟩ := h
      have h1 := eatSeq_one (eat_ctrl z c hc ⟨[], ic⟩)
      have := eatSeq_append h1 (ih ic hr)
      simpa [List.flatMap_cons, GItem.frames, GItem.events] using this
    | msg g =>
      obtain ⟨ic1, hg, hr⟩ := h
      have := eatSeq_append (eat_msg z g ic ic1 hg) (ih ic1 hr)
      simpa [List.flatMap_cons, GItem.frames, GItem.events] using this

/-! ### the items on the wire -/

/-- the bytes of a data message: a compressed one starts with a frame that has RSV1 set -/
def GMsg.bytes (g : GMsg) : Bytes :=
  if g.zf then zfirstBytes g.m.text g.m.rest.isEmpty g.m.first ++ wireBytes (contWire g.m.rest)
  else wireBytes g.m.wire

def GItem.bytes : GItem → Bytes
  | .ctrl c => c.wire.bytes
  | .msg g => g.bytes

/-- what the parser needs: lengths fit their forms, control payloads ≤ 125, an uncompressed Text is
    well-formed UTF-8, a compressed message only with the extension negotiated (`pc`) -/
def GMsg.WireOk (pc : Bool) (g : GMsg) : Prop :=
  g.m.first.Ok ∧ contOk g.m.rest ∧ (g.zf = true → pc = true) ∧
  (g.zf = false → g.m.text = true → Bytes.WF g.m.payload ∧ Utf8.wf g.m.payload = true)

def GItem.WireOk (pc : Bool) : GItem → Prop
  | .ctrl c => c.Ok
  | .msg g => g.WireOk pc

theorem gmsg_frames_plain (g : GMsg) (h : g.zf = false) : g.frames = g.m.wire.map WFrame.frame := by
  unfold GMsg.frames
  rw [h]
  rfl

/-- **parser half for a stream of items**, compressed messages included -/
theorem parses_gitems (v : Variant) (pc : Bool) (items : List GItem) (p : PState) (hp : Between p)
    (hpc : p.compression = pc) (hok : ∀ it ∈ items, it.WireOk pc) :
    ∃ p', ParsesB v p (items.flatMap GItem.bytes) (items.flatMap GItem.frames) p' ∧ Between p' ∧
      p'.compression = pc := by
  induction items generalizing p with
  | nil => exact ⟨p, parsesB_nil v p, hp, hpc⟩
  | cons it r ih =>
    have h1 : ∃ p1, ParsesB v p it.bytes it.frames p1 ∧ Between p1 := by
      have hi := hok it (by simp)
      cases it with
      | ctrl c =>
        obtain ⟨p1, h, hb⟩ := parses_nontext v [c.wire] p hp (by
          intro w hw
          simp only [List.mem_singleton] at hw
          subst hw
          refine ⟨CtrlF.wire_ok hi, ?_⟩
          rcases c.wire_op with h | h <;> omega)
        refine ⟨p1, ?_, hb⟩
        have := parsesB_of_parsesTo h
        simpa [wireBytes, GItem.bytes, GItem.frames] using this
      | msg g =>
        obtain ⟨hf, hr, hz, ht⟩ := hi
        cases hzf : g.zf with
        | false =>
          obtain ⟨p1, h, hb⟩ := parses_data v g.m p hp ⟨hf, hr, ht hzf⟩
          refine ⟨p1, ?_, hb⟩
          have := parsesB_of_parsesTo h
          show ParsesB v p g.bytes g.frames p1
          rw [gmsg_frames_plain g hzf]
          unfold GMsg.bytes
          rw [hzf]
          exact this
        | true =>
          have hc : p.compression = true := by rw [hpc]; exact hz hzf
          obtain ⟨p1, h, hb⟩ := parses_zmsg v g.m p hp hc hf hr
          refine ⟨p1, ?_, hb⟩
          show ParsesB v p g.bytes g.frames p1
          unfold GMsg.bytes GMsg.frames
          rw [hzf]
          exact h
    obtain ⟨p1, h1, hb1⟩ := h1
    obtain ⟨p2, h2, hb2, hc2⟩ := ih p1 hb1 (h1.comp.trans hpc) (fun x hx => hok x (by simp [hx]))
    exact ⟨p2, by rw [List.flatMap_cons, List.flatMap_cons]; exact parsesB_append h1 h2, hb2, hc2⟩

/-- the dynamic condition implies the static one -/
theorem ItemsAt.wireOk {z : ZP} {pc : Bool} {ic ic' : ICtx} {items : List GItem} (h : ItemsAt z ic items ic')
    (hz : ∀ g, GItem.msg g ∈ items → g.zf = true → pc = true) : ∀ it ∈ items, it.WireOk pc := by
  induction items generalizing ic with
  | nil => intro it hit; cases hit
  | cons x r ih =>
    intro it hit
    cases x with
    | ctrl c =>
      obtain ⟨hc, hr⟩ := h
      rcases List.mem_cons.mp hit with rfl | hm
      · exact hc
      · exact ih hr (fun g hg => hz g (List.mem_cons_of_mem _ hg)) it hm
    | msg g =>
      obtain ⟨ic1, hg, hr⟩ := h
      rcases List.mem_cons.mp hit with rfl | hm
      · obtain ⟨hf, hrest, hb, ht⟩ := hg
        refine ⟨hf, hrest, hz g List.mem_cons_self, fun hzf htx => ?_⟩
        have : g.plain = g.m.payload := by
          unfold buildPure at hb
          have hc : ¬ ((firstFrame g.zf g.m.text g.m.first true).rsv1 ≠ 0 ∧ z.dc.isSome = true) := by
            intro hh; apply hh.1; simp [firstFrame, hzf]
          rw [if_neg hc] at hb
          have := congrArg (fun o => o.map (·.1)) hb
          simpa using this.symm
        rw [← this]; exact ht htx
      · exact ih hr (fun g' hg' => hz g' (List.mem_cons_of_mem _ hg')) it hm

end Lomond.Core.DG
