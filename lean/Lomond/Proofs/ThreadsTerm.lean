/-
  Termination of the thread model (`Model/Threads.lean`, two-chunk socket): helper lemmas for `Properties/C13_Term.lean`.

  A measure on states — for every thread the steps left in its call in progress (an early return / branch counted with
  the length of the longest alternative continuation) plus the steps of the calls it has not started — strictly decreases
  with every entry of a thread that can move.  With `someone_can_move` (no deadlock) this gives, from every state that
  satisfies the lock invariant, a schedule that brings ALL threads to completion, of length at most the measure.
-/
import Lomond.Proofs.ThreadsPre
import Lomond.Proofs.ThreadsP
set_option linter.unusedSimpArgs false
set_option linter.unusedVariables false

namespace Lomond.Threads
open Lomond

/-! ### the cost of a program -/

def jumps (r : List Step) : Nat := (r.filter isJump).length

/-- steps left, a jump counted with 10 more (no alternative continuation is longer than 10 steps) -/
def cost (r : List Step) : Nat := r.length + 10 * jumps r

theorem alt_cost (v : Variant) (a : Alt) : cost (altSteps v a) ≤ 10 := by
  cases a <;> simp only [altSteps, closeSocketProg] <;> (try split) <;> decide

theorem cost_cons (st : Step) (r : List Step) : cost (st :: r) = 1 + cost r + (if isJump st = true then 10 else 0) := by
  unfold cost jumps
  by_cases h : isJump st = true
  · simp [List.filter_cons, h]; omega
  · simp [List.filter_cons, h]; omega

theorem cost_suffix {r r' : List Step} (h : r' <:+ r) : cost r' ≤ cost r := by
  obtain ⟨q, rfl⟩ := h
  unfold cost jumps
  simp only [List.filter_append, List.length_append]
  omega

/-- how a step changes the program pointer and the `halt` flag: on to a suffix of the rest, or into an alternative
    continuation (only at a jump step) -/
theorem exec_shape (v : Variant) (t : Tid) (st : Step) (r : List Step) (sh : Shared) (c : Cur) :
    ((exec v t st r sh c).2.halt = c.halt ∧ (exec v t st r sh c).2.rest <:+ r) ∨
    ((exec v t st r sh c).2.halt = true ∧ isJump st = true ∧ ∃ a, (exec v t st r sh c).2.rest = altSteps v a) := by
  cases st <;> simp only [exec, failWrite] <;> (repeat' split) <;>
    first
    | exact Or.inl ⟨rfl, List.suffix_refl _⟩
    | exact Or.inl ⟨rfl, afterClose_suffix _⟩
    | exact Or.inl ⟨rfl, toRelease_suffix _⟩
    | exact Or.inl ⟨trivial, List.suffix_refl _⟩
    | exact Or.inl ⟨trivial, afterClose_suffix _⟩
    | exact Or.inl ⟨trivial, toRelease_suffix _⟩
    | exact Or.inr ⟨rfl, rfl, _, rfl⟩
    | exact Or.inr ⟨trivial, rfl, _, rfl⟩
    | exact Or.inr ⟨trivial, trivial, _, rfl⟩

theorem compile_ne_nil (v : Variant) (cfg : Cfg) (call : Call) : compile v cfg call ≠ [] := by
  cases call <;> simp only [compile, sendData, closeBody, writeProg, checks] <;> (repeat' split) <;> simp

/-! ### the measure of a thread -/

def progCost (v : Variant) (cfg : Cfg) : List Call → Nat
  | [] => 0
  | call :: r => cost (compile v cfg call) + progCost v cfg r

/-- the calls from number `pc` on -/
def restCost (v : Variant) (cfg : Cfg) (prog : List Call) (pc : Nat) : Nat := progCost v cfg (prog.drop pc)

theorem restCost_some (v : Variant) (cfg : Cfg) (prog : List Call) (pc : Nat) (call : Call)
    (h : prog[pc]? = some call) : restCost v cfg prog pc = cost (compile v cfg call) + restCost v cfg prog (pc + 1) := by
  obtain ⟨hlt, he⟩ := List.getElem?_eq_some_iff.mp h
  unfold restCost
  rw [List.drop_eq_getElem_cons hlt, he]
  rfl

def tmeasure (v : Variant) (cfg : Cfg) (th : Thread) : Nat :=
  match th.current v cfg with
  | none => 0
  | some c => cost c.rest + (if c.halt = true then 0 else restCost v cfg th.prog (th.pc + 1))

theorem tmeasure_settle_le (v : Variant) (cfg : Cfg) (th : Thread) (c' : Cur) (hh : th.halted = false) :
    tmeasure v cfg (settle th c') ≤
      cost c'.rest + (if c'.halt = true then 0 else restCost v cfg th.prog (th.pc + 1)) := by
  by_cases h : c'.rest = []
  · unfold tmeasure
    cases hc : (settle th c').current v cfg with
    | none => exact Nat.zero_le _
    | some c2 =>
      simp only
      rcases current_cases hc with h1 | ⟨_, call, hp, rfl⟩
      · obtain ⟨hne, _⟩ := settle_cur _ _ _ h1
        exact absurd h hne
      · have hnh := current_not_halted hc
        have hpc : (settle th c').pc = th.pc + 1 := settle_pc_next _ _ h
        have hhalt : c'.halt = false := by
          unfold settle at hnh
          simp only [h, if_true, hh, Bool.false_or] at hnh
          exact hnh
        rw [settle_prog] at hp ⊢
        rw [hpc] at hp ⊢
        simp only [hhalt, Bool.false_eq_true, if_false]
        rw [restCost_some v cfg th.prog (th.pc + 1) call hp]
        omega
  · unfold tmeasure
    rw [current_settle v cfg th c' hh h]
    simp only [settle_prog, settle_pc_same _ _ h]
    exact Nat.le_refl _

/-! ### calls in progress have a next step -/

def NE (s : State) : Prop := ∀ t c, (s.th t).cur = some c → c.rest ≠ []

theorem ne_fresh (s : State) (h : ∀ t, (s.th t).cur = none) : NE s := by
  intro t c hc; rw [h t] at hc; cases hc

theorem ne_step (v : Variant) (cfg : Cfg) (s : State) (u : Tid) (N : NE s) : NE (step v cfg s u) := by
  rcases step_cases v cfg s u with e | ⟨c, st, r, _, _, _, e⟩ <;> rw [e]
  · exact N
  · intro w c2 h
    by_cases hw : w = u
    · subst hw
      rw [setTh_same] at h
      exact (settle_cur _ _ _ h).2 ▸ (settle_cur _ _ _ h).1
    · rw [setTh_other _ _ _ _ _ hw] at h; exact N w c2 h

theorem ne_run (v : Variant) (cfg : Cfg) (s : State) (sched : List Tid) (N : NE s) : NE (run v cfg s sched) := by
  induction sched generalizing s with
  | nil => exact N
  | cons t r ih => exact ih _ (ne_step v cfg s t N)

theorem ne_current {v : Variant} {cfg : Cfg} {s : State} (N : NE s) {t : Tid} {c : Cur}
    (hc : (s.th t).current v cfg = some c) : c.rest ≠ [] := by
  rcases current_cases hc with h | ⟨_, call, _, rfl⟩
  · exact N t c h
  · exact compile_ne_nil v cfg call

/-! ### an entry of a thread that can move decreases its measure -/

theorem tmeasure_step (v : Variant) (cfg : Cfg) (s : State) (u : Tid) (N : NE s)
    (he : enabled v cfg s u = true) :
    tmeasure v cfg ((step v cfg s u).th u) < tmeasure v cfg (s.th u) ∧
    ∀ w, w ≠ u → (step v cfg s u).th w = s.th w := by
  unfold enabled at he
  cases hc : (s.th u).current v cfg with
  | none => rw [hc] at he; cases he
  | some c =>
    rw [hc] at he
    simp only [Bool.not_eq_true'] at he
    have hne := ne_current N hc
    cases hr : c.rest with
    | nil => exact absurd hr hne
    | cons st r =>
      have hh := current_not_halted hc
      have e : step v cfg s u =
          setTh s u (settle (s.th u) (exec v u st r s.sh c).2) (exec v u st r s.sh c).1 := by
        unfold step
        rw [hc]
        simp only [hr, he, Bool.false_eq_true, if_false]
      rw [e]
      refine ⟨?_, fun w hw => setTh_other _ _ _ _ _ hw⟩
      rw [setTh_same]
      have hsh := exec_shape v u st r s.sh c
      generalize exec v u st r s.sh c = p at hsh
      have hle := tmeasure_settle_le v cfg (s.th u) p.2 hh
      have hm : tmeasure v cfg (s.th u) =
          cost (st :: r) + (if c.halt = true then 0 else restCost v cfg (s.th u).prog ((s.th u).pc + 1)) := by
        unfold tmeasure; rw [hc]; simp only [hr]
      rw [hm, cost_cons]
      rcases hsh with ⟨h1, h2⟩ | ⟨h1, h2, a, h3⟩
      · have := cost_suffix h2
        rw [h1] at hle
        omega
      · have := alt_cost v a
        rw [h3, h1] at hle
        simp only [h2, if_true] at hle ⊢
        omega

/-! ### the measure of a state: threads `0 .. n-1` -/

def sumTo (f : Nat → Nat) : Nat → Nat
  | 0 => 0
  | n + 1 => sumTo f n + f n

theorem sumTo_congr (f g : Nat → Nat) (n : Nat) (h : ∀ w, w < n → f w = g w) : sumTo f n = sumTo g n := by
  induction n with
  | zero => rfl
  | succ n ih =>
    simp only [sumTo]
    rw [ih (fun w hw => h w (by omega)), h n (by omega)]

theorem sumTo_lt (f g : Nat → Nat) (n u : Nat) (hu : u < n) (h : ∀ w, w ≠ u → f w = g w) (hlt : f u < g u) :
    sumTo f n < sumTo g n := by
  induction n with
  | zero => omega
  | succ n ih =>
    simp only [sumTo]
    by_cases hun : u = n
    · subst hun
      rw [sumTo_congr f g u (fun w hw => h w (by omega))]
      omega
    · rw [h n (fun e => hun e.symm)]
      have := ih (by omega)
      omega

def smeasure (v : Variant) (cfg : Cfg) (n : Nat) (s : State) : Nat := sumTo (fun t => tmeasure v cfg (s.th t)) n

theorem idle_run (n : Nat) (v : Variant) (cfg : Cfg) (s : State) (sched : List Tid) (h : IdleFrom n s) :
    IdleFrom n (run v cfg s sched) := by
  induction sched generalizing s with
  | nil => exact h
  | cons t r ih => exact ih _ (idle_step n v cfg s t h)

theorem idle_current (v : Variant) (cfg : Cfg) (th : Thread) (h : th.prog = [] ∧ th.cur = none) :
    th.current v cfg = none := by
  cases hc : th.current v cfg with
  | none => rfl
  | some c =>
    have := view_of_current hc
    rw [idle_view v cfg th h] at this
    rcases current_cases hc with h1 | ⟨_, call, hp, _⟩
    · rw [h.2] at h1; cases h1
    · rw [h.1] at hp; simp at hp

/-- **from every state that satisfies the lock invariant there is a schedule that completes all threads**, of length at
    most the measure of the state -/
theorem exists_completing (v : Variant) (cfg : Cfg) (n : Nat) :
    ∀ (k : Nat) (s : State), LockInv v cfg s → NE s → IdleFrom n s → smeasure v cfg n s ≤ k →
      ∃ sched : List Tid, (∀ t, ((run v cfg s sched).th t).current v cfg = none) ∧ sched.length ≤ k := by
  intro k
  induction k with
  | zero =>
    intro s L N I hk
    by_cases hd : ∀ t, (s.th t).current v cfg = none
    · exact ⟨[], hd, Nat.le_refl _⟩
    · exfalso
      have ⟨t, ht⟩ : ∃ t, (s.th t).current v cfg ≠ none := by
        apply Classical.byContradiction
        intro hn; apply hd; intro t
        cases hx : (s.th t).current v cfg with
        | none => rfl
        | some c => exact absurd ⟨t, by rw [hx]; simp⟩ hn
      obtain ⟨u, hu⟩ := someone_can_move L t ht
      have hun : u < n := by
        apply Classical.byContradiction
        intro hge
        exact enabled_current hu (idle_current v cfg _ (I u (Nat.le_of_not_lt hge)))
      obtain ⟨h1, h2⟩ := tmeasure_step v cfg s u N hu
      have := sumTo_lt (fun t => tmeasure v cfg ((step v cfg s u).th t)) (fun t => tmeasure v cfg (s.th t)) n u hun
        (fun w hw => by simp only [h2 w hw]) h1
      unfold smeasure at hk
      omega
  | succ k ih =>
    intro s L N I hk
    by_cases hd : ∀ t, (s.th t).current v cfg = none
    · exact ⟨[], hd, Nat.zero_le _⟩
    · have ⟨t, ht⟩ : ∃ t, (s.th t).current v cfg ≠ none := by
        apply Classical.byContradiction
        intro hn; apply hd; intro t
        cases hx : (s.th t).current v cfg with
        | none => rfl
        | some c => exact absurd ⟨t, by rw [hx]; simp⟩ hn
      obtain ⟨u, hu⟩ := someone_can_move L t ht
      have hun : u < n := by
        apply Classical.byContradiction
        intro hge
        exact enabled_current hu (idle_current v cfg _ (I u (Nat.le_of_not_lt hge)))
      obtain ⟨h1, h2⟩ := tmeasure_step v cfg s u N hu
      have hlt := sumTo_lt (fun t => tmeasure v cfg ((step v cfg s u).th t)) (fun t => tmeasure v cfg (s.th t)) n u hun
        (fun w hw => by simp only [h2 w hw]) h1
      obtain ⟨sched, hs1, hs2⟩ := ih (step v cfg s u) (lockInv_step v cfg s u L) (ne_step v cfg s u N)
        (idle_step n v cfg s u I) (by unfold smeasure at hk ⊢; omega)
      exact ⟨u :: sched, hs1, by simp only [List.length_cons]; omega⟩

end Lomond.Threads
