/-
  The event-sequence monitor of C07 and the invariants that tie the library's state flags to the
  events emitted so far.

  * `Mon.step` / `Mon.run`: the monitor automaton of the property text, over the list of events
    (oldest first); `phaseOf` computes the same thing on a trace (newest first).
  * `Keeps`: steps that emit no event, do not touch `ready` / the parser position, and close the
    socket only with a `sockClose` observation (all "leaf" operations).
  * `P3` ("Ready was emitted") and `G2` ("Connected but not Ready, and `ready = false`") are
    preserved by everything that runs inside the session loop; `onOut (.header _)` moves from `G2`
    to `P3` (accepted upgrade) or stays in `G2` with the websocket closed (rejected).
-/
import Lomond.Proofs.Step
import Lomond.Proofs.Release
import Lomond.Proofs.RunL
import Lomond.Proofs.Raises
set_option linter.unusedSimpArgs false
set_option linter.unusedVariables false
namespace Lomond.Core.Monitor
open Lomond Lomond.Core

/-! ### the monitor automaton -/

inductive Phase
  | start        -- nothing yielded yet
  | connecting   -- `Connecting` yielded
  | connected    -- `Connected` yielded, `Ready` not yet
  | ready        -- `Ready` yielded
  | unresp       -- `Unresponsive` yielded (ping time-out): only the terminal event may follow
  | done         -- the terminal event (`ConnectFail` / `Disconnected`) yielded
  deriving DecidableEq, Repr

/-- one step of the monitor; `none` = the sequence is ill-formed -/
def Mon.step : Phase → Event → Option Phase
  | .start, .connecting => some .connecting
  | .connecting, .connectFail _ => some .done
  | .connecting, .connected _ => some .connected
  | .connected, .ready _ _ => some .ready
  | .connected, .rejected _ => some .connected
  | .connected, .protocolError _ _ => some .connected
  | .connected, .disconnected _ _ => some .done
  | .ready, .text _ => some .ready
  | .ready, .binary _ => some .ready
  | .ready, .ping _ => some .ready
  | .ready, .pong _ => some .ready
  | .ready, .closing _ _ => some .ready
  | .ready, .closed _ _ => some .ready
  | .ready, .poll => some .ready
  | .ready, .unresponsive => some .unresp
  | .ready, .protocolError _ _ => some .ready
  | .ready, .disconnected _ _ => some .done
  | .unresp, .disconnected _ _ => some .done
  | _, _ => none

/-- run the monitor over a list of events, oldest first -/
def Mon.run (ph : Phase) : List Event → Option Phase
  | [] => some ph
  | e :: r => (Mon.step ph e).bind (fun q => Mon.run q r)

def Obs.isEv : Obs → Bool
  | .ev _ => true
  | _ => false

/-- observations other than events and the end-of-script marker -/
def Obs.quiet : Obs → Bool
  | .ev _ => false
  | .incomplete => false
  | _ => true

theorem Obs.quiet.isEv {o : Obs} (h : Obs.quiet o = true) : Obs.isEv o = false := by
  cases o <;> first | rfl | cases h

theorem Obs.quiet.ne {o : Obs} (h : Obs.quiet o = true) : o ≠ .incomplete := by
  intro e; subst e; cases h

def Obs.event? : Obs → Option Event
  | .ev e => some e
  | _ => none

/-- the events of a trace, oldest first -/
def events (tr : List Obs) : List Event := tr.reverse.filterMap Obs.event?

/-- the events of a trace, newest first -/
def histOf (tr : List Obs) : List Event := tr.filterMap Obs.event?

/-- the monitor's phase after a trace (newest first) -/
def phaseOf : List Obs → Option Phase
  | [] => some .start
  | .ev e :: r => (phaseOf r).bind (fun p => Mon.step p e)
  | _ :: r => phaseOf r

theorem Mon.run_append (ph : Phase) (a b : List Event) :
    Mon.run ph (a ++ b) = (Mon.run ph a).bind (fun q => Mon.run q b) := by
  induction a generalizing ph with
  | nil => rfl
  | cons e r ih =>
    simp only [List.cons_append, Mon.run]
    cases Mon.step ph e with
    | none => rfl
    | some q => simp only [Option.bind_some]; exact ih q

theorem events_cons_ev (e : Event) (tr : List Obs) : events (.ev e :: tr) = events tr ++ [e] := by
  simp [events, Obs.event?]

theorem events_cons_nonEv (o : Obs) (tr : List Obs) (h : Obs.isEv o = false) : events (o :: tr) = events tr := by
  cases o <;> first | (simp [Obs.isEv] at h; done) | simp [events, Obs.event?]

/-- `phaseOf` is the monitor run over the events of the trace -/
theorem phaseOf_eq_run (tr : List Obs) : phaseOf tr = Mon.run .start (events tr) := by
  induction tr with
  | nil => rfl
  | cons o r ih =>
    cases o with
    | ev e =>
      rw [events_cons_ev, Mon.run_append, ← ih]
      simp only [phaseOf]
      cases phaseOf r with
      | none => rfl
      | some p => simp only [Option.bind_some, Mon.run]; cases Mon.step p e <;> rfl
    | _ => rw [events_cons_nonEv _ _ rfl]; exact ih

theorem phaseOf_append_nonEv (l tr : List Obs) (h : ∀ o ∈ l, Obs.isEv o = false) : phaseOf (l ++ tr) = phaseOf tr := by
  induction l with
  | nil => rfl
  | cons o r ih =>
    have ho := h o List.mem_cons_self
    have hr := ih (fun o' ho' => h o' (List.mem_cons_of_mem _ ho'))
    cases o <;> first | (simp [Obs.isEv] at ho; done) | (simp only [List.cons_append, phaseOf]; exact hr)

def Event.isTerminal : Event → Bool
  | .connectFail _ => true
  | .disconnected _ _ => true
  | _ => false

theorem Mon.step_terminal {p q : Phase} {e : Event} (h : Mon.step p e = some q) (ht : Event.isTerminal e = true) :
    q = .done := by
  cases p <;> cases e <;> simp_all [Mon.step, Event.isTerminal]

theorem Mon.step_done (e : Event) : Mon.step .done e = none := by
  cases e <;> rfl

/-- before the terminal event the trace contains no terminal event -/
theorem phaseOf_noTerminal {tr : List Obs} {ph : Phase} (h : phaseOf tr = some ph) (hd : ph ≠ .done) :
    ∀ e, Obs.ev e ∈ tr → Event.isTerminal e = false := by
  induction tr generalizing ph with
  | nil => intro e he; cases he
  | cons o r ih =>
    intro e he
    cases o with
    | ev e' =>
      simp only [phaseOf] at h
      cases hp : phaseOf r with
      | none => rw [hp] at h; cases h
      | some p =>
        rw [hp] at h; simp only [Option.bind_some] at h
        have hpd : p ≠ .done := by
          intro hpd; rw [hpd, Mon.step_done] at h; cases h
        rcases List.mem_cons.mp he with he1 | he1
        · cases he1
          cases ht : Event.isTerminal e with
          | false => rfl
          | true => exact absurd (Mon.step_terminal h ht) hd
        · exact ih hp hpd e he1
    | _ =>
      have h' : phaseOf r = some ph := h
      rcases List.mem_cons.mp he with he1 | he1
      · cases he1
      · exact ih h' hd e he1

/-! ### the socket is closed when the terminal event is yielded -/

def Obs.isTerm : Obs → Bool
  | .ev e => Event.isTerminal e
  | _ => false

/-- every terminal event of the trace (newest first) is preceded by a `sockClose` -/
def termOK : List Obs → Prop
  | [] => True
  | o :: pre => (Obs.isTerm o = true → Obs.sockClose ∈ pre) ∧ termOK pre

theorem termOK_of_noTerminal (tr : List Obs) (h : ∀ e, Obs.ev e ∈ tr → Event.isTerminal e = false) : termOK tr := by
  induction tr with
  | nil => trivial
  | cons o r ih =>
    refine ⟨?_, ih (fun e he => h e (List.mem_cons_of_mem _ he))⟩
    intro ht
    cases o with
    | ev e => have := h e List.mem_cons_self; simp [Obs.isTerm] at ht; rw [ht] at this; cases this
    | _ => cases ht

theorem termOK_append_nonEv (l tr : List Obs) (h : ∀ o ∈ l, Obs.isEv o = false) (ht : termOK tr) : termOK (l ++ tr) := by
  induction l with
  | nil => exact ht
  | cons o r ih =>
    have ho := h o List.mem_cons_self
    refine ⟨?_, ih (fun o' ho' => h o' (List.mem_cons_of_mem _ ho'))⟩
    intro hto
    cases o <;> first | (simp [Obs.isEv] at ho; done) | cases hto

/-- the reading of `termOK` on decompositions of the trace -/
theorem termOK_split {tr : List Obs} (h : termOK tr) (post pre : List Obs) (e : Event)
    (hs : tr = post ++ .ev e :: pre) (ht : Event.isTerminal e = true) : Obs.sockClose ∈ pre := by
  induction post generalizing tr with
  | nil => subst hs; exact h.1 ht
  | cons o r ih => subst hs; exact ih h.2 rfl

/-! ### steps that emit no event -/

/-- no event emitted; `ready` and the parser position untouched; the socket closes only with a
    `sockClose` observation -/
structure Keeps (s s' : Sys) : Prop where
  ready : s'.ready = s.ready
  cont : s'.p.cont = s.p.cont
  hist : s'.hist = s.hist
  trace : ∃ l, s'.trace = l ++ s.trace ∧ ∀ o ∈ l, Obs.quiet o = true
  sock : s'.sockOpen = s.sockOpen ∨ (s'.sockOpen = false ∧ Obs.sockClose ∈ s'.trace)

theorem keeps_po : PO Keeps where
  refl s := ⟨rfl, rfl, rfl, ⟨[], rfl, fun _ h => by cases h⟩, Or.inl rfl⟩
  trans := by
    intro a b c h1 h2
    obtain ⟨l1, e1, n1⟩ := h1.trace
    obtain ⟨l2, e2, n2⟩ := h2.trace
    refine ⟨h2.ready.trans h1.ready, h2.cont.trans h1.cont, h2.hist.trans h1.hist,
      ⟨l2 ++ l1, by rw [e2, e1, List.append_assoc], ?_⟩, ?_⟩
    · intro o ho
      rcases List.mem_append.mp ho with h | h
      · exact n2 o h
      · exact n1 o h
    · rcases h2.sock with h | ⟨h, hm⟩
      · rcases h1.sock with h' | ⟨h', hm'⟩
        · exact Or.inl (h.trans h')
        · refine Or.inr ⟨h.trans h', ?_⟩
          rw [e2]; exact List.mem_append_right _ hm'
      · exact Or.inr ⟨h, hm⟩

/-- leaf tactic for `Keeps s s'` with an explicit `s'` -/
macro "mon_keeps_leaf" : tactic =>
  `(tactic| ((try simp only [Res.state_ok, Res.state_err])
             first
              | exact keeps_po.refl _
              | (refine ⟨rfl, rfl, rfl, ?_, ?_⟩
                 · first
                    | exact ⟨[], rfl, fun _ h => by cases h⟩
                    | exact ⟨[_], rfl, fun o h => by simp only [List.mem_singleton] at h; subst h; rfl⟩
                 · first
                    | exact Or.inl rfl
                    | exact Or.inr ⟨rfl, List.mem_cons_self⟩)))

theorem keeps_closeSocket : Spec Keeps closeSocket := by
  intro s; unfold closeSocket; splits <;> mon_keeps_leaf

theorem keeps_write (d : Bytes) (z : Option (Nat × Bytes)) : Spec Keeps (write d z) := by
  intro s; unfold write; splits <;> mon_keeps_leaf

theorem keeps_sendFrame (op : Nat) (pl : Bytes) (c : Option Bytes) : Spec Keeps (sendFrame op pl c) := by
  intro s; unfold sendFrame
  simp only
  splits
  all_goals first
    | mon_keeps_leaf
    | exact keeps_po.trans (by mon_keeps_leaf) (keeps_write _ _ _)

theorem keeps_wsClose (c : Option Nat) (r : Arg) : Spec Keeps (wsClose c r) := by
  intro s; unfold wsClose
  splits
  all_goals first
    | mon_keeps_leaf
    | (rename_i h; have := (keeps_sendFrame _ _ _).ok h; exact keeps_po.trans this (by mon_keeps_leaf))
    | (rename_i h; have := (keeps_sendFrame _ _ _).err h; exact this)

theorem keeps_sendData (op : Nat) (pl : Bytes) (c : Bool) : Spec Keeps (sendData op pl c) := by
  intro s; unfold sendData; split <;> exact keeps_sendFrame _ _ _ s

theorem keeps_logRes {m : M ActRes} (h : Spec Keeps m) : Spec Keeps (logRes m) := by
  unfold logRes
  refine spec_bind keeps_po h (fun r => ?_)
  intro s; unfold log modS; mon_keeps_leaf

theorem keeps_doAct (a : Act) : Spec Keeps (doAct a) := by
  unfold doAct
  split
  all_goals first
    | (apply keeps_logRes; first
        | exact spec_pure keeps_po _
        | exact keeps_sendData _ _ _
        | exact keeps_sendFrame _ _ _
        | exact keeps_wsClose _ _
        | exact spec_ite _ (spec_pure keeps_po _) (keeps_sendData _ _ _)
        | exact spec_ite _ (spec_pure keeps_po _) (keeps_sendFrame _ _ _)
        | exact spec_bind keeps_po keeps_closeSocket (fun _ => spec_pure keeps_po _))
    | (intro s; mon_keeps_leaf)

theorem keeps_doActs (as : List Act) : Spec Keeps (doActs as) := by
  induction as with
  | nil => exact spec_pure keeps_po ()
  | cons a r ih => unfold doActs; exact spec_bind keeps_po (keeps_doAct a) (fun _ => ih)

/-! ### invariants -/

/-- a closed socket was closed with a `sockClose` observation -/
def SockInv (s : Sys) : Prop :=
  (s.sockOpen = false → Obs.sockClose ∈ s.trace) ∧ Obs.incomplete ∉ s.trace ∧ s.hist = histOf s.trace

/-- `Ready` has been emitted (and nothing terminal) -/
def P3 (s : Sys) : Prop := phaseOf s.trace = some .ready ∧ SockInv s

/-- `Connected` has been emitted, `Ready` not yet, and the session does not think it is ready -/
def G2 (s : Sys) : Prop := phaseOf s.trace = some .connected ∧ s.ready = false ∧ SockInv s

/-- what holds all through the session loop -/
def G (s : Sys) : Prop := G2 s ∨ P3 s

/-- the monitor has not rejected the trace -/
def Acc (s : Sys) : Prop := ∃ ph, phaseOf s.trace = some ph ∧ ph ≠ .start

/-- preservation of a state predicate, as a relation for `Spec` -/
def Pres (I : Sys → Prop) (s s' : Sys) : Prop := I s → I s'

theorem pres_po (I : Sys → Prop) : PO (Pres I) where
  refl _ := id
  trans h1 h2 := fun h => h2 (h1 h)

theorem Keeps.phase {s s' : Sys} (h : Keeps s s') : phaseOf s'.trace = phaseOf s.trace := by
  obtain ⟨l, e, n⟩ := h.trace
  rw [e]; exact phaseOf_append_nonEv l _ (fun o ho => Obs.quiet.isEv (n o ho))

/-- the end-of-script marker is not in the trace -/
def NoInc (s : Sys) : Prop := Obs.incomplete ∉ s.trace

/-- the history the application is shown is the list of events yielded so far -/
def HI (s : Sys) : Prop := s.hist = histOf s.trace

theorem histOf_append_quiet (l tr : List Obs) (h : ∀ o ∈ l, Obs.quiet o = true) : histOf (l ++ tr) = histOf tr := by
  induction l with
  | nil => rfl
  | cons o r ih =>
    have ho := h o List.mem_cons_self
    have hr := ih (fun o' ho' => h o' (List.mem_cons_of_mem _ ho'))
    cases o <;> first | (cases ho; done) | (simp only [List.cons_append, histOf, List.filterMap_cons, Obs.event?]; exact hr)

theorem Keeps.hi {s s' : Sys} (h : Keeps s s') (hs : HI s) : HI s' := by
  obtain ⟨l, e, n⟩ := h.trace
  unfold HI
  rw [h.hist, e, histOf_append_quiet l _ n]; exact hs

theorem Keeps.noInc {s s' : Sys} (h : Keeps s s') (hs : NoInc s) : NoInc s' := by
  obtain ⟨l, e, n⟩ := h.trace
  intro hm; rw [e] at hm
  rcases List.mem_append.mp hm with h1 | h1
  · exact Obs.quiet.ne (n _ h1) rfl
  · exact hs h1

theorem Keeps.sockInv {s s' : Sys} (h : Keeps s s') (hs : SockInv s) : SockInv s' := by
  refine ⟨?_, h.noInc hs.2.1, h.hi hs.2.2⟩
  intro hf
  rcases h.sock with h1 | ⟨_, hm⟩
  · obtain ⟨l, e, _⟩ := h.trace
    rw [e]; exact List.mem_append_right _ (hs.1 (h1 ▸ hf))
  · exact hm

theorem Keeps.p3 {s s' : Sys} (h : Keeps s s') (hs : P3 s) : P3 s' :=
  ⟨h.phase.trans hs.1, h.sockInv hs.2⟩

theorem Keeps.g2 {s s' : Sys} (h : Keeps s s') (hs : G2 s) : G2 s' :=
  ⟨h.phase.trans hs.1, h.ready.trans hs.2.1, h.sockInv hs.2.2⟩

theorem Keeps.g {s s' : Sys} (h : Keeps s s') (hs : G s) : G s' :=
  hs.elim (fun a => Or.inl (h.g2 a)) (fun a => Or.inr (h.p3 a))

theorem Keeps.acc {s s' : Sys} (h : Keeps s s') (hs : Acc s) : Acc s' := by
  obtain ⟨ph, e, hn⟩ := hs; exact ⟨ph, h.phase.trans e, hn⟩

theorem Keeps.termOK {s s' : Sys} (h : Keeps s s') (hs : termOK s.trace) : termOK s'.trace := by
  obtain ⟨l, e, n⟩ := h.trace
  rw [e]; exact termOK_append_nonEv l _ (fun o ho => Obs.quiet.isEv (n o ho)) hs

theorem spec_keeps_p3 {m : M α} (h : Spec Keeps m) : Spec (Pres P3) m := fun s hs => (h s).p3 hs
theorem spec_keeps_g2 {m : M α} (h : Spec Keeps m) : Spec (Pres G2) m := fun s hs => (h s).g2 hs

theorem G2.g {s : Sys} (h : G2 s) : G s := Or.inl h
theorem P3.g {s : Sys} (h : P3 s) : G s := Or.inr h
theorem G.acc {s : Sys} (h : G s) : Acc s :=
  h.elim (fun a => ⟨_, a.1, by decide⟩) (fun a => ⟨_, a.1, by decide⟩)

/-! ### yielding an event -/

/-- the state right after `yield e` handed the event over, before the application reacts -/
def pushEv (e : Event) (s : Sys) : Sys := { s with trace := .ev e :: s.trace, hist := e :: s.hist }

theorem yieldEv_eq (e : Event) (s : Sys) : yieldEv e s = doActs (s.react (e :: s.hist)) (pushEv e s) := rfl

/-- after `yieldEv e` the state differs from "event pushed" only by an event-free step -/
theorem yieldEv_keeps (e : Event) (s : Sys) : Keeps (pushEv e s) (yieldEv e s).state := by
  rw [yieldEv_eq]; exact keeps_doActs _ _

theorem phaseOf_pushEv (e : Event) (s : Sys) :
    phaseOf (pushEv e s).trace = (phaseOf s.trace).bind (fun p => Mon.step p e) := rfl

theorem noInc_pushEv (e : Event) (s : Sys) (h : NoInc s) : NoInc (pushEv e s) := by
  intro hm
  rcases List.mem_cons.mp hm with h1 | h1
  · cases h1
  · exact h h1

theorem hi_pushEv (e : Event) (s : Sys) (h : HI s) : HI (pushEv e s) := by
  unfold HI at h ⊢
  show e :: s.hist = histOf (.ev e :: s.trace)
  rw [h]; rfl

theorem sockInv_pushEv (e : Event) (s : Sys) (h : SockInv s) : SockInv (pushEv e s) :=
  ⟨fun hf => List.mem_cons_of_mem _ (h.1 hf), noInc_pushEv e s h.2.1, hi_pushEv e s h.2.2⟩

/-- events that may occur (any number of times) once `Ready` has been emitted -/
def Event.afterReady (e : Event) : Prop := Mon.step .ready e = some .ready

/-- events that may occur between `Connected` and `Ready` (and also later) -/
def Event.anytime (e : Event) : Prop := Mon.step .connected e = some .connected

theorem pres_p3_yieldEv (e : Event) (he : Event.afterReady e) : Spec (Pres P3) (yieldEv e) := by
  intro s hs
  refine (yieldEv_keeps e s).p3 ⟨?_, sockInv_pushEv e s hs.2⟩
  rw [phaseOf_pushEv, hs.1]; exact he

theorem pres_g2_yieldEv (e : Event) (he : Event.anytime e) : Spec (Pres G2) (yieldEv e) := by
  intro s hs
  refine (yieldEv_keeps e s).g2 ⟨?_, hs.2.1, sockInv_pushEv e s hs.2.2⟩
  rw [phaseOf_pushEv, hs.1]; exact he

/-! ### timers -/

theorem keeps_checkAutoPing : Spec Keeps checkAutoPing := by
  unfold checkAutoPing
  refine spec_getS_bind keeps_po (fun s => ?_)
  simp only []
  split
  · refine spec_bind keeps_po (spec_modS ?_) (fun _ => spec_bind keeps_po (keeps_sendFrame _ _ _) (fun _ => spec_pure keeps_po _))
    intro s; mon_keeps_leaf
  · exact spec_pure keeps_po _

theorem keeps_checkCloseTimeout : Spec Keeps checkCloseTimeout := by
  unfold checkCloseTimeout
  refine spec_getS_bind keeps_po (fun s => ?_)
  simp only []
  splits
  all_goals first | exact spec_pure keeps_po _ | exact spec_throwE keeps_po _

theorem pres_p3_checkPoll : Spec (Pres P3) checkPoll := by
  unfold checkPoll
  refine spec_getS_bind (pres_po P3) (fun s => ?_)
  simp only []
  splits
  all_goals first
    | exact spec_pure (pres_po P3) _
    | (refine spec_bind (pres_po P3) (spec_keeps_p3 (spec_modS ?_)) (fun _ => pres_p3_yieldEv _ rfl); intro s; mon_keeps_leaf)

/-! ### after `Unresponsive` -/

/-- `Unresponsive` has been emitted: only the terminal event may follow -/
def U (s : Sys) : Prop := phaseOf s.trace = some .unresp ∧ SockInv s

theorem Keeps.u {s s' : Sys} (h : Keeps s s') (hs : U s) : U s' :=
  ⟨h.phase.trans hs.1, h.sockInv hs.2⟩

/-- exceptions for which the `except` clauses of `WebSocket.feed` emit nothing -/
def Silent (x : Exn) : Prop :=
  match x with
  | .parse _ => False
  | .critical _ => False
  | .protocol _ => False
  | _ => True

/-- an exceptional exit after `Ready`: either nothing special, or `Unresponsive` has just been emitted
    and the exception in flight (`_ForceDisconnect`, or `GeneratorExit` from the application) is one
    that `feed` passes on silently -/
def E3 (x : Exn) (s : Sys) : Prop := P3 s ∨ (U s ∧ Silent x)

/-- a result satisfies `Q` if normal, `E` (which may depend on the exception) if exceptional -/
def Res.sat3 (r : Res α) (Q : Sys → Prop) (E : Exn → Sys → Prop) : Prop :=
  match r with
  | .ok _ s' => Q s'
  | .err x s' => E x s'

/-- from "Ready emitted": normal exits keep it; exceptional exits satisfy `E3` -/
def Spec3 (m : M α) : Prop := ∀ s, P3 s → Res.sat3 (m s) P3 E3

theorem spec3_of_pres {m : M α} (h : Spec (Pres P3) m) : Spec3 m := by
  intro s hs
  have := h s hs
  cases hr : m s with
  | ok a s' => rw [hr] at this; exact this
  | err x s' => rw [hr] at this; exact Or.inl this

theorem spec3_of_keeps {m : M α} (h : Spec Keeps m) : Spec3 m := spec3_of_pres (spec_keeps_p3 h)

theorem spec3_pure (a : α) : Spec3 (pure a : M α) := fun _ hs => hs
theorem spec3_throwE (x : Exn) : Spec3 (throwE x : M α) := fun _ hs => Or.inl hs

theorem spec3_bind {m : M α} {f : α → M β} (hm : Spec3 m) (hf : ∀ a, Spec3 (f a)) : Spec3 (m >>= f) := by
  intro s hs
  have h1 := hm s hs
  cases hr : m s with
  | ok a s1 => rw [hr] at h1; rw [bind_ok hr]; exact hf a s1 h1
  | err x s1 => rw [hr] at h1; rw [bind_err hr]; exact h1

theorem spec3_getS_bind {f : Sys → M α} (h : ∀ s, Spec3 (f s)) : Spec3 (getS >>= f) :=
  fun s hs => h s s hs

theorem spec3_modS {f : Sys → Sys} (h : ∀ s, Keeps s (f s)) : Spec3 (modS f) :=
  spec3_of_keeps (spec_modS h)

theorem spec3_ite (c : Prop) [Decidable c] {m k : M α} (hm : Spec3 m) (hk : Spec3 k) :
    Spec3 (if c then m else k) := by split <;> assumption

/-- `yieldEv` raises only `GeneratorExit` -/
theorem yieldEv_err_genExit {e : Event} {s s' : Sys} {x : Exn} (h : yieldEv e s = .err x s') : x = .genExit := by
  rw [yieldEv_eq] at h; exact (raises_doActs _ h).1

/-- **the ping time-out**: `Unresponsive` is emitted and `_ForceDisconnect` raised -/
theorem spec3_checkPingTimeout : Spec3 checkPingTimeout := by
  unfold checkPingTimeout
  refine spec3_getS_bind (fun s0 => ?_)
  simp only []
  split
  · intro s hs
    have k := yieldEv_keeps .unresponsive s
    have hu : U (yieldEv .unresponsive s).state :=
      k.u ⟨by rw [phaseOf_pushEv, hs.1]; rfl, sockInv_pushEv _ s hs.2⟩
    cases hr : yieldEv .unresponsive s with
    | err x s1 =>
      rw [hr] at hu; rw [bind_err hr]
      have := yieldEv_err_genExit hr; subst this
      exact Or.inr ⟨hu, trivial⟩
    | ok u s1 => rw [hr] at hu; rw [bind_ok hr]; exact Or.inr ⟨hu, trivial⟩
  · exact spec3_pure _

theorem spec3_regular : Spec3 regular := by
  unfold regular
  refine spec3_getS_bind (fun s => ?_)
  split
  · exact spec3_bind (spec3_of_pres pres_p3_checkPoll) (fun _ => spec3_bind (spec3_of_keeps keeps_checkAutoPing)
      (fun _ => spec3_bind spec3_checkPingTimeout (fun _ => spec3_of_keeps keeps_checkCloseTimeout)))
  · exact spec3_pure _

/-- `_regular()` does nothing before the websocket is ready -/
theorem regular_notReady (s : Sys) (h : s.ready = false) : regular s = .ok () s := by
  unfold regular
  rw [bind_ok (show getS s = .ok s s from rfl)]
  simp only [h, Bool.false_eq_true, if_false]; rfl

theorem pres_g2_regular : Spec (Pres G2) regular := by
  intro s hs; rw [regular_notReady s hs.2.1]; exact hs

/-! ### events inside `feed` -/

theorem keeps_onEvent (e : Event) (he : ∀ a b, e ≠ .ready a b) : Spec Keeps (onEvent e) := by
  intro s; unfold onEvent
  splits
  all_goals first
    | (exfalso; exact he _ _ rfl)
    | mon_keeps_leaf
    | (rename_i h; exact (keeps_sendFrame _ _ _).ok h)
    | (rename_i h; exact (keeps_sendFrame _ _ _).err h)

theorem keeps_onDisconnect : Spec Keeps onDisconnect := by
  unfold onDisconnect
  refine spec_bind keeps_po keeps_closeSocket (fun _ => spec_modS ?_)
  intro s; mon_keeps_leaf

theorem Event.afterReady.notReady {e : Event} (h : Event.afterReady e) : ∀ a b, e ≠ .ready a b := by
  intro a b hh; subst hh; cases h

theorem Event.anytime.notReady {e : Event} (h : Event.anytime e) : ∀ a b, e ≠ .ready a b := by
  intro a b hh; subst hh; cases h

theorem pres_feedYield_handler (I : Sys → Prop) (hk : ∀ s s', Keeps s s' → I s → I s') (b : Bool) (x : Exn) :
    Spec (Pres I) (do (if b then onDisconnect else pure ()); throwE (.outer x) : M Unit) := by
  refine spec_bind (pres_po I) ?_ (fun _ => spec_throwE (pres_po I) _)
  split
  · exact fun s hs => hk _ _ (keeps_onDisconnect s) hs
  · exact spec_pure (pres_po I) _

/-- the finalisation of `feed` at a `yield`: an event-free step, then the exception goes on wrapped -/
theorem feedYield_handler_res (b : Bool) (x : Exn) (s : Sys) :
    ∃ s', (do (if b then onDisconnect else pure ()); throwE (.outer x) : M Unit) s = .err (.outer x) s' ∧ Keeps s s' := by
  cases b with
  | true =>
    simp only [if_true]
    cases hd : onDisconnect s with
    | err z s2 => exact absurd hd (noRaise_onDisconnect _ _ _)
    | ok u s2 => exact ⟨s2, by rw [bind_ok hd]; rfl, keeps_onDisconnect.ok hd⟩
  | false =>
    simp only [Bool.false_eq_true, if_false]
    exact ⟨s, rfl, keeps_po.refl s⟩

theorem E3.handler {x : Exn} {s s' : Sys} (h : E3 x s) (k : Keeps s s') : E3 (.outer x) s' :=
  h.elim (fun a => Or.inl (k.p3 a)) (fun a => Or.inr ⟨k.u a.1, trivial⟩)

theorem spec3_feedYield (b : Bool) (e : Event) (he : Event.afterReady e) : Spec3 (feedYield b e) := by
  have hin : Spec3 (do onEvent e; yieldEv e; regular : M Unit) :=
    spec3_bind (spec3_of_keeps (keeps_onEvent e he.notReady)) (fun _ =>
      spec3_bind (spec3_of_pres (pres_p3_yieldEv e he)) (fun _ => spec3_regular))
  intro s hs
  have h1 := hin s hs
  unfold feedYield
  cases hi : (do onEvent e; yieldEv e; regular : M Unit) s with
  | ok u s1 => rw [hi] at h1; rw [tryC_ok hi]; exact h1
  | err x s1 =>
    rw [hi] at h1; rw [tryC_err hi]
    obtain ⟨s2, h2, k2⟩ := feedYield_handler_res b x s1
    rw [h2]; exact E3.handler h1 k2

theorem pres_g2_feedYield (b : Bool) (e : Event) (he : Event.anytime e) : Spec (Pres G2) (feedYield b e) := by
  unfold feedYield
  refine spec_tryC (pres_po G2) ?_ (fun x => pres_feedYield_handler G2 (fun _ _ h => h.g2) b x)
  exact spec_bind (pres_po G2) (spec_keeps_g2 (keeps_onEvent e he.notReady)) (fun _ =>
    spec_bind (pres_po G2) (pres_g2_yieldEv e he) (fun _ => pres_g2_regular))

/-- the `Ready` event: from "connected, not ready" to "ready", whatever the application does and
    whatever `_regular()` does afterwards -/
theorem feedYield_ready (a : Option Http.Str) (d : Bool) (s : Sys) (hs : G2 s) :
    Res.sat3 (feedYield true (.ready a d) s) P3 E3 := by
  have h1 : onEvent (.ready a d) s = .ok () { s with lastPong := 0, nextPing := 0, startTime := some s.now, ready := true } := rfl
  generalize hs1 : ({ s with lastPong := 0, nextPing := 0, startTime := some s.now, ready := true } : Sys) = s1 at h1
  have hp1 : phaseOf s1.trace = some .connected := by rw [← hs1]; exact hs.1
  have hk1 : SockInv s1 := by rw [← hs1]; exact hs.2.2
  have hy : P3 (yieldEv (.ready a d) s1).state := by
    refine (yieldEv_keeps _ s1).p3 ⟨?_, sockInv_pushEv _ s1 hk1⟩
    rw [phaseOf_pushEv, hp1]; rfl
  have inner : Res.sat3 ((do onEvent (.ready a d); yieldEv (.ready a d); regular : M Unit) s) P3 E3 := by
    rw [bind_ok h1]
    cases hyr : yieldEv (.ready a d) s1 with
    | err x s2 => rw [hyr] at hy; rw [bind_err hyr]; exact Or.inl hy
    | ok u s2 => rw [hyr] at hy; rw [bind_ok hyr]; exact spec3_regular s2 hy
  unfold feedYield
  cases hi : (do onEvent (.ready a d); yieldEv (.ready a d); regular : M Unit) s with
  | ok u s2 => rw [hi] at inner; rw [tryC_ok hi]; exact inner
  | err x s2 =>
    rw [hi] at inner; rw [tryC_err hi]
    obtain ⟨s3, h3, k3⟩ := feedYield_handler_res true x s2
    rw [h3]; exact E3.handler inner k3

/-! ### messages -/

theorem keeps_inflateMessage (j : Bytes) : Spec Keeps (inflateMessage j) := by
  intro s; unfold inflateMessage; simp only []; splits <;> mon_keeps_leaf

theorem keeps_buildMessage (fs : List Frame) : Spec Keeps (buildMessage fs) := by
  unfold buildMessage
  split
  · exact spec_throwE keeps_po _
  · simp only []
    refine spec_getS_bind keeps_po (fun s => ?_)
    refine spec_bind keeps_po ?_ (fun _ => spec_liftE keeps_po _)
    split
    · exact keeps_inflateMessage _
    · exact spec_pure keeps_po _

theorem keeps_checkCloseCode (c : Option Nat) : Spec Keeps (checkCloseCode c) := by
  unfold checkCloseCode
  splits <;> first | exact spec_pure keeps_po _ | exact spec_throwE keeps_po _

theorem keeps_raiseIfArgError (r : ActRes) : Spec Keeps (raiseIfArgError r) := by
  unfold raiseIfArgError
  split <;> first | exact spec_pure keeps_po _ | exact spec_throwE keeps_po _

theorem spec3_onClose (c : Option Nat) (r : List Nat) : Spec3 (onClose c r) := by
  unfold onClose
  refine spec3_bind (spec3_of_keeps (keeps_checkCloseCode c)) (fun _ => ?_)
  refine spec3_getS_bind (fun s => ?_)
  split
  · exact spec3_pure _
  · split
    · refine spec3_bind (spec3_feedYield _ _ rfl) (fun _ => spec3_modS ?_); intro s; mon_keeps_leaf
    · refine spec3_bind (spec3_feedYield _ _ rfl) (fun _ => spec3_bind (spec3_of_keeps (keeps_wsClose _ _)) (fun r =>
        spec3_bind (spec3_of_keeps (keeps_raiseIfArgError r)) (fun _ => spec3_modS ?_)))
      intro s; mon_keeps_leaf

theorem spec3_onMessage (m : Msg) : Spec3 (onMessage m) := by
  unfold onMessage
  split <;> first | exact spec3_onClose _ _ | exact spec3_feedYield _ _ rfl | exact spec3_pure _

theorem spec3_onDataFrame (f : Frame) : Spec3 (onDataFrame f) := by
  unfold onDataFrame
  refine spec3_getS_bind (fun s => ?_)
  split
  · exact spec3_throwE _
  · split
    · exact spec3_throwE _
    · refine spec3_bind (spec3_modS ?_) (fun _ => ?_)
      · intro s; mon_keeps_leaf
      · split
        · refine spec3_getS_bind (fun s => spec3_bind (spec3_of_keeps (keeps_buildMessage _)) (fun m =>
            spec3_bind (spec3_onMessage m) (fun _ => spec3_modS ?_)))
          intro s; mon_keeps_leaf
        · exact spec3_pure _

theorem keeps_notClosed : Spec Keeps notClosed := by
  intro s; unfold notClosed; mon_keeps_leaf

theorem spec3_onFrame (f : Frame) : Spec3 (onFrame f) := by
  unfold onFrame
  split
  · exact spec3_bind (spec3_of_keeps (keeps_buildMessage _)) (fun m => spec3_onMessage m)
  · exact spec3_onDataFrame _

theorem spec3_onOut_frame (f : Frame) : Spec3 (onOut (.frame f)) := by
  unfold onOut
  exact spec3_bind (spec3_onFrame _) (fun _ => spec3_of_keeps keeps_notClosed)

/-! ### the handshake response is produced exactly once: only from the parser's header state -/

theorem frameDone_noHeader {v p f r} (h : frameDone v p f = .ok r) : ∀ d, r.2 ≠ some (.header d) := by
  unfold frameDone at h
  split at h
  · cases h
  · cases h; intro d hd; cases hd

theorem gotMask_noHeader {v p b0 len key r} (h : gotMask v p b0 len key = .ok r) : ∀ d, r.2 ≠ some (.header d) := by
  unfold gotMask at h
  simp only [] at h
  split at h
  · cases h
  · split at h
    · cases h; intro d hd; cases hd
    · exact frameDone_noHeader h

theorem gotLength_noHeader {v p b0 m len r} (h : gotLength v p b0 m len = .ok r) : ∀ d, r.2 ≠ some (.header d) := by
  unfold gotLength at h
  split at h
  · cases h
  · split at h
    · cases h; intro d hd; cases hd
    · exact gotMask_noHeader h

theorem resume_noHeader {v p bytes r} (h : resume v p bytes = .ok r) (hp : p.cont ≠ .header) :
    ∀ d, r.2 ≠ some (.header d) := by
  unfold resume at h
  simp only [] at h
  split at h
  · rename_i hc; exact absurd hc hp
  · split at h
    · cases h; intro d hd; cases hd
    · split at h
      · cases h; intro d hd; cases hd
      · exact gotLength_noHeader h
  · exact gotLength_noHeader h
  · exact gotLength_noHeader h
  · exact gotMask_noHeader h
  · exact frameDone_noHeader h

theorem biteBytes_noHeader {v p chunk r} (h : biteBytes v p chunk = .ok r) (hp : p.cont ≠ .header) :
    ∀ d, r.2 ≠ some (.header d) := by
  rw [biteBytes_eq] at h
  split at h
  · cases h
  · split at h
    · cases h; intro d hd; cases hd
    · exact resume_noHeader h hp

/-- in the header state the parser's only output is the header block -/
theorem resume_header {v p bytes r} (h : resume v p bytes = .ok r) (hp : p.cont = .header) :
    r.1.cont ≠ .header ∧ r.2 = some (.header bytes) := by
  unfold resume at h
  simp only [hp] at h
  cases h; exact ⟨by simp, rfl⟩

/-! ### the frames phase keeps "Ready was emitted" -/

theorem setP_p3 {s : Sys} {p' : PState} (h : P3 s) : P3 { s with p := p' } := h
theorem setP_g2 {s : Sys} {p' : PState} (h : G2 s) : G2 { s with p := p' } := h

theorem feedLoop_p3 (data : Bytes) (s : Sys) (hs : P3 s) (hc : s.p.cont ≠ .header) :
    Res.sat3 (feedLoop data s) P3 E3 := by
  induction h : data.length using Nat.strongRecOn generalizing data s with
  | _ n ih =>
    rw [feedLoop]
    by_cases hd : data = []
    · simp only [hd, dite_true]; exact hs
    · simp only [hd, dite_false]
      have hlt : (data.drop (s.p.remPred + 1)).length < n := by
        have : data.length ≠ 0 := fun hl => hd (List.eq_nil_of_length_eq_zero hl)
        simp only [List.length_drop]; omega
      cases hb : biteBytes s.cfg.v s.p (data.take (s.p.remPred + 1)) with
      | error x => exact Or.inl hs
      | ok r =>
        obtain ⟨p', out⟩ := r
        have hc1 : p'.cont ≠ .header := biteBytes_cont _ _ _ _ hb hc
        cases out with
        | none => exact ih _ hlt _ _ (setP_p3 hs) hc1 rfl
        | some o =>
          simp only
          cases o with
          | header d => exact absurd rfl (biteBytes_noHeader hb hc d)
          | frame f =>
            have ho := spec3_onOut_frame f { s with p := p' } (setP_p3 hs)
            have hst := step_onOut (.frame f) { s with p := p' }
            cases hr : onOut (.frame f) { s with p := p' } with
            | err x s2 => rw [hr] at ho; exact ho
            | ok go s2 =>
              rw [hr] at ho hst
              cases go with
              | true => exact ih _ hlt _ _ ho (hst.contNH hc1) rfl
              | false => exact ho

/-! ### the handshake response -/

theorem modS_bind (f : Sys → Sys) (k : Unit → M α) (s : Sys) : (modS f >>= k) s = k () (f s) := rfl

/-- a result satisfies `Q` if normal, `E` if exceptional -/
def Res.sat (r : Res α) (Q E : Sys → Prop) : Prop :=
  match r with
  | .ok _ s' => Q s'
  | .err _ s' => E s'

theorem onDisconnect_ok (s : Sys) : ∃ s', onDisconnect s = .ok () s' ∧ s'.closed = true := by
  unfold onDisconnect
  obtain ⟨s1, h1⟩ := closeSocket_ok s
  exact ⟨_, by rw [bind_ok h1]; rfl, rfl⟩

/-- an exceptional exit anywhere in the loop: the loop invariant's weak form, or `Unresponsive` was
    just emitted and the exception is silent -/
def EG (x : Exn) (s : Sys) : Prop := G s ∨ (U s ∧ Silent x)

theorem E3.eg {x : Exn} {s : Sys} (h : E3 x s) : EG x s := h.elim (fun a => Or.inl (Or.inr a)) Or.inr

/-- the handshake response arrives while "connected, not ready": an accepted upgrade emits `Ready`;
    a rejected one emits `Rejected`, leaves the websocket closed and stops the feed -/
theorem onOut_header (data : Bytes) (s : Sys) (hs : G2 s) :
    match onOut (.header data) s with
    | .ok true s' => P3 s'
    | .ok false s' => (G2 s' ∧ s'.closed = true) ∨ P3 s'
    | .err x s' => EG x s' := by
  unfold onOut
  simp only []
  rw [bind_ok (show getS s = .ok s s from rfl)]
  cases hresp : Http.onResponse s.cfg.v.strictAccept s.cfg.challenge (Http.parseResponse data) with
  | error reason =>
    simp only []
    rw [bind_ok (show modS (fun s => { s with parsedResponse := true }) s = .ok () { s with parsedResponse := true } from rfl)]
    have hs1 : G2 { s with parsedResponse := true } := hs
    obtain ⟨s2, h2, hc2⟩ := onDisconnect_ok { s with parsedResponse := true }
    have hs2 : G2 s2 := ((keeps_onDisconnect).ok h2).g2 hs1
    rw [bind_ok h2]
    have hy := pres_g2_feedYield true (.rejected reason) rfl s2 hs2
    have hst := step_feedYield true (.rejected reason) s2
    cases hr : feedYield true (.rejected reason) s2 with
    | err x s3 => rw [hr] at hy; rw [bind_err hr]; exact Or.inl (Or.inl hy)
    | ok u s3 =>
      rw [hr] at hy hst; rw [bind_ok hr]
      exact Or.inl ⟨hy, hst.closedMono hc2⟩
  | ok acc =>
    simp only []
    rw [modS_bind]
    have key : ∀ s1, G2 s1 →
        match (do feedYield true (.ready acc.protocol acc.deflate.isSome)
                  modS fun s => { s with parsedResponse := true }
                  notClosed : M Bool) s1 with
        | .ok true s' => P3 s'
        | .ok false s' => (G2 s' ∧ s'.closed = true) ∨ P3 s'
        | .err x s' => EG x s' := by
      intro s1 hg1
      have hy := feedYield_ready acc.protocol acc.deflate.isSome s1 hg1
      cases hr : feedYield true (.ready acc.protocol acc.deflate.isSome) s1 with
      | err x s2 => rw [hr] at hy; rw [bind_err hr]; exact E3.eg hy
      | ok u s2 =>
        rw [hr] at hy; rw [bind_ok hr, modS_bind]
        have hs3 : P3 { s2 with parsedResponse := true } := hy
        show match notClosed { s2 with parsedResponse := true } with
          | .ok true s' => P3 s'
          | .ok false s' => (G2 s' ∧ s'.closed = true) ∨ P3 s'
          | .err x s' => EG x s'
        unfold notClosed
        cases s2.closed
        · exact hs3
        · exact Or.inr hs3
    exact key _ hs

/-- the invariant of the session loop: before `Ready`, an open websocket's parser is still in the
    header state; after `Ready` it never is -/
def InvL (s : Sys) : Prop :=
  (G2 s ∧ (s.closed = false → s.p.cont = .header)) ∨ (P3 s ∧ s.p.cont ≠ .header)

theorem InvL.g {s : Sys} (h : InvL s) : G s := h.elim (fun a => Or.inl a.1) (fun a => Or.inr a.1)

theorem afterHeader_spec (rest d : Bytes) (s : Sys) (hs : G2 s) (hc : s.p.cont ≠ .header) :
    Res.sat3 (afterHeader rest (some (.header d)) s) InvL EG := by
  unfold Res.sat3 afterHeader
  simp only []
  have ho := onOut_header d s hs
  have hst := step_onOut (.header d) s
  cases hr : onOut (.header d) s with
  | err x s2 => rw [hr] at ho; rw [bind_err hr]; exact ho
  | ok go s2 =>
    rw [hr] at ho hst; rw [bind_ok hr]
    have hc2 : s2.p.cont ≠ .header := hst.contNH hc
    cases go with
    | false =>
      simp only [Bool.false_eq_true, if_false]
      rcases ho with ⟨h1, h2⟩ | h1
      · exact Or.inl ⟨h1, fun hf => by rw [h2] at hf; cases hf⟩
      · exact Or.inr ⟨h1, hc2⟩
    | true =>
      simp only [if_true]
      have hl := feedLoop_p3 rest s2 ho hc2
      have hst2 := step_feedLoop rest s2
      cases hr2 : feedLoop rest s2 with
      | err x s3 => rw [hr2] at hl; rw [bind_err hr2]; exact E3.eg hl
      | ok b s3 =>
        rw [hr2] at hl hst2; rw [bind_ok hr2]
        exact Or.inr ⟨hl, hst2.contNH hc2⟩

theorem feedHeader_spec (data : Bytes) (s : Sys) (hs : G2 s) (hc : s.p.cont = .header) :
    Res.sat3 (feedHeader data s) InvL EG := by
  generalize hr : feedHeader data s = r
  unfold feedHeader at hr
  simp only [] at hr
  split at hr
  · split at hr
    · subst hr; exact Or.inl (Or.inl hs)
    · subst hr; exact Or.inl ⟨hs, fun _ => hc⟩
  · split at hr
    · subst hr; exact Or.inl (Or.inl hs)
    · split at hr
      · subst hr; exact Or.inl (Or.inl hs)
      · rename_i p' out hres
        obtain ⟨hc1, ho⟩ := resume_header hres hc
        simp only at hc1 ho
        subst ho
        subst hr
        exact afterHeader_spec _ _ { s with p := p' } (setP_g2 hs) hc1

theorem feedBody_spec (data : Bytes) (s : Sys) (hs : InvL s) (hcl : s.closed = false) :
    Res.sat3 (feedBody data s) InvL EG := by
  generalize hr : feedBody data s = r
  unfold feedBody at hr
  split at hr
  · rename_i hc
    subst hr
    rcases hs with ⟨h1, _⟩ | ⟨_, h2⟩
    · exact feedHeader_spec data s h1 hc
    · exact absurd hc h2
  · rename_i hc
    rcases hs with ⟨_, h2⟩ | ⟨h1, _⟩
    · exact absurd (h2 hcl) hc
    · have hl := feedLoop_p3 data s h1 hc
      have hst := step_feedLoop data s
      cases hr2 : feedLoop data s with
      | err x s2 => rw [hr2] at hl hr; subst hr; exact E3.eg hl
      | ok b s2 => rw [hr2] at hl hst hr; subst hr; exact Or.inr ⟨hl, hst.contNH hc⟩

theorem pres_g2_of_keeps {m : M α} (h : Spec Keeps m) : Spec (Pres G2) m := spec_keeps_g2 h

/-- the `except` clauses of `feed`, before `Ready` -/
theorem pres_g2_feedHandler (x : Exn) : Spec (Pres G2) (feedHandler x) := by
  unfold feedHandler
  split
  · exact spec_bind (pres_po G2) (pres_g2_feedYield _ _ rfl) (fun _ => spec_throwE (pres_po G2) _)
  · exact spec_bind (pres_po G2) (pres_g2_feedYield _ _ rfl) (fun _ => spec_throwE (pres_po G2) _)
  · exact spec_bind (pres_po G2) (pres_g2_feedYield _ _ rfl) (fun _ => spec_bind (pres_po G2) (pres_g2_of_keeps (keeps_wsClose _ _)) (fun r =>
      spec_bind (pres_po G2) (pres_g2_of_keeps (keeps_raiseIfArgError r)) (fun _ => spec_throwE (pres_po G2) _)))
  · exact spec_throwE (pres_po G2) _

/-- the `except` clauses of `feed`, after `Ready` -/
theorem spec3_feedHandler (x : Exn) : Spec3 (feedHandler x) := by
  unfold feedHandler
  split
  · exact spec3_bind (spec3_feedYield _ _ rfl) (fun _ => spec3_throwE _)
  · exact spec3_bind (spec3_feedYield _ _ rfl) (fun _ => spec3_throwE _)
  · exact spec3_bind (spec3_feedYield _ _ rfl) (fun _ => spec3_bind (spec3_of_keeps (keeps_wsClose _ _)) (fun r =>
      spec3_bind (spec3_of_keeps (keeps_raiseIfArgError r)) (fun _ => spec3_throwE _)))
  · exact spec3_throwE _

/-- a computation ending in `throwE` never returns normally -/
theorem bind_throwE_not_ok {m : M α} {y : Exn} {s : Sys} {b : β} {s' : Sys} :
    (m >>= fun _ => (throwE y : M β)) s ≠ .ok b s' := by
  intro h
  cases hm : m s with
  | ok a s1 => rw [bind_ok hm] at h; cases h
  | err x s1 => rw [bind_err hm] at h; cases h

theorem feedHandler_not_ok (x : Exn) (s : Sys) (u : Unit) (s' : Sys) : feedHandler x s ≠ .ok u s' := by
  unfold feedHandler
  split
  · exact bind_throwE_not_ok
  · exact bind_throwE_not_ok
  · intro h
    cases h1 : feedYield false (.protocolError _ false) s with
    | err y s1 => rw [bind_err h1] at h; cases h
    | ok a s1 =>
      rw [bind_ok h1] at h
      cases h2 : wsClose (some Gen.statusProtocolError) (.str (Http.ofString _)) s1 with
      | err y s2 => rw [bind_err h2] at h; cases h
      | ok r s2 =>
        rw [bind_ok h2] at h
        exact bind_throwE_not_ok h
  · intro h; cases h

/-- the `except` clauses of `feed` entered after an exceptional exit of its body: after
    `Unresponsive` they are silent -/
theorem feedHandler_spec (x : Exn) (s : Sys) (h : EG x s) {y : Exn} {s' : Sys}
    (hr : feedHandler x s = .err y s') : EG y s' := by
  rcases h with (h | h) | ⟨hu, hx⟩
  · have := pres_g2_feedHandler x s h
    rw [hr] at this; exact Or.inl (Or.inl this)
  · have := spec3_feedHandler x s h
    rw [hr] at this; exact E3.eg this
  · unfold feedHandler at hr
    cases x <;> first | exact hx.elim | (cases hr; exact Or.inr ⟨hu, hx⟩)

theorem unwrapOuter_err (x : Exn) (s : Sys) : ∃ y, unwrapOuter x s = .err y s := by
  unfold unwrapOuter; split <;> exact ⟨_, rfl⟩

/-- the weak loop invariant: the monitor is between `Connected` and the terminal event -/
def GU (s : Sys) : Prop := G s ∨ U s

theorem EG.gu {x : Exn} {s : Sys} (h : EG x s) : GU s := h.elim Or.inl (fun a => Or.inr a.1)
theorem G.gu {s : Sys} (h : G s) : GU s := Or.inl h

theorem wsFeed_spec (data : Bytes) (s : Sys) (hs : InvL s) : Res.sat (wsFeed data s) InvL GU := by
  generalize hres : wsFeed data s = res
  unfold wsFeed at hres
  split at hres
  · subst hres; exact hs
  · rename_i hcl
    have hcl' : s.closed = false := by cases h : s.closed <;> simp_all
    have hb := feedBody_spec data s hs hcl'
    cases hr : feedBody data s with
    | ok u s1 =>
      rw [hr] at hb
      rw [tryC_ok (tryC_ok hr)] at hres; subst hres; exact hb
    | err x s1 =>
      rw [hr] at hb
      cases hr2 : feedHandler x s1 with
      | ok u s2 => exact absurd hr2 (feedHandler_not_ok x s1 u s2)
      | err y s2 =>
        have hh := feedHandler_spec x s1 hb hr2
        have h1 : tryC (feedBody data) feedHandler s = .err y s2 := by rw [tryC_err hr]; exact hr2
        obtain ⟨z, hz⟩ := unwrapOuter_err y s2
        rw [tryC_err h1, hz] at hres; subst hres; exact hh.gu

theorem onEof_spec (s : Sys) (hs : InvL s) : Res.sat (onEof s) InvL GU := by
  generalize hres : onEof s = res
  unfold onEof at hres
  split at hres
  · subst hres; exact hs.g.gu
  · subst hres; exact hs

theorem recvStep_spec (o : RecvOutcome) (s : Sys) (hs : InvL s) : Res.sat (recvStep o s) InvL GU := by
  generalize hres : recvStep o s = res
  unfold recvStep at hres
  split at hres
  · subst hres; exact onEof_spec s hs
  · split at hres
    · subst hres; exact hs.g.gu
    · subst hres; exact hs.g.gu
    · subst hres; exact onEof_spec s hs
    · split at hres
      · subst hres; exact onEof_spec s hs
      · rename_i bs _
        have h := wsFeed_spec bs s hs
        cases hr : wsFeed bs s with
        | ok u s1 => rw [hr] at h hres; subst hres; exact h
        | err x s1 => rw [hr] at h hres; subst hres; exact h

theorem tick_keeps (s : Sys) (dt : Nat) : Keeps s (tick s dt) := by
  unfold tick
  refine ⟨rfl, rfl, rfl, ?_, Or.inl rfl⟩
  simp only []
  split
  · exact ⟨[_], rfl, fun o h => by simp only [List.mem_singleton] at h; subst h; rfl⟩
  · exact ⟨[], rfl, fun _ h => by cases h⟩

theorem Keeps.invL {s s' : Sys} (h : Keeps s s') (hc : s'.closed = s.closed) (hs : InvL s) : InvL s' := by
  rcases hs with ⟨h1, h2⟩ | ⟨h1, h2⟩
  · exact Or.inl ⟨h.g2 h1, fun hf => by rw [h.cont]; exact h2 (hc ▸ hf)⟩
  · exact Or.inr ⟨h.p3 h1, by rw [h.cont]; exact h2⟩

theorem regular_invL (s : Sys) (hs : InvL s) : Res.sat (regular s) InvL GU := by
  rcases hs with ⟨h1, h2⟩ | ⟨h1, h2⟩
  · rw [regular_notReady s h1.2.1]; exact Or.inl ⟨h1, h2⟩
  · have hp := spec3_regular s h1
    have hst := step_regular s
    cases hr : regular s with
    | ok u s1 => rw [hr] at hp hst; exact Or.inr ⟨hp, hst.contNH h2⟩
    | err x s1 => rw [hr] at hp; exact (E3.eg hp).gu

/-- **the session loop emits only events the monitor accepts between `Connected` and the terminal
    event** — and after `Unresponsive` nothing at all —, for every script -/
theorem loop_spec (env : List EnvStep) (s : Sys) (hs : InvL s) : GU (loop env s).state := by
  induction env generalizing s with
  | nil => unfold loop; split <;> exact hs.g.gu
  | cons st rest ih =>
    unfold loop
    split
    · exact hs.g.gu
    · split
      · exact hs.g.gu
      · rename_i dt readable
        have h0 : InvL (tick s dt) := (tick_keeps s dt).invL rfl hs
        have h1 := regular_invL (tick s dt) h0
        unfold regularTop
        split
        · rename_i x s2 hr; rw [hr] at h1; exact h1
        · rename_i u s2 hr; rw [hr] at h1
          split
          · exact ih s2 h1
          · rename_i o
            have h2 := recvStep_spec o s2 h1
            split
            · rename_i x s3 hr2; rw [hr2] at h2; exact h2
            · rename_i s3 hr2; rw [hr2] at h2; exact ih s3 h2
            · rename_i s3 hr2; rw [hr2] at h2; exact h2.g.gu

end Lomond.Core.Monitor
