/-
  Huffman decoding of Model/Inflate.lean against the encoder's code tables.

  `goL` is `decode.go` on a bit list; `go_eq` ties the two for every table.  For the fixed
  tables the finitely many code words are checked by kernel evaluation (`decide +kernel`, one
  statement per table: all 288 literal/length symbols, all 32 distance symbols) and lifted to
  "the code word followed by anything" by `goL_append` (= the code is prefix-free: a longer input
  with the same beginning decodes to the same symbol after the same number of bits).

  The length / distance base + extra-bits tables of the encoder (`lenCode`, `distCode`) are
  proved to be inverse to the inflater's `lbase`/`lext`/`dbase`/`dext` for every length 3..258
  and every distance 1..32768.
-/
import Lomond.Proofs.InflateBits
set_option linter.unusedSimpArgs false
set_option linter.unusedVariables false
namespace Lomond.Inflate
open Lomond Lomond.DeflEnc

/-- `decode.go` on a list of bits: `none` = the input ends first; otherwise the symbol
    (`none` = no code of at most 15 bits) and the number of bits used -/
def goL (h : Huff) : Nat → Nat → Nat → Nat → Nat → List Bool → Option (Option Nat × Nat)
  | 0, _, _, _, _, _ => some (none, 0)
  | _ + 1, _, _, _, _, [] => none
  | fuel + 1, len, code, first, index, b :: r =>
    if code + b.toNat < first + h.count.getD len 0 then
      some (some (h.symbol.getD (index + (code + b.toNat - first)) 0), 1)
    else
      match goL h fuel (len + 1) ((code + b.toNat) * 2) ((first + h.count.getD len 0) * 2)
              (index + h.count.getD len 0) r with
      | none => none
      | some (s, k) => some (s, k + 1)

/-- what `go` returns, from what `goL` returns -/
def rdOf (pos : Nat) : Option (Option Nat × Nat) → Rd (Option Nat)
  | none => .eoi
  | some (s, k) => .ok s (pos + k)

theorem go_eq (h : Huff) (inp : Array Nat) (fuel len pos code first index : Nat) :
    decode.go h inp fuel len pos code first index = rdOf pos (goL h fuel len code first index (Rest inp pos)) := by
  induction fuel generalizing len pos code first index with
  | zero => simp [decode.go, goL, rdOf]
  | succ fuel ih =>
    cases hr : Rest inp pos with
    | nil =>
      have := (rest_nil_iff inp pos).mp hr
      simp only [decode.go, if_neg this, goL, rdOf]
    | cons b r =>
      obtain ⟨h1, h2, h3⟩ := rest_cons hr
      simp only [decode.go, if_pos h1, goL, h2]
      split
      · simp [rdOf]
      · rw [ih, h3]
        cases goL h fuel (len + 1) ((code + b.toNat) * 2) ((first + h.count.getD len 0) * 2)
            (index + h.count.getD len 0) r with
        | none => rfl
        | some sk => simp only [rdOf]; congr 1; omega

/-- prefix-freeness in the form needed: once a symbol is decoded, what follows does not matter -/
theorem goL_append (h : Huff) (fuel len code first index : Nat) (bs rest : List Bool) (s : Option Nat) (k : Nat)
    (hg : goL h fuel len code first index bs = some (s, k)) :
    goL h fuel len code first index (bs ++ rest) = some (s, k) := by
  induction fuel generalizing len code first index bs k s with
  | zero => simpa [goL] using hg
  | succ fuel ih =>
    cases bs with
    | nil => simp [goL] at hg
    | cons b r =>
      simp only [goL, List.cons_append] at hg ⊢
      split
      · rename_i hc; rw [if_pos hc] at hg; exact hg
      · rename_i hc
        rw [if_neg hc] at hg
        cases hx : goL h fuel (len + 1) ((code + b.toNat) * 2) ((first + h.count.getD len 0) * 2)
            (index + h.count.getD len 0) r with
        | none => rw [hx] at hg; cases hg
        | some sk =>
          rw [hx] at hg
          obtain ⟨s', k'⟩ := sk
          rw [ih _ _ _ _ _ _ _ hx]
          exact hg

theorem fixedLit_shape : fixedLit.shape = .complete := rfl
theorem fixedDist_shape : fixedDist.shape = .complete := rfl

/-- `decode` of a complete code, through `goL` -/
theorem decode_complete (h : Huff) (hs : h.shape = .complete) (inp : Array Nat) (pos : Nat) :
    decode h inp pos = rdOf pos (goL h 15 1 0 0 0 (Rest inp pos)) := by
  simp only [decode, hs, decode.decodeGo', go_eq]

/-- all 288 code words of the fixed literal/length code decode to their symbol -/
theorem fixedLit_words : ∀ s, s < 288 → goL fixedLit 15 1 0 0 0 (litCode s) = some (some s, (litCode s).length) := by
  decide +kernel

/-- all 32 code words of the fixed distance code decode to their symbol -/
theorem fixedDist_words : ∀ s, s < 32 → goL fixedDist 15 1 0 0 0 (bitsMSB 5 s) = some (some s, 5) := by
  decide +kernel

/-- **decoding a literal/length symbol of the fixed code**, whatever follows -/
theorem decode_fixedLit {inp : Array Nat} {pos s : Nat} {r : List Bool} (hs : s < 288)
    (h : Rest inp pos = litCode s ++ r) :
    decode fixedLit inp pos = .ok (some s) (pos + (litCode s).length) := by
  rw [decode_complete _ fixedLit_shape, h, goL_append _ _ _ _ _ _ _ r _ _ (fixedLit_words s hs)]
  rfl

/-- **decoding a distance symbol of the fixed code**, whatever follows -/
theorem decode_fixedDist {inp : Array Nat} {pos s : Nat} {r : List Bool} (hs : s < 32)
    (h : Rest inp pos = bitsMSB 5 s ++ r) :
    decode fixedDist inp pos = .ok (some s) (pos + 5) := by
  rw [decode_complete _ fixedDist_shape, h, goL_append _ _ _ _ _ _ _ r _ _ (fixedDist_words s hs)]
  rfl

/-! ### length and distance tables -/

/-- the encoder's length table inverts the inflater's, for every length 3..258 -/
theorem lenCode_spec : ∀ n, n < 259 → 3 ≤ n →
    (lenCode n).1 < 29 ∧ lext.getD (lenCode n).1 0 = (lenCode n).2.1 ∧
    lbase.getD (lenCode n).1 0 + (lenCode n).2.2 = n ∧ (lenCode n).2.2 < 2 ^ (lenCode n).2.1 ∧
    (lenCode n).2.1 ≤ 5 := by
  decide +kernel

private theorem dist_row (d lo k i : Nat) (hk : 0 < k)
    (hi : (d - lo) / k = 0 ∨ (d - lo) / k = 1) (hlo : lo ≤ d)
    (b0 b1 : Nat) (e : Nat)
    (h0 : dbase.getD i 0 = lo ∧ dext.getD i 0 = e) (h1 : dbase.getD (i + 1) 0 = lo + k ∧ dext.getD (i + 1) 0 = e) :
    dext.getD (i + (d - lo) / k) 0 = e ∧ dbase.getD (i + (d - lo) / k) 0 + (d - lo) % k = d := by
  have hdm := Nat.div_add_mod (d - lo) k
  rcases hi with h | h
  · rw [h] at hdm ⊢
    simp only [Nat.add_zero, h0, true_and]
    simp at hdm; omega
  · rw [h] at hdm ⊢
    simp only [h1, true_and]
    simp at hdm; omega

private theorem distCode_row1 (d : Nat) (h : 5 ≤ d) (h' : d < 9) :
    distCode d = (4 + (d - 5) / 2, 1, (d - 5) % 2) := by
  unfold distCode
  rw [if_neg (by omega : ¬ d < 5), if_pos h']
private theorem distCode_row2 (d : Nat) (h : 9 ≤ d) (h' : d < 17) :
    distCode d = (6 + (d - 9) / 4, 2, (d - 9) % 4) := by
  unfold distCode
  rw [if_neg (by omega : ¬ d < 5), if_neg (by omega : ¬ d < 9), if_pos h']
private theorem distCode_row3 (d : Nat) (h : 17 ≤ d) (h' : d < 33) :
    distCode d = (8 + (d - 17) / 8, 3, (d - 17) % 8) := by
  unfold distCode
  rw [if_neg (by omega : ¬ d < 5), if_neg (by omega : ¬ d < 9), if_neg (by omega : ¬ d < 17), if_pos h']
private theorem distCode_row4 (d : Nat) (h : 33 ≤ d) (h' : d < 65) :
    distCode d = (10 + (d - 33) / 16, 4, (d - 33) % 16) := by
  unfold distCode
  rw [if_neg (by omega : ¬ d < 5), if_neg (by omega : ¬ d < 9), if_neg (by omega : ¬ d < 17), if_neg (by omega : ¬ d < 33), if_pos h']
private theorem distCode_row5 (d : Nat) (h : 65 ≤ d) (h' : d < 129) :
    distCode d = (12 + (d - 65) / 32, 5, (d - 65) % 32) := by
  unfold distCode
  rw [if_neg (by omega : ¬ d < 5), if_neg (by omega : ¬ d < 9), if_neg (by omega : ¬ d < 17), if_neg (by omega : ¬ d < 33), if_neg (by omega : ¬ d < 65), if_pos h']
private theorem distCode_row6 (d : Nat) (h : 129 ≤ d) (h' : d < 257) :
    distCode d = (14 + (d - 129) / 64, 6, (d - 129) % 64) := by
  unfold distCode
  rw [if_neg (by omega : ¬ d < 5), if_neg (by omega : ¬ d < 9), if_neg (by omega : ¬ d < 17), if_neg (by omega : ¬ d < 33), if_neg (by omega : ¬ d < 65), if_neg (by omega : ¬ d < 129), if_pos h']
private theorem distCode_row7 (d : Nat) (h : 257 ≤ d) (h' : d < 513) :
    distCode d = (16 + (d - 257) / 128, 7, (d - 257) % 128) := by
  unfold distCode
  rw [if_neg (by omega : ¬ d < 5), if_neg (by omega : ¬ d < 9), if_neg (by omega : ¬ d < 17), if_neg (by omega : ¬ d < 33), if_neg (by omega : ¬ d < 65), if_neg (by omega : ¬ d < 129), if_neg (by omega : ¬ d < 257), if_pos h']
private theorem distCode_row8 (d : Nat) (h : 513 ≤ d) (h' : d < 1025) :
    distCode d = (18 + (d - 513) / 256, 8, (d - 513) % 256) := by
  unfold distCode
  rw [if_neg (by omega : ¬ d < 5), if_neg (by omega : ¬ d < 9), if_neg (by omega : ¬ d < 17), if_neg (by omega : ¬ d < 33), if_neg (by omega : ¬ d < 65), if_neg (by omega : ¬ d < 129), if_neg (by omega : ¬ d < 257), if_neg (by omega : ¬ d < 513), if_pos h']
private theorem distCode_row9 (d : Nat) (h : 1025 ≤ d) (h' : d < 2049) :
    distCode d = (20 + (d - 1025) / 512, 9, (d - 1025) % 512) := by
  unfold distCode
  rw [if_neg (by omega : ¬ d < 5), if_neg (by omega : ¬ d < 9), if_neg (by omega : ¬ d < 17), if_neg (by omega : ¬ d < 33), if_neg (by omega : ¬ d < 65), if_neg (by omega : ¬ d < 129), if_neg (by omega : ¬ d < 257), if_neg (by omega : ¬ d < 513), if_neg (by omega : ¬ d < 1025), if_pos h']
private theorem distCode_row10 (d : Nat) (h : 2049 ≤ d) (h' : d < 4097) :
    distCode d = (22 + (d - 2049) / 1024, 10, (d - 2049) % 1024) := by
  unfold distCode
  rw [if_neg (by omega : ¬ d < 5), if_neg (by omega : ¬ d < 9), if_neg (by omega : ¬ d < 17), if_neg (by omega : ¬ d < 33), if_neg (by omega : ¬ d < 65), if_neg (by omega : ¬ d < 129), if_neg (by omega : ¬ d < 257), if_neg (by omega : ¬ d < 513), if_neg (by omega : ¬ d < 1025), if_neg (by omega : ¬ d < 2049), if_pos h']
private theorem distCode_row11 (d : Nat) (h : 4097 ≤ d) (h' : d < 8193) :
    distCode d = (24 + (d - 4097) / 2048, 11, (d - 4097) % 2048) := by
  unfold distCode
  rw [if_neg (by omega : ¬ d < 5), if_neg (by omega : ¬ d < 9), if_neg (by omega : ¬ d < 17), if_neg (by omega : ¬ d < 33), if_neg (by omega : ¬ d < 65), if_neg (by omega : ¬ d < 129), if_neg (by omega : ¬ d < 257), if_neg (by omega : ¬ d < 513), if_neg (by omega : ¬ d < 1025), if_neg (by omega : ¬ d < 2049), if_neg (by omega : ¬ d < 4097), if_pos h']
private theorem distCode_row12 (d : Nat) (h : 8193 ≤ d) (h' : d < 16385) :
    distCode d = (26 + (d - 8193) / 4096, 12, (d - 8193) % 4096) := by
  unfold distCode
  rw [if_neg (by omega : ¬ d < 5), if_neg (by omega : ¬ d < 9), if_neg (by omega : ¬ d < 17), if_neg (by omega : ¬ d < 33), if_neg (by omega : ¬ d < 65), if_neg (by omega : ¬ d < 129), if_neg (by omega : ¬ d < 257), if_neg (by omega : ¬ d < 513), if_neg (by omega : ¬ d < 1025), if_neg (by omega : ¬ d < 2049), if_neg (by omega : ¬ d < 4097), if_neg (by omega : ¬ d < 8193), if_pos h']
private theorem distCode_row13 (d : Nat) (h : 16385 ≤ d) (h' : d < 32769) :
    distCode d = (28 + (d - 16385) / 8192, 13, (d - 16385) % 8192) := by
  unfold distCode
  rw [if_neg (by omega : ¬ d < 5), if_neg (by omega : ¬ d < 9), if_neg (by omega : ¬ d < 17), if_neg (by omega : ¬ d < 33), if_neg (by omega : ¬ d < 65), if_neg (by omega : ¬ d < 129), if_neg (by omega : ¬ d < 257), if_neg (by omega : ¬ d < 513), if_neg (by omega : ¬ d < 1025), if_neg (by omega : ¬ d < 2049), if_neg (by omega : ¬ d < 4097), if_neg (by omega : ¬ d < 8193), if_neg (by omega : ¬ d < 16385)]
/-- the encoder's distance table inverts the inflater's, for every distance 1..32768 -/
theorem distCode_spec (d : Nat) (h1 : 1 ≤ d) (h2 : d ≤ 32768) :
    (distCode d).1 < 30 ∧ dext.getD (distCode d).1 0 = (distCode d).2.1 ∧
    dbase.getD (distCode d).1 0 + (distCode d).2.2 = d ∧ (distCode d).2.2 < 2 ^ (distCode d).2.1 ∧
    (distCode d).2.1 ≤ 13 := by
  by_cases c0 : d < 5
  · have : d = 1 ∨ d = 2 ∨ d = 3 ∨ d = 4 := by omega
    rcases this with h | h | h | h <;> subst h <;> decide
  by_cases c1 : d < 9
  · rw [distCode_row1 d (by omega) c1]
    have hq : (d - 5) / 2 = 0 ∨ (d - 5) / 2 = 1 := by omega
    have hr := dist_row d 5 2 4 (by decide) hq (by omega) 0 0 1 (by decide) (by decide)
    exact ⟨by omega, hr.1, hr.2, Nat.mod_lt _ (by decide), by simp⟩
  by_cases c2 : d < 17
  · rw [distCode_row2 d (by omega) c2]
    have hq : (d - 9) / 4 = 0 ∨ (d - 9) / 4 = 1 := by omega
    have hr := dist_row d 9 4 6 (by decide) hq (by omega) 0 0 2 (by decide) (by decide)
    exact ⟨by omega, hr.1, hr.2, Nat.mod_lt _ (by decide), by simp⟩
  by_cases c3 : d < 33
  · rw [distCode_row3 d (by omega) c3]
    have hq : (d - 17) / 8 = 0 ∨ (d - 17) / 8 = 1 := by omega
    have hr := dist_row d 17 8 8 (by decide) hq (by omega) 0 0 3 (by decide) (by decide)
    exact ⟨by omega, hr.1, hr.2, Nat.mod_lt _ (by decide), by simp⟩
  by_cases c4 : d < 65
  · rw [distCode_row4 d (by omega) c4]
    have hq : (d - 33) / 16 = 0 ∨ (d - 33) / 16 = 1 := by omega
    have hr := dist_row d 33 16 10 (by decide) hq (by omega) 0 0 4 (by decide) (by decide)
    exact ⟨by omega, hr.1, hr.2, Nat.mod_lt _ (by decide), by simp⟩
  by_cases c5 : d < 129
  · rw [distCode_row5 d (by omega) c5]
    have hq : (d - 65) / 32 = 0 ∨ (d - 65) / 32 = 1 := by omega
    have hr := dist_row d 65 32 12 (by decide) hq (by omega) 0 0 5 (by decide) (by decide)
    exact ⟨by omega, hr.1, hr.2, Nat.mod_lt _ (by decide), by simp⟩
  by_cases c6 : d < 257
  · rw [distCode_row6 d (by omega) c6]
    have hq : (d - 129) / 64 = 0 ∨ (d - 129) / 64 = 1 := by omega
    have hr := dist_row d 129 64 14 (by decide) hq (by omega) 0 0 6 (by decide) (by decide)
    exact ⟨by omega, hr.1, hr.2, Nat.mod_lt _ (by decide), by simp⟩
  by_cases c7 : d < 513
  · rw [distCode_row7 d (by omega) c7]
    have hq : (d - 257) / 128 = 0 ∨ (d - 257) / 128 = 1 := by omega
    have hr := dist_row d 257 128 16 (by decide) hq (by omega) 0 0 7 (by decide) (by decide)
    exact ⟨by omega, hr.1, hr.2, Nat.mod_lt _ (by decide), by simp⟩
  by_cases c8 : d < 1025
  · rw [distCode_row8 d (by omega) c8]
    have hq : (d - 513) / 256 = 0 ∨ (d - 513) / 256 = 1 := by omega
    have hr := dist_row d 513 256 18 (by decide) hq (by omega) 0 0 8 (by decide) (by decide)
    exact ⟨by omega, hr.1, hr.2, Nat.mod_lt _ (by decide), by simp⟩
  by_cases c9 : d < 2049
  · rw [distCode_row9 d (by omega) c9]
    have hq : (d - 1025) / 512 = 0 ∨ (d - 1025) / 512 = 1 := by omega
    have hr := dist_row d 1025 512 20 (by decide) hq (by omega) 0 0 9 (by decide) (by decide)
    exact ⟨by omega, hr.1, hr.2, Nat.mod_lt _ (by decide), by simp⟩
  by_cases c10 : d < 4097
  · rw [distCode_row10 d (by omega) c10]
    have hq : (d - 2049) / 1024 = 0 ∨ (d - 2049) / 1024 = 1 := by omega
    have hr := dist_row d 2049 1024 22 (by decide) hq (by omega) 0 0 10 (by decide) (by decide)
    exact ⟨by omega, hr.1, hr.2, Nat.mod_lt _ (by decide), by simp⟩
  by_cases c11 : d < 8193
  · rw [distCode_row11 d (by omega) c11]
    have hq : (d - 4097) / 2048 = 0 ∨ (d - 4097) / 2048 = 1 := by omega
    have hr := dist_row d 4097 2048 24 (by decide) hq (by omega) 0 0 11 (by decide) (by decide)
    exact ⟨by omega, hr.1, hr.2, Nat.mod_lt _ (by decide), by simp⟩
  by_cases c12 : d < 16385
  · rw [distCode_row12 d (by omega) c12]
    have hq : (d - 8193) / 4096 = 0 ∨ (d - 8193) / 4096 = 1 := by omega
    have hr := dist_row d 8193 4096 26 (by decide) hq (by omega) 0 0 12 (by decide) (by decide)
    exact ⟨by omega, hr.1, hr.2, Nat.mod_lt _ (by decide), by simp⟩
  · rw [distCode_row13 d (by omega) (by omega)]
    have hq : (d - 16385) / 8192 = 0 ∨ (d - 16385) / 8192 = 1 := by omega
    have hr := dist_row d 16385 8192 28 (by decide) hq (by omega) 0 0 13 (by decide) (by decide)
    exact ⟨by omega, hr.1, hr.2, Nat.mod_lt _ (by decide), by simp⟩

end Lomond.Inflate
