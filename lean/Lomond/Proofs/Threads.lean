/-
  Helper lemmas for C11 / C12: the lock discipline of the compiled programs and the invariants
  of the interleaving semantics (`Model/Threads.lean`), proved by induction over the schedule.
-/
import Lomond.Model.Threads
set_option linter.unusedSimpArgs false
set_option linter.unusedVariables false

namespace Lomond.Threads
open Lomond

/-! ### where a thread stands -/

/-- the remaining sync steps of the call a thread is in (or is about to start) -/
def view (v : Variant) (cfg : Cfg) (th : Thread) : List Step :=
  match th.current v cfg with
  | some c => c.rest
  | none => []

/-- does a thread standing at this point of its program hold the write lock?
    (the next lock operation ahead of it is a release) -/
def holds : List Step → Bool
  | [] => false
  | .acquire :: _ => false
  | .release :: _ => true
  | _ :: r => holds r

def isWrite : Step → Bool
  | .write1 _ => true
  | .write2 _ => true
  | _ => false

def noWrite (r : List Step) : Bool := r.all (fun s => !isWrite s)

def headW2 : List Step → Bool
  | .write2 _ :: _ => true
  | _ => false

/-- steps that may only stand outside a `with self._lock:` block -/
def outOnly : Step → Bool
  | .retIfClosed => true
  | .retIfClosing => true
  | .brIfClosing _ => true
  | .brIfErr _ => true
  | .setCloseTime => true
  | _ => false

/-- steps that may only stand inside a `with self._lock:` block -/
def inOnly : Step → Bool
  | .chkSock => true
  | .chkClosed => true
  | .chkClosing => true
  | .ldClosing => true
  | .chkBoth => true
  | _ => false

/-- the lock discipline of a program (every suffix of a disciplined program is disciplined):
    an acquire is followed by its release before any other lock operation, the two halves of a
    write are adjacent, carry the same frame and sit inside the lock, there is at most one write
    per call (nothing is written after a release), the state checks of `session.write` sit inside
    the lock before the write, early returns / branches / the end of `close()` are outside the lock,
    the socket is shut (`sockClose`) inside the lock. -/
def disc : List Step → Bool
  | [] => true
  | st :: r =>
    disc r &&
    (match st with
     | .acquire => holds r
     | .release => !holds r && noWrite r
     | .write1 f => holds r && (match r with | .write2 g :: _ => f = g | _ => false)
     | .write2 _ => holds r && noWrite r
     | .sockClose => holds r
     | _ => if outOnly st then !holds r else if inOnly st then holds r && !noWrite r else true) &&
    (match st with
     | .write1 _ => true
     | _ => !headW2 r)

theorem disc_tail {st : Step} {r : List Step} (h : disc (st :: r) = true) : disc r = true := by
  simp only [disc, Bool.and_eq_true] at h; exact h.1.1

/-! ### jumps stay inside the program -/

theorem afterClose_suffix (r : List Step) : afterClose r <:+ r := by
  induction r with
  | nil => simp [afterClose]
  | cons s r ih =>
    cases s <;> simp only [afterClose] <;>
      first | exact List.suffix_cons _ _ | exact ih.trans (List.suffix_cons _ _)

theorem toRelease_suffix (r : List Step) : toRelease r <:+ r := by
  induction r with
  | nil => simp [toRelease]
  | cons s r ih =>
    cases s <;> simp only [toRelease] <;>
      first | exact List.suffix_refl _ | exact ih.trans (List.suffix_cons _ _)

theorem disc_suffix {r r' : List Step} (h : r' <:+ r) (d : disc r = true) : disc r' = true := by
  induction r with
  | nil => simp at h; subst h; exact d
  | cons s r ih =>
    rcases List.suffix_cons_iff.mp h with h | h
    · subst h; exact d
    · exact ih h (disc_tail d)

theorem holds_afterClose (r : List Step) (d : disc r = true) : holds (afterClose r) = false := by
  induction r with
  | nil => rfl
  | cons s r ih =>
    have dt := disc_tail d
    cases s <;> simp only [afterClose] <;> try exact ih dt
    -- setCloseTime: the rest is outside the lock
    simp only [disc, outOnly, Bool.and_eq_true] at d
    simpa using d.1.2

theorem holds_toRelease (r : List Step) (h : holds r = true) : holds (toRelease r) = true := by
  induction r with
  | nil => simp [holds] at h
  | cons s r ih =>
    cases s <;> simp only [toRelease, holds] at h ⊢ <;> first | exact ih h | rfl | cases h

theorem headW2_afterClose (r : List Step) (d : disc r = true) : headW2 (afterClose r) = false := by
  induction r with
  | nil => rfl
  | cons s r ih =>
    have dt := disc_tail d
    cases s <;> simp only [afterClose] <;> try exact ih dt
    simp only [disc, Bool.and_eq_true] at d
    simpa using d.2

theorem headW2_toRelease (r : List Step) : headW2 (toRelease r) = false := by
  induction r with
  | nil => rfl
  | cons s r ih => cases s <;> simp only [toRelease, headW2] <;> exact ih

/-! ### the compiled programs are disciplined -/

theorem compile_disc (v : Variant) (cfg : Cfg) (call : Call) : disc (compile v cfg call) = true := by
  cases call <;>
    simp only [compile, sendData, closeBody, writeProg, checks] <;>
    (repeat' split) <;> simp [disc, holds, noWrite, isWrite, headW2, outOnly, inOnly]

theorem compile_holds (v : Variant) (cfg : Cfg) (call : Call) : holds (compile v cfg call) = false := by
  cases call <;>
    simp only [compile, sendData, closeBody, writeProg, checks] <;>
    (repeat' split) <;> simp [holds]

theorem compile_headW2 (v : Variant) (cfg : Cfg) (call : Call) : headW2 (compile v cfg call) = false := by
  cases call <;>
    simp only [compile, sendData, closeBody, writeProg, checks] <;>
    (repeat' split) <;> simp [headW2]

theorem alt_disc (v : Variant) (a : Alt) : disc (altSteps v a) = true := by
  cases a <;> simp only [altSteps, closeSocketProg] <;> (try split) <;> simp [disc, holds, noWrite, isWrite, headW2, outOnly, inOnly]

theorem alt_holds (v : Variant) (a : Alt) : holds (altSteps v a) = false := by
  cases a <;> simp only [altSteps, closeSocketProg] <;> (try split) <;> simp [holds]

theorem alt_headW2 (v : Variant) (a : Alt) : headW2 (altSteps v a) = false := by
  cases a <;> simp only [altSteps, closeSocketProg] <;> (try split) <;> simp [headW2]

theorem alt_noWrite (v : Variant) (a : Alt) : noWrite (altSteps v a) = true := by
  cases a <;> simp only [altSteps, closeSocketProg] <;> (try split) <;> simp [noWrite, isWrite]

/-! ### one step, taken apart -/

/-- how a step moves the thread's program pointer -/
inductive Moves (v : Variant) : Step → List Step → List Step → Prop
  | next (st r) : Moves v st r r
  | ret (st r) : (st = .retIfClosed ∨ st = .retIfClosing) → Moves v st r (afterClose r)
  | fail (st r) : (st = .chkSock ∨ st = .chkClosed ∨ st = .chkClosing ∨ st = .chkBoth ∨ isWrite st = true) →
      Moves v st r (toRelease r)
  | alt (a r) : Moves v (.brIfClosing a) r (altSteps v a)
  | altErr (a r) : Moves v (.brIfErr a) r (altSteps v a)

theorem exec_moves (v : Variant) (t : Tid) (st : Step) (r : List Step) (sh : Shared) (c : Cur) :
    Moves v st r (exec v t st r sh c).2.rest := by
  cases st <;> simp only [exec, failWrite] <;> (repeat' split) <;>
    first
    | exact Moves.next _ _
    | exact Moves.ret _ _ (Or.inl rfl)
    | exact Moves.ret _ _ (Or.inr rfl)
    | exact Moves.fail _ _ (Or.inl rfl)
    | exact Moves.fail _ _ (Or.inr (Or.inl rfl))
    | exact Moves.fail _ _ (Or.inr (Or.inr (Or.inl rfl)))
    | exact Moves.fail _ _ (Or.inr (Or.inr (Or.inr (Or.inl rfl))))
    | exact Moves.fail _ _ (Or.inr (Or.inr (Or.inr (Or.inr rfl))))
    | exact Moves.alt _ _
    | exact Moves.altErr _ _

theorem moves_eq {v : Variant} {st : Step} {r r' : List Step} (m : Moves v st r r') :
    r' = r ∨ ((st = .retIfClosed ∨ st = .retIfClosing) ∧ r' = afterClose r) ∨
      ((st = .chkSock ∨ st = .chkClosed ∨ st = .chkClosing ∨ st = .chkBoth ∨ isWrite st = true) ∧ r' = toRelease r) ∨
      (∃ a, (st = .brIfClosing a ∨ st = .brIfErr a) ∧ r' = altSteps v a) := by
  cases m with
  | next => exact Or.inl rfl
  | ret _ _ h => exact Or.inr (Or.inl ⟨h, rfl⟩)
  | fail _ _ h => exact Or.inr (Or.inr (Or.inl ⟨h, rfl⟩))
  | alt a _ => exact Or.inr (Or.inr (Or.inr ⟨a, Or.inl rfl, rfl⟩))
  | altErr a _ => exact Or.inr (Or.inr (Or.inr ⟨a, Or.inr rfl, rfl⟩))

theorem moves_disc {v : Variant} {st : Step} {r r' : List Step} (m : Moves v st r r')
    (d : disc (st :: r) = true) : disc r' = true := by
  have dt := disc_tail d
  cases m with
  | next => exact dt
  | ret _ _ _ => exact disc_suffix (afterClose_suffix r) dt
  | fail _ _ _ => exact disc_suffix (toRelease_suffix r) dt
  | alt a _ => exact alt_disc v a
  | altErr a _ => exact alt_disc v a

/-- whether the thread holds the lock after the step -/
def holdsAfter (st : Step) (r : List Step) : Bool :=
  match st with
  | .acquire => true
  | .release => false
  | _ => holds r

theorem holdsAfter_eq (st : Step) (r : List Step) (h1 : st ≠ .acquire) (h2 : st ≠ .release) :
    holdsAfter st r = holds (st :: r) := by
  cases st <;> simp_all [holdsAfter, holds]

theorem moves_holds {v : Variant} {st : Step} {r r' : List Step} (m : Moves v st r r')
    (d : disc (st :: r) = true) : holds r' = holdsAfter st r := by
  cases m with
  | next =>
    cases st <;> simp only [holdsAfter] <;>
      simp only [disc, Bool.and_eq_true] at d <;> simp_all
  | ret _ _ h =>
    have dt := disc_tail d
    rw [holds_afterClose r dt]
    rcases h with h | h <;> subst h <;>
      simp only [disc, outOnly, Bool.and_eq_true] at d <;> simp_all [holdsAfter]
  | fail _ _ h =>
    have : holds r = true := by
      rcases h with h | h | h | h | h
      iterate 4 (subst h; simp only [disc, outOnly, inOnly, Bool.and_eq_true] at d; simp_all)
      cases st <;> simp only [isWrite] at h <;> (try cases h) <;>
        (simp only [disc, Bool.and_eq_true] at d; simp_all)
    rw [holds_toRelease r this]
    rcases h with h | h | h | h | h
    iterate 4 (subst h; simp [holdsAfter, this])
    cases st <;> simp only [isWrite] at h <;> (try cases h) <;> simp [holdsAfter, this]
  | alt a _ =>
    rw [alt_holds]
    simp only [disc, outOnly, Bool.and_eq_true] at d
    simp_all [holdsAfter]
  | altErr a _ =>
    rw [alt_holds]
    simp only [disc, outOnly, Bool.and_eq_true] at d
    simp_all [holdsAfter]

theorem moves_headW2 {v : Variant} {st : Step} {r r' : List Step} (m : Moves v st r r')
    (d : disc (st :: r) = true) (h : headW2 r' = true) : ∃ f, st = .write1 f ∧ r' = r := by
  cases m with
  | next =>
    cases st <;> simp only [disc, Bool.and_eq_true] at d <;> simp_all
  | ret _ _ _ => rw [headW2_afterClose r (disc_tail d)] at h; cases h
  | fail _ _ _ => rw [headW2_toRelease] at h; cases h
  | alt a _ => rw [alt_headW2] at h; cases h
  | altErr a _ => rw [alt_headW2] at h; cases h

theorem step_cases (v : Variant) (cfg : Cfg) (s : State) (t : Tid) :
    step v cfg s t = s ∨
    ∃ c st r, (s.th t).current v cfg = some c ∧ c.rest = st :: r ∧ blockedOn s.sh c = false ∧
      step v cfg s t =
        setTh s t (settle (s.th t) (exec v t st r s.sh c).2) (exec v t st r s.sh c).1 := by
  unfold step
  split
  · left; rfl
  · rename_i c hc
    split
    · left; rfl
    · rename_i st r hr
      split
      · left; rfl
      · rename_i hb
        right
        exact ⟨c, st, r, hc, hr, by simpa using hb, rfl⟩

@[simp] theorem setTh_sh (s : State) (t : Tid) (th : Thread) (sh : Shared) : (setTh s t th sh).sh = sh := rfl
@[simp] theorem setTh_same (s : State) (t : Tid) (th : Thread) (sh : Shared) : (setTh s t th sh).th t = th := by
  simp [setTh]
theorem setTh_other (s : State) (t u : Tid) (th : Thread) (sh : Shared) (h : u ≠ t) :
    (setTh s t th sh).th u = s.th u := by
  simp [setTh, h]

/-- a thread between two calls stands at the start of a compiled program, or is finished -/
theorem view_fresh (v : Variant) (cfg : Cfg) (th : Thread) (h : th.cur = none) :
    view v cfg th = [] ∨ ∃ call, view v cfg th = compile v cfg call := by
  unfold view Thread.current
  rw [h]
  split
  · rename_i c hc
    split at hc
    · cases hc
    · simp only at hc
      split at hc
      · cases hc
      · rename_i call _
        right; refine ⟨call, ?_⟩; cases hc; rfl
  · left; rfl

theorem fresh_disc (v : Variant) (cfg : Cfg) (th : Thread) (h : th.cur = none) : disc (view v cfg th) = true := by
  rcases view_fresh v cfg th h with e | ⟨call, e⟩ <;> rw [e]
  · rfl
  · exact compile_disc v cfg call

theorem fresh_holds (v : Variant) (cfg : Cfg) (th : Thread) (h : th.cur = none) : holds (view v cfg th) = false := by
  rcases view_fresh v cfg th h with e | ⟨call, e⟩ <;> rw [e]
  · rfl
  · exact compile_holds v cfg call

theorem fresh_headW2 (v : Variant) (cfg : Cfg) (th : Thread) (h : th.cur = none) : headW2 (view v cfg th) = false := by
  rcases view_fresh v cfg th h with e | ⟨call, e⟩ <;> rw [e]
  · rfl
  · exact compile_headW2 v cfg call

theorem current_not_halted {v : Variant} {cfg : Cfg} {th : Thread} {c : Cur}
    (h : th.current v cfg = some c) : th.halted = false := by
  unfold Thread.current at h
  split at h
  · cases h
  · rename_i hn; simpa using hn

/-- after a step the thread either stands inside the same call, or between two calls -/
theorem settle_cases (v : Variant) (cfg : Cfg) (th : Thread) (c' : Cur) (hh : th.halted = false) :
    (c'.rest ≠ [] ∧ view v cfg (settle th c') = c'.rest ∧ (settle th c').cur = some c') ∨
    (c'.rest = [] ∧ (settle th c').cur = none) := by
  unfold settle
  by_cases h : c'.rest = []
  · right; simp [h]
  · left
    simp only [h, if_false]
    refine ⟨h, ?_, trivial⟩
    simp [view, Thread.current, hh]

theorem view_settle_holds (v : Variant) (cfg : Cfg) (th : Thread) (c' : Cur) (hh : th.halted = false) :
    holds (view v cfg (settle th c')) = holds c'.rest := by
  rcases settle_cases v cfg th c' hh with ⟨_, e, _⟩ | ⟨e, hc⟩
  · rw [e]
  · rw [fresh_holds v cfg _ hc, e]; rfl

theorem view_settle_disc (v : Variant) (cfg : Cfg) (th : Thread) (c' : Cur) (hh : th.halted = false)
    (d : disc c'.rest = true) : disc (view v cfg (settle th c')) = true := by
  rcases settle_cases v cfg th c' hh with ⟨_, e, _⟩ | ⟨e, hc⟩
  · rw [e]; exact d
  · exact fresh_disc v cfg _ hc

theorem view_settle_headW2 (v : Variant) (cfg : Cfg) (th : Thread) (c' : Cur) (hh : th.halted = false) :
    headW2 (view v cfg (settle th c')) = headW2 c'.rest := by
  rcases settle_cases v cfg th c' hh with ⟨_, e, _⟩ | ⟨e, hc⟩
  · rw [e]
  · rw [fresh_headW2 v cfg _ hc, e]; rfl

theorem view_of_current {v : Variant} {cfg : Cfg} {th : Thread} {c : Cur}
    (h : th.current v cfg = some c) : view v cfg th = c.rest := by
  simp [view, h]

/-! ### the lock: discipline of every thread, one holder, who it is -/

structure LockInv (v : Variant) (cfg : Cfg) (s : State) : Prop where
  disc : ∀ t, disc (view v cfg (s.th t)) = true
  holder : ∀ t, holds (view v cfg (s.th t)) = true ↔ s.sh.lock = some t

theorem exec_lock (v : Variant) (t : Tid) (st : Step) (r : List Step) (sh : Shared) (c : Cur) :
    (exec v t st r sh c).1.lock =
      match st with
      | .acquire => some t
      | .release => none
      | _ => sh.lock := by
  cases st <;> simp only [exec] <;> (repeat' split) <;> rfl

theorem lockInv_init (v : Variant) (cfg : Cfg) (progs : Tid → List Call) : LockInv v cfg (init progs) := by
  constructor
  · intro t; exact fresh_disc v cfg _ rfl
  · intro t
    rw [fresh_holds v cfg _ rfl]
    simp [init]

theorem lockInv_step (v : Variant) (cfg : Cfg) (s : State) (t : Tid) (inv : LockInv v cfg s) :
    LockInv v cfg (step v cfg s t) := by
  rcases step_cases v cfg s t with e | ⟨c, st, r, hc, hr, hb, e⟩
  · rw [e]; exact inv
  · rw [e]
    have hh := current_not_halted hc
    have hv : view v cfg (s.th t) = st :: r := by rw [view_of_current hc, hr]
    have d : disc (st :: r) = true := hv ▸ inv.disc t
    have m := exec_moves v t st r s.sh c
    have hl := exec_lock v t st r s.sh c
    generalize exec v t st r s.sh c = p at m hl
    have hnew : holds (view v cfg (settle (s.th t) p.2)) = holdsAfter st r := by
      rw [view_settle_holds v cfg _ _ hh]; exact moves_holds m d
    have hold := inv.holder t
    rw [hv] at hold
    constructor
    · intro u
      by_cases hu : u = t
      · subst hu; rw [setTh_same]; exact view_settle_disc v cfg _ _ hh (moves_disc m d)
      · rw [setTh_other _ _ _ _ _ hu]; exact inv.disc u
    · intro u
      by_cases hu : u = t
      · subst hu
        rw [setTh_same, setTh_sh, hnew, hl]
        by_cases ha : st = .acquire
        · subst ha; simp [holdsAfter]
        · by_cases hrel : st = .release
          · subst hrel; simp [holdsAfter]
          · rw [holdsAfter_eq st r ha hrel, hold]
            cases st <;> simp_all
      · rw [setTh_other _ _ _ _ _ hu, setTh_sh, hl]
        have hou := inv.holder u
        by_cases ha : st = .acquire
        · subst ha
          -- the lock was free, so `u` did not hold it; now `t` has it
          have : s.sh.lock = none := by
            simp only [blockedOn, hr] at hb
            simpa using hb
          rw [this] at hou
          simp only [hou]
          constructor
          · intro h; cases h
          · intro h; exact absurd (Option.some.inj h).symm hu
        · by_cases hrel : st = .release
          · subst hrel
            -- `t` held the lock, so `u` did not
            have ht : s.sh.lock = some t := hold.mp (by simp [holds])
            rw [ht] at hou
            simp only [hou]
            constructor
            · intro h; exact absurd (Option.some.inj h).symm hu
            · intro h; cases h
          · rw [hou]; cases st <;> simp_all

theorem lockInv_run (v : Variant) (cfg : Cfg) (s : State) (sched : List Tid) (inv : LockInv v cfg s) :
    LockInv v cfg (run v cfg s sched) := by
  induction sched generalizing s with
  | nil => exact inv
  | cons t r ih => exact ih _ (lockInv_step v cfg s t inv)

/-! ### the wire: whole frames, plus at most the first half the lock holder is writing -/

theorem exec_wire (v : Variant) (t : Tid) (st : Step) (r : List Step) (sh : Shared) (c : Cur) :
    (exec v t st r sh c).1.wire =
      match st with
      | .write1 f => if sh.sockShut = true then sh.wire else sh.wire ++ [⟨t, c.idx, false, descOf f c⟩]
      | .write2 f => if sh.sockShut = true then sh.wire else sh.wire ++ [⟨t, c.idx, true, descOf f c⟩]
      | _ => sh.wire := by
  cases st <;> simp only [exec, failWrite] <;> (repeat' split) <;> rfl

/-- the socket, once shut, stays shut; only `sockClose` shuts it -/
theorem exec_shut (v : Variant) (t : Tid) (st : Step) (r : List Step) (sh : Shared) (c : Cur) :
    (exec v t st r sh c).1.sockShut = (sh.sockShut || decide (st = .sockClose)) := by
  cases st <;> simp only [exec, failWrite] <;> (repeat' split) <;> simp

/-- a write on a shut socket: TransportFail, nothing written, on to the release -/
theorem exec_write_shut (v : Variant) (t : Tid) (st : Step) (r : List Step) (sh : Shared) (c : Cur)
    (hw : isWrite st = true) (hs : sh.sockShut = true) :
    exec v t st r sh c = (sh, { c with rest := toRelease r, err := some .transport }) := by
  cases st <;> simp only [isWrite] at hw <;> (try cases hw) <;> simp [exec, failWrite, hs]

theorem exec_idx (v : Variant) (t : Tid) (st : Step) (r : List Step) (sh : Shared) (c : Cur) :
    (exec v t st r sh c).2.idx = c.idx := by
  cases st <;> simp only [exec, failWrite] <;> (repeat' split) <;> rfl

theorem exec_zout (v : Variant) (t : Tid) (st : Step) (r : List Step) (sh : Shared) (c : Cur)
    (h : st ≠ .flush) : (exec v t st r sh c).2.zout = c.zout := by
  cases st <;> simp only [exec, failWrite] <;> (repeat' split) <;> first | rfl | exact absurd rfl h

theorem descOf_congr (f : FrameSrc) (c c' : Cur) (h : c'.zout = c.zout) : descOf f c' = descOf f c := by
  simp [descOf, h]

theorem pairs_append (a b : List Chunk) : pairs (a ++ b) = pairs a ++ pairs b := by
  induction a with
  | nil => rfl
  | cons c r ih => simp [pairs, ih]

theorem frames_append (a b : List Chunk) : frames (a ++ b) = frames a ++ frames b := by
  simp [frames]

theorem current_settle (v : Variant) (cfg : Cfg) (th : Thread) (c' : Cur) (hh : th.halted = false)
    (hr : c'.rest ≠ []) : (settle th c').current v cfg = some c' := by
  simp [settle, hr, Thread.current, hh]

theorem headW2_of_rest {v : Variant} {cfg : Cfg} {th : Thread} {c : Cur} {f : FrameSrc} {r : List Step}
    (h : th.current v cfg = some c) (hr : c.rest = .write2 f :: r) : headW2 (view v cfg th) = true := by
  rw [view_of_current h, hr]; rfl

/-- a thread about to write a second half holds the lock -/
theorem headW2_holds {r : List Step} (d : disc r = true) (h : headW2 r = true) : holds r = true := by
  cases r with
  | nil => cases h
  | cons st r =>
    cases st <;> simp only [headW2] at h <;> try cases h
    simp only [disc, Bool.and_eq_true] at d
    simpa [holds] using d.1.2.1

structure WireInv (v : Variant) (cfg : Cfg) (s : State) : Prop where
  mid : ∀ t c f r, (s.th t).current v cfg = some c → c.rest = .write2 f :: r →
    s.sh.wire = pairs (frames s.sh.wire) ++ [⟨t, c.idx, false, descOf f c⟩]
  whole : (∀ t, headW2 (view v cfg (s.th t)) = false) → s.sh.wire = pairs (frames s.sh.wire)
  /-- the socket is shut under the write lock: nobody is in the middle of a frame when (and after) it happens -/
  shut : s.sh.sockShut = true → ∀ t, headW2 (view v cfg (s.th t)) = false

theorem wireInv_init (v : Variant) (cfg : Cfg) (progs : Tid → List Call) : WireInv v cfg (init progs) := by
  refine ⟨?_, fun _ => rfl, fun _ t => fresh_headW2 v cfg _ rfl⟩
  intro t c f r hc hr
  have := headW2_of_rest hc hr
  rw [fresh_headW2 v cfg _ rfl] at this; cases this

/-- only the lock holder can stand before a `write2` -/
theorem headW2_unique {v : Variant} {cfg : Cfg} {s : State} (L : LockInv v cfg s) {t u : Tid}
    (ht : holds (view v cfg (s.th t)) = true) (hu : headW2 (view v cfg (s.th u)) = true) : u = t := by
  have h1 := (L.holder t).mp ht
  have h2 := (L.holder u).mp (headW2_holds (L.disc u) hu)
  rw [h1] at h2; exact (Option.some.inj h2).symm

theorem disc_sockClose {r : List Step} (d : disc (.sockClose :: r) = true) : holds (Step.sockClose :: r) = true := by
  simp only [disc, Bool.and_eq_true] at d
  simpa [holds] using d.1.2

theorem wireInv_step (v : Variant) (cfg : Cfg) (s : State) (t : Tid) (L : LockInv v cfg s)
    (W : WireInv v cfg s) : WireInv v cfg (step v cfg s t) := by
  rcases step_cases v cfg s t with e | ⟨c, st, r, hc, hr, hb, e⟩
  · rw [e]; exact W
  · rw [e]
    have hh := current_not_halted hc
    have hv : view v cfg (s.th t) = st :: r := by rw [view_of_current hc, hr]
    have d : disc (st :: r) = true := hv ▸ L.disc t
    have m := exec_moves v t st r s.sh c
    have hw := exec_wire v t st r s.sh c
    have hi := exec_idx v t st r s.sh c
    have hz := exec_zout v t st r s.sh c
    have hsh := exec_shut v t st r s.sh c
    have hrs : isWrite st = true → s.sh.sockShut = true → (exec v t st r s.sh c).2.rest = toRelease r :=
      fun a b => by rw [exec_write_shut v t st r s.sh c a b]
    have hrn : ∀ f, st = .write1 f → s.sh.sockShut = false → (exec v t st r s.sh c).2.rest = r := by
      intro f hf hs; subst hf; simp [exec, hs]
    generalize exec v t st r s.sh c = p at m hw hi hz hsh hrs hrn
    have hview : headW2 (view v cfg (settle (s.th t) p.2)) = headW2 p.2.rest :=
      view_settle_headW2 v cfg _ _ hh
    -- other threads: unchanged, and none of them stands before a write2 when `t` holds the lock
    have other : ∀ u, u ≠ t → holds (st :: r) = true → headW2 (view v cfg (s.th u)) = false := by
      intro u hu hl
      cases hw2 : headW2 (view v cfg (s.th u)) with
      | false => rfl
      | true => exact absurd (headW2_unique L (hv ▸ hl) hw2) hu
    by_cases h1 : (∃ f, st = .write1 f) ∧ s.sh.sockShut = false
    · -- first half
      obtain ⟨⟨f, rfl⟩, hns⟩ := h1
      have hl : holds (Step.write1 f :: r) = true := by
        simp only [disc, Bool.and_eq_true] at d; simpa [holds] using d.1.2.1
      have hr2 : ∃ r2, r = .write2 f :: r2 := by
        simp only [disc, Bool.and_eq_true] at d
        have := d.1.2.2
        cases r with
        | nil => simp at this
        | cons a r2 => cases a <;> simp at this; subst this; exact ⟨r2, rfl⟩
      obtain ⟨r2, rfl⟩ := hr2
      have hrest : p.2.rest = .write2 f :: r2 := hrn f rfl hns
      have hbefore : s.sh.wire = pairs (frames s.sh.wire) := by
        apply W.whole
        intro u
        by_cases hu : u = t
        · subst hu; rw [hv]; rfl
        · exact other u hu hl
      simp only [hns, Bool.false_eq_true, if_false] at hw
      refine ⟨?_, ?_, ?_⟩
      · intro u cu g ru hcu hru
        by_cases hu : u = t
        · subst hu
          rw [setTh_same] at hcu
          rw [current_settle v cfg _ _ hh (by rw [hrest]; simp)] at hcu
          cases hcu
          rw [hrest] at hru
          cases hru
          rw [setTh_sh, hw, frames_append, hi, descOf_congr f c p.2 (hz (by simp))]
          have : frames [(⟨u, c.idx, false, descOf f c⟩ : Chunk)] = [] := rfl
          rw [this, List.append_nil, ← hbefore]
        · rw [setTh_other _ _ _ _ _ hu] at hcu
          have := other u hu hl
          rw [headW2_of_rest hcu hru] at this; cases this
      · intro hall
        have := hall t
        rw [setTh_same, hview, hrest] at this
        cases this
      · intro hs
        rw [setTh_sh, hsh, hns] at hs
        simp at hs
    · by_cases h2 : (∃ f, st = .write2 f) ∧ s.sh.sockShut = false
      · -- second half
        obtain ⟨⟨f, rfl⟩, hns⟩ := h2
        have hl : holds (Step.write2 f :: r) = true := by
          simp only [disc, Bool.and_eq_true] at d; simpa [holds] using d.1.2.1
        have hmid := W.mid t c f r hc hr
        have hnot : headW2 p.2.rest = false := by
          cases hw2 : headW2 p.2.rest with
          | false => rfl
          | true =>
            obtain ⟨g, hg, _⟩ := moves_headW2 m d hw2
            cases hg
        simp only [hns, Bool.false_eq_true, if_false] at hw
        have hnew : p.1.wire = pairs (frames p.1.wire) := by
          rw [hw, frames_append]
          have : frames [(⟨t, c.idx, true, descOf f c⟩ : Chunk)] = [⟨t, c.idx, true, descOf f c⟩] := rfl
          rw [this, pairs_append]
          conv => lhs; rw [hmid]
          simp [pairs]
        refine ⟨?_, fun _ => hnew, ?_⟩
        · intro u cu g ru hcu hru
          by_cases hu : u = t
          · subst hu
            rw [setTh_same] at hcu
            have := headW2_of_rest hcu hru
            rw [hview, hnot] at this; cases this
          · rw [setTh_other _ _ _ _ _ hu] at hcu
            have := other u hu hl
            rw [headW2_of_rest hcu hru] at this; cases this
        · intro hs
          rw [setTh_sh, hsh, hns] at hs
          simp at hs
      · -- any other step (a write on a shut socket included) leaves the wire alone, and `t` is not before a
        -- write2 afterwards
        have hshut_of_write : isWrite st = true → s.sh.sockShut = true := by
          intro hwst
          cases hsx : s.sh.sockShut with
          | true => rfl
          | false =>
            cases st <;> simp only [isWrite] at hwst <;> try cases hwst
            · exact absurd ⟨⟨_, rfl⟩, hsx⟩ h1
            · exact absurd ⟨⟨_, rfl⟩, hsx⟩ h2
        have hw' : p.1.wire = s.sh.wire := by
          rw [hw]
          cases st <;> first
            | rfl
            | (have := hshut_of_write rfl; simp [this])
        have hnot : headW2 p.2.rest = false := by
          cases hw2 : headW2 p.2.rest with
          | false => rfl
          | true =>
            obtain ⟨g, hg, _⟩ := moves_headW2 m d hw2
            subst hg
            rw [hrs rfl (hshut_of_write rfl), headW2_toRelease] at hw2; cases hw2
        have hbefore : headW2 (view v cfg (s.th t)) = false := by
          cases hx : headW2 (view v cfg (s.th t)) with
          | false => rfl
          | true =>
            have hwst : isWrite st = true := by
              rw [hv] at hx; cases st <;> first | rfl | cases hx
            rw [W.shut (hshut_of_write hwst) t] at hx; cases hx
        refine ⟨?_, ?_, ?_⟩
        · intro u cu g ru hcu hru
          by_cases hu : u = t
          · subst hu
            rw [setTh_same] at hcu
            have := headW2_of_rest hcu hru
            rw [hview, hnot] at this; cases this
          · rw [setTh_other _ _ _ _ _ hu] at hcu
            rw [setTh_sh, hw']
            exact W.mid u cu g ru hcu hru
        · intro hall
          rw [setTh_sh, hw']
          apply W.whole
          intro u
          by_cases hu : u = t
          · subst hu; exact hbefore
          · have := hall u
            rwa [setTh_other _ _ _ _ _ hu] at this
        · intro hs u
          rw [setTh_sh, hsh] at hs
          by_cases hu : u = t
          · subst hu; rw [setTh_same, hview]; exact hnot
          · rw [setTh_other _ _ _ _ _ hu]
            cases hsx : s.sh.sockShut with
            | true => exact W.shut hsx u
            | false =>
              rw [hsx] at hs
              have : st = .sockClose := by simpa using hs
              subst this
              exact other u hu (disc_sockClose d)

/-- both invariants together along a run -/
theorem inv_run (v : Variant) (cfg : Cfg) (s : State) (sched : List Tid)
    (L : LockInv v cfg s) (W : WireInv v cfg s) :
    LockInv v cfg (run v cfg s sched) ∧ WireInv v cfg (run v cfg s sched) := by
  induction sched generalizing s with
  | nil => exact ⟨L, W⟩
  | cons t r ih => exact ih _ (lockInv_step v cfg s t L) (wireInv_step v cfg s t L W)

/-! ### which calls are on the wire: exactly those that wrote, once each, in call order -/

/-- call indices of the frames of thread `t` on the wire, in wire order -/
def idxs (w : List Chunk) (t : Tid) : List Nat := ((frames w).filter (fun c => c.tid = t)).map (·.idx)

/-- call `i` of the thread has written its frame -/
def wroteAt (th : Thread) (i : Nat) : Prop :=
  (∃ r, th.results[i]? = some r ∧ r.wrote = true) ∨ (∃ c, th.cur = some c ∧ c.idx = i ∧ c.wrote = true)

/-- the same, for a thread whose call in progress is `c` -/
def wroteNow (th : Thread) (c : Cur) (i : Nat) : Prop :=
  (∃ r, th.results[i]? = some r ∧ r.wrote = true) ∨ (c.idx = i ∧ c.wrote = true)

theorem noWrite_suffix {r r' : List Step} (h : r' <:+ r) (n : noWrite r = true) : noWrite r' = true := by
  obtain ⟨p, rfl⟩ := h
  simp only [noWrite, List.all_append, Bool.and_eq_true] at n
  exact n.2

theorem moves_noWrite {v : Variant} {st : Step} {r r' : List Step} (m : Moves v st r r')
    (n : noWrite r = true) : noWrite r' = true := by
  rcases moves_eq m with h | ⟨_, h⟩ | ⟨_, h⟩ | ⟨a, _, h⟩ <;> subst h
  · exact n
  · exact noWrite_suffix (afterClose_suffix r) n
  · exact noWrite_suffix (toRelease_suffix r) n
  · exact alt_noWrite v a

/-- the call in progress is the stored one, or a fresh one -/
theorem current_cases {v : Variant} {cfg : Cfg} {th : Thread} {c : Cur} (h : th.current v cfg = some c) :
    th.cur = some c ∨
    (th.cur = none ∧ ∃ call, th.prog[th.pc]? = some call ∧
      c = { idx := th.pc, rest := compile v cfg call }) := by
  unfold Thread.current at h
  split at h
  · cases h
  · cases hcur : th.cur with
    | some c2 => rw [hcur] at h; simp only at h; left; exact h
    | none =>
      rw [hcur] at h
      simp only at h
      cases hp : th.prog[th.pc]? with
      | none => rw [hp] at h; cases h
      | some call =>
        rw [hp] at h
        right
        exact ⟨rfl, call, rfl, (Option.some.inj h).symm⟩

def isW2 : Step → Bool
  | .write2 _ => true
  | _ => false

theorem exec_wrote (v : Variant) (t : Tid) (st : Step) (r : List Step) (sh : Shared) (c : Cur) :
    (exec v t st r sh c).2.wrote = ((isW2 st && !sh.sockShut) || c.wrote) := by
  cases st <;> simp only [exec, failWrite] <;> (repeat' split) <;> simp_all [isW2]

theorem exec_w2 (v : Variant) (t : Tid) (f : FrameSrc) (r : List Step) (sh : Shared) (c : Cur)
    (hs : sh.sockShut = false) :
    (exec v t (.write2 f) r sh c).1.wire = sh.wire ++ [⟨t, c.idx, true, descOf f c⟩] ∧
    (exec v t (.write2 f) r sh c).2.wrote = true := by
  simp [exec, hs]

structure MsgInv (v : Variant) (cfg : Cfg) (s : State) : Prop where
  len : ∀ t, (s.th t).results.length = (s.th t).pc
  cur : ∀ t c, (s.th t).cur = some c → c.idx = (s.th t).pc ∧ (c.wrote = true → noWrite c.rest = true)
  sorted : ∀ t, (idxs s.sh.wire t).Pairwise (· < ·)
  mem : ∀ t i, i ∈ idxs s.sh.wire t ↔ wroteAt (s.th t) i

theorem msgInv_init (v : Variant) (cfg : Cfg) (progs : Tid → List Call) : MsgInv v cfg (init progs) := by
  constructor
  · intro t; rfl
  · intro t c h; cases h
  · intro t; simp [init, idxs, frames]
  · intro t i
    simp [init, idxs, frames, wroteAt]

theorem wroteAt_settle (th : Thread) (c' : Cur) (hl : th.results.length = th.pc) (hi : c'.idx = th.pc) (i : Nat) :
    wroteAt (settle th c') i ↔ wroteNow th c' i := by
  unfold settle wroteAt wroteNow
  by_cases h : c'.rest = []
  · simp only [h, if_true]
    constructor
    · rintro (⟨r, hr, hw⟩ | ⟨c, hc, _⟩)
      · rw [List.getElem?_append] at hr
        split at hr
        · exact Or.inl ⟨r, hr, hw⟩
        · rename_i hge
          right
          have : i - th.results.length = 0 := by
            cases hk : i - th.results.length with
            | zero => rfl
            | succ k => rw [hk] at hr; simp at hr
          rw [this] at hr
          simp at hr
          subst hr
          simp only at hw
          exact ⟨by omega, hw⟩
      · cases hc
    · rintro (⟨r, hr, hw⟩ | ⟨hidx, hw⟩)
      · left
        refine ⟨r, ?_, hw⟩
        have : i < th.results.length := by
          rcases Nat.lt_or_ge i th.results.length with h1 | h1
          · exact h1
          · rw [List.getElem?_eq_none h1] at hr; cases hr
        rw [List.getElem?_append_left this]; exact hr
      · left
        refine ⟨⟨c'.wrote, c'.err, c'.halt⟩, ?_, hw⟩
        rw [List.getElem?_append_right (by omega)]
        have : i - th.results.length = 0 := by omega
        rw [this]; rfl
  · simp only [h, if_false]
    constructor
    · rintro (⟨r, hr, hw⟩ | ⟨c, hc, h1, h2⟩)
      · exact Or.inl ⟨r, hr, hw⟩
      · cases hc; exact Or.inr ⟨h1, h2⟩
    · rintro (⟨r, hr, hw⟩ | ⟨h1, h2⟩)
      · exact Or.inl ⟨r, hr, hw⟩
      · exact Or.inr ⟨c', rfl, h1, h2⟩

theorem wroteAt_current {v : Variant} {cfg : Cfg} {th : Thread} {c : Cur} (h : th.current v cfg = some c) (i : Nat) :
    wroteAt th i ↔ wroteNow th c i := by
  unfold wroteAt wroteNow
  rcases current_cases h with hc | ⟨hc, call, _, rfl⟩
  · constructor
    · rintro (h1 | ⟨c2, hc2, h1, h2⟩)
      · exact Or.inl h1
      · rw [hc] at hc2; cases hc2; exact Or.inr ⟨h1, h2⟩
    · rintro (h1 | ⟨h1, h2⟩)
      · exact Or.inl h1
      · exact Or.inr ⟨c, hc, h1, h2⟩
  · constructor
    · rintro (h1 | ⟨c2, hc2, _⟩)
      · exact Or.inl h1
      · rw [hc] at hc2; cases hc2
    · rintro (h1 | ⟨_, h2⟩)
      · exact Or.inl h1
      · cases h2

theorem idxs_append_other (w : List Chunk) (x : Chunk) (u : Tid) (h : x.tid ≠ u ∨ x.second = false) :
    idxs (w ++ [x]) u = idxs w u := by
  unfold idxs
  rw [frames_append]
  rcases h with h | h
  · simp [frames, List.filter_append, h]
  · simp [frames, h]

theorem idxs_append_same (w : List Chunk) (x : Chunk) (h : x.second = true) :
    idxs (w ++ [x]) x.tid = idxs w x.tid ++ [x.idx] := by
  unfold idxs
  rw [frames_append]
  simp [frames, h, List.filter_append]

theorem exec_not_w2 (v : Variant) (t : Tid) (st : Step) (r : List Step) (sh : Shared) (c : Cur)
    (h : (isW2 st && !sh.sockShut) = false) :
    (∀ u, idxs (exec v t st r sh c).1.wire u = idxs sh.wire u) ∧ (exec v t st r sh c).2.wrote = c.wrote := by
  cases st with
  | write2 f =>
    have hs : sh.sockShut = true := by simpa [isW2] using h
    simp [exec, failWrite, hs]
  | write1 f =>
    cases hs : sh.sockShut with
    | true => simp [exec, failWrite, hs]
    | false =>
      refine ⟨fun u => ?_, by simp [exec, hs]⟩
      have : (exec v t (.write1 f) r sh c).1.wire = sh.wire ++ [⟨t, c.idx, false, descOf f c⟩] := by simp [exec, hs]
      rw [this]; exact idxs_append_other _ _ u (Or.inr rfl)
  | _ => refine ⟨fun u => ?_, ?_⟩ <;> simp only [exec] <;> (repeat' split) <;> rfl

theorem msgInv_step (v : Variant) (cfg : Cfg) (s : State) (t : Tid) (L : LockInv v cfg s)
    (M : MsgInv v cfg s) : MsgInv v cfg (step v cfg s t) := by
  rcases step_cases v cfg s t with e | ⟨c, st, r, hc, hr, hb, e⟩
  · rw [e]; exact M
  · rw [e]
    have hh := current_not_halted hc
    have hv : view v cfg (s.th t) = st :: r := by rw [view_of_current hc, hr]
    have d : disc (st :: r) = true := hv ▸ L.disc t
    have m := exec_moves v t st r s.sh c
    have hi := exec_idx v t st r s.sh c
    -- facts about the call in progress before the step
    have hcidx : c.idx = (s.th t).pc ∧ (c.wrote = true → noWrite c.rest = true) := by
      rcases current_cases hc with h | ⟨_, call, _, rfl⟩
      · exact M.cur t c h
      · exact ⟨rfl, fun h => by cases h⟩
    have hlen := M.len t
    have hbase : ∀ i, i ∈ idxs s.sh.wire t ↔ wroteNow (s.th t) c i :=
      fun i => (M.mem t i).trans (wroteAt_current hc i)
    -- everything that does not concern `t` or the wire
    have hlen' : ∀ p : Shared × Cur, ∀ u, ((setTh s t (settle (s.th t) p.2) p.1).th u).results.length =
        ((setTh s t (settle (s.th t) p.2) p.1).th u).pc := by
      intro p u
      by_cases hu : u = t
      · subst hu
        rw [setTh_same]
        unfold settle
        split
        · simp [hlen]
        · exact hlen
      · rw [setTh_other _ _ _ _ _ hu]; exact M.len u
    cases hw2 : (isW2 st && !s.sh.sockShut) with
    | true =>
      obtain ⟨f, rfl⟩ : ∃ f, st = .write2 f := by
        cases st <;> first | exact ⟨_, rfl⟩ | (simp [isW2] at hw2)
      have hns : s.sh.sockShut = false := by simpa [isW2] using hw2
      obtain ⟨hw, hwr⟩ := exec_w2 v t f r s.sh c hns
      generalize exec v t (.write2 f) r s.sh c = p at m hi hw hwr
      have hpi : p.2.idx = (s.th t).pc := by rw [hi]; exact hcidx.1
      have hnw : noWrite r = true := by
        simp only [disc, Bool.and_eq_true] at d; exact d.1.2.2
      have hidx_t : idxs p.1.wire t = idxs s.sh.wire t ++ [c.idx] := by
        rw [hw]; exact idxs_append_same _ ⟨t, c.idx, true, _⟩ rfl
      have hidx_u : ∀ u, u ≠ t → idxs p.1.wire u = idxs s.sh.wire u := by
        intro u hu; rw [hw]; exact idxs_append_other _ _ _ (Or.inl (Ne.symm hu))
      have hnotyet : c.wrote = false := by
        cases hcw : c.wrote with
        | false => rfl
        | true =>
          have := hcidx.2 hcw
          rw [hr] at this
          simp [noWrite, isWrite] at this
      refine ⟨hlen' p, ?_, ?_, ?_⟩
      · intro u cu hcu
        by_cases hu : u = t
        · subst hu
          rw [setTh_same] at hcu ⊢
          rcases settle_cases v cfg (s.th u) p.2 hh with ⟨hne, _, hs⟩ | ⟨_, hs⟩
          · rw [hs] at hcu; cases hcu
            have hpc : (settle (s.th u) p.2).pc = (s.th u).pc := by simp [settle, hne]
            exact ⟨by rw [hpc]; exact hpi, fun _ => moves_noWrite m hnw⟩
          · rw [hs] at hcu; cases hcu
        · rw [setTh_other _ _ _ _ _ hu] at hcu ⊢; exact M.cur u cu hcu
      · intro u
        rw [setTh_sh]
        by_cases hu : u = t
        · subst hu
          rw [hidx_t, List.pairwise_append]
          refine ⟨M.sorted u, by simp, ?_⟩
          intro j hj k hk
          simp only [List.mem_singleton] at hk; subst hk
          rcases (hbase j).mp hj with ⟨rr, hrr, _⟩ | ⟨_, hwt⟩
          · have : j < (s.th u).results.length := by
              rcases Nat.lt_or_ge j (s.th u).results.length with h1 | h1
              · exact h1
              · rw [List.getElem?_eq_none h1] at hrr; cases hrr
            omega
          · rw [hnotyet] at hwt; cases hwt
        · rw [hidx_u u hu]; exact M.sorted u
      · intro u i
        rw [setTh_sh]
        by_cases hu : u = t
        · subst hu
          rw [setTh_same, wroteAt_settle _ _ hlen hpi, hidx_t]
          unfold wroteNow
          rw [hi, hwr]
          simp only [List.mem_append, List.mem_singleton, hbase i]
          unfold wroteNow
          constructor
          · rintro ((h | ⟨h, _⟩) | h)
            · exact Or.inl h
            · exact Or.inr ⟨h, trivial⟩
            · exact Or.inr ⟨h.symm, trivial⟩
          · rintro (h | ⟨h, _⟩)
            · exact Or.inl (Or.inl h)
            · exact Or.inr h.symm
        · rw [setTh_other _ _ _ _ _ hu, hidx_u u hu]; exact M.mem u i
    | false =>
      obtain ⟨hidx, hwr⟩ := exec_not_w2 v t st r s.sh c hw2
      generalize exec v t st r s.sh c = p at m hi hidx hwr
      have hpi : p.2.idx = (s.th t).pc := by rw [hi]; exact hcidx.1
      refine ⟨hlen' p, ?_, ?_, ?_⟩
      · intro u cu hcu
        by_cases hu : u = t
        · subst hu
          rw [setTh_same] at hcu ⊢
          rcases settle_cases v cfg (s.th u) p.2 hh with ⟨hne, _, hs⟩ | ⟨_, hs⟩
          · rw [hs] at hcu; cases hcu
            have hpc : (settle (s.th u) p.2).pc = (s.th u).pc := by simp [settle, hne]
            refine ⟨by rw [hpc]; exact hpi, ?_⟩
            intro hwt
            rw [hwr] at hwt
            have := hcidx.2 hwt
            rw [hr] at this
            simp only [noWrite, List.all_cons, Bool.and_eq_true] at this
            exact moves_noWrite m this.2
          · rw [hs] at hcu; cases hcu
        · rw [setTh_other _ _ _ _ _ hu] at hcu ⊢; exact M.cur u cu hcu
      · intro u
        rw [setTh_sh, hidx u]; exact M.sorted u
      · intro u i
        rw [setTh_sh, hidx u]
        by_cases hu : u = t
        · subst hu
          rw [setTh_same, wroteAt_settle _ _ hlen hpi, hbase i]
          unfold wroteNow
          rw [hi, hwr]
        · rw [setTh_other _ _ _ _ _ hu]; exact M.mem u i

/-! ### what is on the wire belongs to a call; a send either writes or fails -/

/-- where the payload of a call's frame comes from -/
def Call.src (cfg : Cfg) : Call → PaySrc
  | .sendText p c => if c = true ∧ cfg.deflate = true then .zreg else .lit p
  | .sendBinary p c => if c = true ∧ cfg.deflate = true then .zreg else .lit p
  | .sendPing d => .lit d
  | .sendPong d => .lit d
  | .close code r => .lit (buildClosePayload code r)
  | .onPing d => .lit d
  | .onClose code r => .lit (buildClosePayload code r)
  | .autoPing => .lit []
  | .onData _ => .lit []
  | .onData2 _ _ => .lit []
  | .connect => .lit []
  | .abandon => .lit []

def Call.frame (cfg : Cfg) (call : Call) : FrameSrc := ⟨call.op, call.src cfg⟩

/-- the application's send methods (a WebSocketError reaches the caller) -/
def Call.isSend : Call → Bool
  | .sendText _ _ => true
  | .sendBinary _ _ => true
  | .sendPing _ => true
  | .sendPong _ => true
  | _ => false

/-- every write of the program is the call's frame, every `compress()` gets the call's message -/
def srcOk (f0 : FrameSrc) (m : Bytes) (r : List Step) : Bool :=
  r.all fun st =>
    match st with
    | .write1 f => f = f0
    | .write2 f => f = f0
    | .compress d => d = m
    | _ => true

def isJump : Step → Bool
  | .retIfClosed => true
  | .retIfClosing => true
  | .brIfClosing _ => true
  | .brIfErr _ => true
  | _ => false

def noJump (r : List Step) : Bool := r.all (fun s => !isJump s)
def hasW2 (r : List Step) : Bool := r.any isW2

theorem src_lit (cfg : Cfg) (call : Call) (b : Bytes) (h : call.src cfg = .lit b) : b = call.msg := by
  cases call <;> simp only [Call.src, Call.msg] at h ⊢ <;> (try split at h) <;> first | cases h; rfl | cases h

/-- a frame description fits a call: its opcode, and its message when it is not compressed -/
def descFor (cfg : Cfg) (call : Call) (d : FrameDesc) : Prop :=
  d.op = call.op ∧
    match d.pay with
    | .plain b => b = call.msg
    | .deflated _ _ => call.src cfg = .zreg

theorem descFor_descOf (cfg : Cfg) (call : Call) (c : Cur) : descFor cfg call (descOf (call.frame cfg) c) := by
  unfold descOf Call.frame
  cases hs : call.src cfg with
  | lit b => exact ⟨rfl, src_lit cfg call b hs⟩
  | zreg =>
    simp only
    split <;> exact ⟨rfl, hs⟩

theorem compile_srcOk (v : Variant) (cfg : Cfg) (call : Call) :
    srcOk (call.frame cfg) call.msg (compile v cfg call) = true := by
  cases call <;>
    simp only [compile, sendData, closeBody, writeProg, checks, Call.frame, Call.src, Call.op, Call.msg] <;>
    (repeat' split) <;> simp_all [srcOk]

theorem compile_send (v : Variant) (cfg : Cfg) (call : Call) (h : call.isSend = true) :
    noJump (compile v cfg call) = true ∧ hasW2 (compile v cfg call) = true := by
  cases call <;> simp only [Call.isSend] at h <;> try cases h
  all_goals
    simp only [compile, sendData, writeProg, checks]
    (repeat' split) <;> simp [noJump, hasW2, isJump, isW2]

theorem alt_srcOk (v : Variant) (a : Alt) (f0 : FrameSrc) (m : Bytes) : srcOk f0 m (altSteps v a) = true := by
  cases a <;> simp only [altSteps, closeSocketProg] <;> (try split) <;> simp [srcOk]

theorem all_suffix {p : Step → Bool} {r r' : List Step} (h : r' <:+ r) (n : r.all p = true) : r'.all p = true := by
  obtain ⟨q, rfl⟩ := h
  simp only [List.all_append, Bool.and_eq_true] at n
  exact n.2

theorem moves_srcOk {v : Variant} {st : Step} {r r' : List Step} (m : Moves v st r r') (f0 : FrameSrc) (b : Bytes)
    (n : srcOk f0 b r = true) : srcOk f0 b r' = true := by
  rcases moves_eq m with h | ⟨_, h⟩ | ⟨_, h⟩ | ⟨a, _, h⟩ <;> subst h
  · exact n
  · exact all_suffix (afterClose_suffix r) n
  · exact all_suffix (toRelease_suffix r) n
  · exact alt_srcOk v a f0 b

theorem noWrite_toRelease (r : List Step) (d : disc r = true) : noWrite (toRelease r) = true := by
  induction r with
  | nil => rfl
  | cons s r ih =>
    have dt := disc_tail d
    cases s <;> simp only [toRelease] <;> try exact ih dt
    simp only [disc, Bool.and_eq_true] at d
    simp [noWrite, isWrite] at d ⊢
    exact d.1.2.2

/-- either the step is not a failing check / a write on a shut socket (the error register is unchanged and,
    unless the step is an early return / branch, the thread moves to the next step), or it is one (the
    register is set, nothing is written and the thread continues at the release) -/
theorem exec_err (v : Variant) (t : Tid) (st : Step) (r : List Step) (sh : Shared) (c : Cur) :
    ((exec v t st r sh c).2.err = c.err ∧ ((exec v t st r sh c).2.rest = r ∨ isJump st = true) ∧
      (exec v t st r sh c).2.wrote = (isW2 st || c.wrote)) ∨
    ((exec v t st r sh c).2.err ≠ none ∧ (inOnly st = true ∨ isWrite st = true) ∧
      (exec v t st r sh c).2.rest = toRelease r ∧ (exec v t st r sh c).2.wrote = c.wrote) := by
  cases st <;> simp only [exec, failWrite] <;> (repeat' split) <;> simp [isJump, inOnly, isWrite, isW2]

/-- per-thread facts about the call in progress -/
def CurOk (cfg : Cfg) (th : Thread) (c : Cur) : Prop :=
  ∃ call, th.prog[c.idx]? = some call ∧
    srcOk (call.frame cfg) call.msg c.rest = true ∧
    (call.isSend = true → noJump c.rest = true ∧ (c.err = none → c.wrote = false → hasW2 c.rest = true)) ∧
    (c.err ≠ none → c.wrote = false ∧ noWrite c.rest = true)

structure CallInv (v : Variant) (cfg : Cfg) (s : State) : Prop where
  cur : ∀ t c, (s.th t).current v cfg = some c → CurOk cfg (s.th t) c
  wire : ∀ ch ∈ s.sh.wire, ∃ call, (s.th ch.tid).prog[ch.idx]? = some call ∧ descFor cfg call ch.desc
  res : ∀ (t : Tid) (i : Nat) (r : Result), (s.th t).results[i]? = some r → ∃ call : Call, (s.th t).prog[i]? = some call ∧
    (r.err ≠ none → r.wrote = false) ∧ (call.isSend = true → r.err = none → r.wrote = true)

theorem curOk_fresh (v : Variant) (cfg : Cfg) (th : Thread) (c : Cur) (call : Call)
    (hp : th.prog[th.pc]? = some call) (hc : c = { idx := th.pc, rest := compile v cfg call }) :
    CurOk cfg th c := by
  subst hc
  refine ⟨call, hp, compile_srcOk v cfg call, ?_, ?_⟩
  · intro hs
    exact ⟨(compile_send v cfg call hs).1, fun _ _ => (compile_send v cfg call hs).2⟩
  · intro h; exact absurd rfl h

theorem callInv_init (v : Variant) (cfg : Cfg) (progs : Tid → List Call) : CallInv v cfg (init progs) := by
  constructor
  · intro t c hc
    rcases current_cases hc with h | ⟨_, call, hp, hcc⟩
    · cases h
    · exact curOk_fresh v cfg _ c call hp hcc
  · intro ch h; cases h
  · intro t i r h; simp [init] at h

theorem settle_prog (th : Thread) (c' : Cur) : (settle th c').prog = th.prog := by
  unfold settle; split <;> rfl

theorem callInv_step (v : Variant) (cfg : Cfg) (s : State) (t : Tid) (L : LockInv v cfg s)
    (M : MsgInv v cfg s) (C : CallInv v cfg s) : CallInv v cfg (step v cfg s t) := by
  rcases step_cases v cfg s t with e | ⟨c, st, r, hc, hr, hb, e⟩
  · rw [e]; exact C
  · rw [e]
    have hh := current_not_halted hc
    have hv : view v cfg (s.th t) = st :: r := by rw [view_of_current hc, hr]
    have d : disc (st :: r) = true := hv ▸ L.disc t
    have m := exec_moves v t st r s.sh c
    have hi := exec_idx v t st r s.sh c
    have hw := exec_wire v t st r s.sh c
    have herr := exec_err v t st r s.sh c
    have hcidx : c.idx = (s.th t).pc ∧ (c.wrote = true → noWrite c.rest = true) := by
      rcases current_cases hc with h | ⟨_, call, _, rfl⟩
      · exact M.cur t c h
      · exact ⟨rfl, fun h => by cases h⟩
    obtain ⟨call, hcall, hsrc, hsend, herrc⟩ := C.cur t c hc
    rw [hr] at hsrc hsend herrc
    generalize exec v t st r s.sh c = p at m hi hw herr
    have hpi : p.2.idx = (s.th t).pc := by rw [hi]; exact hcidx.1
    -- the call in progress after the step still satisfies its facts
    have hsrc_t : srcOk (call.frame cfg) call.msg r = true := by
      simp only [srcOk, List.all_cons, Bool.and_eq_true] at hsrc; exact hsrc.2
    have hcur' : CurOk cfg (s.th t) p.2 := by
      refine ⟨call, by rw [hi]; exact hcall, moves_srcOk m _ _ hsrc_t, ?_, ?_⟩
      · intro hs
        obtain ⟨hnj, hw2⟩ := hsend hs
        simp only [noJump, List.all_cons, Bool.and_eq_true] at hnj
        have hnotjump : isJump st = false := by simpa using hnj.1
        rcases herr with ⟨he, hrest, hwr⟩ | ⟨he, _, hrest, _⟩
        · have hrest' : p.2.rest = r := by
            rcases hrest with h | h
            · exact h
            · rw [hnotjump] at h; cases h
          refine ⟨by rw [hrest']; exact hnj.2, ?_⟩
          intro h1 h2
          rw [he] at h1
          rw [hwr] at h2
          simp only [Bool.or_eq_false_iff] at h2
          have hnw2 : isW2 st = false := h2.1
          have hcw : c.wrote = false := h2.2
          have := hw2 h1 hcw
          simp only [hasW2, List.any_cons, hnw2, Bool.false_or] at this
          rw [hrest']; exact this
        · refine ⟨by rw [hrest]; exact all_suffix (toRelease_suffix r) hnj.2, ?_⟩
          intro h1; exact absurd h1 he
      · intro hne
        rcases herr with ⟨he, _, hwr⟩ | ⟨_, hin, hrest, hwr⟩
        · rw [he] at hne
          obtain ⟨h1, h2⟩ := herrc hne
          simp only [noWrite, List.all_cons, Bool.and_eq_true] at h2
          have hnw2 : isW2 st = false := by
            cases st <;> first | rfl | simp [isWrite] at h2
          refine ⟨?_, moves_noWrite m h2.2⟩
          rw [hwr, hnw2, h1]; rfl
        · have hcw : c.wrote = false := by
            cases hcw : c.wrote with
            | false => rfl
            | true =>
              have := hcidx.2 hcw
              rw [hr] at this
              simp only [noWrite, List.all_cons, Bool.and_eq_true] at this
              rcases hin with hin | hin
              · have hnw : noWrite r = false := by
                  cases st <;> simp only [inOnly] at hin <;> try cases hin
                  all_goals
                    simp only [disc, outOnly, inOnly, Bool.and_eq_true] at d
                    have := d.1.2
                    simp at this
                    exact this.2
                have h2 := this.2
                simp only [noWrite] at hnw
                rw [hnw] at h2; cases h2
              · have h1 := this.1
                rw [hin] at h1; cases h1
          exact ⟨by rw [hwr, hcw], by rw [hrest]; exact noWrite_toRelease r (disc_tail d)⟩
    constructor
    · intro u cu hcu
      by_cases hu : u = t
      · subst hu
        rw [setTh_same] at hcu ⊢
        rcases settle_cases v cfg (s.th u) p.2 hh with ⟨hne, _, hs⟩ | ⟨_, hs⟩
        · rw [current_settle v cfg _ _ hh hne] at hcu
          cases hcu
          obtain ⟨call2, h1, h2⟩ := hcur'
          exact ⟨call2, by rw [settle_prog]; exact h1, h2⟩
        · rcases current_cases hcu with h | ⟨_, call2, hp, hcc⟩
          · rw [hs] at h; cases h
          · exact curOk_fresh v cfg _ cu call2 hp hcc
      · rw [setTh_other _ _ _ _ _ hu] at hcu ⊢; exact C.cur u cu hcu
    · intro ch hch
      rw [setTh_sh] at hch
      have hprog : ∀ u, ((setTh s t (settle (s.th t) p.2) p.1).th u).prog = (s.th u).prog := by
        intro u
        by_cases hu : u = t
        · subst hu; rw [setTh_same, settle_prog]
        · rw [setTh_other _ _ _ _ _ hu]
      rw [hprog]
      have hnew : ∀ f, (st = .write1 f ∨ st = .write2 f) → descFor cfg call (descOf f c) := by
        intro f hf
        have : f = call.frame cfg := by
          simp only [srcOk, List.all_cons, Bool.and_eq_true] at hsrc
          rcases hf with h | h <;> subst h <;> simpa using hsrc.1
        subst this
        exact descFor_descOf cfg call c
      rw [hw] at hch
      cases st with
      | write1 f =>
        simp only at hch
        split at hch
        · exact C.wire ch hch
        · simp only [List.mem_append, List.mem_singleton] at hch
          rcases hch with h | h
          · exact C.wire ch h
          · subst h; exact ⟨call, hcall, hnew f (Or.inl rfl)⟩
      | write2 f =>
        simp only at hch
        split at hch
        · exact C.wire ch hch
        · simp only [List.mem_append, List.mem_singleton] at hch
          rcases hch with h | h
          · exact C.wire ch h
          · subst h; exact ⟨call, hcall, hnew f (Or.inr rfl)⟩
      | _ => exact C.wire ch hch
    · intro u i rr hrr
      by_cases hu : u = t
      · subst hu
        rw [setTh_same] at hrr ⊢
        rw [settle_prog]
        unfold settle at hrr
        split at hrr
        · rename_i hfin
          simp only at hrr
          rw [List.getElem?_append] at hrr
          split at hrr
          · exact C.res u i rr hrr
          · rename_i hge
            have hi0 : i - (s.th u).results.length = 0 := by
              cases hk : i - (s.th u).results.length with
              | zero => rfl
              | succ k => rw [hk] at hrr; simp at hrr
            rw [hi0] at hrr
            simp at hrr
            subst hrr
            have hieq : i = p.2.idx := by have := M.len u; omega
            obtain ⟨call2, h1, _, h3, h4⟩ := hcur'
            refine ⟨call2, by rw [hieq]; exact h1, ?_, ?_⟩
            · intro hne; exact (h4 hne).1
            · intro hs he
              simp only at he ⊢
              cases hcw : p.2.wrote with
              | true => rfl
              | false =>
                have := (h3 hs).2 he hcw
                rw [hfin] at this; cases this
        · exact C.res u i rr hrr
      · rw [setTh_other _ _ _ _ _ hu] at hrr ⊢; exact C.res u i rr hrr

/-! ### all four base invariants along a run -/

structure Base (v : Variant) (cfg : Cfg) (s : State) : Prop where
  L : LockInv v cfg s
  W : WireInv v cfg s
  M : MsgInv v cfg s
  C : CallInv v cfg s

theorem base_init (v : Variant) (cfg : Cfg) (progs : Tid → List Call) : Base v cfg (init progs) :=
  ⟨lockInv_init v cfg progs, wireInv_init v cfg progs, msgInv_init v cfg progs, callInv_init v cfg progs⟩

theorem base_step (v : Variant) (cfg : Cfg) (s : State) (t : Tid) (B : Base v cfg s) : Base v cfg (step v cfg s t) :=
  ⟨lockInv_step v cfg s t B.L, wireInv_step v cfg s t B.L B.W, msgInv_step v cfg s t B.L B.M,
   callInv_step v cfg s t B.L B.M B.C⟩

theorem base_run (v : Variant) (cfg : Cfg) (s : State) (sched : List Tid) (B : Base v cfg s) :
    Base v cfg (run v cfg s sched) := by
  induction sched generalizing s with
  | nil => exact B
  | cons t r ih => exact ih _ (base_step v cfg s t B)

/-- what the call in progress of any thread looks like after thread `t` took a step -/
theorem current_after {v : Variant} {cfg : Cfg} {s : State} {t u : Tid} {p : Shared × Cur} {c2 : Cur}
    (hh : (s.th t).halted = false)
    (h : ((setTh s t (settle (s.th t) p.2) p.1).th u).current v cfg = some c2) :
    (u ≠ t ∧ (s.th u).current v cfg = some c2) ∨
    (u = t ∧ p.2.rest ≠ [] ∧ c2 = p.2) ∨
    (u = t ∧ p.2.rest = [] ∧ ∃ call, c2 = { idx := (settle (s.th t) p.2).pc, rest := compile v cfg call }) := by
  by_cases hu : u = t
  · subst hu
    rw [setTh_same] at h
    rcases settle_cases v cfg (s.th u) p.2 hh with ⟨hne, _, _⟩ | ⟨he, hs⟩
    · rw [current_settle v cfg _ _ hh hne] at h
      exact Or.inr (Or.inl ⟨rfl, hne, (Option.some.inj h).symm⟩)
    · rcases current_cases h with h2 | ⟨_, call, _, hcc⟩
      · rw [hs] at h2; cases h2
      · exact Or.inr (Or.inr ⟨rfl, he, call, hcc⟩)
  · rw [setTh_other _ _ _ _ _ hu] at h
    exact Or.inl ⟨hu, h⟩


theorem prog_after (s : State) (t u : Tid) (c' : Cur) (sh' : Shared) :
    ((setTh s t (settle (s.th t) c') sh').th u).prog = (s.th u).prog := by
  by_cases hu : u = t
  · subst hu; rw [setTh_same, settle_prog]
  · rw [setTh_other _ _ _ _ _ hu]

/-- programs are static -/
theorem step_prog (v : Variant) (cfg : Cfg) (s : State) (t u : Tid) :
    ((step v cfg s t).th u).prog = (s.th u).prog := by
  rcases step_cases v cfg s t with e | ⟨c, st, r, _, _, _, e⟩ <;> rw [e]
  exact prog_after s t u _ _

theorem run_prog (v : Variant) (cfg : Cfg) (s : State) (sched : List Tid) (u : Tid) :
    ((run v cfg s sched).th u).prog = (s.th u).prog := by
  induction sched generalizing s with
  | nil => rfl
  | cons t r ih => exact (ih (step v cfg s t)).trans (step_prog v cfg s t u)

/-- a thread whose next step is known has a call in progress (stored, or about to start) -/
theorem current_of_view {v : Variant} {cfg : Cfg} {th : Thread} {st : Step} {r : List Step}
    (h : view v cfg th = st :: r) : ∃ c, th.current v cfg = some c ∧ c.rest = st :: r := by
  unfold view at h
  split at h
  · rename_i c hc; exact ⟨c, hc, h⟩
  · cases h


/-- the state reached from the freshly connected WebSocket satisfies the base invariants -/
theorem base_final (v : Variant) (cfg : Cfg) (progs : Tid → List Call) (sched : List Tid) :
    Base v cfg (run v cfg (init progs) sched) :=
  base_run v cfg _ sched (base_init v cfg progs)

/-- the two chunks of a frame concatenate to the frame handed to `sendall`, so a wire made of
    `pairs` is byte-for-byte the concatenation of whole frames -/
theorem pairs_bytes (cfg : Cfg) (fs : List Chunk) (h : ∀ c ∈ fs, c.second = true) :
    wireBytes cfg (pairs fs) = (fs.map (frameBytes cfg)).flatten := by
  induction fs with
  | nil => rfl
  | cons c r ih =>
    have hc := h c (List.mem_cons_self ..)
    have ih' := ih (fun x hx => h x (List.mem_cons_of_mem _ hx))
    simp only [wireBytes] at ih' ⊢
    simp only [pairs, List.map_cons, List.flatten_cons, ih']
    rw [← List.append_assoc]
    congr 1
    simp [chunkBytes, hc, frameBytes]

/-- what `peerDecode` returns has one entry per frame, in wire order -/
theorem peerDecode_tags (nt : Bool) (ctx : Bytes) (fs : List Chunk) (ms : List (Tid × Nat × Bytes))
    (h : peerDecode nt ctx fs = some ms) :
    ms.map (fun x => (x.1, x.2.1)) = fs.map (fun c => (c.tid, c.idx)) := by
  induction fs generalizing ctx ms with
  | nil => simp [peerDecode] at h; subst h; rfl
  | cons f r ih =>
    simp only [peerDecode] at h
    split at h
    · cases h2 : peerDecode nt ctx r with
      | none => rw [h2] at h; cases h
      | some ms2 =>
        rw [h2] at h; simp only [Option.map_some] at h; cases h
        simp [ih _ _ h2]
    · split at h
      · cases h2 : peerDecode nt (if nt = true then [] else ctx ++ _) r with
        | none => rw [h2] at h; cases h
        | some ms2 =>
          rw [h2] at h; simp only [Option.map_some] at h; cases h
          simp [ih _ _ h2]
      · cases h


end Lomond.Threads
