/-
  Helper lemmas for C15 (timers).
-/
import Lomond.Proofs.Pong
set_option linter.unusedSimpArgs false
set_option linter.unusedVariables false
namespace Lomond.Core.Timers
open Lomond Lomond.Core Lomond.Core.Lift Lomond.Core.Pong

/-! ### what each `_check_*` does, exactly -/

/-- state in which the Poll event is yielded: `_poll_start` records the current session time -/
def pollMark (s : Sys) : Sys := { s with pollStart := some (sessionTime s) }

/-- `_check_poll` is due: never polled, or at least `poll` since the last Poll -/
def pollDue (s : Sys) : Prop :=
  s.pollStart = none ∨ ∃ p0, s.pollStart = some p0 ∧ sessionTime s - p0 ≥ s.cfg.poll

theorem checkPoll_fires (s : Sys) (h : pollDue s) : checkPoll s = yieldEv .poll (pollMark s) := by
  unfold checkPoll
  rw [bind_ok (show getS s = .ok s s from rfl)]
  rcases h with h | ⟨p0, h, hge⟩
  · simp only [h, if_true]; rfl
  · simp only [h, hge, decide_true, if_true]; rfl

theorem checkPoll_quiet (s : Sys) (p0 : Nat) (h : s.pollStart = some p0)
    (hlt : sessionTime s - p0 < s.cfg.poll) : checkPoll s = .ok () s := by
  unfold checkPoll
  rw [bind_ok (show getS s = .ok s s from rfl)]
  have : ¬ (sessionTime s - p0 ≥ s.cfg.poll) := by omega
  simp only [h, this, decide_false]; rfl

/-- `_check_auto_ping` is due -/
def pingDue (s : Sys) : Prop := s.cfg.pingRate ≠ 0 ∧ sessionTime s > s.nextPing

/-- state in which the automatic Ping is sent: the next one is due after the next multiple of the rate -/
def pingMark (s : Sys) : Sys :=
  { s with nextPing := ceilDiv (sessionTime s) s.cfg.pingRate * s.cfg.pingRate }

theorem checkAutoPing_fires (s : Sys) (h : pingDue s) :
    checkAutoPing s = (do let _ ← sendFrame Gen.opPing [] none; pure () : M Unit) (pingMark s) := by
  unfold checkAutoPing
  rw [bind_ok (show getS s = .ok s s from rfl)]
  unfold pingDue at h
  simp only [h, and_self, if_true, ne_eq, not_false_eq_true]; rfl

theorem checkAutoPing_quiet (s : Sys) (h : ¬ pingDue s) : checkAutoPing s = .ok () s := by
  unfold checkAutoPing
  rw [bind_ok (show getS s = .ok s s from rfl)]
  unfold pingDue at h
  simp only [h, if_false]; rfl

/-- `_check_ping_timeout` is due -/
def pingTimeoutDue (s : Sys) : Prop :=
  s.cfg.pingTimeout ≠ 0 ∧ sessionTime s - s.lastPong > s.cfg.pingTimeout

theorem checkPingTimeout_fires (s : Sys) (h : pingTimeoutDue s) :
    checkPingTimeout s =
      (do yieldEv .unresponsive; throwE (.forceDisconnect "ping-timeout") : M Unit) s := by
  unfold checkPingTimeout
  rw [bind_ok (show getS s = .ok s s from rfl)]
  unfold pingTimeoutDue at h
  simp only [h, and_self, if_true, ne_eq, not_false_eq_true]

theorem checkPingTimeout_quiet (s : Sys) (h : ¬ pingTimeoutDue s) : checkPingTimeout s = .ok () s := by
  unfold checkPingTimeout
  rw [bind_ok (show getS s = .ok s s from rfl)]
  unfold pingTimeoutDue at h
  simp only [h, if_false]; rfl

/-- `_check_close_timeout` is due -/
def closeTimeoutDue (s : Sys) : Prop :=
  s.cfg.closeTimeout ≠ 0 ∧ ∃ ct, s.sentCloseTime = some ct ∧ sessionTime s ≥ ct + s.cfg.closeTimeout

theorem checkCloseTimeout_fires (s : Sys) (h : closeTimeoutDue s) :
    checkCloseTimeout s = .err (.forceDisconnect "close-timeout") s := by
  unfold checkCloseTimeout
  rw [bind_ok (show getS s = .ok s s from rfl)]
  obtain ⟨h0, ct, hct, hge⟩ := h
  simp only [h0, hct, hge, if_true, ne_eq, not_false_eq_true]; rfl

theorem checkCloseTimeout_quiet (s : Sys) (h : ¬ closeTimeoutDue s) : checkCloseTimeout s = .ok () s := by
  unfold checkCloseTimeout
  rw [bind_ok (show getS s = .ok s s from rfl)]
  unfold closeTimeoutDue at h
  by_cases h0 : s.cfg.closeTimeout = 0
  · simp only [h0, ne_eq, not_true_eq_false, if_false]; rfl
  · simp only [h0, ne_eq, not_false_eq_true, if_true]
    cases hct : s.sentCloseTime with
    | none => rfl
    | some ct =>
      have : ¬ (sessionTime s ≥ ct + s.cfg.closeTimeout) := fun hge => h ⟨h0, ct, hct, hge⟩
      simp only [this, if_false]; rfl

/-! ### consequences -/

/-- the Ping frame with empty payload -/
theorem build_ping_empty (key : Bytes) : Frame.build Gen.opPing [] key = some ([137, 128] ++ key) := by
  simp [Frame.build, buildHeader, byte0, Gen.opPing, maskPayload, maskFrom]

/-- when due and the connection is usable, the automatic Ping really is written -/
theorem checkAutoPing_writes (s : Sys) (hd : pingDue s) (hso : s.sockOpen = true)
    (hcg : s.closing = false) (hcd : s.closed = false) (hw : s.cfg.writeFails s.writeCtr = false) :
    checkAutoPing s = .ok ()
      { pingMark s with keyCtr := s.keyCtr + 1, writeCtr := s.writeCtr + 1,
                        trace := .wr ([137, 128] ++ s.cfg.maskKey s.keyCtr) :: s.trace } := by
  rw [checkAutoPing_fires s hd]
  have e : sendFrame Gen.opPing [] none (pingMark s) = .ok .ok
      { pingMark s with keyCtr := s.keyCtr + 1, writeCtr := s.writeCtr + 1,
                        trace := .wr ([137, 128] ++ s.cfg.maskKey s.keyCtr) :: s.trace } := by
    simp [sendFrame, pingMark, build_ping_empty, write, hso, hcg, hcd, hw]
  rw [bind_ok e]; rfl

/-- `_check_ping_timeout` when due: Unresponsive is handed to the application first; unless the
    application abandons the loop there, `_ForceDisconnect('ping-timeout')` is raised -/
theorem checkPingTimeout_due (s : Sys) (h : pingTimeoutDue s) :
    (∃ l, (checkPingTimeout s).state.trace = l ++ .ev .unresponsive :: s.trace) ∧
    (∀ s1, yieldEv .unresponsive s = .ok () s1 →
        checkPingTimeout s = .err (.forceDisconnect "ping-timeout") s1) ∧
    (∃ x s1, checkPingTimeout s = .err x s1) := by
  rw [checkPingTimeout_fires s h]
  refine ⟨?_, ?_, ?_⟩
  · have s1 := yieldEv_step_from_push .unresponsive s
    have s2 := bind_state_step (m := yieldEv .unresponsive)
      (k := fun _ => (throwE (.forceDisconnect "ping-timeout") : M Unit))
      (fun _ => spec_throwE step_po _) s
    exact (step_po.trans s1 s2).traceExt
  · intro s1 hy; rw [bind_ok hy]; rfl
  · cases hy : yieldEv .unresponsive s with
    | ok u s1 => exact ⟨_, s1, by rw [bind_ok hy]; rfl⟩
    | err x s1 => exact ⟨x, s1, bind_err hy⟩

/-- an exception from the loop that is a `_ForceDisconnect(kind)` ends `run()` with a
    non-graceful `Disconnected(kind)` after closing the socket -/
theorem runBody_forceDisconnect (env : List EnvStep) (s s1 : Sys) (k : String)
    (h : loop env s = .err (.forceDisconnect k) s1) :
    runBody env s = (do closeSocket; yieldEv (.disconnected k false) : M Unit) s1 := by
  unfold runBody
  have hb : (do loop env; pure none : M (Option Exn)) s = .err (.forceDisconnect k) s1 := bind_err h
  have ht : tryC (do loop env; pure none : M (Option Exn)) (fun x => pure (some x)) s
      = .ok (some (.forceDisconnect k)) s1 := by rw [tryC_err hb]; rfl
  rw [bind_ok ht]; rfl

/-- an exception raised by `_regular()` at the top of a loop cycle leaves the loop as it is -/
theorem loop_regular_err (dt : Nat) (rd : Option RecvOutcome) (rest : List EnvStep) (s s2 : Sys)
    (x : Exn) (hc : s.closed = false) (h : regular (tick s dt) = .err x s2) :
    loop (.wait dt rd :: rest) s = .err x s2 := by
  unfold loop
  simp only [hc, Bool.false_eq_true, if_false, regularTop]
  rw [h]

theorem sessionTime_tick (s : Sys) (dt : Nat) :
    sessionTime s ≤ sessionTime (tick s dt) ∧ sessionTime (tick s dt) ≤ sessionTime s + dt := by
  unfold sessionTime tick
  cases s.startTime with
  | none => simp
  | some t0 => simp only; omega

/-- `WebSocket.close()` on an open websocket with acceptable arguments records when the Close was
    sent -/
theorem wsClose_records_time (code : Option Nat) (reason : Arg) (s s' : Sys)
    (h : wsClose code reason s = .ok .ok s') (hcd : s.closed = false) (hcg : s.closing = false) :
    s'.sentCloseTime = some (sessionTime s) ∧ s'.closing = true := by
  have key : ∀ (op : Nat) (pl : Bytes) (a : ActRes) (s1 : Sys),
      sendFrame op pl none s = .ok a s1 → sessionTime s1 = sessionTime s := by
    intro op pl a s1 heq
    unfold sendFrame write at heq
    simp only [] at heq
    repeat' split at heq
    all_goals first | (cases heq; rfl) | (cases heq <;> done)
  unfold wsClose at h
  simp only [hcd, hcg, Bool.false_eq_true, if_false] at h
  repeat' split at h
  all_goals first
    | (cases h <;> done)
    | (rename_i heq
       cases h
       refine ⟨?_, rfl⟩
       show some (sessionTime _) = some (sessionTime s)
       rw [key _ _ _ _ heq])

/-- `_on_event` for a Ping (the automatic Pong) touches no timer field -/
theorem onEvent_ping_timers (d : Bytes) (s s1 : Sys) (h : onEvent (.ping d) s = .ok () s1) :
    s1.pollStart = s.pollStart ∧ s1.nextPing = s.nextPing ∧ s1.lastPong = s.lastPong ∧
    s1.startTime = s.startTime ∧ s1.now = s.now ∧ s1.sentCloseTime = s.sentCloseTime := by
  have key : ∀ (a : ActRes) (s' : Sys), sendFrame Gen.opPong d none s = .ok a s' →
      s'.pollStart = s.pollStart ∧ s'.nextPing = s.nextPing ∧ s'.lastPong = s.lastPong ∧
      s'.startTime = s.startTime ∧ s'.now = s.now ∧ s'.sentCloseTime = s.sentCloseTime := by
    intro a s' heq
    unfold sendFrame write at heq
    simp only [] at heq
    repeat' split at heq
    all_goals first | (cases heq; exact ⟨rfl, rfl, rfl, rfl, rfl, rfl⟩) | (cases heq <;> done)
  simp only [onEvent] at h
  repeat' split at h
  all_goals first
    | (cases h <;> done)
    | (cases h; exact ⟨rfl, rfl, rfl, rfl, rfl, rfl⟩)
    | (rename_i heq; cases h; exact key _ _ heq)

/-! ### the configuration never changes -/

def CfgKeep (s s' : Sys) : Prop := s'.cfg = s.cfg

theorem cfgKeep_po : PO CfgKeep where
  refl _ := rfl
  trans h1 h2 := h2.trans h1

theorem cfgKeep_of_step {m : M α} (h : Spec Step m) : Spec CfgKeep m := fun s => (h s).cfg

theorem cfgKeep_selClose : Spec CfgKeep selClose := by
  intro s; unfold selClose; split <;> rfl

theorem cfgKeep_closeThenYield (e : Event) : Spec CfgKeep (do closeSocket; yieldEv e : M Unit) :=
  spec_bind cfgKeep_po (cfgKeep_of_step step_closeSocket) (fun _ => cfgKeep_of_step (step_yieldEv e))

theorem cfgKeep_onLoopEnd (r : Option Exn) : Spec CfgKeep (onLoopEnd r) := by
  unfold onLoopEnd
  split
  all_goals first
    | exact cfgKeep_closeThenYield _
    | exact spec_throwE cfgKeep_po _

theorem cfgKeep_runBody (env : List EnvStep) : Spec CfgKeep (runBody env) := by
  unfold runBody
  refine spec_bind cfgKeep_po ?_ (fun r => cfgKeep_onLoopEnd r)
  refine spec_tryC cfgKeep_po ?_ (fun x => spec_pure cfgKeep_po _)
  exact spec_bind cfgKeep_po (cfgKeep_of_step (step_loop env)) (fun _ => spec_pure cfgKeep_po _)

theorem cfgKeep_runFinally (x : Exn) : Spec CfgKeep (runFinally x) := by
  unfold runFinally
  refine spec_getS_bind cfgKeep_po (fun s => ?_)
  refine spec_bind cfgKeep_po ?_ (fun _ => spec_bind cfgKeep_po cfgKeep_selClose (fun _ => spec_throwE cfgKeep_po _))
  split
  · exact cfgKeep_of_step step_closeSocket
  · exact spec_pure cfgKeep_po _

theorem cfgKeep_runLoop : Spec CfgKeep runLoop := by
  unfold runLoop
  refine spec_getS_bind cfgKeep_po (fun s => ?_)
  exact spec_tryC cfgKeep_po
    (spec_bind cfgKeep_po (cfgKeep_runBody s.env) (fun _ => cfgKeep_selClose))
    (fun x => cfgKeep_runFinally x)

theorem cfgKeep_yieldConnected (proxy : Bool) : Spec CfgKeep (yieldConnected proxy) := by
  unfold yieldConnected
  refine spec_getS_bind cfgKeep_po (fun s => ?_)
  split
  · exact spec_tryC cfgKeep_po (cfgKeep_of_step (step_yieldEv _))
      (fun x => spec_bind cfgKeep_po (cfgKeep_of_step step_closeSocket) (fun _ => spec_throwE cfgKeep_po _))
  · exact cfgKeep_of_step (step_yieldEv _)

theorem cfgKeep_afterConnect (proxy : Bool) : Spec CfgKeep (afterConnect proxy) := by
  unfold afterConnect
  refine spec_bind cfgKeep_po (spec_modS (fun s => rfl)) (fun _ => ?_)
  refine spec_getS_bind cfgKeep_po (fun s => ?_)
  refine spec_bind cfgKeep_po (cfgKeep_of_step (step_write _ _)) (fun r => ?_)
  split
  · exact cfgKeep_closeThenYield _
  · exact spec_bind cfgKeep_po (cfgKeep_yieldConnected proxy) (fun _ =>
      spec_bind cfgKeep_po (spec_modS (fun s => rfl)) (fun _ => cfgKeep_runLoop))

theorem cfgKeep_runLoopNoSel : Spec CfgKeep runLoopNoSel := by
  unfold runLoopNoSel
  exact spec_tryC cfgKeep_po
    (spec_bind cfgKeep_po (cfgKeep_onLoopEnd _) (fun _ => cfgKeep_selClose))
    (fun x => cfgKeep_runFinally x)

theorem cfgKeep_afterConnectNoSel (proxy : Bool) : Spec CfgKeep (afterConnectNoSel proxy) := by
  unfold afterConnectNoSel
  refine spec_bind cfgKeep_po (spec_modS (fun s => rfl)) (fun _ => ?_)
  refine spec_getS_bind cfgKeep_po (fun s => ?_)
  refine spec_bind cfgKeep_po (cfgKeep_of_step (step_write _ _)) (fun r => ?_)
  split
  · exact cfgKeep_closeThenYield _
  · exact spec_bind cfgKeep_po (cfgKeep_yieldConnected proxy) (fun _ =>
      spec_bind cfgKeep_po (spec_modS (fun s => rfl)) (fun _ => cfgKeep_runLoopNoSel))

theorem cfgKeep_run : Spec CfgKeep run := by
  unfold run
  refine spec_bind cfgKeep_po (cfgKeep_of_step (step_yieldEv _)) (fun _ => ?_)
  refine spec_getS_bind cfgKeep_po (fun s => ?_)
  split
  · exact cfgKeep_of_step (step_yieldEv _)
  · exact cfgKeep_of_step (step_yieldEv _)
  · exact cfgKeep_afterConnect _
  · exact cfgKeep_afterConnectNoSel _

/-- the configuration at the end of a connection is the one it was started with -/
theorem cfg_runAll (cfg : Cfg) (react : React) (env : List EnvStep) : (runAll cfg react env).cfg = cfg := by
  have h1 : (run { cfg := cfg, react := react, env := env }).state.cfg = cfg :=
    cfgKeep_run { cfg := cfg, react := react, env := env }
  unfold runAll
  simp only []
  generalize run { cfg := cfg, react := react, env := env } = r at h1
  have hcs : ∀ s : Sys, s.cfg = cfg →
      (match closeSocket s with | .ok _ s' => s' | .err _ s' => s').cfg = cfg := by
    intro s hs
    have q := (step_closeSocket s).cfg
    cases hc : closeSocket s with
    | ok a s' => rw [hc] at q; exact q.trans hs
    | err x s' => rw [hc] at q; exact q.trans hs
  cases r with
  | ok a s => exact h1
  | err x s =>
    simp only [Res.state_err] at h1
    cases x with
    | genExit => simp only []; split; exact hcs s h1; exact h1
    | outer y =>
      cases y with
      | genExit => simp only []; split; exact hcs s h1; exact h1
      | _ => exact h1
    | _ => exact h1

theorem pingRate_runAll (cfg : Cfg) (react : React) (env : List EnvStep) :
    (runAll cfg react env).cfg.pingRate = cfg.pingRate := by rw [cfg_runAll]

theorem pingTimeout_runAll (cfg : Cfg) (react : React) (env : List EnvStep) :
    (runAll cfg react env).cfg.pingTimeout = cfg.pingTimeout := by rw [cfg_runAll]

end Lomond.Core.Timers
