/-
  Helper lemmas for C13_Once: where a `GeneratorExit` that leaves `run()` comes from, and the
  with-block in the order Python has it.

  * Every `GeneratorExit` originates in the application's reaction at a `yield` (`doActs` reaching an
    `Act.abandon w`, which records `w` in `abandonedWith`); what runs between there and the top of
    `run()` (finalisation: `feed`'s `except GeneratorExit`, `run()`'s `finally`) touches neither the
    application, the script nor that flag.  So `abandonedWith = true` at the end means: an
    `Act.abandon true` of the application was executed.
  * `withFirst react` is the application that calls `session.close()` right before it leaves its
    with-block (what `WebSocket.__exit__` does before the generator is finalised).  For such an
    application (`ClosesFirst`) the socket is already closed when `GeneratorExit` is raised, and
    finalisation logs nothing but the selector's close.

  Instance of the result-aware lifting of Proofs/LiftX.lean.
-/
import Lomond.Proofs.LiftX
import Lomond.Proofs.RunAll
set_option linter.unusedSimpArgs false
set_option linter.unusedVariables false
set_option linter.unusedSectionVars false
namespace Lomond.Core.WithBlock
open Lomond Lomond.Core Lomond.Core.Lift Lomond.Core.LiftX Lomond.Core.Monitor

/-- the exception is `GeneratorExit`, possibly wrapped (raised in `run()`'s frame at a `yield` of `feed`) -/
def dge : Exn → Bool
  | .outer y => dge y
  | .genExit => true
  | _ => false

theorem dge_of_boring {x : Exn} (h : x.boring = true) : dge x = false := by
  cases x <;> first | rfl | cases h

/-- the application calls `session.close()` right before each `Act.abandon true` -/
def expand : Act → List Act
  | .abandon true => [.sessionClose, .abandon true]
  | a => [a]

def withFirst (react : React) : React := fun h => (react h).flatMap expand

theorem expand_of_ne {a : Act} (h : a ≠ .abandon true) : expand a = [a] := by
  cases a with
  | abandon w => cases w with
    | true => exact absurd rfl h
    | false => rfl
  | _ => rfl

/-- every `Act.abandon true` is directly preceded by `Act.sessionClose` -/
def ClosesFirst (react : React) : Prop :=
  ∀ h pre post, react h = pre ++ .abandon true :: post → ∃ pre', pre = pre' ++ [.sessionClose]

theorem flatMap_closesFirst (l : List Act) (pre post : List Act)
    (h : l.flatMap expand = pre ++ .abandon true :: post) : ∃ pre', pre = pre' ++ [.sessionClose] := by
  induction l generalizing pre with
  | nil => simp at h
  | cons a r ih =>
    rw [List.flatMap_cons] at h
    by_cases ha : a = .abandon true
    · subst ha
      have e : expand (.abandon true) = [.sessionClose, .abandon true] := rfl
      rw [e] at h
      cases pre with
      | nil => simp at h
      | cons p0 pre1 =>
        simp only [List.cons_append, List.cons.injEq] at h
        obtain ⟨h0, h1⟩ := h
        cases pre1 with
        | nil => exact ⟨[], by simp [h0]⟩
        | cons p1 pre2 =>
          simp only [List.cons_append, List.nil_append, List.cons.injEq] at h1
          obtain ⟨h2, h3⟩ := h1
          obtain ⟨pre', hp⟩ := ih pre2 h3
          exact ⟨p0 :: p1 :: pre', by rw [hp]; rfl⟩
    · rw [expand_of_ne ha] at h
      cases pre with
      | nil =>
        simp only [List.nil_append, List.singleton_append, List.cons.injEq] at h
        exact absurd h.1 ha
      | cons p0 pre1 =>
        simp only [List.cons_append, List.singleton_append, List.cons.injEq] at h
        obtain ⟨pre', hp⟩ := ih pre1 h.2
        exact ⟨p0 :: pre', by rw [hp]; rfl⟩

theorem closesFirst_withFirst (react : React) : ClosesFirst (withFirst react) :=
  fun h pre post e => flatMap_closesFirst (react h) pre post e

/-- `withFirst` changes nothing for an application that never leaves a with-block -/
theorem withFirst_of_no_with (react : React) (h : ∀ hist, Act.abandon true ∉ react hist) : withFirst react = react := by
  funext hist
  unfold withFirst
  have : ∀ l : List Act, Act.abandon true ∉ l → l.flatMap expand = l := by
    intro l hl
    induction l with
    | nil => rfl
    | cons a r ih =>
      rw [List.flatMap_cons, ih (fun hm => hl (List.mem_cons_of_mem _ hm))]
      have ha : a ≠ .abandon true := fun e => hl (by rw [e]; exact List.mem_cons_self)
      rw [expand_of_ne ha]; rfl
  exact this _ (h hist)

/-! ### the trace after the newest outcome of an application call -/

/-- the entries newer than the newest `.res` entry -/
def afterLastRes : List Obs → List Obs
  | [] => []
  | .res _ :: _ => []
  | o :: t => o :: afterLastRes t

theorem mem_afterLastRes {o : Obs} {tr : List Obs} (h : o ∈ afterLastRes tr) : o ∈ tr := by
  induction tr with
  | nil => cases h
  | cons x t ih =>
    cases x with
    | res r => cases h
    | _ =>
      rcases List.mem_cons.mp h with h1 | h1
      · rw [h1]; exact List.mem_cons_self
      · exact List.mem_cons_of_mem _ (ih h1)

/-- finalisation found the socket closed: since the application's last call only the selector's
    close (and the model's INCOMPLETE mark) was logged -/
def OnlySel (tr : List Obs) : Prop := ∀ o ∈ afterLastRes tr, o = Obs.selClose ∨ o = Obs.incomplete

theorem onlySel_cons {o : Obs} {t : List Obs} (ho : o = .selClose ∨ o = .incomplete) (h : OnlySel t) : OnlySel (o :: t) := by
  intro x hx
  have e : afterLastRes (o :: t) = o :: afterLastRes t := by rcases ho with rfl | rfl <;> rfl
  rw [e] at hx
  rcases List.mem_cons.mp hx with h1 | h1
  · rw [h1]; exact ho
  · exact h x h1

/-! ### what finalisation leaves alone -/

structure Same3 (s s' : Sys) : Prop where
  env : s'.env = s.env
  react : s'.react = s.react
  aw : s'.abandonedWith = s.abandonedWith

theorem same3_po : PO Same3 where
  refl _ := ⟨rfl, rfl, rfl⟩
  trans h1 h2 := ⟨h2.env.trans h1.env, h2.react.trans h1.react, h2.aw.trans h1.aw⟩

macro "same3_leaf" : tactic =>
  `(tactic| ((try simp only [Res.state_ok, Res.state_err]); first | exact same3_po.refl _ | exact ⟨rfl, rfl, rfl⟩))

theorem same3_closeSocket : Spec Same3 closeSocket := by
  intro s; unfold closeSocket; splits <;> same3_leaf

theorem same3_selClose : Spec Same3 selClose := by
  intro s; unfold selClose; splits <;> same3_leaf

theorem same3_write (d : Bytes) (z : Option (Nat × Bytes)) : Spec Same3 (write d z) := by
  intro s; unfold write; splits <;> same3_leaf

theorem same3_sendFrame (op : Nat) (pl : Bytes) (c : Option Bytes) : Spec Same3 (sendFrame op pl c) := by
  intro s; unfold sendFrame
  simp only
  splits
  all_goals first
    | same3_leaf
    | exact same3_po.trans (by same3_leaf) (same3_write _ _ _)

theorem same3_wsClose (c : Option Nat) (r : Arg) : Spec Same3 (wsClose c r) := by
  intro s; unfold wsClose
  splits
  all_goals first
    | same3_leaf
    | (rename_i h; have := (same3_sendFrame _ _ _).ok h; exact same3_po.trans this (by same3_leaf))
    | (rename_i h; have := (same3_sendFrame _ _ _).err h; exact this)

theorem same3_sendData (op : Nat) (pl : Bytes) (c : Bool) : Spec Same3 (sendData op pl c) := by
  intro s; unfold sendData; split <;> exact same3_sendFrame _ _ _ s

theorem same3_logRes {m : M ActRes} (h : Spec Same3 m) : Spec Same3 (logRes m) := by
  unfold logRes
  refine spec_bind same3_po h (fun r => ?_)
  intro s; unfold log modS; same3_leaf

theorem same3_doAct (a : Act) (hna : ∀ w, a ≠ .abandon w) : Spec Same3 (doAct a) := by
  unfold doAct
  split
  all_goals first
    | (apply same3_logRes; first
        | exact spec_pure same3_po _
        | exact same3_sendData _ _ _
        | exact same3_sendFrame _ _ _
        | exact same3_wsClose _ _
        | exact spec_ite _ (spec_pure same3_po _) (same3_sendData _ _ _)
        | exact spec_ite _ (spec_pure same3_po _) (same3_sendFrame _ _ _)
        | exact spec_bind same3_po same3_closeSocket (fun _ => spec_pure same3_po _))
    | exact absurd rfl (hna _)

theorem same3_onDisconnect : Spec Same3 onDisconnect := by
  unfold onDisconnect
  refine spec_bind same3_po same3_closeSocket (fun _ => spec_modS ?_)
  intro s; same3_leaf

theorem doAct_ok (a : Act) (h : ∀ w, a ≠ .abandon w) (s : Sys) : ∃ s', doAct a s = .ok () s' := by
  cases hr : doAct a s with
  | ok u s' => exact ⟨s', rfl⟩
  | err x s' => obtain ⟨_, w, hw⟩ := raises_doAct a hr; exact absurd hw (h w)

/-- the state after the application's `session.close()` -/
theorem doAct_sessionClose (s : Sys) :
    ∃ s1, doAct .sessionClose s = .ok () s1 ∧ s1.sockOpen = false ∧ afterLastRes s1.trace = [] := by
  have e1 : (do closeSocket; pure ActRes.ok : M ActRes) s = .ok .ok (closeSocket s).state := by
    rw [bind_ok (closeSocket_is_ok s)]; rfl
  have e2 : doAct .sessionClose s =
      .ok () { (closeSocket s).state with trace := .res .ok :: (closeSocket s).state.trace } := by
    show logRes (do closeSocket; pure ActRes.ok) s = _
    unfold logRes
    rw [bind_ok e1]; rfl
  exact ⟨_, e2, (closeSocket_state s).1, rfl⟩

/-! ### the invariant -/

section Inst
variable (react0 : React) (env0 : List EnvStep)

/-- what is known once `GeneratorExit` is in flight: which kind of abandonment it was, and — for an
    application that closes the session first — that the socket is closed and nothing but the
    selector's close was logged since -/
def Ab (s : Sys) : Prop :=
  (∃ h, Act.abandon s.abandonedWith ∈ react0 h) ∧
  (s.abandonedWith = true → ClosesFirst react0 → s.sockOpen = false ∧ OnlySel s.trace)

/-- normal states: script and application untouched, no abandonment so far -/
def IW (s : Sys) : Prop := s.env = env0 ∧ s.react = react0 ∧ s.abandonedWith = false

def XW (x : Exn) (s : Sys) : Prop :=
  s.env = env0 ∧ s.react = react0 ∧ (if dge x = true then Ab react0 s else s.abandonedWith = false)

/-- every final state: if it records a with-block abandonment, such an action was executed … -/
def FinW (s : Sys) : Prop := s.abandonedWith = true → Ab react0 s

variable {react0 env0}

theorem IW.same {s s' : Sys} (h : IW react0 env0 s) (k : Same3 s s') : IW react0 env0 s' :=
  ⟨k.env.trans h.1, k.react.trans h.2.1, k.aw.trans h.2.2⟩

theorem XW.of_iw {x : Exn} {s : Sys} (h : IW react0 env0 s) (hx : dge x = false) : XW react0 env0 x s :=
  ⟨h.1, h.2.1, by rw [hx]; exact h.2.2⟩

theorem XW.iw {x : Exn} {s : Sys} (h : XW react0 env0 x s) (hx : dge x = false) : IW react0 env0 s :=
  ⟨h.1, h.2.1, by have := h.2.2; rw [hx] at this; exact this⟩

/-- finalisation steps: closing an already closed socket, closing the selector, setting websocket flags -/
structure FinStep (s s' : Sys) : Prop where
  same : Same3 s s'
  sock : s.sockOpen = false → s'.sockOpen = false
  tr : s.sockOpen = false → s'.trace = s.trace ∨ s'.trace = .selClose :: s.trace ∨ s'.trace = .incomplete :: s.trace

theorem Ab.step {s s' : Sys} (h : Ab react0 s) (k : FinStep s s') : Ab react0 s' := by
  refine ⟨by rw [k.same.aw]; exact h.1, fun ha hc => ?_⟩
  rw [k.same.aw] at ha
  obtain ⟨h1, h2⟩ := h.2 ha hc
  refine ⟨k.sock h1, ?_⟩
  rcases k.tr h1 with e | e | e
  · rw [e]; exact h2
  · rw [e]; exact onlySel_cons (Or.inl rfl) h2
  · rw [e]; exact onlySel_cons (Or.inr rfl) h2

theorem finStep_closeSocket (s : Sys) : FinStep s (closeSocket s).state := by
  refine ⟨same3_closeSocket s, fun h => (closeSocket_state s).1, fun h => Or.inl ?_⟩
  unfold closeSocket; simp [h]

theorem finStep_selClose (s : Sys) : FinStep s (selClose s).state := by
  refine ⟨same3_selClose s, fun h => (selClose_state s).2.trans h, fun h => ?_⟩
  unfold selClose
  split
  · exact Or.inr (Or.inl rfl)
  · exact Or.inl rfl

theorem finStep_onDisconnect (s : Sys) : FinStep s (onDisconnect s).state := by
  have h : onDisconnect s = .ok () { (closeSocket s).state with closing := false, closed := true } := by
    unfold onDisconnect; rw [bind_ok (closeSocket_is_ok s)]; rfl
  rw [h]
  have k := finStep_closeSocket s
  exact ⟨⟨k.same.env, k.same.react, k.same.aw⟩, k.sock, k.tr⟩

theorem XW.step {x : Exn} {s s' : Sys} (h : XW react0 env0 x s) (k : FinStep s s') : XW react0 env0 x s' := by
  refine ⟨k.same.env.trans h.1, k.same.react.trans h.2.1, ?_⟩
  have := h.2.2
  cases hx : dge x with
  | true => rw [hx] at this; simp only [if_true] at this ⊢; exact Ab.step this k
  | false => rw [hx] at this; simp only [Bool.false_eq_true, if_false] at this ⊢; exact k.same.aw.trans this

theorem FinW.step {s s' : Sys} (h : FinW react0 s) (k : FinStep s s') : FinW react0 s' := by
  intro ha
  rw [k.same.aw] at ha
  exact (h ha).step k

/-! ### the origin: the application's reaction -/

/-- the reaction `as` (the rest of `react0 h` after `pre`) run from a normal state: either it
    completes, or it reaches an `Act.abandon w` — recorded, and for `w = true` with the session closed
    right before -/
theorem doActs_origin (h : List Event) (pre as : List Act) (hsplit : react0 h = pre ++ as) (s : Sys)
    (hi : IW react0 env0 s)
    (hjc : ∀ post, as = .abandon true :: post → ClosesFirst react0 → s.sockOpen = false ∧ afterLastRes s.trace = []) :
    Sat (IW react0 env0) (XW react0 env0) (doActs as s) := by
  induction as generalizing pre s with
  | nil => exact hi
  | cons a r ih =>
    unfold doActs
    by_cases ha : ∃ w, a = .abandon w
    · obtain ⟨w, rfl⟩ := ha
      have e : doAct (.abandon w) s = .err .genExit { s with abandonedWith := w } := rfl
      rw [bind_err e]
      refine ⟨hi.1, hi.2.1, ?_⟩
      rw [show dge .genExit = true from rfl]
      refine ⟨⟨h, ?_⟩, fun hw hc => ?_⟩
      · show Act.abandon w ∈ react0 h
        rw [hsplit]; exact List.mem_append_right _ List.mem_cons_self
      · have hw' : w = true := hw
        subst hw'
        obtain ⟨h1, h2⟩ := hjc r rfl hc
        refine ⟨h1, fun o ho => ?_⟩
        have : afterLastRes ({ s with abandonedWith := true } : Sys).trace = [] := h2
        rw [this] at ho; cases ho
    · have hna : ∀ w, a ≠ .abandon w := fun w e => ha ⟨w, e⟩
      obtain ⟨s1, h1⟩ := doAct_ok a hna s
      have k1 := (same3_doAct a hna).ok h1
      rw [bind_ok h1]
      refine ih (pre ++ [a]) (by rw [hsplit]; simp) s1 (hi.same k1) ?_
      intro post hr hc
      subst hr
      obtain ⟨pre', hp⟩ := hc h (pre ++ [a]) post (by rw [hsplit]; simp)
      have ea : a = .sessionClose := by
        have := congrArg List.getLast? hp
        simpa using this
      subst ea
      obtain ⟨s2, h2, a2, b2⟩ := doAct_sessionClose s
      rw [h1] at h2; cases h2
      exact ⟨a2, b2⟩

theorem IW.push {s : Sys} (e : Event) (h : IW react0 env0 s) : IW react0 env0 (Monitor.pushEv e s) := h

/-- `yield e`: the origin of every `GeneratorExit` -/
theorem yieldEv_w (e : Event) : SpecX (IW react0 env0) (XW react0 env0) (yieldEv e) := by
  intro s hs
  rw [yieldEv_eq]
  have hr : s.react = react0 := hs.2.1
  rw [hr]
  refine doActs_origin (e :: s.hist) [] _ rfl _ (hs.push e) ?_
  intro post hp hc
  obtain ⟨pre', hp'⟩ := hc (e :: s.hist) [] post hp
  cases pre' <;> cases hp'

theorem specx_same3 {m : M α} (hn : NoRaise m) (h : Spec Same3 m) : SpecX (IW react0 env0) (XW react0 env0) m := by
  intro s hs
  have k := h s
  cases hm : m s with
  | ok a s' => rw [hm] at k; exact hs.same k
  | err x s' => exact absurd hm (hn s x s')

theorem throw_w {x : Exn} (hx : dge x = false) : SpecX (IW react0 env0) (XW react0 env0) (throwE x : M α) :=
  specx_throwE (fun s hs => XW.of_iw hs hx)

theorem modS_w {f : Sys → Sys} (h : ∀ s, Same3 s (f s)) : SpecX (IW react0 env0) (XW react0 env0) (modS f) :=
  specx_modS (fun s hs => hs.same (h s))

theorem regular_w : SpecX (IW react0 env0) (XW react0 env0) regular := by
  unfold regular
  refine specx_getS_bind (fun s => ?_)
  split
  · refine specx_bind ?_ (fun _ => specx_bind ?_ (fun _ => specx_bind ?_ (fun _ => ?_)))
    · unfold checkPoll
      refine specx_getS_bind (fun s => ?_)
      simp only []
      splits
      all_goals first
        | exact specx_pure _
        | exact specx_bind (modS_w (fun s => ⟨rfl, rfl, rfl⟩)) (fun _ => yieldEv_w _)
    · exact specx_same3 noRaise_checkAutoPing (by
        unfold checkAutoPing
        refine spec_getS_bind same3_po (fun s => ?_)
        simp only []
        split
        · exact spec_bind same3_po (spec_modS (fun s => ⟨rfl, rfl, rfl⟩)) (fun _ =>
            spec_bind same3_po (same3_sendFrame _ _ _) (fun _ => spec_pure same3_po _))
        · exact spec_pure same3_po _)
    · unfold checkPingTimeout
      refine specx_getS_bind (fun s => ?_)
      simp only []
      split
      · exact specx_bind (yieldEv_w _) (fun _ => throw_w rfl)
      · exact specx_pure _
    · unfold checkCloseTimeout
      refine specx_getS_bind (fun s => ?_)
      simp only []
      splits
      all_goals first | exact specx_pure _ | exact throw_w rfl
  · exact specx_pure _

theorem onEvent_err {e : Event} {s s' : Sys} {x : Exn} (h : onEvent e s = .err x s') : x = .other "error" := by
  unfold onEvent at h
  cases e with
  | ping data =>
    simp only [] at h
    split at h
    · split at h
      · cases h; rfl
      · split at h
        · cases h
        · rename_i heq; exact absurd heq (noRaise_sendFrame _ _ _ _ _ _)
    · cases h
  | _ => cases h

theorem same3_onEvent (e : Event) : Spec Same3 (onEvent e) := by
  intro s; unfold onEvent
  splits
  all_goals first
    | same3_leaf
    | (rename_i h; exact (same3_sendFrame _ _ _).ok h)
    | (rename_i h; exact (same3_sendFrame _ _ _).err h)

theorem onEvent_w (e : Event) : SpecX (IW react0 env0) (XW react0 env0) (onEvent e) := by
  intro s hs
  have k := same3_onEvent e s
  cases hr : onEvent e s with
  | ok u s' => rw [hr] at k; exact hs.same k
  | err x s' =>
    rw [hr] at k
    have := onEvent_err hr
    subst this
    exact XW.of_iw (hs.same k) rfl

theorem feedYield_w (b : Bool) (e : Event) : SpecX (IW react0 env0) (XW react0 env0) (feedYield b e) := by
  unfold feedYield
  refine specx_tryC (Q := XW react0 env0)
    (specx_bind (onEvent_w e) (fun _ => specx_bind (yieldEv_w e) (fun _ => regular_w))) ?_
  intro x s1 hx
  have key : ∀ s2, FinStep s1 s2 → Sat (IW react0 env0) (XW react0 env0) ((throwE (.outer x) : M Unit) s2) :=
    fun s2 k => (show XW react0 env0 (.outer x) s2 from hx.step k)
  cases b with
  | true =>
    simp only [if_true]
    rw [bind_ok (show onDisconnect s1 = .ok () (onDisconnect s1).state from by
      obtain ⟨s', h', _⟩ := onDisconnect_ok s1; rw [h']; rfl)]
    exact key _ (finStep_onDisconnect s1)
  | false =>
    simp only [Bool.false_eq_true, if_false]
    rw [bind_ok (show (pure () : M Unit) s1 = .ok () s1 from rfl)]
    exact key s1 ⟨same3_po.refl s1, id, fun _ => Or.inl rfl⟩

theorem wsClose_w (c : Option Nat) (r : Arg) : SpecX (IW react0 env0) (XW react0 env0) (wsClose c r) :=
  specx_same3 (noRaise_wsClose c r) (same3_wsClose c r)

theorem onClose_w (c : Option Nat) (r : List Nat) : SpecX (IW react0 env0) (XW react0 env0) (onClose c r) := by
  unfold onClose
  refine specx_bind ?_ (fun _ => specx_getS_bind (fun s0 => ?_))
  · unfold checkCloseCode
    splits <;> first | exact specx_pure _ | exact throw_w rfl
  · split
    · exact specx_pure _
    · split
      · exact specx_bind (feedYield_w true _) (fun _ => modS_w (fun s => ⟨rfl, rfl, rfl⟩))
      · refine specx_bind (feedYield_w true _) (fun _ => specx_bind (wsClose_w _ _) (fun r' => specx_bind ?_ (fun _ =>
          modS_w (fun s => ⟨rfl, rfl, rfl⟩))))
        unfold raiseIfArgError
        split
        · exact throw_w rfl
        · exact specx_pure _

theorem w_leaves : LeavesX (IW react0 env0) (XW react0 env0) where
  inert := fun s s' h hs => hs.same ⟨h.inert.env, h.inert.react, h.inert.abandonedWith⟩
  boring := fun x s hb hs => XW.of_iw hs (dge_of_boring hb)
  unboring := fun x s hb hx => hx.iw (dge_of_boring hb)
  forced := fun s hs => XW.of_iw hs rfl
  scriptEnd := fun s hs => XW.of_iw hs rfl
  unwrap := fun y s h => h
  closeSocket := specx_same3 noRaise_closeSocket same3_closeSocket
  wsClose := wsClose_w
  onDisconnect := specx_same3 noRaise_onDisconnect same3_onDisconnect
  onClose := onClose_w
  feedYield := fun b e _ _ _ => feedYield_w b e

theorem w_loop (env : List EnvStep) : SpecX (IW react0 env0) (XW react0 env0) (loop env) :=
  liftx_loop w_leaves (fun _ => True)
    (fun dt rd s _ hs _ => regular_w (tick s dt) (hs.same ⟨rfl, rfl, rfl⟩)) env (fun _ _ => trivial)

theorem FinW.of_iw {s : Sys} (h : IW react0 env0 s) : FinW react0 s :=
  fun ha => by rw [h.2.2] at ha; cases ha

theorem FinW.of_sat {r : Res Unit} (h : Sat (IW react0 env0) (XW react0 env0) r)
    (hx : ∀ x s, r = .err x s → x = .genExit) : FinW react0 r.state := by
  cases r with
  | ok u s => exact FinW.of_iw h
  | err x s =>
    have := hx x s rfl
    subst this
    intro _
    have h2 := h.2.2
    rw [show dge .genExit = true from rfl] at h2
    exact h2

theorem closeYield_w (e : Event) (s : Sys) (hs : IW react0 env0 s) :
    FinW react0 ((do closeSocket; yieldEv e : M Unit) s).state := by
  rw [bind_ok (closeSocket_is_ok s)]
  exact FinW.of_sat (yieldEv_w e _ (hs.same (same3_closeSocket s))) (fun x s' h => yieldEv_err_genExit h)

theorem w_top : TopX (IW react0 env0) (XW react0 env0) (FinW react0) env0 where
  envEq := fun s hs => hs.1
  iFin := fun s hs => FinW.of_iw hs
  xFin := fun s hx _ => by
    have h2 := hx.2.2
    rw [show dge .genExit = true from rfl] at h2
    exact h2
  yieldTop := fun e _ => yieldEv_w e
  yieldConn := fun p s hs _ _ _ _ => yieldEv_w _ s hs
  sockSet := fun s hs => hs.same ⟨rfl, rfl, rfl⟩
  writeReq := fun s hs _ _ => hs.same (same3_write _ _ s)
  selSet := fun b s hs => hs.same ⟨rfl, rfl, rfl⟩
  endNone := fun s hs => closeYield_w _ s hs
  endSome := by
    intro x s hx hno
    have iw : dge x = false → IW react0 env0 s := hx.iw
    cases x with
    | genExit =>
      intro _
      have h2 := hx.2.2
      rw [show dge .genExit = true from rfl] at h2
      exact h2
    | scriptEnd => exact FinW.of_iw (iw rfl)
    | outer z => exact absurd rfl (hno z)
    | parse m => exact closeYield_w _ s (iw rfl)
    | protocol m => exact closeYield_w _ s (iw rfl)
    | critical m => exact closeYield_w _ s (iw rfl)
    | forceDisconnect k => exact closeYield_w _ s (iw rfl)
    | socketFail k => exact closeYield_w _ s (iw rfl)
    | other k => exact closeYield_w _ s (iw rfl)
  finSel := fun s h => h.step (finStep_selClose s)
  finSock := fun s h => h.step (finStep_closeSocket s)
  finInc := fun s h => h.step ⟨⟨rfl, rfl, rfl⟩, id, fun _ => Or.inr (Or.inr rfl)⟩

end Inst

/-- **where `abandonedWith = true` comes from, and what holds then** — at the end of `run()` and at
    the end of the whole connection -/
theorem finW_run (cfg : Cfg) (react : React) (env : List EnvStep) :
    FinW react (run (initSys cfg react env)).state ∧ FinW react (runAll cfg react env) :=
  ⟨topx_run w_leaves w_top (w_loop env) _ ⟨rfl, rfl, rfl⟩ rfl,
   topx_runAll w_leaves w_top (w_loop env) cfg react ⟨rfl, rfl, rfl⟩⟩

end Lomond.Core.WithBlock
