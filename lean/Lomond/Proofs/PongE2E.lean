/-
  C14 end to end — helper lemmas: the Pong invariant `J` (Proofs/PongRun.lean) carried along the
  decomposition of a whole connection used by `C01E2E.connection_delivers` (Proofs/EndToEnd.lean).
-/
import Lomond.Proofs.PongRun
import Lomond.Proofs.EndToEnd
set_option linter.unusedSimpArgs false
set_option linter.unusedVariables false
namespace Lomond.Core.PongE2E
open Lomond Lomond.Core Lomond.Core.E2E Lomond.Core.PongRun Lomond.Core.Pong

/-- the invariant holds once the upgrade request has been written on a fresh socket -/
theorem J_after_request (auto : Bool) (s1 : Sys) (pre : Pre s1) (hc : ∀ o ∈ s1.trace, calm o = true)
    (ha : s1.cfg.autoPong = auto) (hreq : ReqPlain s1.cfg) (hns : ¬ Shut s1) :
    J auto { s1 with sockOpen := true, writeCtr := s1.writeCtr + 1, trace := .wr s1.cfg.request :: s1.trace } := by
  have hcl : hasClose (Obs.wr s1.cfg.request :: s1.trace) = false := by
    rw [hasClose_cons, calm_hasClose _ hc]; show (isCloseBytes s1.cfg.request || false) = false
    rw [hreq.1]; rfl
  refine ⟨⟨ha, pre.2, ⟨?_, ?_⟩, ?_, ?_, fun _ => nofail_cons rfl (calm_nofail _ hc)⟩,
    .plain hreq.2 rfl (good_of_calm' auto _ hc)⟩
  · show quiet (Obs.wr s1.cfg.request :: s1.trace) = true
    rw [quiet, calm_hasClose _ hc, calm_quiet _ hc]; simp
  · intro h; rw [hcl] at h; cases h
  · show hasSockClose (Obs.wr s1.cfg.request :: s1.trace) = !true
    rw [hasSockClose_cons, calm_hasSockClose _ hc]; rfl
  · intro hs; exact absurd hs hns

/-- `E2E.run_start` with the Pong invariant at the start of the loop (same proof, `J` added) -/
theorem run_start_J (cfg : Cfg) (react : React) (env : List EnvStep) (proxy : Bool)
    (hc : cfg.connect = .ok proxy) (hw : cfg.writeFails 0 = false) (hp : 0 < cfg.poll) (ha : SendOnly react)
    (hv : cfg.v.closeArgs = true) (hreq : ReqPlain cfg) :
    ∃ sA, AtLoop cfg react env proxy sA ∧ J cfg.autoPong sA ∧
      run { cfg := cfg, react := react, env := env } = tryC (do runBody env; selClose) runFinally sA := by
  let s0 : Sys := { cfg := cfg, react := react, env := env }
  obtain ⟨s1, h1, k1⟩ := yieldEv_send .connecting s0 ha
  have hcc : s1.cfg.connect = .ok proxy := by rw [k1.cfg]; exact hc
  have hso1 : s1.sockOpen = false := k1.sockOpen
  let s2 : Sys := { s1 with sockOpen := true }
  have hwc : s2.cfg.writeFails s2.writeCtr = false := by
    show s1.cfg.writeFails s1.writeCtr = false
    rw [k1.cfg, k1.wctr rfl]; exact hw
  have hwr := write_ok_open s2.cfg.request s2 rfl k1.closed k1.closing hwc
  let s3 : Sys := { s2 with writeCtr := s2.writeCtr + 1, trace := .wr s2.cfg.request :: s2.trace }
  have ha3 : SendOnly s3.react := by show SendOnly s1.react; rw [k1.react]; exact ha
  obtain ⟨s4, h4, k4⟩ := yieldEv_send (.connected proxy) s3 ha3
  have hyc : yieldConnected proxy s3 = .ok () s4 := by
    unfold yieldConnected
    rw [bind_ok (show getS s3 = .ok s3 s3 from rfl)]
    split
    · exact tryC_ok h4
    · exact h4
  let sA : Sys := { s4 with selOpen := true }
  have henv : sA.env = env := by show s4.env = env; rw [k4.env]; show s1.env = env; rw [k1.env]; rfl
  have hJA : J cfg.autoPong sA := by
    have hrp := rp_yieldEv .connecting rfl s0 ⟨rfl, hv⟩
    rw [h1] at hrp
    obtain ⟨pre1, hcfg1, l1, el1, hl1⟩ := hrp
    simp only [Res.state_ok] at pre1 hcfg1 el1
    have hc1 : ∀ o ∈ s1.trace, calm o = true := by
      rw [el1]; intro o ho
      rcases List.mem_append.mp ho with h | h
      · exact hl1 o h
      · exact absurd h (by show o ∉ ([] : List Obs); simp)
    have hJ3 : J cfg.autoPong s3 :=
      J_after_request cfg.autoPong s1 pre1 hc1 (by rw [hcfg1]) (by rw [hcfg1]; exact hreq)
        (fun hs => by
          rcases hs with h | h
          · rw [k1.closing] at h; cases h
          · rw [k1.closed] at h; cases h)
    have hJ4 : J cfg.autoPong s4 := (rj_yieldEv cfg.autoPong (.connected proxy) rfl).ok h4 hJ3
    exact rj_keep5 (s := s4) (s' := sA) (by constructor <;> rfl) hJ4
  refine ⟨sA, ?_, hJA, ?_⟩
  · have hr : sA.ready = false := by show s4.ready = false; rw [k4.ready]; show s1.ready = false; rw [k1.ready]; rfl
    have hst : sA.startTime = none := by show s4.startTime = none; rw [k4.startTime]; show s1.startTime = none; rw [k1.startTime]; rfl
    have hps : sA.pollStart = none := by show s4.pollStart = none; rw [k4.pollStart]; show s1.pollStart = none; rw [k1.pollStart]; rfl
    have hre : sA.react = react := by show s4.react = react; rw [k4.react]; show s1.react = react; rw [k1.react]; rfl
    have hcf : sA.cfg = cfg := by show s4.cfg = cfg; rw [k4.cfg]; show s1.cfg = cfg; rw [k1.cfg]; rfl
    have hsk : sA.sockOpen = true := by show s4.sockOpen = true; rw [k4.sockOpen]; rfl
    refine ⟨⟨by rw [hre]; exact ha, by rw [hcf]; exact hp, Or.inl hsk, fun _ => ⟨hst, hps⟩,
      fun h => by rw [hr] at h; cases h⟩, hcf, hre, henv, hr, ?_, ?_, hsk, rfl, ?_, ?_, ?_⟩
    · show s4.closed = false; rw [k4.closed]; show s1.closed = false; rw [k1.closed]; rfl
    · show s4.closing = false; rw [k4.closing]; show s1.closing = false; rw [k1.closing]; rfl
    · show s4.p = {}; rw [k4.p]; show s1.p = {}; rw [k1.p]; rfl
    · show s4.frames = []; rw [k4.frames]; show s1.frames = []; rw [k1.frames]; rfl
    · show hist s4.trace = _
      rw [hist_keep k4]
      show hist (.ev (.connected proxy) :: .wr s2.cfg.request :: s1.trace) = _
      rw [hist_cons_ev, hist_cons_nonEv _ _ rfl, hist_keep k1]
      rfl
  · show run s0 = _
    unfold run
    rw [bind_ok h1, bind_ok (show getS s1 = .ok s1 s1 from rfl)]
    simp only [hcc]
    unfold afterConnect
    rw [bind_ok (show modS (fun s => { s with sockOpen := true }) s1 = .ok () s2 from rfl),
      bind_ok (show getS s2 = .ok s2 s2 from rfl), bind_ok hwr]
    have hwe : wsError ActRes.ok = false := by decide
    simp only [hwe, Bool.false_eq_true, if_false]
    rw [bind_ok hyc, bind_ok (show modS (fun s => { s with selOpen := true }) s4 = .ok () sA from rfl)]
    unfold runLoop
    rw [bind_ok (show getS sA = .ok sA sA from rfl), henv]

/-- the bytes of the final Close, if any -/
def closeTail : Option CloseF → Bytes
  | none => []
  | some c => c.wire.bytes

/-! ### Ping payloads of a trace -/

/-- payload of a Ping event -/
def pingP : Event → Option Bytes
  | .ping d => some d
  | _ => none

theorem ansPings_append_noping (auto : Bool) (l t : List Obs) (h : ∀ o ∈ l, o.pingEv = false) :
    ansPings auto (l ++ t) = ansPings auto t := by
  induction l with
  | nil => rfl
  | cons o l ih =>
    rw [List.cons_append, ansPings_cons_plain auto o _ (h o List.mem_cons_self)]
    exact ih (fun o' ho' => h o' (List.mem_cons_of_mem _ ho'))

/-- while the trace shows a usable connection every Ping event in it had to be answered -/
theorem ansPings_usable (t : List Obs) (h : usable t = true) : ansPings true t = (hist t).filterMap pingP := by
  induction t with
  | nil => rfl
  | cons o t ih =>
    have ht : usable t = true := usable_suffix [o] t h
    cases o with
    | ev e =>
      cases e with
      | ping d =>
        show (if (true && usable t) = true then [d] else []) ++ ansPings true t = _
        rw [ht, ih ht]; rfl
      | _ => rw [ansPings_cons_plain true _ t rfl, ih ht]; rfl
    | _ => rw [ansPings_cons_plain true _ t rfl, ih ht]; rfl

/-- entries whose events are not Pings -/
theorem noping_of_hist (l : List Obs) (h : ∀ d, Event.ping d ∉ hist l) : ∀ o ∈ l, o.pingEv = false := by
  intro o ho
  cases o with
  | ev e =>
    cases e with
    | ping d => exact absurd (Monitor.mem_histOf.mpr ho) (h d)
    | _ => rfl
  | _ => rfl

end Lomond.Core.PongE2E
