/-
  Helper lemmas for C06 about the token-level model (Model/Deflate.lean):
  a windowed inflater reproduces what the tokens mean as long as every distance fits the window.
-/
import Lomond.Model.Deflate
set_option linter.unusedSimpArgs false
set_option linter.unusedVariables false
namespace Lomond.Deflate
open Lomond

theorem take_append_take (a b : Bytes) (n : Nat) : (a ++ b.take n).take n = (a ++ b).take n := by
  rw [List.take_append, List.take_append, List.take_take]
  congr 2
  omega

/-- a copy only looks at the `d` newest bytes of the history -/
theorem emitCopy_congr (d : Nat) (hd : 1 ≤ d) (rh1 rh2 : Bytes) (h : ∀ i, i < d → rh1[i]? = rh2[i]?) (n : Nat) :
    emitCopy d rh1 n = emitCopy d rh2 n := by
  induction n with
  | zero => rfl
  | succ n ih =>
    simp only [emitCopy, ih]
    congr 1
    simp only [List.getD_eq_getElem?_getD, List.getElem?_append]
    split
    · rfl
    · have hi : d - 1 - (emitCopy d rh2 n).length < d := by omega
      rw [h _ hi]

/-- a token that is valid after the full history `rh` with distance at most `lim` is decoded
    identically by an inflater that only kept the `w ≥ lim` newest bytes (of a possibly longer
    history) -/
theorem tokOut_window (lim w : Nat) (hl : lim ≤ w) (rh older : Bytes) (t : Token) (e : Bytes)
    (h : tokOut lim rh t = some e) : tokOut w ((rh ++ older).take w) t = some e := by
  cases t with
  | lit b => simpa [tokOut] using h
  | copy d n =>
    simp only [tokOut] at h ⊢
    split at h
    · rename_i hc
      obtain ⟨h1, h2, h3⟩ := hc
      have hlen : d ≤ ((rh ++ older).take w).length := by
        simp only [List.length_take, List.length_append]; omega
      rw [if_pos ⟨h1, by omega, hlen⟩]
      cases h
      congr 1
      apply emitCopy_congr d h1
      intro i hi
      rw [List.getElem?_take, if_pos (by omega), List.getElem?_append_left (by omega)]
    · cases h

/-- **one message**: if the tokens mean `out` after the history `rh` with all distances `≤ lim`,
    a `w`-byte-window inflater (`lim ≤ w`) whose window is the newest part of `rh ++ older`
    emits exactly `out` and ends with the newest part of `out ++ rh ++ older` -/
theorem inflTokens_of_expand (lim w : Nat) (hl : lim ≤ w) (toks : List Token) (rh older out : Bytes)
    (h : expand lim rh toks = some out) :
    inflTokens w ((rh ++ older).take w) toks = some (((out ++ rh) ++ older).take w, out) := by
  induction toks generalizing rh out with
  | nil => simp only [expand] at h; cases h; simp [inflTokens]
  | cons t ts ih =>
    simp only [expand] at h
    cases ht : tokOut lim rh t with
    | none => rw [ht] at h; cases h
    | some e =>
      rw [ht] at h
      simp only at h
      cases hx : expand lim (e ++ rh) ts with
      | none => rw [hx] at h; cases h
      | some out' =>
        rw [hx] at h
        cases h
        simp only [inflTokens, tokOut_window lim w hl rh older t e ht]
        rw [take_append_take, ← List.append_assoc e rh older, ih (e ++ rh) out' hx]
        simp [List.append_assoc]

/-- the distance limit of `expand` can only be relaxed -/
theorem tokOut_mono (l1 l2 : Nat) (h12 : l1 ≤ l2) (rh : Bytes) (t : Token) (e : Bytes)
    (h : tokOut l1 rh t = some e) : tokOut l2 rh t = some e := by
  cases t with
  | lit b => simpa [tokOut] using h
  | copy d n =>
    simp only [tokOut] at h ⊢
    split at h
    · rename_i hc; rw [if_pos ⟨hc.1, by omega, hc.2.2⟩]; exact h
    · cases h

theorem expand_mono (l1 l2 : Nat) (h12 : l1 ≤ l2) (toks : List Token) (rh out : Bytes)
    (h : expand l1 rh toks = some out) : expand l2 rh toks = some out := by
  induction toks generalizing rh out with
  | nil => simpa [expand] using h
  | cons t ts ih =>
    simp only [expand] at h ⊢
    cases ht : tokOut l1 rh t with
    | none => rw [ht] at h; cases h
    | some e =>
      rw [ht] at h; simp only at h
      rw [tokOut_mono l1 l2 h12 rh t e ht]; simp only
      cases hx : expand l1 (e ++ rh) ts with
      | none => rw [hx] at h; cases h
      | some out' => rw [hx] at h; rw [ih _ _ hx]; exact h

/-- **the whole history**, from any pair of states in which the inflater's window is the newest
    part of the sender's history (possibly followed by older bytes the sender has forgotten) -/
theorem lossless_from {D : Nat} (c : Compressor D) (w : Nat) (hD : D ≤ w) (cr ir : Bool)
    (hk : cr = false → ir = false) (msgs : List Bytes) (hist older : Bytes) :
    receiverOutputs w ir ((hist.reverse ++ older).take w) (senderTokens c cr hist msgs) = some msgs := by
  induction msgs generalizing hist older with
  | nil => simp [senderTokens, receiverOutputs]
  | cons m ms ih =>
    simp only [senderTokens, receiverOutputs]
    rw [inflTokens_of_expand D w hD _ hist.reverse older m.reverse (c.sound hist m)]
    simp only [List.reverse_reverse]
    cases cr with
    | false =>
      have hir : ir = false := hk rfl
      subst hir
      have := ih (hist ++ m) older
      simp only [List.reverse_append] at this
      simp only [Bool.false_eq_true, if_false]
      rw [this]
    | true =>
      cases ir with
      | false =>
        have := ih [] ((m.reverse ++ hist.reverse) ++ older)
        simp only [List.reverse_nil, List.nil_append] at this
        simp only [if_true, Bool.false_eq_true, if_false]
        rw [this]
      | true =>
        have := ih [] []
        simp only [List.reverse_nil, List.nil_append, List.take_nil] at this
        simp only [if_true]
        rw [this]

/-! ### a compressor that really uses its history (for non-vacuity) -/

theorem emitCopy_length (d : Nat) (rh : Bytes) (k : Nat) : (emitCopy d rh k).length = k := by
  induction k with
  | zero => rfl
  | succ k ih => simp [emitCopy, ih]

/-- copying `k ≤ n` bytes from distance `n` reproduces the bytes `n … n-k+1` back -/
theorem emitCopy_far (n : Nat) (rh : Bytes) (k : Nat) (hk : k ≤ n) (hn : n ≤ rh.length) :
    emitCopy n rh k = (rh.drop (n - k)).take k := by
  induction k with
  | zero => simp [emitCopy]
  | succ k ih =>
    have ihk := ih (by omega)
    simp only [emitCopy]
    rw [List.getD_eq_getElem?_getD, List.getElem?_append_right (by rw [emitCopy_length]; omega), emitCopy_length, ihk]
    have hlt : n - (k + 1) < rh.length := by omega
    rw [show n - 1 - k = n - (k + 1) by omega, List.getElem?_eq_getElem hlt]
    simp only [Option.getD_some]
    conv => rhs; rw [List.drop_eq_getElem_cons hlt, List.take_succ_cons]
    rw [show n - (k + 1) + 1 = n - k by omega]

/-- sends a message that repeats the end of the history as one back-reference, anything else as literals -/
def echoComp (D : Nat) (hist msg : Bytes) : List Token :=
  if 1 ≤ msg.length ∧ msg.length ≤ D ∧ msg.length ≤ hist.length ∧ hist.reverse.take msg.length = msg.reverse
  then [.copy msg.length msg.length] else msg.map Token.lit

theorem expand_literals (lim : Nat) (rh msg : Bytes) : expand lim rh (msg.map Token.lit) = some msg.reverse := by
  induction msg generalizing rh with
  | nil => rfl
  | cons b r ih => simp [expand, tokOut, ih]

def echoCompressor (D : Nat) : Compressor D where
  comp := echoComp D
  sound := by
    intro hist msg
    unfold echoComp
    split
    · rename_i h
      obtain ⟨h1, h2, h3, h4⟩ := h
      have hl : msg.length ≤ hist.reverse.length := by simpa using h3
      simp only [expand, tokOut]
      rw [if_pos ⟨h1, h2, hl⟩]
      simp only [List.nil_append]
      rw [emitCopy_far _ _ _ (Nat.le_refl _) hl]
      simpa using h4
    · exact expand_literals D _ msg

/-! ### blocks -/

theorem inflBlocks_append (w : Nat) (win : Bytes) (a b : List Blk) :
    inflBlocks w win (a ++ b) =
      match inflBlocks w win a with
      | none => none
      | some (w', e, true) => some (w', e, true)
      | some (w', e, false) =>
        match inflBlocks w w' b with
        | none => none
        | some (w'', e', f) => some (w'', e' ++ e, f) := by
  induction a generalizing win with
  | nil =>
    simp only [List.nil_append, inflBlocks]
    cases inflBlocks w win b with
    | none => rfl
    | some r => obtain ⟨w'', e', f⟩ := r; simp
  | cons x xs ih =>
    simp only [List.cons_append, inflBlocks]
    cases hx : inflTokens w win x.toks with
    | none => rfl
    | some r =>
      obtain ⟨w1, e1⟩ := r
      simp only
      cases hf : x.final with
      | true => simp
      | false =>
        simp only [Bool.false_eq_true, if_false]
        rw [ih w1]
        cases h1 : inflBlocks w w1 xs with
        | none => rfl
        | some r1 =>
          obtain ⟨w2, e2, f2⟩ := r1
          cases f2 with
          | true => simp
          | false =>
            simp only
            cases inflBlocks w w2 b with
            | none => rfl
            | some r2 => obtain ⟨w3, e3, f3⟩ := r2; simp [List.append_assoc]

/-- without a BFINAL block the end of the stream is never reached -/
theorem inflBlocks_not_finished (w : Nat) (win : Bytes) (bs : List Blk) (hn : ∀ b ∈ bs, b.final = false)
    (r : Bytes × Bytes × Bool) (h : inflBlocks w win bs = some r) : r.2.2 = false := by
  induction bs generalizing win r with
  | nil => simp only [inflBlocks] at h; cases h; rfl
  | cons x xs ih =>
    simp only [inflBlocks] at h
    cases hx : inflTokens w win x.toks with
    | none => rw [hx] at h; cases h
    | some r1 =>
      obtain ⟨w1, e1⟩ := r1
      rw [hx] at h
      simp only [hn x (by simp), Bool.false_eq_true, if_false] at h
      cases h1 : inflBlocks w w1 xs with
      | none => rw [h1] at h; cases h
      | some r2 =>
        obtain ⟨w2, e2, f2⟩ := r2
        rw [h1] at h
        cases h
        exact ih w1 (fun b hb => hn b (List.mem_cons_of_mem _ hb)) (w2, e2, f2) h1

/-- without a BFINAL block, "until the first final block" is "all blocks" -/
theorem inflBlocks_eq_all (w : Nat) (win : Bytes) (bs : List Blk) (hn : ∀ b ∈ bs, b.final = false) :
    inflBlocks w win bs = (inflBlocksAll w win bs).map (fun r => (r.1, r.2, false)) := by
  induction bs generalizing win with
  | nil => rfl
  | cons x xs ih =>
    simp only [inflBlocks, inflBlocksAll]
    cases hx : inflTokens w win x.toks with
    | none => rfl
    | some r1 =>
      obtain ⟨w1, e1⟩ := r1
      simp only [hn x (by simp), Bool.false_eq_true, if_false]
      rw [ih w1 (fun b hb => hn b (List.mem_cons_of_mem _ hb))]
      cases inflBlocksAll w w1 xs with
      | none => rfl
      | some r2 => obtain ⟨w2, e2⟩ := r2; rfl

/-- **without BFINAL blocks zlib's single-stream object does what RFC 7692 asks for** -/
theorem object_eq_rfc (w : Nat) (reset : Bool) (msgs : List (List Blk))
    (hn : ∀ m ∈ msgs, ∀ b ∈ m, b.final = false) (win : Bytes) :
    objectOutputs w reset { win := win, finished := false } msgs = rfcOutputs w reset win msgs := by
  induction msgs generalizing win with
  | nil => rfl
  | cons m ms ih =>
    have hm : ∀ b ∈ unstrip m, b.final = false := by
      intro b hb
      simp only [unstrip, List.mem_append, List.mem_singleton] at hb
      rcases hb with hb | hb
      · exact hn m (by simp) b hb
      · subst hb; rfl
    have hms : ∀ m' ∈ ms, ∀ b ∈ m', b.final = false := fun m' h' => hn m' (by simp [h'])
    simp only [objectOutputs, rfcOutputs, ZObj.feed, Bool.false_eq_true, if_false]
    rw [inflBlocks_eq_all w win _ hm]
    cases h1 : inflBlocksAll w win (unstrip m) with
    | none => rfl
    | some r =>
      obtain ⟨w1, e1⟩ := r
      simp only [Option.map_some]
      cases reset with
      | true => simp only [if_true]; rw [show ({} : ZObj) = { win := [], finished := false } from rfl, ih hms]
      | false => simp only [Bool.false_eq_true, if_false]; rw [ih hms]

/-- the object once it has seen end-of-stream: everything later is delivered as `b''` -/
theorem objectOutputs_finished (w : Nat) (win : Bytes) (msgs : List (List Blk)) :
    objectOutputs w false { win := win, finished := true } msgs = some (msgs.map (fun _ => [])) := by
  induction msgs with
  | nil => rfl
  | cons m ms ih => simp [objectOutputs, ZObj.feed, ih]

/-- **the core model's "inflate the whole history and deliver what is new" is the streaming
    object**, whatever the blocks are (BFINAL included) -/
theorem whole_eq_object (w : Nat) (reset : Bool) (msgs : List (List Blk)) (hist : List Blk)
    (o : ZObj) (e0 : Bytes) (h0 : inflBlocks w [] hist = some (o.win, e0, o.finished)) :
    wholeOutputs w reset hist e0.length msgs = objectOutputs w reset o msgs := by
  induction msgs generalizing hist o e0 with
  | nil => rfl
  | cons m ms ih =>
    have hfresh : inflBlocks w [] [] = some (({} : ZObj).win, [], ({} : ZObj).finished) := rfl
    simp only [wholeOutputs, objectOutputs, ZObj.feed]
    rw [inflBlocks_append, h0]
    cases hf : o.finished with
    | true =>
      simp only [if_true]
      have h0' : inflBlocks w [] (hist ++ unstrip m) = some (o.win, e0, o.finished) := by
        rw [inflBlocks_append, h0, hf]
      cases reset with
      | true =>
        simp only [if_true]
        have := ih [] {} [] hfresh
        simp only [List.length_nil] at this
        rw [this]
        cases objectOutputs w true {} ms <;> simp
      | false =>
        simp only [Bool.false_eq_true, if_false]
        rw [ih (hist ++ unstrip m) o e0 h0']
        cases objectOutputs w false o ms <;> simp
    | false =>
      simp only [Bool.false_eq_true, if_false]
      cases h1 : inflBlocks w o.win (unstrip m) with
      | none => rfl
      | some r =>
        obtain ⟨w1, e1, f1⟩ := r
        simp only
        have hdrop : (e1 ++ e0).reverse.drop e0.length = e1.reverse := by
          rw [List.reverse_append, List.drop_append_of_le_length (by simp)]
          simp
        have h0' : inflBlocks w [] (hist ++ unstrip m) = some (w1, e1 ++ e0, f1) := by
          rw [inflBlocks_append, h0, hf]; simp only [h1]
        cases reset with
        | true =>
          simp only [if_true]
          have := ih [] {} [] hfresh
          simp only [List.length_nil] at this
          rw [this, hdrop]
        | false =>
          simp only [Bool.false_eq_true, if_false]
          rw [ih (hist ++ unstrip m) { win := w1, finished := f1 } (e1 ++ e0) h0', hdrop]

/-- a message sent as one non-final block -/
def oneBlock (toks : List Token) : List Blk := [{ final := false, toks := toks }]

theorem inflBlocks_oneBlock (w : Nat) (win : Bytes) (toks : List Token) :
    inflBlocks w win (unstrip (oneBlock toks)) =
      (inflTokens w win toks).map (fun r => (r.1, r.2, false)) := by
  simp only [unstrip, oneBlock, List.cons_append, List.nil_append, inflBlocks, tailBlk, inflTokens,
    Bool.false_eq_true, if_false]
  cases inflTokens w win toks with
  | none => rfl
  | some r =>
    obtain ⟨w1, e1⟩ := r
    simp [tokOut]

theorem inflBlocksAll_oneBlock (w : Nat) (win : Bytes) (toks : List Token) :
    inflBlocksAll w win (unstrip (oneBlock toks)) = inflTokens w win toks := by
  simp only [unstrip, oneBlock, List.cons_append, List.nil_append, inflBlocksAll, tailBlk, inflTokens]
  cases inflTokens w win toks with
  | none => rfl
  | some r =>
    obtain ⟨w1, e1⟩ := r
    simp

theorem rfc_oneBlock (w : Nat) (reset : Bool) (win : Bytes) (tss : List (List Token)) :
    rfcOutputs w reset win (tss.map oneBlock) = receiverOutputs w reset win tss := by
  induction tss generalizing win with
  | nil => rfl
  | cons ts rest ih =>
    simp only [List.map_cons, rfcOutputs, receiverOutputs, inflBlocksAll_oneBlock]
    cases inflTokens w win ts with
    | none => rfl
    | some r =>
      obtain ⟨w1, e1⟩ := r
      simp only
      cases reset <;> simp [ih]

/-! ### the repaired decompress -/

theorem inflBlocksAll_append (w : Nat) (win : Bytes) (a b : List Blk) :
    inflBlocksAll w win (a ++ b) =
      match inflBlocksAll w win a with
      | none => none
      | some (w', e) =>
        match inflBlocksAll w w' b with
        | none => none
        | some (w'', e') => some (w'', e' ++ e) := by
  induction a generalizing win with
  | nil =>
    simp only [List.nil_append, inflBlocksAll]
    cases inflBlocksAll w win b with
    | none => rfl
    | some r => obtain ⟨w'', e'⟩ := r; simp
  | cons x xs ih =>
    simp only [List.cons_append, inflBlocksAll]
    cases hx : inflTokens w win x.toks with
    | none => rfl
    | some r =>
      obtain ⟨w1, e1⟩ := r
      simp only
      rw [ih w1]
      cases h1 : inflBlocksAll w w1 xs with
      | none => rfl
      | some r1 =>
        obtain ⟨w2, e2⟩ := r1
        simp only
        cases inflBlocksAll w w2 b with
        | none => rfl
        | some r2 => obtain ⟨w3, e3⟩ := r2; simp [List.append_assoc]

/-- one zlib object = the blocks up to its end of stream; the rest is strictly shorter, and
    decoding the rest with the window the object ended with completes the all-blocks decode -/
theorem inflStream_spec (w : Nat) (win : Bytes) (bs : List Blk) :
    match inflStream w win bs with
    | none => inflBlocksAll w win bs = none
    | some (w', e, rest) =>
      (bs ≠ [] → rest.length < bs.length) ∧
      inflBlocksAll w win bs =
        match inflBlocksAll w w' rest with
        | none => none
        | some (w'', e') => some (w'', e' ++ e) := by
  induction bs generalizing win with
  | nil => simp [inflStream, inflBlocksAll]
  | cons x xs ih =>
    simp only [inflStream, inflBlocksAll]
    cases hx : inflTokens w win x.toks with
    | none => simp
    | some r =>
      obtain ⟨w1, e1⟩ := r
      simp only
      cases hf : x.final with
      | true =>
        simp only [if_true]
        refine ⟨fun _ => by simp, ?_⟩
        cases inflBlocksAll w w1 xs with
        | none => rfl
        | some r2 => obtain ⟨w2, e2⟩ := r2; rfl
      | false =>
        simp only [Bool.false_eq_true, if_false]
        have := ih w1
        cases hs : inflStream w w1 xs with
        | none => rw [hs] at this; simp only at this; simp [this]
        | some r2 =>
          obtain ⟨w2, e2, rest⟩ := r2
          rw [hs] at this
          simp only at this ⊢
          obtain ⟨hlen, heq⟩ := this
          refine ⟨fun _ => ?_, ?_⟩
          · cases xs with
            | nil => simp [inflStream] at hs; simp [hs.2.2]
            | cons y ys => have := hlen (by simp); simp at this ⊢; omega
          · rw [heq]
            cases inflBlocksAll w w2 rest with
            | none => rfl
            | some r3 => obtain ⟨w3, e3⟩ := r3; simp [List.append_assoc]

/-- **the restart loop of the repaired `Deflate._inflate` reads every block**: feeding a zlib
    object, and — whenever it reaches its end of stream — a new one primed with the window, is the
    same as decoding all the blocks in turn with one window -/
theorem repairedFeed_eq (w : Nat) (fuel : Nat) (win : Bytes) (bs : List Blk) (hf : bs.length < fuel) :
    repairedFeed w fuel win bs = inflBlocksAll w win bs := by
  induction fuel generalizing win bs with
  | zero => omega
  | succ fuel ih =>
    simp only [repairedFeed]
    have hs := inflStream_spec w win bs
    cases h1 : inflStream w win bs with
    | none => rw [h1] at hs; simp only at hs; rw [hs]
    | some r =>
      obtain ⟨w1, e1, rest⟩ := r
      rw [h1] at hs
      simp only at hs
      obtain ⟨hlen, heq⟩ := hs
      cases rest with
      | nil =>
        simp only
        rw [heq]; simp [inflBlocksAll]
      | cons r0 rs =>
        simp only
        have hne : bs ≠ [] := by
          intro h; subst h; simp [inflStream] at h1
        have hl := hlen hne
        rw [ih w1 (r0 :: rs) (by omega), heq]
        cases inflBlocksAll w w1 (r0 :: rs) with
        | none => rfl
        | some r2 => rfl

/-- **never wrong, for the repaired code**: for every history — BFINAL=1 blocks anywhere, valid or
    invalid data — the repaired decompress delivers for each message exactly what RFC 7692 says its
    DEFLATE data means, and fails exactly when that data is invalid -/
theorem repaired_eq_rfc (w : Nat) (reset : Bool) (msgs : List (List Blk)) (win : Bytes) :
    repairedOutputs w reset win msgs = rfcOutputs w reset win msgs := by
  induction msgs generalizing win with
  | nil => rfl
  | cons m ms ih =>
    simp only [repairedOutputs, rfcOutputs]
    rw [repairedFeed_eq w _ win (unstrip m) (by omega)]
    cases inflBlocksAll w win (unstrip m) with
    | none => rfl
    | some r =>
      obtain ⟨w1, e1⟩ := r
      simp only [ih]

/-- the core model's "inflate the whole history, deliver what is new" with the inflater of the
    repaired code is the RFC 7692 meaning, message by message -/
theorem wholeSafe_eq_rfc (w : Nat) (reset : Bool) (msgs : List (List Blk)) (hist : List Blk)
    (w0 e0 : Bytes) (h0 : inflBlocksAll w [] hist = some (w0, e0)) :
    wholeOutputsSafe w reset hist e0.length msgs = rfcOutputs w reset w0 msgs := by
  induction msgs generalizing hist w0 e0 with
  | nil => rfl
  | cons m ms ih =>
    simp only [wholeOutputsSafe, rfcOutputs]
    rw [inflBlocksAll_append, h0]
    simp only
    cases h1 : inflBlocksAll w w0 (unstrip m) with
    | none => rfl
    | some r =>
      obtain ⟨w1, e1⟩ := r
      simp only
      have hdrop : (e1 ++ e0).reverse.drop e0.length = e1.reverse := by
        rw [List.reverse_append, List.drop_append_of_le_length (by simp)]
        simp
      have h0' : inflBlocksAll w [] (hist ++ unstrip m) = some (w1, e1 ++ e0) := by
        rw [inflBlocksAll_append, h0]; simp only [h1]
      cases reset with
      | true =>
        simp only [if_true]
        have := ih [] [] [] rfl
        simp only [List.length_nil] at this
        rw [this, hdrop]
      | false =>
        simp only [Bool.false_eq_true, if_false]
        rw [ih (hist ++ unstrip m) w1 (e1 ++ e0) h0', hdrop]

end Lomond.Deflate
