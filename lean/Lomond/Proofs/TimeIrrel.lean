/-
  With every timer switched off (`ping_rate = 0`, `ping_timeout = 0`, `close_timeout = 0`) and an
  application that ignores Poll events, *time is unobservable*: apart from the clock ticks and the
  Poll events themselves, a connection behaves the same whatever the waits of the environment
  script are.

  `erase s` forgets everything that has to do with time: the clock, the session start, the Poll /
  Ping / Pong / Close time stamps, the `tick` and `Poll` entries of the trace and the Polls in the
  history handed to the application.  Every function `m` of the core model *respects* `erase`
  (`TI m`): running it from `erase s` or from `s` gives the same result up to `erase`.
-/
import Lomond.Proofs.Step
import Lomond.Proofs.Release
import Lomond.Proofs.EnvIrrel
import Lomond.Proofs.Timers
import Lomond.Proofs.TimerInv
import Lomond.Proofs.SegmentationRun
set_option linter.unusedSimpArgs false
set_option linter.unusedVariables false
namespace Lomond.Core.TI
open Lomond Lomond.Core Lomond.Core.Monitor

/-- not a clock tick, not a Poll event -/
def notTime : Obs → Bool
  | .tick _ => false
  | .ev .poll => false
  | _ => true

/-- not a Poll -/
def npoll : Event → Bool
  | .poll => false
  | _ => true

/-- forget the clock, every time stamp, the ticks and the Polls (and the stored script) -/
def erase (s : Sys) : Sys :=
  { s with env := [], now := 0, startTime := none, pollStart := none, nextPing := 0, lastPong := 0,
           sentCloseTime := none, trace := s.trace.filter notTime, hist := s.hist.filter npoll }

/-- the application does nothing at a Poll, and its reaction to any other event does not depend on
    the Polls it has seen before -/
structure PollBlind (r : React) : Prop where
  atPoll : ∀ h, r (.poll :: h) = []
  blind : ∀ e h, npoll e = true → r (e :: h) = r (e :: h.filter npoll)

/-- all timers off, Poll-blind application -/
structure Off (s : Sys) : Prop where
  rate : s.cfg.pingRate = 0
  pt : s.cfg.pingTimeout = 0
  ct : s.cfg.closeTimeout = 0
  pb : PollBlind s.react

theorem Off.erase {s : Sys} (h : Off s) : Off (erase s) := ⟨h.rate, h.pt, h.ct, h.pb⟩

theorem Off.of_step {s s' : Sys} (h : Off s) (st : Step s s') : Off s' :=
  ⟨by rw [st.cfg]; exact h.rate, by rw [st.cfg]; exact h.pt, by rw [st.cfg]; exact h.ct, by rw [st.react]; exact h.pb⟩

theorem filter_idem {α : Type} (p : α → Bool) (l : List α) : (l.filter p).filter p = l.filter p := by
  rw [List.filter_filter]; simp

theorem erase_idem (s : Sys) : erase (erase s) = erase s := by
  unfold erase
  simp only [filter_idem]

theorem erase_cfg (s : Sys) : (erase s).cfg = s.cfg := rfl
theorem erase_react (s : Sys) : (erase s).react = s.react := rfl
theorem erase_env (s : Sys) : (erase s).env = [] := rfl
theorem erase_sockOpen (s : Sys) : (erase s).sockOpen = s.sockOpen := rfl
theorem erase_selOpen (s : Sys) : (erase s).selOpen = s.selOpen := rfl
theorem erase_ready (s : Sys) : (erase s).ready = s.ready := rfl
theorem erase_closing (s : Sys) : (erase s).closing = s.closing := rfl
theorem erase_closed (s : Sys) : (erase s).closed = s.closed := rfl
theorem erase_compression (s : Sys) : (erase s).compression = s.compression := rfl
theorem erase_parsedResponse (s : Sys) : (erase s).parsedResponse = s.parsedResponse := rfl
theorem erase_frames (s : Sys) : (erase s).frames = s.frames := rfl
theorem erase_decompress (s : Sys) : (erase s).decompress = s.decompress := rfl
theorem erase_inflHist (s : Sys) : (erase s).inflHist = s.inflHist := rfl
theorem erase_inflOut (s : Sys) : (erase s).inflOut = s.inflOut := rfl
theorem erase_p (s : Sys) : (erase s).p = s.p := rfl
theorem erase_keyCtr (s : Sys) : (erase s).keyCtr = s.keyCtr := rfl
theorem erase_writeCtr (s : Sys) : (erase s).writeCtr = s.writeCtr := rfl
theorem erase_abandonedWith (s : Sys) : (erase s).abandonedWith = s.abandonedWith := rfl
theorem erase_pollStart (s : Sys) : (erase s).pollStart = none := rfl
theorem erase_startTime (s : Sys) : (erase s).startTime = none := rfl
theorem erase_hist (s : Sys) : (erase s).hist = s.hist.filter npoll := rfl
theorem erase_trace (s : Sys) : (erase s).trace = s.trace.filter notTime := rfl
theorem erase_sessionTime (s : Sys) : sessionTime (erase s) = 0 := rfl

/-- rewrite the fields of `erase s` that a function reads into fields of `s` -/
macro "erase_fields" : tactic =>
  `(tactic| simp only [erase_cfg, erase_react, erase_env, erase_sockOpen, erase_selOpen, erase_ready, erase_closing,
      erase_closed, erase_compression, erase_parsedResponse, erase_frames, erase_decompress, erase_inflHist,
      erase_inflOut, erase_p, erase_keyCtr, erase_writeCtr, erase_abandonedWith, erase_pollStart, erase_startTime,
      erase_sessionTime])

/-- `m` respects `erase` -/
def TI (m : M α) : Prop := ∀ s, Off s → Res.mapS erase (m (erase s)) = Res.mapS erase (m s)

theorem ti_pure (a : α) : TI (pure a : M α) := by
  intro s _
  show Res.ok a (erase (erase s)) = Res.ok a (erase s)
  rw [erase_idem]

theorem ti_throwE (x : Exn) : TI (throwE x : M α) := by
  intro s _
  show Res.err x (erase (erase s)) = Res.err x (erase s)
  rw [erase_idem]

theorem mapS_ok_inv {r : Res α} {a : α} {s' : Sys} (h : Res.mapS erase r = .ok a s') :
    ∃ s1, r = .ok a s1 ∧ erase s1 = s' := by
  cases r with
  | ok b s1 => simp only [Res.mapS_ok] at h; cases h; exact ⟨s1, rfl, rfl⟩
  | err x s1 => simp only [Res.mapS_err] at h; cases h

theorem mapS_err_inv {r : Res α} {x : Exn} {s' : Sys} (h : Res.mapS erase r = .err x s') :
    ∃ s1, r = .err x s1 ∧ erase s1 = s' := by
  cases r with
  | ok b s1 => simp only [Res.mapS_ok] at h; cases h
  | err y s1 => simp only [Res.mapS_err] at h; cases h; exact ⟨s1, rfl, rfl⟩

/-- two runs of `m` from states with the same erasure -/
theorem TI.two {m : M α} (h : TI m) {s u : Sys} (hs : Off s) (hu : Off u) (e : erase s = erase u) :
    Res.mapS erase (m s) = Res.mapS erase (m u) := by
  rw [← h s hs, ← h u hu, e]

theorem ti_bind {m : M α} {f : α → M β} (hm : TI m) (sm : Spec Step m) (hf : ∀ a, TI (f a)) : TI (m >>= f) := by
  intro s hs
  have h0 := hm s hs
  cases h2 : m s with
  | ok a s2 =>
    rw [h2] at h0
    obtain ⟨s1, h1, e1⟩ := mapS_ok_inv h0
    rw [bind_ok h1, bind_ok h2]
    exact (hf a).two (hs.erase.of_step (sm.ok h1)) (hs.of_step (sm.ok h2)) e1
  | err x s2 =>
    rw [h2] at h0
    obtain ⟨s1, h1, e1⟩ := mapS_err_inv h0
    rw [bind_err h1, bind_err h2]
    simp only [Res.mapS_err, e1]

theorem ti_tryC {m : M α} {hd : Exn → M α} (hm : TI m) (sm : Spec Step m) (hh : ∀ x, TI (hd x)) :
    TI (tryC m hd) := by
  intro s hs
  have h0 := hm s hs
  cases h2 : m s with
  | ok a s2 =>
    rw [h2] at h0
    obtain ⟨s1, h1, e1⟩ := mapS_ok_inv h0
    rw [tryC_ok h1, tryC_ok h2]
    simp only [Res.mapS_ok, e1]
  | err x s2 =>
    rw [h2] at h0
    obtain ⟨s1, h1, e1⟩ := mapS_err_inv h0
    rw [tryC_err h1, tryC_err h2]
    exact (hh x).two (hs.erase.of_step (sm.err h1)) (hs.of_step (sm.err h2)) e1

theorem ti_ite (c : Prop) [Decidable c] {m k : M α} (hm : TI m) (hk : TI k) : TI (if c then m else k) := by
  split <;> assumption

/-- `modS f` where `f` commutes with `erase` up to `erase` -/
theorem ti_modS {f : Sys → Sys} (h : ∀ s, erase (f (erase s)) = erase (f s)) : TI (modS f) := by
  intro s _
  show Res.ok () (erase (f (erase s))) = Res.ok () (erase (f s))
  rw [h]

theorem ti_liftE (r : Except Exn α) : TI (liftE r) := by
  intro s _
  unfold liftE
  cases r <;> simp only [Res.mapS_ok, Res.mapS_err, erase_idem]

/-- `let s ← getS; f s` where `f` looks at `s` only through what `erase` keeps -/
theorem ti_getS_bind {f : Sys → M α} (h1 : ∀ s, f (erase s) = f s) (h2 : ∀ s, TI (f s)) : TI (getS >>= f) := by
  intro s hs
  show Res.mapS erase (f (erase s) (erase s)) = Res.mapS erase (f s s)
  rw [h1]
  exact h2 s s hs

/-! ### leaves -/

@[simp] theorem nt_wr (d : Bytes) : notTime (.wr d) = true := rfl
@[simp] theorem nt_wrz (o : Nat) (d : Bytes) : notTime (.wrz o d) = true := rfl
@[simp] theorem nt_wrFail (d : Bytes) : notTime (.wrFail d) = true := rfl
@[simp] theorem nt_sockClose : notTime .sockClose = true := rfl
@[simp] theorem nt_selClose : notTime .selClose = true := rfl
@[simp] theorem nt_res (r : ActRes) : notTime (.res r) = true := rfl
@[simp] theorem nt_incomplete : notTime .incomplete = true := rfl
@[simp] theorem nt_tick (n : Nat) : notTime (.tick n) = false := rfl
@[simp] theorem nt_ev (e : Event) : notTime (.ev e) = npoll e := by cases e <;> rfl

/-- closes leaf goals: both sides are explicit results built from `erase s` resp. `s` -/
macro "ti_close" : tactic =>
  `(tactic| (simp [*, Res.mapS, erase, List.filter_cons, filter_idem]))

theorem ti_closeSocket : TI closeSocket := by
  intro s _
  generalize hr : closeSocket s = r
  unfold closeSocket at hr ⊢
  repeat' split at hr
  all_goals (subst hr; ti_close)

theorem ti_selClose : TI selClose := by
  intro s _
  generalize hr : selClose s = r
  unfold selClose at hr ⊢
  repeat' split at hr
  all_goals (subst hr; ti_close)

theorem ti_write (d : Bytes) (z : Option (Nat × Bytes)) : TI (write d z) := by
  intro s _
  generalize hr : write d z s = r
  unfold write at hr ⊢
  simp only [] at hr
  repeat' split at hr
  all_goals (subst hr; ti_close)

theorem TI.ok {m : M α} (h : TI m) {s s' : Sys} {a : α} (hs : Off s) (e : m s = .ok a s') :
    ∃ s1, m (erase s) = .ok a s1 ∧ erase s1 = erase s' := by
  have := h s hs
  rw [e] at this
  exact mapS_ok_inv this

theorem TI.err {m : M α} (h : TI m) {s s' : Sys} {x : Exn} (hs : Off s) (e : m s = .err x s') :
    ∃ s1, m (erase s) = .err x s1 ∧ erase s1 = erase s' := by
  have := h s hs
  rw [e] at this
  exact mapS_err_inv this

theorem ti_sendFrame (op : Nat) (pl : Bytes) (c : Option Bytes) : TI (sendFrame op pl c) := by
  intro s hs
  have hs' : Off { s with keyCtr := s.keyCtr + 1 } := ⟨hs.rate, hs.pt, hs.ct, hs.pb⟩
  unfold sendFrame
  simp only []
  cases c with
  | some plain => exact ti_write [] (some (op, plain)) { s with keyCtr := s.keyCtr + 1 } hs'
  | none =>
    simp only []
    have hk : (erase s).cfg.maskKey (erase s).keyCtr = s.cfg.maskKey s.keyCtr := rfl
    rw [hk]
    cases Frame.build op pl (s.cfg.maskKey s.keyCtr) with
    | some bytes => exact ti_write bytes none { s with keyCtr := s.keyCtr + 1 } hs'
    | none => simp only []; ti_close

theorem erase_setClosing (s : Sys) (t : Option Nat) :
    erase { s with closing := true, sentCloseTime := t } = { erase s with closing := true } := rfl

/-- the argument checks of `WebSocket.close()`: `inl r` = return `r` without sending, `inr payload`
    = send a Close frame with this payload -/
def closeGuard (closeArgs : Bool) (code : Option Nat) (reason : Arg) : Sum ActRes Bytes :=
  let tooBig : Bool := match code with | some c => decide (c ≥ 65536) | none => false
  match reason with
  | .other => if closeArgs ∧ tooBig then .inl .valueError else .inl .typeError
  | .bytes b =>
    if closeArgs ∧ (tooBig ∨ (buildClosePayload code b).length > 125) then .inl .valueError
    else if tooBig then .inl .structError else .inr (buildClosePayload code b)
  | .str cps =>
    if closeArgs ∧ (tooBig ∨ (buildClosePayload code (encodeReplace cps)).length > 125) then .inl .valueError
    else if tooBig then .inl .structError else .inr (buildClosePayload code (encodeReplace cps))

/-- the Close frame went out: closing, the close timer armed -/
def markClosing (s : Sys) : Sys := { s with closing := true, sentCloseTime := some (sessionTime s) }

theorem erase_markClosing (s : Sys) : erase (markClosing s) = { erase s with closing := true } := rfl

theorem ite_app2 {β γ : Type} (A : Prop) [Decidable A] (k : β → γ) (v w : β) :
    (if A then k v else k w) = k (if A then v else w) := by split <;> rfl

theorem ite_app3 {β γ : Type} (A B : Prop) [Decidable A] [Decidable B] (k : β → γ) (v w p : β) :
    (if A then k v else if B then k w else k p) = k (if A then v else if B then w else p) := by
  split
  · rfl
  · split <;> rfl

/-- what `close()` does once its arguments are checked -/
def closeCont (s : Sys) (g : Sum ActRes Bytes) : Res ActRes :=
  match g with
  | .inl res => .ok res s
  | .inr payload =>
    match sendFrame Gen.opClose payload none s with
    | .ok _ s' => .ok .ok (markClosing s')
    | .err x s' => .err x s'

theorem wsClose_eq (c : Option Nat) (r : Arg) (s : Sys) :
    wsClose c r s =
      if s.closed then .ok .ok s
      else if s.closing then .ok .ok s
      else closeCont s (closeGuard s.cfg.v.closeArgs c r) := by
  unfold wsClose closeGuard
  by_cases h1 : s.closed = true
  · simp only [h1, if_true]
  · by_cases h2 : s.closing = true
    · simp only [h1, h2, if_true, if_false]
    · simp only [h1, h2, if_false]
      cases r with
      | other => exact ite_app2 _ (closeCont s) (.inl .valueError) (.inl .typeError)
      | bytes b => exact ite_app3 _ _ (closeCont s) (.inl .valueError) (.inl .structError) (.inr _)
      | str cps => exact ite_app3 _ _ (closeCont s) (.inl .valueError) (.inl .structError) (.inr _)

theorem ti_wsClose (c : Option Nat) (r : Arg) : TI (wsClose c r) := by
  intro s hs
  rw [wsClose_eq, wsClose_eq]
  erase_fields
  by_cases h1 : s.closed = true
  · simp only [h1, if_true, Res.mapS_ok, erase_idem]
  · by_cases h2 : s.closing = true
    · simp only [h1, h2, if_true, if_false, Bool.false_eq_true, Res.mapS_ok, erase_idem]
    · simp only [h1, h2, if_false, Bool.false_eq_true]
      unfold closeCont
      cases closeGuard s.cfg.v.closeArgs c r with
      | inl res => simp only [Res.mapS_ok, erase_idem]
      | inr payload =>
        simp only []
        cases hsf : sendFrame Gen.opClose payload none s with
        | ok a s' =>
          obtain ⟨s1, h1', e1⟩ := (ti_sendFrame _ _ _).ok hs hsf
          rw [h1']
          simp only [Res.mapS_ok, erase_markClosing, e1]
        | err x s' =>
          obtain ⟨s1, h1', e1⟩ := (ti_sendFrame _ _ _).err hs hsf
          rw [h1']
          simp only [Res.mapS_err, e1]

theorem ti_sendData (op : Nat) (pl : Bytes) (c : Bool) : TI (sendData op pl c) := by
  intro s hs
  unfold sendData
  erase_fields
  by_cases h : c = true ∧ s.compression.isSome = true
  · simp only [h, and_self, if_true]; exact ti_sendFrame _ _ _ s hs
  · simp only [h, if_false]; exact ti_sendFrame _ _ _ s hs

theorem ti_log_res (r : ActRes) : TI (log (.res r)) := by
  unfold log
  apply ti_modS
  intro s
  simp [erase, List.filter_cons, filter_idem]

theorem ti_logRes {m : M ActRes} (hm : TI m) (sm : Spec Step m) : TI (logRes m) := by
  unfold logRes
  exact ti_bind hm sm (fun r => ti_log_res r)

theorem ti_doAct (a : Act) : TI (doAct a) := by
  unfold doAct
  split
  all_goals first
    | exact ti_logRes (ti_ite _ (ti_pure _) (ti_sendData _ _ _)) (spec_ite _ (spec_pure step_po _) (step_sendData _ _ _))
    | exact ti_logRes (ti_ite _ (ti_pure _) (ti_sendFrame _ _ _)) (spec_ite _ (spec_pure step_po _) (step_sendFrame _ _ _))
    | exact ti_logRes (ti_pure _) (spec_pure step_po _)
    | exact ti_logRes (ti_sendData _ _ _) (step_sendData _ _ _)
    | exact ti_logRes (ti_wsClose _ _) (step_wsClose _ _)
    | exact ti_logRes (ti_bind ti_closeSocket step_closeSocket (fun _ => ti_pure _))
        (spec_bind step_po step_closeSocket (fun _ => spec_pure step_po _))
    | (intro s _; show Res.err _ _ = Res.err _ _; simp [erase, filter_idem])

theorem ti_doActs (as : List Act) : TI (doActs as) := by
  induction as with
  | nil => exact ti_pure ()
  | cons a r ih => unfold doActs; exact ti_bind (ti_doAct a) (step_doAct a) (fun _ => ih)

/-- the state in which the application sees event `e` -/
def push (e : Event) (s : Sys) : Sys := { s with trace := .ev e :: s.trace, hist := e :: s.hist }

theorem yieldEv_eq (e : Event) (s : Sys) : yieldEv e s = doActs (s.react (e :: s.hist)) (push e s) := rfl

theorem erase_push_poll (s : Sys) : erase (push .poll s) = erase s := by
  simp [erase, push, List.filter_cons, npoll]

theorem erase_push (e : Event) (s : Sys) (he : npoll e = true) :
    erase (push e s) = push e (erase s) := by
  simp [erase, push, List.filter_cons, he]

theorem yieldEv_poll (s : Sys) (hs : Off s) : yieldEv .poll s = .ok () (push .poll s) := by
  rw [yieldEv_eq, hs.pb.atPoll]
  rfl

theorem ti_yieldEv (e : Event) : TI (yieldEv e) := by
  intro s hs
  cases he : npoll e with
  | false =>
    have : e = .poll := by cases e <;> first | rfl | (simp [npoll] at he)
    subst this
    rw [yieldEv_poll s hs, yieldEv_poll (erase s) hs.erase]
    simp only [Res.mapS_ok, erase_push_poll, erase_idem]
  | true =>
    rw [yieldEv_eq, yieldEv_eq]
    have h1 : (erase s).react (e :: (erase s).hist) = s.react (e :: s.hist) := by
      show s.react (e :: s.hist.filter npoll) = s.react (e :: s.hist)
      rw [hs.pb.blind e s.hist he]
    rw [h1]
    have hp : Off (push e s) := ⟨hs.rate, hs.pt, hs.ct, hs.pb⟩
    have hp' : Off (push e (erase s)) := ⟨hs.rate, hs.pt, hs.ct, hs.pb⟩
    apply (ti_doActs _).two hp' hp
    rw [erase_push e s he, erase_push e (erase s) he, erase_idem]

/-- `_check_poll` is invisible: it returns normally and changes nothing but what `erase` forgets -/
theorem checkPoll_erase (s : Sys) (hs : Off s) : ∃ s', checkPoll s = .ok () s' ∧ erase s' = erase s := by
  by_cases h : Timers.pollDue s
  · rw [Timers.checkPoll_fires s h]
    have hs' : Off (Timers.pollMark s) := ⟨hs.rate, hs.pt, hs.ct, hs.pb⟩
    refine ⟨_, yieldEv_poll _ hs', ?_⟩
    rw [erase_push_poll]
    rfl
  · cases hp : s.pollStart with
    | none => exact (h (Or.inl hp)).elim
    | some p0 =>
      have hlt : sessionTime s - p0 < s.cfg.poll := by
        apply Nat.lt_of_not_le
        intro hge
        exact h (Or.inr ⟨p0, hp, hge⟩)
      exact ⟨s, Timers.checkPoll_quiet s p0 hp hlt, rfl⟩

theorem off_of_erase_eq {s s' : Sys} (hs : Off s) (e : erase s' = erase s) : Off s' := by
  have h1' : (erase s').cfg = (erase s).cfg := congrArg Sys.cfg e
  have h2' : (erase s').react = (erase s).react := congrArg Sys.react e
  have h1 : s'.cfg = s.cfg := h1'
  have h2 : s'.react = s.react := h2'
  exact ⟨by rw [h1]; exact hs.rate, by rw [h1]; exact hs.pt, by rw [h1]; exact hs.ct, by rw [h2]; exact hs.pb⟩

/-- `_regular()` is invisible -/
theorem regular_erase (s : Sys) (hs : Off s) : ∃ s', regular s = .ok () s' ∧ erase s' = erase s := by
  cases hr : s.ready with
  | false => exact ⟨s, Timers.regular_not_ready s hr, rfl⟩
  | true =>
    rw [Timers.regular_ready s hr]
    obtain ⟨s1, h1, e1⟩ := checkPoll_erase s hs
    have hs1 := off_of_erase_eq hs e1
    rw [bind_ok h1]
    have a : ¬ Timers.pingDue s1 := fun h => h.1 hs1.rate
    have b : ¬ Timers.pingTimeoutDue s1 := fun h => h.1 hs1.pt
    have c : ¬ Timers.closeTimeoutDue s1 := fun h => h.1 hs1.ct
    rw [bind_ok (Timers.checkAutoPing_quiet s1 a), bind_ok (Timers.checkPingTimeout_quiet s1 b)]
    exact ⟨s1, Timers.checkCloseTimeout_quiet s1 c, e1⟩

theorem ti_regular : TI regular := by
  intro s hs
  obtain ⟨s1, h1, e1⟩ := regular_erase s hs
  obtain ⟨s2, h2, e2⟩ := regular_erase (erase s) hs.erase
  rw [h1, h2]
  simp only [Res.mapS_ok, e1, e2, erase_idem]

theorem ti_onEvent (e : Event) : TI (onEvent e) := by
  intro s hs
  generalize hr : onEvent e s = res
  unfold onEvent at hr ⊢
  repeat' split at hr
  all_goals (subst hr)
  all_goals try erase_fields
  all_goals first
    | (simp [*, Res.mapS, erase, filter_idem]; done)
    | skip
  all_goals
    rename_i hsf
    first
      | (obtain ⟨s1, h1, e1⟩ := (ti_sendFrame _ _ _).ok hs hsf
         simp only [*, ↓reduceIte, Res.mapS_ok, Res.mapS_err])
      | (obtain ⟨s1, h1, e1⟩ := (ti_sendFrame _ _ _).err hs hsf
         simp only [*, ↓reduceIte, Res.mapS_ok, Res.mapS_err])

theorem ti_onDisconnect : TI onDisconnect := by
  unfold onDisconnect
  refine ti_bind ti_closeSocket step_closeSocket (fun _ => ti_modS (fun s => ?_))
  simp [erase, filter_idem]

theorem step_body (e : Event) : Spec Step (do onEvent e; yieldEv e; regular : M Unit) :=
  spec_bind step_po (step_onEvent e) (fun _ => spec_bind step_po (step_yieldEv e) (fun _ => step_regular))

theorem ti_feedYield (b : Bool) (e : Event) : TI (feedYield b e) := by
  unfold feedYield
  refine ti_tryC (ti_bind (ti_onEvent e) (step_onEvent e) (fun _ =>
    ti_bind (ti_yieldEv e) (step_yieldEv e) (fun _ => ti_regular))) (step_body e) (fun x => ?_)
  refine ti_bind (ti_ite _ ti_onDisconnect (ti_pure _)) (spec_ite _ step_onDisconnect (spec_pure step_po _))
    (fun _ => ti_throwE _)

/-! ### the receive pipeline -/

theorem ti_inflateMessage (j : Bytes) : TI (inflateMessage j) := by
  intro s _
  generalize hr : inflateMessage j s = res
  unfold inflateMessage at hr ⊢
  simp only [] at hr
  repeat' split at hr
  all_goals (subst hr; erase_fields; simp only [*, ↓reduceIte, Bool.false_eq_true]; ti_close)

theorem ti_buildMessage (fs : List Frame) : TI (buildMessage fs) := by
  unfold buildMessage
  split
  · exact ti_throwE _
  · simp only []
    refine ti_getS_bind (fun _ => rfl) (fun s => ?_)
    exact ti_bind (ti_ite _ (ti_inflateMessage _) (ti_pure _))
      (spec_ite _ (step_inflateMessage _) (spec_pure step_po _)) (fun _ => ti_liftE _)

theorem ti_checkCloseCode (c : Option Nat) : TI (checkCloseCode c) := by
  unfold checkCloseCode
  splits <;> first | exact ti_pure _ | exact ti_throwE _

theorem ti_raiseIfArgError (r : ActRes) : TI (raiseIfArgError r) := by
  unfold raiseIfArgError
  split <;> first | exact ti_pure _ | exact ti_throwE _

theorem ti_modS_kept {f : Sys → Sys} (h : ∀ s, erase (f (erase s)) = erase (f s)) : TI (modS f) := ti_modS h

macro "ti_upd" : tactic => `(tactic| (apply ti_modS; intro s; simp [erase, filter_idem]))

theorem ti_onClose (c : Option Nat) (r : List Nat) : TI (onClose c r) := by
  unfold onClose
  refine ti_bind (ti_checkCloseCode c) (step_checkCloseCode c) (fun _ => ti_getS_bind (fun _ => rfl) (fun s => ?_))
  split
  · exact ti_pure _
  · split
    · refine ti_bind (ti_feedYield _ _) (step_feedYield _ _) (fun _ => ?_)
      ti_upd
    · refine ti_bind (ti_feedYield _ _) (step_feedYield _ _) (fun _ =>
        ti_bind (ti_wsClose _ _) (step_wsClose _ _) (fun r =>
          ti_bind (ti_raiseIfArgError r) (step_raiseIfArgError r) (fun _ => ?_)))
      ti_upd

theorem ti_onMessage (m : Msg) : TI (onMessage m) := by
  unfold onMessage
  split <;> first | exact ti_onClose _ _ | exact ti_feedYield _ _ | exact ti_pure _

theorem step_modS_frames (f : Frame) : Spec Step (modS fun s => { s with frames := s.frames ++ [f] }) := by
  intro s; step_leaf

theorem ti_onDataFrame (f : Frame) : TI (onDataFrame f) := by
  unfold onDataFrame
  refine ti_getS_bind (fun _ => rfl) (fun s => ?_)
  split
  · exact ti_throwE _
  · split
    · exact ti_throwE _
    · refine ti_bind (by ti_upd) (step_modS_frames f) (fun _ => ?_)
      split
      · refine ti_getS_bind (fun _ => rfl) (fun s => ti_bind (ti_buildMessage _) (step_buildMessage _) (fun m =>
          ti_bind (ti_onMessage m) (step_onMessage m) (fun _ => ?_)))
        ti_upd
      · exact ti_pure _

theorem ti_notClosed : TI notClosed := by
  intro s _
  show Res.ok (!(erase s).closed) (erase (erase s)) = Res.ok (!s.closed) (erase s)
  rw [erase_idem]
  rfl

theorem ti_onFrame (f : Frame) : TI (onFrame f) := by
  unfold onFrame
  split
  · exact ti_bind (ti_buildMessage _) (step_buildMessage _) (fun m => ti_onMessage m)
  · exact ti_onDataFrame _

theorem ti_onOut (o : Out) : TI (onOut o) := by
  unfold onOut
  split
  · refine ti_getS_bind (fun _ => rfl) (fun s => ?_)
    split
    · refine ti_bind (by ti_upd) (spec_modS (fun s => by step_leaf)) (fun _ =>
        ti_bind ti_onDisconnect step_onDisconnect (fun _ =>
          ti_bind (ti_feedYield _ _) (step_feedYield _ _) (fun _ => ti_pure _)))
    · refine ti_bind (by ti_upd) (spec_modS (fun s => by
          refine ⟨rfl, rfl, id, id, rfl, ?_, ⟨[], rfl⟩⟩
          intro h
          simp only []
          split <;> exact h)) (fun _ =>
        ti_bind (ti_feedYield _ _) (step_feedYield _ _) (fun _ =>
          ti_bind (by ti_upd) (spec_modS (fun s => by step_leaf)) (fun _ => ti_notClosed)))
  · exact ti_bind (ti_onFrame _) (step_onFrame _) (fun _ => ti_notClosed)

theorem erase_setP (s : Sys) (q : PState) : erase { s with p := q } = { erase s with p := q } := rfl

theorem off_setP {s : Sys} (h : Off s) (q : PState) : Off { s with p := q } := ⟨h.rate, h.pt, h.ct, h.pb⟩

theorem ti_feedLoop (data : Bytes) : TI (feedLoop data) := by
  induction h : data.length using Nat.strongRecOn generalizing data with
  | _ n ih =>
    intro s hs
    rw [feedLoop, feedLoop.eq_1 data s]
    by_cases hd : data = []
    · simp only [hd, dite_true, Res.mapS_ok, erase_idem]
    · simp only [hd, dite_false]
      have hlt : (data.drop (s.p.remPred + 1)).length < n := by
        have : data.length ≠ 0 := fun hl => hd (List.eq_nil_of_length_eq_zero hl)
        simp only [List.length_drop]; omega
      show Res.mapS erase (match biteBytes s.cfg.v s.p (data.take (s.p.remPred + 1)) with
            | .error x => Res.err x (erase { s with p := deadParser s.p })
            | .ok (p', out) =>
              match out with
              | none => feedLoop (data.drop (s.p.remPred + 1)) (erase { s with p := p' })
              | some o =>
                match onOut o (erase { s with p := p' }) with
                | .err x s2 => .err x s2
                | .ok true s2 => feedLoop (data.drop (s.p.remPred + 1)) s2
                | .ok false s2 => .ok false s2) = _
      cases hb : biteBytes s.cfg.v s.p (data.take (s.p.remPred + 1)) with
      | error x => simp only [Res.mapS_err, erase_idem]
      | ok r =>
        obtain ⟨p', out⟩ := r
        cases out with
        | none => exact ih _ hlt _ rfl { s with p := p' } (off_setP hs p')
        | some o =>
          simp only
          have ho := ti_onOut o { s with p := p' } (off_setP hs p')
          cases hr : onOut o { s with p := p' } with
          | err x s2 =>
            rw [hr] at ho
            obtain ⟨s1, h1, e1⟩ := mapS_err_inv ho
            rw [h1]
            simp only [Res.mapS_err, e1]
          | ok go s2 =>
            rw [hr] at ho
            obtain ⟨s1, h1, e1⟩ := mapS_ok_inv ho
            rw [h1]
            have o1 : Off s1 := (off_setP hs p').erase.of_step ((step_onOut o).ok h1)
            have o2 : Off s2 := (off_setP hs p').of_step ((step_onOut o).ok hr)
            cases go with
            | true => exact (ih _ hlt _ rfl).two o1 o2 e1
            | false => simp only [Res.mapS_ok, e1]

theorem ti_afterHeader (rest : Bytes) (out : Option Out) : TI (afterHeader rest out) := by
  unfold afterHeader
  split
  · refine ti_bind (ti_onOut _) (step_onOut _) (fun go => ?_)
    split
    · exact ti_bind (ti_feedLoop _) (step_feedLoop _) (fun _ => ti_pure _)
    · exact ti_pure _
  · exact ti_bind (ti_feedLoop _) (step_feedLoop _) (fun _ => ti_pure _)

theorem ti_feedHeader (data : Bytes) : TI (feedHeader data) := by
  intro s hs
  generalize hr : feedHeader data s = res
  unfold feedHeader at hr ⊢
  simp only [] at hr
  repeat' split at hr
  all_goals first
    | (subst hr; erase_fields; simp only [*, ↓reduceIte, Bool.false_eq_true]; ti_close; done)
    | skip
  rename_i _ i hsep hlong _ p' out hres
  have h2 := ti_afterHeader ((s.p.buf ++ data).drop (i + Gen.headerSep.length)) out { s with p := p' } (off_setP hs p')
  rw [hr] at h2
  erase_fields
  simp only [hsep, hlong, hres, if_false, Bool.false_eq_true]
  exact h2

theorem ti_feedBody (data : Bytes) : TI (feedBody data) := by
  intro s hs
  unfold feedBody
  by_cases hc : s.p.cont = .header
  · have hc' : (erase s).p.cont = .header := hc
    rw [if_pos hc, if_pos hc']; exact ti_feedHeader data s hs
  · have hc' : ¬ (erase s).p.cont = .header := hc
    rw [if_neg hc, if_neg hc']
    have h := ti_feedLoop data s hs
    cases h2 : feedLoop data s with
    | ok b s2 =>
      rw [h2] at h
      obtain ⟨s1, h1, e1⟩ := mapS_ok_inv h
      rw [h1]
      simp only [Res.mapS_ok, e1]
    | err x s2 =>
      rw [h2] at h
      obtain ⟨s1, h1, e1⟩ := mapS_err_inv h
      rw [h1]
      simp only [Res.mapS_err, e1]

theorem ti_feedHandler (x : Exn) : TI (feedHandler x) := by
  unfold feedHandler
  split
  · exact ti_bind (ti_feedYield _ _) (step_feedYield _ _) (fun _ => ti_throwE _)
  · exact ti_bind (ti_feedYield _ _) (step_feedYield _ _) (fun _ => ti_throwE _)
  · exact ti_bind (ti_feedYield _ _) (step_feedYield _ _) (fun _ =>
      ti_bind (ti_wsClose _ _) (step_wsClose _ _) (fun r =>
        ti_bind (ti_raiseIfArgError r) (step_raiseIfArgError r) (fun _ => ti_throwE _)))
  · exact ti_throwE _

theorem ti_unwrapOuter (x : Exn) : TI (unwrapOuter x) := by
  unfold unwrapOuter; split <;> exact ti_throwE _

theorem ti_wsFeed (data : Bytes) : TI (wsFeed data) := by
  intro s hs
  unfold wsFeed
  by_cases hc : s.closed = true
  · have hc' : (erase s).closed = true := hc
    rw [if_pos hc, if_pos hc']; simp only [Res.mapS_ok, erase_idem]
  · have hc' : ¬ (erase s).closed = true := hc
    rw [if_neg hc, if_neg hc']
    exact ti_tryC (ti_tryC (ti_feedBody data) (step_feedBody data) ti_feedHandler)
      (spec_tryC step_po (step_feedBody data) step_feedHandler) ti_unwrapOuter s hs

theorem ti_onEof : TI onEof := by
  intro s _
  generalize hr : onEof s = res
  unfold onEof at hr ⊢
  split at hr
  all_goals (subst hr; erase_fields; simp only [*, ↓reduceIte, not_true_eq_false, not_false_eq_true]; ti_close)

theorem ti_recvStep (o : RecvOutcome) : TI (recvStep o) := by
  intro s hs
  unfold recvStep
  by_cases hc : ¬ s.sockOpen = true
  · have hc' : ¬ (erase s).sockOpen = true := hc
    rw [if_pos hc, if_pos hc']; exact ti_onEof s hs
  · have hc' : ¬ ¬ (erase s).sockOpen = true := hc
    rw [if_neg hc, if_neg hc']
    cases o with
    | sockErr => simp only [Res.mapS_err, erase_idem]
    | otherErr => simp only [Res.mapS_err, erase_idem]
    | eof => exact ti_onEof s hs
    | data bs =>
      simp only []
      split
      · exact ti_onEof s hs
      · have h := ti_wsFeed bs s hs
        cases h2 : wsFeed bs s with
        | ok b s2 =>
          rw [h2] at h
          obtain ⟨s1, h1, e1⟩ := mapS_ok_inv h
          rw [h1]
          simp only [Res.mapS_ok, e1]
        | err x s2 =>
          rw [h2] at h
          obtain ⟨s1, h1, e1⟩ := mapS_err_inv h
          rw [h1]
          simp only [Res.mapS_err, e1]

/-! ### the session loop: the waits do not matter -/

theorem erase_tick (s : Sys) (dt : Nat) : erase (tick s dt) = erase s := by
  unfold tick
  by_cases h : dt = 0
  · simp [h, erase]
  · simp [h, erase, List.filter_cons]

/-- two computations that agree up to `erase` from states that agree up to `erase` -/
def TI2 (m₁ m₂ : M α) : Prop :=
  ∀ s u, Off s → Off u → erase s = erase u → Res.mapS erase (m₁ s) = Res.mapS erase (m₂ u)

theorem TI.ti2 {m : M α} (h : TI m) : TI2 m m := fun _ _ hs hu e => h.two hs hu e

theorem Off.of_same {s s' : Sys} (h : Off s) (st : Same s s') : Off s' :=
  ⟨by rw [st.1]; exact h.rate, by rw [st.1]; exact h.pt, by rw [st.1]; exact h.ct, by rw [st.2]; exact h.pb⟩

theorem ti2_bind {m₁ m₂ : M α} {f₁ f₂ : α → M β} (hm : TI2 m₁ m₂) (s1 : Spec Same m₁) (s2 : Spec Same m₂)
    (hf : ∀ a, TI2 (f₁ a) (f₂ a)) : TI2 (m₁ >>= f₁) (m₂ >>= f₂) := by
  intro s u hs hu e
  have h0 := hm s u hs hu e
  cases h2 : m₂ u with
  | ok a u2 =>
    rw [h2] at h0
    obtain ⟨s2', h1, e1⟩ := mapS_ok_inv h0
    rw [bind_ok h1, bind_ok h2]
    exact hf a _ _ (hs.of_same (s1.ok h1)) (hu.of_same (s2.ok h2)) e1
  | err x u2 =>
    rw [h2] at h0
    obtain ⟨s2', h1, e1⟩ := mapS_err_inv h0
    rw [bind_err h1, bind_err h2]
    simp only [Res.mapS_err, e1]

theorem ti2_tryC {m₁ m₂ : M α} {h₁ h₂ : Exn → M α} (hm : TI2 m₁ m₂) (s1 : Spec Same m₁) (s2 : Spec Same m₂)
    (hh : ∀ x, TI2 (h₁ x) (h₂ x)) : TI2 (tryC m₁ h₁) (tryC m₂ h₂) := by
  intro s u hs hu e
  have h0 := hm s u hs hu e
  cases h2 : m₂ u with
  | ok a u2 =>
    rw [h2] at h0
    obtain ⟨s2', h1, e1⟩ := mapS_ok_inv h0
    rw [tryC_ok h1, tryC_ok h2]
    simp only [Res.mapS_ok, e1]
  | err x u2 =>
    rw [h2] at h0
    obtain ⟨s2', h1, e1⟩ := mapS_err_inv h0
    rw [tryC_err h1, tryC_err h2]
    exact hh x _ _ (hs.of_same (s1.err h1)) (hu.of_same (s2.err h2)) e1

/-- forget the waits of a script: a cycle that reads returns at once, an idle cycle disappears -/
def freeze : List EnvStep → List EnvStep
  | [] => []
  | .wait _ none :: r => freeze r
  | .wait _ (some o) :: r => .wait 0 (some o) :: freeze r
  | .selErr :: r => .selErr :: freeze r

theorem erase_closed_eq {s u : Sys} (e : erase s = erase u) : s.closed = u.closed := by
  have : (erase s).closed = (erase u).closed := congrArg Sys.closed e
  exact this

theorem loop_closed' (env : List EnvStep) (s : Sys) (h : s.closed = true) : loop env s = .ok () s := by
  cases env <;> simp [loop, h]

/-- **the session loop does not see the waits**: from states that agree up to `erase`, the loop
    over a script and the loop over its frozen version agree up to `erase` -/
theorem loop_freeze (env : List EnvStep) : TI2 (loop env) (loop (freeze env)) := by
  induction env with
  | nil =>
    intro s u hs hu e
    have hc := erase_closed_eq e
    simp only [freeze, loop]
    rw [hc]
    split <;> simp only [Res.mapS_ok, Res.mapS_err, e]
  | cons st rest ih =>
    intro s u hs hu e
    have hc := erase_closed_eq e
    by_cases hcl : s.closed = true
    · rw [loop_closed' _ s hcl, loop_closed' _ u (hc ▸ hcl)]
      simp only [Res.mapS_ok, e]
    · have hcl' : s.closed = false := by simpa using hcl
      have hclu : u.closed = false := hc ▸ hcl'
      cases st with
      | selErr =>
        show Res.mapS erase (loop (.selErr :: rest) s) = Res.mapS erase (loop (.selErr :: freeze rest) u)
        rw [SegLoop.loop_selErr rest s hcl', SegLoop.loop_selErr (freeze rest) u hclu]
        simp only [Res.mapS_err, e]
      | wait dt readable =>
        obtain ⟨s2, hr, e2⟩ := regular_erase (tick s dt) ⟨hs.rate, hs.pt, hs.ct, hs.pb⟩
        rw [erase_tick] at e2
        have hs2 : Off s2 := off_of_erase_eq hs e2
        rw [SegLoop.loop_wait dt readable rest s hcl', hr]
        cases readable with
        | none =>
          show Res.mapS erase (loop rest s2) = Res.mapS erase (loop (freeze rest) u)
          exact ih s2 u hs2 hu (e2.trans e)
        | some o =>
          obtain ⟨u2, hru, eu2⟩ := regular_erase (tick u 0) ⟨hu.rate, hu.pt, hu.ct, hu.pb⟩
          rw [erase_tick] at eu2
          have hu2 : Off u2 := off_of_erase_eq hu eu2
          show _ = Res.mapS erase (loop (.wait 0 (some o) :: freeze rest) u)
          rw [SegLoop.loop_wait 0 (some o) (freeze rest) u hclu, hru]
          simp only []
          have h0 := (ti_recvStep o).two hs2 hu2 (e2.trans (e.trans eu2.symm))
          cases h2 : recvStep o u2 with
          | err x u3 =>
            rw [h2] at h0
            obtain ⟨s3, h1, e1⟩ := mapS_err_inv h0
            rw [h1]
            simp only [Res.mapS_err, e1]
          | ok go u3 =>
            rw [h2] at h0
            obtain ⟨s3, h1, e1⟩ := mapS_ok_inv h0
            rw [h1]
            have o1 : Off s3 := hs2.of_step ((step_recvStep o).ok h1)
            have o2 : Off u3 := hu2.of_step ((step_recvStep o).ok h2)
            cases go with
            | true => exact ih s3 u3 o1 o2 e1
            | false => simp only [Res.mapS_ok, e1]

/-! ### `run()` around the loop -/

theorem ti_onLoopEnd (r : Option Exn) : TI (onLoopEnd r) := by
  unfold onLoopEnd
  split
  all_goals first
    | exact ti_bind ti_closeSocket step_closeSocket (fun _ => ti_yieldEv _)
    | exact ti_throwE _

theorem same_loop (env : List EnvStep) : Spec Same (loop env) := same_of_step (step_loop env)

theorem ti2_runBodyL {l₁ l₂ : M Unit} (h : TI2 l₁ l₂) (s1 : Spec Same l₁) (s2 : Spec Same l₂) :
    TI2 (runBodyL l₁) (runBodyL l₂) := by
  unfold runBodyL
  refine ti2_bind (ti2_tryC (ti2_bind h s1 s2 (fun _ => (ti_pure _).ti2))
      (spec_bind same_po s1 (fun _ => spec_pure same_po _)) (spec_bind same_po s2 (fun _ => spec_pure same_po _))
      (fun x => (ti_pure _).ti2))
    (spec_tryC same_po (spec_bind same_po s1 (fun _ => spec_pure same_po _)) (fun _ => spec_pure same_po _))
    (spec_tryC same_po (spec_bind same_po s2 (fun _ => spec_pure same_po _)) (fun _ => spec_pure same_po _))
    (fun r => (ti_onLoopEnd r).ti2)

theorem same_runBodyL {l : M Unit} (hl : Spec Same l) : Spec Same (runBodyL l) := by
  unfold runBodyL
  exact spec_bind same_po (spec_tryC same_po (spec_bind same_po hl (fun _ => spec_pure same_po _))
    (fun _ => spec_pure same_po _)) (fun r => same_onLoopEnd r)

theorem ti_of_ti2 {m : M α} (h : TI2 m m) : TI m := by
  intro s hs
  exact h (erase s) s hs.erase hs (erase_idem s)

theorem ti_bind_same {m : M α} {f : α → M β} (hm : TI m) (sm : Spec Same m) (hf : ∀ a, TI (f a)) : TI (m >>= f) :=
  ti_of_ti2 (ti2_bind hm.ti2 sm sm (fun a => (hf a).ti2))

theorem ti_runFinally (x : Exn) : TI (runFinally x) := by
  unfold runFinally
  refine ti_getS_bind (fun _ => rfl) (fun s => ?_)
  exact ti_bind (ti_ite _ ti_closeSocket (ti_pure _)) (spec_ite _ step_closeSocket (spec_pure step_po _))
    (fun _ => ti_bind_same ti_selClose same_selClose (fun _ => ti_throwE _))

theorem ti2_runLoopL {l₁ l₂ : M Unit} (h : TI2 l₁ l₂) (s1 : Spec Same l₁) (s2 : Spec Same l₂) :
    TI2 (runLoopL l₁) (runLoopL l₂) := by
  unfold runLoopL
  exact ti2_tryC (ti2_bind (ti2_runBodyL h s1 s2) (same_runBodyL s1) (same_runBodyL s2) (fun _ => ti_selClose.ti2))
    (spec_bind same_po (same_runBodyL s1) (fun _ => same_selClose))
    (spec_bind same_po (same_runBodyL s2) (fun _ => same_selClose))
    (fun x => (ti_runFinally x).ti2)

theorem ti_yieldConnected (proxy : Bool) : TI (yieldConnected proxy) := by
  unfold yieldConnected
  refine ti_getS_bind (fun _ => rfl) (fun s => ?_)
  split
  · exact ti_tryC (ti_yieldEv _) (step_yieldEv _) (fun x =>
      ti_bind ti_closeSocket step_closeSocket (fun _ => ti_throwE _))
  · exact ti_yieldEv _

theorem same_runLoopL {l : M Unit} (hl : Spec Same l) : Spec Same (runLoopL l) := by
  unfold runLoopL
  exact spec_tryC same_po (spec_bind same_po (same_runBodyL hl) (fun _ => same_selClose)) same_runFinally

theorem ti2_afterConnectL {l₁ l₂ : M Unit} (h : TI2 l₁ l₂) (s1 : Spec Same l₁) (s2 : Spec Same l₂) (proxy sel : Bool) :
    TI2 (afterConnectL l₁ proxy sel) (afterConnectL l₂ proxy sel) := by
  unfold afterConnectL
  have hm : TI (modS fun s : Sys => { s with sockOpen := true }) := by ti_upd
  refine ti2_bind hm.ti2 (spec_modS (fun _ => ⟨rfl, rfl⟩)) (spec_modS (fun _ => ⟨rfl, rfl⟩)) (fun _ => ?_)
  intro s u hs hu e
  show Res.mapS erase ((write s.cfg.request >>= _) s) = Res.mapS erase ((write u.cfg.request >>= _) u)
  have hcfg : s.cfg = u.cfg := by
    have : (erase s).cfg = (erase u).cfg := congrArg Sys.cfg e
    exact this
  rw [hcfg]
  refine ti2_bind (ti_write _ _).ti2 (same_of_step (step_write _ _)) (same_of_step (step_write _ _)) (fun r => ?_) s u hs hu e
  split
  · exact (ti_bind ti_closeSocket step_closeSocket (fun _ => ti_yieldEv _)).ti2
  · have hm2 : TI (modS fun s : Sys => { s with selOpen := sel }) := by ti_upd
    exact ti2_bind (ti_yieldConnected proxy).ti2 (same_yieldConnected proxy) (same_yieldConnected proxy) (fun _ =>
      ti2_bind hm2.ti2 (spec_modS (fun _ => ⟨rfl, rfl⟩)) (spec_modS (fun _ => ⟨rfl, rfl⟩)) (fun _ =>
        ti2_runLoopL h s1 s2))

theorem ti2_runL {l₁ l₂ : M Unit} (h : TI2 l₁ l₂) (s1 : Spec Same l₁) (s2 : Spec Same l₂) :
    TI2 (runL l₁) (runL l₂) := by
  unfold runL
  refine ti2_bind (ti_yieldEv _).ti2 (same_of_step (step_yieldEv _)) (same_of_step (step_yieldEv _)) (fun _ => ?_)
  intro s u hs hu e
  have hcfg : s.cfg = u.cfg := by
    have : (erase s).cfg = (erase u).cfg := congrArg Sys.cfg e
    exact this
  show Res.mapS erase ((match s.cfg.connect with
      | .socketFail => yieldEv (.connectFail "connect-failed")
      | .otherFail => yieldEv (.connectFail "connect-failed")
      | .ok proxy => afterConnectL l₁ proxy true
      | .selFail proxy => afterConnectL (throwE (.other "error")) proxy false) s) =
    Res.mapS erase ((match u.cfg.connect with
      | .socketFail => yieldEv (.connectFail "connect-failed")
      | .otherFail => yieldEv (.connectFail "connect-failed")
      | .ok proxy => afterConnectL l₂ proxy true
      | .selFail proxy => afterConnectL (throwE (.other "error")) proxy false) u)
  rw [hcfg]
  cases u.cfg.connect with
  | socketFail => exact (ti_yieldEv _).ti2 s u hs hu e
  | otherFail => exact (ti_yieldEv _).ti2 s u hs hu e
  | ok proxy => exact ti2_afterConnectL h s1 s2 proxy true s u hs hu e
  | selFail proxy =>
    exact ti2_afterConnectL (ti_throwE (.other "error")).ti2 (spec_throwE same_po _) (spec_throwE same_po _)
      proxy false s u hs hu e

/-! ### whole connections -/

theorem finish_erase (r₁ r₂ : Res Unit) (h : Res.mapS erase r₁ = Res.mapS erase r₂) :
    erase (SegLoop.finish r₁) = erase (SegLoop.finish r₂) := by
  have key : ∀ s u : Sys, erase s = erase u →
      erase (if s.abandonedWith = true then (match closeSocket s with | .ok _ s' => s' | .err _ s' => s') else s) =
      erase (if u.abandonedWith = true then (match closeSocket u with | .ok _ s' => s' | .err _ s' => s') else u) := by
    intro s u e
    have ha : s.abandonedWith = u.abandonedWith := by
      have : (erase s).abandonedWith = (erase u).abandonedWith := congrArg Sys.abandonedWith e
      exact this
    have hso : s.sockOpen = u.sockOpen := by
      have : (erase s).sockOpen = (erase u).sockOpen := congrArg Sys.sockOpen e
      exact this
    rw [ha]
    by_cases hb : u.abandonedWith = true
    · rw [if_pos hb, if_pos hb]
      unfold closeSocket
      rw [hso]
      by_cases hc : u.sockOpen = true
      · simp only [hc, if_true]
        have : ∀ w : Sys, erase { w with sockOpen := false, trace := .sockClose :: w.trace } =
            { erase w with sockOpen := false, trace := .sockClose :: (erase w).trace } := by
          intro w; simp [erase, List.filter_cons]
        rw [this s, this u, e]
      · simp only [hc, if_false, Bool.false_eq_true]
        exact e
    · rw [if_neg hb, if_neg hb]; exact e
  cases r₂ with
  | ok a u =>
    obtain ⟨s, h1, e1⟩ := mapS_ok_inv h
    subst h1
    exact e1
  | err x u =>
    obtain ⟨s, h1, e1⟩ := mapS_err_inv h
    subst h1
    have inc : erase { s with trace := .incomplete :: s.trace } = erase { u with trace := .incomplete :: u.trace } := by
      have : ∀ w : Sys, erase { w with trace := .incomplete :: w.trace } =
          { erase w with trace := .incomplete :: (erase w).trace } := by
        intro w; simp [erase, List.filter_cons]
      rw [this s, this u, e1]
    cases x with
    | genExit => exact key s u e1
    | outer y =>
      cases y with
      | genExit => exact key s u e1
      | _ => exact inc
    | _ => exact inc

/-- **Time is unobservable with the timers off.**  Configuration: `ping_rate = 0`,
    `ping_timeout = 0`, `close_timeout = 0`; application: any function of the event history that
    does nothing at a Poll and does not look at the Polls it has seen (`PollBlind`) — it may send,
    close, close the session's socket, abandon the loop; environment: **any** script (any server
    bytes, valid or not, errors, end of stream).  The connection run with the script's waits and
    the connection run with all waits removed (`freeze`) end in the same state up to `erase`:
    same events apart from Polls, same results of application calls, same bytes written, in the
    same order, same final flags. -/
theorem runAll_freeze (cfg : Cfg) (react : React) (h1 : cfg.pingRate = 0) (h2 : cfg.pingTimeout = 0)
    (h3 : cfg.closeTimeout = 0) (hpb : PollBlind react) (env : List EnvStep) :
    erase (runAll cfg react env) = erase (runAll cfg react (freeze env)) := by
  rw [SegLoop.runAll_eq, SegLoop.runAll_eq]
  apply finish_erase
  rw [run_eq_runL, run_eq_runL]
  exact ti2_runL (loop_freeze env) (same_loop _) (same_loop _) _ _ ⟨h1, h2, h3, hpb⟩ ⟨h1, h2, h3, hpb⟩ rfl

/-- what the application and the wire see, time left out: the trace without clock ticks and Polls -/
def timeless (tr : List Obs) : List Obs := tr.filter notTime

theorem timeless_freeze (cfg : Cfg) (react : React) (h1 : cfg.pingRate = 0) (h2 : cfg.pingTimeout = 0)
    (h3 : cfg.closeTimeout = 0) (hpb : PollBlind react) (env : List EnvStep) :
    timeless (runAll cfg react env).trace = timeless (runAll cfg react (freeze env)).trace :=
  congrArg Sys.trace (runAll_freeze cfg react h1 h2 h3 hpb env)

end Lomond.Core.TI
