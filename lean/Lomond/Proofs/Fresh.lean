/-
  C17: a connection on a USED WebSocket object.

  `Core.runAll cfg react env` starts from the initial `Sys`.  On the Python side the object is not new:
  whatever the previous connection left in its attributes is still there when `connect()` is called.
  `reconnect prev …` is the model state the next connection really starts from: every per-connection field
  of `Sys` is taken from the leftover state `prev` UNLESS the source re-creates the object that carries it and
  initialises the attribute to the value the model starts with — read off the facts the translator
  regenerates from the source on every run (`Gen.initValues`: the initialiser expressions of the `__init__`
  methods; `connectResetsFirst`, `resetAssignsState`, `connectNewSession`, …).  If a field moved to an object
  that survives `connect()`, or an initialiser changed (say `self.closing = True`), `reconnect` keeps the stale
  value (or takes the other literal) and the theorems below stop checking.

  Where each field lives (trusted reading of the model against the source, cross-checked by
  `C17.model_fields_are_instance_state`):
    session object (`WebsocketSession.__init__`, new per `connect()`)  : sockOpen ← _sock, ready ← _ready,
        pollStart ← _poll_start, nextPing ← _next_ping, lastPong ← _last_pong, startTime ← _start_time
    `WebSocket.State.__init__` (new per `reset()`)                      : closing, closed, sentCloseTime ← sent_close_time,
        compression
    `WebsocketStream.__init__` (created by `State.__init__`)            : parsedResponse ← _parsed_response, frames ← _frames,
        decompress ← _decompress
    `FrameParser.__init__` / `Parser.__init__` (created by the stream)  : p.isText ← _is_text, p.isCompressed ← _is_compressed,
        p.compression ← _compression, p.dfa ← the new Utf8Validator(), p.buf ← _buffer,
        p.cont / p.remPred / p.utf8 ← the new `parse()` generator made by `reset()`
    the `Deflate` object (inflHist, inflOut) is reachable only through `state.compression` / `stream._decompress`
    local variables of `run()` and the per-connection world of the harness: selOpen, now, keyCtr, writeCtr, hist,
        abandonedWith, trace — new by construction
-/
import Lomond.Model.Core
import Lomond.Generated.Facts

namespace Lomond.Fresh
open Lomond Lomond.Core

/-- the initialiser expression of `cls.__init__` for `self.attr`, as source text -/
def initText (cls attr : String) : Option String :=
  (Gen.initValues.find? (fun t => t.1 == cls && t.2.1 == attr)).map (fun t => t.2.2)

/-- `connect()` begins with `reset()`, which assigns a new `State` -/
def stateNew : Bool := Gen.connectResetsFirst && Gen.resetAssignsState
/-- … whose `__init__` makes a new stream … -/
def streamNew : Bool := stateNew && (initText "State" "stream" == some "WebsocketStream()")
/-- … whose `__init__` makes a new frame parser (whose `__init__` runs `Parser.__init__`, which runs `reset()`) -/
def parserNew : Bool :=
  streamNew && (initText "WebsocketStream" "frame_parser" == some "ClientFrameParser()") && Gen.frameParserInitCallsSuper
def genNew : Bool := parserNew && Gen.parserInitCallsReset && Gen.parserResetFresh
/-- `connect()` constructs a new session object -/
def sessionNew : Bool := Gen.connectNewSession

/-- a Bool attribute after `connect()`: the literal its re-created owner assigns, else the stale value -/
def boolAttr (new : Bool) (cls attr : String) (prev : Bool) : Bool :=
  if new then
    match initText cls attr with
    | some "False" => false
    | some "True" => true
    | _ => prev
  else prev

/-- an attribute the model reads as "absent" (`none` / `false` / `0`) exactly when Python holds `None` -/
def noneAttr {α : Type} (new : Bool) (cls attr : String) (absent prev : α) : α :=
  if new && (initText cls attr == some "None") then absent else prev

/-- a list / buffer attribute initialised to an empty container -/
def emptyAttr {α : Type} (new : Bool) (cls attr : String) (prev : List α) : List α :=
  if new && (initText cls attr == some "[]" || initText cls attr == some "bytearray()") then [] else prev

/-- the parser state the next connection starts with -/
def reconnectP (prev : PState) : PState :=
  { cont := if genNew then .header else prev.cont
    remPred := if genNew then 0 else prev.remPred
    utf8 := if genNew then false else prev.utf8
    buf := emptyAttr parserNew "Parser" "_buffer" prev.buf
    dfa := if parserNew && (initText "FrameParser" "_utf8_validator" == some "Utf8Validator()") then 0 else prev.dfa
    isText := boolAttr parserNew "FrameParser" "_is_text" prev.isText
    compression := boolAttr parserNew "FrameParser" "_compression" prev.compression
    isCompressed := boolAttr parserNew "FrameParser" "_is_compressed" prev.isCompressed }

/-- the `Deflate` object of the previous connection is unreachable once both references to it are gone -/
def deflateGone : Bool :=
  stateNew && (initText "State" "compression" == some "None") &&
  streamNew && (initText "WebsocketStream" "_decompress" == some "None")

/-- The state a connection starts from when `connect()` is called on an object whose previous connection left `prev`. -/
def reconnect (prev : Sys) (cfg : Cfg) (react : React) (env : List EnvStep) : Sys :=
  { cfg := cfg, react := react, env := env
    sockOpen := noneAttr sessionNew "WebsocketSession" "_sock" false prev.sockOpen
    ready := boolAttr sessionNew "WebsocketSession" "_ready" prev.ready
    pollStart := noneAttr sessionNew "WebsocketSession" "_poll_start" none prev.pollStart
    nextPing := noneAttr sessionNew "WebsocketSession" "_next_ping" 0 prev.nextPing
    lastPong := noneAttr sessionNew "WebsocketSession" "_last_pong" 0 prev.lastPong
    startTime := noneAttr sessionNew "WebsocketSession" "_start_time" none prev.startTime
    closing := boolAttr stateNew "State" "closing" prev.closing
    closed := boolAttr stateNew "State" "closed" prev.closed
    sentCloseTime := noneAttr stateNew "State" "sent_close_time" none prev.sentCloseTime
    compression := noneAttr stateNew "State" "compression" none prev.compression
    parsedResponse := boolAttr streamNew "WebsocketStream" "_parsed_response" prev.parsedResponse
    frames := emptyAttr streamNew "WebsocketStream" "_frames" prev.frames
    decompress := noneAttr streamNew "WebsocketStream" "_decompress" false prev.decompress
    inflHist := if deflateGone then [] else prev.inflHist
    inflOut := if deflateGone then 0 else prev.inflOut
    p := reconnectP prev.p }

/-- `Core.runAll` with the start state as a parameter (the same code as `runAll`) -/
def runAllFrom (s0 : Sys) : Sys :=
  match run s0 with
  | .ok _ s => s
  | .err .genExit s =>
    if s.abandonedWith then
      match closeSocket s with
      | .ok _ s' => s'
      | .err _ s' => s'
    else s
  | .err (.outer .genExit) s =>
    if s.abandonedWith then
      match closeSocket s with
      | .ok _ s' => s'
      | .err _ s' => s'
    else s
  | .err .scriptEnd s => { s with trace := .incomplete :: s.trace }
  | .err _ s => { s with trace := .incomplete :: s.trace }

theorem runAll_eq_from (cfg : Cfg) (react : React) (env : List EnvStep) :
    runAll cfg react env = runAllFrom { cfg := cfg, react := react, env := env } := rfl

/-! the facts, evaluated -/
theorem stateNew_true : stateNew = true := by decide
theorem streamNew_true : streamNew = true := by decide
theorem parserNew_true : parserNew = true := by decide
theorem genNew_true : genNew = true := by decide
theorem sessionNew_true : sessionNew = true := by decide
theorem deflateGone_true : deflateGone = true := by decide

theorem reconnectP_eq (prev : PState) : reconnectP prev = {} := by
  have h1 : emptyAttr parserNew "Parser" "_buffer" prev.buf = [] := by
    have : (parserNew && (initText "Parser" "_buffer" == some "[]" || initText "Parser" "_buffer" == some "bytearray()")) = true := by decide
    simp [emptyAttr, this]
  have h2 : (parserNew && (initText "FrameParser" "_utf8_validator" == some "Utf8Validator()")) = true := by decide
  have h3 : boolAttr parserNew "FrameParser" "_is_text" prev.isText = false := by
    have : initText "FrameParser" "_is_text" = some "False" := by decide
    simp [boolAttr, parserNew_true, this]
  have h4 : boolAttr parserNew "FrameParser" "_compression" prev.compression = false := by
    have : initText "FrameParser" "_compression" = some "False" := by decide
    simp [boolAttr, parserNew_true, this]
  have h5 : boolAttr parserNew "FrameParser" "_is_compressed" prev.isCompressed = false := by
    have : initText "FrameParser" "_is_compressed" = some "False" := by decide
    simp [boolAttr, parserNew_true, this]
  simp [reconnectP, genNew_true, h1, h2, h3, h4, h5]

/-- **After `connect()` nothing of the previous connection is left**: whatever state `prev` the object was in, the
    next connection starts from exactly the state a freshly constructed object starts from. -/
theorem reconnect_eq_init (prev : Sys) (cfg : Cfg) (react : React) (env : List EnvStep) :
    reconnect prev cfg react env = { cfg := cfg, react := react, env := env } := by
  have n (a : String) (h : initText "WebsocketSession" a = some "None") {α : Type} (x y : α) :
      noneAttr sessionNew "WebsocketSession" a x y = x := by simp [noneAttr, sessionNew_true, h]
  have ns (a : String) (h : initText "State" a = some "None") {α : Type} (x y : α) :
      noneAttr stateNew "State" a x y = x := by simp [noneAttr, stateNew_true, h]
  have b1 : boolAttr sessionNew "WebsocketSession" "_ready" prev.ready = false := by
    have : initText "WebsocketSession" "_ready" = some "False" := by decide
    simp [boolAttr, sessionNew_true, this]
  have b2 : boolAttr stateNew "State" "closing" prev.closing = false := by
    have : initText "State" "closing" = some "False" := by decide
    simp [boolAttr, stateNew_true, this]
  have b3 : boolAttr stateNew "State" "closed" prev.closed = false := by
    have : initText "State" "closed" = some "False" := by decide
    simp [boolAttr, stateNew_true, this]
  have b4 : boolAttr streamNew "WebsocketStream" "_parsed_response" prev.parsedResponse = false := by
    have : initText "WebsocketStream" "_parsed_response" = some "False" := by decide
    simp [boolAttr, streamNew_true, this]
  have e1 : emptyAttr streamNew "WebsocketStream" "_frames" prev.frames = [] := by
    have : initText "WebsocketStream" "_frames" = some "[]" := by decide
    simp [emptyAttr, streamNew_true, this]
  have d1 : noneAttr streamNew "WebsocketStream" "_decompress" false prev.decompress = false := by
    have : initText "WebsocketStream" "_decompress" = some "None" := by decide
    simp [noneAttr, streamNew_true, this]
  simp only [reconnect, n "_sock" (by decide), n "_poll_start" (by decide), n "_next_ping" (by decide),
    n "_last_pong" (by decide), n "_start_time" (by decide), ns "sent_close_time" (by decide),
    ns "compression" (by decide), b1, b2, b3, b4, e1, d1, deflateGone_true, reconnectP_eq, if_true]

end Lomond.Fresh
