/-
  The environment script stored in the state (`Sys.env`) is read by `runLoop` only: every other
  function of the core model commutes with replacing it (`EnvIrrel`).  Consequently the script is
  never modified, and two runs that differ only in a part of the script that is never consumed
  are equal up to that field.
-/
import Lomond.Proofs.Step
import Lomond.Proofs.Release
import Lomond.Proofs.RunL
set_option linter.unusedSimpArgs false
set_option linter.unusedVariables false
namespace Lomond.Core.Monitor
open Lomond Lomond.Core

/-- replace the stored environment script -/
def setEnv (e : List EnvStep) (s : Sys) : Sys := { s with env := e }

def Res.mapS (f : Sys → Sys) : Res α → Res α
  | .ok a s => .ok a (f s)
  | .err x s => .err x (f s)

@[simp] theorem Res.mapS_ok (f : Sys → Sys) (a : α) (s : Sys) : Res.mapS f (Res.ok a s) = .ok a (f s) := rfl
@[simp] theorem Res.mapS_err (f : Sys → Sys) (x : Exn) (s : Sys) : Res.mapS f (Res.err x s : Res α) = .err x (f s) := rfl

/-- `m` does not look at the stored script and does not change it -/
def EnvIrrel (m : M α) : Prop := ∀ e s, m (setEnv e s) = Res.mapS (setEnv e) (m s)

theorem ei_pure (a : α) : EnvIrrel (pure a : M α) := fun _ _ => rfl
theorem ei_throwE (x : Exn) : EnvIrrel (throwE x : M α) := fun _ _ => rfl
theorem ei_liftE (r : Except Exn α) : EnvIrrel (liftE r) := by
  intro e s; unfold liftE; cases r <;> rfl

theorem ei_bind {m : M α} {f : α → M β} (hm : EnvIrrel m) (hf : ∀ a, EnvIrrel (f a)) :
    EnvIrrel (m >>= f) := by
  intro e s
  show M.bind m f (setEnv e s) = Res.mapS (setEnv e) (M.bind m f s)
  unfold M.bind
  rw [hm e s]
  cases m s with
  | ok a s1 => exact hf a e s1
  | err x s1 => rfl

theorem ei_tryC {m : M α} {h : Exn → M α} (hm : EnvIrrel m) (hh : ∀ x, EnvIrrel (h x)) :
    EnvIrrel (tryC m h) := by
  intro e s
  unfold tryC
  rw [hm e s]
  cases m s with
  | ok a s1 => rfl
  | err x s1 => exact hh x e s1

/-- `let s ← getS; f s` where `f` reads only fields other than `env` -/
theorem ei_getS_bind {f : Sys → M α} (h1 : ∀ e s, f (setEnv e s) = f s) (h2 : ∀ s, EnvIrrel (f s)) :
    EnvIrrel (getS >>= f) := by
  intro e s
  show f (setEnv e s) (setEnv e s) = Res.mapS (setEnv e) (f s s)
  rw [h1]; exact h2 s e s

theorem ei_modS {f : Sys → Sys} (h : ∀ e s, f (setEnv e s) = setEnv e (f s)) : EnvIrrel (modS f) := by
  intro e s; show Res.ok () (f (setEnv e s)) = _; rw [h]; rfl

/-- closes `body (setEnv e s) = Res.mapS (setEnv e) (explicit result)` after the right-hand side has been
    evaluated by case analysis -/
macro "mon_ei_close" : tactic =>
  `(tactic| (simp only [setEnv]; splits <;> first | rfl | contradiction | (simp_all [Res.mapS, setEnv]; done)))

theorem mon_ei_closeSocket : EnvIrrel closeSocket := by
  intro e s
  generalize hr : closeSocket s = r
  unfold closeSocket at hr ⊢
  repeat' split at hr
  all_goals (subst hr; mon_ei_close)

theorem ei_selClose : EnvIrrel selClose := by
  intro e s
  generalize hr : selClose s = r
  unfold selClose at hr ⊢
  repeat' split at hr
  all_goals (subst hr; mon_ei_close)

theorem ei_write (d : Bytes) (z : Option (Nat × Bytes)) : EnvIrrel (write d z) := by
  intro e s
  generalize hr : write d z s = r
  unfold write at hr ⊢
  simp only [] at hr
  repeat' split at hr
  all_goals (subst hr; mon_ei_close)

theorem ei_sendFrame (op : Nat) (pl : Bytes) (c : Option Bytes) : EnvIrrel (sendFrame op pl c) := by
  intro e s
  unfold sendFrame
  simp only [setEnv]
  splits
  all_goals first
    | rfl
    | exact ei_write _ _ e { s with keyCtr := s.keyCtr + 1 }

theorem EnvIrrel.ok {m : M α} (h : EnvIrrel m) {s s' : Sys} {a : α} (hs : m s = .ok a s') (e : List EnvStep) :
    m (setEnv e s) = .ok a (setEnv e s') := by rw [h e s, hs]; rfl

theorem EnvIrrel.err {m : M α} (h : EnvIrrel m) {s s' : Sys} {x : Exn} (hs : m s = .err x s') (e : List EnvStep) :
    m (setEnv e s) = .err x (setEnv e s') := by rw [h e s, hs]; rfl

theorem ei_wsClose (c : Option Nat) (r : Arg) : EnvIrrel (wsClose c r) := by
  intro e s
  generalize hr : wsClose c r s = res
  unfold wsClose at hr ⊢
  repeat' (first | split at hr | (simp only [] at hr; split at hr))
  all_goals (subst hr)
  all_goals first
    | (mon_ei_close; done)
    | skip
  all_goals
    rename_i hsf
    first
      | have h2 := (ei_sendFrame _ _ _).ok hsf e
      | have h2 := (ei_sendFrame _ _ _).err hsf e
    simp only [setEnv] at h2 ⊢
    rw [h2]
    simp only []
    splits <;> first | rfl | contradiction | (simp_all [Res.mapS, setEnv, sessionTime]; done)

theorem ei_sendData (op : Nat) (pl : Bytes) (c : Bool) : EnvIrrel (sendData op pl c) := by
  intro e s
  generalize hr : sendData op pl c s = res
  unfold sendData at hr ⊢
  simp only [setEnv]
  split at hr
  all_goals (subst hr; simp only [*, if_true, if_false, and_self, ↓reduceIte]; exact ei_sendFrame _ _ _ e s)

theorem ei_log (o : Obs) : EnvIrrel (log o) := ei_modS (fun _ _ => rfl)

theorem ei_logRes {m : M ActRes} (h : EnvIrrel m) : EnvIrrel (logRes m) :=
  ei_bind h (fun _ => ei_log _)

theorem ei_ite (c : Prop) [Decidable c] {m k : M α} (hm : EnvIrrel m) (hk : EnvIrrel k) :
    EnvIrrel (if c then m else k) := by split <;> assumption

theorem ei_doAct (a : Act) : EnvIrrel (doAct a) := by
  unfold doAct
  split
  all_goals first
    | (apply ei_logRes; first
        | exact ei_pure _
        | exact ei_sendData _ _ _
        | exact ei_sendFrame _ _ _
        | exact ei_wsClose _ _
        | exact ei_ite _ (ei_pure _) (ei_sendData _ _ _)
        | exact ei_ite _ (ei_pure _) (ei_sendFrame _ _ _)
        | exact ei_bind mon_ei_closeSocket (fun _ => ei_pure _))
    | (intro e s; rfl)

theorem ei_doActs (as : List Act) : EnvIrrel (doActs as) := by
  induction as with
  | nil => exact ei_pure ()
  | cons a r ih => unfold doActs; exact ei_bind (ei_doAct a) (fun _ => ih)

theorem ei_yieldEv (ev : Event) : EnvIrrel (yieldEv ev) := by
  unfold yieldEv
  refine ei_bind (ei_modS (fun _ _ => rfl)) (fun _ => ei_getS_bind (fun _ _ => rfl) (fun s => ei_doActs _))

theorem ei_checkPoll : EnvIrrel checkPoll := by
  unfold checkPoll
  refine ei_getS_bind (fun _ _ => rfl) (fun s => ?_)
  simp only []
  splits
  all_goals first
    | exact ei_pure _
    | exact ei_bind (ei_modS (fun _ _ => rfl)) (fun _ => ei_yieldEv _)

theorem ei_checkAutoPing : EnvIrrel checkAutoPing := by
  unfold checkAutoPing
  refine ei_getS_bind (fun _ _ => rfl) (fun s => ?_)
  simp only []
  split
  · exact ei_bind (ei_modS (fun _ _ => rfl)) (fun _ => ei_bind (ei_sendFrame _ _ _) (fun _ => ei_pure _))
  · exact ei_pure _

theorem ei_checkPingTimeout : EnvIrrel checkPingTimeout := by
  unfold checkPingTimeout
  refine ei_getS_bind (fun _ _ => rfl) (fun s => ?_)
  simp only []
  split
  · exact ei_bind (ei_yieldEv _) (fun _ => ei_throwE _)
  · exact ei_pure _

theorem ei_checkCloseTimeout : EnvIrrel checkCloseTimeout := by
  unfold checkCloseTimeout
  refine ei_getS_bind (fun _ _ => rfl) (fun s => ?_)
  simp only []
  splits
  all_goals first | exact ei_pure _ | exact ei_throwE _

theorem ei_regular : EnvIrrel regular := by
  unfold regular
  refine ei_getS_bind (fun _ _ => rfl) (fun s => ?_)
  split
  · exact ei_bind ei_checkPoll (fun _ => ei_bind ei_checkAutoPing
      (fun _ => ei_bind ei_checkPingTimeout (fun _ => ei_checkCloseTimeout)))
  · exact ei_pure _

theorem ei_onEvent (ev : Event) : EnvIrrel (onEvent ev) := by
  intro e s
  generalize hr : onEvent ev s = res
  unfold onEvent at hr ⊢
  repeat' split at hr
  all_goals (subst hr)
  all_goals first
    | (mon_ei_close; done)
    | skip
  all_goals
    rename_i hsf
    first
      | have h2 := (ei_sendFrame _ _ _).ok hsf e
      | have h2 := (ei_sendFrame _ _ _).err hsf e
    simp only [setEnv] at h2 ⊢
    simp only [*, if_true, ↓reduceIte]
    rfl

theorem ei_onDisconnect : EnvIrrel onDisconnect :=
  ei_bind mon_ei_closeSocket (fun _ => ei_modS (fun _ _ => rfl))

theorem ei_feedYield (b : Bool) (ev : Event) : EnvIrrel (feedYield b ev) := by
  unfold feedYield
  refine ei_tryC (ei_bind (ei_onEvent ev) (fun _ => ei_bind (ei_yieldEv ev) (fun _ => ei_regular))) (fun x => ?_)
  exact ei_bind (ei_ite _ ei_onDisconnect (ei_pure _)) (fun _ => ei_throwE _)

theorem ei_inflateMessage (j : Bytes) : EnvIrrel (inflateMessage j) := by
  intro e s
  generalize hr : inflateMessage j s = res
  unfold inflateMessage at hr ⊢
  simp only [] at hr
  repeat' split at hr
  all_goals (subst hr; mon_ei_close)

theorem ei_buildMessage (fs : List Frame) : EnvIrrel (buildMessage fs) := by
  unfold buildMessage
  split
  · exact ei_throwE _
  · simp only []
    refine ei_getS_bind (fun _ _ => rfl) (fun s => ?_)
    exact ei_bind (ei_ite _ (ei_inflateMessage _) (ei_pure _)) (fun _ => ei_liftE _)

theorem ei_checkCloseCode (c : Option Nat) : EnvIrrel (checkCloseCode c) := by
  unfold checkCloseCode
  splits <;> first | exact ei_pure _ | exact ei_throwE _

theorem ei_raiseIfArgError (r : ActRes) : EnvIrrel (raiseIfArgError r) := by
  unfold raiseIfArgError
  split <;> first | exact ei_pure _ | exact ei_throwE _

theorem ei_onClose (c : Option Nat) (r : List Nat) : EnvIrrel (onClose c r) := by
  unfold onClose
  refine ei_bind (ei_checkCloseCode c) (fun _ => ei_getS_bind (fun _ _ => rfl) (fun s => ?_))
  split
  · exact ei_pure _
  · split
    · exact ei_bind (ei_feedYield _ _) (fun _ => ei_modS (fun _ _ => rfl))
    · exact ei_bind (ei_feedYield _ _) (fun _ => ei_bind (ei_wsClose _ _) (fun r =>
        ei_bind (ei_raiseIfArgError r) (fun _ => ei_modS (fun _ _ => rfl))))

theorem ei_onMessage (m : Msg) : EnvIrrel (onMessage m) := by
  unfold onMessage
  split <;> first | exact ei_onClose _ _ | exact ei_feedYield _ _ | exact ei_pure _

theorem ei_onDataFrame (f : Frame) : EnvIrrel (onDataFrame f) := by
  unfold onDataFrame
  refine ei_getS_bind (fun _ _ => rfl) (fun s => ?_)
  split
  · exact ei_throwE _
  · split
    · exact ei_throwE _
    · refine ei_bind (ei_modS (fun _ _ => rfl)) (fun _ => ?_)
      split
      · exact ei_getS_bind (fun _ _ => rfl) (fun s => ei_bind (ei_buildMessage _) (fun m =>
          ei_bind (ei_onMessage m) (fun _ => ei_modS (fun _ _ => rfl))))
      · exact ei_pure _

theorem ei_notClosed : EnvIrrel notClosed := fun _ _ => rfl

theorem ei_onFrame (f : Frame) : EnvIrrel (onFrame f) := by
  unfold onFrame
  split
  · exact ei_bind (ei_buildMessage _) (fun m => ei_onMessage m)
  · exact ei_onDataFrame _

theorem ei_onOut (o : Out) : EnvIrrel (onOut o) := by
  unfold onOut
  split
  · refine ei_getS_bind (fun _ _ => rfl) (fun s => ?_)
    split
    · exact ei_bind (ei_modS (fun _ _ => rfl)) (fun _ => ei_bind ei_onDisconnect (fun _ =>
        ei_bind (ei_feedYield _ _) (fun _ => ei_pure _)))
    · exact ei_bind (ei_modS (fun _ _ => rfl)) (fun _ => ei_bind (ei_feedYield _ _) (fun _ =>
        ei_bind (ei_modS (fun _ _ => rfl)) (fun _ => ei_notClosed)))
  · exact ei_bind (ei_onFrame _) (fun _ => ei_notClosed)

theorem ei_feedLoop (data : Bytes) : EnvIrrel (feedLoop data) := by
  induction h : data.length using Nat.strongRecOn generalizing data with
  | _ n ih =>
    intro e s
    rw [feedLoop, feedLoop.eq_1 data s]
    by_cases hd : data = []
    · simp only [hd, dite_true]; rfl
    · simp only [hd, dite_false]
      have hlt : (data.drop (s.p.remPred + 1)).length < n := by
        have : data.length ≠ 0 := fun hl => hd (List.eq_nil_of_length_eq_zero hl)
        simp only [List.length_drop]; omega
      show (match biteBytes s.cfg.v s.p (data.take (s.p.remPred + 1)) with
            | .error x => Res.err x { setEnv e s with p := deadParser s.p }
            | .ok (p', out) =>
              match out with
              | none => feedLoop (data.drop (s.p.remPred + 1)) { setEnv e s with p := p' }
              | some o =>
                match onOut o { setEnv e s with p := p' } with
                | .err x s2 => .err x s2
                | .ok true s2 => feedLoop (data.drop (s.p.remPred + 1)) s2
                | .ok false s2 => .ok false s2) = _
      cases hb : biteBytes s.cfg.v s.p (data.take (s.p.remPred + 1)) with
      | error x => rfl
      | ok r =>
        obtain ⟨p', out⟩ := r
        cases out with
        | none => exact ih _ hlt _ rfl e { s with p := p' }
        | some o =>
          simp only
          have ho := ei_onOut o e { s with p := p' }
          have ho' : onOut o { setEnv e s with p := p' } = Res.mapS (setEnv e) (onOut o { s with p := p' }) := ho
          rw [ho']
          cases hr : onOut o { s with p := p' } with
          | err x s2 => rfl
          | ok go s2 =>
            cases go with
            | true => exact ih _ hlt _ rfl e s2
            | false => rfl

theorem ei_afterHeader (rest : Bytes) (out : Option Out) : EnvIrrel (afterHeader rest out) := by
  unfold afterHeader
  split
  · refine ei_bind (ei_onOut _) (fun go => ?_)
    split
    · exact ei_bind (ei_feedLoop _) (fun _ => ei_pure _)
    · exact ei_pure _
  · exact ei_bind (ei_feedLoop _) (fun _ => ei_pure _)

theorem ei_feedHeader (data : Bytes) : EnvIrrel (feedHeader data) := by
  intro e s
  generalize hr : feedHeader data s = res
  unfold feedHeader at hr ⊢
  simp only [] at hr
  repeat' split at hr
  all_goals first
    | (subst hr; mon_ei_close; done)
    | skip
  rename_i _ i hsep hlong _ p' out hres
  have h2 := ei_afterHeader ((s.p.buf ++ data).drop (i + Gen.headerSep.length)) out e { s with p := p' }
  rw [hr] at h2
  simp only [setEnv] at h2 ⊢
  simp only [hsep, hlong, hres, if_false, Bool.false_eq_true]
  exact h2

theorem ei_feedBody (data : Bytes) : EnvIrrel (feedBody data) := by
  intro e s
  generalize hr : feedBody data s = res
  unfold feedBody at hr ⊢
  split at hr
  · rename_i hc
    have hc' : (setEnv e s).p.cont = .header := hc
    rw [if_pos hc', ei_feedHeader data e s, hr]
  · rename_i hc
    have hc' : ¬ (setEnv e s).p.cont = .header := hc
    rw [if_neg hc', ei_feedLoop data e s]
    split at hr <;> (rename_i hl; rw [hl]; subst hr; rfl)

theorem ei_feedHandler (x : Exn) : EnvIrrel (feedHandler x) := by
  unfold feedHandler
  split
  · exact ei_bind (ei_feedYield _ _) (fun _ => ei_throwE _)
  · exact ei_bind (ei_feedYield _ _) (fun _ => ei_throwE _)
  · exact ei_bind (ei_feedYield _ _) (fun _ => ei_bind (ei_wsClose _ _) (fun r =>
      ei_bind (ei_raiseIfArgError r) (fun _ => ei_throwE _)))
  · exact ei_throwE _

theorem ei_unwrapOuter (x : Exn) : EnvIrrel (unwrapOuter x) := by
  unfold unwrapOuter; split <;> exact ei_throwE _

theorem ei_wsFeed (data : Bytes) : EnvIrrel (wsFeed data) := by
  intro e s
  unfold wsFeed
  by_cases hc : s.closed = true
  · have hc' : (setEnv e s).closed = true := hc
    rw [if_pos hc, if_pos hc']; rfl
  · have hc' : ¬ (setEnv e s).closed = true := hc
    rw [if_neg hc, if_neg hc']
    exact ei_tryC (ei_tryC (ei_feedBody data) ei_feedHandler) ei_unwrapOuter e s

theorem ei_onEof : EnvIrrel onEof := by
  intro e s
  generalize hr : onEof s = res
  unfold onEof at hr ⊢
  split at hr
  all_goals (subst hr; mon_ei_close)

theorem ei_recvStep (o : RecvOutcome) : EnvIrrel (recvStep o) := by
  intro e s
  unfold recvStep
  by_cases hc : ¬ s.sockOpen = true
  · have hc' : ¬ (setEnv e s).sockOpen = true := hc
    rw [if_pos hc, if_pos hc']; exact ei_onEof e s
  · have hc' : ¬ ¬ (setEnv e s).sockOpen = true := hc
    rw [if_neg hc, if_neg hc']
    cases o with
    | sockErr => rfl
    | otherErr => rfl
    | eof => exact ei_onEof e s
    | data bs =>
      simp only []
      split
      · exact ei_onEof e s
      · rw [ei_wsFeed bs e s]
        cases wsFeed bs s <;> rfl

theorem tick_setEnv (e : List EnvStep) (s : Sys) (dt : Nat) : tick (setEnv e s) dt = setEnv e (tick s dt) := rfl

theorem ei_loop (env : List EnvStep) : EnvIrrel (loop env) := by
  induction env with
  | nil =>
    intro e s
    unfold loop
    by_cases hc : s.closed = true
    · have hc' : (setEnv e s).closed = true := hc
      rw [if_pos hc, if_pos hc']; rfl
    · have hc' : ¬ (setEnv e s).closed = true := hc
      rw [if_neg hc, if_neg hc']; rfl
  | cons st rest ih =>
    intro e s
    unfold loop
    by_cases hc : s.closed = true
    · have hc' : (setEnv e s).closed = true := hc
      rw [if_pos hc, if_pos hc']; rfl
    · have hc' : ¬ (setEnv e s).closed = true := hc
      rw [if_neg hc, if_neg hc']
      cases st with
      | selErr => rfl
      | wait dt readable =>
        simp only []
        unfold regularTop
        rw [tick_setEnv, ei_regular e (tick s dt)]
        cases hr : regular (tick s dt) with
        | err x s2 => rfl
        | ok u s2 =>
          simp only [Res.mapS_ok]
          cases readable with
          | none => exact ih e s2
          | some o =>
            simp only []
            rw [ei_recvStep o e s2]
            cases hr2 : recvStep o s2 with
            | err x s3 => rfl
            | ok go s3 =>
              cases go with
              | true => exact ih e s3
              | false => rfl

theorem ei_onLoopEnd (r : Option Exn) : EnvIrrel (onLoopEnd r) := by
  unfold onLoopEnd
  split
  all_goals first
    | exact ei_bind mon_ei_closeSocket (fun _ => ei_yieldEv _)
    | exact ei_throwE _

theorem ei_runBody (env : List EnvStep) : EnvIrrel (runBody env) := by
  unfold runBody
  exact ei_bind (ei_tryC (ei_bind (ei_loop env) (fun _ => ei_pure _)) (fun _ => ei_pure _)) (fun r => ei_onLoopEnd r)

theorem ei_runFinally (x : Exn) : EnvIrrel (runFinally x) := by
  unfold runFinally
  refine ei_getS_bind (fun _ _ => rfl) (fun s => ?_)
  exact ei_bind (ei_ite _ mon_ei_closeSocket (ei_pure _)) (fun _ => ei_bind ei_selClose (fun _ => ei_throwE _))

theorem ei_yieldConnected (proxy : Bool) : EnvIrrel (yieldConnected proxy) := by
  unfold yieldConnected
  refine ei_getS_bind (fun _ _ => rfl) (fun s => ?_)
  split
  · exact ei_tryC (ei_yieldEv _) (fun x => ei_bind mon_ei_closeSocket (fun _ => ei_throwE _))
  · exact ei_yieldEv _

/-- the stored script is never modified -/
theorem EnvIrrel.env_eq {m : M α} (h : EnvIrrel m) (s : Sys) : (m s).state.env = s.env := by
  have h1 := h s.env s
  have h2 : setEnv s.env s = s := rfl
  rw [h2] at h1
  cases hm : m s with
  | ok a s' => rw [hm] at h1; simp only [Res.mapS_ok, Res.ok.injEq, true_and] at h1; rw [h1]; rfl
  | err x s' => rw [hm] at h1; simp only [Res.mapS_err, Res.err.injEq, true_and] at h1; rw [h1]; rfl

theorem EnvIrrel.env_ok {m : M α} (h : EnvIrrel m) {s s' : Sys} {a : α} (hs : m s = .ok a s') : s'.env = s.env := by
  have := h.env_eq s; rw [hs] at this; exact this

theorem EnvIrrel.env_err {m : M α} (h : EnvIrrel m) {s s' : Sys} {x : Exn} (hs : m s = .err x s') : s'.env = s.env := by
  have := h.env_eq s; rw [hs] at this; exact this

theorem ei_runBodyL {l : M Unit} (hl : EnvIrrel l) : EnvIrrel (runBodyL l) :=
  ei_bind (ei_tryC (ei_bind hl (fun _ => ei_pure _)) (fun _ => ei_pure _)) (fun r => ei_onLoopEnd r)

theorem ei_runLoopL {l : M Unit} (hl : EnvIrrel l) : EnvIrrel (runLoopL l) :=
  ei_tryC (ei_bind (ei_runBodyL hl) (fun _ => ei_selClose)) ei_runFinally

theorem ei_afterConnectL {l : M Unit} (hl : EnvIrrel l) (proxy : Bool) (sel : Bool) :
    EnvIrrel (afterConnectL l proxy sel) := by
  unfold afterConnectL
  refine ei_bind (ei_modS (fun _ _ => rfl)) (fun _ => ei_getS_bind (fun _ _ => rfl) (fun s =>
    ei_bind (ei_write _ _) (fun r => ?_)))
  split
  · exact ei_bind mon_ei_closeSocket (fun _ => ei_yieldEv _)
  · exact ei_bind (ei_yieldConnected proxy) (fun _ => ei_bind (ei_modS (fun _ _ => rfl)) (fun _ => ei_runLoopL hl))

theorem ei_runL {l : M Unit} (hl : EnvIrrel l) : EnvIrrel (runL l) := by
  unfold runL
  refine ei_bind (ei_yieldEv _) (fun _ => ei_getS_bind (fun _ _ => rfl) (fun s => ?_))
  split
  · exact ei_yieldEv _
  · exact ei_yieldEv _
  · exact ei_afterConnectL hl _ _
  · exact ei_afterConnectL (ei_throwE _) _ _

theorem afterConnect_eq_L (proxy : Bool) (s : Sys) : afterConnect proxy s = afterConnectL (loop s.env) proxy true s := by
  unfold afterConnect afterConnectL
  have h0 : modS (fun s => { s with sockOpen := true }) s = .ok () { s with sockOpen := true } := rfl
  rw [bind_ok h0, bind_ok h0]
  rw [bind_ok (show getS { s with sockOpen := true } = .ok _ _ from rfl)]
  rw [bind_ok (show getS { s with sockOpen := true } = .ok _ _ from rfl)]
  obtain ⟨r, s1, hw⟩ := write_ok s.cfg.request none { s with sockOpen := true }
  have e1 : s1.env = s.env := (ei_write _ _).env_ok (s := { s with sockOpen := true }) hw
  rw [bind_ok hw, bind_ok hw]
  split
  · rfl
  · cases hy : yieldConnected proxy s1 with
    | err x s2 => rw [bind_err hy, bind_err hy]
    | ok u s2 =>
      have e2 : s2.env = s1.env := (ei_yieldConnected proxy).env_ok hy
      rw [bind_ok hy, bind_ok hy]
      have h3 : modS (fun s => { s with selOpen := true }) s2 = .ok () { s2 with selOpen := true } := rfl
      rw [bind_ok h3, bind_ok h3, runLoop_eq_L]
      show runLoopL (loop s2.env) _ = _
      rw [e2, e1]

/-- `run` is `runL` over the loop on the stored script -/
theorem run_eq_runL (s : Sys) : run s = runL (loop s.env) s := by
  unfold run runL
  cases hy : yieldEv .connecting s with
  | err x s1 => rw [bind_err hy, bind_err hy]
  | ok u s1 =>
    have e1 : s1.env = s.env := (ei_yieldEv _).env_ok hy
    rw [bind_ok hy, bind_ok hy]
    rw [bind_ok (show getS s1 = .ok s1 s1 from rfl), bind_ok (show getS s1 = .ok s1 s1 from rfl)]
    cases hc : s1.cfg.connect with
    | socketFail => rfl
    | otherFail => rfl
    | ok proxy => simp only []; rw [afterConnect_eq_L, e1]
    | selFail proxy => rfl

end Lomond.Core.Monitor
