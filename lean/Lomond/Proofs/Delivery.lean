/-
  C01: conforming server streams (`Item`), their serialisations, and the two halves of the
  delivery theorem: the eager parser turns the bytes of the stream into exactly the frames that
  were written (`ParsesTo`), and the consumer turns those frames into exactly the expected
  events (`Eats`).
-/
import Lomond.Proofs.DeliveryWire
import Lomond.Proofs.DeliveryCalm
set_option linter.unusedSimpArgs false
set_option linter.unusedVariables false
namespace Lomond.Core
open Lomond

/-! ### what a conforming server sends -/

/-- a Ping or Pong frame -/
structure CtrlF where
  pong : Bool
  payload : Bytes
  form : LenForm
  deriving Repr, DecidableEq

def CtrlF.wire (c : CtrlF) : WFrame :=
  { fin := true, opcode := if c.pong then 10 else 9, payload := c.payload, form := c.form }
def CtrlF.event (c : CtrlF) : Event := if c.pong then .pong c.payload else .ping c.payload
def CtrlF.Ok (c : CtrlF) : Prop := c.form.ok c.payload.length ∧ c.payload.length ≤ 125

instance (c : CtrlF) : Decidable c.Ok := by unfold CtrlF.Ok; exact inferInstance

/-- one fragment of a data message: its bytes (possibly none) and the length form of its frame -/
structure Frag where
  payload : Bytes
  form : LenForm
  deriving Repr, DecidableEq

def Frag.Ok (g : Frag) : Prop := g.form.ok g.payload.length
instance (g : Frag) : Decidable g.Ok := by unfold Frag.Ok; exact inferInstance

/-- a data message: Text or Binary, a first fragment, then any number of further fragments each
    preceded by any number of control frames -/
structure DataMsg where
  text : Bool
  first : Frag
  rest : List (List CtrlF × Frag)
  deriving Repr, DecidableEq

/-- the frames after the first one: controls, then a continuation frame; FIN on the last -/
def contWire : List (List CtrlF × Frag) → List WFrame
  | [] => []
  | (cs, g) :: r =>
    cs.map CtrlF.wire ++
      ({ fin := r.isEmpty, opcode := 0, payload := g.payload, form := g.form } : WFrame) :: contWire r

def DataMsg.wire (m : DataMsg) : List WFrame :=
  ({ fin := m.rest.isEmpty, opcode := if m.text then 1 else 2, payload := m.first.payload,
     form := m.first.form } : WFrame) :: contWire m.rest

/-- the bytes of the later fragments, joined -/
def contPayload (r : List (List CtrlF × Frag)) : Bytes := (r.map (·.2.payload)).flatten
/-- the whole message payload -/
def DataMsg.payload (m : DataMsg) : Bytes := m.first.payload ++ contPayload m.rest
/-- the control frames sent between its fragments, in wire order -/
def contCtrls (r : List (List CtrlF × Frag)) : List CtrlF := (r.map (·.1)).flatten

/-- the message event: Binary byte-exact, Text as the code points of the strict UTF-8 decoding -/
def DataMsg.event (m : DataMsg) : Event :=
  if m.text then .text ((Utf8.decode m.payload).getD []) else .binary m.payload

/-- expected events in completion order: the interleaved controls complete first -/
def DataMsg.events (m : DataMsg) : List Event := (contCtrls m.rest).map CtrlF.event ++ [m.event]

def contOk (r : List (List CtrlF × Frag)) : Prop := ∀ x ∈ r, (∀ c ∈ x.1, c.Ok) ∧ x.2.Ok

def DataMsg.Ok (m : DataMsg) : Prop :=
  m.first.Ok ∧ contOk m.rest ∧ (m.text = true → Bytes.WF m.payload ∧ Utf8.wf m.payload = true)

inductive Item
  | ctrl (c : CtrlF)
  | data (m : DataMsg)
  deriving Repr, DecidableEq

def Item.wire : Item → List WFrame
  | .ctrl c => [c.wire]
  | .data m => m.wire
def Item.events : Item → List Event
  | .ctrl c => [c.event]
  | .data m => m.events
def Item.Ok : Item → Prop
  | .ctrl c => c.Ok
  | .data m => m.Ok

/-- the bytes of a list of frames, back to back -/
def wireBytes (ws : List WFrame) : Bytes := (ws.map WFrame.bytes).flatten

theorem wireBytes_append (a b : List WFrame) : wireBytes (a ++ b) = wireBytes a ++ wireBytes b := by
  simp [wireBytes]
theorem wireBytes_cons (w : WFrame) (b : List WFrame) : wireBytes (w :: b) = w.bytes ++ wireBytes b := by
  simp [wireBytes]

/-! ### parser half -/

/-- from state `p`, the bytes of the frames `ws` (followed by anything) make the eager parser
    output exactly these frames and leave it in state `p'` in front of the rest -/
def ParsesTo (v : Variant) (p : PState) (ws : List WFrame) (p' : PState) : Prop :=
  ∀ tail : Bytes, ∃ pouts : List (PState × Out),
    pRun v p (wireBytes ws ++ tail) = PRun.pushAll pouts (pRun v p' tail) ∧
    pouts.map (·.2) = ws.map (fun w => Out.frame w.frame)

theorem parsesTo_nil (v : Variant) (p : PState) : ParsesTo v p [] p :=
  fun tail => ⟨[], rfl, rfl⟩

theorem parsesTo_append {v : Variant} {p p1 p2 : PState} {a b : List WFrame}
    (h1 : ParsesTo v p a p1) (h2 : ParsesTo v p1 b p2) : ParsesTo v p (a ++ b) p2 := by
  intro tail
  obtain ⟨o1, e1, m1⟩ := h1 (wireBytes b ++ tail)
  obtain ⟨o2, e2, m2⟩ := h2 tail
  refine ⟨o1 ++ o2, ?_, by simp [m1, m2]⟩
  rw [wireBytes_append, List.append_assoc, e1, e2, PRun.pushAll_append]

theorem parsesTo_one {v : Variant} {p : PState} (hb : Boundary p) {w : WFrame} (hw : w.Ok) {d : Nat}
    (hd : vres (w.flag v p) p.dfa w.payload = some d) : ParsesTo v p [w] (w.next v p d) := by
  intro tail
  refine ⟨[(w.next v p d, .frame w.frame)], ?_, rfl⟩
  have e : wireBytes [w] ++ tail = w.bytes ++ tail := by simp [wireBytes]
  rw [e]
  exact pRun_wire_ok v p hb w hw d hd _

theorem CtrlF.wire_ok {c : CtrlF} (h : c.Ok) : c.wire.Ok := by
  refine ⟨h.1, Or.inr ⟨?_, rfl, h.2⟩⟩
  unfold CtrlF.wire
  cases c.pong <;> simp

theorem CtrlF.wire_op (c : CtrlF) : c.wire.opcode = 9 ∨ c.wire.opcode = 10 := by
  unfold CtrlF.wire
  cases c.pong <;> simp

/-- frames none of which starts a text message, between messages or inside a binary message -/
theorem parses_nontext (v : Variant) (ws : List WFrame) (p : PState) (hp : Between p)
    (hok : ∀ w ∈ ws, w.Ok ∧ w.opcode ≠ 1) : ∃ p', ParsesTo v p ws p' ∧ Between p' := by
  induction ws generalizing p with
  | nil => exact ⟨p, parsesTo_nil v p, hp⟩
  | cons w r ih =>
    obtain ⟨hw, hop⟩ := hok w (by simp)
    obtain ⟨hd, hb⟩ := between_step v p w hp hop
    obtain ⟨p', h2, hb'⟩ := ih _ hb (fun x hx => hok x (by simp [hx]))
    exact ⟨p', parsesTo_append (a := [w]) (parsesTo_one hp.b hw hd) h2, hb'⟩

/-- control frames inside a text message -/
theorem parses_ctrls_intext (v : Variant) (cs : List CtrlF) (p : PState) (done : Bytes)
    (hp : InText v p done) (hok : ∀ c ∈ cs, c.Ok) :
    ∃ p', ParsesTo v p (cs.map CtrlF.wire) p' ∧ InText v p' done := by
  induction cs generalizing p with
  | nil => exact ⟨p, parsesTo_nil v p, hp⟩
  | cons c r ih =>
    have hc := hok c (by simp)
    have hop : c.wire.opcode ≥ 8 := by rcases c.wire_op with h | h <;> omega
    obtain ⟨hd, hb⟩ := intext_ctrl v p c.wire done hp hop
    obtain ⟨p', h2, hb'⟩ := ih _ hb (fun x hx => hok x (by simp [hx]))
    exact ⟨p', parsesTo_append (a := [c.wire]) (parsesTo_one hp.b (CtrlF.wire_ok hc) hd) h2, hb'⟩


theorem validate_prefix (st : Nat) (a b : Bytes) (d : Nat) (h : Utf8.validate st (a ++ b) = some d) :
    ∃ d', Utf8.validate st a = some d' := by
  rw [Utf8.validate_append] at h
  cases h1 : Utf8.validate st a with
  | none => rw [h1] at h; cases h
  | some d' => exact ⟨d', rfl⟩

/-- a complete well-formed UTF-8 string passes the validator and leaves it in ACCEPT -/
theorem validate_of_wf (bs : Bytes) (hb : Bytes.WF bs) (hw : Utf8.wf bs = true) :
    Utf8.validate 0 bs = some 0 := by
  rw [Utf8.validate_eq_run 0 bs (by decide) (by decide) hb]
  have := (Utf8.srun_zero_iff_wf bs).mpr hw
  simp [this]

theorem contWire_ok (r : List (List CtrlF × Frag)) (h : contOk r) :
    ∀ w ∈ contWire r, w.Ok ∧ w.opcode ≠ 1 := by
  induction r with
  | nil => intro w hw; simp [contWire] at hw
  | cons x r ih =>
    obtain ⟨cs, g⟩ := x
    have hx := h (cs, g) (by simp)
    intro w hw
    simp only [contWire, List.mem_append, List.mem_map, List.mem_cons] at hw
    rcases hw with ⟨c, hc, rfl⟩ | rfl | hw
    · refine ⟨CtrlF.wire_ok (hx.1 c hc), ?_⟩
      rcases c.wire_op with h | h <;> omega
    · exact ⟨⟨hx.2, Or.inl (Or.inl rfl)⟩, by simp⟩
    · exact ih (fun y hy => h y (by simp [hy])) w hw

/-- the continuation frames (and interleaved controls) of a text message -/
theorem parses_cont_text (v : Variant) (r : List (List CtrlF × Frag)) (p : PState) (done : Bytes)
    (hp : InText v p done) (hok : contOk r) (d0 : Nat)
    (hval : Utf8.validate 0 (done ++ contPayload r) = some d0) :
    ∃ p', ParsesTo v p (contWire r) p' ∧ (r = [] → InText v p' done) ∧ (r ≠ [] → Between p') := by
  induction r generalizing p done with
  | nil => exact ⟨p, parsesTo_nil v p, fun _ => hp, fun h => (h rfl).elim⟩
  | cons x r ih =>
    obtain ⟨cs, g⟩ := x
    have hx := hok (cs, g) (by simp)
    obtain ⟨p1, h1, hb1⟩ := parses_ctrls_intext v cs p done hp hx.1
    have hval' : Utf8.validate 0 ((done ++ g.payload) ++ contPayload r) = some d0 := by
      simpa [contPayload] using hval
    obtain ⟨dg, hdg⟩ := validate_prefix 0 _ _ _ hval'
    have hwok : ({ fin := r.isEmpty, opcode := 0, payload := g.payload, form := g.form } : WFrame).Ok :=
      ⟨hx.2, Or.inl (Or.inl rfl)⟩
    obtain ⟨d, hd, hnext⟩ := intext_cont v p1
      { fin := r.isEmpty, opcode := 0, payload := g.payload, form := g.form } done hb1 rfl dg hdg
    have h2 := parsesTo_one (v := v) hb1.b hwok hd
    cases r with
    | nil =>
      simp only [List.isEmpty_nil, if_true] at hnext
      refine ⟨_, ?_, (fun h => by cases h), fun _ => hnext⟩
      have : contWire [(cs, g)] = cs.map CtrlF.wire ++
          [({ fin := true, opcode := 0, payload := g.payload, form := g.form } : WFrame)] := rfl
      rw [this]
      exact parsesTo_append h1 h2
    | cons y r' =>
      simp only [List.isEmpty_cons, Bool.false_eq_true, if_false] at hnext
      obtain ⟨p3, h3, _, hb3⟩ := ih _ _ hnext (fun z hz => hok z (by simp [hz])) hval'
      refine ⟨p3, ?_, (fun h => by cases h), fun _ => hb3 (by simp)⟩
      have : contWire ((cs, g) :: y :: r') = cs.map CtrlF.wire ++
          ([({ fin := false, opcode := 0, payload := g.payload, form := g.form } : WFrame)] ++
            contWire (y :: r')) := rfl
      rw [this]
      exact parsesTo_append h1 (parsesTo_append h2 h3)

/-- **parser half for one data message**: from between two messages, back to between two messages,
    with exactly the frames written as outputs -/
theorem parses_data (v : Variant) (m : DataMsg) (p : PState) (hp : Between p) (hm : m.Ok) :
    ∃ p', ParsesTo v p m.wire p' ∧ Between p' := by
  obtain ⟨hfirst, hrest, htext⟩ := hm
  cases ht : m.text with
  | false =>
    apply parses_nontext v m.wire p hp
    intro w hw
    simp only [DataMsg.wire, ht, List.mem_cons] at hw
    rcases hw with rfl | hw
    · exact ⟨⟨hfirst, Or.inl (Or.inr (Or.inr rfl))⟩, by simp⟩
    · exact contWire_ok m.rest hrest w hw
  | true =>
    obtain ⟨hwf, hutf⟩ := htext ht
    have hval := validate_of_wf m.payload hwf hutf
    unfold DataMsg.payload at hval
    obtain ⟨d1, hd1⟩ := validate_prefix 0 _ _ _ hval
    have hwok : ({ fin := m.rest.isEmpty, opcode := 1, payload := m.first.payload,
                   form := m.first.form } : WFrame).Ok := ⟨hfirst, Or.inl (Or.inr (Or.inl rfl))⟩
    obtain ⟨d, hd, hnext⟩ := between_text v p
      { fin := m.rest.isEmpty, opcode := 1, payload := m.first.payload, form := m.first.form } hp rfl d1 hd1
    have h1 := parsesTo_one (v := v) hp.b hwok hd
    have hw : m.wire = [({ fin := m.rest.isEmpty, opcode := 1, payload := m.first.payload,
                           form := m.first.form } : WFrame)] ++ contWire m.rest := by
      simp [DataMsg.wire, ht]
    rw [hw]
    cases hr : m.rest with
    | nil =>
      rw [hr] at hnext h1
      simp only [List.isEmpty_nil, if_true] at hnext
      exact ⟨_, by simpa [contWire] using h1, hnext⟩
    | cons y r' =>
      rw [hr] at hnext h1 hval
      simp only [List.isEmpty_cons, Bool.false_eq_true, if_false] at hnext
      obtain ⟨p3, h3, _, hb3⟩ := parses_cont_text v (y :: r') _ _ hnext (hr ▸ hrest) 0 hval
      exact ⟨p3, parsesTo_append h1 h3, hb3 (by simp)⟩


/-- **parser half for a whole stream of items** -/
theorem parses_items (v : Variant) (items : List Item) (p : PState) (hp : Between p)
    (hok : ∀ it ∈ items, it.Ok) : ∃ p', ParsesTo v p (items.flatMap Item.wire) p' ∧ Between p' := by
  induction items generalizing p with
  | nil => exact ⟨p, parsesTo_nil v p, hp⟩
  | cons it r ih =>
    have h1 : ∃ p1, ParsesTo v p it.wire p1 ∧ Between p1 := by
      have hi := hok it (by simp)
      cases it with
      | ctrl c =>
        apply parses_nontext v [c.wire] p hp
        intro w hw
        simp only [List.mem_singleton] at hw
        subst hw
        refine ⟨CtrlF.wire_ok hi, ?_⟩
        rcases c.wire_op with h | h <;> omega
      | data m => exact parses_data v m p hp hi
    obtain ⟨p1, h1, hb1⟩ := h1
    obtain ⟨p2, h2, hb2⟩ := ih p1 hb1 (fun x hx => hok x (by simp [hx]))
    exact ⟨p2, by rw [List.flatMap_cons]; exact parsesTo_append h1 h2, hb2⟩

/-! ### consumer half -/

/-- from any good, open state whose fragment list is `fr`, consuming the frames `fs` (handed over
    with whatever parser states) succeeds, yields exactly the events `es` (newest first) and
    leaves the fragment list `fr'` -/
def Eats (fs : List Frame) (es : List Event) (fr fr' : List Frame) : Prop :=
  ∀ (pouts : List (PState × Out)), pouts.map (·.2) = fs.map Out.frame →
    ∀ (fin : Sys → Res Bool) (more : List (PState × Out)) (s : Sys),
      Good s → s.closed = false → s.frames = fr →
      ∃ s', consume fin (pouts ++ more) s = consume fin more s' ∧ Rel es s s' ∧ s'.frames = fr'

theorem eats_nil (fr : List Frame) : Eats [] [] fr fr := by
  intro pouts hm fin more s g hc hf
  have : pouts = [] := by simpa using hm
  subst this
  exact ⟨s, rfl, Rel.refl s, hf⟩

theorem eats_append {a b : List Frame} {e1 e2 : List Event} {f0 f1 f2 : List Frame}
    (h1 : Eats a e1 f0 f1) (h2 : Eats b e2 f1 f2) : Eats (a ++ b) (e2 ++ e1) f0 f2 := by
  intro pouts hm fin more s g hc hf
  rw [List.map_append] at hm
  obtain ⟨o1, o2, rfl, m1, m2⟩ := List.map_eq_append_iff.mp hm
  obtain ⟨s1, c1, r1, f1'⟩ := h1 o1 m1 fin (o2 ++ more) s g hc hf
  obtain ⟨s2, c2, r2, f2'⟩ := h2 o2 m2 fin more s1 (r1.good g) (by rw [r1.closed]; exact hc) f1'
  exact ⟨s2, by rw [List.append_assoc, c1, c2], r1.trans r2, f2'⟩

/-- one frame: what `onOut` does with it from any parser state -/
theorem eats_one {f : Frame} {es : List Event} {fr fr' : List Frame}
    (h : ∀ (s : Sys), Good s → s.closed = false → s.frames = fr →
        ∃ s', onOut (.frame f) s = .ok true s' ∧ Rel es s s' ∧ s'.frames = fr') :
    Eats [f] es fr fr' := by
  intro pouts hm fin more s g hc hf
  obtain ⟨x, rest, rfl, hx, hr⟩ := List.map_eq_cons_iff.mp hm
  have : rest = [] := by simpa using hr
  subst this
  obtain ⟨p1, o⟩ := x
  simp only at hx
  subst hx
  obtain ⟨s', e, r, f'⟩ := h { s with p := p1 } ⟨g.quiet, g.nt⟩ hc hf
  refine ⟨s', ?_, ⟨r.cfg, r.react, r.closed, r.closing, r.nt, r.evs⟩, f'⟩
  show consume fin ((p1, Out.frame f) :: more) s = _
  simp only [consume]
  rw [e]


theorem eats_ctrl (c : CtrlF) (hc : c.Ok) (fr : List Frame) : Eats [c.wire.frame] [c.event] fr fr := by
  apply eats_one
  intro s g hcl hf
  have hop : c.wire.frame.opcode = 9 ∨ c.wire.frame.opcode = 10 := c.wire_op
  obtain ⟨s', e, cm⟩ := onOut_ctrl c.wire.frame s g hcl rfl hop hc.2
  have hev : (if c.wire.frame.opcode = 9 then Event.ping c.wire.frame.payload
              else Event.pong c.wire.frame.payload) = c.event := by
    unfold CtrlF.event CtrlF.wire WFrame.frame
    cases c.pong <;> simp
  rw [hev] at cm
  exact ⟨s', e, cm.rel, cm.frames.trans hf⟩

theorem eats_ctrls (cs : List CtrlF) (hc : ∀ c ∈ cs, c.Ok) (fr : List Frame) :
    Eats (cs.map (WFrame.frame ∘ CtrlF.wire)) (cs.map CtrlF.event).reverse fr fr := by
  induction cs with
  | nil => exact eats_nil fr
  | cons c r ih =>
    have h1 := eats_ctrl c (hc c (by simp)) fr
    have h2 := ih (fun x hx => hc x (by simp [hx]))
    have := eats_append h1 h2
    simpa using this

/-- the message a complete data payload is turned into, and its event -/
theorem msg_of_data (m : DataMsg) (hm : m.Ok) :
    ∃ msg, msgOfPayload (if m.text then 1 else 2) m.payload = .ok msg ∧
      onMessage msg = feedYield true m.event ∧ Deliverable m.event := by
  cases ht : m.text with
  | false =>
    refine ⟨.binary m.payload, ?_, ?_, ?_⟩
    · simp [msgOfPayload, Gen.opBinary]
    · simp [DataMsg.event, ht, onMessage]
    · simp [DataMsg.event, ht, Deliverable]
  | true =>
    obtain ⟨_, hutf⟩ := hm.2.2 ht
    have hs : (Utf8.decode m.payload).isSome = true := by rw [Utf8.decode_isSome]; exact hutf
    obtain ⟨cps, hcps⟩ := Option.isSome_iff_exists.mp hs
    refine ⟨.text cps, ?_, ?_, ?_⟩
    · simp [msgOfPayload, Gen.opBinary, Gen.opText, hcps]
    · simp [DataMsg.event, ht, onMessage, hcps]
    · simp [DataMsg.event, ht, Deliverable]

/-- the continuation frames of a message whose earlier fragments are `first :: tl` -/
theorem eats_cont (r : List (List CtrlF × Frag)) (hr : r ≠ []) (hok : contOk r)
    (first : Frame) (tl : List Frame) (h1 : first.rsv1 = 0)
    (msg : Msg) (e : Event)
    (hm : msgOfPayload first.opcode (((first :: tl).map (·.payload)).flatten ++ contPayload r) = .ok msg)
    (he : onMessage msg = feedYield true e) (hd : Deliverable e) :
    Eats ((contWire r).map WFrame.frame) (e :: ((contCtrls r).map CtrlF.event).reverse) (first :: tl) [] := by
  induction r generalizing tl with
  | nil => exact (hr rfl).elim
  | cons x r ih =>
    obtain ⟨cs, g⟩ := x
    have hx := hok (cs, g) (by simp)
    have hcs := eats_ctrls cs hx.1 (first :: tl)
    cases r with
    | nil =>
      -- last fragment
      have hlast : Eats [({ fin := true, opcode := 0, payload := g.payload, form := g.form } : WFrame).frame]
          [e] (first :: tl) [] := by
        apply eats_one
        intro s gd hcl hf
        refine onOut_data_fin _ s gd hcl (by simp [WFrame.frame]) rfl
          (by rw [hf]; simp [Frame.isContinuation, WFrame.frame, Gen.opContinuation])
          first (tl ++ [_]) (by rw [hf]; rfl) h1 msg ?_ e he hd
        simpa [contPayload, WFrame.frame] using hm
      have := eats_append hcs hlast
      simpa [contWire, contCtrls] using this
    | cons y r' =>
      have hmore : Eats [({ fin := false, opcode := 0, payload := g.payload, form := g.form } : WFrame).frame]
          [] (first :: tl)
          (first :: (tl ++ [({ fin := false, opcode := 0, payload := g.payload, form := g.form } : WFrame).frame])) := by
        apply eats_one
        intro s gd hcl hf
        refine ⟨_, onOut_data_more _ s hcl (by simp [WFrame.frame]) rfl
          (by rw [hf]; simp [Frame.isContinuation, WFrame.frame, Gen.opContinuation]),
          ⟨rfl, rfl, rfl, rfl, id, rfl⟩, ?_⟩
        simp [hf]
      have hrest := ih (by simp) (fun z hz => hok z (by simp [hz]))
        (tl ++ [({ fin := false, opcode := 0, payload := g.payload, form := g.form } : WFrame).frame])
        (by simpa [contPayload, WFrame.frame] using hm)
      have := eats_append hcs (eats_append hmore hrest)
      simpa [contWire, contCtrls] using this


/-- the first frame of a data message, with FIN as given -/
def DataMsg.firstW (m : DataMsg) (b : Bool) : WFrame :=
  { fin := b, opcode := if m.text then 1 else 2, payload := m.first.payload, form := m.first.form }

theorem DataMsg.wire_eq (m : DataMsg) : m.wire = m.firstW m.rest.isEmpty :: contWire m.rest := rfl

/-- **Reassembly** (consumer half for one data message): the frames of a fragmented message, with
    control frames interleaved, produce the interleaved control events in order and then exactly
    one message event carrying the concatenation of the fragment payloads; the fragment list is
    empty again afterwards. -/
theorem eats_data (m : DataMsg) (hm : m.Ok) : Eats (m.wire.map WFrame.frame) m.events.reverse [] [] := by
  obtain ⟨msg, hmsg, he, hd⟩ := msg_of_data m hm
  have hop : ∀ b, (m.firstW b).frame.opcode = if m.text then 1 else 2 := fun _ => rfl
  have hpl : ∀ b, (m.firstW b).frame.payload = m.first.payload := fun _ => rfl
  have hctl : ∀ b, (m.firstW b).frame.isControl = false := by
    intro b; unfold DataMsg.firstW; cases m.text <;> simp [Frame.isControl, WFrame.frame]
  have hcont : ∀ b, (m.firstW b).frame.isContinuation = false := by
    intro b; unfold DataMsg.firstW
    cases m.text <;> simp [Frame.isContinuation, WFrame.frame, Gen.opContinuation]
  rw [m.wire_eq]
  cases hr : m.rest with
  | nil =>
    have hp : m.payload = m.first.payload := by simp [DataMsg.payload, hr, contPayload]
    have : Eats [(m.firstW true).frame] [m.event] [] [] := by
      apply eats_one
      intro s gd hcl hf
      refine onOut_data_fin _ s gd hcl (by simp [WFrame.frame, DataMsg.firstW]) (hctl true)
        (by rw [hf, hcont true]; simp) _ [] (by rw [hf]; rfl) rfl msg ?_ m.event he hd
      rw [hp] at hmsg
      simpa [hop, hpl] using hmsg
    simpa [DataMsg.events, hr, contWire, contCtrls] using this
  | cons y r' =>
    have h1 : Eats [(m.firstW false).frame] [] [] [(m.firstW false).frame] := by
      apply eats_one
      intro s gd hcl hf
      refine ⟨_, onOut_data_more _ s hcl (by simp [WFrame.frame, DataMsg.firstW]) (hctl false)
        (by rw [hf, hcont false]; simp), ⟨rfl, rfl, rfl, rfl, id, rfl⟩, ?_⟩
      simp [hf]
    have h2 := eats_cont (y :: r') (by simp) (hr ▸ hm.2.1) (m.firstW false).frame [] rfl msg m.event
      (by simpa [DataMsg.payload, hr, hop, hpl] using hmsg) he hd
    have := eats_append h1 h2
    simpa [DataMsg.events, hr] using this

/-- **consumer half for a whole stream of items** -/
theorem eats_items (items : List Item) (hok : ∀ it ∈ items, it.Ok) :
    Eats ((items.flatMap Item.wire).map WFrame.frame) (items.flatMap Item.events).reverse [] [] := by
  induction items with
  | nil => exact eats_nil []
  | cons it r ih =>
    have h1 : Eats (it.wire.map WFrame.frame) it.events.reverse [] [] := by
      have hi := hok it (by simp)
      cases it with
      | ctrl c => exact eats_ctrl c hi []
      | data m => exact eats_data m hi
    have h2 := ih (fun x hx => hok x (by simp [hx]))
    have := eats_append h1 h2
    simpa [List.flatMap_cons] using this


/-! ### the final Close frame -/

/-- a Close frame: no body, or a status code and a UTF-8 reason -/
structure CloseF where
  body : Option (Nat × Bytes)
  form : LenForm
  deriving Repr, DecidableEq

def CloseF.payload (c : CloseF) : Bytes :=
  match c.body with
  | none => []
  | some (code, rb) => beBytes 2 code ++ rb
def CloseF.wire (c : CloseF) : WFrame := { fin := true, opcode := 8, payload := c.payload, form := c.form }
def CloseF.code (c : CloseF) : Option Nat := c.body.map (·.1)
def CloseF.reason (c : CloseF) : List Nat :=
  match c.body with
  | none => []
  | some (_, rb) => (Utf8.decode rb).getD []
/-- the client is not closing yet, so a server Close is reported as `Closing` -/
def CloseF.event (c : CloseF) : Event := .closing c.code c.reason

def CloseF.Ok (c : CloseF) : Prop :=
  c.form.ok c.payload.length ∧ c.payload.length ≤ 125 ∧
  ∀ code rb, c.body = some (code, rb) →
    code < 65536 ∧ isInvalidCode code = false ∧ Bytes.WF rb ∧ Utf8.wf rb = true

theorem CloseF.wire_ok {c : CloseF} (h : c.Ok) : c.wire.Ok :=
  ⟨h.1, Or.inr ⟨Or.inl rfl, rfl, h.2.1⟩⟩

theorem encodeReplace_scalar (cps : List Nat) (h : ∀ c ∈ cps, Utf8.isScalar c = true) :
    encodeReplace cps = Utf8.encode cps := by
  unfold encodeReplace
  congr 1
  have : ∀ c ∈ cps, (fun c => if 0xD800 ≤ c ∧ c ≤ 0xDFFF then 63 else c) c = c := by
    intro c hc
    have hs := h c hc
    unfold Utf8.isScalar at hs
    have : ¬ (0xD800 ≤ c ∧ c ≤ 0xDFFF) := by
      intro hh
      simp at hs
      omega
    simp only [this, if_false]
  calc cps.map (fun c => if 0xD800 ≤ c ∧ c ≤ 0xDFFF then 63 else c) = cps.map id :=
        List.map_congr_left this
    _ = cps := List.map_id cps

theorem closeFromPayload_ok (c : CloseF) (h : c.Ok) :
    closeFromPayload c.payload = .ok (.close c.code c.reason) := by
  obtain ⟨_, _, hb⟩ := h
  unfold CloseF.payload CloseF.code CloseF.reason
  cases hbody : c.body with
  | none => simp [closeFromPayload]
  | some x =>
    obtain ⟨code, rb⟩ := x
    obtain ⟨hcode, _, hwf, hutf⟩ := hb code rb hbody
    have hlen : (beBytes 2 code ++ rb).length = 2 + rb.length := by simp [beBytes_length]
    have htake : (beBytes 2 code ++ rb).take 2 = beBytes 2 code := List.take_left' (beBytes_length 2 code)
    have hdrop : (beBytes 2 code ++ rb).drop 2 = rb := List.drop_left' (beBytes_length 2 code)
    have hval := validate_of_wf rb hwf hutf
    have hs : (Utf8.decode rb).isSome = true := by rw [Utf8.decode_isSome]; exact hutf
    obtain ⟨cps, hcps⟩ := Option.isSome_iff_exists.mp hs
    unfold closeFromPayload
    simp only [hlen, htake, hdrop, hval, hcps, beVal_beBytes]
    have h1 : ¬ 2 + rb.length = 1 := by omega
    have h2 : 2 + rb.length ≥ 2 := by omega
    have h3 : code % 256 ^ 2 = code := Nat.mod_eq_of_lt (by omega)
    simp [h1, h2, h3]


/-- the echo of a Close: `close(code, reason)` with arguments that fit a control frame -/
theorem wsClose_echo (code : Option Nat) (cps : List Nat) (s1 : Sys) (g1 : Good s1)
    (h1 : s1.closed = false) (h2 : s1.closing = false) (hbig : ∀ c, code = some c → c < 65536)
    (hlen : (buildClosePayload code (encodeReplace cps)).length ≤ 125) :
    ∃ s2, wsClose code (.str cps) s1 = .ok .ok s2 ∧ delivered s2.trace = delivered s1.trace ∧
      s2.closed = false ∧ s2.frames = s1.frames ∧ s2.cfg = s1.cfg ∧ s2.react = s1.react := by
  obtain ⟨a, s2, e, c⟩ := tot_sendFrame Gen.opClose (buildClosePayload code (encodeReplace cps)) none s1 g1
  have hl : ¬ (buildClosePayload code (encodeReplace cps)).length > 125 := by omega
  have key : wsClose code (.str cps) s1 =
      .ok .ok { s2 with closing := true, sentCloseTime := some (sessionTime s2) } := by
    unfold wsClose
    simp only [h1, h2, Bool.false_eq_true, if_false]
    cases code with
    | none =>
      simp only [hl, Bool.false_eq_true, false_or, and_false, if_false]
      rw [e]
    | some k =>
      have hk : ¬ k ≥ 65536 := by have := hbig k rfl; omega
      simp only [hk, decide_false, hl, Bool.false_eq_true, false_or, and_false, if_false]
      rw [e]
  refine ⟨_, key, ?_, ?_, ?_, ?_, ?_⟩
  · simpa using c.evs
  · show s2.closed = false
    rw [c.closed]; exact h1
  · exact c.frames
  · exact c.cfg
  · exact c.react

theorem close_echo_payload (c : CloseF) (h : c.Ok) :
    buildClosePayload c.code (encodeReplace c.reason) = c.payload := by
  unfold CloseF.code CloseF.reason CloseF.payload
  cases hbody : c.body with
  | none => rfl
  | some x =>
    obtain ⟨code, rb⟩ := x
    obtain ⟨_, _, _, hutf⟩ := h.2.2 code rb hbody
    have hs : (Utf8.decode rb).isSome = true := by rw [Utf8.decode_isSome]; exact hutf
    obtain ⟨cps, hcps⟩ := Option.isSome_iff_exists.mp hs
    obtain ⟨he, hsc⟩ := Utf8.encode_decode rb cps hcps
    simp only [Option.map_some, hcps, Option.getD_some, buildClosePayload]
    rw [encodeReplace_scalar cps hsc, he]

/-- **the server's Close**: reported as `Closing(code, reason)`, echoed, and the websocket is in
    the closing state afterwards -/
theorem onOut_close (c : CloseF) (hc : c.Ok) (s : Sys) (g : Good s) (hcl : s.closed = false)
    (hcg : s.closing = false) :
    ∃ s', onOut (.frame c.wire.frame) s = .ok true s' ∧
      delivered s'.trace = c.event :: delivered s.trace ∧
      s'.closed = false ∧ s'.closing = true ∧ s'.frames = s.frames ∧ s'.cfg = s.cfg ∧ s'.react = s.react := by
  have hctl : c.wire.frame.isControl = true := by simp [Frame.isControl, WFrame.frame, CloseF.wire]
  have hb : buildMessage [c.wire.frame] s = .ok (.close c.code c.reason) s := by
    rw [buildMessage_plain c.wire.frame [] s rfl]
    have : msgOfPayload c.wire.frame.opcode (([c.wire.frame].map (·.payload)).flatten)
        = closeFromPayload c.payload := by
      simp [msgOfPayload, WFrame.frame, CloseF.wire, Gen.opBinary, Gen.opText, Gen.opClose]
    rw [this, closeFromPayload_ok c hc]
    rfl
  have hcc : checkCloseCode c.code s = .ok () s := by
    unfold checkCloseCode CloseF.code
    cases hbody : c.body with
    | none => rfl
    | some x =>
      obtain ⟨code, rb⟩ := x
      obtain ⟨_, hinv, _, _⟩ := hc.2.2 code rb hbody
      simp only [Option.map_some, hinv, Bool.false_eq_true, if_false]
      rfl
  obtain ⟨_, s1, e1, c1⟩ := tot_feedYield true (.closing c.code c.reason) trivial s g
  have hbig : ∀ k, c.code = some k → k < 65536 := by
    intro k hk
    unfold CloseF.code at hk
    cases hbody : c.body with
    | none => rw [hbody] at hk; cases hk
    | some x =>
      obtain ⟨code, rb⟩ := x
      rw [hbody] at hk
      simp only [Option.map_some, Option.some.injEq] at hk
      subst hk
      exact (hc.2.2 code rb hbody).1
  obtain ⟨s2, e2, d2, cl2, f2, cfg2, re2⟩ := wsClose_echo c.code c.reason s1 (c1.good g)
    (by rw [c1.closed]; exact hcl) (by rw [c1.closing]; exact hcg) hbig
    (by rw [close_echo_payload c hc]; exact hc.2.1)
  refine ⟨{ s2 with closing := true }, ?_, ?_, cl2, rfl, ?_, ?_, ?_⟩
  · show (do onFrame c.wire.frame; notClosed : M Bool) s = _
    have hf : onFrame c.wire.frame s = .ok () { s2 with closing := true } := by
      unfold onFrame
      simp only [hctl, if_true]
      rw [bind_ok hb]
      show onClose c.code c.reason s = _
      unfold onClose
      rw [bind_ok hcc, bind_ok (show getS s = .ok s s from rfl)]
      simp only [hcl, hcg, Bool.false_eq_true, if_false]
      rw [bind_ok e1, bind_ok e2]
      rfl
    rw [bind_ok hf, notClosed_eq]
    show Res.ok (!s2.closed) _ = _
    rw [cl2]
    rfl
  · show delivered s2.trace = _
    rw [d2, c1.evs]
    rfl
  · exact f2.trans c1.frames
  · exact cfg2.trans c1.cfg
  · exact re2.trans c1.react


/-! ### both halves together -/

/-- normal end of the loop: all data consumed, parser left in `p'` -/
def finOk (p' : PState) (s : Sys) : Res Bool := .ok true { s with p := p' }

theorem feedLoop_of_parses (ws : List WFrame) (s : Sys) (p' : PState) (hc : s.p.cont ≠ .header)
    (h : ParsesTo s.cfg.v s.p ws p') :
    ∃ pouts : List (PState × Out), pouts.map (·.2) = ws.map (fun w => Out.frame w.frame) ∧
      feedLoop (wireBytes ws) s = consume (finOk p') pouts s := by
  obtain ⟨pouts, e, m⟩ := h []
  refine ⟨pouts, m, ?_⟩
  rw [feedLoop_eq_fold _ s hc]
  have e' : pRun s.cfg.v s.p (wireBytes ws) = PRun.pushAll pouts { p := p' } := by
    rw [List.append_nil, pRun_nil] at e; exact e
  rw [e']
  have h1 : (PRun.pushAll pouts { p := p' }).outs = pouts := by simp [PRun.pushAll]
  have h2 : (PRun.pushAll pouts { p := p' }).fin = finOk p' := by
    funext s; rfl
  rw [h1, h2]

/-- **Delivery, items**: feeding the bytes of any conforming serialisation of `items` from a state
    between two messages yields exactly the expected events, in completion order, and returns to
    a state between two messages. -/
theorem feed_items (items : List Item) (hok : ∀ it ∈ items, it.Ok) (s : Sys) (g : Good s)
    (hcl : s.closed = false) (hfr : s.frames = []) (hp : Between s.p) :
    ∃ s', feedLoop (wireBytes (items.flatMap Item.wire)) s = .ok true s' ∧
      Rel (items.flatMap Item.events).reverse s s' ∧ s'.frames = [] ∧ Between s'.p := by
  have hc : s.p.cont ≠ .header := by rw [hp.b.cont]; simp
  obtain ⟨p', hpar, hb'⟩ := parses_items s.cfg.v items s.p hp hok
  obtain ⟨pouts, m, e⟩ := feedLoop_of_parses _ s p' hc hpar
  have m' : pouts.map (·.2) = ((items.flatMap Item.wire).map WFrame.frame).map Out.frame := by
    rw [m, List.map_map]; rfl
  obtain ⟨s1, e1, r1, f1⟩ := eats_items items hok pouts m' (finOk p') [] s g hcl hfr
  rw [List.append_nil] at e1
  refine ⟨{ s1 with p := p' }, ?_, ⟨r1.cfg, r1.react, r1.closed, r1.closing, r1.nt, r1.evs⟩, f1, hb'⟩
  rw [e, e1]
  rfl

/-- **Delivery, final Close** -/
theorem feed_close (c : CloseF) (hc : c.Ok) (s : Sys) (g : Good s) (hcl : s.closed = false)
    (hcg : s.closing = false) (hp : Between s.p) :
    ∃ s', feedLoop c.wire.bytes s = .ok true s' ∧ delivered s'.trace = c.event :: delivered s.trace ∧
      s'.closed = false ∧ s'.closing = true ∧ s'.frames = s.frames ∧ Between s'.p := by
  have hcont : s.p.cont ≠ .header := by rw [hp.b.cont]; simp
  obtain ⟨p', hpar, hb'⟩ := parses_nontext s.cfg.v [c.wire] s.p hp (by
    intro w hw
    simp only [List.mem_singleton] at hw
    subst hw
    exact ⟨CloseF.wire_ok hc, by simp [CloseF.wire]⟩)
  obtain ⟨pouts, m, e⟩ := feedLoop_of_parses _ s p' hcont hpar
  obtain ⟨x, rest, rfl, hx, hr⟩ := List.map_eq_cons_iff.mp m
  have : rest = [] := by simpa using hr
  subst this
  obtain ⟨p1, o⟩ := x
  simp only at hx
  subst hx
  obtain ⟨s1, e1, d1, cl1, cg1, f1, _, _⟩ := onOut_close c hc { s with p := p1 } ⟨g.quiet, g.nt⟩ hcl hcg
  refine ⟨{ s1 with p := p' }, ?_, d1, cl1, cg1, f1, hb'⟩
  have hw : wireBytes [c.wire] = c.wire.bytes := by simp [wireBytes]
  rw [← hw, e]
  simp only [consume]
  rw [e1]
  rfl


/-! ### the consumer alone: frames pushed through `onOut` with the parser left where it is -/

/-- `WebsocketStream.feed` + `WebSocket.feed` + `run()` over a list of frames -/
def feedFrames : List Frame → Sys → Res Bool
  | [], s => .ok true s
  | f :: r, s =>
    match onOut (.frame f) s with
    | .ok true s2 => feedFrames r s2
    | .ok false s2 => .ok false s2
    | .err x s2 => .err x s2

theorem consume_eq_feedFrames (fs : List Frame) (s : Sys) :
    consume (finOk s.p) (fs.map (fun f => (s.p, Out.frame f))) s = feedFrames fs s := by
  induction fs generalizing s with
  | nil => cases s; rfl
  | cons f r ih =>
    have e0 : ({ s with p := s.p } : Sys) = s := by cases s; rfl
    simp only [List.map_cons, consume, feedFrames, e0]
    have hk := keep_onOut_frame f s
    cases hr : onOut (.frame f) s with
    | err x s2 => rfl
    | ok go s2 =>
      rw [hr] at hk
      have e1 : s2.p = s.p := hk
      cases go with
      | false => rfl
      | true =>
        simp only
        rw [← e1]
        exact ih s2

instance (r : List (List CtrlF × Frag)) : Decidable (contOk r) := by
  unfold contOk; exact inferInstance
instance (m : DataMsg) : Decidable m.Ok := by unfold DataMsg.Ok; exact inferInstance
instance (it : Item) : Decidable it.Ok := by
  cases it <;> (unfold Item.Ok; exact inferInstance)
instance (c : CloseF) : Decidable c.Ok := by
  unfold CloseF.Ok
  cases c.body with
  | none => exact decidable_of_iff (c.form.ok c.payload.length ∧ c.payload.length ≤ 125) (by simp)
  | some x =>
    exact decidable_of_iff (c.form.ok c.payload.length ∧ c.payload.length ≤ 125 ∧
      (x.1 < 65536 ∧ isInvalidCode x.1 = false ∧ Bytes.WF x.2 ∧ Utf8.wf x.2 = true)) (by
        constructor
        · rintro ⟨a, b, h⟩
          refine ⟨a, b, ?_⟩
          intro code rb hx
          cases hx
          exact h
        · rintro ⟨a, b, h⟩
          exact ⟨a, b, h x.1 x.2 rfl⟩)

end Lomond.Core
