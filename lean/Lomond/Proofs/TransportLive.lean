/-
  C18, liveness half: with the `pending()` short-cut and a positive poll interval the loop
  hands *every* arrived byte to `feed` after finitely many iterations, whatever the arrival
  pattern.  (Termination measure: buffered bytes + weight of the future arrivals + distance of
  the clock from the last arrival.)
-/
import Lomond.Proofs.Transport

namespace Lomond.Transport
open Lomond

/-! ### measure -/

def weight : List (Nat × Bytes) → Nat
  | [] => 0
  | a :: l => a.2.length + 1 + weight l

def horizon : List (Nat × Bytes) → Nat
  | [] => 0
  | a :: l => max a.1 (horizon l)

def mu (s : St) : Nat := s.sock.buffered.length + weight s.future + (horizon s.future - s.now)

theorem weight_append (a b : List (Nat × Bytes)) : weight (a ++ b) = weight a + weight b := by
  induction a with
  | nil => simp [weight]
  | cons x a ih => simp [weight, ih]; omega

theorem horizon_append (a b : List (Nat × Bytes)) : horizon (a ++ b) = max (horizon a) (horizon b) := by
  induction a with
  | nil => simp [horizon]
  | cons x a ih => simp [horizon, ih, Nat.max_assoc]

theorem weight_eq (l : List (Nat × Bytes)) : weight l = (bytesOf l).length + l.length := by
  induction l with
  | nil => rfl
  | cons x l ih => simp [weight, ih]; omega

/-- nothing is buffered and nothing is still to come -/
def Drained (s : St) : Prop := s.sock.buffered = [] ∧ s.future = []

/-- everything that was ever going to arrive has been handed to `feed` -/
def Complete (s : St) : Prop := bytesOf s.log = content s

theorem Drained.complete {s : St} (h : Drained s) : Complete s := by
  simp [Complete, content, h.1, h.2]

/-! ### invariants of the socket needed for progress -/

/-- no empty TLS record is queued (`push` drops them) -/
def Sock.NE : Sock → Prop
  | .plain _ => True
  | .tls rs _ => ∀ r ∈ rs, r ≠ []

theorem Sock.push_NE (p : Bytes) {sk : Sock} (h : sk.NE) : (sk.push p).NE := by
  cases sk with
  | plain k => trivial
  | tls rs pe =>
    by_cases hp : p = []
    · subst hp; simpa [Sock.push] using h
    · have : p.isEmpty = false := by cases p <;> simp_all
      simp only [Sock.push, this, Bool.false_eq_true, ↓reduceIte]
      intro r hr
      rcases List.mem_append.mp hr with hr | hr
      · exact h r hr
      · simp at hr; subst hr; exact hp

theorem pushAll_NE {sk : Sock} (as : List (Nat × Bytes)) (h : sk.NE) : (pushAll sk as).NE := by
  induction as generalizing sk with
  | nil => exact h
  | cons a as ih => exact ih (Sock.push_NE a.2 h)

theorem Sock.recv_NE (c : Nat) {sk : Sock} (h : sk.NE) : (sk.recv c).2.NE := by
  cases sk with
  | plain k => trivial
  | tls rs p =>
    cases p with
    | nil =>
      cases rs with
      | nil => simpa [Sock.recv] using h
      | cons r rs => intro x hx; exact h x (by simp [hx])
    | cons b p => exact (by simpa [Sock.recv, Sock.NE] using h)

theorem Sock.push_pendingBytes (p : Bytes) (sk : Sock) : (sk.push p).pendingBytes = sk.pendingBytes := by
  cases sk with
  | plain k => rfl
  | tls rs pe => simp only [Sock.push]; split <;> rfl

theorem pushAll_pendingBytes (sk : Sock) (as : List (Nat × Bytes)) : (pushAll sk as).pendingBytes = sk.pendingBytes := by
  induction as generalizing sk with
  | nil => rfl
  | cons a as ih => simp [pushAll, ih, Sock.push_pendingBytes]

/-- `recv` with a positive count returns nothing only when nothing is buffered -/
theorem Sock.recv_nil {c : Nat} (hc : 0 < c) {sk : Sock} (h : sk.NE) (he : (sk.recv c).1 = []) :
    sk.buffered = [] := by
  have hb := bufferSize_pos
  have hm : 0 < min c bufferSize := by omega
  cases sk with
  | plain k =>
    cases k with
    | nil => rfl
    | cons b k =>
      simp only [Sock.recv] at he
      obtain ⟨m, hm'⟩ : ∃ m, min c bufferSize = m + 1 := ⟨min c bufferSize - 1, by omega⟩
      rw [hm'] at he; simp at he
  | tls rs p =>
    cases p with
    | nil =>
      cases rs with
      | nil => rfl
      | cons r rs =>
        have hr : r ≠ [] := h r (by simp)
        cases r with
        | nil => exact absurd rfl hr
        | cons b r =>
          simp only [Sock.recv] at he
          obtain ⟨m, hm'⟩ : ∃ m, min c bufferSize = m + 1 := ⟨min c bufferSize - 1, by omega⟩
          rw [hm'] at he; simp at he
    | cons b p =>
      simp only [Sock.recv] at he
      obtain ⟨m, hm'⟩ : ∃ m, min c bufferSize = m + 1 := ⟨min c bufferSize - 1, by omega⟩
      rw [hm'] at he; simp at he

theorem Sock.recv_length (c : Nat) (sk : Sock) :
    (sk.recv c).1.length + (sk.recv c).2.buffered.length = sk.buffered.length := by
  have := congrArg List.length (Sock.recv_conserve c sk)
  simpa using this

/-- readable with an empty kernel buffer means the peer has closed -/
theorem Sock.hup_of_readable {sk : Sock} {hup : Bool} (hr : sk.fdReadable hup = true) (hk : sk.kernel = [])
    (hne : sk.NE) : hup = true := by
  cases sk with
  | plain k => simp_all [Sock.fdReadable, Sock.kernel]
  | tls rs p =>
    cases rs with
    | nil => simpa [Sock.fdReadable] using hr
    | cons r rs =>
      have : r ≠ [] := hne r (by simp)
      simp [Sock.kernel] at hk
      exact absurd hk.1 this

structure LInv (s : St) : Prop where
  ne : s.sock.NE
  hup : s.hup = true → s.future = []

theorem LInv_congr {s s' : St} (h : LInv s) (h1 : s'.sock = s.sock) (h2 : s'.future = s.future) (h3 : s'.hup = s.hup) :
    LInv s' := ⟨by rw [h1]; exact h.ne, by rw [h2, h3]; exact h.hup⟩

theorem dropWhile_nil_of_nil {α} (p : α → Bool) {l : List α} (h : l = []) : l.dropWhile p = [] := by
  subst h; rfl

theorem deliverDue_LInv {s : St} (h : LInv s) : LInv (deliverDue s) := by
  refine ⟨pushAll_NE _ h.ne, ?_⟩
  intro hh
  simp only [deliverDue, Bool.or_eq_true, Bool.and_eq_true] at hh
  rcases hh with hh | hh
  · exact dropWhile_nil_of_nil _ (h.hup hh)
  · show s.future.dropWhile _ = []
    simpa using hh.1

theorem weight_split (p : Nat × Bytes → Bool) (l : List (Nat × Bytes)) :
    weight l = weight (l.takeWhile p) + weight (l.dropWhile p) := by
  have := congrArg weight (List.takeWhile_append_dropWhile (p := p) (l := l))
  rw [weight_append] at this; exact this.symm

theorem horizon_split (p : Nat × Bytes → Bool) (l : List (Nat × Bytes)) :
    horizon l = max (horizon (l.takeWhile p)) (horizon (l.dropWhile p)) := by
  have := congrArg horizon (List.takeWhile_append_dropWhile (p := p) (l := l))
  rw [horizon_append] at this; exact this.symm

theorem deliverDue_mu (s : St) :
    mu (deliverDue s) + (s.future.takeWhile (fun a => decide (a.1 ≤ s.now))).length ≤ mu s := by
  have hw := weight_split (fun a => decide (a.1 ≤ s.now)) s.future
  have hh := horizon_split (fun a => decide (a.1 ≤ s.now)) s.future
  have hq := weight_eq (s.future.takeWhile (fun a => decide (a.1 ≤ s.now)))
  simp only [mu, deliverDue, pushAll_buffered, List.length_append]
  simp only [bytesOf] at hq
  have hmax : horizon (s.future.dropWhile (fun a => decide (a.1 ≤ s.now))) ≤ horizon s.future := by
    rw [hh]; exact Nat.le_max_right _ _
  omega

theorem deliverDue_mu_le (s : St) : mu (deliverDue s) ≤ mu s := by
  have := deliverDue_mu s; omega

theorem deliverDue_pendingBytes (s : St) : (deliverDue s).sock.pendingBytes = s.sock.pendingBytes :=
  pushAll_pendingBytes _ _

theorem deliverDue_drained {s : St} (h : Drained s) : Drained (deliverDue s) := by
  refine ⟨?_, ?_⟩
  · simp [deliverDue, pushAll_buffered, h.1, h.2]
  · simp [deliverDue, h.2]

/-! ### the blocking wait -/

theorem block_LInv (t : Nat) {s : St} (h : LInv s) : LInv (block t s).2 := by
  unfold block
  split
  · exact h
  · split
    · split
      · exact deliverDue_LInv (LInv_congr h rfl rfl rfl)
      · exact LInv_congr h rfl rfl rfl
    · exact LInv_congr h rfl rfl rfl

theorem block_pendingBytes (t : Nat) (s : St) : (block t s).2.sock.pendingBytes = s.sock.pendingBytes := by
  unfold block
  split
  · rfl
  · split
    · split
      · exact deliverDue_pendingBytes _
      · rfl
    · rfl

/-- what `block` answers is the readiness of the world it returns -/
theorem block_readable (t : Nat) (s : St) (h : (block t s).1 = true) :
    (block t s).2.sock.fdReadable (block t s).2.hup = true := by
  unfold block at h ⊢
  split
  · rename_i hr; simpa using hr
  · rename_i hr
    simp only [hr] at h
    split
    · rename_i t' hn
      simp only [hn] at h
      split
      · rename_i hle; simpa [hle] using h
      · rename_i hle; simp [hle] at h
    · rename_i hn; simp [hn] at h

theorem mu_now_le {s s' : St} (h0 : s.now ≤ s'.now) (h2 : s'.sock = s.sock) (h3 : s'.future = s.future) :
    mu s' ≤ mu s := by simp only [mu, h2, h3]; omega

theorem block_mu_le (t : Nat) (s : St) : mu (block t s).2 ≤ mu s := by
  unfold block
  split
  · exact Nat.le_refl _
  · split
    · split
      · exact Nat.le_trans (deliverDue_mu_le _) (mu_now_le (Nat.le_max_left _ _) rfl rfl)
      · exact mu_now_le (Nat.le_add_right _ _) rfl rfl
    · exact mu_now_le (Nat.le_add_right _ _) rfl rfl

theorem horizon_head {a : Nat × Bytes} {l : List (Nat × Bytes)} : a.1 ≤ horizon (a :: l) := by
  simp [horizon]; omega

/-- a wait that does not find the socket readable either makes progress or there is nothing
    left to wait for -/
theorem block_progress {t : Nat} (ht : 0 < t) {s : St} (hb : s.sock.buffered = [])
    (hr : s.sock.fdReadable s.hup = false) : mu (block t s).2 < mu s ∨ Drained (block t s).2 := by
  cases hf : s.future with
  | nil =>
    right
    unfold block
    simp only [hr, Bool.false_eq_true, ↓reduceIte]
    split
    · split
      · exact deliverDue_drained ⟨hb, hf⟩
      · exact ⟨hb, hf⟩
    · exact ⟨hb, hf⟩
  | cons a l =>
    left
    have hn : nextTime s = some a.1 := by simp [nextTime, hf]
    unfold block
    simp only [hr, Bool.false_eq_true, ↓reduceIte, hn]
    split
    · rename_i hle
      have hd := deliverDue_mu { s with now := max s.now a.1 }
      have hlen : 0 < (List.takeWhile (fun x : Nat × Bytes => decide (x.1 ≤ max s.now a.1)) s.future).length := by
        rw [hf]
        have : a.1 ≤ max s.now a.1 := Nat.le_max_right _ _
        simp [this]
      have hm : mu { s with now := max s.now a.1 } ≤ mu s := mu_now_le (Nat.le_max_left _ _) rfl rfl
      show mu (deliverDue { s with now := max s.now a.1 }) < mu s
      simp only at hd hlen
      omega
    · rename_i hle
      have h1 : a.1 ≤ horizon s.future := by rw [hf]; exact horizon_head
      show mu { s with now := s.now + t } < mu s
      simp only [mu]
      omega

/-! ### `SelectorBase.wait` -/

/-- what the loop knows after `selector.wait` returned `w = (readable, max_bytes, world)` -/
structure Post (s : St) (w : Bool × Nat × St) : Prop where
  inv : LInv w.2.2
  le : mu w.2.2 ≤ mu s
  count_pos : 0 < w.2.1
  idle : w.1 = false → mu w.2.2 < mu s ∨ Drained w.2.2
  ready : w.1 = true → (w.2.2.sock.recv w.2.1).1 = [] → Drained w.2.2

theorem mu_congr {s s' : St} (h0 : s'.now = s.now) (h2 : s'.sock = s.sock) (h3 : s'.future = s.future) :
    mu s' = mu s := by simp [mu, h0, h2, h3]

theorem Drained_congr {s s' : St} (h : Drained s) (h2 : s'.sock = s.sock) (h3 : s'.future = s.future) : Drained s' := by
  refine ⟨by rw [h2]; exact h.1, by rw [h3]; exact h.2⟩

/-- the same facts for a bare `wait_readable` call made with nothing pending in the TLS layer -/
theorem waitReadable_post {t : Nat} (ht : 0 < t) {s : St} (h : LInv s) (hp : s.sock.pendingBytes = []) :
    LInv (waitReadable t s).2 ∧ mu (waitReadable t s).2 ≤ mu s ∧
    ((waitReadable t s).1 = false → mu (waitReadable t s).2 < mu s ∨ Drained (waitReadable t s).2) ∧
    ((waitReadable t s).1 = true → ∀ c, 0 < c → ((waitReadable t s).2.sock.recv c).1 = [] → Drained (waitReadable t s).2) := by
  have hI := block_LInv t h
  refine ⟨LInv_congr hI rfl rfl rfl, ?_, ?_, ?_⟩
  · have e : mu (waitReadable t s).2 = mu (block t s).2 := mu_congr rfl rfl rfl
    rw [e]; exact block_mu_le t s
  · intro hf
    have hf' : (block t s).1 = false := hf
    have e : mu (waitReadable t s).2 = mu (block t s).2 := mu_congr rfl rfl rfl
    rw [e]
    have hr : s.sock.fdReadable s.hup = false := by
      cases hrr : s.sock.fdReadable s.hup with
      | false => rfl
      | true => simp [block, hrr] at hf'
    have hb : s.sock.buffered = [] := by
      rw [Sock.buffered_eq, hp, Sock.kernel_nil_of_not_readable hr]; rfl
    rcases block_progress ht hb hr with h1 | h1
    · exact Or.inl h1
    · exact Or.inr (Drained_congr h1 rfl rfl)
  · intro hrd c hc he
    have hrd' : (block t s).1 = true := hrd
    have hread := block_readable t s hrd'
    have he' : ((block t s).2.sock.recv c).1 = [] := he
    have hbuf := Sock.recv_nil hc hI.ne he'
    have hk : (block t s).2.sock.kernel = [] := by
      have := hbuf; rw [Sock.buffered_eq] at this
      exact (List.append_eq_nil_iff.mp this).2
    have hup := Sock.hup_of_readable hread hk hI.ne
    exact Drained_congr (s := (block t s).2) ⟨hbuf, hI.hup hup⟩ rfl rfl

theorem post_of_wait {t : Nat} (ht : 0 < t) {s s0 : St} (hmu : mu s0 = mu s) (h : LInv s0)
    (hp : s0.sock.pendingBytes = []) {c : Nat} (hc : 0 < c) :
    Post s ((waitReadable t s0).1, c, (waitReadable t s0).2) := by
  obtain ⟨h1, h2, h3, h4⟩ := waitReadable_post ht h hp
  exact ⟨h1, hmu ▸ h2, hc, fun hf => hmu ▸ h3 hf, fun hr he => h4 hr c hc he⟩

theorem pending?_some {sk : Sock} {n : Nat} (h : sk.pending? = some n) : sk.pendingBytes.length = n := by
  cases sk with
  | plain k => simp [Sock.pending?] at h
  | tls rs p => simpa [Sock.pending?, Sock.pendingBytes] using h

theorem selWait_post (cfg : Cfg) (hs : cfg.shortcut = true) (hp : 0 < cfg.poll) {s : St} (h : LInv s) :
    Post s (selWait cfg bufferSize s) := by
  have hbs := bufferSize_pos
  unfold selWait
  simp only [hs, Bool.not_true, Bool.false_eq_true, ↓reduceIte]
  split
  · rename_i hn
    exact post_of_wait hp rfl h (pendingBytes_nil_of_pending? (Or.inl hn)) hbs
  · rename_i n hn
    split
    · rename_i hz
      have hz' : n ≠ 0 := by simpa using hz
      refine ⟨LInv_congr h rfl rfl rfl, Nat.le_of_eq (mu_congr rfl rfl rfl), Nat.pos_of_ne_zero hz', by simp, ?_⟩
      intro _ he
      exfalso
      have hb := Sock.recv_nil (c := n) (by omega) h.ne he
      rw [Sock.buffered_eq] at hb
      have := (List.append_eq_nil_iff.mp hb).1
      have hl := pending?_some hn
      rw [this] at hl
      simp at hl; omega
    · rename_i hz
      have hz' : n = 0 := by simpa using hz
      subst hz'
      exact post_of_wait (s := s) (s0 := { s with trace := s.trace ++ [Tok.pend 0] }) hp (mu_congr rfl rfl rfl)
        (LInv_congr h rfl rfl rfl) (pendingBytes_nil_of_pending? (Or.inr hn)) hbs

/-! ### one loop iteration, then the loop -/

theorem cycleBody_live (cfg : Cfg) (hs : cfg.shortcut = true) (hp : 0 < cfg.poll) {s : St} (h : LInv s) :
    LInv (cycleBody cfg s) ∧ (mu (cycleBody cfg s) < mu s ∨ Drained (cycleBody cfg s)) ∧
    ((cycleBody cfg s).stopped = true → s.stopped = true ∨ Drained (cycleBody cfg s)) := by
  have P := selWait_post cfg hs hp h
  have hst := selWait_stopped cfg bufferSize s
  unfold cycleBody
  simp only
  split
  · rename_i hr
    have hlen := Sock.recv_length (selWait cfg bufferSize s).2.1 (selWait cfg bufferSize s).2.2.sock
    have hne := Sock.recv_NE (selWait cfg bufferSize s).2.1 P.inv.ne
    split
    · rename_i he
      have he' : ((selWait cfg bufferSize s).2.2.sock.recv (selWait cfg bufferSize s).2.1).1 = [] := by
        simpa using he
      have hd := P.ready hr he'
      have hb : ((selWait cfg bufferSize s).2.2.sock.recv (selWait cfg bufferSize s).2.1).2.buffered = [] := by
        rw [hd.1, he'] at hlen
        exact List.eq_nil_of_length_eq_zero (by simpa using hlen)
      have hD : Drained { (selWait cfg bufferSize s).2.2 with
          sock := ((selWait cfg bufferSize s).2.2.sock.recv (selWait cfg bufferSize s).2.1).2,
          trace := (selWait cfg bufferSize s).2.2.trace ++ [Tok.recv (selWait cfg bufferSize s).2.2.now (selWait cfg bufferSize s).2.1
            ((selWait cfg bufferSize s).2.2.sock.recv (selWait cfg bufferSize s).2.1).1.length],
          stopped := true } := ⟨hb, hd.2⟩
      exact ⟨⟨hne, P.inv.hup⟩, Or.inr hD, fun _ => Or.inr hD⟩
    · rename_i he
      have hpos : 0 < ((selWait cfg bufferSize s).2.2.sock.recv (selWait cfg bufferSize s).2.1).1.length := by
        cases hc : ((selWait cfg bufferSize s).2.2.sock.recv (selWait cfg bufferSize s).2.1).1 with
        | nil => simp [hc] at he
        | cons _ _ => simp
      refine ⟨⟨hne, P.inv.hup⟩, Or.inl ?_, fun hh => Or.inl (hst ▸ hh)⟩
      have hle := P.le
      simp only [mu] at hle ⊢
      omega
  · rename_i hr
    exact ⟨P.inv, P.idle (Bool.eq_false_iff.mpr hr), fun hh => Or.inl (hst ▸ hh)⟩

theorem cycle_live (cfg : Cfg) (hs : cfg.shortcut = true) (hp : 0 < cfg.poll) {s : St} (h : LInv s) :
    LInv (cycle cfg s) ∧ (mu (cycle cfg s) < mu s ∨ Drained (cycle cfg s)) ∧
    ((cycle cfg s).stopped = true → s.stopped = true ∨ Drained (cycle cfg s)) := by
  obtain ⟨h1, h2, h3⟩ := cycleBody_live cfg hs hp (deliverDue_LInv h)
  have := deliverDue_mu_le s
  refine ⟨h1, ?_, h3⟩
  rcases h2 with h2 | h2
  · exact Or.inl (by unfold cycle; omega)
  · exact Or.inr h2

theorem exists_complete (cfg : Cfg) (hs : cfg.shortcut = true) (hp : 0 < cfg.poll) :
    ∀ (k : Nat) (s : St), mu s ≤ k → LInv s → (s.stopped = true → Complete s) → ∃ n, Complete (run cfg n s) := by
  intro k
  induction k with
  | zero =>
    intro s hk h hst
    cases hs' : s.stopped with
    | true => exact ⟨0, hst hs'⟩
    | false =>
      obtain ⟨_, h2, _⟩ := cycle_live cfg hs hp h
      rcases h2 with h2 | h2
      · omega
      · exact ⟨1, by simp [run, hs']; exact h2.complete⟩
  | succ k ih =>
    intro s hk h hst
    cases hs' : s.stopped with
    | true => exact ⟨0, hst hs'⟩
    | false =>
      obtain ⟨h1, h2, h3⟩ := cycle_live cfg hs hp h
      rcases h2 with h2 | h2
      · obtain ⟨n, hn⟩ := ih (cycle cfg s) (by omega) h1 (fun hh => by
          rcases h3 hh with h4 | h4
          · rw [hs'] at h4; cases h4
          · exact h4.complete)
        exact ⟨n + 1, by simpa [run, hs'] using hn⟩
      · exact ⟨1, by simp [run, hs']; exact h2.complete⟩

/-! ### once complete, always complete -/

theorem cycleBody_log_ext (cfg : Cfg) (s : St) : ∃ ext, (cycleBody cfg s).log = s.log ++ ext := by
  have hl := selWait_log cfg bufferSize s
  unfold cycleBody
  simp only
  split
  · split
    · exact ⟨[], by simp [hl]⟩
    · exact ⟨_, by rw [hl]⟩
  · exact ⟨[], by simp [hl]⟩

theorem cycle_log_ext (cfg : Cfg) (s : St) : ∃ ext, (cycle cfg s).log = s.log ++ ext := by
  obtain ⟨e, he⟩ := cycleBody_log_ext cfg (deliverDue s)
  exact ⟨e, by simpa [cycle] using he⟩

theorem run_log_ext (cfg : Cfg) (n : Nat) (s : St) : ∃ ext, (run cfg n s).log = s.log ++ ext := by
  induction n generalizing s with
  | zero => exact ⟨[], by simp [run]⟩
  | succ n ih =>
    simp only [run]
    split
    · exact ⟨[], by simp⟩
    · obtain ⟨e1, h1⟩ := cycle_log_ext cfg s
      obtain ⟨e2, h2⟩ := ih (cycle cfg s)
      exact ⟨e1 ++ e2, by rw [h2, h1, List.append_assoc]⟩

theorem complete_stable {s s' : St} (hc : content s' = content s) (hl : ∃ ext, s'.log = s.log ++ ext)
    (h : Complete s) : Complete s' := by
  obtain ⟨ext, hl⟩ := hl
  unfold Complete at h ⊢
  have h' := hc
  rw [← h] at h'
  simp only [content, hl, bytesOf_append, List.append_assoc] at h'
  have h'' := List.append_cancel_left (as := bytesOf s.log) (bs := bytesOf ext ++ (s'.sock.buffered ++ bytesOf s'.future)) (cs := [])
    (by simpa using h')
  have hext : bytesOf ext = [] := (List.append_eq_nil_iff.mp h'').1
  rw [hc, ← h, hl, bytesOf_append, hext, List.append_nil]

theorem run_complete (cfg : Cfg) (n : Nat) {s : St} (h : Complete s) : Complete (run cfg n s) :=
  complete_stable (run_content cfg n s) (run_log_ext cfg n s) h

theorem run_of_stopped (cfg : Cfg) (n : Nat) {s : St} (h : s.stopped = true) : run cfg n s = s := by
  cases n <;> simp [run, h]

theorem run_add (cfg : Cfg) (n m : Nat) (s : St) : run cfg (n + m) s = run cfg m (run cfg n s) := by
  induction n generalizing s with
  | zero => simp [run]
  | succ n ih =>
    rw [Nat.add_right_comm]
    simp only [run]
    split
    · rename_i h; exact (run_of_stopped cfg m h).symm
    · exact ih _

end Lomond.Transport
