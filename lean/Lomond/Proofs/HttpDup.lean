/-
  C10, wire level, second part: replies with REPEATED header names and with continuation lines
  (obs-folds) INSIDE a header value.

  `Proofs/Http.lean` follows `Response.__init__` over the renderings of `Spec.WireField`: one field per
  name, at most one fold, directly after the colon.  This file follows the same loop (`Http.parseLines`)
  over the general generator `Spec.FField`:

  * a field is a field line plus any number of continuation lines, each introduced by `CR LF` and at
    least one blank; every line may end in blanks;
  * the list of fields is arbitrary: names may repeat, with equal or different values.

  What the code does (and what is proved here):

  * a continuation line contributes `' ' + line.lstrip()` to the value being collected;
  * a repeated name contributes `','` and then its own value to the value collected under that name
    (first-occurrence position in the table, all occurrences joined in wire order);
  * the collected text is stripped (Python `str.strip()`) once, at the end.

  So `Response.get(name)` is `strip (joinWith "," (raw texts of the fields called name, in wire order))`
  (`get_render2`).  For a name written once that is the RFC 7230 field value (folds replaced by one SP,
  OWS trimmed: `FField.value`, `combined_single`); for a name written twice or more it contains a comma
  (`combined_comma`).

  Definitions of the generator are in `namespace Lomond.Spec` (specification side); lemmas in `Lomond.Http`.
-/
import Lomond.Proofs.Http
import Lomond.Proofs.Proxy

namespace Lomond.Spec
open Lomond

/-- one continuation line of a header field (RFC 7230 obs-fold): `CR LF`, the blanks `ws` (at least one),
    the text `body`, blanks `trail` -/
structure Cont where
  ws : Bytes
  body : Bytes
  trail : Bytes
  deriving Repr, DecidableEq

/-- one header field as a server may write it: the field line `name ":" pre body trail` followed by the
    continuation lines `conts` -/
structure FField where
  /-- canonical (lower-case) field name -/
  name : Bytes
  /-- which letters of the name are sent in upper case -/
  upper : List Bool
  /-- blanks between the colon and the text of the field line -/
  pre : Bytes
  /-- the text on the field line (may be empty: the value then starts on the first continuation line) -/
  body : Bytes
  /-- blanks at the end of the field line -/
  trail : Bytes
  conts : List Cont
  deriving Repr, DecidableEq

def Cont.line (c : Cont) : Bytes := c.ws ++ c.body ++ c.trail

/-- the lines of the field (without their `CR LF`) -/
def FField.lines (f : FField) : List Bytes :=
  (upcase f.upper f.name ++ [58] ++ f.pre ++ f.body ++ f.trail) :: f.conts.map Cont.line

/-- what the continuation lines add once every obs-fold (`CR LF` + blanks) is replaced by one SP -/
def contText (cs : List Cont) : Bytes := cs.flatMap (fun c => 32 :: (c.body ++ c.trail))

/-- RFC 7230 §3.2.4: the field content after the colon's blanks, every obs-fold replaced by one SP -/
def FField.unfolded (f : FField) : Bytes := f.body ++ f.trail ++ contText f.conts

/-- RFC 7230 field value: the unfolded content without the optional blanks (SP / HT) at both ends -/
def FField.value (f : FField) : Bytes := trimOWS f.unfolded

/-- the text of one line: ASCII, no CR / LF, a visible character at both ends (may be empty) -/
def textOk (b : Bytes) : Bool :=
  b.all (fun c => c < 128 && c != 13 && c != 10) &&
  (match b with | [] => true | c :: _ => isVChar c) &&
  (match b.reverse with | [] => true | c :: _ => isVChar c)

def Cont.ok (c : Cont) : Bool :=
  c.ws ≠ [] && c.ws.all isBlank && c.trail.all isBlank && c.body ≠ [] && textOk c.body

/-- well-formedness of one written field -/
def FField.ok (f : FField) : Bool :=
  f.name ≠ [] && f.name.all isNameChar && f.pre.all isBlank && f.trail.all isBlank && textOk f.body &&
  f.conts.all Cont.ok

/-- `status-line CRLF *(line CRLF) CRLF` -/
def renderLines (statusLine : Bytes) (ls : List Bytes) : Bytes :=
  statusLine ++ [13, 10] ++ (ls.flatMap (· ++ [13, 10])) ++ [13, 10]

/-- `status-line CRLF *(field CRLF) CRLF` over the general generator -/
def renderReply2 (statusLine : Bytes) (fs : List FField) : Bytes :=
  renderLines statusLine (fs.flatMap FField.lines)

/-- the fields called `n`, in wire order -/
def fieldsNamed (fs : List FField) (n : Bytes) : List FField := fs.filter (fun f => f.name = n)

/-- the embedding of the one-fold generator of `Model/Handshake.lean` -/
def FField.ofWire (f : WireField) : FField :=
  match f.fold with
  | none => { name := f.name, upper := f.upper, pre := f.pre, body := f.value, trail := f.post, conts := [] }
  | some ws => { name := f.name, upper := f.upper, pre := f.pre, body := [], trail := [],
                 conts := [{ ws := ws, body := f.value, trail := f.post }] }

end Lomond.Spec

namespace Lomond.Http
open Lomond Lomond.Spec Lomond.Handshake

/-! ### the table: appending to an entry, looking an entry up -/

theorem hdrAppend_append (hs : List (Str × Str)) (n a b : Str) :
    hdrAppend (hdrAppend hs n a) n b = hdrAppend hs n (a ++ b) := by
  induction hs with
  | nil => simp [hdrAppend]
  | cons p hs ih =>
    obtain ⟨m, v⟩ := p
    by_cases h : m = n
    · simp [hdrAppend, h]
    · simp [hdrAppend, h, ih]

/-- the text collected under `n` so far -/
def lookup (hs : List (Str × Str)) (n : Str) : Option Str := (hs.find? (fun p => p.1 = n)).map (·.2)

theorem lookup_hdrAppend (hs : List (Str × Str)) (m v n : Str) :
    lookup (hdrAppend hs m v) n = if m = n then some ((lookup hs n).getD [] ++ v) else lookup hs n := by
  induction hs with
  | nil =>
    by_cases h : m = n <;> simp [hdrAppend, lookup, h]
  | cons p hs ih =>
    obtain ⟨a, b⟩ := p
    by_cases ham : a = m
    · subst ham
      by_cases han : a = n
      · subst han; simp [hdrAppend, lookup]
      · simp [hdrAppend, lookup, han]
    · by_cases han : a = n
      · subst han
        have : ¬ m = a := fun e => ham e.symm
        simp [hdrAppend, lookup, ham, this]
      · have e1 : lookup ((a, b) :: hdrAppend hs m v) n = lookup (hdrAppend hs m v) n := by
          simp [lookup, han]
        have e2 : lookup ((a, b) :: hs) n = lookup hs n := by simp [lookup, han]
        simp only [hdrAppend, ham, if_false]
        rw [e1, e2, ih]

theorem hdrHas_eq_lookup (hs : List (Str × Str)) (n : Str) : hdrHas hs n = (lookup hs n).isSome := by
  induction hs with
  | nil => rfl
  | cons p hs ih =>
    obtain ⟨a, b⟩ := p
    by_cases h : a = n
    · simp [hdrHas, lookup, h]
    · have e : hdrHas ((a, b) :: hs) n = hdrHas hs n := by simp [hdrHas, h]
      have e2 : lookup ((a, b) :: hs) n = lookup hs n := by simp [lookup, h]
      rw [e, e2, ih]

/-- what one header field does to the table: a `','` first if the name is there already, then its text -/
def tblAdd (hs : List (Str × Str)) (n r : Str) : List (Str × Str) :=
  hdrAppend (if hdrHas hs n then hdrAppend hs n [44] else hs) n r

theorem lookup_tblAdd (hs : List (Str × Str)) (m r n : Str) :
    lookup (tblAdd hs m r) n =
      if m = n then (match lookup hs n with | none => some r | some v => some (v ++ 44 :: r)) else lookup hs n := by
  unfold tblAdd
  by_cases hmn : m = n
  · subst hmn
    rw [hdrHas_eq_lookup]
    cases hl : lookup hs m with
    | none => simp [lookup_hdrAppend, hl]
    | some v => simp [lookup_hdrAppend, hl]
  · by_cases hh : hdrHas hs m = true
    · simp [hh, lookup_hdrAppend, hmn]
    · simp [hh, lookup_hdrAppend, hmn]

/-- the table after a list of (name, text) items -/
def tblOf (items : List (Str × Str)) (hs : List (Str × Str)) : List (Str × Str) :=
  items.foldl (fun T it => tblAdd T it.1 it.2) hs

/-- joining the texts collected for one name -/
def accum (start : Option Str) (rs : List Str) : Option Str :=
  rs.foldl (fun a r => match a with | none => some r | some v => some (v ++ 44 :: r)) start

theorem lookup_tblOf (items : List (Str × Str)) (hs : List (Str × Str)) (n : Str) :
    lookup (tblOf items hs) n = accum (lookup hs n) ((items.filter (fun it => it.1 = n)).map (·.2)) := by
  induction items generalizing hs with
  | nil => rfl
  | cons it items ih =>
    show lookup (tblOf items (tblAdd hs it.1 it.2)) n = _
    rw [ih, lookup_tblAdd]
    by_cases h : it.1 = n
    · simp only [h, if_true, List.filter_cons, decide_true, List.map_cons, accum, List.foldl_cons]
    · simp only [h, if_false, List.filter_cons, decide_false]
      rfl

theorem accum_some (v : Str) (rs : List Str) : accum (some v) rs = some (v ++ rs.flatMap (fun r => 44 :: r)) := by
  induction rs generalizing v with
  | nil => simp [accum]
  | cons r rs ih =>
    show accum (some (v ++ 44 :: r)) rs = _
    rw [ih]; simp

theorem joinWith_cons_flat (r : Str) (rs : List Str) : joinWith [44] (r :: rs) = r ++ rs.flatMap (fun x => 44 :: x) := by
  induction rs generalizing r with
  | nil => simp [joinWith]
  | cons x rs ih =>
    show r ++ [44] ++ joinWith [44] (x :: rs) = _
    rw [ih]; simp

theorem accum_none (rs : List Str) :
    accum none rs = (match rs with | [] => none | _ :: _ => some (joinWith [44] rs)) := by
  cases rs with
  | nil => rfl
  | cons r rs =>
    show accum (some r) rs = _
    rw [accum_some, joinWith_cons_flat]


/-! ### well-formedness as propositions -/

/-- a visible character at both ends (vacuous for the empty text) -/
def EndsV (v : Bytes) : Prop :=
  (∀ c r, v = c :: r → isVChar c = true) ∧ (∀ c t, v.reverse = c :: t → isVChar c = true)

structure TextOk (b : Bytes) : Prop where
  chars : ∀ c ∈ b, c < 128 ∧ c ≠ 13 ∧ c ≠ 10
  ends : EndsV b

structure COk (c : Cont) : Prop where
  ws_ne : c.ws ≠ []
  ws_blank : ∀ x ∈ c.ws, isBlank x = true
  trail_blank : ∀ x ∈ c.trail, isBlank x = true
  body_ne : c.body ≠ []
  body : TextOk c.body

structure FOk (f : FField) : Prop where
  name_ne : f.name ≠ []
  name_chars : ∀ c ∈ f.name, isNameChar c = true
  pre_blank : ∀ c ∈ f.pre, isBlank c = true
  trail_blank : ∀ c ∈ f.trail, isBlank c = true
  body : TextOk f.body
  conts : ∀ c ∈ f.conts, COk c

theorem textOk_of_ok (b : Bytes) (h : textOk b = true) : TextOk b := by
  unfold textOk at h
  simp only [Bool.and_eq_true, List.all_eq_true, decide_eq_true_eq, bne_iff_ne, ne_eq] at h
  obtain ⟨⟨h1, h2⟩, h3⟩ := h
  refine ⟨fun c hc => ⟨(h1 c hc).1.1, (h1 c hc).1.2, (h1 c hc).2⟩, ?_, ?_⟩
  · intro c r e; rw [e] at h2; exact h2
  · intro c t e; rw [e] at h3; exact h3

theorem cOk_of_ok (c : Cont) (h : c.ok = true) : COk c := by
  unfold Cont.ok at h
  simp only [Bool.and_eq_true, decide_eq_true_eq, List.all_eq_true] at h
  obtain ⟨⟨⟨⟨h1, h2⟩, h3⟩, h4⟩, h5⟩ := h
  exact ⟨h1, h2, h3, h4, textOk_of_ok _ h5⟩

theorem fOk_of_ok (f : FField) (h : f.ok = true) : FOk f := by
  unfold FField.ok at h
  simp only [Bool.and_eq_true, decide_eq_true_eq, List.all_eq_true] at h
  obtain ⟨⟨⟨⟨⟨h1, h2⟩, h3⟩, h4⟩, h5⟩, h6⟩ := h
  exact ⟨h1, h2, h3, h4, textOk_of_ok _ h5, fun c hc => cOk_of_ok c (h6 c hc)⟩

theorem endsV_nil : EndsV [] := ⟨(by intro c r e; cases e), (by intro c t e; simp at e)⟩

/-- two non-empty texts with visible ends, anything in between -/
theorem endsV_join (a m b : Bytes) (ha : EndsV a) (hb : EndsV b) (hane : a ≠ []) (hbne : b ≠ []) :
    EndsV (a ++ (m ++ b)) := by
  refine ⟨?_, ?_⟩
  · intro c r e
    cases a with
    | nil => exact absurd rfl hane
    | cons x a' =>
      simp only [List.cons_append, List.cons.injEq] at e
      rw [← e.1]; exact ha.1 x a' rfl
  · intro c t e
    cases hr : b.reverse with
    | nil => simp at hr; exact absurd hr hbne
    | cons y t' =>
      simp only [List.reverse_append, hr, List.cons_append, List.cons.injEq] at e
      rw [← e.1]; exact hb.2 y t' hr

/-! ### the text a field contributes, and its value -/

/-- what `Response.__init__` collects for one field before the final `strip()` -/
def _root_.Lomond.Spec.FField.raw (f : FField) : Str := f.pre ++ f.unfolded

/-- text + trailing blanks + continuation lines = a text with visible ends + blanks -/
theorem tail_decomp (cs : List Cont) (hcs : ∀ c ∈ cs, COk c) (b t : Bytes) (hb : b ≠ []) (hbe : EndsV b)
    (ht : ∀ x ∈ t, isBlank x = true) :
    ∃ V B, b ++ t ++ contText cs = V ++ B ∧ (∀ x ∈ B, isBlank x = true) ∧ V ≠ [] ∧ EndsV V := by
  induction cs generalizing b t with
  | nil => exact ⟨b, t, by simp [contText], ht, hb, hbe⟩
  | cons c r ih =>
    have hc := hcs c (by simp)
    obtain ⟨V', B', e, hB', hV', hE'⟩ := ih (fun x hx => hcs x (by simp [hx])) c.body c.trail hc.body_ne hc.body.ends hc.trail_blank
    refine ⟨b ++ ((t ++ [32]) ++ V'), B', ?_, hB', by simp [hb], endsV_join b (t ++ [32]) V' hbe hE' hb hV'⟩
    have e2 : contText (c :: r) = 32 :: (c.body ++ c.trail ++ contText r) := by simp [contText]
    rw [e2, e]; simp

/-- the unfolded content = blanks, a text with visible ends (or nothing), blanks -/
theorem unfolded_decomp (f : FField) (hf : FOk f) :
    ∃ A V B, f.unfolded = A ++ V ++ B ∧ (∀ x ∈ A, isBlank x = true) ∧ (∀ x ∈ B, isBlank x = true) ∧ EndsV V := by
  unfold FField.unfolded
  by_cases hb : f.body = []
  · rw [hb]
    cases hcs : f.conts with
    | nil => exact ⟨f.trail, [], [], by simp [contText], hf.trail_blank, by simp, endsV_nil⟩
    | cons c r =>
      have hc := hf.conts c (by rw [hcs]; simp)
      obtain ⟨V, B, e, hB, _, hE⟩ := tail_decomp r (fun x hx => hf.conts x (by rw [hcs]; simp [hx])) c.body c.trail
        hc.body_ne hc.body.ends hc.trail_blank
      refine ⟨f.trail ++ [32], V, B, ?_, ?_, hB, hE⟩
      · have e2 : contText (c :: r) = 32 :: (c.body ++ c.trail ++ contText r) := by simp [contText]
        rw [e2, e]; simp
      · intro x hx
        simp only [List.mem_append, List.mem_singleton] at hx
        rcases hx with hx | hx
        · exact hf.trail_blank x hx
        · subst hx; decide
  · obtain ⟨V, B, e, hB, _, hE⟩ := tail_decomp f.conts hf.conts f.body f.trail hb hf.body.ends hf.trail_blank
    exact ⟨[], V, B, by rw [e]; simp, by simp, hB, hE⟩

theorem ows_of_blank (c : Nat) (h : isBlank c = true) : isOWS c = true := h

theorem not_ows_of_vchar (c : Nat) (h : isVChar c = true) : isOWS c = false := by
  have := isVChar_spec c h
  simp only [isOWS, Bool.or_eq_false_iff, beq_eq_false_iff_ne, ne_eq]; omega

/-- **the value of a field written once**: Python's `strip()` of the collected text is the RFC 7230 value
    (obs-folds replaced by SP, blanks trimmed) -/
theorem strip_raw2 (f : FField) (hf : FOk f) : strip f.raw = f.value := by
  obtain ⟨A, V, B, e, hA, hB, hE⟩ := unfolded_decomp f hf
  have h1 : strip (f.pre ++ A ++ V ++ B) = V :=
    stripBy_pad isStrSpace (f.pre ++ A) V B
      (by intro c hc; simp only [List.mem_append] at hc
          rcases hc with hc | hc
          · exact strSpace_of_blank c (hf.pre_blank c hc)
          · exact strSpace_of_blank c (hA c hc))
      (fun c hc => strSpace_of_blank c (hB c hc))
      (fun c r ev => not_strSpace_of_vchar c (isVChar_spec c (hE.1 c r ev)))
      (fun c t ev => not_strSpace_of_vchar c (isVChar_spec c (hE.2 c t ev)))
  have h2 : stripBy isOWS (A ++ V ++ B) = V :=
    stripBy_pad isOWS A V B (fun c hc => ows_of_blank c (hA c hc)) (fun c hc => ows_of_blank c (hB c hc))
      (fun c r ev => not_ows_of_vchar c (hE.1 c r ev)) (fun c t ev => not_ows_of_vchar c (hE.2 c t ev))
  unfold FField.raw FField.value
  rw [trimOWS_eq_stripBy, e, h2]
  simpa using h1

/-- the value of a field without continuation lines is the text of its line -/
theorem value_nofold (f : FField) (hf : FOk f) (hc : f.conts = []) : f.value = f.body := by
  unfold FField.value FField.unfolded
  rw [hc, trimOWS_eq_stripBy]
  have := stripBy_pad isOWS [] f.body f.trail (by simp) (fun c hx => ows_of_blank c (hf.trail_blank c hx))
    (fun c r ev => not_ows_of_vchar c (hf.body.ends.1 c r ev)) (fun c t ev => not_ows_of_vchar c (hf.body.ends.2 c t ev))
  simpa [contText] using this


/-! ### one written field through `Response.__init__`'s loop -/

theorem blank128 (b : Bytes) (hb : ∀ c ∈ b, isBlank c = true) : ∀ c ∈ b, c < 128 := by
  intro c hc; rcases isBlank_spec c (hb c hc) with h | h <;> omega

theorem lstrip_cont (c : Cont) (hc : COk c) : lstrip (c.ws ++ (c.body ++ c.trail)) = c.body ++ c.trail := by
  cases hb : c.body with
  | nil => exact absurd hb hc.body_ne
  | cons v0 vt =>
    have hv0 := isVChar_spec v0 (hc.body.ends.1 v0 vt hb)
    have h1 := lstripBy_append_of_all isStrSpace c.ws (v0 :: vt ++ c.trail)
      (fun x hx => strSpace_of_blank x (hc.ws_blank x hx))
    have h2 := lstripBy_of_head isStrSpace v0 (vt ++ c.trail) (not_strSpace_of_vchar v0 hv0)
    simp only [lstrip]
    rw [h1]; exact h2

/-- the continuation lines of a field: each appends `' ' + line.lstrip()` to the field's entry -/
theorem parseLines_conts (cs : List Cont) (hcs : ∀ c ∈ cs, COk c) (rest : List Bytes) (name : Str) (hn : name ≠ [])
    (T : List (Str × Str)) (v0 : Str) :
    parseLines (cs.map Cont.line ++ rest) (some name) (hdrAppend T name v0) =
      parseLines rest (some name) (hdrAppend T name (v0 ++ contText cs)) := by
  induction cs generalizing v0 with
  | nil => simp [contText]
  | cons c r ih =>
    have hc := hcs c (by simp)
    cases hws : c.ws with
    | nil => exact absurd hws hc.ws_ne
    | cons w0 wt =>
    have hw0 : isBlank w0 = true := hc.ws_blank w0 (by rw [hws]; simp)
    have hascii : asciiReplace c.line = w0 :: (wt ++ (c.body ++ c.trail)) := by
      rw [asciiReplace_id]
      · simp [Cont.line, hws]
      · intro x hx
        simp only [Cont.line, List.append_assoc, List.mem_append] at hx
        rcases hx with hx | hx | hx
        · exact blank128 _ hc.ws_blank x hx
        · exact (hc.body.chars x hx).1
        · exact blank128 _ hc.trail_blank x hx
    have hne : strip (w0 :: (wt ++ (c.body ++ c.trail))) ≠ [] := by
      cases hb : c.body with
      | nil => exact absurd hb hc.body_ne
      | cons v0' vt =>
        have hv0 := isVChar_spec v0' (hc.body.ends.1 v0' vt hb)
        have := stripBy_ne_nil isStrSpace (w0 :: wt) v0' (vt ++ c.trail) (not_strSpace_of_vchar v0' hv0)
        simpa [strip] using this
    have hl : lstrip (w0 :: (wt ++ (c.body ++ c.trail))) = c.body ++ c.trail := by
      have := lstrip_cont c hc
      rw [hws] at this; simpa using this
    simp only [List.map_cons, List.cons_append]
    rw [parseLines_cont c.line _ name _ w0 _ hascii hne (lws_of_blank w0 hw0) hn, hl, hdrAppend_append,
      ih (fun x hx => hcs x (by simp [hx]))]
    have e2 : contText (c :: r) = 32 :: (c.body ++ c.trail) ++ contText r := by simp [contText]
    rw [e2]; simp

/-- **one field, any table**: a `','` if the name is in the table already, then the field's text -/
theorem parseLines_ffield (f : FField) (hf : FOk f) (rest : List Bytes) (cur : Option Str)
    (hs : List (Str × Str)) :
    parseLines (f.lines ++ rest) cur hs = parseLines rest (some f.name) (tblAdd hs f.name f.raw) := by
  have hup := upcase_mem f.upper f.name hf.name_chars
  have hupne := upcase_ne_nil f.upper f.name hf.name_ne
  cases hu : upcase f.upper f.name with
  | nil => exact absurd hu hupne
  | cons u0 ut =>
  have hu0 : isWireNameChar u0 := hup u0 (by rw [hu]; simp)
  have hlow : lower (u0 :: ut) = f.name := by
    rw [← hu]; exact lower_upcase f.upper f.name (fun c hc => (isNameChar_spec c (hf.name_chars c hc)).2.2.2)
  have hnocolon : ∀ c ∈ u0 :: ut, c ≠ 58 := by
    intro c hc; rw [← hu] at hc; exact (hup c hc).2.2
  have hname128 : ∀ c ∈ u0 :: ut, c < 128 := by
    intro c hc; rw [← hu] at hc; have := hup c hc; unfold isWireNameChar at this; omega
  unfold isWireNameChar at hu0
  have hascii : asciiReplace ((u0 :: ut) ++ [58] ++ f.pre ++ f.body ++ f.trail) =
      u0 :: (ut ++ 58 :: (f.pre ++ f.body ++ f.trail)) := by
    rw [asciiReplace_id]
    · simp
    · intro c hc
      simp only [List.append_assoc, List.mem_append, List.mem_cons, List.not_mem_nil, or_false] at hc
      rcases hc with hc | hc | hc | hc | hc
      · exact hname128 c (by simp [hc])
      · omega
      · exact blank128 _ hf.pre_blank c hc
      · exact (hf.body.chars c hc).1
      · exact blank128 _ hf.trail_blank c hc
  have hpart : partition 58 (u0 :: (ut ++ 58 :: (f.pre ++ f.body ++ f.trail))) =
      (u0 :: ut, true, f.pre ++ f.body ++ f.trail) := by
    have := partition_colon (u0 :: ut) (f.pre ++ f.body ++ f.trail) 58 hnocolon
    simpa using this
  have hlines : f.lines = ((u0 :: ut) ++ [58] ++ f.pre ++ f.body ++ f.trail) :: f.conts.map Cont.line := by
    simp [FField.lines, hu]
  rw [hlines, List.cons_append,
    parseLines_head _ _ cur hs u0 _ hascii
      (by have := stripBy_ne_nil isStrSpace [] u0 (ut ++ 58 :: (f.pre ++ f.body ++ f.trail)) (not_strSpace_of_vchar u0 (by omega))
          simpa [strip] using this)
      (not_lws_of_vchar u0 (by omega))]
  simp only [hpart, hlow, strip_name f.name hf.name_ne hf.name_chars]
  rw [parseLines_conts f.conts hf.conts rest f.name hf.name_ne]
  unfold tblAdd FField.raw FField.unfolded
  simp only [List.append_assoc]

/-- the items (name, collected text) of a list of written fields -/
def items (fs : List FField) : List (Str × Str) := fs.map (fun f => (f.name, f.raw))

theorem parseLines_ffields (fs : List FField) (hok : ∀ f ∈ fs, FOk f) (rest : List Bytes)
    (cur : Option Str) (hs : List (Str × Str)) :
    ∃ cur', parseLines (fs.flatMap FField.lines ++ rest) cur hs = parseLines rest cur' (tblOf (items fs) hs) := by
  induction fs generalizing cur hs with
  | nil => exact ⟨cur, rfl⟩
  | cons f fs ih =>
    simp only [List.flatMap_cons, List.append_assoc]
    rw [parseLines_ffield f (hok f (by simp)) _ cur hs]
    obtain ⟨cur', h⟩ := ih (fun g hg => hok g (by simp [hg])) (some f.name) (tblAdd hs f.name f.raw)
    exact ⟨cur', by rw [h]; rfl⟩

theorem cont_no_cr (c : Cont) (hc : COk c) : ∀ x ∈ c.line, x ≠ 13 := by
  intro x hx
  simp only [Cont.line, List.append_assoc, List.mem_append] at hx
  rcases hx with hx | hx | hx
  · rcases isBlank_spec x (hc.ws_blank x hx) with h | h <;> omega
  · exact (hc.body.chars x hx).2.1
  · rcases isBlank_spec x (hc.trail_blank x hx) with h | h <;> omega

theorem flines_no_cr (f : FField) (hf : FOk f) : ∀ l ∈ f.lines, ∀ c ∈ l, c ≠ 13 := by
  have hup := upcase_mem f.upper f.name hf.name_chars
  intro l hl c hc
  simp only [FField.lines, List.mem_cons, List.mem_map] at hl
  rcases hl with hl | ⟨k, hk, hl⟩
  · subst hl
    simp only [List.append_assoc, List.mem_append, List.mem_singleton] at hc
    rcases hc with hc | hc | hc | hc | hc
    · have := hup c hc; unfold isWireNameChar at this; omega
    · omega
    · rcases isBlank_spec c (hf.pre_blank c hc) with h | h <;> omega
    · exact (hf.body.chars c hc).2.1
    · rcases isBlank_spec c (hf.trail_blank c hc) with h | h <;> omega
  · subst hl; exact cont_no_cr k (hf.conts k hk) c hc

/-! ### the rendered block -/

theorem splitCRLF_renderLines (sl : Bytes) (ls : List Bytes) (hsl : ∀ c ∈ sl, c ≠ 13)
    (hls : ∀ l ∈ ls, ∀ c ∈ l, c ≠ 13) : splitCRLF (renderLines sl ls) = sl :: (ls ++ [[], []]) := by
  unfold renderLines
  have := splitCRLF_line sl ((ls.flatMap (· ++ [13, 10])) ++ [13, 10]) hsl
  simp only [List.append_assoc, List.cons_append, List.nil_append] at this ⊢
  rw [this]
  congr 1
  have h2 := splitCRLF_lines ls hls
  simpa using h2

theorem renderReply_eq_lines (sl : Bytes) (fs : List WireField) :
    renderReply sl fs = renderLines sl (fs.flatMap WireField.lines) := rfl

/-- **the header table of a rendered reply** (before lookup): the fold of `tblAdd` over the fields in wire
    order, every collected text stripped -/
theorem headers_render2 (sl : Bytes) (fs : List FField) (hsl : ∀ c ∈ sl, c ≠ 13) (hok : ∀ f ∈ fs, FOk f) :
    (parseResponse (renderReply2 sl fs)).headers = (tblOf (items fs) []).map (fun p => (p.1, strip p.2)) := by
  have hsplit := splitCRLF_renderLines sl (fs.flatMap FField.lines) hsl (by
    intro l hl
    simp only [List.mem_flatMap] at hl
    obtain ⟨f, hf, hl⟩ := hl
    exact flines_no_cr f (hok f hf) l hl)
  unfold parseResponse renderReply2
  simp only [hsplit, List.tail_cons]
  obtain ⟨cur', h⟩ := parseLines_ffields fs hok [[], []] none []
  rw [h, parseLines_tail]

theorem find_map_strip (T : List (Str × Str)) (n : Str) :
    ((T.map (fun p => (p.1, strip p.2))).find? (fun p => p.1 = n)).map (·.2) = (lookup T n).map strip := by
  unfold lookup
  rw [List.find?_map]
  simp only [Option.map_map]
  rfl

/-- the combined text `Response.get` returns for a name: the texts of all fields with that name, in wire
    order, joined with `','`, stripped once -/
def combined (fs : List FField) (n : Bytes) : Option Str :=
  match fieldsNamed fs n with
  | [] => none
  | g :: gs => some (strip (joinWith [44] ((g :: gs).map FField.raw)))

theorem filter_items (fs : List FField) (n : Str) :
    ((items fs).filter (fun it => it.1 = n)).map (·.2) = (fieldsNamed fs n).map FField.raw := by
  unfold items fieldsNamed
  induction fs with
  | nil => rfl
  | cons f fs ih =>
    by_cases h : f.name = n
    · simp only [List.map_cons, List.filter_cons, h, decide_true, if_true]
      rw [ih]
    · simp only [List.map_cons, List.filter_cons, h, decide_false]
      exact ih

/-- **`Response.get` on a rendered reply** -/
theorem get_render2 (sl : Bytes) (fs : List FField) (hsl : ∀ c ∈ sl, c ≠ 13) (hok : ∀ f ∈ fs, FOk f) (n : Str) :
    (parseResponse (renderReply2 sl fs)).get n = combined fs (lower n) := by
  unfold Response.get
  rw [headers_render2 sl fs hsl hok, find_map_strip, lookup_tblOf, filter_items]
  have e0 : lookup [] (lower n) = none := rfl
  rw [e0, accum_none]
  unfold combined
  cases fieldsNamed fs (lower n) with
  | nil => rfl
  | cons g gs => rfl


/-! ### a name written once, a name written more than once -/

/-- a name written exactly once: `Response.get` returns that field's RFC 7230 value -/
theorem combined_single (fs : List FField) (hok : ∀ f ∈ fs, FOk f) (n : Bytes) (f : FField)
    (h : fieldsNamed fs n = [f]) : combined fs n = some f.value := by
  have hf : f ∈ fs := by
    have : f ∈ fieldsNamed fs n := by rw [h]; simp
    exact (List.mem_filter.mp this).1
  unfold combined
  rw [h]
  simp only [List.map_cons, List.map_nil, joinWith]
  rw [strip_raw2 f (hok f hf)]

theorem combined_none (fs : List FField) (n : Bytes) : combined fs n = none ↔ ∀ f ∈ fs, f.name ≠ n := by
  unfold combined fieldsNamed
  cases h : fs.filter (fun f => f.name = n) with
  | nil =>
    simp only [true_iff]
    intro f hf e
    have : f ∈ fs.filter (fun f => f.name = n) := List.mem_filter.mpr ⟨hf, by simpa using e⟩
    rw [h] at this; cases this
  | cons g gs =>
    simp only [reduceCtorEq, false_iff]
    intro hall
    have : g ∈ fs.filter (fun f => f.name = n) := by rw [h]; simp
    obtain ⟨hg, hn⟩ := List.mem_filter.mp this
    exact hall g hg (by simpa using hn)

theorem mem_strip_of_not_space (s : Str) (c : Nat) (hc : c ∈ s) (hs : isStrSpace c = false) : c ∈ strip s := by
  obtain ⟨a, b, e⟩ := List.append_of_mem hc
  have h1 : c ∈ List.dropWhile isStrSpace s := by rw [e]; exact mem_dropWhile_of_neg isStrSpace a c b hs
  obtain ⟨a', b', e'⟩ := List.append_of_mem h1
  have h2 : c ∈ List.dropWhile isStrSpace (List.dropWhile isStrSpace s).reverse := by
    rw [e', List.reverse_append, List.reverse_cons, List.append_assoc]
    exact mem_dropWhile_of_neg isStrSpace b'.reverse c _ hs
  unfold strip stripBy rstripBy lstripBy
  exact List.mem_reverse.mpr h2

/-- **a name written twice or more**: what `Response.get` returns contains a comma (the code joins the
    occurrences with `','`, as RFC 7230 §3.2.2 describes for list-valued fields) -/
theorem combined_comma (fs : List FField) (n : Bytes) (g1 g2 : FField) (gs : List FField)
    (h : fieldsNamed fs n = g1 :: g2 :: gs) : ∃ v, combined fs n = some v ∧ 44 ∈ v := by
  unfold combined
  rw [h]
  refine ⟨_, rfl, ?_⟩
  apply mem_strip_of_not_space _ 44 _ (by decide)
  simp [joinWith]

theorem mem_lower_comma (s : Str) : 44 ∈ lower s ↔ 44 ∈ s := by
  unfold lower
  simp only [List.mem_map]
  constructor
  · rintro ⟨c, hc, e⟩
    split at e
    · omega
    · subst e; exact hc
  · intro h
    exact ⟨44, h, by simp⟩

/-! ### the status line of a rendered block -/

theorem statusCode_renderLines (ver reason : Bytes) (a b c : Nat) (ls : List Bytes)
    (hv : ver ≠ []) (hvs : ∀ x ∈ ver, isBytesSpace x = false) (hr : ∀ x ∈ reason, x ≠ 13)
    (ha : isDigit a = true) (hb : isDigit b = true) (hc : isDigit c = true) :
    (parseResponse (renderLines (statusLine ver [a, b, c] reason) ls)).statusCode = pyInt isBytesSpace [a, b, c] := by
  simp only [isDigit, Bool.and_eq_true, decide_eq_true_eq] at ha hb hc
  have hsl : ∀ x ∈ statusLine ver [a, b, c] reason, x ≠ 13 := by
    intro x hx e
    subst e
    have h1 : (13 : Nat) ∉ ver := fun h => by have := hvs 13 h; revert this; decide
    have h2 : (13 : Nat) ∉ reason := fun h => hr 13 h rfl
    simp only [statusLine, List.append_assoc, List.mem_append, List.mem_cons, List.not_mem_nil, or_false] at hx
    rcases hx with h | h | h | h | h
    all_goals first | exact h1 h | exact h2 h | omega
  have hsplit : (splitCRLF (renderLines (statusLine ver [a, b, c] reason) ls)).headD [] = statusLine ver [a, b, c] reason := by
    unfold renderLines
    have := splitCRLF_line (statusLine ver [a, b, c] reason) ((ls.flatMap (· ++ [13, 10])) ++ [13, 10]) hsl
    simp only [List.append_assoc, List.cons_append, List.nil_append] at this ⊢
    rw [this]; rfl
  unfold parseResponse
  simp only [hsplit]
  rw [splitNone2_status ver [a, b, c] reason hv hvs (by simp)
    (by intro x hx; simp only [List.mem_cons, List.not_mem_nil, or_false] at hx
        simp only [isBytesSpace, Bool.or_eq_false_iff, Bool.and_eq_false_iff, decide_eq_false_iff_not, beq_eq_false_iff_ne]
        omega)]
  have : ([a, b, c].all (· < 128)) = true := by simp; omega
  simp [this]

theorem statusLine_no_cr (ver reason : Bytes) (a b c : Nat)
    (hvs : ∀ x ∈ ver, isBytesSpace x = false) (hr : ∀ x ∈ reason, x ≠ 13)
    (ha : isDigit a = true) (hb : isDigit b = true) (hc : isDigit c = true) :
    ∀ x ∈ statusLine ver [a, b, c] reason, x ≠ 13 := by
  simp only [isDigit, Bool.and_eq_true, decide_eq_true_eq] at ha hb hc
  intro x hx e
  subst e
  have h1 : (13 : Nat) ∉ ver := fun h => by have := hvs 13 h; revert this; decide
  have h2 : (13 : Nat) ∉ reason := fun h => hr 13 h rfl
  simp only [statusLine, List.append_assoc, List.mem_append, List.mem_cons, List.not_mem_nil, or_false] at hx
  rcases hx with h | h | h | h | h
  all_goals first | exact h1 h | exact h2 h | omega

/-! ### the one-fold generator is a special case -/

theorem ofWire_lines (f : WireField) : (FField.ofWire f).lines = f.lines := by
  unfold FField.ofWire WireField.lines FField.lines
  cases f.fold <;> simp [Cont.line]

theorem ofWire_name (f : WireField) : (FField.ofWire f).name = f.name := by
  unfold FField.ofWire; cases f.fold <;> rfl

theorem renderReply2_ofWire (sl : Bytes) (fs : List WireField) :
    renderReply2 sl (fs.map FField.ofWire) = renderReply sl fs := by
  unfold renderReply2
  rw [renderReply_eq_lines]
  congr 1
  induction fs with
  | nil => rfl
  | cons f fs ih => simp only [List.map_cons, List.flatMap_cons, ofWire_lines, ih]

theorem ofWire_ok (f : WireField) (hf : FieldOk f) : FOk (FField.ofWire f) := by
  have hvt : TextOk f.value := ⟨hf.value_chars, hf.value_head, hf.value_last⟩
  unfold FField.ofWire
  cases hfold : f.fold with
  | none => exact ⟨hf.name_ne, hf.name_chars, hf.pre_blank, hf.post_blank, hvt, by simp⟩
  | some ws =>
    obtain ⟨h1, h2, h3⟩ := hf.fold_ok ws hfold
    refine ⟨hf.name_ne, hf.name_chars, hf.pre_blank, by simp, ⟨by simp, endsV_nil⟩, ?_⟩
    intro c hc
    simp only [List.mem_singleton] at hc
    subst hc
    exact ⟨h1, h2, hf.post_blank, h3, hvt⟩

theorem ofWire_value (f : WireField) (hf : FieldOk f) : (FField.ofWire f).value = f.value := by
  have hraw : (FField.ofWire f).raw = f.raw := by
    unfold FField.ofWire FField.raw FField.unfolded WireField.raw
    cases f.fold <;> simp [contText]
  rw [← strip_raw2 _ (ofWire_ok f hf), hraw, strip_raw f hf]

/-! ### the accept value contains no comma -/

theorem b64Char_ne_comma (n : Nat) : b64Char n ≠ 44 := by
  by_cases h : n < 64
  · have : ∀ k, k < 64 → b64Char k ≠ 44 := by decide
    exact this n h
  · unfold b64Char
    rw [List.getD_eq_getElem?_getD, List.getElem?_eq_none (by simp [b64Alphabet]; omega)]
    simp

theorem b64encode_no_comma : ∀ (bs : Bytes), 44 ∉ b64encode bs
  | [] => by simp [b64encode]
  | [a] => by
    simp only [b64encode, List.mem_cons, List.not_mem_nil, or_false, not_or]
    exact ⟨(b64Char_ne_comma _).symm, (b64Char_ne_comma _).symm, by decide, by decide⟩
  | [a, b] => by
    simp only [b64encode, List.mem_cons, List.not_mem_nil, or_false, not_or]
    exact ⟨(b64Char_ne_comma _).symm, (b64Char_ne_comma _).symm, (b64Char_ne_comma _).symm, by decide⟩
  | a :: b :: c :: r => by
    simp only [b64encode, List.mem_cons, not_or]
    exact ⟨(b64Char_ne_comma _).symm, (b64Char_ne_comma _).symm, (b64Char_ne_comma _).symm, (b64Char_ne_comma _).symm,
      b64encode_no_comma r⟩

theorem acceptFor_no_comma (key : Bytes) : 44 ∉ acceptFor key := b64encode_no_comma _


/-! ### where the rendered block ends: its first `CR LF CR LF` is its last four bytes -/

open Lomond.Core in
theorem findSep_not_prefix (sep : Bytes) (b : Nat) (r : Bytes) (h : sep.isPrefixOf (b :: r) = false) :
    findSep sep (b :: r) = (findSep sep r).map (· + 1) := by
  show (if sep.isPrefixOf (b :: r) then some 0 else (findSep sep r).map (· + 1)) = _
  rw [h]; rfl

open Lomond.Core in
theorem findSep_skip (x : Nat) (xs : Bytes) (hx : x ≠ 13) :
    findSep [13, 10, 13, 10] (x :: xs) = (findSep [13, 10, 13, 10] xs).map (· + 1) := by
  apply findSep_not_prefix
  simp only [List.isPrefixOf, Bool.and_eq_false_iff, beq_eq_false_iff_ne, ne_eq]
  exact Or.inl (fun e => hx e.symm)

open Lomond.Core in
theorem findSep_line (l rest : Bytes) (hl : ∀ c ∈ l, c ≠ 13) :
    findSep [13, 10, 13, 10] (l ++ rest) = (findSep [13, 10, 13, 10] rest).map (· + l.length) := by
  induction l with
  | nil => simp
  | cons x l ih =>
    rw [List.cons_append, findSep_skip x _ (hl x (by simp)), ih (fun c hc => hl c (by simp [hc]))]
    cases findSep [13, 10, 13, 10] rest with
    | none => rfl
    | some j => rfl

open Lomond.Core in
theorem findSep_crlf_then (x : Nat) (xs : Bytes) (hx : x ≠ 13) :
    findSep [13, 10, 13, 10] (13 :: 10 :: x :: xs) = (findSep [13, 10, 13, 10] (x :: xs)).map (· + 2) := by
  have h1 : List.isPrefixOf [13, 10, 13, 10] (13 :: 10 :: x :: xs) = false := by
    simp only [List.isPrefixOf, beq_self_eq_true, Bool.true_and, Bool.and_eq_false_iff, beq_eq_false_iff_ne, ne_eq]
    exact Or.inl (fun e => hx e.symm)
  rw [findSep_not_prefix _ _ _ h1, findSep_skip 10 (x :: xs) (by decide)]
  cases findSep [13, 10, 13, 10] (x :: xs) <;> simp

open Lomond.Core in
theorem findSep_lines (ls : List Bytes) (hne : ∀ l ∈ ls, l ≠ []) (hcr : ∀ l ∈ ls, ∀ c ∈ l, c ≠ 13)
    (l : Bytes) (hl : ∀ c ∈ l, c ≠ 13) :
    findSep [13, 10, 13, 10] (l ++ 13 :: 10 :: (ls.flatMap (· ++ [13, 10]) ++ [13, 10])) =
      some (l.length + (ls.flatMap (· ++ [13, 10])).length) := by
  induction ls generalizing l with
  | nil =>
    rw [findSep_line l _ hl]
    simp [findSep, List.isPrefixOf]
  | cons l' ls ih =>
    cases hl' : l' with
    | nil => exact absurd hl' (hne l' (by simp))
    | cons x l'' =>
      have hx : x ≠ 13 := hcr l' (by simp) x (by rw [hl']; simp)
      have hcr' : ∀ c ∈ x :: l'', c ≠ 13 := by rw [← hl']; exact hcr l' (by simp)
      have ih' := ih (fun m hm => hne m (by simp [hm])) (fun m hm => hcr m (by simp [hm])) (x :: l'') hcr'
      rw [findSep_line l _ hl]
      simp only [List.flatMap_cons, List.append_assoc, List.cons_append, List.nil_append]
      rw [findSep_crlf_then x _ hx]
      simp only [List.cons_append, List.append_assoc, List.nil_append] at ih'
      rw [ih']
      simp only [Option.map_some, List.length_append, List.length_cons, List.length_nil]
      congr 1; omega

theorem flines_ne (f : FField) (hf : FOk f) : ∀ l ∈ f.lines, l ≠ [] := by
  intro l hl
  simp only [FField.lines, List.mem_cons, List.mem_map] at hl
  rcases hl with hl | ⟨k, hk, hl⟩
  · subst hl
    have := upcase_ne_nil f.upper f.name hf.name_ne
    simp [this]
  · subst hl
    have := (hf.conts k hk).ws_ne
    simp [Cont.line, this]

open Lomond.Core in
/-- **a rendered reply is one complete header block**: its first `CR LF CR LF` is at its very end, whatever
    follows it in the stream -/
theorem findSep_renderReply2 (sl : Bytes) (fs : List FField) (hsl : ∀ c ∈ sl, c ≠ 13) (hok : ∀ f ∈ fs, FOk f)
    (stream : Bytes) :
    ∃ i, findSep Gen.headerSep (renderReply2 sl fs ++ stream) = some i ∧ i + 4 = (renderReply2 sl fs).length := by
  have hne : ∀ l ∈ fs.flatMap FField.lines, l ≠ [] := by
    intro l hl
    simp only [List.mem_flatMap] at hl
    obtain ⟨f, hf, hl⟩ := hl
    exact flines_ne f (hok f hf) l hl
  have hcr : ∀ l ∈ fs.flatMap FField.lines, ∀ c ∈ l, c ≠ 13 := by
    intro l hl
    simp only [List.mem_flatMap] at hl
    obtain ⟨f, hf, hl⟩ := hl
    exact flines_no_cr f (hok f hf) l hl
  have h := findSep_lines (fs.flatMap FField.lines) hne hcr sl hsl
  have e : renderReply2 sl fs = sl ++ 13 :: 10 :: ((fs.flatMap FField.lines).flatMap (· ++ [13, 10]) ++ [13, 10]) := by
    simp [renderReply2, renderLines]
  refine ⟨_, Proxy.findSep_append Gen.headerSep _ stream _ (by rw [e]; exact h), ?_⟩
  rw [e]
  simp only [List.length_append, List.length_cons, List.length_nil]
  omega


/-! ### list-valued fields: the elements of a repeated field are the elements of its occurrences -/

theorem splitOn1_ne_nil (sep : Nat) (s : Str) : splitOn1 sep s ≠ [] := by
  induction s with
  | nil => simp [splitOn1]
  | cons c r ih =>
    cases h : splitOn1 sep r with
    | nil => exact absurd h ih
    | cons a t => simp only [splitOn1, h]; split <;> simp

theorem splitOn1_nosep (sep : Nat) (b : Str) (h : ∀ c ∈ b, c ≠ sep) : splitOn1 sep b = [b] := by
  induction b with
  | nil => rfl
  | cons c r ih =>
    simp only [splitOn1, ih (fun x hx => h x (by simp [hx])), h c (by simp), if_false]

theorem splitOn1_append_sep (sep : Nat) (a b : Str) :
    splitOn1 sep (a ++ sep :: b) = splitOn1 sep a ++ splitOn1 sep b := by
  induction a with
  | nil =>
    cases h : splitOn1 sep b with
    | nil => exact absurd h (splitOn1_ne_nil sep b)
    | cons x t => simp [splitOn1, h]
  | cons c a ih =>
    cases h : splitOn1 sep a with
    | nil => exact absurd h (splitOn1_ne_nil sep a)
    | cons x t =>
      simp only [List.cons_append, splitOn1, ih, h]
      split <;> rfl

theorem splitOn1_joinWith (sep : Nat) (r : Str) (rs : List Str) :
    splitOn1 sep (joinWith [sep] (r :: rs)) = (r :: rs).flatMap (splitOn1 sep) := by
  induction rs generalizing r with
  | nil => simp [joinWith]
  | cons x rs ih =>
    show splitOn1 sep (r ++ [sep] ++ joinWith [sep] (x :: rs)) = _
    rw [List.append_assoc, List.singleton_append, splitOn1_append_sep, ih]
    simp

/-- `b` appended to the last element -/
def appLast : List Str → Str → List Str
  | [], b => [b]
  | [l], b => [l ++ b]
  | l :: r :: t, b => l :: appLast (r :: t) b

theorem splitOn1_prefix (sep : Nat) (a x : Str) (ha : ∀ c ∈ a, c ≠ sep) :
    splitOn1 sep (a ++ x) = (a ++ (splitOn1 sep x).headD []) :: (splitOn1 sep x).tail := by
  induction a with
  | nil =>
    cases h : splitOn1 sep x with
    | nil => exact absurd h (splitOn1_ne_nil sep x)
    | cons y t => simp [h]
  | cons c a ih =>
    have hc : c ≠ sep := ha c (by simp)
    simp only [List.cons_append, splitOn1, ih (fun y hy => ha y (by simp [hy])), hc, if_false]

theorem splitOn1_suffix (sep : Nat) (x b : Str) (hb : ∀ c ∈ b, c ≠ sep) :
    splitOn1 sep (x ++ b) = appLast (splitOn1 sep x) b := by
  induction x with
  | nil => simp [splitOn1, splitOn1_nosep sep b hb, appLast]
  | cons c x ih =>
    cases h : splitOn1 sep x with
    | nil => exact absurd h (splitOn1_ne_nil sep x)
    | cons y t =>
      rw [h] at ih
      simp only [List.cons_append, splitOn1, ih, h]
      cases t with
      | nil => simp only [appLast]; split <;> simp [appLast]
      | cons z t' => simp only [appLast]; split <;> simp [appLast]

theorem dropWhile_append_of_exists (p : Nat → Bool) (l b : Str) (h : ∃ x ∈ l, p x = false) :
    List.dropWhile p (l ++ b) = List.dropWhile p l ++ b := by
  induction l with
  | nil => obtain ⟨x, hx, _⟩ := h; cases hx
  | cons c l ih =>
    by_cases hc : p c = true
    · simp only [List.cons_append, List.dropWhile_cons, hc, if_true]
      apply ih
      obtain ⟨x, hx, hp⟩ := h
      rcases List.mem_cons.mp hx with rfl | hx
      · rw [hc] at hp; cases hp
      · exact ⟨x, hx, hp⟩
    · simp [List.dropWhile_cons, hc]

theorem strip_prefix_space (a h : Str) (ha : ∀ c ∈ a, isStrSpace c = true) : strip (a ++ h) = strip h := by
  unfold strip stripBy
  rw [lstripBy_append_of_all isStrSpace a h ha]

theorem strip_suffix_space (l b : Str) (hb : ∀ c ∈ b, isStrSpace c = true) : strip (l ++ b) = strip l := by
  unfold strip stripBy lstripBy
  by_cases hl : ∃ x ∈ l, isStrSpace x = false
  · rw [dropWhile_append_of_exists isStrSpace l b hl, rstripBy_append_of_all isStrSpace _ b hb]
  · have hall : ∀ x ∈ l, isStrSpace x = true := by
      intro x hx
      cases hp : isStrSpace x with
      | true => rfl
      | false => exact absurd ⟨x, hx, hp⟩ hl
    have e1 : List.dropWhile isStrSpace (l ++ b) = [] :=
      (dropWhile_eq_nil_iff_all isStrSpace _).mpr (by
        intro x hx; rcases List.mem_append.mp hx with h | h
        · exact hall x h
        · exact hb x h)
    have e2 : List.dropWhile isStrSpace l = [] := (dropWhile_eq_nil_iff_all isStrSpace _).mpr hall
    rw [e1, e2]

theorem map_strip_appLast (L : List Str) (b : Str) (hL : L ≠ []) (hb : ∀ c ∈ b, isStrSpace c = true) :
    (appLast L b).map strip = L.map strip := by
  induction L with
  | nil => exact absurd rfl hL
  | cons l t ih =>
    cases t with
    | nil => simp [appLast, strip_suffix_space l b hb]
    | cons r t' =>
      simp only [appLast, List.map_cons]
      have := ih (by simp)
      simp only [List.map_cons] at this
      rw [this]

theorem space_ne_comma (c : Nat) (h : isStrSpace c = true) : c ≠ 44 := by
  intro e; subst e; revert h; decide

/-- blanks around a comma-separated text change nothing once every element is stripped -/
theorem map_strip_split_pad (a x b : Str) (ha : ∀ c ∈ a, isStrSpace c = true) (hb : ∀ c ∈ b, isStrSpace c = true) :
    (splitOn1 44 (a ++ x ++ b)).map strip = (splitOn1 44 x).map strip := by
  rw [splitOn1_suffix 44 (a ++ x) b (fun c hc => space_ne_comma c (hb c hc)),
    map_strip_appLast _ b (splitOn1_ne_nil _ _) hb,
    splitOn1_prefix 44 a x (fun c hc => space_ne_comma c (ha c hc))]
  cases h : splitOn1 44 x with
  | nil => exact absurd h (splitOn1_ne_nil 44 x)
  | cons y t => simp [strip_prefix_space a y ha]

theorem mem_takeWhile_sat (p : Nat → Bool) (l : Str) (c : Nat) (h : c ∈ l.takeWhile p) : p c = true := by
  induction l with
  | nil => cases h
  | cons x l ih =>
    by_cases hx : p x = true
    · simp only [List.takeWhile_cons, hx, if_true, List.mem_cons] at h
      rcases h with rfl | h
      · exact hx
      · exact ih h
    · simp [List.takeWhile_cons, hx] at h

theorem flatMap_congr' {α β : Type} (f g : α → List β) (l : List α) (h : ∀ x ∈ l, f x = g x) :
    l.flatMap f = l.flatMap g := by
  induction l with
  | nil => rfl
  | cons x l ih =>
    simp only [List.flatMap_cons, h x (by simp), ih (fun y hy => h y (by simp [hy]))]

theorem strip_decomp (s : Str) :
    ∃ a b, s = a ++ strip s ++ b ∧ (∀ c ∈ a, isStrSpace c = true) ∧ (∀ c ∈ b, isStrSpace c = true) := by
  let m := List.dropWhile isStrSpace s
  refine ⟨List.takeWhile isStrSpace s, (List.takeWhile isStrSpace m.reverse).reverse, ?_, ?_, ?_⟩
  · have e1 : s = List.takeWhile isStrSpace s ++ m := (List.takeWhile_append_dropWhile).symm
    have e2 : m = (List.dropWhile isStrSpace m.reverse).reverse ++ (List.takeWhile isStrSpace m.reverse).reverse := by
      rw [← List.reverse_append, List.takeWhile_append_dropWhile, List.reverse_reverse]
    have e3 : strip s = (List.dropWhile isStrSpace m.reverse).reverse := rfl
    rw [e3, List.append_assoc, ← e2]
    exact e1
  · intro c hc; exact mem_takeWhile_sat _ _ c hc
  · intro c hc; exact mem_takeWhile_sat _ _ c (List.mem_reverse.mp hc)

theorem map_strip_split_strip (s : Str) : (splitOn1 44 (strip s)).map strip = (splitOn1 44 s).map strip := by
  obtain ⟨a, b, e, ha, hb⟩ := strip_decomp s
  conv => rhs; rw [e]
  exact (map_strip_split_pad a (strip s) b ha hb).symm

/-- **a list-valued field written twice or more**: the elements `get_list` returns are the comma-separated,
    stripped elements of the values of all occurrences, in wire order -/
theorem splitList_combined_multi (fs : List FField) (hok : ∀ f ∈ fs, FOk f) (n : Bytes) (g1 g2 : FField) (gs : List FField)
    (h : fieldsNamed fs n = g1 :: g2 :: gs) :
    splitList ((combined fs n).getD []) = (g1 :: g2 :: gs).flatMap (fun f => (splitOn1 44 f.value).map strip) := by
  have hmem : ∀ f ∈ g1 :: g2 :: gs, FOk f := by
    intro f hf
    have : f ∈ fieldsNamed fs n := by rw [h]; exact hf
    exact hok f (List.mem_filter.mp this).1
  obtain ⟨v, hv, hc⟩ := combined_comma fs n g1 g2 gs h
  have hvJ : v = strip (joinWith [44] ((g1 :: g2 :: gs).map FField.raw)) := by
    unfold combined at hv
    rw [h] at hv
    exact (Option.some.inj hv).symm
  rw [hv, Option.getD_some]
  unfold splitList
  have hne : strip v ≠ [] := by
    intro e
    have := mem_strip_of_not_space v 44 hc (by decide)
    rw [e] at this; cases this
  rw [if_neg hne, hvJ, map_strip_split_strip]
  have hj := splitOn1_joinWith 44 g1.raw ((g2 :: gs).map FField.raw)
  rw [List.map_cons, hj, List.map_flatMap, ← List.map_cons, List.flatMap_map]
  apply flatMap_congr'
  intro f hf
  obtain ⟨a, b, e, ha, hb⟩ := strip_decomp f.raw
  rw [strip_raw2 f (hmem f hf)] at e
  show (splitOn1 44 f.raw).map strip = _
  rw [e]
  exact map_strip_split_pad a f.value b ha hb

end Lomond.Http
