/-
  `Quiet`: steps that leave the compression contexts alone.

  `Quiet s s'` says: the negotiated configuration, the decompress switch, the compressed history
  and the delivered count are the same in `s'` as in `s`, the trace only grew, and — when nothing
  is negotiated — no compressed frame (`Obs.wrz`) was written.  It is proved, by composition, for
  every function of the core model from the socket write up to the dispatch of one message to the
  application (`onMessage`), *including everything the application does in reaction* (sends,
  pings, close, …) and the timers that run after the event.  The only places of the model that are
  not `Quiet` are `inflateMessage` (a compressed message advances the context) and the handshake
  response (which sets the configuration).

  Same structure as Proofs/Step.lean.
-/
import Lomond.Proofs.Step
import Lomond.Proofs.Release
set_option linter.unusedSimpArgs false
set_option linter.unusedVariables false
namespace Lomond.Core
open Lomond

/-- no compressed frame among these observations -/
def NoWrz (l : List Obs) : Prop := ∀ op pl, Obs.wrz op pl ∉ l

theorem noWrz_nil : NoWrz [] := fun _ _ h => by cases h

theorem noWrz_append {a b : List Obs} (ha : NoWrz a) (hb : NoWrz b) : NoWrz (a ++ b) := by
  intro op pl hm
  rcases List.mem_append.mp hm with h | h
  · exact ha op pl h
  · exact hb op pl h

structure Quiet (s s' : Sys) : Prop where
  comp : s'.compression = s.compression
  dec : s'.decompress = s.decompress
  hist : s'.inflHist = s.inflHist
  out : s'.inflOut = s.inflOut
  tr : ∃ l, s'.trace = l ++ s.trace ∧ (s.compression = none → NoWrz l)

theorem quiet_po : PO Quiet where
  refl s := ⟨rfl, rfl, rfl, rfl, [], rfl, fun _ => noWrz_nil⟩
  trans := by
    intro a b c h1 h2
    obtain ⟨l1, e1, n1⟩ := h1.tr
    obtain ⟨l2, e2, n2⟩ := h2.tr
    refine ⟨h2.comp.trans h1.comp, h2.dec.trans h1.dec, h2.hist.trans h1.hist, h2.out.trans h1.out,
      l2 ++ l1, by rw [e2, e1, List.append_assoc], fun hc => ?_⟩
    exact noWrz_append (n2 (h1.comp.trans hc)) (n1 hc)

/-- an update that touches none of the four fields and appends harmless observations -/
theorem quiet_upd {s s' : Sys} (l : List Obs) (hc : s'.compression = s.compression)
    (hd : s'.decompress = s.decompress) (hh : s'.inflHist = s.inflHist) (ho : s'.inflOut = s.inflOut)
    (ht : s'.trace = l ++ s.trace) (hl : NoWrz l) : Quiet s s' :=
  ⟨hc, hd, hh, ho, l, ht, fun _ => hl⟩

macro "quiet_leaf" : tactic =>
  `(tactic| ((try simp only [Res.state_ok, Res.state_err])
             first
              | exact quiet_po.refl _
              | (refine quiet_upd [] rfl rfl rfl rfl rfl ?_; exact noWrz_nil)
              | (refine quiet_upd [_] rfl rfl rfl rfl rfl ?_; intro op pl hm; simp at hm)
              | (refine quiet_upd [_, _] rfl rfl rfl rfl rfl ?_; intro op pl hm; simp at hm)))

theorem quiet_closeSocket : Spec Quiet closeSocket := by
  intro s; unfold closeSocket; splits <;> quiet_leaf

theorem quiet_write (d : Bytes) : Spec Quiet (write d none) := by
  intro s; unfold write; splits <;> first | contradiction | quiet_leaf

theorem quiet_sendFrame (op : Nat) (pl : Bytes) : Spec Quiet (sendFrame op pl none) := by
  intro s; unfold sendFrame
  simp only
  splits
  all_goals first
    | quiet_leaf
    | exact quiet_po.trans (by quiet_leaf) (quiet_write _ _)

/-- a compressed frame is only ever written when a configuration is negotiated -/
theorem quiet_sendData (op : Nat) (pl : Bytes) (c : Bool) : Spec Quiet (sendData op pl c) := by
  intro s; unfold sendData
  split
  · rename_i hc
    have hne : s.compression ≠ none := by
      intro h; rw [h] at hc; simp at hc
    unfold sendFrame write
    simp only []
    splits
    all_goals
      (try simp only [Res.state_ok, Res.state_err])
      first
        | exact ⟨rfl, rfl, rfl, rfl, [], rfl, fun h => absurd h hne⟩
        | exact ⟨rfl, rfl, rfl, rfl, [_], rfl, fun h => absurd h hne⟩
  · exact quiet_sendFrame _ _ s

theorem quiet_wsClose (c : Option Nat) (r : Arg) : Spec Quiet (wsClose c r) := by
  intro s; unfold wsClose
  splits
  all_goals first
    | quiet_leaf
    | (rename_i h; have := (quiet_sendFrame _ _).ok h; exact quiet_po.trans this (by quiet_leaf))
    | (rename_i h; have := (quiet_sendFrame _ _).err h; exact this)

theorem quiet_logRes {m : M ActRes} (h : Spec Quiet m) : Spec Quiet (logRes m) := by
  unfold logRes
  refine spec_bind quiet_po h (fun r => ?_)
  intro s; unfold log modS; quiet_leaf

theorem quiet_doAct (a : Act) : Spec Quiet (doAct a) := by
  unfold doAct
  split
  all_goals first
    | (apply quiet_logRes
       first
        | exact quiet_sendData _ _ _
        | exact quiet_sendFrame _ _
        | exact quiet_wsClose _ _
        | exact spec_pure quiet_po _
        | (split <;> first | exact spec_pure quiet_po _ | exact quiet_sendData _ _ _ | exact quiet_sendFrame _ _)
        | exact spec_bind quiet_po quiet_closeSocket (fun _ => spec_pure quiet_po _))
    | (intro s; quiet_leaf)

theorem quiet_doActs (as : List Act) : Spec Quiet (doActs as) := by
  induction as with
  | nil => exact spec_pure quiet_po ()
  | cons a r ih => unfold doActs; exact spec_bind quiet_po (quiet_doAct a) (fun _ => ih)

theorem quiet_yieldEv (e : Event) : Spec Quiet (yieldEv e) := by
  unfold yieldEv
  apply spec_bind quiet_po
  · apply spec_modS; intro s; quiet_leaf
  · intro _; apply spec_bind quiet_po (spec_getS quiet_po); intro s; exact quiet_doActs _

theorem quiet_checkPoll : Spec Quiet checkPoll := by
  unfold checkPoll
  refine spec_getS_bind quiet_po (fun s => ?_)
  simp only []
  splits
  all_goals first
    | exact spec_pure quiet_po _
    | (refine spec_bind quiet_po (spec_modS ?_) (fun _ => quiet_yieldEv _); intro s; quiet_leaf)

theorem quiet_checkAutoPing : Spec Quiet checkAutoPing := by
  unfold checkAutoPing
  refine spec_getS_bind quiet_po (fun s => ?_)
  simp only []
  split
  · refine spec_bind quiet_po (spec_modS ?_) (fun _ => spec_bind quiet_po (quiet_sendFrame _ _) (fun _ => spec_pure quiet_po _))
    intro s; quiet_leaf
  · exact spec_pure quiet_po _

theorem quiet_checkPingTimeout : Spec Quiet checkPingTimeout := by
  unfold checkPingTimeout
  refine spec_getS_bind quiet_po (fun s => ?_)
  simp only []
  split
  · exact spec_bind quiet_po (quiet_yieldEv _) (fun _ => spec_throwE quiet_po _)
  · exact spec_pure quiet_po _

theorem quiet_checkCloseTimeout : Spec Quiet checkCloseTimeout := by
  unfold checkCloseTimeout
  refine spec_getS_bind quiet_po (fun s => ?_)
  simp only []
  splits
  all_goals first | exact spec_pure quiet_po _ | exact spec_throwE quiet_po _

theorem quiet_regular : Spec Quiet regular := by
  unfold regular
  apply spec_bind quiet_po (spec_getS quiet_po); intro s
  split
  · exact spec_bind quiet_po quiet_checkPoll (fun _ => spec_bind quiet_po quiet_checkAutoPing
      (fun _ => spec_bind quiet_po quiet_checkPingTimeout (fun _ => quiet_checkCloseTimeout)))
  · exact spec_pure quiet_po _

theorem quiet_onEvent (e : Event) : Spec Quiet (onEvent e) := by
  intro s; unfold onEvent
  splits
  all_goals first
    | quiet_leaf
    | (rename_i h; exact (quiet_sendFrame _ _).ok h)
    | (rename_i h; exact (quiet_sendFrame _ _).err h)

theorem quiet_onDisconnect : Spec Quiet onDisconnect := by
  unfold onDisconnect
  apply spec_bind quiet_po quiet_closeSocket
  intro _; apply spec_modS; intro s; quiet_leaf

theorem quiet_feedYield (b : Bool) (e : Event) : Spec Quiet (feedYield b e) := by
  unfold feedYield
  apply spec_tryC quiet_po
  · exact spec_bind quiet_po (quiet_onEvent e) (fun _ => spec_bind quiet_po (quiet_yieldEv e) (fun _ => quiet_regular))
  · intro x
    apply spec_bind quiet_po
    · split
      · exact quiet_onDisconnect
      · exact spec_pure quiet_po _
    · intro _; exact spec_throwE quiet_po _

theorem quiet_checkCloseCode_z (c : Option Nat) : Spec Quiet (checkCloseCode c) := by
  unfold checkCloseCode
  splits <;> first | exact spec_pure quiet_po _ | exact spec_throwE quiet_po _

theorem quiet_raiseIfArgError_z (r : ActRes) : Spec Quiet (raiseIfArgError r) := by
  unfold raiseIfArgError
  split <;> first | exact spec_pure quiet_po _ | exact spec_throwE quiet_po _

theorem quiet_onClose_z (c : Option Nat) (r : List Nat) : Spec Quiet (onClose c r) := by
  unfold onClose
  refine spec_bind quiet_po (quiet_checkCloseCode_z c) (fun _ => ?_)
  refine spec_getS_bind quiet_po (fun s => ?_)
  split
  · exact spec_pure quiet_po _
  · split
    · refine spec_bind quiet_po (quiet_feedYield _ _) (fun _ => spec_modS ?_); intro s; quiet_leaf
    · refine spec_bind quiet_po (quiet_feedYield _ _) (fun _ => spec_bind quiet_po (quiet_wsClose _ _) (fun r =>
        spec_bind quiet_po (quiet_raiseIfArgError_z r) (fun _ => spec_modS ?_)))
      intro s; quiet_leaf

/-- one message handed to the application: the event, the application's reactions, the timers -/
theorem quiet_onMessage_z (m : Msg) : Spec Quiet (onMessage m) := by
  unfold onMessage
  split <;> first | exact quiet_onClose_z _ _ | exact quiet_feedYield _ _ | exact spec_pure quiet_po _

theorem quiet_notClosed_z : Spec Quiet notClosed := by
  intro s; unfold notClosed; quiet_leaf

/-- a message that is not inflated (first frame RSV1=0, or nothing negotiated): building it is
    `Quiet` (indeed the state is untouched) -/
theorem quiet_buildMessage_plain (f : Frame) (fs : List Frame) (s : Sys)
    (h : f.rsv1 = 0 ∨ s.decompress = false) : Quiet s (buildMessage (f :: fs) s).state := by
  have hc : ¬ (f.rsv1 ≠ 0 ∧ s.decompress = true) := by
    rcases h with h | h <;> simp [h]
  have e : buildMessage (f :: fs) s = liftE (msgOfPayload f.opcode ((f :: fs).map (·.payload)).flatten) s := by
    simp only [buildMessage]
    rw [bind_ok (show getS s = .ok s s from rfl)]
    simp only [hc, if_false]
    rw [bind_ok (show (pure ((f :: fs).map (·.payload)).flatten : M Bytes) s = .ok _ s from rfl)]
  rw [e]
  unfold liftE
  split <;> exact quiet_po.refl _

/-- **a control frame with RSV1=0 (or any control frame when nothing is negotiated)**: parsing it
    into a message, handing it to the application (which may send, ping, close, …), answering a
    Ping, running the timers — none of it touches the compression contexts -/
theorem quiet_onFrame_control (f : Frame) (s : Sys) (hc : f.isControl = true)
    (h : f.rsv1 = 0 ∨ s.decompress = false) : Quiet s (onFrame f s).state := by
  unfold onFrame
  simp only [hc, if_true]
  have hb := quiet_buildMessage_plain f [] s h
  cases hr : buildMessage [f] s with
  | err x s1 => rw [hr] at hb; rw [bind_err hr]; exact hb
  | ok m s1 =>
    rw [hr] at hb; rw [bind_ok hr]
    exact quiet_po.trans hb (quiet_onMessage_z m s1)

/-- a data frame: a non-final fragment is only stored; the frame that completes an
    **uncompressed** message (first fragment RSV1=0) delivers it — the contexts are untouched -/
theorem quiet_onDataFrame_plain (f : Frame) (s : Sys)
    (h : (∀ g ∈ (s.frames ++ [f]).head?, g.rsv1 = 0) ∨ s.decompress = false) :
    Quiet s (onDataFrame f s).state := by
  unfold onDataFrame
  rw [bind_ok (show getS s = .ok s s from rfl)]
  split
  · exact quiet_po.refl _
  · split
    · exact quiet_po.refl _
    · have q1 : Quiet s { s with frames := s.frames ++ [f] } := by quiet_leaf
      rw [bind_ok (show modS (fun s => { s with frames := s.frames ++ [f] }) s = .ok () { s with frames := s.frames ++ [f] } from rfl)]
      split
      · rw [bind_ok (show getS { s with frames := s.frames ++ [f] } = .ok _ _ from rfl)]
        simp only []
        -- the list is not empty: take its head
        cases hfs : s.frames ++ [f] with
        | nil => simp at hfs
        | cons g gs =>
          have hg : g.rsv1 = 0 ∨ ({ s with frames := g :: gs } : Sys).decompress = false := by
            rcases h with h | h
            · left; exact h g (by rw [hfs]; rfl)
            · right; exact h
          have hb := quiet_buildMessage_plain g gs { s with frames := g :: gs } hg
          have q1' : Quiet s { s with frames := g :: gs } := by quiet_leaf
          cases hr : buildMessage (g :: gs) { s with frames := g :: gs } with
          | err x s1 => rw [hr] at hb; rw [bind_err hr]; exact quiet_po.trans q1' hb
          | ok m s1 =>
            rw [hr] at hb; rw [bind_ok hr]
            have hm := quiet_onMessage_z m s1
            cases hr2 : onMessage m s1 with
            | err x s2 => rw [hr2] at hm; rw [bind_err hr2]; exact quiet_po.trans q1' (quiet_po.trans hb hm)
            | ok u s2 =>
              rw [hr2] at hm; rw [bind_ok hr2]
              refine quiet_po.trans q1' (quiet_po.trans hb (quiet_po.trans hm ?_))
              show Quiet s2 (modS _ s2).state
              unfold modS; quiet_leaf
      · exact q1

end Lomond.Core
