/-
  C17, late finalisation: when code run at finalisation time acts on the State object its generator
  captured, nothing an earlier connection's generator does later can reach the current connection.
-/
import Lomond.Model.Reconnect

namespace Lomond.Reconnect

theorem length_step_noconnect (via : Via) (o : Obj) (op : Op) (h : op ≠ .connect) :
    (o.step via op).states.length = o.states.length := by
  cases op with
  | connect => exact absurd rfl h
  | own a => simp [Obj.step, Obj.own]
  | exit i => simp [Obj.step, Obj.lateExit]

theorem view_own (o : Obj) (a : Own) (c : CState) (h : o.view = some c) :
    (o.own a).view = some (a.apply c) := by
  unfold Obj.view Obj.own Obj.cur at *
  simp only [List.length_modify, List.getElem?_modify, h]
  simp

theorem view_exit_captured (o : Obj) (i : Nat) (hi : i + 1 < o.states.length) :
    (o.lateExit .captured i).view = o.view := by
  unfold Obj.view Obj.lateExit Obj.cur
  simp only [List.length_modify, List.getElem?_modify]
  have : i ≠ o.states.length - 1 := by omega
  simp [this]

/-- invariant carried through a history without `connect`: same number of State objects, and the
    current connection's state evolves by its own actions only -/
theorem run_view (o : Obj) (ops : List Op) (c : CState) (hv : o.view = some c)
    (h : OldExits o.states.length ops) :
    (o.run .captured ops).states.length = o.states.length ∧
    (o.run .captured ops).view = some (ops.foldl (fun c op => match op with | .own a => a.apply c | _ => c) c) := by
  induction ops generalizing o c with
  | nil => exact ⟨rfl, hv⟩
  | cons op ops ih =>
    have hop := h op (List.mem_cons_self ..)
    have hrest : ∀ o' : Obj, o'.states.length = o.states.length → OldExits o'.states.length ops := by
      intro o' hl op' hm
      rw [hl]; exact h op' (List.mem_cons_of_mem _ hm)
    cases op with
    | connect => exact absurd hop (by simp)
    | own a =>
      have hl : (o.own a).states.length = o.states.length := by simp [Obj.own]
      have := ih (o.own a) (a.apply c) (view_own o a c hv) (hrest _ hl)
      simpa [Obj.run, Obj.step, hl] using this
    | exit i =>
      have hi : i + 1 < o.states.length := hop
      have hl : (o.lateExit .captured i).states.length = o.states.length := by simp [Obj.lateExit]
      have hv' : (o.lateExit .captured i).view = some c := by rw [view_exit_captured o i hi]; exact hv
      have := ih (o.lateExit .captured i) c hv' (hrest _ hl)
      simpa [Obj.run, Obj.step, hl] using this

theorem view_connect (o : Obj) : o.connect.view = some {} := by
  unfold Obj.view Obj.connect Obj.cur
  simp

end Lomond.Reconnect
