/-
  C12 for the general socket (`Model/ThreadsN.lean`), variant `closeAtomic`: at most one COMPLETE
  Close frame reaches the wire and nothing follows it — also when `sendall`s (of the Close frame
  itself, or of other frames) fail or take any number of chunks.
-/
import Lomond.Proofs.ThreadsNW
import Lomond.Proofs.ThreadsC
set_option linter.unusedSimpArgs false
set_option linter.unusedVariables false

namespace Lomond.Threads
open Lomond

/-- the thread has written the last chunk of a Close frame and stands, still under the lock, before
    its `closing = True` -/
def closerEnd : List Step → Bool
  | .setClosing true :: r => holds r
  | _ => false

theorem compile_closerEnd (v : Variant) (cfg : Cfg) (call : Call) : closerEnd (compile v cfg call) = false := by
  cases call <;> simp only [compile, sendData, closeBody, writeProg, checks] <;> (repeat' split) <;> simp [closerEnd]

theorem closerEnd_holds (r : List Step) (h : closerEnd r = true) : holds r = true := by
  cases r with
  | nil => cases h
  | cons st r =>
    cases st <;> simp only [closerEnd] at h <;> try cases h
    rename_i b; cases b <;> simp only [closerEnd] at h <;> first | (cases h; done) | simpa [holds] using h

/-! ### complete Close frames on the wire -/

theorem hwc_nonfinal (w : List Chunk) (x : Chunk) (h : x.second = false) : hasWholeClose (w ++ [x]) = hasWholeClose w := by
  simp [hasWholeClose, frames, h]

theorem hwc_final (w : List Chunk) (x : Chunk) (h : x.second = true) :
    hasWholeClose (w ++ [x]) = (hasWholeClose w || isClose x) := by
  simp [hasWholeClose, frames, h, List.any_append]

theorem nawc_append (w : List Chunk) (x : Chunk) (h : hasWholeClose w = false) (h5 : nothingAfterWholeClose w = true) :
    nothingAfterWholeClose (w ++ [x]) = true := by
  induction w with
  | nil => simp [nothingAfterWholeClose]
  | cons c r ih =>
    simp only [hasWholeClose, frames, List.filter_cons] at h
    simp only [nothingAfterWholeClose, Bool.and_eq_true] at h5
    simp only [List.cons_append, nothingAfterWholeClose, Bool.and_eq_true]
    by_cases hc : c.second = true
    · simp only [hc, if_true, List.any_cons, Bool.or_eq_false_iff] at h
      refine ⟨by simp [hc, h.1], ih ?_ h5.2⟩
      simpa [hasWholeClose, frames] using h.2
    · simp only [hc] at h
      refine ⟨by simp [hc], ih ?_ h5.2⟩
      simpa [hasWholeClose, frames] using h

/-- the number of complete Close frames -/
theorem nawc_count (w : List Chunk) (h : nothingAfterWholeClose w = true) : closeCount w ≤ 1 := by
  induction w with
  | nil => simp [closeCount, frames]
  | cons c r ih =>
    simp only [nothingAfterWholeClose, Bool.and_eq_true] at h
    rw [closeCount_cons]
    by_cases hc : c.second = true ∧ isClose c = true
    · have : r = [] := by simpa [hc.1, hc.2] using h.1
      subst this
      simp [hc, closeCount, frames]
    · simp only [hc, if_false, Nat.zero_add]; exact ih h.2

/-- nothing at all — no chunk of any frame — follows the last chunk of a Close frame -/
theorem nawc_spec (w : List Chunk) (h : nothingAfterWholeClose w = true) (pre post : List Chunk) (x : Chunk)
    (hw : w = pre ++ x :: post) (hx : x.second = true) (hc : isClose x = true) : post = [] := by
  induction pre generalizing w with
  | nil =>
    subst hw
    simp only [List.nil_append, nothingAfterWholeClose, hx, hc, Bool.and_self, if_true, Bool.and_eq_true] at h
    simpa using h.1
  | cons a pre ih =>
    subst hw
    simp only [List.cons_append, nothingAfterWholeClose, Bool.and_eq_true] at h
    exact ih _ h.2 rfl

/-! ### the invariant -/

structure CInvN (v : Variant) (cfg : Cfg) (s : State) : Prop where
  dc : ∀ t, cdisc (view v cfg (s.th t)) = true
  ad : ∀ t, adisc (view v cfg (s.th t)) = true
  i1 : ∀ t, atClear (view v cfg (s.th t)) = true → s.sh.closed = true
  i2 : hasWholeClose s.sh.wire = true →
    s.sh.closing = true ∨ s.sh.closed = true ∨ ∃ u, closerEnd (view v cfg (s.th u)) = true
  i3 : ∀ t, armed (view v cfg (s.th t)) = true → hasWholeClose s.sh.wire = false
  i4 : ∀ t c, (s.th t).current v cfg = some c → atChkBoth c.rest = true → c.ldc = false →
    hasWholeClose s.sh.wire = false ∨ s.sh.closed = true
  i5 : nothingAfterWholeClose s.sh.wire = true
  i6 : ∀ t, headW2 (view v cfg (s.th t)) = true → hasWholeClose s.sh.wire = false

theorem cInvN_init (v : Variant) (cfg : Cfg) (progs : Tid → List Call) (hv : v.closeAtomic = true) :
    CInvN v cfg (init progs) := by
  constructor
  · intro t; exact fresh_cdisc v cfg _ hv rfl
  · intro t; exact fresh_adisc v cfg _ rfl
  · intro t h; rw [fresh_pred v cfg atClear rfl (compile_atClear v cfg) _ rfl] at h; cases h
  · intro h; cases h
  · intro t _; rfl
  · intro t c hc h
    rw [← view_of_current hc, fresh_pred v cfg atChkBoth rfl (compile_atBoth v cfg) _ rfl] at h; cases h
  · rfl
  · intro t _; rfl

theorem exec_flags (v : Variant) (t : Tid) (st : Step) (r : List Step) (sh : Shared) (c : Cur) :
    (exec v t st r sh c).1.closed = (match st with | .setClosed => true | _ => sh.closed) ∧
    (exec v t st r sh c).1.closing = (match st with | .setClosing b => b | _ => sh.closing) := by
  cases st <;>
    first
    | exact ⟨rfl, rfl⟩
    | (simp only [exec]; (repeat' split) <;> exact ⟨rfl, rfl⟩)

theorem closed_match_ne (st : Step) (b0 : Bool) :
    st ≠ .setClosed → (match st with | .setClosed => true | _ => b0) = b0 := by
  intro h; cases st <;> first | rfl | exact absurd rfl h

theorem closing_match_ne (st : Step) (b0 : Bool) :
    (¬ ∃ b, st = .setClosing b) → (match st with | .setClosing b => b | _ => b0) = b0 := by
  intro h; cases st <;> first | rfl | exact absurd ⟨_, rfl⟩ h

/-- an entry that executes no write step -/
theorem cInvN_step_plain (v : Variant) (cfg : Cfg) (s : State) (t : Tid) (hva : v.closeAtomic = true)
    (B : BaseN v cfg s) (I : CInvN v cfg s) (hnw : atW (view v cfg (s.th t)) = false) :
    CInvN v cfg (step v cfg s t) := by
  rcases step_cases v cfg s t with e | ⟨c, st, r, hc, hr, hb, e⟩
  · rw [e]; exact I
  · rw [e]
    have hh := current_not_halted hc
    have hv : view v cfg (s.th t) = st :: r := by rw [view_of_current hc, hr]
    have d : disc (st :: r) = true := hv ▸ B.L.disc t
    have cd : cdisc (st :: r) = true := hv ▸ I.dc t
    have ad : adisc (st :: r) = true := hv ▸ I.ad t
    have hst : isWrite st = false := by
      rw [hv] at hnw; cases st <;> first | rfl | cases hnw
    have m := exec_moves v t st r s.sh c
    have hw := exec_wire_not_write v t st r s.sh c hst
    have hldc := exec_ldc v t st r s.sh c
    have vo : ∀ (p : Shared × Cur) u, u ≠ t →
        view v cfg ((setTh s t (settle (s.th t) p.2) p.1).th u) = view v cfg (s.th u) := by
      intro p u hu; rw [setTh_other _ _ _ _ _ hu]
    have vArmed : ∀ p : Shared × Cur, armed (view v cfg ((setTh s t (settle (s.th t) p.2) p.1).th t)) = armed p.2.rest := by
      intro p; rw [setTh_same]; exact view_settle_pred v cfg armed rfl (compile_armed v cfg) _ _ hh
    have vClear : ∀ p : Shared × Cur, atClear (view v cfg ((setTh s t (settle (s.th t) p.2) p.1).th t)) = atClear p.2.rest := by
      intro p; rw [setTh_same]; exact view_settle_pred v cfg atClear rfl (compile_atClear v cfg) _ _ hh
    have vEnd : ∀ p : Shared × Cur, closerEnd (view v cfg ((setTh s t (settle (s.th t) p.2) p.1).th t)) = closerEnd p.2.rest := by
      intro p; rw [setTh_same]; exact view_settle_pred v cfg closerEnd rfl (compile_closerEnd v cfg) _ _ hh
    have vW2 : ∀ p : Shared × Cur, headW2 (view v cfg ((setTh s t (settle (s.th t) p.2) p.1).th t)) = headW2 p.2.rest := by
      intro p; rw [setTh_same]; exact view_settle_headW2 v cfg _ _ hh
    have hchk : st = .chkBoth → (s.sh.closed = true ∨ c.ldc = true) → (exec v t st r s.sh c).2.rest = toRelease r := by
      intro h1 h2; subst h1; exact exec_chkBoth v t r s.sh c h2
    have hflags := exec_flags v t st r s.sh c
    generalize exec v t st r s.sh c = p at m hw hldc hchk hflags
    obtain ⟨hcl, hcg⟩ := hflags
    have hdc : ∀ u, cdisc (view v cfg ((setTh s t (settle (s.th t) p.2) p.1).th u)) = true := by
      intro u
      by_cases hu : u = t
      · subst hu
        rw [setTh_same]
        rcases settle_cases v cfg (s.th u) p.2 hh with ⟨_, e2, _⟩ | ⟨_, hcn⟩
        · rw [e2]; exact moves_cdisc hva m cd
        · exact fresh_cdisc v cfg _ hva hcn
      · rw [vo p u hu]; exact I.dc u
    have had : ∀ u, adisc (view v cfg ((setTh s t (settle (s.th t) p.2) p.1).th u)) = true := by
      intro u
      by_cases hu : u = t
      · subst hu
        rw [setTh_same]
        rcases settle_cases v cfg (s.th u) p.2 hh with ⟨_, e2, _⟩ | ⟨_, hcn⟩
        · rw [e2]; exact moves_adisc m ad
        · exact fresh_adisc v cfg _ hcn
      · rw [vo p u hu]; exact I.ad u
    refine ⟨hdc, had, ?_, ?_, ?_, ?_, ?_, ?_⟩
    · -- i1
      intro u hu
      rw [setTh_sh, hcl]
      by_cases hut : u = t
      · subst hut
        rw [vClear] at hu
        obtain ⟨h1, _⟩ := moves_atClear hva m cd hu
        subst h1; rfl
      · rw [vo p u hut] at hu
        have := I.i1 u hu
        cases st <;> first | exact this | rfl
    · -- i2
      intro hcw
      rw [setTh_sh, hw] at hcw
      rw [setTh_sh, hcl, hcg]
      by_cases hsc : ∃ b, st = .setClosing b
      · obtain ⟨b, rfl⟩ := hsc
        cases b with
        | true => exact Or.inl rfl
        | false => exact Or.inr (Or.inl (I.i1 t (by rw [hv]; rfl)))
      · by_cases hsd : st = .setClosed
        · subst hsd; exact Or.inr (Or.inl rfl)
        · rw [closed_match_ne st _ hsd, closing_match_ne st _ hsc]
          rcases I.i2 hcw with h | h | ⟨u, hu⟩
          · exact Or.inl h
          · exact Or.inr (Or.inl h)
          · by_cases hut : u = t
            · subst hut
              rw [hv] at hu
              cases st <;> simp only [closerEnd] at hu <;> try cases hu
              exact absurd ⟨_, rfl⟩ hsc
            · exact Or.inr (Or.inr ⟨u, by rw [vo p u hut]; exact hu⟩)
    · -- i3
      intro u hu
      rw [setTh_sh, hw]
      by_cases hut : u = t
      · subst hut
        rw [vArmed] at hu
        rcases moves_armed m d ad hu with ⟨h1, h2⟩ | ⟨h1, _⟩
        · rcases h1 with h1 | h1
          · subst h1
            simp only [cdisc, cNext, Bool.and_eq_true] at cd
            have := cd.1.2; cases this
          · subst h1
            have hclosed : s.sh.closed = false := by
              cases hx : s.sh.closed with
              | false => rfl
              | true => rw [hchk rfl (Or.inl hx), armed_toRelease] at hu; cases hu
            have hld : c.ldc = false := by
              cases hx : c.ldc with
              | false => rfl
              | true => rw [hchk rfl (Or.inr hx), armed_toRelease] at hu; cases hu
            rcases I.i4 u c hc (by rw [hr]; rfl) hld with h | h
            · exact h
            · rw [hclosed] at h; cases h
        · exact I.i3 u (by rw [hv]; exact h1)
      · rw [vo p u hut] at hu; exact I.i3 u hu
    · -- i4
      intro u c2 hc2 hat hld
      rw [setTh_sh, hw, hcl]
      by_cases hut : u = t
      · subst hut
        rcases current_after hh hc2 with ⟨hu, _⟩ | ⟨_, _, rfl⟩ | ⟨_, _, call3, rfl⟩
        · exact absurd rfl hu
        · obtain ⟨h1, _⟩ := moves_atBoth m cd hat
          subst h1
          have hl : holds (Step.ldClosing :: r) = true := inOnly_holds d rfl
          simp only at hldc
          rw [hldc] at hld
          cases hcl2 : hasWholeClose s.sh.wire with
          | false => exact Or.inl rfl
          | true =>
            rcases I.i2 hcl2 with h | h | ⟨w, hw2⟩
            · rw [hld] at h; cases h
            · exact Or.inr h
            · have hwh := closerEnd_holds _ hw2
              have : w = u := holder_unique B.L (hv ▸ hl) hwh
              subst this
              rw [hv] at hw2; cases hw2
        · rw [compile_atBoth] at hat; cases hat
      · have hcu : (s.th u).current v cfg = some c2 := by
          rw [setTh_other _ _ _ _ _ hut] at hc2; exact hc2
        rcases I.i4 u c2 hcu hat hld with h | h
        · exact Or.inl h
        · right; cases st <;> first | exact h | rfl
    · rw [setTh_sh, hw]; exact I.i5
    · -- i6
      intro u hu
      rw [setTh_sh, hw]
      by_cases hut : u = t
      · subst hut
        rw [vW2] at hu
        obtain ⟨g, hg, _⟩ := moves_headW2 m d hu
        subst hg; cases hst
      · rw [vo p u hut] at hu; exact I.i6 u hu

/-- what the invariant needs to know about a write step: the thread stays inside its critical
    section, either in front of (the rest of) its write or past it -/
theorem cInvN_after_write (v : Variant) (cfg : Cfg) (s : State) (t : Tid)
    (B : BaseN v cfg s) (I : CInvN v cfg s) (c : Cur) (p : Shared × Cur)
    (hc : (s.th t).current v cfg = some c) (hw : atW c.rest = true) (hne : p.2.rest ≠ [])
    (hcd : cdisc p.2.rest = true) (had : adisc p.2.rest = true)
    (hB : atChkBoth p.2.rest = false) (hC : atClear p.2.rest = false)
    (hcl : p.1.closed = s.sh.closed)
    (h5 : nothingAfterWholeClose p.1.wire = true)
    (hmid : (armed p.2.rest = true ∨ headW2 p.2.rest = true) → hasWholeClose p.1.wire = false)
    (hend : hasWholeClose p.1.wire = true → closerEnd p.2.rest = true) :
    CInvN v cfg (setTh s t (settle (s.th t) p.2) p.1) := by
  have hh := current_not_halted hc
  have hv : view v cfg (s.th t) = c.rest := view_of_current hc
  have hl : holds (view v cfg (s.th t)) = true := atW_holds (B.L.disc t) (hv ▸ hw)
  have hview : view v cfg (settle (s.th t) p.2) = p.2.rest := view_settle_ne v cfg _ _ hh hne
  have vo : ∀ u, u ≠ t → view v cfg ((setTh s t (settle (s.th t) p.2) p.1).th u) = view v cfg (s.th u) := by
    intro u hu; rw [setTh_other _ _ _ _ _ hu]
  have others_out : ∀ u, u ≠ t → holds (view v cfg (s.th u)) = false := by
    intro u hu
    cases hx : holds (view v cfg (s.th u)) with
    | false => rfl
    | true => exact absurd (holder_unique B.L hl hx) hu
  refine ⟨?_, ?_, ?_, ?_, ?_, ?_, h5, ?_⟩
  · intro u
    by_cases hu : u = t
    · subst hu; rw [setTh_same, hview]; exact hcd
    · rw [vo u hu]; exact I.dc u
  · intro u
    by_cases hu : u = t
    · subst hu; rw [setTh_same, hview]; exact had
    · rw [vo u hu]; exact I.ad u
  · intro u hu
    rw [setTh_sh, hcl]
    by_cases hut : u = t
    · subst hut; rw [setTh_same, hview, hC] at hu; cases hu
    · rw [vo u hut] at hu; exact I.i1 u hu
  · intro hcw
    rw [setTh_sh] at hcw
    exact Or.inr (Or.inr ⟨t, by rw [setTh_same, hview]; exact hend hcw⟩)
  · intro u hu
    rw [setTh_sh]
    by_cases hut : u = t
    · subst hut; rw [setTh_same, hview] at hu; exact hmid (Or.inl hu)
    · rw [vo u hut] at hu
      have := armed_holds _ (B.L.disc u) hu
      rw [others_out u hut] at this; cases this
  · intro u c2 hc2 hat hld
    by_cases hut : u = t
    · subst hut
      rw [setTh_same, current_settle v cfg _ _ hh hne] at hc2
      cases hc2
      rw [hB] at hat; cases hat
    · rw [setTh_other _ _ _ _ _ hut] at hc2
      have hd := B.L.disc u
      rw [view_of_current hc2] at hd
      cases hcr : c2.rest with
      | nil => rw [hcr] at hat; cases hat
      | cons a r9 =>
        rw [hcr] at hat hd
        cases a <;> simp only [atChkBoth] at hat <;> try cases hat
        have := inOnly_holds hd rfl
        rw [← hcr, ← view_of_current hc2, others_out u hut] at this; cases this
  · intro u hu
    rw [setTh_sh]
    by_cases hut : u = t
    · subst hut; rw [setTh_same, hview] at hu; exact hmid (Or.inr hu)
    · rw [vo u hut] at hu
      have := headW2_holds (B.L.disc u) hu
      rw [others_out u hut] at this; cases this

theorem armed_w2 (f : FrameSrc) (r : List Step) (h : noWrite r = true) : armed (.write2 f :: r) = false := by
  simp only [armed]; exact armed_noWrite r h

theorem cInvN_stepN (env : Env) (v : Variant) (cfg : Cfg) (s : State) (t : Tid) (hva : v.closeAtomic = true)
    (B : BaseN v cfg s) (I : CInvN v cfg s) : CInvN v cfg (stepN env v cfg s t) := by
  rcases stepN_cases env v cfg s t with ⟨hnw, e⟩ | ⟨c, f, r, hc, hr, e⟩ | ⟨c, f, r, hc, hr, e⟩
  · rw [e]; exact cInvN_step_plain v cfg s t hva B I hnw
  · rw [e]
    have hw : atW c.rest = true := by rw [hr]; rfl
    have hv : view v cfg (s.th t) = .write1 f :: r := by rw [view_of_current hc, hr]
    have d : disc (.write1 f :: r) = true := hv ▸ B.L.disc t
    have cd : cdisc (.write1 f :: r) = true := hv ▸ I.dc t
    have ad : adisc (.write1 f :: r) = true := hv ▸ I.ad t
    obtain ⟨hhr, r2, hr2⟩ := disc_w1 d
    have hnw2 : noWrite r2 = true := by
      have := disc_tail d; rw [hr2] at this; exact (disc_w2 this).2
    have hnone : hasWholeClose s.sh.wire = false := I.i3 t (by rw [hv]; rfl)
    have o := execW1_out env t f r s.sh c
    generalize execW1 env t f r s.sh c = p at o
    cases o with
    | dead _ =>
      exact cInvN_after_write v cfg s t B I c _ hc hw (holds_ne_nil (holds_toRelease _ hhr))
        (cdisc_suffix (toRelease_suffix r) (cdisc_tail cd)) (adisc_suffix (toRelease_suffix r) (adisc_tail ad))
        (atBoth_toRelease r) (atClear_toRelease r) rfl I.i5 (fun _ => hnone)
        (fun h => by simp only at h; rw [hnone] at h; cases h)
    | fail _ =>
      exact cInvN_after_write v cfg s t B I c _ hc hw (holds_ne_nil (holds_toRelease _ hhr))
        (cdisc_suffix (toRelease_suffix r) (cdisc_tail cd)) (adisc_suffix (toRelease_suffix r) (adisc_tail ad))
        (atBoth_toRelease r) (atClear_toRelease r) rfl I.i5 (fun _ => hnone)
        (fun h => by simp only at h; rw [hnone] at h; cases h)
    | skip _ _ =>
      subst hr2
      exact cInvN_after_write v cfg s t B I c _ hc hw (by simp) (cdisc_tail cd) (adisc_tail ad) rfl rfl rfl I.i5
        (fun _ => hnone) (fun h => by simp only at h; rw [hnone] at h; cases h)
    | stay _ _ =>
      have hn : hasWholeClose (s.sh.wire ++ [(⟨t, c.idx, false, descOf f c⟩ : Chunk)]) = false := by
        rw [hwc_nonfinal _ _ rfl]; exact hnone
      exact cInvN_after_write v cfg s t B I c _ hc hw (by simp) cd ad rfl rfl rfl (nawc_append _ _ hnone I.i5)
        (fun _ => hn) (fun h => by simp only at h; rw [hn] at h; cases h)
    | adv _ _ _ =>
      subst hr2
      have hn : hasWholeClose (s.sh.wire ++ [(⟨t, c.idx, false, descOf f c⟩ : Chunk)]) = false := by
        rw [hwc_nonfinal _ _ rfl]; exact hnone
      exact cInvN_after_write v cfg s t B I c _ hc hw (by simp) (cdisc_tail cd) (adisc_tail ad) rfl rfl rfl
        (nawc_append _ _ hnone I.i5) (fun _ => hn) (fun h => by simp only at h; rw [hn] at h; cases h)
  · rw [e]
    have hw : atW c.rest = true := by rw [hr]; rfl
    have hv : view v cfg (s.th t) = .write2 f :: r := by rw [view_of_current hc, hr]
    have d : disc (.write2 f :: r) = true := hv ▸ B.L.disc t
    have cd : cdisc (.write2 f :: r) = true := hv ▸ I.dc t
    have ad : adisc (.write2 f :: r) = true := hv ▸ I.ad t
    obtain ⟨hhr, hnw⟩ := disc_w2 d
    have hnone : hasWholeClose s.sh.wire = false := I.i6 t (by rw [hv]; rfl)
    have o := execW2_out env t f r s.sh c
    generalize execW2 env t f r s.sh c = p at o
    cases o with
    | dead _ =>
      exact cInvN_after_write v cfg s t B I c _ hc hw (holds_ne_nil (holds_toRelease _ hhr))
        (cdisc_suffix (toRelease_suffix r) (cdisc_tail cd)) (adisc_suffix (toRelease_suffix r) (adisc_tail ad))
        (atBoth_toRelease r) (atClear_toRelease r) rfl I.i5 (fun _ => hnone)
        (fun h => by simp only at h; rw [hnone] at h; cases h)
    | fail _ =>
      exact cInvN_after_write v cfg s t B I c _ hc hw (holds_ne_nil (holds_toRelease _ hhr))
        (cdisc_suffix (toRelease_suffix r) (cdisc_tail cd)) (adisc_suffix (toRelease_suffix r) (adisc_tail ad))
        (atBoth_toRelease r) (atClear_toRelease r) rfl I.i5 (fun _ => hnone)
        (fun h => by simp only at h; rw [hnone] at h; cases h)
    | fin _ =>
      have hB : atChkBoth r = false := by
        cases hx : atChkBoth r with
        | false => rfl
        | true => exact absurd (moves_atBoth (Moves.next (v := v) _ r) cd hx).1 (by intro h; cases h)
      have hC : atClear r = false := by
        cases hx : atClear r with
        | false => rfl
        | true => exact absurd (moves_atClear hva (Moves.next (v := v) _ r) cd hx).1 (by intro h; cases h)
      refine cInvN_after_write v cfg s t B I c _ hc hw (holds_ne_nil hhr) (cdisc_tail cd) (adisc_tail ad) hB hC rfl
        (nawc_append _ _ hnone I.i5) ?_ ?_
      · intro h
        rcases h with h | h
        · simp only at h; rw [armed_noWrite r hnw] at h; cases h
        · simp only at h
          have := atW_noWrite hnw
          cases hr3 : r with
          | nil => rw [hr3] at h; cases h
          | cons a r3 => rw [hr3] at h this; cases a <;> simp only [headW2] at h <;> first | (cases h; done) | (cases this; done)
      · intro h
        simp only at h ⊢
        rw [hwc_final _ _ rfl, hnone, Bool.false_or] at h
        simp only [isClose, descOf_op, decide_eq_true_eq] at h
        simp only [cdisc, cNext, h, Bool.and_eq_true] at cd
        have := cd.1.2
        cases r with
        | nil => simp at this
        | cons a r3 =>
          cases a <;> simp at this
          rename_i b
          cases b <;> simp at this
          simpa [closerEnd] using this

theorem cInvN_run (env : Env) (v : Variant) (cfg : Cfg) (s : State) (sched : List Tid) (hva : v.closeAtomic = true)
    (B : BaseN v cfg s) (I : CInvN v cfg s) : CInvN v cfg (runN env v cfg s sched) := by
  unfold runN
  induction sched generalizing s with
  | nil => exact I
  | cons t r ih => exact ih _ (baseN_step env v cfg s t B) (cInvN_stepN env v cfg s t hva B I)

end Lomond.Threads
