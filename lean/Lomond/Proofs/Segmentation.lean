/-
  Helper lemmas for C02 at the level of `WebSocket.feed` (header phase included):
  `break` happens exactly when the websocket is closed, the header reader is independent of
  how the block is cut (`feedBody_append_header`), hence `wsFeed_append` and the chunk-list form.
-/
import Lomond.Proofs.Step
import Lomond.Proofs.Release
import Lomond.Proofs.Proxy
set_option linter.unusedSimpArgs false
set_option linter.unusedVariables false
namespace Lomond.Core
open Lomond

/-! ### `break` in `WebSocket.feed` happens exactly when the websocket is closed -/

theorem notClosed_result {b : Bool} {s s' : Sys} (h : notClosed s = .ok b s') : s' = s ∧ b = !s.closed := by
  unfold notClosed at h; cases h; exact ⟨rfl, rfl⟩

/-- if `m >>= fun _ => notClosed` returns `b`, then `b` is `¬closed` of the final state -/
theorem bind_notClosed {m : M α} {s s' : Sys} {b : Bool}
    (h : (m >>= fun _ => notClosed) s = .ok b s') : b = !s'.closed := by
  cases hm : m s with
  | err x s1 => rw [bind_err hm] at h; cases h
  | ok a s1 =>
    rw [bind_ok hm] at h
    obtain ⟨e1, e2⟩ := notClosed_result h
    rw [e1]; exact e2

theorem bind_ok_inv {m : M α} {k : α → M β} {s s' : Sys} {b : β} (h : (m >>= k) s = .ok b s') :
    ∃ a s1, m s = .ok a s1 ∧ k a s1 = .ok b s' := by
  cases hm : m s with
  | err x s1 => rw [bind_err hm] at h; cases h
  | ok a s1 => rw [bind_ok hm] at h; exact ⟨a, s1, rfl, h⟩

theorem pure_apply (a : α) (s : Sys) : (pure a : M α) s = .ok a s := rfl

theorem modS_bind (f : Sys → Sys) (k : Unit → M β) (s : Sys) : (modS f >>= k) s = k () (f s) := rfl

theorem onOut_result (o : Out) (s s' : Sys) (b : Bool) (h : onOut o s = .ok b s') : b = !s'.closed := by
  cases o with
  | frame f => exact bind_notClosed (by simpa only [onOut] using h)
  | header data =>
    simp only [onOut] at h
    rw [bind_ok (show getS s = .ok s s from rfl)] at h
    cases hr : Http.onResponse s.cfg.v.strictAccept s.cfg.challenge (Http.parseResponse data) with
    | error reason =>
      -- rejected: on_disconnect() has set closed, the yield cannot unset it
      rw [hr] at h; simp only at h
      have e0 : modS (fun s => { s with parsedResponse := true }) s = .ok () { s with parsedResponse := true } := rfl
      rw [bind_ok e0] at h
      cases hd : onDisconnect { s with parsedResponse := true } with
      | err x s1 => rw [bind_err hd] at h; cases h
      | ok u s1 =>
        rw [bind_ok hd] at h
        have hc1 : s1.closed = true := by
          unfold onDisconnect at hd
          obtain ⟨s0, h0⟩ := closeSocket_ok { s with parsedResponse := true }
          rw [bind_ok h0] at hd
          cases hd; rfl
        cases hy : feedYield true (.rejected reason) s1 with
        | err x s2 => rw [bind_err hy] at h; cases h
        | ok u2 s2 =>
          rw [bind_ok hy] at h
          have st := (step_feedYield true (.rejected reason)).ok hy
          cases h
          simp [st.closedMono hc1]
    | ok acc =>
      rw [hr] at h; simp only at h
      rw [modS_bind] at h
      obtain ⟨u, s2, _, h3⟩ := bind_ok_inv h
      exact bind_notClosed h3

/-- `feedLoop` says "continue" only with the websocket still open -/
theorem feedLoop_true_open (data : Bytes) (s s' : Sys) (hc : s.closed = false)
    (h : feedLoop data s = .ok true s') : s'.closed = false := by
  induction hn : data.length using Nat.strongRecOn generalizing data s with
  | _ n ih =>
    rw [feedLoop] at h
    by_cases hd : data = []
    · simp only [hd, dite_true] at h; cases h; exact hc
    · simp only [hd, dite_false] at h
      have hlt : (data.drop (s.p.remPred + 1)).length < n := by
        have : data.length ≠ 0 := fun hl => hd (List.eq_nil_of_length_eq_zero hl)
        simp only [List.length_drop]; omega
      cases hb : biteBytes s.cfg.v s.p (data.take (s.p.remPred + 1)) with
      | error x => rw [hb] at h; cases h
      | ok r =>
        obtain ⟨p', out⟩ := r
        rw [hb] at h
        simp only at h
        cases out with
        | none => simp only at h; exact ih _ hlt _ { s with p := p' } hc h rfl
        | some o =>
          simp only at h
          cases ho : onOut o { s with p := p' } with
          | err x s2 => rw [ho] at h; cases h
          | ok go s2 =>
            rw [ho] at h
            cases go with
            | false => cases h
            | true =>
              have := onOut_result o _ _ _ ho
              simp at this
              exact ih _ hlt _ _ this h rfl

/-- `feedLoop` says "stop" only with the websocket closed -/
theorem feedLoop_false_closed (data : Bytes) (s s' : Sys)
    (h : feedLoop data s = .ok false s') : s'.closed = true := by
  induction hn : data.length using Nat.strongRecOn generalizing data s with
  | _ n ih =>
    rw [feedLoop] at h
    by_cases hd : data = []
    · simp only [hd, dite_true] at h; cases h
    · simp only [hd, dite_false] at h
      have hlt : (data.drop (s.p.remPred + 1)).length < n := by
        have : data.length ≠ 0 := fun hl => hd (List.eq_nil_of_length_eq_zero hl)
        simp only [List.length_drop]; omega
      cases hb : biteBytes s.cfg.v s.p (data.take (s.p.remPred + 1)) with
      | error x => rw [hb] at h; cases h
      | ok r =>
        obtain ⟨p', out⟩ := r
        rw [hb] at h
        simp only at h
        cases out with
        | none => simp only at h; exact ih _ hlt _ { s with p := p' } h rfl
        | some o =>
          simp only at h
          cases ho : onOut o { s with p := p' } with
          | err x s2 => rw [ho] at h; cases h
          | ok go s2 =>
            rw [ho] at h
            cases go with
            | false =>
              cases h
              have := onOut_result o _ _ _ ho
              simpa using this
            | true => exact ih _ hlt _ _ h rfl


/-! ### the header phase and `feedBody` -/

/-- while the header block is awaited, the buffer holds no complete separator and is within the limit -/
def HdrInv (s : Sys) : Prop :=
  s.p.cont = .header → findSep Gen.headerSep s.p.buf = none ∧ headerTooLong s.p.buf.length = false

/-- feeding `b` after `a` the way the session does: nothing more is fed once the websocket is closed -/
def thenFeed (r : Res Unit) (b : Bytes) : Res Unit :=
  match r with
  | .ok _ s' => if s'.closed then .ok () s' else feedBody b s'
  | .err x s' => .err x s'

theorem headerTooLong_mono {n m : Nat} (h : headerTooLong n = true) (hnm : n ≤ m) : headerTooLong m = true := by
  unfold headerTooLong at *
  simp only [Bool.and_eq_true, Bool.not_eq_true', decide_eq_true_eq] at *
  exact ⟨h.1, by omega⟩

/-- `feedBody` in the frames phase is `feedLoop` -/
theorem feedBody_frames (d : Bytes) (s : Sys) (h : s.p.cont ≠ .header) :
    feedBody d s = match feedLoop d s with | .ok _ s' => .ok () s' | .err x s' => .err x s' := by
  unfold feedBody; rw [if_neg h]; cases feedLoop d s <;> rfl

theorem feedBody_append_frames (a b : Bytes) (s : Sys) (hc : s.closed = false) (h : s.p.cont ≠ .header) :
    feedBody (a ++ b) s = thenFeed (feedBody a s) b := by
  rw [feedBody_frames _ _ h, feedBody_frames _ _ h, feedLoop_append]
  cases hr : feedLoop a s with
  | err x s' => simp [contLoop, thenFeed]
  | ok go s' =>
    have hnh : s'.p.cont ≠ .header := ((step_feedLoop a).ok hr).contNH h
    cases go with
    | true =>
      have := feedLoop_true_open a s s' hc hr
      simp only [contLoop, thenFeed, this]
      rw [feedBody_frames _ _ hnh]; simp
    | false =>
      have := feedLoop_false_closed a s s' hr
      simp [contLoop, thenFeed, this]

/-- the same for the tail of `afterHeader` -/
theorem afterHeader_append (r b : Bytes) (out : Option Out) (s : Sys) (hc : s.closed = false)
    (h : s.p.cont ≠ .header) :
    afterHeader (r ++ b) out s = thenFeed (afterHeader r out s) b := by
  unfold afterHeader
  cases out with
  | none =>
    simp only
    have := feedBody_append_frames r b s hc h
    rw [feedBody_frames _ _ h, feedBody_frames _ _ h] at this
    cases h1 : feedLoop (r ++ b) s <;> cases h2 : feedLoop r s <;>
      simp only [bind_ok, bind_err, h1, h2] at this ⊢ <;>
      (first | (rw [bind_ok h1, bind_ok h2]; exact this) | (rw [bind_ok h1, bind_err h2]; exact this)
             | (rw [bind_err h1, bind_ok h2]; exact this) | (rw [bind_err h1, bind_err h2]; exact this))
  | some o =>
    simp only
    cases ho : onOut o s with
    | err x s1 => rw [bind_err ho, bind_err ho]; rfl
    | ok go s1 =>
      rw [bind_ok ho, bind_ok ho]
      have hgo := onOut_result o s s1 go ho
      have hnh : s1.p.cont ≠ .header := ((step_onOut o).ok ho).contNH h
      cases go with
      | false =>
        have hcl : s1.closed = true := by simpa using hgo
        simp only [pure_apply, thenFeed, hcl, if_true, Bool.false_eq_true, if_false]
      | true =>
        have hcl : s1.closed = false := by simpa using hgo
        simp only [if_true]
        have := feedBody_append_frames r b s1 hcl hnh
        rw [feedBody_frames _ _ hnh, feedBody_frames _ _ hnh] at this
        cases h1 : feedLoop (r ++ b) s1 <;> cases h2 : feedLoop r s1 <;>
          simp only [h1, h2] at this ⊢ <;>
          (first | (rw [bind_ok h1, bind_ok h2]; exact this) | (rw [bind_ok h1, bind_err h2]; exact this)
                 | (rw [bind_err h1, bind_ok h2]; exact this) | (rw [bind_err h1, bind_err h2]; exact this))


theorem feedBody_header (d : Bytes) (s : Sys) (h : s.p.cont = .header) : feedBody d s = feedHeader d s := by
  unfold feedBody; rw [if_pos h]

theorem resume_ignores_buf (v : Variant) (p : PState) (bf : Bytes) (x : Bytes) :
    resume v { p with buf := bf } x = resume v p x := by
  simp [resume]

theorem resume_header_out (v : Variant) (p : PState) (x : Bytes) (h : p.cont = .header) :
    ∃ p', resume v p x = .ok (p', some (.header x)) ∧ p'.cont = .hdr2 := by
  unfold resume; simp only [h]; exact ⟨_, rfl, rfl⟩

/-- `feedHeader` as a function of the combined buffer -/
def hdrStep (buf : Bytes) (s : Sys) : Res Unit :=
  match findSep Gen.headerSep buf with
  | none =>
    if headerTooLong buf.length then .err (.parse "expected separator") { s with p := deadParser s.p }
    else .ok () { s with p := { s.p with buf := buf } }
  | some i =>
    let e := i + Gen.headerSep.length
    if headerTooLong e then .err (.parse "expected separator") { s with p := deadParser s.p }
    else
      match resume s.cfg.v s.p (buf.take e) with
      | .error x => .err x { s with p := deadParser s.p }
      | .ok (p', out) => afterHeader (buf.drop e) out { s with p := p' }

theorem feedHeader_eq (d : Bytes) (s : Sys) : feedHeader d s = hdrStep (s.p.buf ++ d) s := rfl

/-- the state with the parser buffer replaced -/
def bufTo (s : Sys) (bf : Bytes) : Sys := { s with p := { s.p with buf := bf } }

theorem hdrStep_bufTo (buf bf : Bytes) (s : Sys) : hdrStep buf (bufTo s bf) = hdrStep buf s := by
  unfold hdrStep bufTo
  simp only [resume_ignores_buf, deadParser]

theorem feedBody_append_header (a b : Bytes) (s : Sys) (hc : s.closed = false)
    (hh : s.p.cont = .header) (hi : HdrInv s) :
    feedBody (a ++ b) s = thenFeed (feedBody a s) b := by
  rw [feedBody_header _ _ hh, feedBody_header _ _ hh, feedHeader_eq, feedHeader_eq]
  have hassoc : s.p.buf ++ (a ++ b) = (s.p.buf ++ a) ++ b := by simp
  rw [hassoc]
  cases hf : findSep Gen.headerSep (s.p.buf ++ a) with
  | some i =>
    -- the header block is complete within `a`
    have hb := Proxy.findSep_bound _ _ _ hf
    have hf2 := Proxy.findSep_append _ _ b _ hf
    unfold hdrStep
    rw [hf, hf2]
    simp only
    by_cases htl : headerTooLong (i + Gen.headerSep.length) = true
    · simp [htl, thenFeed]
    · simp only [htl, Bool.false_eq_true, if_false]
      have et : ((s.p.buf ++ a) ++ b).take (i + Gen.headerSep.length) = (s.p.buf ++ a).take (i + Gen.headerSep.length) :=
        List.take_append_of_le_length hb
      have ed : ((s.p.buf ++ a) ++ b).drop (i + Gen.headerSep.length) = (s.p.buf ++ a).drop (i + Gen.headerSep.length) ++ b :=
        List.drop_append_of_le_length hb
      rw [et, ed]
      obtain ⟨p', hr, hp'⟩ := resume_header_out s.cfg.v s.p ((s.p.buf ++ a).take (i + Gen.headerSep.length)) hh
      rw [hr]
      simp only
      exact afterHeader_append _ b _ { s with p := p' } hc (by simp [hp'])
  | none =>
    by_cases htl : headerTooLong (s.p.buf ++ a).length = true
    · -- already too long without a terminator: the same error whatever follows
      have e1 : hdrStep (s.p.buf ++ a) s = .err (.parse "expected separator") { s with p := deadParser s.p } := by
        unfold hdrStep; rw [hf]; simp only [htl, if_true]
      rw [e1]; simp only [thenFeed]
      unfold hdrStep
      cases hf2 : findSep Gen.headerSep ((s.p.buf ++ a) ++ b) with
      | none =>
        have : headerTooLong ((s.p.buf ++ a) ++ b).length = true :=
          headerTooLong_mono htl (by simp only [List.length_append]; omega)
        simp only [this, if_true]
      | some j =>
        have hj := Proxy.findSep_append_none _ _ b j hf hf2
        have : headerTooLong (j + Gen.headerSep.length) = true := headerTooLong_mono htl (by omega)
        simp only [this, if_true]
    · have e1 : hdrStep (s.p.buf ++ a) s = .ok () (bufTo s (s.p.buf ++ a)) := by
        unfold hdrStep bufTo; rw [hf]; simp only [htl, Bool.false_eq_true, if_false]
      rw [e1]
      have hc1 : (bufTo s (s.p.buf ++ a)).closed = false := hc
      have hh1 : (bufTo s (s.p.buf ++ a)).p.cont = .header := hh
      simp only [thenFeed, hc1, Bool.false_eq_true, if_false]
      rw [feedBody_header _ _ hh1, feedHeader_eq, hdrStep_bufTo]
      rfl

theorem feedBody_append (a b : Bytes) (s : Sys) (hc : s.closed = false) (hi : HdrInv s) :
    feedBody (a ++ b) s = thenFeed (feedBody a s) b := by
  by_cases hh : s.p.cont = .header
  · exact feedBody_append_header a b s hc hh hi
  · exact feedBody_append_frames a b s hc hh


/-! ### `WebSocket.feed` -/

theorem feedHandler_never_ok (x : Exn) (s : Sys) : ∃ y s', feedHandler x s = .err y s' := by
  unfold feedHandler
  split
  · cases h : feedYield false (.protocolError _ true) s with
    | ok a s1 => exact ⟨_, s1, by rw [bind_ok h]; rfl⟩
    | err y s1 => exact ⟨y, s1, bind_err h⟩
  · cases h : feedYield false (.protocolError _ true) s with
    | ok a s1 => exact ⟨_, s1, by rw [bind_ok h]; rfl⟩
    | err y s1 => exact ⟨y, s1, bind_err h⟩
  · rename_i msg
    cases h : feedYield false (.protocolError msg false) s with
    | err y s1 => exact ⟨y, s1, bind_err h⟩
    | ok a s1 =>
      rw [bind_ok h]
      cases h2 : wsClose (some Gen.statusProtocolError) (.str (Http.ofString msg)) s1 with
      | err y s2 => exact ⟨y, s2, bind_err h2⟩
      | ok r s2 =>
        rw [bind_ok h2]
        cases h3 : raiseIfArgError r s2 with
        | err y s3 => exact ⟨y, s3, bind_err h3⟩
        | ok u s3 => exact ⟨_, s3, by rw [bind_ok h3]; rfl⟩
  · exact ⟨_, s, rfl⟩

theorem unwrapOuter_never_ok (x : Exn) (s : Sys) : ∃ y s', unwrapOuter x s = .err y s' := by
  unfold unwrapOuter; split <;> exact ⟨_, s, rfl⟩

/-- what `WebSocket.feed` does with the result of its `try` body -/
def wsWrap (r : Res Unit) : Res Unit :=
  match r with
  | .ok a s' => .ok a s'
  | .err x s' =>
    match feedHandler x s' with
    | .ok a s'' => .ok a s''
    | .err y s'' => unwrapOuter y s''

theorem wsFeed_eq (d : Bytes) (s : Sys) :
    wsFeed d s = if s.closed then .ok () s else wsWrap (feedBody d s) := by
  unfold wsFeed wsWrap tryC
  split
  · rfl
  · cases feedBody d s with
    | ok a s' => rfl
    | err x s' => simp only; cases feedHandler x s' <;> rfl

theorem wsWrap_err (x : Exn) (s' : Sys) : ∃ y s'', wsWrap (.err x s') = .err y s'' := by
  unfold wsWrap
  obtain ⟨y, s1, h⟩ := feedHandler_never_ok x s'
  simp only [h]
  exact unwrapOuter_never_ok y s1

/-- **`WebSocket.feed` is independent of how the data is cut.** -/
theorem wsFeed_append (a b : Bytes) (s : Sys) (hi : HdrInv s) :
    wsFeed (a ++ b) s =
      match wsFeed a s with
      | .ok _ s' => wsFeed b s'
      | .err x s' => .err x s' := by
  rw [wsFeed_eq, wsFeed_eq a]
  by_cases hc : s.closed = true
  · simp only [hc, if_true]; rw [wsFeed_eq]; simp [hc]
  · have hc' : s.closed = false := by simpa using hc
    simp only [hc', Bool.false_eq_true, if_false]
    rw [feedBody_append a b s hc' hi]
    cases hr : feedBody a s with
    | err x s' =>
      obtain ⟨y, s'', hw⟩ := wsWrap_err x s'
      simp only [thenFeed, hw]
    | ok u s' =>
      simp only [thenFeed, wsWrap]
      rw [wsFeed_eq]
      by_cases hc2 : s'.closed = true
      · simp [hc2]
      · simp only [hc2, if_false, wsWrap]; simp


/-! ### chunk lists and the header invariant -/

theorem hdrInv_init (cfg : Cfg) (react : React) (env : List EnvStep) :
    HdrInv { cfg := cfg, react := react, env := env } := by
  intro _
  show findSep Gen.headerSep [] = none ∧ headerTooLong ([] : Bytes).length = false
  decide

theorem afterHeader_contNH (rest : Bytes) (out : Option Out) (s s' : Sys) (h : s.p.cont ≠ .header)
    (hr : afterHeader rest out s = .ok () s') : s'.p.cont ≠ .header :=
  ((step_afterHeader rest out).ok hr).contNH h

theorem feedBody_hdrInv (d : Bytes) (s s' : Sys) (hi : HdrInv s) (hr : feedBody d s = .ok () s') : HdrInv s' := by
  by_cases hh : s.p.cont = .header
  · rw [feedBody_header _ _ hh, feedHeader_eq] at hr
    unfold hdrStep at hr
    cases hf : findSep Gen.headerSep (s.p.buf ++ d) with
    | none =>
      rw [hf] at hr
      simp only at hr
      by_cases htl : headerTooLong (s.p.buf ++ d).length = true
      · simp only [htl, if_true] at hr; cases hr
      · simp only [htl, Bool.false_eq_true, if_false] at hr
        cases hr
        intro _
        exact ⟨hf, by simpa using htl⟩
    | some i =>
      rw [hf] at hr
      simp only at hr
      by_cases htl : headerTooLong (i + Gen.headerSep.length) = true
      · simp only [htl, if_true] at hr; cases hr
      · simp only [htl, Bool.false_eq_true, if_false] at hr
        obtain ⟨p', hres, hp'⟩ := resume_header_out s.cfg.v s.p ((s.p.buf ++ d).take (i + Gen.headerSep.length)) hh
        rw [hres] at hr
        simp only at hr
        have := afterHeader_contNH _ _ { s with p := p' } s' (by simp [hp']) hr
        intro hc; exact absurd hc this
  · rw [feedBody_frames _ _ hh] at hr
    cases hl : feedLoop d s with
    | err x s1 => rw [hl] at hr; cases hr
    | ok go s1 =>
      rw [hl] at hr; cases hr
      have := ((step_feedLoop d).ok hl).contNH hh
      intro hc; exact absurd hc this

theorem wsFeed_hdrInv (d : Bytes) (s s' : Sys) (hi : HdrInv s) (hr : wsFeed d s = .ok () s') : HdrInv s' := by
  rw [wsFeed_eq] at hr
  by_cases hc : s.closed = true
  · simp only [hc, if_true] at hr; cases hr; exact hi
  · simp only [hc, if_false] at hr
    cases hb : feedBody d s with
    | ok u s1 =>
      rw [hb] at hr; simp only [wsWrap] at hr
      have e : s1 = s' := by cases hr; rfl
      subst e
      exact feedBody_hdrInv d s s1 hi hb
    | err x s1 =>
      obtain ⟨y, s2, hw⟩ := wsWrap_err x s1
      rw [hb, hw] at hr; cases hr

/-- an empty read changes nothing (the session never feeds one; needed for chunk lists) -/
theorem wsFeed_nil (s : Sys) (hi : HdrInv s) : wsFeed [] s = .ok () s := by
  rw [wsFeed_eq]
  by_cases hc : s.closed = true
  · simp [hc]
  · simp only [hc, if_false]
    by_cases hh : s.p.cont = .header
    · obtain ⟨h1, h2⟩ := hi hh
      rw [feedBody_header _ _ hh, feedHeader_eq]
      unfold hdrStep
      simp only [List.append_nil, h1, h2, Bool.false_eq_true, if_false, wsWrap]
    · rw [feedBody_frames _ _ hh, feedLoop_nil]; rfl

/-- feed the chunks one read after the other, as `run()` does -/
def wsFeedChunks : List Bytes → Sys → Res Unit
  | [], s => .ok () s
  | c :: cs, s =>
    match wsFeed c s with
    | .ok _ s' => wsFeedChunks cs s'
    | .err x s' => .err x s'

theorem wsFeedChunks_eq_flatten (cs : List Bytes) (s : Sys) (hi : HdrInv s) :
    wsFeedChunks cs s = wsFeed cs.flatten s := by
  induction cs generalizing s with
  | nil => simp [wsFeedChunks, wsFeed_nil s hi]
  | cons c cs ih =>
    simp only [wsFeedChunks, List.flatten_cons]
    rw [wsFeed_append c _ s hi]
    cases hr : wsFeed c s with
    | err x s' => rfl
    | ok u s' => exact ih s' (wsFeed_hdrInv c s s' hi hr)

end Lomond.Core
