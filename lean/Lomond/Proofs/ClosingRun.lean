/-
  End-to-end composition for C08 (closing handshake): a whole connection `runAll cfg react env`
  in which the application calls `close(code, reason)` in its reaction to one event (any event
  from `Connected` on) and otherwise only sends — or never closes at all and the server closes.

  The end-to-end machinery of Proofs/EndToEnd.lean is built for applications that only send
  (`SendOnly`); here the application class is `AppK kc code reason`:
    * `kc = none`   : send-only;
    * `kc = some K` : send-only, except that the reaction to the K-th event (history length `K`)
                      is `pre ++ [close code reason] ++ post` with `pre`, `post` send calls.
  Everything is carried by one state invariant (`J`):
    * `Q`  — frozen clock: session time 0, the first Poll fired iff ready, socket open unless the
             websocket is closed, `hist` = events of the trace (as `E2E.I`, for the class `AppK`);
    * `Sh` — the *shape of the trace*: either the websocket is open and the trace since the
             upgrade request is `PhaseA` (events; the library's Pong directly before each Ping
             event; application calls, a written frame directly before its result), or the
             application has closed in reaction to the K-th event: the trace is
             `B ++ .res ok :: .wr (Close frame) :: A ++ T0` with `PhaseA A`, exactly `K` events in
             `A ++ T0`, and `PhaseB B`: nothing written, no call succeeded.  Both cases carry the
             clause "if the application made no call at the histories it has been shown so far
             (before its `close()`), `A` contains no call result" (`NoRes`), from which
             `PhaseA.pongsOnly` gives `PongsOnly A`: events and Pongs only.
  The invariant is established by `run()` up to the loop (`run_start_J`), kept by the handshake
  read (`feed_reply_J`), by every conforming item (`feed_items_J`: copy of C01's consumer half for
  this class) and used for the server's Close frame (`feed_close_closing`, `feed_close_open`) and
  the end of `run()` (`finish_J`).  Any segmentation of the reads is reduced to one read by C02
  (`SegLoop.runAll_segmentation`).
-/
import Lomond.Proofs.EndToEndText
import Lomond.Proofs.Closing
import Lomond.Proofs.Pong
import Lomond.Proofs.SegmentationRun
set_option linter.unusedSimpArgs false
set_option linter.unusedVariables false
namespace Lomond.Core.CR
open Lomond Lomond.Core Lomond.Core.E2E

/-! ### the application -/

/-- every call is a send (text, binary, ping, pong; any arguments) -/
def SendActs (as : List Act) : Prop := ∀ a ∈ as, isSendAct a = true

/-- send calls, one `close(code, reason)`, send calls -/
def CloseForm (code : Option Nat) (reason : Arg) (as : List Act) : Prop :=
  ∃ pre post, as = pre ++ .close code reason :: post ∧ SendActs pre ∧ SendActs post

/-- the application only sends, except that (`kc = some K`) its reaction to the K-th event — the
    history it is shown has length `K` — contains exactly one `close(code, reason)` -/
structure AppK (kc : Option Nat) (code : Option Nat) (reason : Arg) (r : React) : Prop where
  sends : ∀ h, kc ≠ some h.length → SendActs (r h)
  closes : ∀ h, kc = some h.length → CloseForm code reason (r h)

theorem sendActs_nil : SendActs [] := by intro a ha; cases ha

theorem SendActs.tail {a : Act} {as : List Act} (h : SendActs (a :: as)) : SendActs as :=
  fun b hb => h b (List.mem_cons_of_mem _ hb)

theorem isSend_eq (a : Act) : a.isSend = isSendAct a := by cases a <;> rfl

theorem AppK.noSessionClose {kc : Option Nat} {code : Option Nat} {reason : Arg} {r : React}
    (h : AppK kc code reason r) : SegLoop.NoSessionClose r := by
  intro hi hm
  by_cases hk : kc = some hi.length
  · obtain ⟨pre, post, e, h1, h2⟩ := h.closes hi hk
    rw [e] at hm
    rcases List.mem_append.mp hm with hm | hm
    · have := h1 _ hm; simp [isSendAct] at this
    · rcases List.mem_cons.mp hm with hm | hm
      · cases hm
      · have := h2 _ hm; simp [isSendAct] at this
  · have := h.sends hi hk _ hm; simp [isSendAct] at this

/-! ### what application calls leave alone -/

/-- send calls and `close()` touch counters, the trace, `closing` and the time of the Close only -/
structure KC (s s' : Sys) : Prop where
  cfg : s'.cfg = s.cfg
  react : s'.react = s.react
  env : s'.env = s.env
  sockOpen : s'.sockOpen = s.sockOpen
  selOpen : s'.selOpen = s.selOpen
  closed : s'.closed = s.closed
  ready : s'.ready = s.ready
  startTime : s'.startTime = s.startTime
  now : s'.now = s.now
  pollStart : s'.pollStart = s.pollStart
  p : s'.p = s.p
  frames : s'.frames = s.frames
  hist : s'.hist = s.hist
  closing : s.closing = true → s'.closing = true

theorem kc_po : PO KC where
  refl s := ⟨rfl, rfl, rfl, rfl, rfl, rfl, rfl, rfl, rfl, rfl, rfl, rfl, rfl, id⟩
  trans := by
    intro a b c h1 h2
    exact ⟨h2.cfg.trans h1.cfg, h2.react.trans h1.react, h2.env.trans h1.env, h2.sockOpen.trans h1.sockOpen,
      h2.selOpen.trans h1.selOpen, h2.closed.trans h1.closed, h2.ready.trans h1.ready,
      h2.startTime.trans h1.startTime, h2.now.trans h1.now, h2.pollStart.trans h1.pollStart,
      h2.p.trans h1.p, h2.frames.trans h1.frames, h2.hist.trans h1.hist, fun h => h2.closing (h1.closing h)⟩

macro "kc_leaf" : tactic =>
  `(tactic| ((try simp only [Res.state_ok, Res.state_err])
             first
              | exact kc_po.refl _
              | exact ⟨rfl, rfl, rfl, rfl, rfl, rfl, rfl, rfl, rfl, rfl, rfl, rfl, rfl, id⟩
              | exact ⟨rfl, rfl, rfl, rfl, rfl, rfl, rfl, rfl, rfl, rfl, rfl, rfl, rfl, fun _ => rfl⟩))

theorem kc_write (d : Bytes) (z : Option (Nat × Bytes)) : Spec KC (write d z) := by
  intro s; unfold write; splits <;> kc_leaf

theorem kc_sendFrame (op : Nat) (pl : Bytes) (c : Option Bytes) : Spec KC (sendFrame op pl c) := by
  intro s; unfold sendFrame
  simp only
  splits
  all_goals first
    | kc_leaf
    | exact kc_po.trans (by kc_leaf) (kc_write _ _ _)

theorem kc_sendData (op : Nat) (pl : Bytes) (c : Bool) : Spec KC (sendData op pl c) := by
  intro s; unfold sendData; split <;> exact kc_sendFrame _ _ _ s

theorem kc_wsClose (c : Option Nat) (r : Arg) : Spec KC (wsClose c r) := by
  intro s; unfold wsClose
  splits
  all_goals first
    | kc_leaf
    | (rename_i h
       have := (kc_sendFrame _ _ _).ok h
       simp only [Res.state_ok]
       exact kc_po.trans this (by kc_leaf))
    | (rename_i h
       simp only [Res.state_err]
       exact (kc_sendFrame _ _ _).err h)

theorem kc_logRes {m : M ActRes} (h : Spec KC m) : Spec KC (logRes m) := by
  unfold logRes
  refine spec_bind kc_po h (fun r => ?_)
  intro s; unfold log modS; kc_leaf

theorem kc_doAct_send (a : Act) (ha : isSendAct a = true) : Spec KC (doAct a) := by
  unfold doAct
  split
  all_goals first
    | (apply kc_logRes
       first
        | exact spec_pure kc_po _
        | exact kc_sendData _ _ _
        | exact spec_ite _ (spec_pure kc_po _) (kc_sendData _ _ _)
        | exact spec_ite _ (spec_pure kc_po _) (kc_sendFrame _ _ _))
    | (simp [isSendAct] at ha)

/-! ### what application calls leave on the trace -/

/-- trace (newest first) left by send calls: the result of each call; a frame handed to `sendall`
    sits directly before the result of the call that wrote it -/
inductive AppSeg : List Obs → Prop
  | nil : AppSeg []
  | res (r : ActRes) {t : List Obs} : AppSeg t → AppSeg (.res r :: t)
  | wr (r : ActRes) (o : Obs) {t : List Obs} : o.isWrite = true → AppSeg t → AppSeg (.res r :: o :: t)

theorem AppSeg.append {a b : List Obs} (ha : AppSeg a) (hb : AppSeg b) : AppSeg (a ++ b) := by
  induction ha with
  | nil => exact hb
  | res r _ ih => exact .res r ih
  | wr r o h _ ih => exact .wr r o h ih

theorem AppSeg.noEv {l : List Obs} (h : AppSeg l) : ∀ o ∈ l, Obs.isEv o = false := by
  induction h with
  | nil => intro o ho; cases ho
  | res r _ ih =>
    intro o ho
    rcases List.mem_cons.mp ho with rfl | ho
    · rfl
    · exact ih o ho
  | wr r o' h _ ih =>
    intro o ho
    rcases List.mem_cons.mp ho with rfl | ho
    · rfl
    · rcases List.mem_cons.mp ho with rfl | ho
      · cases o <;> first | rfl | (simp [Obs.isWrite] at h)
      · exact ih o ho

/-- a computation returning a call result that adds at most one trace entry, a write -/
def WShape (m : M ActRes) : Prop :=
  ∀ s, ∃ r s1, m s = .ok r s1 ∧ (s1.trace = s.trace ∨ ∃ o, s1.trace = o :: s.trace ∧ o.isWrite = true)

theorem wshape_pure (r : ActRes) : WShape (pure r) := fun s => ⟨r, s, rfl, Or.inl rfl⟩

theorem wshape_write (d : Bytes) (z : Option (Nat × Bytes)) : WShape (write d z) := by
  intro s; unfold write
  splits
  all_goals first
    | exact ⟨_, _, rfl, Or.inl rfl⟩
    | exact ⟨_, _, rfl, Or.inr ⟨_, rfl, rfl⟩⟩

theorem wshape_sendFrame (op : Nat) (pl : Bytes) (c : Option Bytes) : WShape (sendFrame op pl c) := by
  intro s; unfold sendFrame
  simp only
  splits
  · exact wshape_write _ _ _
  · exact ⟨_, _, rfl, Or.inl rfl⟩
  · exact wshape_write _ _ _

theorem wshape_sendData (op : Nat) (pl : Bytes) (c : Bool) : WShape (sendData op pl c) := by
  intro s; unfold sendData; split <;> exact wshape_sendFrame _ _ _ s

theorem wshape_ite (c : Prop) [Decidable c] {m k : M ActRes} (hm : WShape m) (hk : WShape k) :
    WShape (if c then m else k) := by
  split <;> assumption

/-- a call that returns normally and leaves an `AppSeg` on the trace -/
def ActShape (m : M Unit) : Prop := ∀ s, ∃ s' l, m s = .ok () s' ∧ s'.trace = l ++ s.trace ∧ AppSeg l

theorem actShape_logRes {m : M ActRes} (hm : WShape m) : ActShape (logRes m) := by
  intro s
  obtain ⟨r, s1, h1, ht⟩ := hm s
  rcases ht with ht | ⟨o, ht, ho⟩
  · exact ⟨{ s1 with trace := .res r :: s1.trace }, [.res r], logRes_ok h1,
      by show _ :: s1.trace = _; rw [ht]; rfl, .res r .nil⟩
  · exact ⟨{ s1 with trace := .res r :: s1.trace }, [.res r, o], logRes_ok h1,
      by show _ :: s1.trace = _; rw [ht]; rfl, .wr r o ho .nil⟩

theorem actShape_doAct_send (a : Act) (ha : isSendAct a = true) : ActShape (doAct a) := by
  unfold doAct
  split
  all_goals first
    | (apply actShape_logRes
       first
        | exact wshape_pure _
        | exact wshape_sendData _ _ _
        | exact wshape_ite _ (wshape_pure _) (wshape_sendData _ _ _)
        | exact wshape_ite _ (wshape_pure _) (wshape_sendFrame _ _ _))
    | (simp [isSendAct] at ha)

/-- the results of refused calls -/
def Refused (l : List Obs) : Prop := ∀ o ∈ l, ∃ r, o = .res r ∧ r ≠ .ok

theorem Refused.appSeg {l : List Obs} (h : Refused l) : AppSeg l := by
  induction l with
  | nil => exact .nil
  | cons o t ih =>
    obtain ⟨r, rfl, _⟩ := h o List.mem_cons_self
    exact .res r (ih (fun o' ho' => h o' (List.mem_cons_of_mem _ ho')))

/-- **one send call**: returns normally; only counters and the trace change; the trace gets the
    call's result, preceded by the frame if one was handed to `sendall`; once closing or closed
    nothing is written and the result is an error -/
theorem doAct_send_J (a : Act) (ha : isSendAct a = true) (s : Sys) :
    ∃ s' l, doAct a s = .ok () s' ∧ Keep s s' ∧ s'.hist = s.hist ∧ s'.trace = l ++ s.trace ∧ AppSeg l ∧
      (Shut s → Refused l) := by
  obtain ⟨s', l, h, ht, hl⟩ := actShape_doAct_send a ha s
  have hk := (E2E.keep_doAct a ha).ok h
  have hh := ((kc_doAct_send a ha).ok h).hist
  refine ⟨s', l, h, hk, hh, ht, hl, fun hs => ?_⟩
  obtain ⟨r, k, h2, hr, _⟩ := doAct_send_refused a (by rw [isSend_eq]; exact ha) s hs
  rw [h] at h2
  cases h2
  have : l = [.res r] := by
    have e : (.res r :: s.trace : List Obs) = l ++ s.trace := ht
    have e' : [Obs.res r] ++ s.trace = l ++ s.trace := e
    exact (List.append_cancel_right e').symm
  rw [this]
  intro o ho
  rcases List.mem_cons.mp ho with rfl | ho
  · exact ⟨r, rfl, hr⟩
  · cases ho

theorem _root_.Lomond.Core.E2E.Keep.shut {s s' : Sys} (k : Keep s s') (h : Shut s) : Shut s' := by
  unfold Shut at *
  rw [k.closing, k.closed]; exact h

theorem _root_.Lomond.Core.E2E.Keep.opn {s s' : Sys} (k : Keep s s') (h : Open s) : Open s' := by
  unfold Open at *
  rw [k.sockOpen, k.closing, k.closed]; exact h

theorem refused_append {a b : List Obs} (ha : Refused a) (hb : Refused b) : Refused (a ++ b) := by
  intro o ho
  rcases List.mem_append.mp ho with h | h
  · exact ha o h
  · exact hb o h

/-- **a reaction that only sends** -/
theorem doActs_sends_J (as : List Act) (hs : SendActs as) (s : Sys) :
    ∃ s' l, doActs as s = .ok () s' ∧ Keep s s' ∧ s'.hist = s.hist ∧ s'.trace = l ++ s.trace ∧ AppSeg l ∧
      (Shut s → Refused l) := by
  induction as generalizing s with
  | nil => exact ⟨s, [], rfl, E2E.keep_po.refl s, rfl, rfl, .nil, fun _ o ho => by cases ho⟩
  | cons a r ih =>
    obtain ⟨s1, l1, h1, k1, hh1, t1, a1, r1⟩ := doAct_send_J a (hs a List.mem_cons_self) s
    obtain ⟨s2, l2, h2, k2, hh2, t2, a2, r2⟩ := ih hs.tail s1
    refine ⟨s2, l2 ++ l1, ?_, E2E.keep_po.trans k1 k2, hh2.trans hh1, by rw [t2, t1, List.append_assoc],
      a2.append a1, fun hsh => refused_append (r2 (k1.shut hsh)) (r1 hsh)⟩
    unfold doActs
    rw [bind_ok h1]
    exact h2

theorem bind_assoc_at {α β γ : Type} (m : M α) (f : α → M β) (g : β → M γ) (s : Sys) :
    ((m >>= f) >>= g) s = (m >>= fun a => f a >>= g) s := by
  show M.bind (M.bind m f) g s = M.bind m (fun a => M.bind (f a) g) s
  unfold M.bind
  cases m s <;> rfl

theorem doActs_append (a b : List Act) (s : Sys) :
    doActs (a ++ b) s = (doActs a >>= fun _ => doActs b) s := by
  induction a generalizing s with
  | nil => rfl
  | cons x r ih =>
    show (doAct x >>= fun _ => doActs (r ++ b)) s = ((doAct x >>= fun _ => doActs r) >>= fun _ => doActs b) s
    rw [bind_assoc_at]
    cases hx : doAct x s with
    | ok u s1 => rw [bind_ok hx, bind_ok hx]; exact ih s1
    | err y s1 => rw [bind_err hx, bind_err hx]

theorem KC.of_keep {s s' : Sys} (k : Keep s s') (h : s'.hist = s.hist) : KC s s' :=
  ⟨k.cfg, k.react, k.env, k.sockOpen, k.selOpen, k.closed, k.ready, k.startTime, k.now, k.pollStart, k.p,
   k.frames, h, fun hc => k.closing.trans hc⟩

/-- the reaction starts with a call that is not a send (here: with the `close()`) -/
def HeadNotSend (as : List Act) : Prop := ∃ a post, as = a :: post ∧ isSendAct a = false

/-- no call result on this stretch of the trace -/
def NoRes (A : List Obs) : Prop := ∀ r, Obs.res r ∉ A

/-- **the reaction that closes**, on an open websocket, no write fault: the send calls before the
    `close()` are carried out; one Close frame with the given code and reason is written and the
    call returns normally; every send call after it is refused -/
theorem doActs_close_J (code : Option Nat) (reason : Arg) (rb : Bytes) (as : List Act) (s : Sys)
    (hr : reasonBytes reason = some rb) (ha : CloseArgsOk code rb) (hf : CloseForm code reason as)
    (ho : Open s) (hw : ∀ k, s.cfg.writeFails k = false) :
    ∃ s' lpost lpre key, doActs as s = .ok () s' ∧ KC s s' ∧ s'.closing = true ∧
      s'.trace = lpost ++ .res .ok :: .wr (closeFrame (buildClosePayload code rb) key) :: (lpre ++ s.trace) ∧
      AppSeg lpre ∧ Refused lpost ∧ (HeadNotSend as → lpre = []) := by
  obtain ⟨pre, post, rfl, hpre, hpost⟩ := hf
  obtain ⟨s1, l1, h1, k1, hh1, t1, a1, _⟩ := doActs_sends_J pre hpre s
  have ho1 := k1.opn ho
  have hw1 : s1.cfg.writeFails s1.writeCtr = false := by rw [k1.cfg]; exact hw _
  have hc := wsClose_open code reason rb s1 hr ha ho1 hw1
  let s2 : Sys := { s1 with keyCtr := s1.keyCtr + 1, writeCtr := s1.writeCtr + 1,
                            trace := .wr (closeFrame (buildClosePayload code rb) (s1.cfg.maskKey s1.keyCtr)) :: s1.trace,
                            closing := true, sentCloseTime := some (sessionTime s1) }
  let s3 : Sys := { s2 with trace := .res .ok :: s2.trace }
  have h3 : doAct (.close code reason) s1 = .ok () s3 := by
    show logRes (wsClose code reason) s1 = _
    exact logRes_ok hc
  have hs3 : Shut s3 := Or.inl rfl
  obtain ⟨s4, l4, h4, k4, hh4, t4, _, r4⟩ := doActs_sends_J post hpost s3
  refine ⟨s4, l4, l1, s1.cfg.maskKey s1.keyCtr, ?_, ?_, ?_, ?_, a1, r4 hs3, ?_⟩
  · rw [doActs_append, bind_ok h1]
    show (doAct (.close code reason) >>= fun _ => doActs post) s1 = _
    rw [bind_ok h3]
    exact h4
  · have k13 : KC s1 s3 := ⟨rfl, rfl, rfl, rfl, rfl, rfl, rfl, rfl, rfl, rfl, rfl, rfl, rfl, fun _ => rfl⟩
    exact kc_po.trans (KC.of_keep k1 hh1) (kc_po.trans k13 (KC.of_keep k4 hh4))
  · rw [k4.closing]
  · rw [t4]
    show l4 ++ (.res .ok :: .wr _ :: s1.trace) = _
    rw [t1]
  · rintro ⟨a, post', e, ha⟩
    cases pre with
    | nil =>
      have e1 : s1 = s := by
        have : doActs [] s = .ok () s := rfl
        rw [this] at h1; cases h1; rfl
      subst e1
      have : [] ++ s1.trace = l1 ++ s1.trace := t1
      exact (List.append_cancel_right this).symm
    | cons x pre' =>
      simp only [List.cons_append, List.cons.injEq] at e
      have := hpre x List.mem_cons_self
      rw [e.1, ha] at this; cases this


/-! ### the shape of the trace -/

/-- configuration hypotheses shared by everything below: no write fault, `poll > 0`, `close()` is
    called with arguments it accepts, and (if at all) not before the `Connected` event -/
structure Par (kc : Option Nat) (code : Option Nat) (reason : Arg) (rb : Bytes) (cfg : Cfg) : Prop where
  nf : ∀ k, cfg.writeFails k = false
  poll : 0 < cfg.poll
  rbs : reasonBytes reason = some rb
  args : CloseArgsOk code rb
  k2 : ∀ K, kc = some K → 2 ≤ K

/-- **the trace (newest first) while the websocket is open**, since the upgrade request:
    events; every Ping event — when automatic pongs are on — directly preceded by the library's
    Pong frame for its payload; results of application calls, a frame handed to `sendall` directly
    before the result of the call that wrote it.  Nothing else: in particular the library writes
    exactly one Pong per Ping and nothing besides. -/
inductive PhaseA (auto : Bool) : List Obs → Prop
  | nil : PhaseA auto []
  | ev (e : Event) {t : List Obs} (h : ∀ d, e = .ping d → auto = false) : PhaseA auto t → PhaseA auto (.ev e :: t)
  | pong (d key : Bytes) {t : List Obs} (h : auto = true) :
      PhaseA auto t → PhaseA auto (.ev (.ping d) :: .wr (Pong.pongBytes d key) :: t)
  | res (r : ActRes) {t : List Obs} : PhaseA auto t → PhaseA auto (.res r :: t)
  | send (r : ActRes) (o : Obs) {t : List Obs} (h : o.isWrite = true) : PhaseA auto t → PhaseA auto (.res r :: o :: t)

theorem PhaseA.app {auto : Bool} {l A : List Obs} (hl : AppSeg l) (hA : PhaseA auto A) : PhaseA auto (l ++ A) := by
  induction hl with
  | nil => exact hA
  | res r _ ih => exact .res r ih
  | wr r o h _ ih => exact .send r o h ih

/-- **the trace after the client's Close**: nothing is handed to `sendall`, no call succeeds -/
def PhaseB (l : List Obs) : Prop := ∀ o ∈ l, o.isWrite = false ∧ o ≠ .res .ok

theorem PhaseB.nil : PhaseB [] := by intro o ho; cases ho

theorem PhaseB.append {a b : List Obs} (ha : PhaseB a) (hb : PhaseB b) : PhaseB (a ++ b) := by
  intro o ho
  rcases List.mem_append.mp ho with h | h
  · exact ha o h
  · exact hb o h

theorem PhaseB.cons {o : Obs} {b : List Obs} (h1 : o.isWrite = false) (h2 : o ≠ .res .ok) (hb : PhaseB b) :
    PhaseB (o :: b) := by
  intro o' ho'
  rcases List.mem_cons.mp ho' with rfl | h
  · exact ⟨h1, h2⟩
  · exact hb o' h

theorem Refused.phaseB {l : List Obs} (h : Refused l) : PhaseB l := by
  intro o ho
  obtain ⟨r, rfl, hr⟩ := h o ho
  exact ⟨rfl, fun e => hr (by cases e; rfl)⟩

theorem Refused.noEv {l : List Obs} (h : Refused l) : ∀ o ∈ l, Obs.isEv o = false := by
  intro o ho
  obtain ⟨r, rfl, _⟩ := h o ho
  rfl

/-- the trace of a connection up to and including the upgrade request: `Connecting`, the results of
    the calls the application made at that event (no socket yet: none of them writes), the request -/
def Tstart (cfg : Cfg) (l0 : List Obs) : List Obs := .wr cfg.request :: (l0 ++ [.ev .connecting])

section inv
variable (kc : Option Nat) (code : Option Nat) (reason : Arg) (rb : Bytes) (cfg : Cfg) (T0 : List Obs)

/-- frozen clock (as `E2E.I`, for the application class `AppK`): the socket is open unless the
    websocket is closed, the session clock reads 0, `_poll_start` is set (to 0) exactly when ready,
    and the history shown to the application is the list of events on the trace -/
structure Q (s : Sys) : Prop where
  app : AppK kc code reason s.react
  cfg : s.cfg = cfg
  sock : s.sockOpen = true ∨ s.closed = true
  nr : s.ready = false → s.startTime = none ∧ s.pollStart = none
  rd : s.ready = true → s.startTime = some s.now ∧ s.pollStart = some 0
  hi : s.hist = hist s.trace

/-- open: no `close()` yet; `slack = 1` in the state in which an event has just been handed over -/
def ShOpen (slack : Nat) (s : Sys) : Prop :=
  Open s ∧ (∀ K, kc = some K → s.hist.length < K + slack) ∧ ∃ A, s.trace = A ++ T0 ∧ PhaseA cfg.autoPong A ∧
    ((∀ h, h <:+ s.hist → h.length + slack ≤ s.hist.length → s.react h = []) → NoRes A)

/-- the application has closed, in its reaction to the K-th event -/
def ShShut (slack : Nat) (s : Sys) : Prop :=
  Shut s ∧ ∃ K B A key, kc = some K ∧ K + slack ≤ s.hist.length ∧
    s.trace = B ++ .res .ok :: .wr (closeFrame (buildClosePayload code rb) key) :: (A ++ T0) ∧
    PhaseB B ∧ PhaseA cfg.autoPong A ∧ (hist (A ++ T0)).length = K ∧
    ((∀ h, h <:+ s.hist → h.length < K → s.react h = []) →
      (∀ h, h <:+ s.hist → h.length = K → HeadNotSend (s.react h)) → NoRes A)

def Sh (slack : Nat) (s : Sys) : Prop := ShOpen kc cfg T0 slack s ∨ ShShut kc code rb cfg T0 slack s

variable {kc code reason rb cfg T0}

theorem Q.time0 {s : Sys} (h : Q kc code reason cfg s) : sessionTime s = 0 := by
  unfold sessionTime
  cases hr : s.ready with
  | false => rw [(h.nr hr).1]
  | true => rw [(h.rd hr).1]; simp

theorem Q.regular_id (hp : Par kc code reason rb cfg) {s : Sys} (h : Q kc code reason cfg s) :
    regular s = .ok () s := by
  cases hr : s.ready with
  | false => exact Timers.regular_not_ready s hr
  | true =>
    rw [Timers.regular_ready s hr]
    have hps := (h.rd hr).2
    have hq : checkPoll s = .ok () s :=
      Timers.checkPoll_quiet s 0 hps (by rw [h.time0, h.cfg]; exact hp.poll)
    rw [bind_ok hq]
    exact timers_quiet s h.time0

theorem Q.of_kc {s s' : Sys} (k : KC s s') (ht : hist s'.trace = hist s.trace) (h : Q kc code reason cfg s) :
    Q kc code reason cfg s' :=
  ⟨by rw [k.react]; exact h.app, k.cfg.trans h.cfg, by rw [k.sockOpen, k.closed]; exact h.sock,
   fun hr => by rw [k.startTime, k.pollStart]; exact h.nr (k.ready ▸ hr),
   fun hr => by rw [k.startTime, k.pollStart, k.now]; exact h.rd (k.ready ▸ hr),
   by rw [k.hist, ht]; exact h.hi⟩

theorem Q.push {s : Sys} (e : Event) (h : Q kc code reason cfg s) : Q kc code reason cfg (pushEv e s) :=
  ⟨h.app, h.cfg, h.sock, h.nr, h.rd, by show e :: s.hist = hist (.ev e :: s.trace); rw [hist_cons_ev, h.hi]⟩

/-- **the application's reaction to the event just handed over** (state `sp`): either it only sends
    (written while open, refused after the Close), or — open, the K-th event — it closes: the
    trace gets `refused ++ .res ok :: .wr (Close frame) :: sends`. -/
theorem acts_J (hp : Par kc code reason rb cfg) (sp : Sys) (happ : AppK kc code reason sp.react)
    (hcfg : sp.cfg = cfg) (hi : sp.hist = hist sp.trace) (hsh : Sh kc code rb cfg T0 1 sp) :
    ∃ s2, doActs (sp.react sp.hist) sp = .ok () s2 ∧ KC sp s2 ∧ hist s2.trace = hist sp.trace ∧
      Sh kc code rb cfg T0 0 s2 ∧ (Shut sp → Shut s2) := by
  rcases hsh with ⟨ho, hlt, A, hA, pA, nA⟩ | ⟨hs, K, B, A, key, hk, hle, hB, pB, pA, hKl, nA⟩
  · by_cases hkc : kc = some sp.hist.length
    · obtain ⟨s2, lpost, lpre, key, h, k, hcg, ht, apre, rpost, hpre0⟩ :=
        doActs_close_J code reason rb _ sp hp.rbs hp.args (happ.closes _ hkc) ho (by rw [hcfg]; exact hp.nf)
      have hh2 : hist s2.trace = hist sp.trace := by
        rw [ht, hist_append, hist_nonEv lpost rpost.noEv, hist_cons_nonEv _ _ rfl, hist_cons_nonEv _ _ rfl,
          hist_append, hist_nonEv lpre apre.noEv]
        rfl
      refine ⟨s2, h, k, hh2, Or.inr ⟨Or.inl hcg, sp.hist.length, lpost, lpre ++ A, key, hkc, ?_, ?_,
        rpost.phaseB, PhaseA.app apre pA, ?_, ?_⟩, fun _ => Or.inl hcg⟩
      · rw [k.hist]; exact Nat.le_refl _
      · rw [ht, hA, List.append_assoc]
      · rw [List.append_assoc, hist_append, hist_nonEv lpre apre.noEv, ← hA, ← hi]; rfl
      · intro hsil hhd
        rw [k.react, k.hist] at hsil hhd
        rw [hpre0 (hhd sp.hist List.suffix_rfl rfl), List.nil_append]
        exact nA (fun h hs hh => hsil h hs (by omega))
    · obtain ⟨s2, l, h, k, hh, ht, al, _⟩ := doActs_sends_J _ (happ.sends _ hkc) sp
      refine ⟨s2, h, KC.of_keep k hh, ?_, Or.inl ⟨k.opn ho, ?_, l ++ A, ?_, PhaseA.app al pA, ?_⟩, fun hs => k.shut hs⟩
      · rw [ht, hist_append, hist_nonEv l al.noEv]; rfl
      · intro K hK
        rw [hh]
        have h1 := hlt K hK
        have h2 : sp.hist.length ≠ K := fun e => hkc (by rw [hK, e])
        omega
      · rw [ht, hA, List.append_assoc]
      · intro hsil
        rw [k.react, hh] at hsil
        have hnil : sp.react sp.hist = [] := hsil sp.hist List.suffix_rfl (Nat.le_refl _)
        rw [hnil] at h
        have e1 : s2 = sp := by
          have : doActs [] sp = .ok () sp := rfl
          rw [this] at h; cases h; rfl
        subst e1
        have : [] ++ s2.trace = l ++ s2.trace := ht
        rw [← List.append_cancel_right this, List.nil_append]
        exact nA (fun h hs hh' => hsil h hs (by omega))
  · have hkc : kc ≠ some sp.hist.length := by
      rw [hk]; intro e
      have : K = sp.hist.length := by cases e; rfl
      omega
    obtain ⟨s2, l, h, k, hh, ht, al, rl⟩ := doActs_sends_J _ (happ.sends _ hkc) sp
    have rl' := rl hs
    refine ⟨s2, h, KC.of_keep k hh, ?_, Or.inr ⟨k.shut hs, K, l ++ B, A, key, hk, ?_, ?_,
      rl'.phaseB.append pB, pA, hKl, ?_⟩, fun hs => k.shut hs⟩
    · rw [ht, hist_append, hist_nonEv l al.noEv]; rfl
    · rw [hh]; omega
    · rw [ht, hB, List.append_assoc]
    · rw [k.react, hh]; exact nA

theorem NoRes.cons {o : Obs} {A : List Obs} (ho : ∀ r, o ≠ .res r) (h : NoRes A) : NoRes (o :: A) := by
  intro r hm
  rcases List.mem_cons.mp hm with e | hm
  · exact ho r e.symm
  · exact h r hm

/-- handing over an event that is not a Ping answered by the library -/
theorem sh_push_plain (e : Event) (s s1 : Sys) (ht : s1.trace = s.trace) (hh : s1.hist = s.hist)
    (h0 : s1.react = s.react) (h1 : s1.sockOpen = s.sockOpen) (h2 : s1.closing = s.closing) (h3 : s1.closed = s.closed)
    (hne : Open s → ∀ d, e = .ping d → cfg.autoPong = false) (hsh : Sh kc code rb cfg T0 0 s) :
    Sh kc code rb cfg T0 1 (pushEv e s1) := by
  rcases hsh with ⟨ho, hlt, A, hA, pA, nA⟩ | ⟨hs, K, B, A, key, hk, hle, hB, pB, pA, hKl, nA⟩
  · refine Or.inl ⟨?_, ?_, .ev e :: A, ?_, .ev e (hne ho) pA, ?_⟩
    · show s1.sockOpen = true ∧ s1.closing = false ∧ s1.closed = false
      rw [h1, h2, h3]; exact ho
    · intro K hK
      show (e :: s1.hist).length < K + 1
      rw [hh]; have := hlt K hK; simp only [List.length_cons]; omega
    · show .ev e :: s1.trace = _
      rw [ht, hA]; rfl
    · intro hsil
      refine NoRes.cons (fun r h => by cases h) (nA (fun h hs hl => ?_))
      have := hsil h (by show h <:+ e :: s1.hist; rw [hh]; exact hs.trans (List.suffix_cons e s.hist))
        (by show h.length + 1 ≤ (e :: s1.hist).length; rw [hh]; simp only [List.length_cons]; omega)
      rw [← h0]; exact this
  · refine Or.inr ⟨?_, K, .ev e :: B, A, key, hk, ?_, ?_, PhaseB.cons rfl (by intro h; cases h) pB, pA, hKl, ?_⟩
    · show s1.closing = true ∨ s1.closed = true
      rw [h2, h3]; exact hs
    · show K + 1 ≤ (e :: s1.hist).length
      rw [hh]; simp only [List.length_cons]; omega
    · show .ev e :: s1.trace = _
      rw [ht, hB]; rfl
    · intro hsil hhd
      refine nA (fun h hs hl => ?_) (fun h hs hl => ?_)
      · rw [← h0]
        exact hsil h (by show h <:+ e :: s1.hist; rw [hh]; exact hs.trans (List.suffix_cons e s.hist)) hl
      · rw [← h0]
        exact hhd h (by show h <:+ e :: s1.hist; rw [hh]; exact hs.trans (List.suffix_cons e s.hist)) hl

/-- handing over a Ping whose Pong the library has just written -/
theorem sh_push_pong (d key : Bytes) (s : Sys) (hap : cfg.autoPong = true) (ho : Open s)
    (hsh : Sh kc code rb cfg T0 0 s) :
    Sh kc code rb cfg T0 1 (pushEv (.ping d) (Pong.pongSent s (Pong.pongBytes d key))) := by
  rcases hsh with ⟨_, hlt, A, hA, pA, nA⟩ | ⟨hs, _⟩
  · refine Or.inl ⟨ho, ?_, .ev (.ping d) :: .wr (Pong.pongBytes d key) :: A, ?_, .pong d key hap pA, ?_⟩
    · intro K hK
      show (Event.ping d :: s.hist).length < K + 1
      have := hlt K hK; simp only [List.length_cons]; omega
    · show Obs.ev (.ping d) :: .wr (Pong.pongBytes d key) :: s.trace = _
      rw [hA]; rfl
    · intro hsil
      refine NoRes.cons (fun r h => by cases h) (NoRes.cons (fun r h => by cases h) (nA (fun h hs hl => ?_)))
      exact hsil h (hs.trans (List.suffix_cons _ s.hist))
        (by show h.length + 1 ≤ (Event.ping d :: s.hist).length; simp only [List.length_cons]; omega)
  · exfalso
    obtain ⟨_, h2, h3⟩ := ho
    rcases hs with h | h
    · rw [h2] at h; cases h
    · rw [h3] at h; cases h

/-- **`_on_event`** for a message event, from an invariant state: at most the automatic Pong -/
theorem onEvent_J (hp : Par kc code reason rb cfg) (e : Event) (hd : Deliverable e) (s : Sys)
    (hq : Q kc code reason cfg s) (hsh : Sh kc code rb cfg T0 0 s) :
    ∃ s1, onEvent e s = .ok () s1 ∧ KC s s1 ∧ hist s1.trace = hist s.trace ∧
      Sh kc code rb cfg T0 1 (pushEv e s1) ∧ (Shut s → Shut s1) := by
  have plain : ∀ (hne : Open s → ∀ d, e = .ping d → cfg.autoPong = false), onEvent e s = .ok () s →
      ∃ s1, onEvent e s = .ok () s1 ∧ KC s s1 ∧ hist s1.trace = hist s.trace ∧
        Sh kc code rb cfg T0 1 (pushEv e s1) ∧ (Shut s → Shut s1) :=
    fun hne h => ⟨s, h, kc_po.refl s, rfl, sh_push_plain e s s rfl rfl rfl rfl rfl rfl hne hsh, id⟩
  cases e with
  | ping d =>
    have hlen : d.length ≤ 125 := hd
    by_cases hap : s.cfg.autoPong = true
    · rcases hsh with ho | hs
      · obtain ⟨h1, h2, h3⟩ := ho.1
        have hw : s.cfg.writeFails s.writeCtr = false := by rw [hq.cfg]; exact hp.nf _
        refine ⟨_, Pong.onEvent_ping_sent d s hap hlen h1 h2 h3 hw, ?_, ?_, ?_, fun hs => hs⟩
        · exact ⟨rfl, rfl, rfl, rfl, rfl, rfl, rfl, rfl, rfl, rfl, rfl, rfl, rfl, id⟩
        · exact hist_cons_nonEv _ _ rfl
        · exact sh_push_pong d _ s (by rw [← hq.cfg]; exact hap) ho.1 (Or.inl ho)
      · have hun : s.sockOpen = false ∨ s.closing = true ∨ s.closed = true := Or.inr hs.1
        refine ⟨_, Pong.onEvent_ping_skipped d s hap hlen hun, ?_, rfl, ?_, fun h => h⟩
        · exact ⟨rfl, rfl, rfl, rfl, rfl, rfl, rfl, rfl, rfl, rfl, rfl, rfl, rfl, id⟩
        · refine sh_push_plain (.ping d) s (Pong.pongSkipped s) rfl rfl rfl rfl rfl rfl ?_ (Or.inr hs)
          intro ho
          exfalso
          obtain ⟨_, h2, h3⟩ := ho
          rcases hs.1 with h | h
          · rw [h2] at h; cases h
          · rw [h3] at h; cases h
    · have hap' : s.cfg.autoPong = false := by simpa using hap
      exact plain (fun _ _ _ => by rw [← hq.cfg]; exact hap') (Pong.onEvent_ping_disabled d s hap')
  | pong d =>
    refine ⟨{ s with lastPong := sessionTime s }, rfl, ?_, rfl, ?_, fun h => h⟩
    · exact ⟨rfl, rfl, rfl, rfl, rfl, rfl, rfl, rfl, rfl, rfl, rfl, rfl, rfl, id⟩
    · exact sh_push_plain (.pong d) s _ rfl rfl rfl rfl rfl rfl (fun _ d' h => by cases h) hsh
  | text t => exact plain (fun _ d' h => by cases h) rfl
  | binary t => exact plain (fun _ d' h => by cases h) rfl
  | closing c r => exact plain (fun _ d' h => by cases h) rfl
  | closed c r => exact plain (fun _ d' h => by cases h) rfl
  | _ => exact (hd : False).elim

theorem kc_push {s s1 : Sys} (e : Event) (k : KC s s1) : KC (pushEv e s) (pushEv e s1) :=
  ⟨k.cfg, k.react, k.env, k.sockOpen, k.selOpen, k.closed, k.ready, k.startTime, k.now, k.pollStart, k.p,
   k.frames, by show e :: s1.hist = e :: s.hist; rw [k.hist], k.closing⟩

/-- **a `yield` of a message event inside `WebSocket.feed`** (ready, frozen clock), as a whole:
    `_on_event`, the hand-over, the application's reaction (sends and/or the `close()`),
    `_regular()` (which has nothing to do): returns normally, adds exactly this event, keeps the
    invariant -/
theorem feedYield_msg_J (hp : Par kc code reason rb cfg) (b : Bool) (e : Event) (hd : Deliverable e) (s : Sys)
    (hq : Q kc code reason cfg s) (hsh : Sh kc code rb cfg T0 0 s) :
    ∃ s', feedYield b e s = .ok () s' ∧ KC (pushEv e s) s' ∧ hist s'.trace = e :: hist s.trace ∧
      Q kc code reason cfg s' ∧ Sh kc code rb cfg T0 0 s' ∧ (Shut s → Shut s') := by
  obtain ⟨s1, h1, k1, t1, sh1, m1⟩ := onEvent_J hp e hd s hq hsh
  have q1 : Q kc code reason cfg s1 := hq.of_kc k1 t1
  obtain ⟨s2, h2, k2, t2, sh2, m2⟩ := acts_J hp (pushEv e s1) q1.app q1.cfg (q1.push e).hi sh1
  have q2 : Q kc code reason cfg s2 := (q1.push e).of_kc k2 t2
  have hy : yieldEv e s1 = .ok () s2 := h2
  refine ⟨s2, ?_, kc_po.trans (kc_push e k1) k2, ?_, q2, sh2, fun hs => m2 (m1 hs)⟩
  · unfold feedYield
    apply tryC_ok
    rw [bind_ok h1, bind_ok hy]
    exact q2.regular_id hp
  · rw [t2]
    show hist (.ev e :: s1.trace) = _
    rw [hist_cons_ev, t1]

/-- **Ready**: `_on_ready` starts the session clock, the application sees Ready and reacts, the
    first Poll follows at once, the application reacts to it; nothing else happens -/
theorem feedYield_ready_J (hp : Par kc code reason rb cfg) (b : Bool) (a : Option Http.Str) (c : Bool) (s : Sys)
    (hq : Q kc code reason cfg s) (hsh : Sh kc code rb cfg T0 0 s) (hr : s.ready = false) :
    ∃ s', feedYield b (.ready a c) s = .ok () s' ∧ Q kc code reason cfg s' ∧ Sh kc code rb cfg T0 0 s' ∧
      s'.ready = true ∧ hist s'.trace = .poll :: .ready a c :: hist s.trace ∧
      s'.cfg = s.cfg ∧ s'.react = s.react ∧ s'.sockOpen = s.sockOpen ∧ s'.selOpen = s.selOpen ∧
      s'.closed = s.closed ∧ s'.p = s.p ∧ s'.frames = s.frames ∧ (Shut s → Shut s') := by
  let s1 : Sys := Timers.readyState s
  have h1 : onEvent (.ready a c) s = .ok () s1 := Timers.onEvent_ready a c s
  have hi1 : (pushEv (.ready a c) s1).hist = hist (pushEv (.ready a c) s1).trace := by
    show Event.ready a c :: s.hist = hist (.ev (.ready a c) :: s.trace)
    rw [hist_cons_ev, hq.hi]
  have sh1 : Sh kc code rb cfg T0 1 (pushEv (.ready a c) s1) :=
    sh_push_plain (.ready a c) s s1 rfl rfl rfl rfl rfl rfl (fun _ d h => by cases h) hsh
  obtain ⟨s2, h2, k2, t2, sh2, m2⟩ := acts_J hp (pushEv (.ready a c) s1) hq.app hq.cfg hi1 sh1
  have hy : yieldEv (.ready a c) s1 = .ok () s2 := h2
  have hr2 : s2.ready = true := k2.ready
  have hps2 : s2.pollStart = none := k2.pollStart.trans (hq.nr hr).2
  have hst2 : s2.startTime = some s2.now := by rw [k2.startTime, k2.now]; rfl
  have ht2 : sessionTime s2 = 0 := by unfold sessionTime; rw [hst2]; simp
  have hf : checkPoll s2 = yieldEv .poll (Timers.pollMark s2) := Timers.checkPoll_fires s2 (Or.inl hps2)
  have hi2 : s2.hist = hist s2.trace := by rw [k2.hist, t2]; exact hi1
  have hi3 : (pushEv .poll (Timers.pollMark s2)).hist = hist (pushEv .poll (Timers.pollMark s2)).trace := by
    show Event.poll :: s2.hist = hist (.ev .poll :: s2.trace)
    rw [hist_cons_ev, hi2]
  have sh3 : Sh kc code rb cfg T0 1 (pushEv .poll (Timers.pollMark s2)) :=
    sh_push_plain .poll s2 (Timers.pollMark s2) rfl rfl rfl rfl rfl rfl (fun _ d h => by cases h) sh2
  have app2 : AppK kc code reason s2.react := by rw [k2.react]; exact hq.app
  have cfg2 : s2.cfg = cfg := k2.cfg.trans hq.cfg
  obtain ⟨s3, h3, k3, t3, sh4, m3⟩ := acts_J hp (pushEv .poll (Timers.pollMark s2)) app2 cfg2 hi3 sh3
  have hy3 : yieldEv .poll (Timers.pollMark s2) = .ok () s3 := h3
  have hr3 : s3.ready = true := k3.ready.trans hr2
  have hst3 : s3.startTime = some s3.now := by rw [k3.startTime, k3.now]; exact hst2
  have ht3 : sessionTime s3 = 0 := by unfold sessionTime; rw [hst3]; simp
  have hps3 : s3.pollStart = some 0 := by
    rw [k3.pollStart]; show some (sessionTime s2) = some 0; rw [ht2]
  have q3 : Q kc code reason cfg s3 := by
    refine ⟨by rw [k3.react]; exact app2, k3.cfg.trans cfg2, ?_, fun h => ?_, fun _ => ⟨hst3, hps3⟩, ?_⟩
    · rw [k3.sockOpen, k3.closed]
      show s2.sockOpen = true ∨ s2.closed = true
      rw [k2.sockOpen, k2.closed]; exact hq.sock
    · rw [hr3] at h; cases h
    · rw [k3.hist, t3]; exact hi3
  refine ⟨s3, ?_, q3, sh4, hr3, ?_, k3.cfg.trans k2.cfg, k3.react.trans k2.react, k3.sockOpen.trans k2.sockOpen,
    k3.selOpen.trans k2.selOpen, k3.closed.trans k2.closed, k3.p.trans k2.p, k3.frames.trans k2.frames,
    fun hs => m3 (m2 hs)⟩
  · unfold feedYield
    apply tryC_ok
    rw [bind_ok h1, bind_ok hy, Timers.regular_ready s2 hr2, bind_ok (hf.trans hy3)]
    exact timers_quiet s3 ht3
  · rw [t3]
    show hist (.ev .poll :: s2.trace) = _
    rw [hist_cons_ev, t2]
    show _ :: hist (.ev (.ready a c) :: s.trace) = _
    rw [hist_cons_ev]


/-! ### the consumer half of C01 (`Delivery.lean`), for this application class

  `Eats` of Proofs/Delivery.lean is stated for applications that never close (`Good`); the same
  composition with the invariant `G` in place of `Good`. -/

theorem Q.congr {s s' : Sys} (h1 : s'.react = s.react) (h2 : s'.cfg = s.cfg) (h3 : s'.sockOpen = s.sockOpen)
    (h4 : s'.closed = s.closed) (h5 : s'.ready = s.ready) (h6 : s'.startTime = s.startTime)
    (h7 : s'.pollStart = s.pollStart) (h8 : s'.now = s.now) (h9 : s'.hist = s.hist) (h10 : s'.trace = s.trace)
    (h : Q kc code reason cfg s) : Q kc code reason cfg s' :=
  ⟨by rw [h1]; exact h.app, h2.trans h.cfg, by rw [h3, h4]; exact h.sock,
   fun hr => by rw [h6, h7]; exact h.nr (h5 ▸ hr), fun hr => by rw [h6, h7, h8]; exact h.rd (h5 ▸ hr),
   by rw [h9, h10]; exact h.hi⟩

theorem Sh.congr {s s' : Sys} {slack : Nat} (h0 : s'.react = s.react) (h1 : s'.sockOpen = s.sockOpen)
    (h2 : s'.closing = s.closing)
    (h3 : s'.closed = s.closed) (h4 : s'.hist = s.hist) (h5 : s'.trace = s.trace)
    (h : Sh kc code rb cfg T0 slack s) : Sh kc code rb cfg T0 slack s' := by
  rcases h with ⟨ho, hlt, A, hA, pA, nA⟩ | ⟨hs, K, B, A, key, hk, hle, hB, pB, pA, hKl, nA⟩
  · refine Or.inl ⟨?_, fun K hK => by rw [h4]; exact hlt K hK, A, by rw [h5]; exact hA, pA, ?_⟩
    · show s'.sockOpen = true ∧ s'.closing = false ∧ s'.closed = false
      rw [h1, h2, h3]; exact ho
    · rw [h0, h4]; exact nA
  · refine Or.inr ⟨?_, K, B, A, key, hk, by rw [h4]; exact hle, by rw [h5]; exact hB, pB, pA, hKl, ?_⟩
    · show s'.closing = true ∨ s'.closed = true
      rw [h2, h3]; exact hs
    · rw [h0, h4]; exact nA

variable (kc code reason rb cfg T0) in
/-- the invariant between two messages: frozen clock, ready, shape of the trace -/
structure G (s : Sys) : Prop where
  q : Q kc code reason cfg s
  sh : Sh kc code rb cfg T0 0 s
  ready : s.ready = true

theorem G.congr {s : Sys} (h : G kc code reason rb cfg T0 s) (s' : Sys)
    (h1 : s'.react = s.react) (h2 : s'.cfg = s.cfg) (h3 : s'.sockOpen = s.sockOpen)
    (h4 : s'.closed = s.closed) (h5 : s'.ready = s.ready) (h6 : s'.startTime = s.startTime)
    (h7 : s'.pollStart = s.pollStart) (h8 : s'.now = s.now) (h9 : s'.hist = s.hist) (h10 : s'.trace = s.trace)
    (h11 : s'.closing = s.closing) : G kc code reason rb cfg T0 s' :=
  ⟨h.q.congr h1 h2 h3 h4 h5 h6 h7 h8 h9 h10, h.sh.congr h1 h3 h11 h4 h9 h10, h5.trans h.ready⟩

variable (kc code reason rb cfg T0) in
/-- what handling one or more frames guarantees: `es` are all the events it yields (newest first) -/
structure RelJ (es : List Event) (s s' : Sys) : Prop where
  cfgE : s'.cfg = s.cfg
  reactE : s'.react = s.react
  closed : s'.closed = s.closed
  g : G kc code reason rb cfg T0 s'
  evs : hist s'.trace = es ++ hist s.trace
  shut : Shut s → Shut s'

theorem RelJ.refl {s : Sys} (g : G kc code reason rb cfg T0 s) : RelJ kc code reason rb cfg T0 [] s s :=
  ⟨rfl, rfl, rfl, g, rfl, id⟩

theorem RelJ.trans {e1 e2 : List Event} {a b c : Sys} (h1 : RelJ kc code reason rb cfg T0 e1 a b)
    (h2 : RelJ kc code reason rb cfg T0 e2 b c) : RelJ kc code reason rb cfg T0 (e2 ++ e1) a c :=
  ⟨h2.cfgE.trans h1.cfgE, h2.reactE.trans h1.reactE, h2.closed.trans h1.closed, h2.g,
   by rw [h2.evs, h1.evs, List.append_assoc], fun h => h2.shut (h1.shut h)⟩

variable (kc code reason rb cfg T0) in
def EatsJ (fs : List Frame) (es : List Event) (fr fr' : List Frame) : Prop :=
  ∀ (pouts : List (PState × Out)), pouts.map (·.2) = fs.map Out.frame →
    ∀ (fin : Sys → Res Bool) (more : List (PState × Out)) (s : Sys),
      G kc code reason rb cfg T0 s → s.closed = false → s.frames = fr →
      ∃ s', consume fin (pouts ++ more) s = consume fin more s' ∧ RelJ kc code reason rb cfg T0 es s s' ∧
        s'.frames = fr'

theorem eatsJ_nil (fr : List Frame) : EatsJ kc code reason rb cfg T0 [] [] fr fr := by
  intro pouts hm fin more s g hc hf
  have : pouts = [] := by simpa using hm
  subst this
  exact ⟨s, rfl, RelJ.refl g, hf⟩

theorem eatsJ_append {a b : List Frame} {e1 e2 : List Event} {f0 f1 f2 : List Frame}
    (h1 : EatsJ kc code reason rb cfg T0 a e1 f0 f1) (h2 : EatsJ kc code reason rb cfg T0 b e2 f1 f2) :
    EatsJ kc code reason rb cfg T0 (a ++ b) (e2 ++ e1) f0 f2 := by
  intro pouts hm fin more s g hc hf
  rw [List.map_append] at hm
  obtain ⟨o1, o2, rfl, m1, m2⟩ := List.map_eq_append_iff.mp hm
  obtain ⟨s1, c1, r1, f1'⟩ := h1 o1 m1 fin (o2 ++ more) s g hc hf
  obtain ⟨s2, c2, r2, f2'⟩ := h2 o2 m2 fin more s1 r1.g (by rw [r1.closed]; exact hc) f1'
  exact ⟨s2, by rw [List.append_assoc, c1, c2], r1.trans r2, f2'⟩

theorem eatsJ_one {f : Frame} {es : List Event} {fr fr' : List Frame}
    (h : ∀ (s : Sys), G kc code reason rb cfg T0 s → s.closed = false → s.frames = fr →
        ∃ s', onOut (.frame f) s = .ok true s' ∧ RelJ kc code reason rb cfg T0 es s s' ∧ s'.frames = fr') :
    EatsJ kc code reason rb cfg T0 [f] es fr fr' := by
  intro pouts hm fin more s g hc hf
  obtain ⟨x, rest, rfl, hx, hr⟩ := List.map_eq_cons_iff.mp hm
  have : rest = [] := by simpa using hr
  subst this
  obtain ⟨p1, o⟩ := x
  simp only at hx
  subst hx
  obtain ⟨s', e, r, f'⟩ := h { s with p := p1 } (g.congr _ rfl rfl rfl rfl rfl rfl rfl rfl rfl rfl rfl) hc hf
  refine ⟨s', ?_, ⟨r.cfgE, r.reactE, r.closed, r.g, r.evs, r.shut⟩, f'⟩
  show consume fin ((p1, Out.frame f) :: more) s = _
  simp only [consume]
  rw [e]

/-- a Ping / Pong frame (any time, also between the fragments of a message) -/
theorem onOut_ctrl_J (hp : Par kc code reason rb cfg) (f : Frame) (s : Sys) (g : G kc code reason rb cfg T0 s)
    (hc : s.closed = false) (h1 : f.rsv1 = 0) (hop : f.opcode = 9 ∨ f.opcode = 10) (hl : f.payload.length ≤ 125) :
    ∃ s', onOut (.frame f) s = .ok true s' ∧
      RelJ kc code reason rb cfg T0 [if f.opcode = 9 then .ping f.payload else .pong f.payload] s s' ∧
      s'.frames = s.frames := by
  have hctl : f.isControl = true := by
    unfold Frame.isControl; rcases hop with h | h <;> simp [h]
  have hb : buildMessage [f] s =
      .ok (if f.opcode = 9 then .ping f.payload else .pong f.payload) s := by
    rw [buildMessage_plain f [] s h1]
    rcases hop with h | h <;>
      simp [h, msgOfPayload, liftE, Gen.opBinary, Gen.opText, Gen.opClose, Gen.opPing, Gen.opPong]
  have hm : ∃ s', onMessage (if f.opcode = 9 then Msg.ping f.payload else Msg.pong f.payload) s = .ok () s' ∧
      RelJ kc code reason rb cfg T0 [if f.opcode = 9 then .ping f.payload else .pong f.payload] s s' ∧
      s'.frames = s.frames := by
    rcases hop with h | h
    · simp only [h, if_true]
      obtain ⟨s', e, k, t, q', sh', m⟩ := feedYield_msg_J hp true (.ping f.payload) hl s g.q g.sh
      exact ⟨s', e, ⟨k.cfg, k.react, k.closed, ⟨q', sh', k.ready.trans g.ready⟩, t, m⟩, k.frames⟩
    · have : ¬ f.opcode = 9 := by omega
      simp only [this, if_false]
      obtain ⟨s', e, k, t, q', sh', m⟩ := feedYield_msg_J hp true (.pong f.payload) trivial s g.q g.sh
      exact ⟨s', e, ⟨k.cfg, k.react, k.closed, ⟨q', sh', k.ready.trans g.ready⟩, t, m⟩, k.frames⟩
  obtain ⟨s', h2, c, hf'⟩ := hm
  refine ⟨s', ?_, c, hf'⟩
  show (do onFrame f; notClosed : M Bool) s = _
  have hf : onFrame f s = .ok () s' := by
    unfold onFrame
    simp only [hctl, if_true]
    rw [bind_ok hb]
    exact h2
  rw [bind_ok hf, notClosed_eq, c.closed, hc]
  rfl

/-- the FIN data frame completes the message -/
theorem onOut_data_fin_J (hp : Par kc code reason rb cfg) (f : Frame) (s : Sys) (g : G kc code reason rb cfg T0 s)
    (hc : s.closed = false) (hfin : f.fin ≠ 0)
    (hctl : f.isControl = false) (hcont : f.isContinuation = true ↔ s.frames ≠ [])
    (first : Frame) (tl : List Frame) (hfr : s.frames ++ [f] = first :: tl) (h1 : first.rsv1 = 0)
    (m : Msg) (hm : msgOfPayload first.opcode ((first :: tl).map (·.payload)).flatten = .ok m)
    (e : Event) (he : onMessage m = feedYield true e) (hd : Deliverable e) :
    ∃ s', onOut (.frame f) s = .ok true s' ∧ RelJ kc code reason rb cfg T0 [e] s s' ∧ s'.frames = [] := by
  have g0 : G kc code reason rb cfg T0 { s with frames := s.frames ++ [f] } :=
    g.congr _ rfl rfl rfl rfl rfl rfl rfl rfl rfl rfl rfl
  obtain ⟨s1, h2, k, t, q', sh', ms⟩ := feedYield_msg_J hp true e hd _ g0.q g0.sh
  have g1 : G kc code reason rb cfg T0 s1 := ⟨q', sh', k.ready.trans g.ready⟩
  refine ⟨{ s1 with frames := [] }, ?_, ⟨k.cfg, k.react, k.closed,
    g1.congr _ rfl rfl rfl rfl rfl rfl rfl rfl rfl rfl rfl, t, ms⟩, rfl⟩
  show (do onFrame f; notClosed : M Bool) s = _
  have hf : onFrame f s = .ok () { s1 with frames := [] } := by
    unfold onFrame
    simp only [hctl, Bool.false_eq_true, if_false]
    unfold onDataFrame
    rw [bind_ok (show getS s = .ok s s from rfl)]
    have c1 : ¬ (f.isContinuation = true ∧ s.frames = []) := by
      intro h; exact (hcont.mp h.1) h.2
    have c2 : ¬ (¬ f.isContinuation = true ∧ s.frames ≠ []) := by
      intro h; exact h.1 (hcont.mpr h.2)
    simp only [c1, c2, if_false]
    rw [bind_ok (show modS (fun s => { s with frames := s.frames ++ [f] }) s
      = .ok () { s with frames := s.frames ++ [f] } from rfl)]
    simp only [hfin, ne_eq, not_false_eq_true, if_true]
    rw [bind_ok (show getS { s with frames := s.frames ++ [f] } = .ok _ _ from rfl)]
    have hb : buildMessage ({ s with frames := s.frames ++ [f] } : Sys).frames { s with frames := s.frames ++ [f] }
        = .ok m { s with frames := s.frames ++ [f] } := by
      show buildMessage (s.frames ++ [f]) _ = _
      rw [hfr, buildMessage_plain first tl _ h1, hm]
      rfl
    rw [bind_ok hb, he, bind_ok h2]
    rfl
  rw [bind_ok hf, notClosed_eq]
  show Res.ok (!s1.closed) _ = _
  have : s1.closed = false := by rw [k.closed]; exact hc
  rw [this]
  rfl

theorem eatsJ_ctrl (hp : Par kc code reason rb cfg) (c : CtrlF) (hc : c.Ok) (fr : List Frame) :
    EatsJ kc code reason rb cfg T0 [c.wire.frame] [c.event] fr fr := by
  apply eatsJ_one
  intro s g hcl hf
  have hop : c.wire.frame.opcode = 9 ∨ c.wire.frame.opcode = 10 := c.wire_op
  obtain ⟨s', e, cm, hfr⟩ := onOut_ctrl_J hp c.wire.frame s g hcl rfl hop hc.2
  have hev : (if c.wire.frame.opcode = 9 then Event.ping c.wire.frame.payload
              else Event.pong c.wire.frame.payload) = c.event := by
    unfold CtrlF.event CtrlF.wire WFrame.frame
    cases c.pong <;> simp
  rw [hev] at cm
  exact ⟨s', e, cm, hfr.trans hf⟩

theorem eatsJ_ctrls (hp : Par kc code reason rb cfg) (cs : List CtrlF) (hc : ∀ c ∈ cs, c.Ok) (fr : List Frame) :
    EatsJ kc code reason rb cfg T0 (cs.map (WFrame.frame ∘ CtrlF.wire)) (cs.map CtrlF.event).reverse fr fr := by
  induction cs with
  | nil => exact eatsJ_nil fr
  | cons c r ih =>
    have h1 := eatsJ_ctrl (T0 := T0) hp c (hc c (by simp)) fr
    have h2 := ih (fun x hx => hc x (by simp [hx]))
    have := eatsJ_append h1 h2
    simpa using this

theorem eatsJ_more (f : Frame) (fr : List Frame) (hfin : f.fin = 0) (hctl : f.isControl = false)
    (hcont : f.isContinuation = true ↔ fr ≠ []) :
    EatsJ kc code reason rb cfg T0 [f] [] fr (fr ++ [f]) := by
  apply eatsJ_one
  intro s gd hcl hf
  refine ⟨_, onOut_data_more _ s hcl hfin hctl (by rw [hf]; exact hcont),
    ⟨rfl, rfl, rfl, gd.congr _ rfl rfl rfl rfl rfl rfl rfl rfl rfl rfl rfl, rfl, id⟩, ?_⟩
  simp [hf]

/-- the continuation frames of a message whose earlier fragments are `first :: tl` -/
theorem eatsJ_cont (hp : Par kc code reason rb cfg) (r : List (List CtrlF × Frag)) (hr : r ≠ []) (hok : contOk r)
    (first : Frame) (tl : List Frame) (h1 : first.rsv1 = 0)
    (msg : Msg) (e : Event)
    (hm : msgOfPayload first.opcode (((first :: tl).map (·.payload)).flatten ++ contPayload r) = .ok msg)
    (he : onMessage msg = feedYield true e) (hd : Deliverable e) :
    EatsJ kc code reason rb cfg T0 ((contWire r).map WFrame.frame)
      (e :: ((contCtrls r).map CtrlF.event).reverse) (first :: tl) [] := by
  induction r generalizing tl with
  | nil => exact (hr rfl).elim
  | cons x r ih =>
    obtain ⟨cs, g⟩ := x
    have hx := hok (cs, g) (by simp)
    have hcs := eatsJ_ctrls (T0 := T0) hp cs hx.1 (first :: tl)
    cases r with
    | nil =>
      have hlast : EatsJ kc code reason rb cfg T0
          [({ fin := true, opcode := 0, payload := g.payload, form := g.form } : WFrame).frame]
          [e] (first :: tl) [] := by
        apply eatsJ_one
        intro s gd hcl hf
        refine onOut_data_fin_J hp _ s gd hcl (by simp [WFrame.frame]) rfl
          (by rw [hf]; simp [Frame.isContinuation, WFrame.frame, Gen.opContinuation])
          first (tl ++ [_]) (by rw [hf]; rfl) h1 msg ?_ e he hd
        simpa [contPayload, WFrame.frame] using hm
      have := eatsJ_append hcs hlast
      simpa [contWire, contCtrls] using this
    | cons y r' =>
      have hmore : EatsJ kc code reason rb cfg T0
          [({ fin := false, opcode := 0, payload := g.payload, form := g.form } : WFrame).frame]
          [] (first :: tl)
          (first :: (tl ++ [({ fin := false, opcode := 0, payload := g.payload, form := g.form } : WFrame).frame])) :=
        eatsJ_more _ _ (by simp [WFrame.frame]) rfl
          (by simp [Frame.isContinuation, WFrame.frame, Gen.opContinuation])
      have hrest := ih (by simp) (fun z hz => hok z (by simp [hz]))
        (tl ++ [({ fin := false, opcode := 0, payload := g.payload, form := g.form } : WFrame).frame])
        (by simpa [contPayload, WFrame.frame] using hm)
      have := eatsJ_append hcs (eatsJ_append hmore hrest)
      simpa [contWire, contCtrls] using this

/-- **Reassembly** for this application class -/
theorem eatsJ_data (hp : Par kc code reason rb cfg) (m : DataMsg) (hm : m.Ok) :
    EatsJ kc code reason rb cfg T0 (m.wire.map WFrame.frame) m.events.reverse [] [] := by
  obtain ⟨msg, hmsg, he, hd⟩ := msg_of_data m hm
  have hop : ∀ b, (m.firstW b).frame.opcode = if m.text then 1 else 2 := fun _ => rfl
  have hpl : ∀ b, (m.firstW b).frame.payload = m.first.payload := fun _ => rfl
  have hctl : ∀ b, (m.firstW b).frame.isControl = false := by
    intro b; unfold DataMsg.firstW; cases m.text <;> simp [Frame.isControl, WFrame.frame]
  have hcont : ∀ b, (m.firstW b).frame.isContinuation = false := by
    intro b; unfold DataMsg.firstW
    cases m.text <;> simp [Frame.isContinuation, WFrame.frame, Gen.opContinuation]
  rw [m.wire_eq]
  cases hr : m.rest with
  | nil =>
    have hpay : m.payload = m.first.payload := by simp [DataMsg.payload, hr, contPayload]
    have : EatsJ kc code reason rb cfg T0 [(m.firstW true).frame] [m.event] [] [] := by
      apply eatsJ_one
      intro s gd hcl hf
      refine onOut_data_fin_J hp _ s gd hcl (by simp [WFrame.frame, DataMsg.firstW]) (hctl true)
        (by rw [hf, hcont true]; simp) _ [] (by rw [hf]; rfl) rfl msg ?_ m.event he hd
      rw [hpay] at hmsg
      simpa [hop, hpl] using hmsg
    simpa [DataMsg.events, hr, contWire, contCtrls] using this
  | cons y r' =>
    have h1 : EatsJ kc code reason rb cfg T0 [(m.firstW false).frame] [] [] [(m.firstW false).frame] :=
      eatsJ_more _ _ (by simp [WFrame.frame, DataMsg.firstW]) (hctl false) (by rw [hcont false]; simp)
    have h2 := eatsJ_cont (T0 := T0) hp (y :: r') (by simp) (hr ▸ hm.2.1) (m.firstW false).frame [] rfl msg m.event
      (by simpa [DataMsg.payload, hr, hop, hpl] using hmsg) he hd
    have := eatsJ_append h1 h2
    simpa [DataMsg.events, hr] using this

theorem eatsJ_items (hp : Par kc code reason rb cfg) (items : List Item) (hok : ∀ it ∈ items, it.Ok) :
    EatsJ kc code reason rb cfg T0 ((items.flatMap Item.wire).map WFrame.frame)
      (items.flatMap Item.events).reverse [] [] := by
  induction items with
  | nil => exact eatsJ_nil []
  | cons it r ih =>
    have h1 : EatsJ kc code reason rb cfg T0 (it.wire.map WFrame.frame) it.events.reverse [] [] := by
      have hi := hok it (by simp)
      cases it with
      | ctrl c => exact eatsJ_ctrl hp c hi []
      | data m => exact eatsJ_data hp m hi
    have h2 := ih (fun x hx => hok x (by simp [hx]))
    have := eatsJ_append h1 h2
    simpa [List.flatMap_cons] using this

/-- **Delivery, items**, for this application class: every message of a conforming prefix is
    delivered once, in order — whether it arrives before, while or after the application closes —
    and the invariant holds afterwards -/
theorem feed_items_J (hp : Par kc code reason rb cfg) (items : List Item) (hok : ∀ it ∈ items, it.Ok) (s : Sys)
    (g : G kc code reason rb cfg T0 s) (hcl : s.closed = false) (hfr : s.frames = []) (hb : Between s.p) :
    ∃ s', feedLoop (wireBytes (items.flatMap Item.wire)) s = .ok true s' ∧
      RelJ kc code reason rb cfg T0 (items.flatMap Item.events).reverse s s' ∧ s'.frames = [] ∧ Between s'.p := by
  have hc : s.p.cont ≠ .header := by rw [hb.b.cont]; simp
  obtain ⟨p', hpar, hb'⟩ := parses_items s.cfg.v items s.p hb hok
  obtain ⟨pouts, m, e⟩ := feedLoop_of_parses _ s p' hc hpar
  have m' : pouts.map (·.2) = ((items.flatMap Item.wire).map WFrame.frame).map Out.frame := by
    rw [m, List.map_map]; rfl
  obtain ⟨s1, e1, r1, f1⟩ := eatsJ_items (T0 := T0) hp items hok pouts m' (finOk p') [] s g hcl hfr
  rw [List.append_nil] at e1
  refine ⟨{ s1 with p := p' }, ?_, ⟨r1.cfgE, r1.reactE, r1.closed,
    r1.g.congr _ rfl rfl rfl rfl rfl rfl rfl rfl rfl rfl rfl, r1.evs, r1.shut⟩, f1, hb'⟩
  rw [e, e1]
  rfl


/-! ### the server's Close frame -/

theorem validCode_of_ok (c : CloseF) (hc : c.Ok) : ValidCode c.code := by
  intro k hk
  unfold CloseF.code at hk
  cases hbody : c.body with
  | none => rw [hbody] at hk; cases hk
  | some x =>
    obtain ⟨code', rb'⟩ := x
    rw [hbody] at hk
    simp only [Option.map_some, Option.some.injEq] at hk
    subst hk
    exact (hc.2.2 code' rb' hbody).2.1

theorem codeFits_of_ok (c : CloseF) (hc : c.Ok) : ∀ k, c.code = some k → k < 65536 := by
  intro k hk
  unfold CloseF.code at hk
  cases hbody : c.body with
  | none => rw [hbody] at hk; cases hk
  | some x =>
    obtain ⟨code', rb'⟩ := x
    rw [hbody] at hk
    simp only [Option.map_some, Option.some.injEq] at hk
    subst hk
    exact (hc.2.2 code' rb' hbody).1

/-- parser half for one Close frame: its bytes are one parser output, handed to the consumer -/
theorem feedLoop_close_frame (c : CloseF) (hc : c.Ok) (s : Sys) (hb : Between s.p) :
    ∃ p1 p', Between p' ∧ feedLoop c.wire.bytes s =
      match onOut (.frame c.wire.frame) { s with p := p1 } with
      | .ok true s2 => .ok true { s2 with p := p' }
      | .ok false s2 => .ok false s2
      | .err x s2 => .err x s2 := by
  have hcont : s.p.cont ≠ .header := by rw [hb.b.cont]; simp
  obtain ⟨p', hpar, hb'⟩ := parses_nontext s.cfg.v [c.wire] s.p hb (by
    intro w hw
    simp only [List.mem_singleton] at hw
    subst hw
    exact ⟨CloseF.wire_ok hc, by simp [CloseF.wire]⟩)
  obtain ⟨pouts, m, e⟩ := feedLoop_of_parses _ s p' hcont hpar
  obtain ⟨x, rest, rfl, hx, hr⟩ := List.map_eq_cons_iff.mp m
  have : rest = [] := by simpa using hr
  subst this
  obtain ⟨p1, o⟩ := x
  simp only at hx
  subst hx
  refine ⟨p1, p', hb', ?_⟩
  have hw : wireBytes [c.wire] = c.wire.bytes := by simp [wireBytes]
  rw [← hw, e]
  simp only [consume]
  cases onOut (Out.frame c.wire.frame) { s with p := p1 } with
  | ok go s2 => cases go <;> rfl
  | err x s2 => rfl

theorem Sh.closed_of_shut {s : Sys} (h : Sh kc code rb cfg T0 0 s) (hs : Shut s) :
    Sh kc code rb cfg T0 0 { s with closing := false, closed := true } := by
  rcases h with ⟨ho, _⟩ | ⟨_, K, B, A, key, hk, hle, hB, pB, pA, hKl, nA⟩
  · exfalso
    obtain ⟨_, h2, h3⟩ := ho
    rcases hs with h | h
    · rw [h2] at h; cases h
    · rw [h3] at h; cases h
  · exact Or.inr ⟨Or.inr rfl, K, B, A, key, hk, hle, hB, pB, pA, hKl, nA⟩

/-- **the server's Close arrives while the client is closing**: `Closed(code, reason)` is handed
    to the application (its sends are refused), the websocket is closed, `WebSocket.feed` stops -/
theorem onOut_close_closing (hp : Par kc code reason rb cfg) (c : CloseF) (hc : c.Ok) (s : Sys)
    (g : G kc code reason rb cfg T0 s) (hcl : s.closed = false) (hcg : s.closing = true) :
    ∃ s', onOut (.frame c.wire.frame) s = .ok false s' ∧ s'.closed = true ∧
      hist s'.trace = .closed c.code c.reason :: hist s.trace ∧
      Q kc code reason cfg s' ∧ Sh kc code rb cfg T0 0 s' ∧
      s'.cfg = s.cfg ∧ s'.react = s.react ∧ s'.sockOpen = s.sockOpen ∧ s'.selOpen = s.selOpen := by
  have hv := validCode_of_ok c hc
  have hpay : closeFromPayload c.wire.frame.payload = .ok (.close c.code c.reason) := closeFromPayload_ok c hc
  obtain ⟨s2, hy, k, t, q2, sh2, m⟩ := feedYield_msg_J hp true (.closed c.code c.reason) trivial s g.q g.sh
  have hon : onClose c.code c.reason s = .ok () { s2 with closing := false, closed := true } :=
    (onClose_when_closing c.code c.reason s hv hcg hcl).2.1 s2 hy
  refine ⟨{ s2 with closing := false, closed := true }, ?_, rfl, t,
    ⟨q2.app, q2.cfg, Or.inr rfl, q2.nr, q2.rd, q2.hi⟩, sh2.closed_of_shut (m (Or.inl hcg)),
    k.cfg, k.react, k.sockOpen, k.selOpen⟩
  rw [onOut_close_frame c.wire.frame rfl c.code c.reason hpay s (Or.inl rfl), bind_ok hon]
  rfl

/-- … as a read: the bytes of the Close frame, from between two messages -/
theorem feed_close_closing (hp : Par kc code reason rb cfg) (c : CloseF) (hc : c.Ok) (s : Sys)
    (g : G kc code reason rb cfg T0 s) (hcl : s.closed = false) (hcg : s.closing = true) (hb : Between s.p) :
    ∃ s', feedLoop c.wire.bytes s = .ok false s' ∧ s'.closed = true ∧
      hist s'.trace = .closed c.code c.reason :: hist s.trace ∧
      Q kc code reason cfg s' ∧ Sh kc code rb cfg T0 0 s' ∧
      s'.cfg = s.cfg ∧ s'.react = s.react ∧ s'.sockOpen = s.sockOpen ∧ s'.selOpen = s.selOpen := by
  obtain ⟨p1, p', _, e⟩ := feedLoop_close_frame c hc s hb
  obtain ⟨s', h, r⟩ := onOut_close_closing hp c hc { s with p := p1 }
    (g.congr _ rfl rfl rfl rfl rfl rfl rfl rfl rfl rfl rfl) hcl hcg
  refine ⟨s', ?_, r⟩
  rw [e, h]

/-- **the server's Close arrives first** (send-only application): `Closing(code, reason)` is
    handed to the application while the websocket is still open — what it sends now is written —,
    then exactly one Close frame carrying the received payload is written and the websocket is
    closing -/
theorem onOut_close_open (hp : Par kc code reason rb cfg) (hkn : kc = none) (c : CloseF) (hc : c.Ok) (s : Sys)
    (g : G kc code reason rb cfg T0 s) :
    ∃ s' A key, onOut (.frame c.wire.frame) s = .ok true s' ∧ s'.closing = true ∧ s'.closed = false ∧
      s'.trace = .wr (closeFrame c.payload key) :: (A ++ T0) ∧ PhaseA cfg.autoPong A ∧
      hist s'.trace = .closing c.code c.reason :: hist s.trace ∧ Q kc code reason cfg s' ∧ s'.ready = true ∧
      s'.frames = s.frames ∧ s'.cfg = s.cfg ∧ s'.react = s.react ∧ s'.sockOpen = s.sockOpen ∧
      s'.selOpen = s.selOpen := by
  have opn : ∀ {t : Sys}, Sh kc code rb cfg T0 0 t → ShOpen kc cfg T0 0 t := by
    intro t h
    rcases h with h | ⟨_, K, _, _, _, hk, _⟩
    · exact h
    · rw [hkn] at hk; cases hk
  have hv := validCode_of_ok c hc
  have hpay : closeFromPayload c.wire.frame.payload = .ok (.close c.code c.reason) := closeFromPayload_ok c hc
  obtain ⟨ho, _⟩ := opn g.sh
  obtain ⟨s1, hy, k, t, q1, sh1, _⟩ := feedYield_msg_J hp true (.closing c.code c.reason) trivial s g.q g.sh
  obtain ⟨ho1, _, A, hA, pA, _⟩ := opn sh1
  have hw1 : s1.cfg.writeFails s1.writeCtr = false := by rw [q1.cfg]; exact hp.nf _
  have ha : CloseArgsOk c.code (encodeReplace c.reason) :=
    ⟨codeFits_of_ok c hc, by rw [close_echo_payload c hc]; exact hc.2.1⟩
  let s2 : Sys := { s1 with keyCtr := s1.keyCtr + 1, writeCtr := s1.writeCtr + 1,
                            trace := .wr (closeFrame c.payload (s1.cfg.maskKey s1.keyCtr)) :: s1.trace,
                            closing := true, sentCloseTime := some (sessionTime s1) }
  have hon : onClose c.code c.reason s = .ok () s2 := by
    have := onClose_echo c.code c.reason s s1 hv ho.2.1 ho.2.2 hy ho1 hw1 ha
    rw [close_echo_payload c hc] at this
    exact this
  refine ⟨s2, A, s1.cfg.maskKey s1.keyCtr, ?_, rfl, ho1.2.2, ?_, pA, ?_, ?_, k.ready.trans g.ready,
    k.frames, k.cfg, k.react, k.sockOpen, k.selOpen⟩
  · rw [onOut_close_frame c.wire.frame rfl c.code c.reason hpay s (Or.inl rfl), bind_ok hon, notClosed_eq]
    show Res.ok (!s1.closed) _ = _
    rw [ho1.2.2]
    rfl
  · show Obs.wr _ :: s1.trace = _
    rw [hA]
  · show hist (Obs.wr _ :: s1.trace) = _
    rw [hist_cons_nonEv _ _ rfl, t]
  · exact ⟨q1.app, q1.cfg, q1.sock, q1.nr, q1.rd, by
      show s1.hist = hist (Obs.wr _ :: s1.trace)
      rw [hist_cons_nonEv _ _ rfl]; exact q1.hi⟩

theorem feed_close_open (hp : Par kc code reason rb cfg) (hkn : kc = none) (c : CloseF) (hc : c.Ok) (s : Sys)
    (g : G kc code reason rb cfg T0 s) (hb : Between s.p) :
    ∃ s' A key, feedLoop c.wire.bytes s = .ok true s' ∧ s'.closing = true ∧ s'.closed = false ∧
      s'.trace = .wr (closeFrame c.payload key) :: (A ++ T0) ∧ PhaseA cfg.autoPong A ∧
      hist s'.trace = .closing c.code c.reason :: hist s.trace ∧ Q kc code reason cfg s' ∧ s'.ready = true ∧
      s'.cfg = s.cfg ∧ s'.react = s.react ∧ s'.sockOpen = s.sockOpen ∧ s'.selOpen = s.selOpen := by
  obtain ⟨p1, p', _, e⟩ := feedLoop_close_frame c hc s hb
  obtain ⟨s', A, key, h, h1, h2, h3, h4, h5, h6, h7, _, h9, h10, h11, h12⟩ :=
    onOut_close_open hp hkn c hc { s with p := p1 } (g.congr _ rfl rfl rfl rfl rfl rfl rfl rfl rfl rfl rfl)
  refine ⟨{ s' with p := p' }, A, key, ?_, h1, h2, h3, h4, h5,
    ⟨h6.app, h6.cfg, h6.sock, h6.nr, h6.rd, h6.hi⟩, h7, h9, h10, h11, h12⟩
  rw [e, h]

/-! ### `run()` before the loop, the handshake read, the end of `run()` -/

/-- **`run()` before the loop**: `Connecting` (the socket does not exist: calls fail), the upgrade
    request, `Connected` — where the application may already call `close()` (`kc = some 2`). -/
theorem run_start_J (hp : Par kc code reason rb cfg) (react : React) (env : List EnvStep) (proxy : Bool)
    (hc : cfg.connect = .ok proxy) (happ : AppK kc code reason react) :
    ∃ sA l0, (∀ o ∈ l0, Obs.isRes o = true) ∧
      run { cfg := cfg, react := react, env := env } = tryC (do runBody env; selClose) runFinally sA ∧
      Q kc code reason cfg sA ∧ Sh kc code rb cfg (Tstart cfg l0) 0 sA ∧
      sA.ready = false ∧ sA.closed = false ∧ sA.sockOpen = true ∧ sA.selOpen = true ∧ sA.p = {} ∧
      sA.frames = [] ∧ sA.env = env ∧ sA.react = react ∧ hist sA.trace = [.connected proxy, .connecting] := by
  let s0 : Sys := { cfg := cfg, react := react, env := env }
  have hk1 : kc ≠ some (pushEv .connecting s0).hist.length := by
    intro e
    have := hp.k2 _ e
    simp [pushEv, s0] at this
  obtain ⟨s1, l0, h1a, k1, hh1, t1, a1, _⟩ := doActs_sends_J _ (happ.sends _ hk1) (pushEv .connecting s0)
  have h1 : yieldEv .connecting s0 = .ok () s1 := h1a
  have hl0 : ∀ o ∈ l0, Obs.isRes o = true := by
    obtain ⟨l, e, _, r⟩ := k1.trace
    have : l = l0 := List.append_cancel_right (e.symm.trans t1)
    subst this
    exact r rfl
  have hcc : s1.cfg.connect = .ok proxy := by rw [k1.cfg]; exact hc
  let s2 : Sys := { s1 with sockOpen := true }
  have hwc : s2.cfg.writeFails s2.writeCtr = false := by
    show s1.cfg.writeFails s1.writeCtr = false
    rw [k1.cfg]; exact hp.nf _
  have hwr := write_ok_open s2.cfg.request s2 rfl k1.closed k1.closing hwc
  let s3 : Sys := { s2 with writeCtr := s2.writeCtr + 1, trace := .wr s2.cfg.request :: s2.trace }
  have hreq : s2.cfg.request = cfg.request := by show s1.cfg.request = _; rw [k1.cfg]; rfl
  have htr3 : s3.trace = Tstart cfg l0 := by
    show s3.trace = .wr cfg.request :: (l0 ++ [.ev .connecting])
    show Obs.wr s2.cfg.request :: s1.trace = _
    rw [hreq, t1]; rfl
  have hh3 : s3.hist = [.connecting] := by show s1.hist = _; rw [hh1]; rfl
  have hist3 : hist s3.trace = [.connecting] := by
    rw [htr3]
    show hist (.wr cfg.request :: (l0 ++ [.ev .connecting])) = _
    rw [hist_cons_nonEv _ _ rfl, hist_append, hist_nonEv l0 a1.noEv]; rfl
  have app3 : AppK kc code reason s3.react := by show AppK kc code reason s1.react; rw [k1.react]; exact happ
  have cfg3 : s3.cfg = cfg := k1.cfg
  -- the Connected event
  have hi4 : (pushEv (.connected proxy) s3).hist = hist (pushEv (.connected proxy) s3).trace := by
    show Event.connected proxy :: s3.hist = hist (.ev (.connected proxy) :: s3.trace)
    rw [hist_cons_ev, hist3, hh3]
  have sh4 : Sh kc code rb cfg (Tstart cfg l0) 1 (pushEv (.connected proxy) s3) := by
    refine Or.inl ⟨⟨rfl, k1.closing, k1.closed⟩, ?_, [.ev (.connected proxy)], ?_, .ev _ (fun d h => by cases h) .nil,
      fun _ => NoRes.cons (fun r h => by cases h) (fun r h => by cases h)⟩
    · intro K hK
      show (Event.connected proxy :: s3.hist).length < K + 1
      rw [hh3]
      have := hp.k2 K hK
      simp only [List.length_cons, List.length_nil]; omega
    · show Obs.ev (.connected proxy) :: s3.trace = _
      rw [htr3]; rfl
  obtain ⟨s4, h4a, k4, t4, sh5, _⟩ := acts_J hp (pushEv (.connected proxy) s3) app3 cfg3 hi4 sh4
  have h4 : yieldEv (.connected proxy) s3 = .ok () s4 := h4a
  have hyc : yieldConnected proxy s3 = .ok () s4 := by
    unfold yieldConnected
    rw [bind_ok (show getS s3 = .ok s3 s3 from rfl)]
    split
    · exact tryC_ok h4
    · exact h4
  let sA : Sys := { s4 with selOpen := true }
  have henv : sA.env = env := by show s4.env = env; rw [k4.env]; show s1.env = env; rw [k1.env]; rfl
  have hre : sA.react = react := by show s4.react = react; rw [k4.react]; show s1.react = react; rw [k1.react]; rfl
  have hr : sA.ready = false := by show s4.ready = false; rw [k4.ready]; show s1.ready = false; rw [k1.ready]; rfl
  have hst : sA.startTime = none := by
    show s4.startTime = none; rw [k4.startTime]; show s1.startTime = none; rw [k1.startTime]; rfl
  have hps : sA.pollStart = none := by
    show s4.pollStart = none; rw [k4.pollStart]; show s1.pollStart = none; rw [k1.pollStart]; rfl
  have hsk : sA.sockOpen = true := by show s4.sockOpen = true; rw [k4.sockOpen]; rfl
  have hcl : sA.closed = false := by show s4.closed = false; rw [k4.closed]; show s1.closed = false; rw [k1.closed]; rfl
  have hhA : hist sA.trace = [.connected proxy, .connecting] := by
    show hist s4.trace = _
    rw [t4]
    show hist (.ev (.connected proxy) :: s3.trace) = _
    rw [hist_cons_ev, hist3]
  have hiA : sA.hist = hist sA.trace := by
    show s4.hist = hist s4.trace
    rw [k4.hist, t4]; exact hi4
  have qA : Q kc code reason cfg sA :=
    ⟨by rw [hre]; exact happ, k4.cfg.trans cfg3, Or.inl hsk, fun _ => ⟨hst, hps⟩,
      (fun h => by rw [hr] at h; cases h), hiA⟩
  have hpA : sA.p = {} := by show s4.p = {}; rw [k4.p]; show s1.p = {}; rw [k1.p]; rfl
  have hfA : sA.frames = [] := by show s4.frames = []; rw [k4.frames]; show s1.frames = []; rw [k1.frames]; rfl
  refine ⟨sA, l0, hl0, ?_, qA, Sh.congr (s := s4) (s' := sA) rfl rfl rfl rfl rfl rfl sh5, hr, hcl, hsk, rfl, hpA, hfA,
    henv, hre, hhA⟩
  show run s0 = _
  unfold run
  rw [bind_ok h1, bind_ok (show getS s1 = .ok s1 s1 from rfl)]
  simp only [hcc]
  unfold afterConnect
  rw [bind_ok (show modS (fun s => { s with sockOpen := true }) s1 = .ok () s2 from rfl),
    bind_ok (show getS s2 = .ok s2 s2 from rfl), bind_ok hwr]
  have hwe : wsError ActRes.ok = false := by decide
  simp only [hwe, Bool.false_eq_true, if_false]
  rw [bind_ok hyc, bind_ok (show modS (fun s => { s with selOpen := true }) s4 = .ok () sA from rfl)]
  unfold runLoop
  rw [bind_ok (show getS sA = .ok sA sA from rfl), henv]

/-- **the handshake read** (as `E2E.feed_reply`, for this application class — the client may
    already be closing): feeding `reply ++ stream` is Ready, Poll, then feeding `stream` from `s4` -/
theorem feed_reply_J (hp : Par kc code reason rb cfg) {sA : Sys} (hq : Q kc code reason cfg sA)
    (hsh : Sh kc code rb cfg T0 0 sA) (hr : sA.ready = false) (hcl : sA.closed = false) (hpA : sA.p = {})
    (hfr : sA.frames = []) {reply : Bytes} {proto : Option Http.Str} (hg : GoodReply cfg reply proto) :
    ∃ s4, G kc code reason rb cfg T0 s4 ∧ s4.closed = false ∧ s4.frames = [] ∧ Between s4.p ∧
      s4.p.compression = false ∧ hist s4.trace = .poll :: .ready proto false :: hist sA.trace ∧
      s4.cfg = sA.cfg ∧ s4.react = sA.react ∧ s4.sockOpen = sA.sockOpen ∧ s4.selOpen = sA.selOpen ∧
      (Shut sA → Shut s4) ∧ ∀ stream, wsFeed (reply ++ stream) sA = wsFeed stream s4 := by
  obtain ⟨i, hsep, hil⟩ := hg.sep
  have hc : sA.p.cont = .header := by rw [hpA]
  have hbuf : sA.p.buf = [] := by rw [hpA]
  let s1 : Sys := { headerDone sA with compression := none, decompress := false }
  have q1 : Q kc code reason cfg s1 := ⟨hq.app, hq.cfg, hq.sock, hq.nr, hq.rd, hq.hi⟩
  have sh1 : Sh kc code rb cfg T0 0 s1 := Sh.congr (s := sA) (s' := s1) rfl rfl rfl rfl rfl rfl hsh
  obtain ⟨s3, h3, q3, sh3, r3, hh3, c3, re3, so3, se3, cl3, p3, f3, m3⟩ :=
    feedYield_ready_J hp true proto false s1 q1 sh1 hr
  let s4 : Sys := { s3 with parsedResponse := true }
  have hok : Http.onResponse (headerDone sA).cfg.v.strictAccept (headerDone sA).cfg.challenge (Http.parseResponse reply)
      = .ok { protocol := proto, deflate := none } := by
    show Http.onResponse sA.cfg.v.strictAccept sA.cfg.challenge _ = _
    rw [hq.cfg]; exact hg.ok
  have hout : onOut (.header reply) (headerDone sA) = .ok true s4 := by
    unfold onOut
    simp only [bind, M.bind, getS, hok, modS]
    have e1 : feedYield true (.ready proto false) s1 = .ok () s3 := h3
    simp only [Option.isSome_none, Bool.false_eq_true, if_false]
    rw [e1]
    simp only [notClosed]
    have hb : (!s3.closed) = true := by rw [cl3.trans hcl]; rfl
    exact congrArg (fun b => Res.ok b s4) hb
  have hp4 : s4.p = { cont := .hdr2, remPred := 1, utf8 := false, buf := [] } := by
    show s3.p = _
    rw [p3]
    show ({ sA.p with cont := .hdr2, remPred := 1, utf8 := false, buf := [] } : PState) = _
    rw [hpA]
  refine ⟨s4, ⟨⟨q3.app, q3.cfg, q3.sock, q3.nr, q3.rd, q3.hi⟩, Sh.congr (s := s3) (s' := s4) rfl rfl rfl rfl rfl rfl sh3, r3⟩,
    cl3.trans hcl, f3.trans hfr, ?_, ?_, hh3, c3, re3, so3, se3, m3, ?_⟩
  · rw [hp4]; exact ⟨⟨rfl, rfl, rfl, rfl⟩, rfl, rfl⟩
  · rw [hp4]
  · intro stream
    have hsome : findSep Gen.headerSep (sA.p.buf ++ (reply ++ stream)) = some i := by
      rw [hbuf, List.nil_append]
      exact Proxy.findSep_append _ _ _ _ hsep
    have hlen : i + 4 ≤ Gen.headerMax := by rw [hil]; exact hg.len
    have hfb := feedBody_terminated_ok sA (reply ++ stream) i hc hsome hlen
    have et : (sA.p.buf ++ (reply ++ stream)).take (i + 4) = reply := by
      rw [hbuf, List.nil_append, hil]; exact List.take_left' rfl
    have ed : (sA.p.buf ++ (reply ++ stream)).drop (i + 4) = stream := by
      rw [hbuf, List.nil_append, hil]; exact List.drop_left' rfl
    rw [et, ed, bind_ok hout] at hfb
    simp only [if_true] at hfb
    rw [feedLoop_unit] at hfb
    have hnh : s4.p.cont ≠ .header := by rw [hp4]; simp
    have hcl4 : s4.closed = false := cl3.trans hcl
    rw [wsFeed_eq, wsFeed_eq stream s4]
    simp only [hcl, hcl4, Bool.false_eq_true, if_false]
    rw [hfb, feedBody_frames _ _ hnh]
    cases feedLoop stream s4 <;> rfl

theorem sockClosed_fields (s : Sys) :
    (sockClosed s).react = s.react ∧ (sockClosed s).hist = s.hist ∧ (sockClosed s).closing = s.closing ∧
    (sockClosed s).closed = s.closed ∧ (sockClosed s).selOpen = s.selOpen ∧
    ∃ l, (sockClosed s).trace = l ++ s.trace ∧ ∀ o ∈ l, o = .sockClose := by
  unfold sockClosed
  split
  · exact ⟨rfl, rfl, rfl, rfl, rfl, [.sockClose], rfl, by simp⟩
  · exact ⟨rfl, rfl, rfl, rfl, rfl, [], rfl, by simp⟩

/-- **the loop ended normally with the websocket closing or closed** (`else:` clause of `run()`):
    the socket is closed, `Disconnected('closed', graceful=True)` is handed to the application —
    whatever it sends now is refused —, the selector is closed, `run()` returns -/
theorem finish_J (env : List EnvStep) (sA s1 : Sys) (hl : loop env sA = .ok () s1)
    (happ : AppK kc code reason s1.react) (hs : Shut s1) (hk : kc ≠ some (s1.hist.length + 1)) :
    ∃ sF post, tryC (do runBody env; selClose) runFinally sA = .ok () sF ∧
      sF.trace = post ++ s1.trace ∧ hist post = [.disconnected "closed" true] ∧ PhaseB post ∧
      sF.sockOpen = false := by
  obtain ⟨e1, e2, e3, e4, _, l2, t2, n2⟩ := sockClosed_fields s1
  let s2 := sockClosed s1
  have hs2 : Shut (pushEv (.disconnected "closed" true) s2) := by
    show s2.closing = true ∨ s2.closed = true
    rw [e3, e4]; exact hs
  have hk2 : kc ≠ some (pushEv (.disconnected "closed" true) s2).hist.length := by
    show kc ≠ some (Event.disconnected "closed" true :: s2.hist).length
    rw [e2]; exact hk
  obtain ⟨s3, l3, h3, k3, _, t3, a3, r3⟩ :=
    doActs_sends_J _ ((e1 ▸ happ : AppK kc code reason s2.react).sends _ hk2)
      (pushEv (.disconnected "closed" true) s2)
  have r3' := r3 hs2
  obtain ⟨s4, l4, h4, t4, n4⟩ := selClose_trace s3
  have hy : (do closeSocket; yieldEv (.disconnected "closed" true) : M Unit) s1 = .ok () s3 := by
    rw [bind_ok (closeSocket_eq s1)]; exact h3
  refine ⟨s4, l4 ++ l3 ++ .ev (.disconnected "closed" true) :: l2, ?_, ?_, ?_, ?_, ?_⟩
  · apply tryC_ok
    rw [bind_ok (show runBody env sA = .ok () s3 by rw [runBody_of_loop_okV env sA s1 hl]; exact hy)]
    exact h4
  · rw [t4, t3]
    show l4 ++ (l3 ++ .ev _ :: s2.trace) = _
    rw [t2]; simp
  · have e4' : hist l4 = [] := hist_nonEv l4 (fun o ho => by rw [n4 o ho]; rfl)
    have e3' : hist l3 = [] := hist_nonEv l3 a3.noEv
    have e2' : hist l2 = [] := hist_nonEv l2 (fun o ho => by rw [n2 o ho]; rfl)
    rw [hist_append, hist_append, e4', e3', hist_cons_ev, e2']; rfl
  · refine PhaseB.append (PhaseB.append ?_ r3'.phaseB) (PhaseB.cons rfl (by intro h; cases h) ?_)
    · intro o ho; rw [n4 o ho]; exact ⟨rfl, by intro h; cases h⟩
    · intro o ho; rw [n2 o ho]; exact ⟨rfl, by intro h; cases h⟩
  · have h5 := (selClose_state s3).2
    rw [h4] at h5
    simp only [Res.state_ok] at h5
    rw [h5, k3.sockOpen]
    exact sockClosed_sockOpen s1


end inv

/-! ### whole connections -/

/-- **any segmentation is one read** (C02, `SegLoop.runAll_segmentation`): for an application that
    never calls `session.close()`, a burst of non-empty `wait 0` reads leaves the same trace and the
    same socket state as one read of the concatenation -/
theorem runAll_one_read (cfg : Cfg) (react : React) (hp : 0 < cfg.poll) (hn : SegLoop.NoSessionClose react)
    (chunks : List Bytes) (D : Bytes) (rest : List EnvStep) (hne : ∀ c ∈ chunks, c ≠ []) (hD : D ≠ [])
    (hflat : chunks.flatten = D) :
    (runAll cfg react (reads chunks ++ rest)).trace = (runAll cfg react (reads [D] ++ rest)).trace ∧
    (runAll cfg react (reads chunks ++ rest)).sockOpen = (runAll cfg react (reads [D] ++ rest)).sockOpen := by
  obtain ⟨X, h1, h2⟩ := SegLoop.runAll_segmentation cfg react [] rest 0 chunks [D] hp hn hne
    (by intro x hx; simp only [List.mem_singleton] at hx; subst hx; exact hD) (by simp [hflat])
  have e1 : [] ++ (SegLoop.readsAt 0 chunks ++ rest) = reads chunks ++ rest := by
    rw [SegLoop.readsAt_zero]; rfl
  have e2 : [] ++ (SegLoop.readsAt 0 [D] ++ rest) = reads [D] ++ rest := by
    rw [SegLoop.readsAt_zero]; rfl
  rw [e1] at h1
  rw [e2] at h2
  rw [h1, h2]
  exact ⟨rfl, rfl⟩

theorem goodReply_ne {cfg : Cfg} {reply : Bytes} {proto : Option Http.Str} (hg : GoodReply cfg reply proto) :
    reply ≠ [] := by
  obtain ⟨i, _, hil⟩ := hg.sep
  intro e
  rw [e] at hil
  simp at hil

/-- **The client closes first** — one read carrying the whole server stream.  See
    `C08E2E.client_close_end_to_end` for the statement in words. -/
theorem client_close_run (K : Nat) (code : Option Nat) (reason : Arg) (rb : Bytes) (cfg : Cfg)
    (hp : Par (some K) code reason rb cfg) (react : React) (proxy : Bool) (proto : Option Http.Str)
    (hc : cfg.connect = .ok proxy) (happ : AppK (some K) code reason react)
    {reply : Bytes} (hg : GoodReply cfg reply proto)
    (items : List Item) (hok : ∀ it ∈ items, it.Ok) (c : CloseF) (hcf : c.Ok)
    (hK : K ≤ 4 + (items.flatMap Item.events).length) (rest : List EnvStep) :
    ∃ l0 B A key,
      (runAll cfg react (reads [reply ++ (wireBytes (items.flatMap Item.wire) ++ c.wire.bytes)] ++ rest)).trace
        = B ++ .res .ok :: .wr (closeFrame (buildClosePayload code rb) key) :: (A ++ Tstart cfg l0) ∧
      (∀ o ∈ l0, Obs.isRes o = true) ∧ PhaseA cfg.autoPong A ∧ PhaseB B ∧ (hist (A ++ Tstart cfg l0)).length = K ∧
      ((∀ h, h <:+ (.closed c.code c.reason :: ((items.flatMap Item.events).reverse ++
              [.poll, .ready proto false, .connected proxy, .connecting])) → h.length < K → react h = []) →
        (∀ h, h <:+ (.closed c.code c.reason :: ((items.flatMap Item.events).reverse ++
              [.poll, .ready proto false, .connected proxy, .connecting])) → h.length = K → HeadNotSend (react h)) →
        NoRes A) ∧
      hist (runAll cfg react (reads [reply ++ (wireBytes (items.flatMap Item.wire) ++ c.wire.bytes)] ++ rest)).trace
        = .disconnected "closed" true :: .closed c.code c.reason :: ((items.flatMap Item.events).reverse ++
            [.poll, .ready proto false, .connected proxy, .connecting]) ∧
      (runAll cfg react (reads [reply ++ (wireBytes (items.flatMap Item.wire) ++ c.wire.bytes)] ++ rest)).sockOpen
        = false := by
  obtain ⟨sA, l0, hl0, hrun, qA, shA, hr, hcl, hso, _, hpA, hfA, _, hre, hhA⟩ :=
    run_start_J hp react (reads [reply ++ (wireBytes (items.flatMap Item.wire) ++ c.wire.bytes)] ++ rest) proxy hc happ
  obtain ⟨s4, g4, cl4, fr4, bt4, _, hh4, _, re4, _, _, _, hfeed⟩ := feed_reply_J hp qA shA hr hcl hpA hfA hg
  -- the items
  obtain ⟨sp, hfl, r, frp, btp⟩ := feed_items_J hp items hok s4 g4 cl4 fr4 bt4
  have hhp : hist sp.trace = (items.flatMap Item.events).reverse ++ [.poll, .ready proto false, .connected proxy, .connecting] := by
    rw [r.evs, hh4, hhA]
  have clp : sp.closed = false := r.closed.trans cl4
  -- the application has closed by now
  have hlen : sp.hist.length = (items.flatMap Item.events).length + 4 := by
    rw [r.g.q.hi, hhp]; simp
  have hcg : sp.closing = true := by
    rcases r.g.sh with ⟨_, hlt, _⟩ | ⟨hs, _⟩
    · have := hlt K rfl; omega
    · rcases hs with h | h
      · exact h
      · rw [clp] at h; cases h
  -- the server's Close
  obtain ⟨s6, hf6, cl6, hh6, q6, sh6, _, re6, _, _⟩ := feed_close_closing hp c hcf sp r.g clp hcg btp
  have hnh : s4.p.cont ≠ .header := by rw [bt4.b.cont]; simp
  have hfl6 : feedLoop (wireBytes (items.flatMap Item.wire) ++ c.wire.bytes) s4 = .ok false s6 := by
    rw [feedLoop_append, hfl]; exact hf6
  have hws : wsFeed (wireBytes (items.flatMap Item.wire) ++ c.wire.bytes) s4 = .ok () s6 :=
    wsFeed_of_feedBody_ok _ s4 s6 cl4 (by rw [feedBody_frames _ _ hnh, hfl6])
  have hne : reply ++ (wireBytes (items.flatMap Item.wire) ++ c.wire.bytes) ≠ [] := by
    intro e; exact goodReply_ne hg (List.append_eq_nil_iff.mp e).1
  have hloop : loop (reads [reply ++ (wireBytes (items.flatMap Item.wire) ++ c.wire.bytes)] ++ rest) sA = .ok () s6 := by
    have e : reads [reply ++ (wireBytes (items.flatMap Item.wire) ++ c.wire.bytes)] ++ rest
        = .wait 0 (some (.data (reply ++ (wireBytes (items.flatMap Item.wire) ++ c.wire.bytes)))) :: rest := rfl
    rw [e, loop_wait_data 0 _ rest sA sA hcl (by rw [tick_zero]; exact Timers.regular_not_ready sA hr) hso hne,
      hfeed, hws]
    exact loop_closed rest s6 cl6
  have hh6' : s6.hist.length = (items.flatMap Item.events).length + 5 := by
    rw [q6.hi, hh6, hhp]; simp
  obtain ⟨sF, post, hF, tF, hhF, pF, soF⟩ := finish_J _ sA s6 hloop q6.app (Or.inr cl6)
    (by intro e; have : K = s6.hist.length + 1 := by cases e; rfl
        omega)
  rw [runAll_ok cfg react _ sF (hrun.trans hF)]
  have hre6 : s6.react = react := re6.trans (r.reactE.trans (re4.trans hre))
  rcases sh6 with ⟨ho, _⟩ | ⟨_, K', B, A, key, hk, _, hB, pB, pA, hKl, nA⟩
  · exfalso
    have := ho.2.2
    rw [cl6] at this; cases this
  · have : K' = K := by cases hk; rfl
    subst this
    refine ⟨l0, post ++ B, A, key, ?_, hl0, pA, pF.append pB, hKl, ?_, ?_, soF⟩
    · rw [tF, hB, List.append_assoc]
    · rw [hre6, q6.hi, hh6, hhp] at nA; exact nA
    · rw [tF, hist_append, hhF, hh6, hhp]; rfl

/-- **The server closes first** — one read carrying the whole server stream, then end of stream.
    See `C08E2E.server_close_end_to_end`. -/
theorem server_close_run (cfg : Cfg) (react : React) (proxy : Bool) (proto : Option Http.Str)
    (hnf : ∀ k, cfg.writeFails k = false) (hpoll : 0 < cfg.poll)
    (hc : cfg.connect = .ok proxy) (happ : SendOnly react)
    {reply : Bytes} (hg : GoodReply cfg reply proto)
    (items : List Item) (hok : ∀ it ∈ items, it.Ok) (c : CloseF) (hcf : c.Ok) (rest : List EnvStep) :
    ∃ l0 post l A key,
      (runAll cfg react (reads [reply ++ (wireBytes (items.flatMap Item.wire) ++ c.wire.bytes)] ++
          (.wait 0 (some .eof) :: rest))).trace
        = post ++ .wr (closeFrame c.payload key) :: (l ++ (A ++ Tstart cfg l0)) ∧
      (∀ o ∈ l0, Obs.isRes o = true) ∧ PhaseA cfg.autoPong A ∧ PhaseA cfg.autoPong (l ++ A) ∧
      ((∀ h, h <:+ ((items.flatMap Item.events).reverse ++
            [.poll, .ready proto false, .connected proxy, .connecting]) → react h = []) → NoRes A) ∧
      hist l = [.closing c.code c.reason] ∧
      hist (A ++ Tstart cfg l0) = (items.flatMap Item.events).reverse ++
          [.poll, .ready proto false, .connected proxy, .connecting] ∧
      PhaseB post ∧ hist post = [.disconnected "closed" true] ∧
      (runAll cfg react (reads [reply ++ (wireBytes (items.flatMap Item.wire) ++ c.wire.bytes)] ++
          (.wait 0 (some .eof) :: rest))).sockOpen = false := by
  have hp : Par none none (.bytes []) [] cfg :=
    ⟨hnf, hpoll, rfl, ⟨(fun c h => by cases h), (by decide)⟩, (fun K h => by cases h)⟩
  have happK : AppK none none (.bytes []) react :=
    ⟨fun h _ => happ h, fun h e => by cases e⟩
  obtain ⟨sA, l0, hl0, hrun, qA, shA, hr, hcl, hso, _, hpA, hfA, _, hre, hhA⟩ :=
    run_start_J hp react (reads [reply ++ (wireBytes (items.flatMap Item.wire) ++ c.wire.bytes)] ++
      (.wait 0 (some .eof) :: rest)) proxy hc happK
  obtain ⟨s4, g4, cl4, fr4, bt4, _, hh4, _, re4, _, _, _, hfeed⟩ := feed_reply_J hp qA shA hr hcl hpA hfA hg
  obtain ⟨sp, hfl, r, frp, btp⟩ := feed_items_J hp items hok s4 g4 cl4 fr4 bt4
  have hhp : hist sp.trace = (items.flatMap Item.events).reverse ++ [.poll, .ready proto false, .connected proxy, .connecting] := by
    rw [r.evs, hh4, hhA]
  -- the trace before the Close frame
  have hlen : sp.hist.length = (items.flatMap Item.events).length + 4 := by
    rw [r.g.q.hi, hhp]; simp
  have hrep : sp.react = react := r.reactE.trans (re4.trans hre)
  obtain ⟨Ap, hAp, pAp, nAp⟩ : ∃ A, sp.trace = A ++ Tstart cfg l0 ∧ PhaseA cfg.autoPong A ∧
      ((∀ h, h <:+ ((items.flatMap Item.events).reverse ++
            [.poll, .ready proto false, .connected proxy, .connecting]) → react h = []) → NoRes A) := by
    rcases r.g.sh with ⟨_, _, A, hA, pA, nA⟩ | ⟨_, K, _, _, _, hk, _⟩
    · refine ⟨A, hA, pA, fun hsil => nA (fun h hs _ => ?_)⟩
      rw [hrep]; exact hsil h (by rw [← hhp, ← r.g.q.hi]; exact hs)
    · cases hk
  obtain ⟨s6, A6, key, hf6, cg6, cl6, t6, pA6, hh6, q6, rd6, _, re6, _, _⟩ := feed_close_open hp rfl c hcf sp r.g btp
  -- the part added by the Closing event
  have hext : ∃ l, A6 = l ++ Ap := by
    have st := (step_feedLoop c.wire.bytes).ok hf6
    obtain ⟨l, el⟩ := st.traceExt
    rw [t6, hAp] at el
    cases l with
    | nil =>
      exfalso
      have hh := congrArg hist el
      rw [hist_cons_nonEv _ _ rfl, List.nil_append] at hh
      have h2 : hist (A6 ++ Tstart cfg l0) = .closing c.code c.reason :: hist sp.trace := by
        rw [← hist_cons_nonEv (.wr (closeFrame c.payload key)) (A6 ++ Tstart cfg l0) rfl, ← t6]; exact hh6
      rw [hh, ← hAp] at h2
      have := congrArg List.length h2
      simp at this
    | cons o l' =>
      simp only [List.cons_append, List.cons.injEq] at el
      refine ⟨l', ?_⟩
      have e2 : A6 ++ Tstart cfg l0 = (l' ++ Ap) ++ Tstart cfg l0 := by rw [el.2, List.append_assoc]
      exact List.append_cancel_right e2
  obtain ⟨l, rfl⟩ := hext
  have hhl : hist l = [.closing c.code c.reason] := by
    have h2 : hist ((l ++ Ap) ++ Tstart cfg l0) = .closing c.code c.reason :: hist sp.trace := by
      rw [← hist_cons_nonEv (.wr (closeFrame c.payload key)) ((l ++ Ap) ++ Tstart cfg l0) rfl, ← t6]; exact hh6
    rw [List.append_assoc, hist_append, ← hAp] at h2
    exact List.append_cancel_right (h2.trans (by rfl))
  have hnh : s4.p.cont ≠ .header := by rw [bt4.b.cont]; simp
  have hfl6 : feedLoop (wireBytes (items.flatMap Item.wire) ++ c.wire.bytes) s4 = .ok true s6 := by
    rw [feedLoop_append, hfl]; exact hf6
  have hws : wsFeed (wireBytes (items.flatMap Item.wire) ++ c.wire.bytes) s4 = .ok () s6 :=
    wsFeed_of_feedBody_ok _ s4 s6 cl4 (by rw [feedBody_frames _ _ hnh, hfl6])
  have hne : reply ++ (wireBytes (items.flatMap Item.wire) ++ c.wire.bytes) ≠ [] := by
    intro e; exact goodReply_ne hg (List.append_eq_nil_iff.mp e).1
  have hloop : loop (reads [reply ++ (wireBytes (items.flatMap Item.wire) ++ c.wire.bytes)] ++
      (.wait 0 (some .eof) :: rest)) sA = .ok () s6 := by
    have e : reads [reply ++ (wireBytes (items.flatMap Item.wire) ++ c.wire.bytes)] ++ (.wait 0 (some .eof) :: rest)
        = .wait 0 (some (.data (reply ++ (wireBytes (items.flatMap Item.wire) ++ c.wire.bytes)))) ::
            (.wait 0 (some .eof) :: rest) := rfl
    rw [e, loop_wait_data 0 _ _ sA sA hcl (by rw [tick_zero]; exact Timers.regular_not_ready sA hr) hso hne,
      hfeed, hws]
    show loop (.wait 0 (some .eof) :: rest) s6 = _
    rw [loop_eof 0 rest s6 s6 cl6 (by rw [tick_zero]; exact q6.regular_id hp)]
    have : ¬ (¬ s6.closing = true ∧ ¬ s6.closed = true) := by rw [cg6]; simp
    rw [if_neg this]
  obtain ⟨sF, post, hF, tF, hhF, pF, soF⟩ := finish_J (kc := none) (code := none) (reason := .bytes []) _ sA s6 hloop
    q6.app (Or.inl cg6) (by intro e; cases e)
  rw [runAll_ok cfg react _ sF (hrun.trans hF)]
  refine ⟨l0, post, l, Ap, key, ?_, hl0, pAp, pA6, nAp, hhl, ?_, pF, hhF, soF⟩
  · rw [tF, t6, List.append_assoc]
  · rw [← hAp]; exact hhp

/-! ### reading `PhaseA` -/

/-- every frame handed to `sendall` in a `PhaseA` trace is either an application call's (its result
    follows directly) or the library's Pong for the Ping event that follows directly -/
theorem PhaseA.write_kinds {auto : Bool} {A : List Obs} (h : PhaseA auto A) :
    ∀ pre o post, A = pre ++ o :: post → o.isWrite = true →
      (∃ pre' r, pre = pre' ++ [.res r]) ∨
      (auto = true ∧ ∃ pre' d key, pre = pre' ++ [.ev (.ping d)] ∧ o = .wr (Pong.pongBytes d key)) := by
  induction h with
  | nil => intro pre o post e; cases pre <;> cases e
  | ev e he _ ih =>
    intro pre o post eq hw
    cases pre with
    | nil => simp only [List.nil_append, List.cons.injEq] at eq; rw [← eq.1] at hw; cases hw
    | cons x pre1 =>
      simp only [List.cons_append, List.cons.injEq] at eq
      rcases ih pre1 o post eq.2 hw with ⟨p, r, hp⟩ | ⟨ha, p, d, key, hp, ho⟩
      · exact Or.inl ⟨x :: p, r, by rw [hp]; rfl⟩
      · exact Or.inr ⟨ha, x :: p, d, key, by rw [hp]; rfl, ho⟩
  | pong d key ha _ ih =>
    intro pre o post eq hw
    cases pre with
    | nil => simp only [List.nil_append, List.cons.injEq] at eq; rw [← eq.1] at hw; cases hw
    | cons x pre1 =>
      simp only [List.cons_append, List.cons.injEq] at eq
      cases pre1 with
      | nil =>
        simp only [List.nil_append, List.cons.injEq] at eq
        exact Or.inr ⟨ha, [], d, key, by rw [eq.1]; rfl, eq.2.1.symm⟩
      | cons y pre2 =>
        simp only [List.cons_append, List.cons.injEq] at eq
        rcases ih pre2 o post eq.2.2 hw with ⟨p, r, hp⟩ | ⟨ha', p, d', key', hp, ho⟩
        · exact Or.inl ⟨x :: y :: p, r, by rw [hp]; rfl⟩
        · exact Or.inr ⟨ha', x :: y :: p, d', key', by rw [hp]; rfl, ho⟩
  | res r _ ih =>
    intro pre o post eq hw
    cases pre with
    | nil => simp only [List.nil_append, List.cons.injEq] at eq; rw [← eq.1] at hw; cases hw
    | cons x pre1 =>
      simp only [List.cons_append, List.cons.injEq] at eq
      rcases ih pre1 o post eq.2 hw with ⟨p, r', hp⟩ | ⟨ha, p, d, key, hp, ho⟩
      · exact Or.inl ⟨x :: p, r', by rw [hp]; rfl⟩
      · exact Or.inr ⟨ha, x :: p, d, key, by rw [hp]; rfl, ho⟩
  | send r o' ho' _ ih =>
    intro pre o post eq hw
    cases pre with
    | nil => simp only [List.nil_append, List.cons.injEq] at eq; rw [← eq.1] at hw; cases hw
    | cons x pre1 =>
      simp only [List.cons_append, List.cons.injEq] at eq
      cases pre1 with
      | nil =>
        simp only [List.nil_append, List.cons.injEq] at eq
        exact Or.inl ⟨[], r, by rw [eq.1]; rfl⟩
      | cons y pre2 =>
        simp only [List.cons_append, List.cons.injEq] at eq
        rcases ih pre2 o post eq.2.2 hw with ⟨p, r', hp⟩ | ⟨ha, p, d, key, hp, ho⟩
        · exact Or.inl ⟨x :: y :: p, r', by rw [hp]; rfl⟩
        · exact Or.inr ⟨ha, x :: y :: p, d, key, by rw [hp]; rfl, ho⟩

/-- with automatic pongs on, every Ping event of a `PhaseA` trace is directly preceded by the
    library's Pong frame for its payload -/
theorem PhaseA.ping_answered {A : List Obs} (h : PhaseA true A) :
    ∀ pre d post, A = pre ++ .ev (.ping d) :: post → ∃ key post', post = .wr (Pong.pongBytes d key) :: post' := by
  induction h with
  | nil => intro pre d post e; cases pre <;> cases e
  | ev e he _ ih =>
    intro pre d post eq
    cases pre with
    | nil =>
      simp only [List.nil_append, List.cons.injEq, Obs.ev.injEq] at eq
      have := he d eq.1
      cases this
    | cons x pre1 =>
      simp only [List.cons_append, List.cons.injEq] at eq
      exact ih pre1 d post eq.2
  | pong d' key ha _ ih =>
    intro pre d post eq
    cases pre with
    | nil =>
      simp only [List.nil_append, List.cons.injEq, Obs.ev.injEq, Event.ping.injEq] at eq
      exact ⟨key, _, by rw [← eq.2, eq.1]⟩
    | cons x pre1 =>
      simp only [List.cons_append, List.cons.injEq] at eq
      cases pre1 with
      | nil => simp at eq
      | cons y pre2 =>
        simp only [List.cons_append, List.cons.injEq] at eq
        exact ih pre2 d post eq.2.2
  | res r _ ih =>
    intro pre d post eq
    cases pre with
    | nil => simp at eq
    | cons x pre1 =>
      simp only [List.cons_append, List.cons.injEq] at eq
      exact ih pre1 d post eq.2
  | send r o' ho' _ ih =>
    intro pre d post eq
    cases pre with
    | nil => simp at eq
    | cons x pre1 =>
      simp only [List.cons_append, List.cons.injEq] at eq
      cases pre1 with
      | nil =>
        simp only [List.nil_append, List.cons.injEq] at eq
        rw [eq.2.1] at ho'; cases ho'
      | cons y pre2 =>
        simp only [List.cons_append, List.cons.injEq] at eq
        exact ih pre2 d post eq.2.2

/-- with automatic pongs off, the library writes nothing in a `PhaseA` trace -/
theorem PhaseA.no_pong {A : List Obs} (h : PhaseA false A) :
    ∀ pre o post, A = pre ++ o :: post → o.isWrite = true → ∃ pre' r, pre = pre' ++ [.res r] := by
  intro pre o post e hw
  rcases h.write_kinds pre o post e hw with h1 | ⟨ha, _⟩
  · exact h1
  · cases ha

/-- **events, and the library's Pong directly before each Ping event — nothing else**: the trace of
    an open websocket on which the application has made no call -/
inductive PongsOnly (auto : Bool) : List Obs → Prop
  | nil : PongsOnly auto []
  | ev (e : Event) {t : List Obs} (h : ∀ d, e = .ping d → auto = false) : PongsOnly auto t → PongsOnly auto (.ev e :: t)
  | pong (d key : Bytes) {t : List Obs} (h : auto = true) :
      PongsOnly auto t → PongsOnly auto (.ev (.ping d) :: .wr (Pong.pongBytes d key) :: t)

theorem PhaseA.pongsOnly {auto : Bool} {A : List Obs} (h : PhaseA auto A) (hn : NoRes A) : PongsOnly auto A := by
  induction h with
  | nil => exact .nil
  | ev e he _ ih => exact .ev e he (ih (fun r hm => hn r (List.mem_cons_of_mem _ hm)))
  | pong d key ha _ ih =>
    exact .pong d key ha (ih (fun r hm => hn r (List.mem_cons_of_mem _ (List.mem_cons_of_mem _ hm))))
  | res r _ _ => exact (hn r List.mem_cons_self).elim
  | send r o _ _ _ => exact (hn r List.mem_cons_self).elim

/-- the frames written on a `PongsOnly` trace, oldest first, are the Pongs for its Ping events, in
    the order of those events -/
theorem PongsOnly.written {A : List Obs} (h : PongsOnly true A) :
    ∃ keys : List Bytes,
      A.reverse.filterMap (fun o => match o with | .wr b => some b | _ => none) =
        List.zipWith Pong.pongBytes
          ((hist A).reverse.filterMap (fun e => match e with | .ping d => some d | _ => none)) keys ∧
      keys.length = ((hist A).reverse.filterMap (fun e => match e with | .ping d => some d | _ => none)).length := by
  induction h with
  | nil => exact ⟨[], rfl, rfl⟩
  | ev e he _ ih =>
    obtain ⟨keys, h1, h2⟩ := ih
    refine ⟨keys, ?_, ?_⟩
    · rw [hist_cons_ev]
      cases e with
      | ping d => have := he d rfl; cases this
      | _ => simpa using h1
    · rw [hist_cons_ev]
      cases e with
      | ping d => have := he d rfl; cases this
      | _ => simpa using h2
  | pong d key ha _ ih =>
    obtain ⟨keys, h1, h2⟩ := ih
    refine ⟨keys ++ [key], ?_, ?_⟩
    · rw [hist_cons_ev, hist_cons_nonEv _ _ rfl]
      simp only [List.reverse_cons, List.filterMap_append, List.filterMap_cons, List.filterMap_nil, List.append_nil]
      rw [h1, List.zipWith_append h2.symm]
      rfl
    · rw [hist_cons_ev, hist_cons_nonEv _ _ rfl]
      simp [h2]

end Lomond.Core.CR
