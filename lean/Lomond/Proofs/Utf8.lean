/-
  Helper lemmas for C05: the generated DFA equals a hand-written semantic
  state machine (`sstep`), and that machine recognises exactly `wf`.
-/
import Lomond.Model.Utf8

set_option linter.unusedSimpArgs false
set_option linter.unusedVariables false

namespace Lomond.Utf8

/-- semantic state machine over the DFA's state numbering:
    0 accept, 1 reject, 2 one tail, 3 two tails, 4 after E0, 5 after ED,
    6 after F0, 7 three tails, 8 after F4 -/
def sstep (s b : Nat) : Nat :=
  match s with
  | 0 =>
    if b < 0x80 then 0
    else if 0xC2 ≤ b ∧ b ≤ 0xDF then 2
    else if b = 0xE0 then 4
    else if (0xE1 ≤ b ∧ b ≤ 0xEC) ∨ b = 0xEE ∨ b = 0xEF then 3
    else if b = 0xED then 5
    else if b = 0xF0 then 6
    else if 0xF1 ≤ b ∧ b ≤ 0xF3 then 7
    else if b = 0xF4 then 8
    else 1
  | 2 => if 0x80 ≤ b ∧ b ≤ 0xBF then 0 else 1
  | 3 => if 0x80 ≤ b ∧ b ≤ 0xBF then 2 else 1
  | 4 => if 0xA0 ≤ b ∧ b ≤ 0xBF then 2 else 1
  | 5 => if 0x80 ≤ b ∧ b ≤ 0x9F then 2 else 1
  | 6 => if 0x90 ≤ b ∧ b ≤ 0xBF then 3 else 1
  | 7 => if 0x80 ≤ b ∧ b ≤ 0xBF then 3 else 1
  | 8 => if 0x80 ≤ b ∧ b ≤ 0x8F then 3 else 1
  | _ => 1

/-- class table restricted to bytes, as a finite statement -/
def clsSpec (b : Nat) : Nat :=
  if b < 0x80 then 0
  else if b < 0x90 then 1
  else if b < 0xA0 then 9
  else if b < 0xC0 then 7
  else if b < 0xC2 then 8
  else if b < 0xE0 then 2
  else if b = 0xE0 then 10
  else if b < 0xED then 3
  else if b = 0xED then 4
  else if b < 0xF0 then 3
  else if b = 0xF0 then 11
  else if b < 0xF4 then 6
  else if b = 0xF4 then 5
  else 8

theorem cls_table : ∀ b : Fin 256, cls b.val = clsSpec b.val := by decide +kernel

/-- transition by (state, class) expressed through a representative byte of the class -/
def clsRep : List Nat := [0x00, 0x80, 0xC2, 0xE1, 0xED, 0xF4, 0xF1, 0xA0, 0xC0, 0x90, 0xE0, 0xF0]

theorem clsSpec_rep : ∀ c : Fin 12, clsSpec (clsRep.getD c.val 0) = c.val := by decide +kernel

theorem trans_table : ∀ s : Fin 9, ∀ c : Fin 12, trans s.val c.val = sstep s.val (clsRep.getD c.val 0) := by
  decide +kernel

theorem clsSpec_lt : ∀ b : Fin 256, clsSpec b.val < 12 := by decide +kernel

/-- `sstep` depends on the byte only through its class -/
theorem sstep_cls : ∀ s : Fin 9, ∀ b : Fin 256,
    sstep s.val b.val = sstep s.val (clsRep.getD (clsSpec b.val) 0) := by decide +kernel

theorem step_eq_sstep (s b : Nat) (hs : s < 9) (hb : b < 256) : step s b = sstep s b := by
  have h1 := cls_table ⟨b, hb⟩
  have h2 := clsSpec_lt ⟨b, hb⟩
  have h3 := trans_table ⟨s, hs⟩ ⟨clsSpec b, h2⟩
  have h4 := sstep_cls ⟨s, hs⟩ ⟨b, hb⟩
  simp only at h1 h2 h3 h4
  unfold step
  rw [h1, h3, ← h4]

theorem sstep_lt (s b : Nat) : sstep s b < 9 := by
  unfold sstep
  split <;> (repeat' split) <;> omega

theorem step_lt (s b : Nat) (hs : s < 9) (hb : b < 256) : step s b < 9 := by
  rw [step_eq_sstep s b hs hb]; exact sstep_lt s b

theorem sstep_reject (b : Nat) : sstep 1 b = 1 := by
  unfold sstep; rfl

def srun (s : Nat) (bs : Bytes) : Nat := bs.foldl sstep s

theorem run_eq_srun (s : Nat) (bs : Bytes) (hs : s < 9) (hb : Bytes.WF bs) :
    run s bs = srun s bs := by
  induction bs generalizing s with
  | nil => rfl
  | cons b r ih =>
    have hb0 : b < 256 := hb b (by simp)
    have hr : Bytes.WF r := fun x hx => hb x (by simp [hx])
    simp only [run, srun, List.foldl_cons]
    rw [step_eq_sstep s b hs hb0]
    exact ih (sstep s b) (sstep_lt s b) hr

theorem srun_reject (bs : Bytes) : srun 1 bs = 1 := by
  induction bs with
  | nil => rfl
  | cons b r ih => simp only [srun, List.foldl_cons, sstep_reject]; exact ih

theorem srun_append (s : Nat) (a b : Bytes) : srun s (a ++ b) = srun (srun s a) b := by
  simp [srun, List.foldl_append]

/-- what remains to be recognised from state `s` -/
def wfFrom (s : Nat) (bs : Bytes) : Bool :=
  match s, bs with
  | 0, bs => wf bs
  | 2, b1 :: r => isTail b1 && wf r
  | 3, b1 :: b2 :: r => isTail b1 && isTail b2 && wf r
  | 4, b1 :: b2 :: r => (0xA0 ≤ b1 && b1 ≤ 0xBF) && isTail b2 && wf r
  | 5, b1 :: b2 :: r => (0x80 ≤ b1 && b1 ≤ 0x9F) && isTail b2 && wf r
  | 6, b1 :: b2 :: b3 :: r => (0x90 ≤ b1 && b1 ≤ 0xBF) && isTail b2 && isTail b3 && wf r
  | 7, b1 :: b2 :: b3 :: r => isTail b1 && isTail b2 && isTail b3 && wf r
  | 8, b1 :: b2 :: b3 :: r => (0x80 ≤ b1 && b1 ≤ 0x8F) && isTail b2 && isTail b3 && wf r
  | _, _ => false

theorem wfFrom_nil (s : Nat) : wfFrom s [] = (s == 0) := by
  unfold wfFrom
  split <;> simp_all [wf]

theorem wfFrom_reject (bs : Bytes) : wfFrom 1 bs = false := by
  unfold wfFrom; split <;> simp_all


@[simp] theorem wfFrom_0 (bs : Bytes) : wfFrom 0 bs = wf bs := by simp [wfFrom]
@[simp] theorem wfFrom_2 (b1 : Nat) (r : Bytes) : wfFrom 2 (b1 :: r) = (isTail b1 && wf r) := by simp [wfFrom]
@[simp] theorem wfFrom_3 (b1 b2 : Nat) (r : Bytes) : wfFrom 3 (b1 :: b2 :: r) = (isTail b1 && isTail b2 && wf r) := by simp [wfFrom]
@[simp] theorem wfFrom_3' (b1 : Nat) : wfFrom 3 [b1] = false := by simp [wfFrom]
@[simp] theorem wfFrom_2' (b1 : Nat) : wfFrom 2 [] = false := by simp [wfFrom]

theorem wfFrom_cons (s b : Nat) (r : Bytes) : wfFrom s (b :: r) = wfFrom (sstep s b) r := by
  match s with
  | 0 =>
    simp only [sstep]
    rw [show wfFrom 0 (b :: r) = wf (b :: r) by simp [wfFrom]]
    unfold wf
    split
    · simp [wfFrom]
    · split
      · cases r <;> simp [wfFrom]
      · split
        · rcases r with _ | ⟨b1, _ | ⟨b2, r'⟩⟩ <;> simp [wfFrom]
        · split
          · rcases r with _ | ⟨b1, _ | ⟨b2, r'⟩⟩ <;> simp [wfFrom]
          · split
            · rcases r with _ | ⟨b1, _ | ⟨b2, r'⟩⟩ <;> simp [wfFrom]
            · split
              · rcases r with _ | ⟨b1, _ | ⟨b2, _ | ⟨b3, r'⟩⟩⟩ <;> simp [wfFrom]
              · split
                · rcases r with _ | ⟨b1, _ | ⟨b2, _ | ⟨b3, r'⟩⟩⟩ <;> simp [wfFrom]
                · split
                  · rcases r with _ | ⟨b1, _ | ⟨b2, _ | ⟨b3, r'⟩⟩⟩ <;> simp [wfFrom]
                  · simp [wfFrom_reject]
  | 1 => simp [sstep_reject, wfFrom_reject]
  | 2 =>
    by_cases h : 0x80 ≤ b ∧ b ≤ 0xBF
    · simp [sstep, h, isTail]
    · simp only [sstep, h, if_false, wfFrom_reject, wfFrom_2, isTail]
      simp; omega
  | 3 =>
    by_cases h : 0x80 ≤ b ∧ b ≤ 0xBF
    · rcases r with _ | ⟨b1, r'⟩ <;> simp [sstep, h, isTail, wfFrom]
    · rcases r with _ | ⟨b1, r'⟩ <;> simp [sstep, h, isTail, wfFrom, wfFrom_reject] <;> omega
  | 4 =>
    by_cases h : 0xA0 ≤ b ∧ b ≤ 0xBF
    · rcases r with _ | ⟨b1, r'⟩ <;> simp [sstep, h, isTail, wfFrom]
    · rcases r with _ | ⟨b1, r'⟩ <;> simp [sstep, h, isTail, wfFrom, wfFrom_reject] <;> omega
  | 5 =>
    by_cases h : 0x80 ≤ b ∧ b ≤ 0x9F
    · rcases r with _ | ⟨b1, r'⟩ <;> simp [sstep, h, isTail, wfFrom]
    · rcases r with _ | ⟨b1, r'⟩ <;> simp [sstep, h, isTail, wfFrom, wfFrom_reject] <;> omega
  | 6 =>
    by_cases h : 0x90 ≤ b ∧ b ≤ 0xBF
    · rcases r with _ | ⟨b1, _ | ⟨b2, r'⟩⟩ <;> simp [sstep, h, isTail, wfFrom]
    · rcases r with _ | ⟨b1, _ | ⟨b2, r'⟩⟩ <;> simp [sstep, h, isTail, wfFrom, wfFrom_reject] <;> omega
  | 7 =>
    by_cases h : 0x80 ≤ b ∧ b ≤ 0xBF
    · rcases r with _ | ⟨b1, _ | ⟨b2, r'⟩⟩ <;> simp [sstep, h, isTail, wfFrom]
    · rcases r with _ | ⟨b1, _ | ⟨b2, r'⟩⟩ <;> simp [sstep, h, isTail, wfFrom, wfFrom_reject] <;> omega
  | 8 =>
    by_cases h : 0x80 ≤ b ∧ b ≤ 0x8F
    · rcases r with _ | ⟨b1, _ | ⟨b2, r'⟩⟩ <;> simp [sstep, h, isTail, wfFrom]
    · rcases r with _ | ⟨b1, _ | ⟨b2, r'⟩⟩ <;> simp [sstep, h, isTail, wfFrom, wfFrom_reject] <;> omega
  | n + 9 => simp [sstep, wfFrom, wfFrom_reject]

theorem wfFrom_eq_srun (s : Nat) (bs : Bytes) : wfFrom s bs = (srun s bs == 0) := by
  induction bs generalizing s with
  | nil => simp [wfFrom_nil, srun]
  | cons b r ih => rw [wfFrom_cons, ih]; simp [srun]

/-- the DFA accepts exactly the well-formed strings -/
theorem srun_zero_iff_wf (bs : Bytes) : srun 0 bs = 0 ↔ wf bs = true := by
  have := wfFrom_eq_srun 0 bs
  simp at this
  rw [this]; simp


/-! ### `validate` (early exit) versus the plain fold -/

theorem validate_append (s : Nat) (a b : Bytes) :
    validate s (a ++ b) = (validate s a).bind (fun s' => validate s' b) := by
  induction a generalizing s with
  | nil => simp [validate]
  | cons x r ih =>
    simp only [List.cons_append, validate]
    split
    · simp
    · exact ih _

theorem validate_eq_run (s : Nat) (bs : Bytes) (hs : s < 9) (h1 : s ≠ 1) (hb : Bytes.WF bs) :
    validate s bs = if srun s bs = 1 then none else some (srun s bs) := by
  induction bs generalizing s with
  | nil => simp [validate, srun, h1]
  | cons b r ih =>
    have hb0 : b < 256 := hb b (by simp)
    have hr : Bytes.WF r := fun x hx => hb x (by simp [hx])
    simp only [validate, step_eq_sstep s b hs hb0, srun, List.foldl_cons]
    by_cases h : sstep s b = 1
    · have : Gen.utf8Reject = 1 := rfl
      simp only [h, this, if_true]
      have := srun_reject r
      simp only [srun] at this
      simp [this]
    · have e : Gen.utf8Reject = 1 := rfl
      simp only [e, h, if_false]
      exact ih (sstep s b) (sstep_lt s b) h hr

/-- a completing suffix for every non-rejecting state -/
def completion (s : Nat) : Bytes :=
  match s with
  | 0 => []
  | 2 => [0x80]
  | 3 => [0x80, 0x80]
  | 4 => [0xA0, 0x80]
  | 5 => [0x80, 0x80]
  | 6 => [0x90, 0x80, 0x80]
  | 7 => [0x80, 0x80, 0x80]
  | 8 => [0x80, 0x80, 0x80]
  | _ => []

theorem completion_accepts : ∀ s : Fin 9, s.val ≠ 1 → srun s.val (completion s.val) = 0 := by
  decide

theorem srun_lt (s : Nat) (bs : Bytes) (hs : s < 9) : srun s bs < 9 := by
  induction bs generalizing s with
  | nil => simpa [srun]
  | cons b r ih => simp only [srun, List.foldl_cons]; exact ih _ (sstep_lt s b)

/-! ### decoder / encoder -/

theorem decode_isSome (bs : Bytes) : (decode bs).isSome = wf bs := by
  fun_induction decode bs <;> (rw [wf.eq_def]; simp [*])
  all_goals (first | omega | skip)

theorem decode_1 (b0 : Nat) (r : Bytes) (h : b0 < 128) :
    decode (b0 :: r) = (decode r).map (b0 :: ·) := by
  rw [decode.eq_def]; simp [h]

theorem decode_2 (b0 b1 : Nat) (r : Bytes) (h0 : 194 ≤ b0 ∧ b0 ≤ 223) (h1 : 128 ≤ b1 ∧ b1 ≤ 191) :
    decode (b0 :: b1 :: r) = (decode r).map (cp2 b0 b1 :: ·) := by
  rw [decode.eq_def]
  have : ¬ b0 < 128 := by omega
  simp [this, h0, h1, isTail]

def valid3 (b0 b1 : Nat) : Prop :=
  (b0 = 224 ∧ 160 ≤ b1 ∧ b1 ≤ 191) ∨
  ((225 ≤ b0 ∧ b0 ≤ 236 ∨ b0 = 238 ∨ b0 = 239) ∧ 128 ≤ b1 ∧ b1 ≤ 191) ∨
  (b0 = 237 ∧ 128 ≤ b1 ∧ b1 ≤ 159)

theorem decode_3 (b0 b1 b2 : Nat) (r : Bytes) (h0 : valid3 b0 b1) (h2 : 128 ≤ b2 ∧ b2 ≤ 191) :
    decode (b0 :: b1 :: b2 :: r) = (decode r).map (cp3 b0 b1 b2 :: ·) := by
  rw [decode.eq_def]
  rcases h0 with ⟨e, h⟩ | ⟨e, h⟩ | ⟨e, h⟩
  · subst e; simp [h, h2, isTail]
  · have a1 : ¬ b0 < 128 := by omega
    have a2 : ¬ (194 ≤ b0 ∧ b0 ≤ 223) := by omega
    have a3 : ¬ b0 = 224 := by omega
    simp [a1, a2, a3, e, h, h2, isTail]
  · subst e; simp [h, h2, isTail]

def valid4 (b0 b1 : Nat) : Prop :=
  (b0 = 240 ∧ 144 ≤ b1 ∧ b1 ≤ 191) ∨
  ((241 ≤ b0 ∧ b0 ≤ 243) ∧ 128 ≤ b1 ∧ b1 ≤ 191) ∨
  (b0 = 244 ∧ 128 ≤ b1 ∧ b1 ≤ 143)

theorem decode_4 (b0 b1 b2 b3 : Nat) (r : Bytes) (h0 : valid4 b0 b1) (h2 : 128 ≤ b2 ∧ b2 ≤ 191)
    (h3 : 128 ≤ b3 ∧ b3 ≤ 191) :
    decode (b0 :: b1 :: b2 :: b3 :: r) = (decode r).map (cp4 b0 b1 b2 b3 :: ·) := by
  rw [decode.eq_def]
  rcases h0 with ⟨e, h⟩ | ⟨e, h⟩ | ⟨e, h⟩
  · subst e; simp [h, h2, h3, isTail]
  · have a1 : ¬ b0 < 128 := by omega
    have a2 : ¬ (194 ≤ b0 ∧ b0 ≤ 223) := by omega
    have a3 : ¬ b0 = 224 := by omega
    have a4 : ¬ (225 ≤ b0 ∧ b0 ≤ 236 ∨ b0 = 238 ∨ b0 = 239) := by omega
    have a5 : ¬ b0 = 237 := by omega
    have a6 : ¬ b0 = 240 := by omega
    simp [a1, a2, a3, a4, a5, a6, e, h, h2, h3, isTail]
  · subst e; simp [h, h2, h3, isTail]

theorem decode_encodeOne (c : Nat) (r : Bytes) (hc : isScalar c = true) :
    decode (encodeOne c ++ r) = (decode r).map (c :: ·) := by
  simp only [isScalar, Bool.or_eq_true, Bool.and_eq_true, decide_eq_true_eq] at hc
  unfold encodeOne
  split
  · rename_i h; simpa using decode_1 c r h
  · split
    · rename_i h1 h2
      have := decode_2 (192 + c / 64) (128 + c % 64) r (by omega) (by omega)
      have e4 : cp2 (192 + c / 64) (128 + c % 64) = c := by unfold cp2; omega
      simpa [e4] using this
    · split
      · rename_i h1 h2 h3
        have := decode_3 (224 + c / 4096) (128 + c / 64 % 64) (128 + c % 64) r
          (by unfold valid3; omega) (by omega)
        have e4 : cp3 (224 + c / 4096) (128 + c / 64 % 64) (128 + c % 64) = c := by
          unfold cp3; omega
        simpa [e4] using this
      · rename_i h1 h2 h3
        have := decode_4 (240 + c / 262144) (128 + c / 4096 % 64) (128 + c / 64 % 64) (128 + c % 64) r
          (by unfold valid4; omega) (by omega) (by omega)
        have e4 : cp4 (240 + c / 262144) (128 + c / 4096 % 64) (128 + c / 64 % 64) (128 + c % 64) = c := by
          unfold cp4; omega
        simpa [e4] using this

theorem decode_encode (cs : List Nat) (h : ∀ c ∈ cs, isScalar c = true) :
    decode (encode cs) = some cs := by
  induction cs with
  | nil => simp [encode, decode]
  | cons c r ih =>
    have hc := h c (by simp)
    have hr : ∀ x ∈ r, isScalar x = true := fun x hx => h x (by simp [hx])
    simp only [encode, List.flatMap_cons] at *
    rw [decode_encodeOne c _ hc, ih hr]; rfl


theorem encodeOne_cp2 (b0 b1 : Nat) (h0 : 194 ≤ b0 ∧ b0 ≤ 223) (h1 : 128 ≤ b1 ∧ b1 ≤ 191) :
    encodeOne (cp2 b0 b1) = [b0, b1] ∧ isScalar (cp2 b0 b1) = true := by
  unfold cp2 encodeOne isScalar
  have a1 : ¬ ((b0 - 192) * 64 + (b1 - 128) < 128) := by omega
  have a2 : (b0 - 192) * 64 + (b1 - 128) < 2048 := by omega
  simp only [a1, a2, if_true, if_false]
  refine ⟨?_, ?_⟩
  · simp only [List.cons.injEq, and_true]; omega
  · simp only [Bool.or_eq_true, Bool.and_eq_true, decide_eq_true_eq]; omega

theorem encodeOne_cp3 (b0 b1 b2 : Nat) (h0 : valid3 b0 b1) (h2 : 128 ≤ b2 ∧ b2 ≤ 191) :
    encodeOne (cp3 b0 b1 b2) = [b0, b1, b2] ∧ isScalar (cp3 b0 b1 b2) = true := by
  unfold cp3 encodeOne isScalar
  unfold valid3 at h0
  have a1 : ¬ ((b0 - 224) * 4096 + (b1 - 128) * 64 + (b2 - 128) < 128) := by omega
  have a2 : ¬ ((b0 - 224) * 4096 + (b1 - 128) * 64 + (b2 - 128) < 2048) := by omega
  have a3 : (b0 - 224) * 4096 + (b1 - 128) * 64 + (b2 - 128) < 65536 := by omega
  simp only [a1, a2, a3, if_true, if_false]
  refine ⟨?_, ?_⟩
  · simp only [List.cons.injEq, and_true]; omega
  · simp only [Bool.or_eq_true, Bool.and_eq_true, decide_eq_true_eq]; omega

theorem encodeOne_cp4 (b0 b1 b2 b3 : Nat) (h0 : valid4 b0 b1) (h2 : 128 ≤ b2 ∧ b2 ≤ 191)
    (h3 : 128 ≤ b3 ∧ b3 ≤ 191) :
    encodeOne (cp4 b0 b1 b2 b3) = [b0, b1, b2, b3] ∧ isScalar (cp4 b0 b1 b2 b3) = true := by
  unfold cp4 encodeOne isScalar
  unfold valid4 at h0
  have a1 : ¬ ((b0 - 240) * 262144 + (b1 - 128) * 4096 + (b2 - 128) * 64 + (b3 - 128) < 128) := by omega
  have a2 : ¬ ((b0 - 240) * 262144 + (b1 - 128) * 4096 + (b2 - 128) * 64 + (b3 - 128) < 2048) := by omega
  have a3 : ¬ ((b0 - 240) * 262144 + (b1 - 128) * 4096 + (b2 - 128) * 64 + (b3 - 128) < 65536) := by omega
  simp only [a1, a2, a3, if_true, if_false]
  refine ⟨?_, ?_⟩
  · simp only [List.cons.injEq, and_true]; omega
  · simp only [Bool.or_eq_true, Bool.and_eq_true, decide_eq_true_eq]; omega

theorem encode_decode_step (pre r bs' : Bytes) (cp : Nat) (cs : List Nat)
    (h : Option.map (fun x => cp :: x) (decode r) = some cs)
    (ih : ∀ cs, decode r = some cs → encode cs = r ∧ ∀ c ∈ cs, isScalar c = true)
    (henc : encodeOne cp = pre ∧ isScalar cp = true) (hb : bs' = pre ++ r) :
    encode cs = bs' ∧ ∀ c ∈ cs, isScalar c = true := by
  simp only [Option.map_eq_some_iff] at h
  obtain ⟨cs', hd, rfl⟩ := h
  obtain ⟨e, sc⟩ := ih cs' hd
  subst hb
  refine ⟨?_, ?_⟩
  · simp only [encode, List.flatMap_cons] at e ⊢; rw [henc.1, e]
  · intro c hc
    simp only [List.mem_cons] at hc
    rcases hc with rfl | hc
    · exact henc.2
    · exact sc c hc

theorem encode_decode (bs : Bytes) (cs : List Nat) (h : decode bs = some cs) :
    encode cs = bs ∧ ∀ c ∈ cs, isScalar c = true := by
  fun_induction decode bs generalizing cs
  all_goals try (simp at h; done)
  case case1 => simp at h; subst h; simp [encode]
  case case2 b0 r hb ih =>
    refine encode_decode_step [b0] r _ b0 cs h ih ⟨by unfold encodeOne; rw [if_pos hb], by simp only [isScalar, Bool.or_eq_true, Bool.and_eq_true, decide_eq_true_eq]; omega⟩ rfl
  case case3 b0 h1 h2 b1 r' h3 ih =>
    simp only [isTail, Bool.and_eq_true, decide_eq_true_eq] at h3
    exact encode_decode_step [b0, b1] r' _ _ cs h ih (encodeOne_cp2 b0 b1 h2 h3) rfl
  case case6 b1 b2 r' h1 _ _ ih =>
    simp only [isTail, Bool.and_eq_true, decide_eq_true_eq] at h1
    exact encode_decode_step [224, b1, b2] r' _ _ cs h ih
      (encodeOne_cp3 224 b1 b2 (Or.inl ⟨rfl, h1.1⟩) h1.2) rfl
  case case9 b0 _ _ _ h1 b1 b2 r' h2 ih =>
    simp only [isTail, Bool.and_eq_true, decide_eq_true_eq] at h2
    exact encode_decode_step [b0, b1, b2] r' _ _ cs h ih
      (encodeOne_cp3 b0 b1 b2 (Or.inr (Or.inl ⟨h1, h2.1⟩)) h2.2) rfl
  case case12 b1 b2 r' h1 _ _ _ _ ih =>
    simp only [isTail, Bool.and_eq_true, decide_eq_true_eq] at h1
    exact encode_decode_step [237, b1, b2] r' _ _ cs h ih
      (encodeOne_cp3 237 b1 b2 (Or.inr (Or.inr ⟨rfl, h1.1⟩)) h1.2) rfl
  case case15 b1 b2 b3 r' h1 _ _ _ _ _ ih =>
    simp only [isTail, Bool.and_eq_true, decide_eq_true_eq] at h1
    exact encode_decode_step [240, b1, b2, b3] r' _ _ cs h ih
      (encodeOne_cp4 240 b1 b2 b3 (Or.inl ⟨rfl, h1.1.1⟩) h1.1.2 h1.2) rfl
  case case18 b0 _ _ _ _ _ _ h1 b1 b2 b3 r' h2 ih =>
    simp only [isTail, Bool.and_eq_true, decide_eq_true_eq] at h2
    exact encode_decode_step [b0, b1, b2, b3] r' _ _ cs h ih
      (encodeOne_cp4 b0 b1 b2 b3 (Or.inr (Or.inl ⟨h1, h2.1.1⟩)) h2.1.2 h2.2) rfl
  case case21 b1 b2 b3 r' h1 _ _ _ _ _ _ _ ih =>
    simp only [isTail, Bool.and_eq_true, decide_eq_true_eq] at h1
    exact encode_decode_step [244, b1, b2, b3] r' _ _ cs h ih
      (encodeOne_cp4 244 b1 b2 b3 (Or.inr (Or.inr ⟨rfl, h1.1.1⟩)) h1.1.2 h1.2) rfl

end Lomond.Utf8
