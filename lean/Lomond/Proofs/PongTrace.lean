/-
  C14, run level — the *trace grammar* of automatic Pongs and its list-level consequences.

  The trace of a connection (newest first) is built from four kinds of pieces:
    * a plain entry: anything that is neither a Pong frame handed to `sendall` nor a Ping event;
    * an application call: the (at most one) entry the call produced, then its result token `.res`;
    * an answered Ping: a Pong frame for payload `d` handed to `sendall` (`.wr` or `.wrFail`), then
      immediately the event `Ping d` — only with automatic pongs on and only when the part of the
      trace before it shows a usable connection (`usable`: no `sockClose`, no Close frame handed to
      `sendall`);
    * a skipped Ping: the event `Ping d` alone — only with automatic pongs off or when the trace
      before it shows an unusable connection.
  `Good auto tr` is that grammar.  Proofs/PongRun.lean shows that the trace of every run satisfies
  it; this file derives, for any `Good` trace, Ping ⇒ Pong, Pong ⇒ Ping and the counting statement.
-/
import Lomond.Proofs.Pong
import Lomond.Proofs.Closing
set_option linter.unusedSimpArgs false
set_option linter.unusedVariables false
namespace Lomond.Core
open Lomond

/-- first byte `0x8A`: FIN + opcode Pong -/
def isPongBytes (b : Bytes) : Bool := b.head? == some 138

/-- a Pong frame handed to `sendall` (successfully or not) -/
def Obs.pongOut : Obs → Bool
  | .wr b => isPongBytes b
  | .wrFail b => isPongBytes b
  | _ => false

/-- a Ping event handed to the application -/
def Obs.pingEv : Obs → Bool
  | .ev (.ping _) => true
  | _ => false

def Obs.sockCl : Obs → Bool
  | .sockClose => true
  | _ => false

/-- a `sendall` that raised -/
def Obs.isFail : Obs → Bool
  | .wrFail _ => true
  | _ => false

def Obs.resTok : Obs → Bool
  | .res _ => true
  | _ => false

namespace PongRun
open Lomond.Core.Pong

/-- the trace (newest first) records that the socket was closed -/
def hasSockClose (tr : List Obs) : Bool := tr.any Obs.sockCl

/-- the trace shows why `send_pong` would be refused: the socket was closed (`session.close()`,
    disconnect) or a Close frame was handed to `sendall` (the websocket is closing or closed) -/
def marked (tr : List Obs) : Bool := hasSockClose tr || hasClose tr

/-- **the connection is usable as far as the trace tells**: no `sockClose`, no Close frame handed
    to `sendall` so far -/
def usable (tr : List Obs) : Bool := !marked tr

/-- `o` is the Pong frame for payload `d` handed to `sendall`: written, or the write failed -/
def IsPongFor (d : Bytes) (o : Obs) : Prop :=
  ∃ key, o = .wr (pongBytes d key) ∨ o = .wrFail (pongBytes d key)

theorem isPongBytes_pongBytes (d key : Bytes) : isPongBytes (pongBytes d key) = true := by
  simp [isPongBytes, pongBytes]

theorem isCloseBytes_pongBytes (d key : Bytes) : isCloseBytes (pongBytes d key) = false := by
  simp [isCloseBytes, pongBytes]

theorem IsPongFor.pongOut {d : Bytes} {o : Obs} (h : IsPongFor d o) : o.pongOut = true := by
  obtain ⟨k, rfl | rfl⟩ := h <;> exact isPongBytes_pongBytes d k

theorem IsPongFor.isClose {d : Bytes} {o : Obs} (h : IsPongFor d o) : o.isClose = false := by
  obtain ⟨k, rfl | rfl⟩ := h <;> exact isCloseBytes_pongBytes d k

theorem IsPongFor.sockCl {d : Bytes} {o : Obs} (h : IsPongFor d o) : o.sockCl = false := by
  obtain ⟨k, rfl | rfl⟩ := h <;> rfl

theorem IsPongFor.pingEv {d : Bytes} {o : Obs} (h : IsPongFor d o) : o.pingEv = false := by
  obtain ⟨k, rfl | rfl⟩ := h <;> rfl

theorem IsPongFor.resTok {d : Bytes} {o : Obs} (h : IsPongFor d o) : o.resTok = false := by
  obtain ⟨k, rfl | rfl⟩ := h <;> rfl

theorem IsPongFor.isWrite {d : Bytes} {o : Obs} (h : IsPongFor d o) : o.isWrite = true := by
  obtain ⟨k, rfl | rfl⟩ := h <;> rfl

theorem hasSockClose_cons (o : Obs) (tr : List Obs) :
    hasSockClose (o :: tr) = (o.sockCl || hasSockClose tr) := by simp [hasSockClose]

theorem marked_cons (o : Obs) (tr : List Obs) :
    marked (o :: tr) = (o.sockCl || o.isClose || marked tr) := by
  simp only [marked, hasSockClose_cons, hasClose_cons]
  cases o.sockCl <;> cases o.isClose <;> cases hasSockClose tr <;> cases hasClose tr <;> rfl

theorem marked_cons_of (o : Obs) (tr : List Obs) (h1 : o.sockCl = false) (h2 : o.isClose = false) :
    marked (o :: tr) = marked tr := by rw [marked_cons, h1, h2]; rfl

theorem usable_cons_of (o : Obs) (tr : List Obs) (h1 : o.sockCl = false) (h2 : o.isClose = false) :
    usable (o :: tr) = usable tr := by unfold usable; rw [marked_cons_of o tr h1 h2]

theorem marked_mono (o : Obs) (tr : List Obs) (h : marked tr = true) : marked (o :: tr) = true := by
  rw [marked_cons, h]; simp

theorem marked_append (l tr : List Obs) (h : marked tr = true) : marked (l ++ tr) = true := by
  induction l with
  | nil => exact h
  | cons o l ih => exact marked_mono o _ ih

theorem usable_suffix (l tr : List Obs) (h : usable (l ++ tr) = true) : usable tr = true := by
  unfold usable at *
  cases hm : marked tr
  · rfl
  · rw [marked_append l tr hm] at h; cases h

theorem usable_pong {d : Bytes} {o : Obs} (h : IsPongFor d o) (tr : List Obs) :
    usable (o :: tr) = usable tr := usable_cons_of o tr h.sockCl h.isClose

/-- the newest entry is not a Pong frame handed to `sendall` -/
def NoPongTop (tr : List Obs) : Prop := ∀ o, tr.head? = some o → o.pongOut = false

/-! ### the grammar -/

inductive Good (auto : Bool) : List Obs → Prop
  | nil : Good auto []
  | plain {o : Obs} {t : List Obs} : o.pongOut = false → o.pingEv = false → Good auto t → Good auto (o :: t)
  | app {r : ActRes} {o : Obs} {t : List Obs} : o.pingEv = false → Good auto t → Good auto (.res r :: o :: t)
  | answered {d : Bytes} {o : Obs} {t : List Obs} : auto = true → usable t = true → IsPongFor d o →
      Good auto t → Good auto (.ev (.ping d) :: o :: t)
  | skipped {d : Bytes} {t : List Obs} : (auto && usable t) = false → Good auto t →
      Good auto (.ev (.ping d) :: t)

theorem Good.top {auto : Bool} {t : List Obs} (h : Good auto t) : NoPongTop t := by
  intro o ho
  cases h with
  | nil => cases ho
  | plain h1 _ _ => simp only [List.head?_cons, Option.some.injEq] at ho; subst ho; exact h1
  | app _ _ => simp only [List.head?_cons, Option.some.injEq] at ho; subst ho; rfl
  | answered _ _ _ _ => simp only [List.head?_cons, Option.some.injEq] at ho; subst ho; rfl
  | skipped _ _ => simp only [List.head?_cons, Option.some.injEq] at ho; subst ho; rfl

/-- a trace without Pong frames and without Ping events -/
theorem Good.of_plain (auto : Bool) (t : List Obs) (h : ∀ o ∈ t, o.pongOut = false ∧ o.pingEv = false) :
    Good auto t := by
  induction t with
  | nil => exact .nil
  | cons o t ih =>
    exact .plain (h o List.mem_cons_self).1 (h o List.mem_cons_self).2
      (ih (fun o' ho' => h o' (List.mem_cons_of_mem _ ho')))

/-- plain entries on top of a good trace -/
theorem Good.append_plain {auto : Bool} (l t : List Obs) (h : ∀ o ∈ l, o.pongOut = false ∧ o.pingEv = false)
    (ht : Good auto t) : Good auto (l ++ t) := by
  induction l with
  | nil => exact ht
  | cons o l ih =>
    exact .plain (h o List.mem_cons_self).1 (h o List.mem_cons_self).2
      (ih (fun o' ho' => h o' (List.mem_cons_of_mem _ ho')))

/-! ### Ping ⇒ Pong -/

/-- what the trace says about the Ping event `Ping d` whose older part is `post` -/
def Answered (auto : Bool) (d : Bytes) (post : List Obs) : Prop :=
  if (auto && usable post) = true then
    ∃ o post', post = o :: post' ∧ IsPongFor d o ∧ NoPongTop post'
  else NoPongTop post

theorem Good.ping {auto : Bool} {tr : List Obs} (h : Good auto tr) :
    ∀ pre d post, tr = pre ++ .ev (.ping d) :: post → Answered auto d post := by
  induction h with
  | nil => intro pre d post e; cases pre <;> cases e
  | @plain o t h1 h2 ht ih =>
    intro pre d post e
    cases pre with
    | nil => simp only [List.nil_append, List.cons.injEq] at e; rw [e.1] at h2; cases h2
    | cons x pre' => simp only [List.cons_append, List.cons.injEq] at e; exact ih pre' d post e.2
  | @app r o t h2 ht ih =>
    intro pre d post e
    cases pre with
    | nil => simp at e
    | cons x pre' =>
      simp only [List.cons_append, List.cons.injEq] at e
      cases pre' with
      | nil => simp only [List.nil_append, List.cons.injEq] at e; rw [e.2.1] at h2; cases h2
      | cons y pre'' => simp only [List.cons_append, List.cons.injEq] at e; exact ih pre'' d post e.2.2
  | @answered d' o t ha hu hp ht ih =>
    intro pre d post e
    cases pre with
    | nil =>
      simp only [List.nil_append, List.cons.injEq, Obs.ev.injEq, Event.ping.injEq] at e
      obtain ⟨rfl, rfl⟩ := e
      unfold Answered
      rw [if_pos (by rw [ha, usable_pong hp, hu]; rfl)]
      exact ⟨o, t, rfl, hp, ht.top⟩
    | cons x pre' =>
      simp only [List.cons_append, List.cons.injEq] at e
      cases pre' with
      | nil =>
        simp only [List.nil_append, List.cons.injEq] at e
        have := hp.pingEv; rw [e.2.1] at this; cases this
      | cons y pre'' => simp only [List.cons_append, List.cons.injEq] at e; exact ih pre'' d post e.2.2
  | @skipped d' t hc ht ih =>
    intro pre d post e
    cases pre with
    | nil =>
      simp only [List.nil_append, List.cons.injEq, Obs.ev.injEq, Event.ping.injEq] at e
      obtain ⟨rfl, rfl⟩ := e
      unfold Answered
      rw [if_neg (by rw [hc]; simp)]
      exact ht.top
    | cons x pre' => simp only [List.cons_append, List.cons.injEq] at e; exact ih pre' d post e.2

/-! ### Pong ⇒ Ping (or an application call) -/

/-- what the trace says about a Pong frame `o` handed to `sendall`, `pre` being the newer part of
    the trace and `post` the older one: it was written by an application call (its result token
    follows), or it is the automatic Pong for the Ping event that follows immediately -/
def Accounted (auto : Bool) (pre : List Obs) (o : Obs) (post : List Obs) : Prop :=
  (∃ pre' r, pre = pre' ++ [.res r]) ∨
  (auto = true ∧ usable post = true ∧ ∃ pre' d, pre = pre' ++ [.ev (.ping d)] ∧ IsPongFor d o)

theorem Accounted.cons {auto : Bool} {pre : List Obs} {o : Obs} {post : List Obs} (x : Obs)
    (h : Accounted auto pre o post) : Accounted auto (x :: pre) o post := by
  rcases h with ⟨p, r, e⟩ | ⟨ha, hu, p, d, e, hp⟩
  · exact Or.inl ⟨x :: p, r, by rw [e]; rfl⟩
  · exact Or.inr ⟨ha, hu, x :: p, d, by rw [e]; rfl, hp⟩

theorem Good.pong {auto : Bool} {tr : List Obs} (h : Good auto tr) :
    ∀ pre o post, tr = pre ++ o :: post → o.pongOut = true → Accounted auto pre o post := by
  induction h with
  | nil => intro pre o post e; cases pre <;> cases e
  | @plain o' t h1 h2 ht ih =>
    intro pre o post e ho
    cases pre with
    | nil => simp only [List.nil_append, List.cons.injEq] at e; rw [e.1, ho] at h1; cases h1
    | cons x pre' =>
      simp only [List.cons_append, List.cons.injEq] at e
      exact (ih pre' o post e.2 ho).cons x
  | @app r o' t h2 ht ih =>
    intro pre o post e ho
    cases pre with
    | nil => simp only [List.nil_append, List.cons.injEq] at e; rw [← e.1] at ho; cases ho
    | cons x pre' =>
      simp only [List.cons_append, List.cons.injEq] at e
      cases pre' with
      | nil => exact Or.inl ⟨[], r, by rw [e.1]; rfl⟩
      | cons y pre'' =>
        simp only [List.cons_append, List.cons.injEq] at e
        exact ((ih pre'' o post e.2.2 ho).cons y).cons x
  | @answered d' o' t ha hu hp ht ih =>
    intro pre o post e ho
    cases pre with
    | nil => simp only [List.nil_append, List.cons.injEq] at e; rw [← e.1] at ho; cases ho
    | cons x pre' =>
      simp only [List.cons_append, List.cons.injEq] at e
      cases pre' with
      | nil =>
        simp only [List.nil_append, List.cons.injEq] at e
        obtain ⟨rfl, rfl, rfl⟩ := e
        exact Or.inr ⟨ha, hu, [], d', rfl, hp⟩
      | cons y pre'' =>
        simp only [List.cons_append, List.cons.injEq] at e
        exact ((ih pre'' o post e.2.2 ho).cons y).cons x
  | @skipped d' t hc ht ih =>
    intro pre o post e ho
    cases pre with
    | nil => simp only [List.nil_append, List.cons.injEq] at e; rw [← e.1] at ho; cases ho
    | cons x pre' =>
      simp only [List.cons_append, List.cons.injEq] at e
      exact (ih pre' o post e.2 ho).cons x

/-! ### counting -/

def isResOpt : Option Obs → Bool
  | some o => o.resTok
  | none => false

/-- the Pong frames handed to `sendall` outside any application call (newest first): a Pong
    frame counts unless the next newer entry is the result token of an application call -/
def libPongsAux : Option Obs → List Obs → List Obs
  | _, [] => []
  | newer, o :: t => (if o.pongOut && !isResOpt newer then [o] else []) ++ libPongsAux (some o) t

def libPongs (tr : List Obs) : List Obs := libPongsAux none tr

/-- the payloads of the Ping events that had to be answered (newest first): automatic pongs on
    and the connection usable when the event was produced -/
def ansPings (auto : Bool) : List Obs → List Bytes
  | [] => []
  | .ev (.ping d) :: t => (if auto && usable t then [d] else []) ++ ansPings auto t
  | _ :: t => ansPings auto t

theorem libPongsAux_top (n : Option Obs) (t : List Obs) (h : NoPongTop t) :
    libPongsAux n t = libPongsAux none t := by
  cases t with
  | nil => rfl
  | cons o t =>
    have := h o rfl
    show (if o.pongOut && !isResOpt n then [o] else []) ++ libPongsAux (some o) t
       = (if o.pongOut && !isResOpt none then [o] else []) ++ libPongsAux (some o) t
    rw [this]; rfl

theorem libPongs_cons_plain (o : Obs) (t : List Obs) (ho : o.pongOut = false) (h : NoPongTop t) :
    libPongs (o :: t) = libPongs t := by
  show (if o.pongOut && !isResOpt none then [o] else []) ++ libPongsAux (some o) t = libPongsAux none t
  rw [ho]
  exact libPongsAux_top _ t h

theorem libPongs_app (r : ActRes) (o : Obs) (t : List Obs) (h : NoPongTop t) :
    libPongs (.res r :: o :: t) = libPongs t := by
  unfold libPongs
  simp only [libPongsAux, Obs.pongOut, isResOpt, Obs.resTok, Bool.false_and, Bool.not_true, Bool.and_false]
  exact libPongsAux_top _ t h

theorem libPongs_answered (d : Bytes) (o : Obs) (t : List Obs) (ho : o.pongOut = true) (h : NoPongTop t) :
    libPongs (.ev (.ping d) :: o :: t) = o :: libPongs t := by
  show (if o.pongOut && true then [o] else []) ++ libPongsAux (some o) t = o :: libPongsAux none t
  rw [ho, libPongsAux_top _ t h]; rfl

theorem ansPings_cons_plain (auto : Bool) (o : Obs) (t : List Obs) (ho : o.pingEv = false) :
    ansPings auto (o :: t) = ansPings auto t := by
  cases o with
  | ev e =>
    cases e with
    | ping d => cases ho
    | _ => rfl
  | _ => rfl

/-- the two lists have the same length and the `i`-th entry of the first is the Pong frame for
    the `i`-th payload of the second -/
inductive Matched : List Obs → List Bytes → Prop
  | nil : Matched [] []
  | cons {o : Obs} {d : Bytes} {os : List Obs} {ds : List Bytes} :
      IsPongFor d o → Matched os ds → Matched (o :: os) (d :: ds)

theorem Matched.length_eq {os : List Obs} {ds : List Bytes} (h : Matched os ds) : os.length = ds.length := by
  induction h with
  | nil => rfl
  | cons _ _ ih => simp [ih]

theorem Matched.get {os : List Obs} {ds : List Bytes} (h : Matched os ds) :
    ∀ (i : Nat) o d, os[i]? = some o → ds[i]? = some d → IsPongFor d o := by
  induction h with
  | nil => intro i o d h1; simp at h1
  | cons hp _ ih =>
    intro i o d h1 h2
    cases i with
    | zero => simp at h1 h2; subst h1; subst h2; exact hp
    | succ j => simp at h1 h2; exact ih j o d h1 h2

/-- **as many library Pongs as Pings that had to be answered, pairwise matching, in order** -/
theorem Good.count {auto : Bool} {tr : List Obs} (h : Good auto tr) :
    Matched (libPongs tr) (ansPings auto tr) := by
  induction h with
  | nil => exact .nil
  | @plain o t h1 h2 ht ih =>
    rw [libPongs_cons_plain o t h1 ht.top, ansPings_cons_plain auto o t h2]; exact ih
  | @app r o t h2 ht ih =>
    rw [libPongs_app r o t ht.top, ansPings_cons_plain auto _ _ rfl, ansPings_cons_plain auto o t h2]
    exact ih
  | @answered d o t ha hu hp ht ih =>
    rw [libPongs_answered d o t hp.pongOut ht.top]
    have : ansPings auto (.ev (.ping d) :: o :: t) = d :: ansPings auto t := by
      have e := ansPings_cons_plain auto o t hp.pingEv
      simp only [ansPings, ha, usable_pong hp, hu, Bool.and_self, if_true, List.singleton_append]
      rw [ha] at e; rw [e]
    rw [this]
    exact .cons hp ih
  | @skipped d t hc ht ih =>
    rw [libPongs_cons_plain _ t rfl ht.top]
    have : ansPings auto (.ev (.ping d) :: t) = ansPings auto t := by
      simp only [ansPings, hc]; rfl
    rw [this]; exact ih

theorem mem_libPongsAux (n : Option Obs) (tr : List Obs) (o : Obs) (h : o ∈ libPongsAux n tr) : o ∈ tr := by
  induction tr generalizing n with
  | nil => cases h
  | cons x t ih =>
    simp only [libPongsAux, List.mem_append] at h
    rcases h with h | h
    · split at h
      · simp only [List.mem_singleton] at h; rw [h]; exact List.mem_cons_self
      · cases h
    · exact List.mem_cons_of_mem _ (ih _ h)

/-- the library Pongs are entries of the trace -/
theorem mem_libPongs (tr : List Obs) (o : Obs) (h : o ∈ libPongs tr) : o ∈ tr := mem_libPongsAux none tr o h

/-- a Pong that did not fail was written -/
theorem IsPongFor.written {d : Bytes} {o : Obs} (h : IsPongFor d o) (hf : o.isFail = false) :
    ∃ key, o = .wr (pongBytes d key) := by
  obtain ⟨k, rfl | rfl⟩ := h
  · exact ⟨k, rfl⟩
  · cases hf

theorem Good.count_length {auto : Bool} {tr : List Obs} (h : Good auto tr) :
    (libPongs tr).length = (ansPings auto tr).length := h.count.length_eq

end PongRun
end Lomond.Core
