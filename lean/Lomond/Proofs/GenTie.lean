/-
  Helpers for the companion property files `Properties/Cxx_Gen.lean`, which tie the hand-written
  model to `Generated/Code.lean` (the Python code translated by harness/py2lean.py):

  * how an error value of the generated code (`Py.Err`: class name + literal text) is read as a
    result / exception of the model (`actResOf`, `exnOf`) -- the only definitions here;
  * lemmas about the few support functions of `Model/PyOps.lean` (`Py.pack`, `Py.ceilDiv`);
  * `gen_branches`: split every `if` / `match` of a goal (the generated definitions are nests of
    them); the arithmetic side conditions are then closed by `omega`, so the companion proofs do
    not depend on how the source happens to spell a comparison (`< 126` or `<= 125`, `1 << 16` or
    `65536`, the order of the operands of `or`).
-/
import Lomond.Model.Core
import Lomond.Model.PyOps

namespace Lomond.GenTie
open Lomond Lomond.Core

/-- equality of results of generated definitions is decidable (used by the `example`s) -/
instance genDecEqExcept {ε α : Type} [DecidableEq ε] [DecidableEq α] : DecidableEq (Except ε α) := fun a b =>
  match a, b with
  | .ok x, .ok y => if h : x = y then isTrue (by rw [h]) else isFalse (fun e => h (by cases e; rfl))
  | .error x, .error y => if h : x = y then isTrue (by rw [h]) else isFalse (fun e => h (by cases e; rfl))
  | .ok _, .error _ => isFalse (fun e => by cases e)
  | .error _, .ok _ => isFalse (fun e => by cases e)

/-- the model's result of an API call that raised `e` (class names as written in websocket.py) -/
def actResOf (e : Py.Err) : ActRes :=
  if e.cls = "TypeError" then .typeError
  else if e.cls = "ValueError" then .valueError
  else .structError

/-- the model's result of `session.write` / `send` refused by `_check_writable` with error `e`
    (class names as written in session.py; all three are WebSocketErrors) -/
def wsResOf (e : Py.Err) : ActRes :=
  if e.cls = "WebSocketClosed" then .wsClosed
  else if e.cls = "WebSocketClosing" then .wsClosing
  else .wsUnavailable

/-- the model's exception for an error raised in frame.py / frame_parser.py:
    `PayloadTooLarge` is a subclass of `ProtocolError`, both are `Exn.protocol` with the text -/
def exnOf (e : Py.Err) : Exn :=
  if e.cls = "ProtocolError" ∨ e.cls = "PayloadTooLarge" then .protocol e.msg
  else if e.cls = "CriticalProtocolError" then .critical e.msg
  else .other e.cls

/-- error of the generated code as a model exception -/
def exceptOf {α : Type} (r : Except Py.Err α) : Except Exn α :=
  match r with
  | .ok a => .ok a
  | .error e => .error (exnOf e)

theorem gen_beBytes_one (v : Nat) : beBytes 1 v = [v % 256] := by simp [beBytes]

theorem gen_pack_nil : Py.pack [] = [] := rfl

theorem gen_pack_cons (w v : Nat) (r : List (Nat × Nat)) :
    Py.pack ((w, v) :: r) = beBytes w v ++ Py.pack r := by
  simp [Py.pack]

/-- `128 | n = 128 + n` below 128 (the mask bit and a 7-bit length do not overlap) -/
theorem gen_or_128 (n : Nat) (h : n < 128) : (128 ||| n) = 128 + n := by
  have : ∀ l : Fin 128, (128 ||| l.val) = 128 + l.val := by decide +kernel
  exact this ⟨n, h⟩

/-- `Py.ceilDiv` is the ceiling of the quotient: the least `q` with `a ≤ q * b` -/
theorem gen_ceilDiv_spec (a b : Nat) (hb : 0 < b) :
    a ≤ Py.ceilDiv a b * b ∧ ∀ q, a ≤ q * b → Py.ceilDiv a b ≤ q := by
  unfold Py.ceilDiv
  constructor
  · have h1 := Nat.div_add_mod (a + b - 1) b
    have h2 := Nat.mod_lt (a + b - 1) hb
    have h3 : b * ((a + b - 1) / b) = (a + b - 1) / b * b := Nat.mul_comm _ _
    omega
  · intro q hq
    have h4 : (a + b - 1) / b < q + 1 := by
      apply (Nat.div_lt_iff_lt_mul hb).mpr
      have : (q + 1) * b = q * b + b := by rw [Nat.add_mul, Nat.one_mul]
      omega
    omega

theorem gen_ceilDiv_eq (a b : Nat) : Py.ceilDiv a b = Core.ceilDiv a b := rfl

/-- a statement about one byte is checked on all 256 values (by kernel evaluation) -/
theorem gen_forall_byte {P : Nat → Prop} (h : ∀ x : Fin 256, P x.val) : ∀ b : Nat, b < 256 → P b :=
  fun b hb => h ⟨b, hb⟩

/-- split every `if` / `match` of the goal -/
macro "gen_branches" : tactic => `(tactic| ((try dsimp only); repeat' split))

/-- close one branch: impossible by arithmetic, or both sides are the same value -/
macro "gen_close" : tactic => `(tactic| first
  | omega
  | rfl
  | (simp_all [actResOf, exnOf, exceptOf, wsResOf]; done)
  | (simp_all [actResOf, exnOf, exceptOf, wsResOf]; subst_vars; simp [actResOf, exnOf, exceptOf, wsResOf]; done)
  | (simp_all [actResOf, exnOf, exceptOf, wsResOf]; omega))

end Lomond.GenTie
