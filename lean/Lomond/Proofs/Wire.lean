/-
  `Wire`: every plain frame the library hands to `sendall` inside a connection — on behalf of the
  application (`send_*`, `close`) or on its own (auto-ping, auto-pong, the Close echo, the Close that
  follows a protocol error) — is `Frame.build op payload key` for a data/control opcode, a key
  drawn from the key source, and a control payload of at most 125 bytes (repaired `close()`).
  Proved for every function of the core model up to the session loop, by composition, in the
  style of Proofs/Step.lean.
-/
import Lomond.Proofs.Step
import Lomond.Proofs.Release
import Lomond.Proofs.FrameCodec
set_option linter.unusedSimpArgs false
set_option linter.unusedVariables false
namespace Lomond.Core
open Lomond

/-- `bytes` is a frame built by `Frame.build` (default flags) with a key from the key source, one
    of the five opcodes the client uses, and a control payload within the RFC 6455 §5.5 bound -/
def GoodFrame (cfg : Cfg) (bytes : Bytes) : Prop :=
  ∃ op payload k, Frame.build op payload (cfg.maskKey k) = some bytes ∧
    (op = 1 ∨ op = 2 ∨ op = 8 ∨ op = 9 ∨ op = 10) ∧ (8 ≤ op → payload.length ≤ 125)

/-- configuration unchanged, and (for the repaired `close()`) every plain write among the new
    trace entries is a good frame -/
structure Wire (s s' : Sys) : Prop where
  cfg : s'.cfg = s.cfg
  ext : s.cfg.v.closeArgs = true →
    ∃ l, s'.trace = l ++ s.trace ∧ ∀ bytes, Obs.wr bytes ∈ l → GoodFrame s.cfg bytes

theorem wire_po : PO Wire where
  refl s := ⟨rfl, fun _ => ⟨[], rfl, by simp⟩⟩
  trans := by
    intro a b c h1 h2
    refine ⟨h2.cfg.trans h1.cfg, fun hv => ?_⟩
    obtain ⟨l1, e1, g1⟩ := h1.ext hv
    obtain ⟨l2, e2, g2⟩ := h2.ext (by rw [h1.cfg]; exact hv)
    refine ⟨l2 ++ l1, by rw [e2, e1, List.append_assoc], fun bytes hm => ?_⟩
    rcases List.mem_append.mp hm with hm | hm
    · have := g2 bytes hm; rw [h1.cfg] at this; exact this
    · exact g1 bytes hm

/-- leaf tactic: an explicit successor state whose new trace entries are not plain writes -/
macro "wire_leaf" : tactic =>
  `(tactic| ((try simp only [Res.state_ok, Res.state_err])
             first
              | exact wire_po.refl _
              | exact ⟨rfl, fun _ => ⟨[], rfl, by simp⟩⟩
              | exact ⟨rfl, fun _ => ⟨[_], rfl, by simp⟩⟩
              | exact ⟨rfl, fun _ => ⟨[_, _], rfl, by simp⟩⟩))

theorem wire_closeSocket : Spec Wire closeSocket := by
  intro s; unfold closeSocket; splits <;> wire_leaf

theorem wire_sendFrame (op : Nat) (pl : Bytes) (c : Option Bytes)
    (hop : op = 1 ∨ op = 2 ∨ op = 8 ∨ op = 9 ∨ op = 10) (hctl : 8 ≤ op → pl.length ≤ 125) :
    Spec Wire (sendFrame op pl c) := by
  intro s
  obtain ⟨r, s', l, h, ht, -, hwr, -⟩ := sendFrame_trace op pl c s
  have hc := (step_sendFrame op pl c s).cfg
  rw [h] at hc ⊢
  exact ⟨hc, fun _ => ⟨l, ht, fun bytes hm => ⟨op, pl, s.keyCtr, (hwr bytes hm).2, hop, hctl⟩⟩⟩

theorem wire_wsClose (c : Option Nat) (r : Arg) : Spec Wire (wsClose c r) := by
  intro s
  have hc := (step_wsClose c r s).cfg
  refine ⟨hc, fun hv => ?_⟩
  obtain ⟨res, s', l, h, ht, -, hwr, -⟩ := wsClose_trace c r s hv
  rw [h]
  refine ⟨l, ht, fun bytes hm => ?_⟩
  obtain ⟨rb, -, -, hlen, hb⟩ := hwr bytes hm
  exact ⟨Gen.opClose, _, s.keyCtr, hb, by simp [Gen.opClose], fun _ => hlen⟩

theorem wire_sendData (op : Nat) (pl : Bytes) (c : Bool) (hop : op = 1 ∨ op = 2) :
    Spec Wire (sendData op pl c) := by
  intro s; unfold sendData
  split <;> exact wire_sendFrame _ _ _ (by omega) (by omega) s

theorem wire_log (o : Obs) (h : ∀ bytes, o ≠ .wr bytes) : Spec Wire (log o) := by
  intro s; unfold log modS
  exact ⟨rfl, fun _ => ⟨[o], rfl, by intro bytes hm; simp at hm; exact absurd hm.symm (h bytes)⟩⟩

theorem wire_logRes {m : M ActRes} (h : Spec Wire m) : Spec Wire (logRes m) := by
  unfold logRes
  exact spec_bind wire_po h (fun r => wire_log _ (by intro b hb; cases hb))

theorem wire_doAct (a : Act) : Spec Wire (doAct a) := by
  unfold doAct
  split
  all_goals first
    | exact wire_logRes (spec_pure wire_po _)
    | exact wire_logRes (wire_sendData _ _ _ (by simp [Gen.opText, Gen.opBinary]))
    | exact wire_logRes (wire_wsClose _ _)
    | (apply wire_logRes; split
       · exact spec_pure wire_po _
       · exact wire_sendData _ _ _ (by simp [Gen.opText, Gen.opBinary]))
    | (apply wire_logRes; split
       · exact spec_pure wire_po _
       · rename_i hle
         exact wire_sendFrame _ _ _ (by simp [Gen.opPing, Gen.opPong]) (fun _ => by omega))
    | exact wire_logRes (spec_bind wire_po wire_closeSocket (fun _ => spec_pure wire_po _))
    | (intro s; wire_leaf)

theorem wire_doActs (as : List Act) : Spec Wire (doActs as) := by
  induction as with
  | nil => exact spec_pure wire_po ()
  | cons a r ih => unfold doActs; exact spec_bind wire_po (wire_doAct a) (fun _ => ih)

theorem wire_yieldEv (e : Event) : Spec Wire (yieldEv e) := by
  unfold yieldEv
  apply spec_bind wire_po
  · apply spec_modS; intro s; wire_leaf
  · intro _; apply spec_bind wire_po (spec_getS wire_po); intro s; exact wire_doActs _


theorem wire_checkPoll : Spec Wire checkPoll := by
  unfold checkPoll
  refine spec_getS_bind wire_po (fun s => ?_)
  simp only []
  splits
  all_goals first
    | exact spec_pure wire_po _
    | (refine spec_bind wire_po (spec_modS ?_) (fun _ => wire_yieldEv _); intro s; wire_leaf)

theorem wire_checkAutoPing : Spec Wire checkAutoPing := by
  unfold checkAutoPing
  refine spec_getS_bind wire_po (fun s => ?_)
  simp only []
  split
  · refine spec_bind wire_po (spec_modS ?_) (fun _ => spec_bind wire_po (wire_sendFrame _ _ _ (by simp [Gen.opPing]) (fun _ => by simp)) (fun _ => spec_pure wire_po _))
    intro s; wire_leaf
  · exact spec_pure wire_po _

theorem wire_checkPingTimeout : Spec Wire checkPingTimeout := by
  unfold checkPingTimeout
  refine spec_getS_bind wire_po (fun s => ?_)
  simp only []
  split
  · exact spec_bind wire_po (wire_yieldEv _) (fun _ => spec_throwE wire_po _)
  · exact spec_pure wire_po _

theorem wire_checkCloseTimeout : Spec Wire checkCloseTimeout := by
  unfold checkCloseTimeout
  refine spec_getS_bind wire_po (fun s => ?_)
  simp only []
  splits
  all_goals first | exact spec_pure wire_po _ | exact spec_throwE wire_po _

theorem wire_regular : Spec Wire regular := by
  unfold regular
  apply spec_bind wire_po (spec_getS wire_po); intro s
  split
  · exact spec_bind wire_po wire_checkPoll (fun _ => spec_bind wire_po wire_checkAutoPing
      (fun _ => spec_bind wire_po wire_checkPingTimeout (fun _ => wire_checkCloseTimeout)))
  · exact spec_pure wire_po _

theorem wire_onEvent (e : Event) : Spec Wire (onEvent e) := by
  intro s; unfold onEvent
  splits
  all_goals first
    | wire_leaf
    | (rename_i hlen _ _ h
       exact (wire_sendFrame _ _ _ (by simp [Gen.opPong]) (fun _ => by omega)).ok h)
    | (rename_i hlen _ _ h
       exact (wire_sendFrame _ _ _ (by simp [Gen.opPong]) (fun _ => by omega)).err h)

theorem wire_onDisconnect : Spec Wire onDisconnect := by
  unfold onDisconnect
  apply spec_bind wire_po wire_closeSocket
  intro _; apply spec_modS; intro s; wire_leaf

theorem wire_feedYield (b : Bool) (e : Event) : Spec Wire (feedYield b e) := by
  unfold feedYield
  apply spec_tryC wire_po
  · exact spec_bind wire_po (wire_onEvent e) (fun _ => spec_bind wire_po (wire_yieldEv e) (fun _ => wire_regular))
  · intro x
    apply spec_bind wire_po
    · split
      · exact wire_onDisconnect
      · exact spec_pure wire_po _
    · intro _; exact spec_throwE wire_po _

theorem wire_inflateMessage (j : Bytes) : Spec Wire (inflateMessage j) := by
  intro s; unfold inflateMessage; simp only []; splits <;> wire_leaf

theorem wire_buildMessage (fs : List Frame) : Spec Wire (buildMessage fs) := by
  unfold buildMessage
  split
  · exact spec_throwE wire_po _
  · simp only []
    refine spec_getS_bind wire_po (fun s => ?_)
    refine spec_bind wire_po ?_ (fun _ => spec_liftE wire_po _)
    split
    · exact wire_inflateMessage _
    · exact spec_pure wire_po _

theorem wire_checkCloseCode (c : Option Nat) : Spec Wire (checkCloseCode c) := by
  unfold checkCloseCode
  splits <;> first | exact spec_pure wire_po _ | exact spec_throwE wire_po _

theorem wire_raiseIfArgError (r : ActRes) : Spec Wire (raiseIfArgError r) := by
  unfold raiseIfArgError
  split <;> first | exact spec_pure wire_po _ | exact spec_throwE wire_po _

theorem wire_onClose (c : Option Nat) (r : List Nat) : Spec Wire (onClose c r) := by
  unfold onClose
  refine spec_bind wire_po (wire_checkCloseCode c) (fun _ => ?_)
  refine spec_getS_bind wire_po (fun s => ?_)
  split
  · exact spec_pure wire_po _
  · split
    · refine spec_bind wire_po (wire_feedYield _ _) (fun _ => spec_modS ?_); intro s; wire_leaf
    · refine spec_bind wire_po (wire_feedYield _ _) (fun _ => spec_bind wire_po (wire_wsClose _ _) (fun r =>
        spec_bind wire_po (wire_raiseIfArgError r) (fun _ => spec_modS ?_)))
      intro s; wire_leaf

theorem wire_onMessage (m : Msg) : Spec Wire (onMessage m) := by
  unfold onMessage
  split <;> first | exact wire_onClose _ _ | exact wire_feedYield _ _ | exact spec_pure wire_po _

theorem wire_onDataFrame (f : Frame) : Spec Wire (onDataFrame f) := by
  unfold onDataFrame
  refine spec_getS_bind wire_po (fun s => ?_)
  split
  · exact spec_throwE wire_po _
  · split
    · exact spec_throwE wire_po _
    · refine spec_bind wire_po (spec_modS ?_) (fun _ => ?_)
      · intro s; wire_leaf
      · split
        · refine spec_getS_bind wire_po (fun s => spec_bind wire_po (wire_buildMessage _) (fun m =>
            spec_bind wire_po (wire_onMessage m) (fun _ => spec_modS ?_)))
          intro s; wire_leaf
        · exact spec_pure wire_po _

theorem wire_notClosed : Spec Wire notClosed := by
  intro s; unfold notClosed; wire_leaf


theorem wire_onFrame (f : Frame) : Spec Wire (onFrame f) := by
  unfold onFrame
  split
  · exact spec_bind wire_po (wire_buildMessage _) (fun m => wire_onMessage m)
  · exact wire_onDataFrame _

theorem wire_onOut (o : Out) : Spec Wire (onOut o) := by
  unfold onOut
  split
  · refine spec_getS_bind wire_po (fun s => ?_)
    split
    · refine spec_bind wire_po (spec_modS ?_) (fun _ => spec_bind wire_po wire_onDisconnect (fun _ =>
        spec_bind wire_po (wire_feedYield _ _) (fun _ => spec_pure wire_po _)))
      intro s; wire_leaf
    · refine spec_bind wire_po (spec_modS ?_) (fun _ => spec_bind wire_po (wire_feedYield _ _) (fun _ =>
        spec_bind wire_po (spec_modS ?_) (fun _ => wire_notClosed)))
      · intro s; wire_leaf
      · intro s; wire_leaf
  · exact spec_bind wire_po (wire_onFrame _) (fun _ => wire_notClosed)

theorem wire_setP (s : Sys) (p' : PState) : Wire s { s with p := p' } := by wire_leaf

theorem wire_feedLoop (data : Bytes) : Spec Wire (feedLoop data) := by
  induction h : data.length using Nat.strongRecOn generalizing data with
  | _ n ih =>
    intro s
    rw [feedLoop]
    by_cases hd : data = []
    · simp only [hd, dite_true]; wire_leaf
    · simp only [hd, dite_false]
      have hlt : (data.drop (s.p.remPred + 1)).length < n := by
        have : data.length ≠ 0 := fun hl => hd (List.eq_nil_of_length_eq_zero hl)
        simp only [List.length_drop]; omega
      cases hb : biteBytes s.cfg.v s.p (data.take (s.p.remPred + 1)) with
      | error x =>
        simp only [Res.state_err]
        exact wire_setP s _
      | ok r =>
        obtain ⟨p', out⟩ := r
        have hs1 : Wire s { s with p := p' } := wire_setP s p'
        cases out with
        | none =>
          simp only
          exact wire_po.trans hs1 (ih _ hlt _ rfl _)
        | some o =>
          simp only
          have ho := wire_onOut o { s with p := p' }
          cases hr : onOut o { s with p := p' } with
          | err x s2 => rw [hr] at ho; simp only [Res.state_err] at ho ⊢; exact wire_po.trans hs1 ho
          | ok go s2 =>
            rw [hr] at ho; simp only [Res.state_ok] at ho
            cases go with
            | true => simp only; exact wire_po.trans hs1 (wire_po.trans ho (ih _ hlt _ rfl _))
            | false => simp only [Res.state_ok]; exact wire_po.trans hs1 ho


theorem wire_afterHeader (rest : Bytes) (out : Option Out) : Spec Wire (afterHeader rest out) := by
  unfold afterHeader
  split
  · refine spec_bind wire_po (wire_onOut _) (fun go => ?_)
    split
    · exact spec_bind wire_po (wire_feedLoop _) (fun _ => spec_pure wire_po _)
    · exact spec_pure wire_po _
  · exact spec_bind wire_po (wire_feedLoop _) (fun _ => spec_pure wire_po _)

theorem wire_feedHeader (data : Bytes) : Spec Wire (feedHeader data) := by
  intro s; unfold feedHeader; simp only []
  split
  · split
    · wire_leaf
    · simp only [Res.state_ok]; exact wire_setP s _
  · split
    · wire_leaf
    · split
      · wire_leaf
      · rename_i p' out hr
        have h1 : Wire s { s with p := p' } := wire_setP s p'
        exact wire_po.trans h1 (wire_afterHeader _ _ _)

theorem wire_feedBody (data : Bytes) : Spec Wire (feedBody data) := by
  intro s; unfold feedBody
  split
  · exact wire_feedHeader data s
  · have := wire_feedLoop data s
    split <;> (rename_i h; rw [h] at this; simpa using this)

theorem wire_feedHandler (x : Exn) : Spec Wire (feedHandler x) := by
  unfold feedHandler
  split
  · exact spec_bind wire_po (wire_feedYield _ _) (fun _ => spec_throwE wire_po _)
  · exact spec_bind wire_po (wire_feedYield _ _) (fun _ => spec_throwE wire_po _)
  · exact spec_bind wire_po (wire_feedYield _ _) (fun _ => spec_bind wire_po (wire_wsClose _ _) (fun r =>
      spec_bind wire_po (wire_raiseIfArgError r) (fun _ => spec_throwE wire_po _)))
  · exact spec_throwE wire_po _

theorem wire_unwrapOuter (x : Exn) : Spec Wire (unwrapOuter x) := by
  unfold unwrapOuter; split <;> exact spec_throwE wire_po _

theorem wire_wsFeed (data : Bytes) : Spec Wire (wsFeed data) := by
  intro s; unfold wsFeed
  split
  · wire_leaf
  · exact spec_tryC wire_po (spec_tryC wire_po (wire_feedBody data) wire_feedHandler) wire_unwrapOuter s

theorem wire_onEof : Spec Wire onEof := by
  intro s; unfold onEof; split <;> wire_leaf

theorem wire_recvStep (o : RecvOutcome) : Spec Wire (recvStep o) := by
  intro s; unfold recvStep
  split
  · exact wire_onEof s
  · split
    · wire_leaf
    · wire_leaf
    · exact wire_onEof s
    · rename_i bs
      split
      · exact wire_onEof s
      · have := wire_wsFeed bs s
        split <;> (rename_i h; rw [h] at this; simpa using this)

theorem wire_tick (s : Sys) (dt : Nat) : Wire s (tick s dt) := by
  unfold tick
  refine ⟨rfl, fun _ => ?_⟩
  simp only []
  split
  · exact ⟨[_], rfl, by simp⟩
  · exact ⟨[], rfl, by simp⟩

theorem wire_loop (env : List EnvStep) : Spec Wire (loop env) := by
  induction env with
  | nil => intro s; unfold loop; split <;> wire_leaf
  | cons st rest ih =>
    intro s; unfold loop
    split
    · wire_leaf
    · split
      · wire_leaf
      · rename_i dt readable
        have h0 := wire_tick s dt
        have h1 := wire_regular (tick s dt)
        unfold regularTop
        split
        · rename_i x s2 hr; rw [hr] at h1; exact wire_po.trans h0 h1
        · rename_i u s2 hr; rw [hr] at h1
          simp only [Res.state_ok] at h1
          split
          · exact wire_po.trans h0 (wire_po.trans h1 (ih s2))
          · rename_i o
            have h2 := wire_recvStep o s2
            split
            · rename_i x s3 hr2; rw [hr2] at h2; exact wire_po.trans h0 (wire_po.trans h1 h2)
            · rename_i s3 hr2; rw [hr2] at h2
              exact wire_po.trans h0 (wire_po.trans h1 (wire_po.trans h2 (ih s3)))
            · rename_i s3 hr2; rw [hr2] at h2; exact wire_po.trans h0 (wire_po.trans h1 h2)

/-! ### the whole of `run()`: the same, allowing for the upgrade request (the one write that is
    not a frame) -/

/-- as `Wire`, where a plain write may also be the upgrade request -/
structure WireR (s s' : Sys) : Prop where
  cfg : s'.cfg = s.cfg
  ext : s.cfg.v.closeArgs = true →
    ∃ l, s'.trace = l ++ s.trace ∧ ∀ bytes, Obs.wr bytes ∈ l → GoodFrame s.cfg bytes ∨ bytes = s.cfg.request

theorem wireR_po : PO WireR where
  refl s := ⟨rfl, fun _ => ⟨[], rfl, by simp⟩⟩
  trans := by
    intro a b c h1 h2
    refine ⟨h2.cfg.trans h1.cfg, fun hv => ?_⟩
    obtain ⟨l1, e1, g1⟩ := h1.ext hv
    obtain ⟨l2, e2, g2⟩ := h2.ext (by rw [h1.cfg]; exact hv)
    refine ⟨l2 ++ l1, by rw [e2, e1, List.append_assoc], fun bytes hm => ?_⟩
    rcases List.mem_append.mp hm with hm | hm
    · have := g2 bytes hm; rw [h1.cfg] at this; exact this
    · exact g1 bytes hm

theorem Wire.toR {s s' : Sys} (h : Wire s s') : WireR s s' :=
  ⟨h.cfg, fun hv => by
    obtain ⟨l, e, g⟩ := h.ext hv
    exact ⟨l, e, fun bytes hm => Or.inl (g bytes hm)⟩⟩

theorem Spec.toR {m : M α} (h : Spec Wire m) : Spec WireR m := fun s => (h s).toR

theorem wire_selClose : Spec Wire selClose := by
  intro s; unfold selClose; splits <;> wire_leaf

theorem wire_onLoopEnd (r : Option Exn) : Spec Wire (onLoopEnd r) := by
  unfold onLoopEnd
  split
  all_goals first
    | exact spec_bind wire_po wire_closeSocket (fun _ => wire_yieldEv _)
    | exact spec_throwE wire_po _

theorem wire_runBody (env : List EnvStep) : Spec Wire (runBody env) := by
  unfold runBody
  refine spec_bind wire_po ?_ (fun r => wire_onLoopEnd r)
  exact spec_tryC wire_po (spec_bind wire_po (wire_loop env) (fun _ => spec_pure wire_po _))
    (fun x => spec_pure wire_po _)

theorem wire_runFinally (x : Exn) : Spec Wire (runFinally x) := by
  unfold runFinally
  refine spec_getS_bind wire_po (fun s => ?_)
  refine spec_bind wire_po ?_ (fun _ => spec_bind wire_po wire_selClose (fun _ => spec_throwE wire_po _))
  split
  · exact wire_closeSocket
  · exact spec_pure wire_po _

theorem wire_runLoop : Spec Wire runLoop := by
  unfold runLoop
  refine spec_getS_bind wire_po (fun s => ?_)
  exact spec_tryC wire_po (spec_bind wire_po (wire_runBody _) (fun _ => wire_selClose)) wire_runFinally

theorem wire_yieldConnected (proxy : Bool) : Spec Wire (yieldConnected proxy) := by
  unfold yieldConnected
  refine spec_getS_bind wire_po (fun s => ?_)
  split
  · exact spec_tryC wire_po (wire_yieldEv _)
      (fun x => spec_bind wire_po wire_closeSocket (fun _ => spec_throwE wire_po _))
  · exact wire_yieldEv _

/-- the upgrade request is written by `session.write(self.websocket.build_request())` -/
theorem wireR_writeRequest (s : Sys) : WireR s (write s.cfg.request none s).state := by
  have hc := (step_write s.cfg.request none s).cfg
  obtain ⟨r, s', l, h, ht, hl⟩ := write_trace s.cfg.request none s
  rw [h] at hc ⊢
  refine ⟨hc, fun _ => ⟨l, ht, fun bytes hm => ?_⟩⟩
  rcases hl with rfl | rfl | rfl
  · cases hm
  · simp at hm
  · simp [writeObs] at hm; exact Or.inr hm

theorem wireR_afterConnect (proxy : Bool) : Spec WireR (afterConnect proxy) := by
  unfold afterConnect
  refine spec_bind wireR_po (spec_modS ?_) (fun _ => ?_)
  · intro s; exact (by wire_leaf : Wire s _).toR
  · intro s
    show WireR s ((getS >>= _) s).state
    rw [bind_ok (show getS s = .ok s s from rfl)]
    have hw := wireR_writeRequest s
    cases hwr : write s.cfg.request none s with
    | err x s1 => rw [hwr] at hw; rw [bind_err hwr]; exact hw
    | ok r s1 =>
      rw [hwr] at hw; simp only [Res.state_ok] at hw
      rw [bind_ok hwr]
      refine wireR_po.trans hw ?_
      split
      · exact ((spec_bind wire_po wire_closeSocket (fun _ => wire_yieldEv _)) s1).toR
      · exact ((spec_bind wire_po (wire_yieldConnected proxy) (fun _ =>
          spec_bind wire_po (spec_modS (fun s => by wire_leaf)) (fun _ => wire_runLoop))) s1).toR

theorem wire_runLoopNoSel : Spec Wire runLoopNoSel := by
  unfold runLoopNoSel
  exact spec_tryC wire_po (spec_bind wire_po (wire_onLoopEnd _) (fun _ => wire_selClose)) wire_runFinally

theorem wireR_afterConnectNoSel (proxy : Bool) : Spec WireR (afterConnectNoSel proxy) := by
  unfold afterConnectNoSel
  refine spec_bind wireR_po (spec_modS ?_) (fun _ => ?_)
  · intro s; exact (by wire_leaf : Wire s _).toR
  · intro s
    show WireR s ((getS >>= _) s).state
    rw [bind_ok (show getS s = .ok s s from rfl)]
    have hw := wireR_writeRequest s
    cases hwr : write s.cfg.request none s with
    | err x s1 => rw [hwr] at hw; rw [bind_err hwr]; exact hw
    | ok r s1 =>
      rw [hwr] at hw; simp only [Res.state_ok] at hw
      rw [bind_ok hwr]
      refine wireR_po.trans hw ?_
      split
      · exact ((spec_bind wire_po wire_closeSocket (fun _ => wire_yieldEv _)) s1).toR
      · exact ((spec_bind wire_po (wire_yieldConnected proxy) (fun _ =>
          spec_bind wire_po (spec_modS (fun s => by wire_leaf)) (fun _ => wire_runLoopNoSel))) s1).toR

theorem wireR_run : Spec WireR run := by
  unfold run
  refine spec_bind wireR_po (Spec.toR (wire_yieldEv _)) (fun _ => ?_)
  refine spec_getS_bind wireR_po (fun s => ?_)
  split
  · exact Spec.toR (wire_yieldEv _)
  · exact Spec.toR (wire_yieldEv _)
  · exact wireR_afterConnect _
  · exact wireR_afterConnectNoSel _

/-- **every plain write of a whole connection** is the upgrade request or a good frame -/
theorem runAll_writes (cfg : Cfg) (react : React) (env : List EnvStep) (hv : cfg.v.closeArgs = true) :
    ∀ bytes, Obs.wr bytes ∈ (runAll cfg react env).trace → GoodFrame cfg bytes ∨ bytes = cfg.request := by
  have h := wireR_run { cfg := cfg, react := react, env := env }
  obtain ⟨l, e, g⟩ := h.ext hv
  simp only [List.append_nil] at e
  have base : ∀ bytes, Obs.wr bytes ∈ (run { cfg := cfg, react := react, env := env }).state.trace →
      GoodFrame cfg bytes ∨ bytes = cfg.request := by
    intro bytes hm; rw [e] at hm; exact g bytes hm
  have cs : ∀ s : Sys, ∀ bytes, Obs.wr bytes ∈ (match closeSocket s with | .ok _ s' => s' | .err _ s' => s').trace →
      Obs.wr bytes ∈ s.trace := by
    intro s bytes
    obtain ⟨s', e⟩ := closeSocket_ok s
    rw [e]; simp only
    unfold closeSocket at e
    split at e
    · cases e; intro hm; simpa using hm
    · cases e; exact id
  intro bytes hm
  unfold runAll at hm
  simp only [] at hm
  generalize run { cfg := cfg, react := react, env := env } = r at hm base
  cases r with
  | ok a s => exact base bytes hm
  | err x s =>
    simp only [Res.state_err] at base
    cases x with
    | genExit =>
      simp only [] at hm; split at hm
      · exact base bytes (cs s bytes hm)
      · exact base bytes hm
    | outer y =>
      cases y with
      | genExit =>
        simp only [] at hm; split at hm
        · exact base bytes (cs s bytes hm)
        · exact base bytes hm
      | _ => simp at hm; exact base bytes hm
    | _ => simp at hm; exact base bytes hm

end Lomond.Core
