/-
  C10 at the level of whole connections (`runAll`): helper lemmas.

  Setting: the connection comes up and the upgrade request is written (`E2E.Setup`: connect ok, first
  `sendall` ok, `poll > 0`, an application that reacts to events by sending only).  The script then
  consists of *quiet* steps — `selector.wait` returning after any time with nothing to read, or with a
  non-empty read — until the buffered bytes contain the first `CR LF CR LF` or exceed the 16 KiB limit.

  * `loop_quiet`   while the header block is incomplete (and within the limit) the loop only buffers:
                   no event, no write, no call of the application — whatever the timing;
  * `split_steps`  every quiet script whose bytes complete a block (or exceed the limit) has a first read
                   at which that happens;
  * `arrive_ready` / `arrive_rejected` / `arrive_oversize`   that read, in the three cases;
  * `run_ready` / `run_rejected` / `run_oversize`            composed through `loop`, `run()` and `runAll`.
-/
import Lomond.Proofs.EndToEnd
import Lomond.Proofs.HttpDup
set_option linter.unusedSimpArgs false
set_option linter.unusedVariables false
namespace Lomond.Core.HRun
open Lomond Lomond.Core Lomond.Core.E2E

/-! ### quiet scripts -/

/-- a step that delivers nothing or a non-empty read (no EOF, no socket error, no selector error) -/
def Quiet : EnvStep → Prop
  | .wait _ none => True
  | .wait _ (some (.data c)) => c ≠ []
  | _ => False

/-- the bytes a script delivers, in order -/
def dataOf : List EnvStep → Bytes
  | [] => []
  | .wait _ (some (.data c)) :: r => c ++ dataOf r
  | _ :: r => dataOf r

theorem dataOf_append (a b : List EnvStep) : dataOf (a ++ b) = dataOf a ++ dataOf b := by
  induction a with
  | nil => rfl
  | cons st a ih =>
    cases st with
    | selErr => exact ih
    | wait d o =>
      cases o with
      | none => exact ih
      | some r =>
        cases r with
        | data c => simp only [List.cons_append, dataOf, ih, List.append_assoc]
        | eof => exact ih
        | sockErr => exact ih
        | otherErr => exact ih

/-- the obs a tick leaves -/
def isTick : Obs → Bool
  | .tick _ => true
  | _ => false

/-- a `sendall` (successful, compressed, or failed) -/
def isWrite : Obs → Bool
  | .wr _ => true
  | .wrz _ _ => true
  | .wrFail _ => true
  | _ => false

/-! ### the header phase -/

/-- the state of the loop while the header block is incomplete -/
structure HP (s : Sys) : Prop where
  closed : s.closed = false
  ready : s.ready = false
  sock : s.sockOpen = true
  cont : s.p.cont = .header
  nosep : findSep Gen.headerSep s.p.buf = none
  short : s.p.buf.length ≤ Gen.headerMax

/-- what the header phase changes: the clock, tick marks on the trace, the parser's buffer -/
structure Idle (s s' : Sys) : Prop where
  cfg : s'.cfg = s.cfg
  react : s'.react = s.react
  env : s'.env = s.env
  sel : s'.selOpen = s.selOpen
  closing : s'.closing = s.closing
  frames : s'.frames = s.frames
  wctr : s'.writeCtr = s.writeCtr
  sock : s'.sockOpen = s.sockOpen
  closed : s'.closed = s.closed
  ready : s'.ready = s.ready
  startTime : s'.startTime = s.startTime
  pollStart : s'.pollStart = s.pollStart
  trace : ∃ l, s'.trace = l ++ s.trace ∧ ∀ o ∈ l, isTick o = true

theorem Idle.refl (s : Sys) : Idle s s := ⟨rfl, rfl, rfl, rfl, rfl, rfl, rfl, rfl, rfl, rfl, rfl, rfl, [], rfl, by simp⟩

theorem Idle.trans {a b c : Sys} (h1 : Idle a b) (h2 : Idle b c) : Idle a c := by
  obtain ⟨l1, e1, n1⟩ := h1.trace
  obtain ⟨l2, e2, n2⟩ := h2.trace
  refine ⟨h2.cfg.trans h1.cfg, h2.react.trans h1.react, h2.env.trans h1.env, h2.sel.trans h1.sel,
    h2.closing.trans h1.closing, h2.frames.trans h1.frames, h2.wctr.trans h1.wctr, h2.sock.trans h1.sock,
    h2.closed.trans h1.closed, h2.ready.trans h1.ready, h2.startTime.trans h1.startTime, h2.pollStart.trans h1.pollStart,
    l2 ++ l1, by rw [e2, e1, List.append_assoc], ?_⟩
  intro o ho
  rcases List.mem_append.mp ho with h | h
  · exact n2 o h
  · exact n1 o h

theorem idle_tick (s : Sys) (d : Nat) : Idle s (tick s d) := by
  refine ⟨rfl, rfl, rfl, rfl, rfl, rfl, rfl, rfl, rfl, rfl, rfl, rfl, ?_⟩
  unfold tick
  by_cases h : d = 0
  · exact ⟨[], by simp [h], by simp⟩
  · exact ⟨[.tick (s.now + d)], by simp [h], by simp [isTick]⟩

theorem idle_bufTo (s : Sys) (bf : Bytes) : Idle s (bufTo s bf) :=
  ⟨rfl, rfl, rfl, rfl, rfl, rfl, rfl, rfl, rfl, rfl, rfl, rfl, [], rfl, by simp⟩

/-- the invariant of the end-to-end lemmas survives the header phase (nothing it mentions changes before Ready) -/
theorem I_idle {s s' : Sys} (h : Idle s s') (hi : I s) (hr : s.ready = false) : I s' :=
  ⟨by rw [h.react]; exact hi.app, by rw [h.cfg]; exact hi.poll, by rw [h.sock, h.closed]; exact hi.sock,
   fun _ => by rw [h.startTime, h.pollStart]; exact hi.nr hr,
   fun hr' => by rw [h.ready, hr] at hr'; cases hr'⟩

theorem tick_hist_nonEv (l : List Obs) (h : ∀ o ∈ l, isTick o = true) : ∀ o ∈ l, Obs.isEv o = false := by
  intro o ho
  have := h o ho
  cases o <;> simp [isTick] at this <;> rfl

theorem Idle.hist {s s' : Sys} (h : Idle s s') : hist s'.trace = hist s.trace := by
  obtain ⟨l, e, n⟩ := h.trace
  rw [e, hist_append, hist_nonEv l (tick_hist_nonEv l n)]; rfl

theorem hp_tick {s : Sys} (h : HP s) (d : Nat) : HP (tick s d) :=
  ⟨h.closed, h.ready, h.sock, h.cont, h.nosep, h.short⟩

theorem hp_bufTo {s : Sys} (h : HP s) (bf : Bytes) (h1 : findSep Gen.headerSep bf = none) (h2 : bf.length ≤ Gen.headerMax) :
    HP (bufTo s bf) :=
  ⟨h.closed, h.ready, h.sock, h.cont, h1, h2⟩

/-- the state after a quiet prefix during which the block stays incomplete -/
def advance : List EnvStep → Sys → Sys
  | [], s => s
  | .wait d none :: r, s => advance r (tick s d)
  | .wait d (some (.data c)) :: r, s => advance r (bufTo (tick s d) ((tick s d).p.buf ++ c))
  | _ :: r, s => advance r s

theorem findSep_prefix_none (sep a x : Bytes) (h : findSep sep (a ++ x) = none) : findSep sep a = none := by
  cases ha : findSep sep a with
  | none => rfl
  | some i => rw [Proxy.findSep_append sep a x i ha] at h; cases h

/-- `selector.wait` returns with nothing to read, before Ready: nothing happens but the clock -/
theorem loop_wait_none (d : Nat) (rest : List EnvStep) (s : Sys) (hc : s.closed = false) (hr : s.ready = false) :
    loop (.wait d none :: rest) s = loop rest (tick s d) := by
  have hrt : regularTop (tick s d) = .ok () (tick s d) := regular_not_ready (tick s d) hr
  rw [loop]
  simp only [hc, Bool.false_eq_true, if_false, hrt]

/-- a read that leaves the header block incomplete and within the limit is buffered, nothing else -/
theorem wsFeed_buffer (c : Bytes) (s : Sys) (h : HP s) (h1 : findSep Gen.headerSep (s.p.buf ++ c) = none)
    (h2 : (s.p.buf ++ c).length ≤ Gen.headerMax) : wsFeed c s = .ok () (bufTo s (s.p.buf ++ c)) := by
  rw [wsFeed_eq]
  simp only [h.closed, Bool.false_eq_true, if_false]
  rw [feedBody_unterminated_short s c h.cont h1 h2]
  rfl

theorem loop_wait_buffer (d : Nat) (c : Bytes) (rest : List EnvStep) (s : Sys) (h : HP s) (hne : c ≠ [])
    (h1 : findSep Gen.headerSep (s.p.buf ++ c) = none) (h2 : (s.p.buf ++ c).length ≤ Gen.headerMax) :
    loop (.wait d (some (.data c)) :: rest) s = loop rest (bufTo (tick s d) ((tick s d).p.buf ++ c)) := by
  rw [loop_wait_data d c rest s (tick s d) h.closed (regular_not_ready (tick s d) h.ready) h.sock hne,
    wsFeed_buffer c (tick s d) (hp_tick h d) h1 h2]

/-- **the header phase**: over a quiet prefix that neither completes the block nor exceeds the limit the
    loop only advances the clock and buffers -/
theorem loop_quiet (pre : List EnvStep) (hq : ∀ st ∈ pre, Quiet st) (rest : List EnvStep) (s : Sys) (h : HP s)
    (h1 : findSep Gen.headerSep (s.p.buf ++ dataOf pre) = none)
    (h2 : (s.p.buf ++ dataOf pre).length ≤ Gen.headerMax) :
    loop (pre ++ rest) s = loop rest (advance pre s) ∧ HP (advance pre s) ∧ Idle s (advance pre s) ∧
      (advance pre s).p.buf = s.p.buf ++ dataOf pre := by
  induction pre generalizing s with
  | nil => exact ⟨rfl, h, Idle.refl s, by simp [advance, dataOf]⟩
  | cons st pre ih =>
    have hqs := hq st (by simp)
    have hq' : ∀ x ∈ pre, Quiet x := fun x hx => hq x (by simp [hx])
    cases st with
    | selErr => exact absurd hqs (by simp [Quiet])
    | wait d o =>
      cases o with
      | none =>
        have e : dataOf (.wait d none :: pre) = dataOf pre := rfl
        rw [e] at h1 h2
        obtain ⟨a, b, c, dd⟩ := ih hq' (tick s d) (hp_tick h d) h1 h2
        exact ⟨by rw [List.cons_append, loop_wait_none d _ s h.closed h.ready]; exact a, b,
          (idle_tick s d).trans c, dd⟩
      | some r =>
        cases r with
        | data c =>
          have hne : c ≠ [] := hqs
          have e : dataOf (.wait d (some (.data c)) :: pre) = c ++ dataOf pre := rfl
          rw [e, ← List.append_assoc] at h1 h2
          have h1c : findSep Gen.headerSep (s.p.buf ++ c) = none := findSep_prefix_none _ _ _ h1
          have h2c : (s.p.buf ++ c).length ≤ Gen.headerMax := by
            have : (s.p.buf ++ c ++ dataOf pre).length = (s.p.buf ++ c).length + (dataOf pre).length := List.length_append
            omega
          have hp' : HP (bufTo (tick s d) ((tick s d).p.buf ++ c)) := hp_bufTo (hp_tick h d) _ h1c h2c
          obtain ⟨a, b, cc, dd⟩ := ih hq' (bufTo (tick s d) ((tick s d).p.buf ++ c)) hp' h1 h2
          refine ⟨by rw [List.cons_append, loop_wait_buffer d c _ s h hne h1c h2c]; exact a, b,
            ((idle_tick s d).trans (idle_bufTo _ _)).trans cc, ?_⟩
          rw [e, ← List.append_assoc]; exact dd
        | eof => exact absurd hqs (by simp [Quiet])
        | sockErr => exact absurd hqs (by simp [Quiet])
        | otherErr => exact absurd hqs (by simp [Quiet])

/-- "complete or over the limit" -/
def Hit (buf : Bytes) : Prop := findSep Gen.headerSep buf ≠ none ∨ buf.length > Gen.headerMax

/-- every quiet script that completes a block or exceeds the limit has a first read doing so -/
theorem split_steps (steps : List EnvStep) (hq : ∀ st ∈ steps, Quiet st) (acc : Bytes)
    (hacc : ¬ Hit acc) (hhit : Hit (acc ++ dataOf steps)) :
    ∃ pre d c post, steps = pre ++ .wait d (some (.data c)) :: post ∧ c ≠ [] ∧ (∀ st ∈ pre, Quiet st) ∧
      ¬ Hit (acc ++ dataOf pre) ∧ Hit (acc ++ dataOf pre ++ c) := by
  induction steps generalizing acc with
  | nil => simp [dataOf] at hhit; exact absurd hhit hacc
  | cons st steps ih =>
    have hqs := hq st (by simp)
    have hq' : ∀ x ∈ steps, Quiet x := fun x hx => hq x (by simp [hx])
    cases st with
    | selErr => exact absurd hqs (by simp [Quiet])
    | wait d o =>
      cases o with
      | none =>
        obtain ⟨pre, d', c, post, e, hc, hp, h1, h2⟩ := ih hq' acc hacc hhit
        exact ⟨.wait d none :: pre, d', c, post, by rw [e]; rfl, hc,
          fun x hx => by rcases List.mem_cons.mp hx with rfl | hx; exact hqs; exact hp x hx, h1, h2⟩
      | some r =>
        cases r with
        | data c =>
          have hne : c ≠ [] := hqs
          by_cases hh : Hit (acc ++ c)
          · exact ⟨[], d, c, steps, rfl, hne, by simp, by simpa [dataOf] using hacc, by simpa [dataOf] using hh⟩
          · have e : dataOf (.wait d (some (.data c)) :: steps) = c ++ dataOf steps := rfl
            rw [e, ← List.append_assoc] at hhit
            obtain ⟨pre, d', c', post, e', hc, hp, h1, h2⟩ := ih hq' (acc ++ c) hh hhit
            refine ⟨.wait d (some (.data c)) :: pre, d', c', post, by rw [e']; rfl, hc,
              fun x hx => by rcases List.mem_cons.mp hx with rfl | hx; exact hqs; exact hp x hx, ?_, ?_⟩
            · have : dataOf (.wait d (some (.data c)) :: pre) = c ++ dataOf pre := rfl
              rw [this, ← List.append_assoc]; exact h1
            · have : dataOf (.wait d (some (.data c)) :: pre) = c ++ dataOf pre := rfl
              rw [this, ← List.append_assoc]; exact h2
        | eof => exact absurd hqs (by simp [Quiet])
        | sockErr => exact absurd hqs (by simp [Quiet])
        | otherErr => exact absurd hqs (by simp [Quiet])

/-! ### the trace only grows -/

def Grows (s s' : Sys) : Prop := ∃ l, s'.trace = l ++ s.trace

theorem Grows.refl (s : Sys) : Grows s s := ⟨[], rfl⟩
theorem Grows.trans {a b c : Sys} (h1 : Grows a b) (h2 : Grows b c) : Grows a c := by
  obtain ⟨l1, e1⟩ := h1
  obtain ⟨l2, e2⟩ := h2
  exact ⟨l2 ++ l1, by rw [e2, e1, List.append_assoc]⟩
theorem Grows.of_step {s s' : Sys} (h : Step s s') : Grows s s' := h.traceExt

theorem grows_selClose (s : Sys) : Grows s (selClose s).state := by
  unfold selClose; split
  · exact ⟨[.selClose], rfl⟩
  · exact ⟨[], rfl⟩

theorem grows_closeSocket (s : Sys) : Grows s (closeSocket s).state := Grows.of_step (step_closeSocket s)

theorem grows_onLoopEnd (r : Option Exn) (s : Sys) : Grows s (onLoopEnd r s).state := by
  have hcy : ∀ e, Grows s ((do closeSocket; yieldEv e : M Unit) s).state := by
    intro e
    exact Grows.of_step (spec_bind step_po step_closeSocket (fun _ => step_yieldEv e) s)
  unfold onLoopEnd
  split
  all_goals first
    | exact hcy _
    | exact Grows.refl s

theorem grows_runFinally (x : Exn) (s : Sys) : Grows s (runFinally x s).state := by
  unfold runFinally
  rw [bind_ok (show getS s = .ok s s from rfl)]
  have h1 : ∃ s1, (if s.cfg.v.cleanup then closeSocket else pure ()) s = .ok () s1 ∧ Grows s s1 := by
    split
    · obtain ⟨s1, h⟩ := closeSocket_ok s
      exact ⟨s1, h, by have := grows_closeSocket s; rw [h] at this; exact this⟩
    · exact ⟨s, rfl, Grows.refl s⟩
  obtain ⟨s1, e1, g1⟩ := h1
  rw [bind_ok e1]
  obtain ⟨s2, e2⟩ := selClose_ok s1
  have g2 : Grows s1 s2 := by have := grows_selClose s1; rw [e2] at this; exact this
  rw [bind_ok e2]
  exact g1.trans g2

/-- `run()` from the `try:` on: what is on the trace when the loop ends stays there -/
theorem grows_after_loop (env : List EnvStep) (sA s4 : Sys) (h : Grows s4 (loop env sA).state) :
    Grows s4 (tryC (do runBody env; selClose) runFinally sA).state := by
  have hb : ∃ r s1, runBody env sA = onLoopEnd r s1 ∧ Grows s4 s1 := by
    cases hl : loop env sA with
    | ok u s1 => rw [hl] at h; exact ⟨none, s1, runBody_of_loop_okV env sA s1 hl, h⟩
    | err y s1 => rw [hl] at h; exact ⟨some y, s1, runBody_of_loop_err env sA s1 y hl, h⟩
  obtain ⟨r, s1, hb, g1⟩ := hb
  have g2 := grows_onLoopEnd r s1
  cases ho : onLoopEnd r s1 with
  | ok u s2 =>
    rw [ho] at g2
    have hrb : runBody env sA = .ok () s2 := hb.trans ho
    cases hs : selClose s2 with
    | ok u' s3 =>
      have g3 := grows_selClose s2; rw [hs] at g3
      rw [tryC_ok (by rw [bind_ok hrb]; exact hs)]
      exact (g1.trans g2).trans g3
    | err x s3 =>
      obtain ⟨s3', e⟩ := selClose_ok s2
      rw [e] at hs; cases hs
  | err x s2 =>
    rw [ho] at g2
    have hrb : runBody env sA = .err x s2 := hb.trans ho
    rw [tryC_err (bind_err hrb)]
    exact (g1.trans g2).trans (grows_runFinally x s2)

/-- `runAll` adds at most an epilogue to the trace of `run()` -/
theorem grows_runAll (cfg : Cfg) (react : React) (env : List EnvStep) :
    Grows (run { cfg := cfg, react := react, env := env }).state (runAll cfg react env) := by
  unfold runAll
  simp only []
  cases hr : run { cfg := cfg, react := react, env := env } with
  | ok u s => exact Grows.refl s
  | err x s =>
    have hcs : Grows s (match closeSocket s with | .ok _ s' => s' | .err _ s' => s') := by
      have := grows_closeSocket s
      cases h : closeSocket s <;> (rw [h] at this; exact this)
    cases x with
    | genExit =>
      simp only [Res.state_err]
      split
      · exact hcs
      · exact Grows.refl s
    | outer y =>
      cases y with
      | genExit =>
        simp only [Res.state_err]
        split
        · exact hcs
        · exact Grows.refl s
      | _ => exact ⟨[.incomplete], rfl⟩
    | _ => exact ⟨[.incomplete], rfl⟩

theorem wsWrap_step (r : Res Unit) : Step r.state (wsWrap r).state := by
  cases r with
  | ok u s => exact step_po.refl s
  | err x s =>
    have h1 := step_feedHandler x s
    unfold wsWrap
    simp only [Res.state_err]
    cases hf : feedHandler x s with
    | ok u s2 => rw [hf] at h1; exact h1
    | err y s2 =>
      rw [hf] at h1
      simp only [Res.state_err] at h1
      exact step_po.trans h1 (step_unwrapOuter y s2)

/-! ### `run()` up to the loop, with the shape of the trace -/

/-- the trace when the loop starts: `Connecting`, results of the application's calls (there is no socket yet),
    the upgrade request, `Connected`, the application's reaction (its own sends) -/
def StartTrace (cfg : Cfg) (proxy : Bool) (t : List Obs) : Prop :=
  ∃ a b, t = a ++ .ev (.connected proxy) :: .wr cfg.request :: (b ++ [.ev .connecting]) ∧
    (∀ o ∈ a, Obs.isEv o = false) ∧ (∀ o ∈ b, Obs.isRes o = true)

theorem run_start' (cfg : Cfg) (react : React) (env : List EnvStep) (proxy : Bool)
    (hc : cfg.connect = .ok proxy) (hw : cfg.writeFails 0 = false) (hp : 0 < cfg.poll) (ha : SendOnly react) :
    ∃ sA, AtLoop cfg react env proxy sA ∧ StartTrace cfg proxy sA.trace ∧
      run { cfg := cfg, react := react, env := env } = tryC (do runBody env; selClose) runFinally sA := by
  let s0 : Sys := { cfg := cfg, react := react, env := env }
  obtain ⟨s1, h1, k1⟩ := yieldEv_send .connecting s0 ha
  have hcc : s1.cfg.connect = .ok proxy := by rw [k1.cfg]; exact hc
  have hso1 : s1.sockOpen = false := k1.sockOpen
  let s2 : Sys := { s1 with sockOpen := true }
  have hwc : s2.cfg.writeFails s2.writeCtr = false := by
    show s1.cfg.writeFails s1.writeCtr = false
    rw [k1.cfg, k1.wctr rfl]; exact hw
  have hwr := write_ok_open s2.cfg.request s2 rfl k1.closed k1.closing hwc
  let s3 : Sys := { s2 with writeCtr := s2.writeCtr + 1, trace := .wr s2.cfg.request :: s2.trace }
  have ha3 : SendOnly s3.react := by show SendOnly s1.react; rw [k1.react]; exact ha
  obtain ⟨s4, h4, k4⟩ := yieldEv_send (.connected proxy) s3 ha3
  have hyc : yieldConnected proxy s3 = .ok () s4 := by
    unfold yieldConnected
    rw [bind_ok (show getS s3 = .ok s3 s3 from rfl)]
    split
    · exact tryC_ok h4
    · exact h4
  let sA : Sys := { s4 with selOpen := true }
  have henv : sA.env = env := by show s4.env = env; rw [k4.env]; show s1.env = env; rw [k1.env]; rfl
  have hcf : sA.cfg = cfg := by show s4.cfg = cfg; rw [k4.cfg]; show s1.cfg = cfg; rw [k1.cfg]; rfl
  refine ⟨sA, ?_, ?_, ?_⟩
  · have hr : sA.ready = false := by show s4.ready = false; rw [k4.ready]; show s1.ready = false; rw [k1.ready]; rfl
    have hst : sA.startTime = none := by show s4.startTime = none; rw [k4.startTime]; show s1.startTime = none; rw [k1.startTime]; rfl
    have hps : sA.pollStart = none := by show s4.pollStart = none; rw [k4.pollStart]; show s1.pollStart = none; rw [k1.pollStart]; rfl
    have hre : sA.react = react := by show s4.react = react; rw [k4.react]; show s1.react = react; rw [k1.react]; rfl
    have hsk : sA.sockOpen = true := by show s4.sockOpen = true; rw [k4.sockOpen]; rfl
    refine ⟨⟨by rw [hre]; exact ha, by rw [hcf]; exact hp, Or.inl hsk, fun _ => ⟨hst, hps⟩,
      fun h => by rw [hr] at h; cases h⟩, hcf, hre, henv, hr, ?_, ?_, hsk, rfl, ?_, ?_, ?_⟩
    · show s4.closed = false; rw [k4.closed]; show s1.closed = false; rw [k1.closed]; rfl
    · show s4.closing = false; rw [k4.closing]; show s1.closing = false; rw [k1.closing]; rfl
    · show s4.p = {}; rw [k4.p]; show s1.p = {}; rw [k1.p]; rfl
    · show s4.frames = []; rw [k4.frames]; show s1.frames = []; rw [k1.frames]; rfl
    · show hist s4.trace = _
      rw [hist_keep k4]
      show hist (.ev (.connected proxy) :: .wr s2.cfg.request :: s1.trace) = _
      rw [hist_cons_ev, hist_cons_nonEv _ _ rfl, hist_keep k1]
      rfl
  · obtain ⟨l1, e1, n1, r1⟩ := k1.trace
    obtain ⟨l4, e4, n4, _⟩ := k4.trace
    have hreq : s2.cfg.request = cfg.request := by show s1.cfg.request = _; rw [k1.cfg]; rfl
    refine ⟨l4, l1, ?_, n4, r1 rfl⟩
    show s4.trace = _
    rw [e4]
    show l4 ++ .ev (.connected proxy) :: .wr s2.cfg.request :: s1.trace = _
    rw [e1, hreq]
    rfl
  · show run s0 = _
    unfold run
    rw [bind_ok h1, bind_ok (show getS s1 = .ok s1 s1 from rfl)]
    simp only [hcc]
    unfold afterConnect
    rw [bind_ok (show modS (fun s => { s with sockOpen := true }) s1 = .ok () s2 from rfl),
      bind_ok (show getS s2 = .ok s2 s2 from rfl), bind_ok hwr]
    have hwe : wsError ActRes.ok = false := by decide
    simp only [hwe, Bool.false_eq_true, if_false]
    rw [bind_ok hyc, bind_ok (show modS (fun s => { s with selOpen := true }) s4 = .ok () sA from rfl)]
    unfold runLoop
    rw [bind_ok (show getS sA = .ok sA sA from rfl), henv]

theorem hp_atLoop {cfg : Cfg} {react : React} {env : List EnvStep} {proxy : Bool} {sA : Sys}
    (hA : AtLoop cfg react env proxy sA) : HP sA :=
  ⟨hA.closed, hA.ready, hA.sock, by rw [hA.p], by rw [hA.p]; decide, by rw [hA.p]; decide⟩


/-! ### the read that completes the header block -/

/-- the state in which `Ready` is yielded: compression switched on as negotiated -/
def readyPrep (acc : Http.Accepted) (s : Sys) : Sys :=
  { s with compression := acc.deflate, decompress := acc.deflate.isSome,
           p := if acc.deflate.isSome then { s.p with compression := true } else s.p }

theorem onOut_accept (s : Sys) (data : Bytes) (acc : Http.Accepted)
    (hok : Http.onResponse s.cfg.v.strictAccept s.cfg.challenge (Http.parseResponse data) = .ok acc) :
    onOut (.header data) s =
      (do feedYield true (.ready acc.protocol acc.deflate.isSome)
          modS (fun s => { s with parsedResponse := true })
          notClosed : M Bool) (readyPrep acc s) := by
  unfold onOut readyPrep
  simp only [bind, M.bind, getS, hok, modS]

/-- **the block is accepted**: `Ready` and the first `Poll` are yielded; whatever the rest of the read does
    is added on top -/
theorem arrive_ready (c : Bytes) (s : Sys) (h : HP s) (hi : I s) (i : Nat) (acc : Http.Accepted)
    (hsome : findSep Gen.headerSep (s.p.buf ++ c) = some i) (hlen : i + 4 ≤ Gen.headerMax)
    (hok : Http.onResponse s.cfg.v.strictAccept s.cfg.challenge
            (Http.parseResponse ((s.p.buf ++ c).take (i + 4))) = .ok acc) :
    ∃ s4, hist s4.trace = .poll :: .ready acc.protocol acc.deflate.isSome :: hist s.trace ∧
      s4.ready = true ∧ Grows s4 (wsFeed c s).state := by
  have hfb := feedBody_terminated_ok s c i h.cont hsome hlen
  have hok' : Http.onResponse (headerDone s).cfg.v.strictAccept (headerDone s).cfg.challenge
      (Http.parseResponse ((s.p.buf ++ c).take (i + 4))) = .ok acc := hok
  have i1 : I (readyPrep acc (headerDone s)) := ⟨hi.app, hi.poll, hi.sock, hi.nr, hi.rd⟩
  obtain ⟨s3, h3, i3, r3, hh3, c3, re3, so3, se3, cl3, cg3, p3, f3⟩ :=
    feedYield_ready true acc.protocol acc.deflate.isSome (readyPrep acc (headerDone s)) i1 h.ready
  let s4 : Sys := { s3 with parsedResponse := true }
  have hcl : s3.closed = false := cl3.trans h.closed
  have hout : onOut (.header ((s.p.buf ++ c).take (i + 4))) (headerDone s) = .ok true s4 := by
    rw [onOut_accept (headerDone s) _ acc hok', bind_ok h3]
    show Res.ok (!s3.closed) s4 = _
    rw [hcl]; rfl
  rw [bind_ok hout] at hfb
  simp only [if_true] at hfb
  have hstep : Step s4 (feedBody c s).state := by
    rw [hfb]
    exact spec_bind step_po (step_feedLoop _) (fun _ => spec_pure step_po ()) s4
  refine ⟨s4, ?_, r3, ?_⟩
  · show hist s3.trace = _
    rw [hh3]; rfl
  · rw [wsFeed_eq]
    simp only [h.closed, Bool.false_eq_true, if_false]
    exact Grows.of_step (step_po.trans hstep (wsWrap_step _))


/-- the state in which `Rejected` is yielded: `on_disconnect()` has closed the socket and the websocket -/
def rejectedPrep (s : Sys) : Sys :=
  { s with parsedResponse := true, sockOpen := false, closing := false, closed := true,
           trace := .sockClose :: s.trace }

theorem onOut_refuse (s : Sys) (data : Bytes) (reason : Http.Str) (hso : s.sockOpen = true)
    (herr : Http.onResponse s.cfg.v.strictAccept s.cfg.challenge (Http.parseResponse data) = .error reason) :
    onOut (.header data) s = (do feedYield true (.rejected reason); pure false : M Bool) (rejectedPrep s) := by
  have hs2 : onDisconnect { s with parsedResponse := true } = .ok () (rejectedPrep s) := by
    simp only [bind, M.bind, modS, onDisconnect, closeSocket, rejectedPrep, hso, if_true]
  unfold onOut
  simp only [bind, M.bind, getS, herr, modS, hs2]

/-- **the block is refused**: the socket is closed, `Rejected(reason)` is yielded, the application's calls in
    reaction only report failure (no byte is written), `WebSocket.feed` returns with the websocket closed -/
theorem arrive_rejected (c : Bytes) (s : Sys) (h : HP s) (hi : I s) (i : Nat) (reason : Http.Str)
    (hsome : findSep Gen.headerSep (s.p.buf ++ c) = some i) (hlen : i + 4 ≤ Gen.headerMax)
    (herr : Http.onResponse s.cfg.v.strictAccept s.cfg.challenge
            (Http.parseResponse ((s.p.buf ++ c).take (i + 4))) = .error reason) :
    ∃ s3 l, wsFeed c s = .ok () s3 ∧ s3.closed = true ∧ s3.sockOpen = false ∧ s3.ready = false ∧
      s3.selOpen = s.selOpen ∧ s3.react = s.react ∧
      s3.trace = l ++ .ev (.rejected reason) :: .sockClose :: s.trace ∧ (∀ o ∈ l, Obs.isRes o = true) := by
  have hfb := feedBody_terminated_ok s c i h.cont hsome hlen
  have herr' : Http.onResponse (headerDone s).cfg.v.strictAccept (headerDone s).cfg.challenge
      (Http.parseResponse ((s.p.buf ++ c).take (i + 4))) = .error reason := herr
  have hso : (headerDone s).sockOpen = true := h.sock
  let s2 : Sys := rejectedPrep (headerDone s)
  have ha2 : SendOnly s2.react := hi.app
  obtain ⟨s3, h3, kk⟩ := yieldEv_send (.rejected reason) s2 ha2
  have hr3 : s3.ready = false := kk.ready.trans h.ready
  have hfy : feedYield true (.rejected reason) s2 = .ok () s3 := by
    unfold feedYield
    apply tryC_ok
    rw [bind_ok (show onEvent (.rejected reason) s2 = .ok () s2 from rfl), bind_ok h3]
    exact regular_not_ready s3 hr3
  have hout : onOut (.header ((s.p.buf ++ c).take (i + 4))) (headerDone s) = .ok false s3 := by
    rw [onOut_refuse (headerDone s) _ reason hso herr', bind_ok hfy]; rfl
  rw [bind_ok hout] at hfb
  simp only [Bool.false_eq_true, if_false] at hfb
  obtain ⟨l, hl, _, hres⟩ := kk.trace
  refine ⟨s3, l, ?_, kk.closed, kk.sockOpen, hr3, kk.selOpen, kk.react, hl, hres rfl⟩
  rw [wsFeed_eq]
  simp only [h.closed, Bool.false_eq_true, if_false]
  rw [hfb]; rfl

/-- **the header material exceeds the limit**: one critical `ProtocolError('expected separator')`, to which
    the application may react (its own sends), then `_ForceDisconnect` -/
theorem arrive_oversize (c : Bytes) (s : Sys) (h : HP s) (hi : I s)
    (hbig : (findSep Gen.headerSep (s.p.buf ++ c) = none ∧ (s.p.buf ++ c).length > Gen.headerMax) ∨
            (∃ i, findSep Gen.headerSep (s.p.buf ++ c) = some i ∧ i + 4 > Gen.headerMax)) :
    ∃ s2 l, wsFeed c s = .err (.forceDisconnect "forced") s2 ∧
      s2.trace = l ++ .ev (.protocolError "expected separator" true) :: s.trace ∧
      (∀ o ∈ l, Obs.isEv o = false) ∧ s2.react = s.react ∧ s2.ready = false := by
  have herr : feedBody c s = .err (.parse "expected separator") { s with p := deadParser s.p } := by
    rcases hbig with ⟨h1, h2⟩ | ⟨i, h1, h2⟩
    · exact feedBody_unterminated_long s c h.cont h1 h2
    · exact feedBody_terminated_long s c i h.cont h1 h2
  have i1 : I { s with p := deadParser s.p } := ⟨hi.app, hi.poll, hi.sock, hi.nr, hi.rd⟩
  obtain ⟨y, s2, l, cw, hh, ht, nl, hcw, hy, hre⟩ :=
    feedHandler_send (.parse "expected separator") "expected separator" true rfl _ i1
  have hcw' : cw = [] := by
    rcases hcw with h0 | ⟨h0, _⟩
    · exact h0
    · cases h0
  have hy' : y = .forceDisconnect "forced" := by
    rcases hy with h0 | ⟨h0, _⟩
    · exact h0
    · cases h0
  subst hcw' hy'
  have hws : wsFeed c s = .err (.forceDisconnect "forced") s2 := by
    rw [wsFeed_of_feedBody_err c s _ _ h.closed herr, tryC_err hh]
    rfl
  refine ⟨s2, l, hws, by simpa using ht, nl, hre, ?_⟩
  obtain ⟨s'', x, hrel, hres⟩ := wsFeed_header_too_long s { s with p := deadParser s.p } c h.closed h.ready herr
  rw [hws] at hres
  cases hres
  rw [hrel.ready]; exact h.ready

/-- the final read seen from the whole script: where the first terminator of all the bytes lies -/
theorem hit_resolve (b c post : Bytes) (i : Nat) (hb : ¬ Hit b) (hhit : Hit (b ++ c))
    (hsep : findSep Gen.headerSep (b ++ c ++ post) = some i) :
    (i + 4 ≤ Gen.headerMax → findSep Gen.headerSep (b ++ c) = some i) ∧
    (i + 4 > Gen.headerMax →
      (findSep Gen.headerSep (b ++ c) = none ∧ (b ++ c).length > Gen.headerMax) ∨
      (∃ j, findSep Gen.headerSep (b ++ c) = some j ∧ j + 4 > Gen.headerMax)) := by
  cases hf : findSep Gen.headerSep (b ++ c) with
  | some j =>
    have := Proxy.findSep_append Gen.headerSep (b ++ c) post j hf
    rw [hsep] at this
    cases this
    exact ⟨fun _ => rfl, fun h => Or.inr ⟨i, rfl, h⟩⟩
  | none =>
    have hl : (b ++ c).length > Gen.headerMax := by
      rcases hhit with h | h
      · exact absurd hf h
      · exact h
    have := Proxy.findSep_append_none Gen.headerSep (b ++ c) post i hf hsep
    have e4 : Gen.headerSep.length = 4 := rfl
    refine ⟨fun h => ?_, fun _ => Or.inl ⟨rfl, hl⟩⟩
    omega


/-! ### `run()` after the loop, with the state of socket and selector -/

/-- `closeSocket; yield e` with a send-only application, then `selector.close()`: socket and selector are
    closed, the trace grows by `post` — the socket being closed (if it was open), the event, results of the
    application's calls (no write: there is no socket), the selector being closed -/
theorem close_yield_sel' (e : Event) (s1 : Sys) (ha : SendOnly s1.react) :
    ∃ sF post, (do (do closeSocket; yieldEv e : M Unit); selClose : M Unit) s1 = .ok () sF ∧
      sF.sockOpen = false ∧ sF.selOpen = false ∧ sF.ready = s1.ready ∧
      sF.trace = post ++ s1.trace ∧ hist post = [e] ∧ (∀ o ∈ post, TailObs e o) ∧
      (s1.sockOpen = false → ∀ o ∈ post, o ≠ .sockClose) := by
  obtain ⟨s2, l2, h2, so2, re2, se2, t2, n2⟩ := E2E.closeSocket_trace s1
  have hr2 : s2.ready = s1.ready := by
    have h2' := h2
    unfold closeSocket at h2'
    split at h2' <;> cases h2' <;> rfl
  obtain ⟨s3, h3, kk⟩ := yieldEv_send e s2 (by rw [re2]; exact ha)
  obtain ⟨l3, t3, n3, r3⟩ := kk.trace
  obtain ⟨s4, hsel, hs1, hs2, _⟩ := selClose_spec s3
  obtain ⟨s4', l4, h4, t4, n4⟩ := selClose_trace s3
  rw [hsel] at h4
  cases h4
  have hr4 : s4.ready = s3.ready := by
    have h4' := hsel
    unfold selClose at h4'
    split at h4' <;> cases h4' <;> rfl
  have hl2 : s1.sockOpen = false → l2 = [] := by
    intro hs
    have hcs : closeSocket s1 = .ok () s1 := by unfold closeSocket; simp [hs]
    rw [hcs] at h2
    cases h2
    have : l2 ++ s1.trace = [] ++ s1.trace := by rw [← t2]; rfl
    exact List.append_cancel_right this
  refine ⟨s4, l4 ++ l3 ++ .ev e :: l2, ?_, ?_, hs2, ?_, ?_, ?_, ?_, ?_⟩
  · rw [bind_ok (show (do closeSocket; yieldEv e : M Unit) s1 = .ok () s3 by rw [bind_ok h2]; exact h3)]
    exact hsel
  · rw [hs1, kk.sockOpen]; exact so2
  · rw [hr4, kk.ready]; exact hr2
  · rw [t4, t3]
    show l4 ++ (l3 ++ .ev e :: s2.trace) = _
    rw [t2]; simp
  · have e4 : hist l4 = [] := hist_nonEv l4 (fun o ho => by rw [n4 o ho]; rfl)
    have e3 : hist l3 = [] := hist_nonEv l3 n3
    have e2 : hist l2 = [] := hist_nonEv l2 (fun o ho => by rw [n2 o ho]; rfl)
    rw [hist_append, hist_append, e4, e3, hist_cons_ev, e2]; rfl
  · intro o ho
    simp only [List.mem_append, List.mem_cons] at ho
    rcases ho with (ho | ho) | ho | ho
    · exact Or.inr (Or.inr (Or.inl (n4 o ho)))
    · exact Or.inr (Or.inr (Or.inr (r3 so2 o ho)))
    · exact Or.inl ho
    · exact Or.inr (Or.inl (n2 o ho))
  · intro hs o ho hoc
    rw [hl2 hs] at ho
    simp only [List.mem_append, List.mem_cons, List.not_mem_nil, or_false] at ho
    rcases ho with (ho | ho) | ho
    · rw [n4 o ho] at hoc; cases hoc
    · have := r3 so2 o ho; rw [hoc] at this; cases this
    · rw [ho] at hoc; cases hoc

theorem finish_err' (env : List EnvStep) (sA s1 : Sys) (y : Exn) (k : String) (hl : loop env sA = .err y s1)
    (hy : y = .forceDisconnect k ∨ y = .socketFail k ∨ y = .other k) (ha : SendOnly s1.react) :
    ∃ sF post, tryC (do runBody env; selClose) runFinally sA = .ok () sF ∧ sF.sockOpen = false ∧ sF.selOpen = false ∧
      sF.ready = s1.ready ∧ sF.trace = post ++ s1.trace ∧ hist post = [.disconnected k false] ∧
      ∀ o ∈ post, TailObs (.disconnected k false) o := by
  obtain ⟨sF, post, h, so, se, rd, t, hh, n, _⟩ := close_yield_sel' (.disconnected k false) s1 ha
  refine ⟨sF, post, ?_, so, se, rd, t, hh, n⟩
  apply tryC_ok
  have hb : runBody env sA = (do closeSocket; yieldEv (.disconnected k false) : M Unit) s1 := by
    rw [runBody_of_loop_err env sA s1 y hl]
    rcases hy with rfl | rfl | rfl <;> rfl
  cases hr : (do closeSocket; yieldEv (.disconnected k false) : M Unit) s1 with
  | ok u s3 =>
    rw [bind_ok hr] at h
    rw [bind_ok (hb.trans hr)]
    exact h
  | err x s3 => rw [bind_err hr] at h; cases h

theorem finish_ok' (env : List EnvStep) (sA s1 : Sys) (hl : loop env sA = .ok () s1) (ha : SendOnly s1.react) :
    ∃ sF post, tryC (do runBody env; selClose) runFinally sA = .ok () sF ∧ sF.sockOpen = false ∧ sF.selOpen = false ∧
      sF.ready = s1.ready ∧ sF.trace = post ++ s1.trace ∧ hist post = [.disconnected "closed" true] ∧
      (∀ o ∈ post, TailObs (.disconnected "closed" true) o) ∧
      (s1.sockOpen = false → ∀ o ∈ post, o ≠ .sockClose) := by
  obtain ⟨sF, post, h, so, se, rd, t, hh, n, nsc⟩ := close_yield_sel' (.disconnected "closed" true) s1 ha
  refine ⟨sF, post, ?_, so, se, rd, t, hh, n, nsc⟩
  apply tryC_ok
  have hb : runBody env sA = (do closeSocket; yieldEv (.disconnected "closed" true) : M Unit) s1 := by
    rw [runBody_of_loop_okV env sA s1 hl]; rfl
  cases hr : (do closeSocket; yieldEv (.disconnected "closed" true) : M Unit) s1 with
  | ok u s3 =>
    rw [bind_ok hr] at h
    rw [bind_ok (hb.trans hr)]
    exact h
  | err x s3 => rw [bind_err hr] at h; cases h

theorem res_nonEv (l : List Obs) (h : ∀ o ∈ l, Obs.isRes o = true) : ∀ o ∈ l, Obs.isEv o = false := by
  intro o ho
  have := h o ho
  cases o <;> simp [Obs.isRes] at this <;> rfl

theorem StartTrace.hist {cfg : Cfg} {proxy : Bool} {t : List Obs} (h : StartTrace cfg proxy t) :
    hist t = [.connected proxy, .connecting] := by
  obtain ⟨a, b, e, na, nb⟩ := h
  rw [e, hist_append, hist_nonEv a na, hist_cons_ev, hist_cons_nonEv _ _ rfl, hist_append,
    hist_nonEv b (res_nonEv b nb)]
  rfl

/-- the only writes on a start trace are the request and what the application sends in reaction to `Connected` -/
theorem tailObs_not_write {e : Event} {o : Obs} (h : TailObs e o) : isWrite o = false := by
  rcases h with h | h | h | h
  · rw [h]; rfl
  · rw [h]; rfl
  · rw [h]; rfl
  · cases o <;> simp [Obs.isRes] at h <;> rfl

theorem tick_not_write {o : Obs} (h : isTick o = true) : isWrite o = false := by
  cases o <;> simp [isTick] at h <;> rfl

theorem res_not_write {o : Obs} (h : Obs.isRes o = true) : isWrite o = false := by
  cases o <;> simp [Obs.isRes] at h <;> rfl

/-! ### from the start of `run()` to the read that decides -/

theorem not_hit_nil : ¬ Hit [] := by
  unfold Hit
  rintro (h | h)
  · exact h (by decide)
  · simp at h

theorem not_hit_iff (b : Bytes) : ¬ Hit b ↔ findSep Gen.headerSep b = none ∧ b.length ≤ Gen.headerMax := by
  unfold Hit
  constructor
  · intro h
    refine ⟨?_, Nat.le_of_not_gt (fun hg => h (Or.inr hg))⟩
    cases hf : findSep Gen.headerSep b with
    | none => rfl
    | some i => exact absurd (Or.inl (by rw [hf]; simp)) h
  · rintro ⟨h1, h2⟩ (h | h)
    · exact h h1
    · omega

/-- **up to the deciding read**: the connection comes up, the request is written, `Connecting` and `Connected`
    are yielded; the quiet script is consumed without any event, write or call of the application until the
    read `c` that completes the block or exceeds the limit arrives, in the header-phase state `s'` -/
theorem reach_final {cfg : Cfg} {react : React} {proxy : Bool} (hs : Setup cfg react proxy)
    (steps rest : List EnvStep) (hq : ∀ st ∈ steps, Quiet st) (hhit : Hit (dataOf steps)) :
    ∃ sA pre d c post s', steps = pre ++ .wait d (some (.data c)) :: post ∧
      AtLoop cfg react (steps ++ rest) proxy sA ∧ StartTrace cfg proxy sA.trace ∧
      run { cfg := cfg, react := react, env := steps ++ rest } =
        tryC (do runBody (steps ++ rest); selClose) runFinally sA ∧
      HP s' ∧ I s' ∧ Idle sA s' ∧ s'.p.buf = dataOf pre ∧ ¬ Hit (dataOf pre) ∧ Hit (dataOf pre ++ c) ∧
      loop (steps ++ rest) sA =
        (match wsFeed c s' with
         | .ok _ s3 => loop (post ++ rest) s3
         | .err x s3 => .err x s3) := by
  obtain ⟨sA, hA, hst, hrun⟩ := run_start' cfg react (steps ++ rest) proxy hs.conn hs.req hs.poll hs.app
  have hpA := hp_atLoop hA
  have hbuf : sA.p.buf = [] := by rw [hA.p]
  obtain ⟨pre, d, c, post, e, hc, hqp, h1, h2⟩ := split_steps steps hq [] not_hit_nil (by simpa using hhit)
  simp only [List.nil_append] at h1 h2
  obtain ⟨hn1, hn2⟩ := (not_hit_iff _).mp h1
  obtain ⟨hloop, hp', hidle, hb'⟩ := loop_quiet pre hqp (.wait d (some (.data c)) :: (post ++ rest)) sA hpA
    (by rw [hbuf]; exact hn1) (by rw [hbuf]; exact hn2)
  rw [hbuf, List.nil_append] at hb'
  refine ⟨sA, pre, d, c, post, tick (advance pre sA) d, e, hA, hst, hrun, hp_tick hp' d,
    I_idle (hidle.trans (idle_tick _ d)) hA.i hA.ready, hidle.trans (idle_tick _ d), hb', h1, h2, ?_⟩
  have e2 : steps ++ rest = pre ++ (.wait d (some (.data c)) :: (post ++ rest)) := by rw [e]; simp
  rw [e2, hloop]
  exact loop_wait_data d c (post ++ rest) (advance pre sA) (tick (advance pre sA) d) hp'.closed
    (regular_not_ready _ hp'.ready) hp'.sock hc

/-- the block, read off the whole script, is what the deciding read completes -/
theorem take_block (b c post : Bytes) (i : Nat) (h : findSep Gen.headerSep (b ++ c) = some i) :
    (b ++ c ++ post).take (i + 4) = (b ++ c).take (i + 4) := by
  have := Proxy.findSep_bound Gen.headerSep (b ++ c) i h
  have e4 : Gen.headerSep.length = 4 := rfl
  exact List.take_append_of_le_length (by omega)

theorem dataOf_split (pre : List EnvStep) (d : Nat) (c : Bytes) (post : List EnvStep) :
    dataOf (pre ++ .wait d (some (.data c)) :: post) = dataOf pre ++ c ++ dataOf post := by
  rw [dataOf_append]
  show dataOf pre ++ (c ++ dataOf post) = _
  rw [List.append_assoc]

/-! ### whole connections -/

/-- **Ready**: the block (the bytes up to the first `CR LF CR LF` of everything the script delivers) fits the
    limit and `on_response` accepts it.  Then the trace of the whole connection ends (oldest part) in a
    segment whose events are exactly Connecting, Connected, Ready(protocol, extensions), Poll. -/
theorem run_ready {cfg : Cfg} {react : React} {proxy : Bool} (hs : Setup cfg react proxy)
    (steps rest : List EnvStep) (hq : ∀ st ∈ steps, Quiet st) (i : Nat) (acc : Http.Accepted)
    (hsep : findSep Gen.headerSep (dataOf steps) = some i) (hlen : i + 4 ≤ Gen.headerMax)
    (hok : Http.onResponse cfg.v.strictAccept cfg.challenge (Http.parseResponse ((dataOf steps).take (i + 4))) = .ok acc) :
    ∃ L T0, (runAll cfg react (steps ++ rest)).trace = L ++ T0 ∧
      hist T0 = [.poll, .ready acc.protocol acc.deflate.isSome, .connected proxy, .connecting] := by
  obtain ⟨sA, pre, d, c, post, s', e, hA, hst, hrun, hp', hi', hidle, hb', h1, h2, hloop⟩ :=
    reach_final hs steps rest hq (Or.inl (by rw [hsep]; simp))
  have hsep' : findSep Gen.headerSep (dataOf pre ++ c ++ dataOf post) = some i := by
    rw [← dataOf_split, ← e]; exact hsep
  have hsome := (hit_resolve (dataOf pre) c (dataOf post) i h1 h2 hsep').1 hlen
  have hblock : (dataOf steps).take (i + 4) = (s'.p.buf ++ c).take (i + 4) := by
    rw [hb', e, dataOf_split]; exact take_block _ _ _ i hsome
  have hcfg : s'.cfg = cfg := hidle.cfg.trans hA.cfg
  obtain ⟨s4, hh4, _, hg4⟩ := arrive_ready c s' hp' hi' i acc (by rw [hb']; exact hsome) hlen
    (by rw [hcfg, ← hblock]; exact hok)
  have hgl : Grows s4 (loop (steps ++ rest) sA).state := by
    rw [hloop]
    cases hw : wsFeed c s' with
    | ok u s3 =>
      rw [hw] at hg4
      exact hg4.trans (Grows.of_step (step_loop _ s3))
    | err x s3 => rw [hw] at hg4; exact hg4
  have hgr := grows_after_loop (steps ++ rest) sA s4 hgl
  rw [← hrun] at hgr
  obtain ⟨L, hL⟩ := hgr.trans (grows_runAll cfg react (steps ++ rest))
  refine ⟨L, s4.trace, hL, ?_⟩
  rw [hh4, hidle.hist, hA.hist]

/-- **Rejected**: the block fits the limit and `on_response` refuses it with `reason`. -/
theorem run_rejected {cfg : Cfg} {react : React} {proxy : Bool} (hs : Setup cfg react proxy)
    (steps rest : List EnvStep) (hq : ∀ st ∈ steps, Quiet st) (i : Nat) (reason : Http.Str)
    (hsep : findSep Gen.headerSep (dataOf steps) = some i) (hlen : i + 4 ≤ Gen.headerMax)
    (herr : Http.onResponse cfg.v.strictAccept cfg.challenge (Http.parseResponse ((dataOf steps).take (i + 4))) = .error reason) :
    ∃ start ticks l post,
      (runAll cfg react (steps ++ rest)).trace = post ++ l ++ .ev (.rejected reason) :: .sockClose :: (ticks ++ start) ∧
      StartTrace cfg proxy start ∧ (∀ o ∈ ticks, isTick o = true) ∧ (∀ o ∈ l, Obs.isRes o = true) ∧
      hist post = [.disconnected "closed" true] ∧ (∀ o ∈ post, TailObs (.disconnected "closed" true) o) ∧
      (∀ o ∈ post, o ≠ .sockClose) ∧
      (runAll cfg react (steps ++ rest)).sockOpen = false ∧ (runAll cfg react (steps ++ rest)).selOpen = false ∧
      (runAll cfg react (steps ++ rest)).ready = false := by
  obtain ⟨sA, pre, d, c, post, s', e, hA, hst, hrun, hp', hi', hidle, hb', h1, h2, hloop⟩ :=
    reach_final hs steps rest hq (Or.inl (by rw [hsep]; simp))
  have hsep' : findSep Gen.headerSep (dataOf pre ++ c ++ dataOf post) = some i := by
    rw [← dataOf_split, ← e]; exact hsep
  have hsome := (hit_resolve (dataOf pre) c (dataOf post) i h1 h2 hsep').1 hlen
  have hblock : (dataOf steps).take (i + 4) = (s'.p.buf ++ c).take (i + 4) := by
    rw [hb', e, dataOf_split]; exact take_block _ _ _ i hsome
  have hcfg : s'.cfg = cfg := hidle.cfg.trans hA.cfg
  obtain ⟨s3, l, hw, hcl, hso, hrd, hse, hre, ht, hres⟩ := arrive_rejected c s' hp' hi' i reason
    (by rw [hb']; exact hsome) hlen (by rw [hcfg, ← hblock]; exact herr)
  rw [hw] at hloop
  simp only [] at hloop
  rw [loop_closed _ s3 hcl] at hloop
  have ha3 : SendOnly s3.react := by rw [hre]; exact hi'.app
  obtain ⟨sF, pst, hF, soF, seF, rdF, tF, hhF, nF, nsc⟩ := finish_ok' _ sA s3 hloop ha3
  have hall := runAll_ok cfg react _ sF (hrun.trans hF)
  obtain ⟨ticks, htk, ntk⟩ := hidle.trace
  have hrF : sF.ready = false := rdF.trans hrd
  refine ⟨sA.trace, ticks, l, pst, ?_, hst, ntk, hres, hhF, nF, nsc hso, by rw [hall]; exact soF,
    by rw [hall]; exact seF, by rw [hall]; exact hrF⟩
  rw [hall, tF, ht, htk]; simp


/-- **ProtocolError**: the header material exceeds 16 KiB — terminated beyond the limit, or not terminated. -/
theorem run_oversize {cfg : Cfg} {react : React} {proxy : Bool} (hs : Setup cfg react proxy)
    (steps rest : List EnvStep) (hq : ∀ st ∈ steps, Quiet st)
    (hbig : (findSep Gen.headerSep (dataOf steps) = none ∧ (dataOf steps).length > Gen.headerMax) ∨
            (∃ i, findSep Gen.headerSep (dataOf steps) = some i ∧ i + 4 > Gen.headerMax)) :
    ∃ start ticks l post,
      (runAll cfg react (steps ++ rest)).trace =
        post ++ l ++ .ev (.protocolError "expected separator" true) :: (ticks ++ start) ∧
      StartTrace cfg proxy start ∧ (∀ o ∈ ticks, isTick o = true) ∧ (∀ o ∈ l, Obs.isEv o = false) ∧
      hist post = [.disconnected "forced" false] ∧ (∀ o ∈ post, TailObs (.disconnected "forced" false) o) ∧
      (runAll cfg react (steps ++ rest)).sockOpen = false ∧ (runAll cfg react (steps ++ rest)).selOpen = false ∧
      (runAll cfg react (steps ++ rest)).ready = false := by
  have hhit : Hit (dataOf steps) := by
    rcases hbig with ⟨_, h⟩ | ⟨i, h, _⟩
    · exact Or.inr h
    · exact Or.inl (by rw [h]; simp)
  obtain ⟨sA, pre, d, c, post, s', e, hA, hst, hrun, hp', hi', hidle, hb', h1, h2, hloop⟩ :=
    reach_final hs steps rest hq hhit
  have hds : dataOf steps = dataOf pre ++ c ++ dataOf post := by rw [e, dataOf_split]
  have hbig' : (findSep Gen.headerSep (s'.p.buf ++ c) = none ∧ (s'.p.buf ++ c).length > Gen.headerMax) ∨
      (∃ i, findSep Gen.headerSep (s'.p.buf ++ c) = some i ∧ i + 4 > Gen.headerMax) := by
    rw [hb']
    rcases hbig with ⟨hn, _⟩ | ⟨i, hi, hgt⟩
    · rw [hds] at hn
      have hn' := findSep_prefix_none _ _ _ hn
      rcases h2 with h | h
      · exact absurd hn' h
      · exact Or.inl ⟨hn', h⟩
    · rw [hds] at hi
      exact (hit_resolve (dataOf pre) c (dataOf post) i h1 h2 hi).2 hgt
  obtain ⟨s2, l, hw, ht, nl, hre, hr2⟩ := arrive_oversize c s' hp' hi' hbig'
  rw [hw] at hloop
  simp only [] at hloop
  have ha2 : SendOnly s2.react := by rw [hre]; exact hi'.app
  obtain ⟨sF, pst, hF, soF, seF, rdF, tF, hhF, nF⟩ :=
    finish_err' _ sA s2 (.forceDisconnect "forced") "forced" hloop (Or.inl rfl) ha2
  have hall := runAll_ok cfg react _ sF (hrun.trans hF)
  obtain ⟨ticks, htk, ntk⟩ := hidle.trace
  refine ⟨sA.trace, ticks, l, pst, ?_, hst, ntk, nl, hhF, nF, by rw [hall]; exact soF,
    by rw [hall]; exact seF, by rw [hall]; exact rdF.trans hr2⟩
  rw [hall, tF, ht, htk]; simp


/-! ### small things used by the property file -/

/-- the header block of a byte stream whose first terminator starts at `i` -/
def blockOf (data : Bytes) (i : Nat) : Bytes := data.take (i + 4)

theorem four_noMsg (a b c d : Event) (ha : Monitor.Event.needsReady a = false) (hb : Monitor.Event.needsReady b = false)
    (hc : Monitor.Event.needsReady c = false) (hd : Monitor.Event.needsReady d = false) :
    ∀ e ∈ [a, b, c, d], Monitor.Event.needsReady e = false := by
  intro e he
  simp only [List.mem_cons, List.not_mem_nil, or_false] at he
  rcases he with rfl | rfl | rfl | rfl <;> assumption

open Lomond.Spec Lomond.Http in
/-- the rendered reply is the block of every stream that starts with it -/
theorem blockOf_render (sl : Bytes) (fs : List FField) (hsl : ∀ c ∈ sl, c ≠ 13) (hok : ∀ f ∈ fs, FOk f)
    (stream : Bytes) :
    ∃ i, findSep Gen.headerSep (renderReply2 sl fs ++ stream) = some i ∧ i + 4 = (renderReply2 sl fs).length ∧
      blockOf (renderReply2 sl fs ++ stream) i = renderReply2 sl fs := by
  obtain ⟨i, h1, h2⟩ := findSep_renderReply2 sl fs hsl hok stream
  refine ⟨i, h1, h2, ?_⟩
  unfold blockOf
  rw [h2]
  exact List.take_left' rfl

end Lomond.Core.HRun

namespace Lomond.Core.Monitor
open Lomond Lomond.Core

/-- once `Ready` has been yielded, a well-formed event sequence contains no `Rejected` -/
theorem Mon.no_rejected_after_ready {ph : Phase} {a b : List Event} {x : Option Http.Str} {d : Bool}
    (h : Mon.run .start (a ++ .ready x d :: b) = some ph) : ∀ r, Event.rejected r ∉ b := by
  obtain ⟨p, q, _, hs, hb⟩ := Mon.run_split h
  obtain ⟨_, rfl⟩ := Mon.step_ready hs
  intro r hm
  obtain ⟨b1, b2, rfl⟩ := List.append_of_mem hm
  obtain ⟨p1, q1, hb1, hs1, _⟩ := Mon.run_split hb
  have hr := Mon.run_mono hb1
  cases p1 <;> simp [Phase.rank] at hr <;> simp [Mon.step] at hs1

end Lomond.Core.Monitor
